(* Generic JSON as Go's encoding/json (Go 1.23) prints and reads it.  Model file: definitions
   and examples only; theorems in JsonProofs.v.

   [jvalue] is a document tree.  Numbers keep their decimal text (json.Number), strings are
   byte strings (Go strings), object members keep their order and duplicates.

   [json_print v] = the bytes json.Marshal emits for such a tree (compact, HTML escaping on,
   encode.go appendString):
     - the quote character (0x22) and the backslash get a backslash; 08 0c 0a 0d 09 are \b \f \n \r \t; every other byte below
       0x20 and '<' '>' '&' are \u00XX with lower-case hex digits; 0x7f and all other ASCII as is;
     - a valid UTF-8 sequence (utf8.DecodeRune: shortest form, no surrogates, <= U+10FFFF) is
       copied, except U+2028 / U+2029 which are printed as \u2028 / \u2029;
     - every byte that does not start a valid sequence is printed as \ufffd (so only valid UTF-8
       strings survive a round trip);
     - [JNum text] prints the text (Marshal refuses a json.Number that is no JSON number; the
       model prints it anyway: outside the domain, see [is_number]).

   [json_parse text] = json.Unmarshal into interface{} with UseNumber (scanner.go checkValid
   followed by decode.go), as a tree:
     - white space (20 09 0a 0d) around every token; exactly one value, nothing after it;
     - literals null true false; numbers: optional minus, 0 or a nonzero digit and digits, optional . and digits,
       optional e/E with optional sign and digits,
       kept as text;
     - strings: bytes below 0x20 are refused; escapes \'' \\ \/ \b \f \n \r \t \uXXXX (hex digits of
       either case); a \uXXXX that is a high surrogate followed by a \uXXXX low surrogate is one
       code point, any other surrogate is U+FFFD; raw bytes that do not form a valid UTF-8 sequence
       become U+FFFD one by one (unquote coerces to well-formed UTF-8);
     - arrays, objects (keys are strings; duplicates kept here, in order: encoding/json processes
       them in order, into a map the last one wins, see [canon]); no trailing commas;
     - at most 10000 nested arrays / objects (scanner maxNestingDepth).
   Results: [POk v], [PErr] (any syntax error) and [PFuel]; JsonProofs.json_parse_total shows
   that [json_parse] never returns [PFuel]. *)
From Coq Require Import List NArith ZArith Bool Arith.
Import ListNotations.
Open Scope N_scope.

Inductive jvalue :=
| JNull
| JBool (b : bool)
| JNum (text : list N)
| JStr (s : list N)
| JArr (l : list jvalue)
| JObj (l : list (list N * jvalue)).

Inductive presult (A : Type) := POk (a : A) | PErr | PFuel.
Arguments POk {A} a.
Arguments PErr {A}.
Arguments PFuel {A}.

(* ---- UTF-8 (utf8.DecodeRune accepts exactly these sequences) ---- *)
Definition cont (b : N) : bool := (128 <=? b) && (b <=? 191).
Definition two_ok (b0 b1 : N) : bool := (194 <=? b0) && (b0 <? 224) && cont b1.
Definition three_ok (b0 b1 b2 : N) : bool :=
  (224 <=? b0) && (b0 <? 240)
  && ((if b0 =? 224 then 160 else 128) <=? b1) && (b1 <=? (if b0 =? 237 then 159 else 191))
  && cont b2.
Definition four_ok (b0 b1 b2 b3 : N) : bool :=
  (240 <=? b0) && (b0 <? 245)
  && ((if b0 =? 240 then 144 else 128) <=? b1) && (b1 <=? (if b0 =? 244 then 143 else 191))
  && cont b2 && cont b3.

Fixpoint utf8_valid (s : list N) : bool :=
  match s with
  | [] => true
  | b0 :: r0 =>
    if b0 <? 128 then utf8_valid r0
    else match r0 with
         | b1 :: r1 =>
           if two_ok b0 b1 then utf8_valid r1
           else match r1 with
                | b2 :: r2 =>
                  if three_ok b0 b1 b2 then utf8_valid r2
                  else match r2 with
                       | b3 :: r3 => if four_ok b0 b1 b2 b3 then utf8_valid r3 else false
                       | [] => false
                       end
                | [] => false
                end
         | [] => false
         end
  end.

(* utf8.EncodeRune for a code point that is no surrogate and at most U+10FFFF *)
Definition encode_rune (c : N) : list N :=
  if c <? 128 then [c]
  else if c <? 2048 then [192 + c / 64; 128 + c mod 64]
  else if c <? 65536 then [224 + c / 4096; 128 + c / 64 mod 64; 128 + c mod 64]
  else [240 + c / 262144; 128 + c / 4096 mod 64; 128 + c / 64 mod 64; 128 + c mod 64].

Definition fffd : list N := [239; 191; 189].                     (* U+FFFD in UTF-8 *)
Definition esc_fffd : list N := [92; 117; 102; 102; 102; 100].   (* \ufffd *)

(* ---- printing ---- *)
Definition hexd (n : N) : N := if n <? 10 then 48 + n else 87 + n.

Definition esc_byte (b : N) : list N :=
  if b =? 34 then [92; 34]
  else if b =? 92 then [92; 92]
  else if b =? 8 then [92; 98]
  else if b =? 12 then [92; 102]
  else if b =? 10 then [92; 110]
  else if b =? 13 then [92; 114]
  else if b =? 9 then [92; 116]
  else if (b <? 32) || (b =? 60) || (b =? 62) || (b =? 38) then [92; 117; 48; 48; hexd (b / 16); hexd (b mod 16)]
  else [b].

(* U+2028 / U+2029 are e2 80 a8 / e2 80 a9 *)
Definition is_line_sep (b0 b1 b2 : N) : bool := (b0 =? 226) && (b1 =? 128) && ((b2 =? 168) || (b2 =? 169)).

Fixpoint esc_string (s : list N) : list N :=
  match s with
  | [] => []
  | b0 :: r0 =>
    if b0 <? 128 then esc_byte b0 ++ esc_string r0
    else match r0 with
         | b1 :: r1 =>
           if two_ok b0 b1 then b0 :: b1 :: esc_string r1
           else match r1 with
                | b2 :: r2 =>
                  if three_ok b0 b1 b2 then
                    (if is_line_sep b0 b1 b2 then [92; 117; 50; 48; 50; hexd (b2 - 160)] else [b0; b1; b2])
                    ++ esc_string r2
                  else match r2 with
                       | b3 :: r3 =>
                         if four_ok b0 b1 b2 b3 then b0 :: b1 :: b2 :: b3 :: esc_string r3
                         else esc_fffd ++ esc_string r0
                       | [] => esc_fffd ++ esc_string r0
                       end
                | [] => esc_fffd ++ esc_string r0
                end
         | [] => esc_fffd ++ esc_string r0
         end
  end.

Definition print_string (s : list N) : list N := 34 :: esc_string s ++ [34].

Fixpoint json_print (v : jvalue) : list N :=
  match v with
  | JNull => [110; 117; 108; 108]
  | JBool true => [116; 114; 117; 101]
  | JBool false => [102; 97; 108; 115; 101]
  | JNum t => t
  | JStr s => print_string s
  | JArr l =>
    91 :: (fix elems (l : list jvalue) : list N :=
             match l with
             | [] => [93]
             | v :: l' => json_print v ++ match l' with [] => [93] | _ :: _ => 44 :: elems l' end
             end) l
  | JObj l =>
    123 :: (fix members (l : list (list N * jvalue)) : list N :=
              match l with
              | [] => [125]
              | (k, v) :: l' =>
                print_string k ++ 58 :: json_print v ++ match l' with [] => [125] | _ :: _ => 44 :: members l' end
              end) l
  end.

(* the two local loops, named (same definitions; JsonProofs.json_print_arr / json_print_obj) *)
Fixpoint print_elems (l : list jvalue) : list N :=
  match l with
  | [] => [93]
  | v :: l' => json_print v ++ match l' with [] => [93] | _ :: _ => 44 :: print_elems l' end
  end.
Fixpoint print_members (l : list (list N * jvalue)) : list N :=
  match l with
  | [] => [125]
  | (k, v) :: l' =>
    print_string k ++ 58 :: json_print v ++ match l' with [] => [125] | _ :: _ => 44 :: print_members l' end
  end.

(* ---- reading ---- *)
Definition is_ws (c : N) : bool := (c =? 32) || (c =? 9) || (c =? 10) || (c =? 13).
Fixpoint skip_ws (s : list N) : list N :=
  match s with
  | c :: r => if is_ws c then skip_ws r else s
  | [] => []
  end.

Definition is_digit (c : N) : bool := (48 <=? c) && (c <=? 57).

(* longest run of digits *)
Fixpoint digits (s : list N) : list N * list N :=
  match s with
  | c :: r => if is_digit c then let '(ds, r') := digits r in (c :: ds, r') else ([], s)
  | [] => ([], [])
  end.

Definition is_nil {A} (l : list A) : bool := match l with [] => true | _ => false end.

(* scanner states neg / 0 / 1 / dot / dot0 / E / ESign / E0, as three parts that each return (part, rest);
   [None]: a number that starts here is malformed (''1.'' ''1e'' ''-'' ...) *)
Definition scan_int (s : list N) : option (list N * list N) :=
  match s with
  | [] => None
  | c :: r =>
    if c =? 48 then Some ([48], r)
    else if is_digit c then let '(ds, r') := digits r in Some (c :: ds, r')
    else None
  end.

Definition scan_frac (s : list N) : option (list N * list N) :=
  match s with
  | d :: r =>
    if d =? 46 then
      let '(fs, r') := digits r in if is_nil fs then None else Some (46 :: fs, r')
    else Some ([], s)
  | [] => Some ([], s)
  end.

Definition scan_sign (s : list N) : list N * list N :=
  match s with
  | g :: r => if (g =? 43) || (g =? 45) then ([g], r) else ([], s)
  | [] => ([], s)
  end.

Definition scan_exp (s : list N) : option (list N * list N) :=
  match s with
  | e :: r =>
    if (e =? 101) || (e =? 69) then
      let '(sg, r1) := scan_sign r in
      let '(es, r2) := digits r1 in
      if is_nil es then None else Some (e :: sg ++ es, r2)
    else Some ([], s)
  | [] => Some ([], s)
  end.

Definition scan_number (s : list N) : option (list N * list N) :=
  let '(sign, s1) := match s with c :: r => if c =? 45 then ([45], r) else ([], s) | [] => ([], s) end in
  match scan_int s1 with
  | None => None
  | Some (ip, r1) =>
    match scan_frac r1 with
    | None => None
    | Some (fp, r2) =>
      match scan_exp r2 with
      | None => None
      | Some (ep, r3) => Some (sign ++ ip ++ fp ++ ep, r3)
      end
    end
  end.

(* the JSON number grammar (encode.go isValidNumber agrees: compared on every JNum case) *)
Definition is_number (t : list N) : bool :=
  match scan_number t with
  | Some (_, r) => is_nil r
  | None => false
  end.

Definition hexval (c : N) : option N :=
  if is_digit c then Some (c - 48)
  else if (97 <=? c) && (c <=? 102) then Some (c - 87)
  else if (65 <=? c) && (c <=? 70) then Some (c - 55)
  else None.

Definition hex4 (a b c d : N) : option N :=
  match hexval a, hexval b, hexval c, hexval d with
  | Some x, Some y, Some z, Some w => Some (x * 4096 + y * 256 + z * 16 + w)
  | _, _, _, _ => None
  end.

Definition pcons {A} (bs : list N) (x : presult (list N * A)) : presult (list N * A) :=
  match x with
  | POk (s, r) => POk (bs ++ s, r)
  | PErr => PErr
  | PFuel => PFuel
  end.

Definition simple_escape (e : N) : option N :=
  if e =? 34 then Some 34 else if e =? 92 then Some 92 else if e =? 47 then Some 47
  else if e =? 98 then Some 8 else if e =? 102 then Some 12 else if e =? 110 then Some 10
  else if e =? 114 then Some 13 else if e =? 116 then Some 9 else None.

Definition is_surrogate (c : N) : bool := (55296 <=? c) && (c <? 57344).
Definition is_high (c : N) : bool := (55296 <=? c) && (c <? 56320).
Definition is_low (c : N) : bool := (56320 <=? c) && (c <? 57344).

(* the string after its opening quote: (content, what follows the closing quote) *)
Fixpoint parse_str (s : list N) : presult (list N * list N) :=
  match s with
  | [] => PErr
  | c :: r =>
    if c =? 34 then POk ([], r)
    else if c <? 32 then PErr
    else if c =? 92 then
      match r with
      | [] => PErr
      | e :: r1 =>
        if e =? 117 then
          match r1 with
          | h1 :: h2 :: h3 :: h4 :: r2 =>
            match hex4 h1 h2 h3 h4 with
            | None => PErr
            | Some rr =>
              if is_surrogate rr then
                match r2 with
                | q :: u :: g1 :: g2 :: g3 :: g4 :: r3 =>
                  match (if (q =? 92) && (u =? 117) then hex4 g1 g2 g3 g4 else None) with
                  | Some rr1 =>
                    if is_high rr && is_low rr1
                    then pcons (encode_rune ((rr - 55296) * 1024 + (rr1 - 56320) + 65536)) (parse_str r3)
                    else pcons fffd (parse_str r2)
                  | None => pcons fffd (parse_str r2)
                  end
                | _ => pcons fffd (parse_str r2)
                end
              else pcons (encode_rune rr) (parse_str r2)
            end
          | _ => PErr
          end
        else match simple_escape e with
             | Some b => pcons [b] (parse_str r1)
             | None => PErr
             end
      end
    else if c <? 128 then pcons [c] (parse_str r)
    else match r with
         | b1 :: r1 =>
           if two_ok c b1 then pcons [c; b1] (parse_str r1)
           else match r1 with
                | b2 :: r2 =>
                  if three_ok c b1 b2 then pcons [c; b1; b2] (parse_str r2)
                  else match r2 with
                       | b3 :: r3 =>
                         if four_ok c b1 b2 b3 then pcons [c; b1; b2; b3] (parse_str r3)
                         else pcons fffd (parse_str r)
                       | [] => pcons fffd (parse_str r)
                       end
                | [] => pcons fffd (parse_str r)
                end
         | [] => pcons fffd (parse_str r)
         end
  end.

(* the rest of [s] after the prefix [l], if [s] starts with it *)
Fixpoint lit (l s : list N) : option (list N) :=
  match l with
  | [] => Some s
  | x :: l' => match s with y :: s' => if x =? y then lit l' s' else None | [] => None end
  end.

Definition max_depth : nat := N.to_nat 10000.

(* [depth] = number of arrays / objects open around this value *)
Fixpoint parse_value (fuel depth : nat) (s : list N) : presult (jvalue * list N) :=
  match fuel with
  | O => PFuel
  | S f =>
    match s with
    | [] => PErr
    | c :: r =>
      if c =? 110 then match lit [117; 108; 108] r with Some r' => POk (JNull, r') | None => PErr end
      else if c =? 116 then match lit [114; 117; 101] r with Some r' => POk (JBool true, r') | None => PErr end
      else if c =? 102 then match lit [97; 108; 115; 101] r with Some r' => POk (JBool false, r') | None => PErr end
      else if c =? 34 then
        match parse_str r with
        | POk (str, r') => POk (JStr str, r')
        | PErr => PErr
        | PFuel => PFuel
        end
      else if c =? 91 then
        if Nat.leb max_depth depth then PErr
        else match skip_ws r with
             | c1 :: r1 =>
               if c1 =? 93 then POk (JArr [], r1)
               else match parse_elems f (S depth) (c1 :: r1) with
                    | POk (l, r') => POk (JArr l, r')
                    | PErr => PErr
                    | PFuel => PFuel
                    end
             | [] => PErr
             end
      else if c =? 123 then
        if Nat.leb max_depth depth then PErr
        else match skip_ws r with
             | c1 :: r1 =>
               if c1 =? 125 then POk (JObj [], r1)
               else match parse_members f (S depth) (c1 :: r1) with
                    | POk (l, r') => POk (JObj l, r')
                    | PErr => PErr
                    | PFuel => PFuel
                    end
             | [] => PErr
             end
      else if (c =? 45) || is_digit c then
        match scan_number s with
        | Some (t, r') => POk (JNum t, r')
        | None => PErr
        end
      else PErr
    end
  end
(* value (ws , ws value)* ws ] ; [s] starts at the first value *)
with parse_elems (fuel depth : nat) (s : list N) : presult (list jvalue * list N) :=
  match fuel with
  | O => PFuel
  | S f =>
    match parse_value f depth s with
    | POk (v, r) =>
      match skip_ws r with
      | c :: r1 =>
        if c =? 44 then
          match parse_elems f depth (skip_ws r1) with
          | POk (l, r') => POk (v :: l, r')
          | PErr => PErr
          | PFuel => PFuel
          end
        else if c =? 93 then POk ([v], r1)
        else PErr
      | [] => PErr
      end
    | PErr => PErr
    | PFuel => PFuel
    end
  end
(* string ws : ws value (ws , ws string ...)* ws } ; [s] starts at the first key *)
with parse_members (fuel depth : nat) (s : list N) : presult (list (list N * jvalue) * list N) :=
  match fuel with
  | O => PFuel
  | S f =>
    match s with
    | q :: r0 =>
      if q =? 34 then
        match parse_str r0 with
        | POk (k, r) =>
          match skip_ws r with
          | c :: r1 =>
            if c =? 58 then
              match parse_value f depth (skip_ws r1) with
              | POk (v, r2) =>
                match skip_ws r2 with
                | c2 :: r3 =>
                  if c2 =? 44 then
                    match parse_members f depth (skip_ws r3) with
                    | POk (l, r') => POk ((k, v) :: l, r')
                    | PErr => PErr
                    | PFuel => PFuel
                    end
                  else if c2 =? 125 then POk ([(k, v)], r3)
                  else PErr
                | [] => PErr
                end
              | PErr => PErr
              | PFuel => PFuel
              end
            else PErr
          | [] => PErr
          end
        | PErr => PErr
        | PFuel => PFuel
        end
      else PErr
    | [] => PErr
    end
  end.

Definition json_fuel (text : list N) : nat := 2 * length text + 1.

Definition json_parse (text : list N) : presult jvalue :=
  match parse_value (json_fuel text) 0 (skip_ws text) with
  | POk (v, r) => if is_nil (skip_ws r) then POk v else PErr
  | PErr => PErr
  | PFuel => PFuel
  end.

(* ---- well-formed trees: what survives print -> parse ---- *)
Fixpoint jdepth (v : jvalue) : nat :=
  match v with
  | JArr l => S (fold_right (fun x m => Nat.max (jdepth x) m) O l)
  | JObj l => S (fold_right (fun kv m => Nat.max (jdepth (snd kv)) m) O l)
  | _ => O
  end.

(* number texts are JSON numbers, strings and keys are valid UTF-8 *)
Fixpoint jwf (v : jvalue) : bool :=
  match v with
  | JNull | JBool _ => true
  | JNum t => is_number t
  | JStr s => utf8_valid s
  | JArr l => forallb jwf l
  | JObj l => forallb (fun kv => utf8_valid (fst kv) && jwf (snd kv)) l
  end.

(* ---- what decoding into interface{} keeps of an object: a map (last duplicate wins); printed
   back by Marshal with the keys sorted bytewise ---- *)
Fixpoint bytes_ltb (a b : list N) : bool :=
  match a, b with
  | [], [] => false
  | [], _ :: _ => true
  | _ :: _, [] => false
  | x :: a', y :: b' => if x <? y then true else if y <? x then false else bytes_ltb a' b'
  end.

Fixpoint minsert (k : list N) (v : jvalue) (m : list (list N * jvalue)) : list (list N * jvalue) :=
  match m with
  | [] => [(k, v)]
  | (k', v') :: m' =>
    if bytes_ltb k k' then (k, v) :: m
    else if bytes_ltb k' k then (k', v') :: minsert k v m'
    else (k, v) :: m'
  end.

Fixpoint canon (v : jvalue) : jvalue :=
  match v with
  | JArr l => JArr (map canon l)
  | JObj l => JObj (fold_left (fun m kv => minsert (fst kv) (snd kv) m)
                              (map (fun kv => match kv with (k, x) => (k, canon x) end) l) [])
  | _ => v
  end.

(* ---- integers as strconv.AppendInt with base 10 prints them (Go int fields) ---- *)
Fixpoint jdec_rev (fuel : nat) (u : Z) : list N :=
  match fuel with
  | O => []
  | S f => if (u <? 10)%Z then [Z.to_N (48 + u)] else Z.to_N (48 + u mod 10) :: jdec_rev f (u / 10)
  end.
Definition print_int (z : Z) : list N :=
  (if (z <? 0)%Z then [45] else []) ++ rev (jdec_rev 20 (Z.abs z)).
Definition jint (z : Z) : jvalue := JNum (print_int z).

(* ---- equality of trees (for the case checker) ---- *)
Fixpoint bytes_eqb' (a b : list N) : bool :=
  match a, b with
  | [], [] => true
  | x :: a', y :: b' => (x =? y) && bytes_eqb' a' b'
  | _, _ => false
  end.

Fixpoint jvalue_eqb (a b : jvalue) : bool :=
  match a, b with
  | JNull, JNull => true
  | JBool x, JBool y => Bool.eqb x y
  | JNum x, JNum y => bytes_eqb' x y
  | JStr x, JStr y => bytes_eqb' x y
  | JArr x, JArr y =>
    (fix go (x y : list jvalue) : bool :=
       match x, y with
       | [], [] => true
       | u :: x', w :: y' => jvalue_eqb u w && go x' y'
       | _, _ => false
       end) x y
  | JObj x, JObj y =>
    (fix go (x y : list (list N * jvalue)) : bool :=
       match x, y with
       | [], [] => true
       | (k, u) :: x', (k', w) :: y' => bytes_eqb' k k' && jvalue_eqb u w && go x' y'
       | _, _ => false
       end) x y
  | _, _ => false
  end.

(* ---- examples ---- *)
(* {''a'':[null,true,false,-1.5e+3,''x\''\\\n<\u2028>e-acute''],'''':{}} *)
Definition ex_tree : jvalue :=
  JObj [([97], JArr [JNull; JBool true; JBool false; JNum [45; 49; 46; 53; 101; 43; 51];
                     JStr [120; 34; 92; 10; 60; 226; 128; 168; 62; 195; 169]]);
        ([], JObj [])].
Definition ex_text : list N :=
  [123; 34; 97; 34; 58; 91; 110; 117; 108; 108; 44; 116; 114; 117; 101; 44; 102; 97; 108; 115; 101; 44;
   45; 49; 46; 53; 101; 43; 51; 44;
   34; 120; 92; 34; 92; 92; 92; 110; 92; 117; 48; 48; 51; 99; 92; 117; 50; 48; 50; 56; 92; 117; 48; 48; 51; 101; 195; 169; 34;
   93; 44; 34; 34; 58; 123; 125; 125].
Example print_example : json_print ex_tree = ex_text.
Proof. vm_compute. reflexivity. Qed.
Example parse_example : json_parse ex_text = POk ex_tree.
Proof. vm_compute. reflexivity. Qed.
Example wf_example : jwf ex_tree = true.
Proof. vm_compute. reflexivity. Qed.

(* a lone ff byte is printed as \ufffd; white space; \ud83d\ude00 is one code point; a lone surrogate is U+FFFD;
   duplicate keys are kept in order and the last one wins in a map *)
Example more_examples :
  (json_print (JStr [97; 255; 98]),
   json_parse [32; 91; 32; 49; 32; 44; 10; 34; 92; 117; 100; 56; 51; 100; 92; 117; 100; 101; 48; 48; 34; 93; 9],
   json_parse [34; 92; 117; 100; 56; 51; 100; 120; 34],
   json_parse [123; 34; 97; 34; 58; 49; 44; 34; 98; 34; 58; 50; 44; 34; 97; 34; 58; 51; 125],
   canon (JObj [([98], JNum [50]); ([97], JNum [49]); ([97], JNum [51])]))
  = ([34; 97; 92; 117; 102; 102; 102; 100; 98; 34],
     POk (JArr [JNum [49]; JStr [240; 159; 152; 128]]),
     POk (JStr [239; 191; 189; 120]),
     POk (JObj [([97], JNum [49]); ([98], JNum [50]); ([97], JNum [51])]),
     JObj [([97], JNum [51]); ([98], JNum [50])]).
Proof. vm_compute. reflexivity. Qed.

(* refused: 01  1.  .5  +1  1e  [1,]  {''a'':1,}  'a'  ''\a''  a raw newline in a string  nulll  two values *)
Example refused_examples :
  map json_parse
    [[48; 49]; [49; 46]; [46; 53]; [43; 49]; [49; 101]; [91; 49; 44; 93]; [123; 34; 97; 34; 58; 49; 44; 125];
     [39; 97; 39]; [34; 92; 97; 34]; [34; 10; 34]; [110; 117; 108; 108; 108]; [49; 32; 50]; []; [32]]
  = repeat PErr 14.
Proof. vm_compute. reflexivity. Qed.
