(* C20: the integer bracket of Misc/Sens.v is sound for the real-valued sensitivity formula
   S = -174 + 10 log10(BW) + NF + SNR  (log10 x = ln x / ln 10).  Uses the standard library's real
   numbers (axioms: ClassicalDedekindReals.sig_forall_dec, sig_not_dec,
   FunctionalExtensionality.functional_extensionality_dep). *)
From Coq Require Import ZArith QArith Qround Qreals Reals Lra Lia Bool.
From LW Require Import Misc.Sens.

Local Open Scope R_scope.

Definition log10 (x : R) : R := ln x / ln 10.

(* the formula the library documents, over the reals *)
Definition sens_real (bw : Z) (nfsnr : R) : R := -174 + 10 * log10 (IZR bw) + nfsnr.

Lemma ln10_pos : 0 < ln 10.
Proof. rewrite <- ln_1. apply ln_increasing; lra. Qed.

Lemma ln_le_mono x y : 0 < x -> x <= y -> ln x <= ln y.
Proof.
  intros Hx [Hlt | Heq].
  - left. apply ln_increasing; assumption.
  - subst. right. reflexivity.
Qed.

(* IZR (z ^ k) for k >= 0, as a real power with a nat exponent *)
Lemma IZR_Zpow z k : (0 <= k)%Z -> IZR (z ^ k) = IZR z ^ Z.to_nat k.
Proof. intros Hk. rewrite pow_IZR, Z2Nat.id by exact Hk. reflexivity. Qed.

Lemma ln_IZR_Zpow z k : (0 < z)%Z -> (0 <= k)%Z -> ln (IZR (z ^ k)) = IZR k * ln (IZR z).
Proof.
  intros Hz Hk. rewrite IZR_Zpow by exact Hk.
  rewrite ln_pow by (apply IZR_lt; exact Hz).
  rewrite INR_IZR_INZ, Z2Nat.id by exact Hk. reflexivity.
Qed.

Lemma log10_nonneg bw : (0 < bw)%Z -> 0 <= log10 (IZR bw).
Proof.
  intros Hbw. unfold log10.
  assert (H1 : 1 <= IZR bw) by (apply IZR_le; lia).
  assert (H2 : 0 <= ln (IZR bw)) by (rewrite <- ln_1; apply ln_le_mono; lra).
  apply Rmult_le_pos; [exact H2 | left; apply Rinv_0_lt_compat; exact ln10_pos].
Qed.

(* 10^k <= bw^200 (k >= 0) gives k <= 200 log10 bw *)
Lemma lower_bound bw k : (0 < bw)%Z -> (10 ^ k <= bw ^ 200)%Z -> IZR k <= 200 * log10 (IZR bw).
Proof.
  intros Hbw Hle.
  destruct (Z_lt_le_dec k 0) as [Hneg | Hk].
  - assert (IZR k < 0) by (apply IZR_lt; exact Hneg).
    pose proof (log10_nonneg bw Hbw). lra.
  - assert (Hp : (0 < 10 ^ k)%Z) by (apply Z.pow_pos_nonneg; lia).
    assert (Hln : ln (IZR (10 ^ k)) <= ln (IZR (bw ^ 200))).
    { apply ln_le_mono; [apply IZR_lt; exact Hp | apply IZR_le; exact Hle]. }
    rewrite (ln_IZR_Zpow 10 k) in Hln by lia.
    rewrite (ln_IZR_Zpow bw 200) in Hln by lia.
    unfold log10. pose proof ln10_pos as H10.
    replace (200 * (ln (IZR bw) / ln 10)) with ((200 * ln (IZR bw)) / ln 10) by (field; lra).
    apply Rmult_le_reg_r with (ln 10); [exact H10 |].
    replace (200 * ln (IZR bw) / ln 10 * ln 10) with (200 * ln (IZR bw)) by (field; lra).
    exact Hln.
Qed.

(* bw^200 <= 10^k forces k >= 0 and gives 200 log10 bw <= k *)
Lemma upper_bound bw k : (0 < bw)%Z -> (bw ^ 200 <= 10 ^ k)%Z -> 200 * log10 (IZR bw) <= IZR k.
Proof.
  intros Hbw Hle.
  assert (Hb : (0 < bw ^ 200)%Z) by (apply Z.pow_pos_nonneg; lia).
  destruct (Z_lt_le_dec k 0) as [Hneg | Hk].
  - rewrite (Z.pow_neg_r 10 k) in Hle by exact Hneg. lia.
  - assert (Hln : ln (IZR (bw ^ 200)) <= ln (IZR (10 ^ k))).
    { apply ln_le_mono; [apply IZR_lt; exact Hb | apply IZR_le; exact Hle]. }
    rewrite (ln_IZR_Zpow 10 k) in Hln by lia.
    rewrite (ln_IZR_Zpow bw 200) in Hln by lia.
    unfold log10. pose proof ln10_pos as H10.
    replace (200 * (ln (IZR bw) / ln 10)) with ((200 * ln (IZR bw)) / ln 10) by (field; lra).
    apply Rmult_le_reg_r with (ln 10); [exact H10 |].
    replace (200 * ln (IZR bw) / ln 10 * ln 10) with (200 * ln (IZR bw)) by (field; lra).
    exact Hln.
Qed.

Lemma Q2R_inject_Z z : Q2R (inject_Z z) = IZR z.
Proof. unfold Q2R, inject_Z; simpl. field. Qed.

(* every value the bracket accepts is within 0.1 dB of the real formula *)
Theorem sens_bracket_sound bw nfsnr o :
  sens_bracket bw nfsnr o = true ->
  (0 < bw)%Z /\ Rabs (Q2R o - sens_real bw (Q2R nfsnr)) <= 1 / 10.
Proof.
  unfold sens_bracket. intros H.
  apply andb_prop in H. destruct H as [H Hup].
  apply andb_prop in H. destruct H as [Hbw Hlo].
  apply Z.ltb_lt in Hbw. apply Z.leb_le in Hlo. apply Z.leb_le in Hup.
  split; [exact Hbw |].
  set (y := (o + 174 - nfsnr)%Q) in *.
  set (m := Qfloor (20 * y)) in *.
  assert (Hy : Q2R y = Q2R o + 174 - Q2R nfsnr).
  { unfold y. rewrite Q2R_minus, Q2R_plus.
    replace (Q2R 174) with 174 by (unfold Q2R; simpl; field). reflexivity. }
  assert (H20 : Q2R (20 * y) = 20 * Q2R y).
  { rewrite Q2R_mult. replace (Q2R 20) with 20 by (unfold Q2R; simpl; field). reflexivity. }
  assert (Hfl : IZR m <= 20 * Q2R y).
  { rewrite <- H20, <- Q2R_inject_Z. apply Qle_Rle. apply Qfloor_le. }
  assert (Hfu : 20 * Q2R y < IZR m + 1).
  { rewrite <- H20. replace (IZR m + 1) with (IZR (m + 1)) by (rewrite plus_IZR; reflexivity).
    rewrite <- Q2R_inject_Z. apply Qlt_Rlt. apply Qlt_floor. }
  pose proof (lower_bound bw (m - 1) Hbw Hlo) as HL.
  pose proof (upper_bound bw (m + 2) Hbw Hup) as HU.
  rewrite minus_IZR in HL. rewrite plus_IZR in HU.
  clearbody m y.
  unfold sens_real. set (L := log10 (IZR bw)) in *. clearbody L.
  apply Rabs_le; lra.
Qed.

(* ---- completeness: a value within 0.05 dB of the formula is accepted (no false alarm from the bracket) ---- *)
Lemma ln_le_inv x y : 0 < x -> 0 < y -> ln x <= ln y -> x <= y.
Proof.
  intros Hx Hy [Hlt | Heq].
  - left. apply ln_lt_inv; assumption.
  - right. apply ln_inv; assumption.
Qed.

Lemma lower_bound_inv bw k : (0 < bw)%Z -> IZR k <= 200 * log10 (IZR bw) -> (10 ^ k <= bw ^ 200)%Z.
Proof.
  intros Hbw Hle.
  assert (Hb : (0 < bw ^ 200)%Z) by (apply Z.pow_pos_nonneg; lia).
  destruct (Z_lt_le_dec k 0) as [Hneg | Hk].
  - rewrite (Z.pow_neg_r 10 k) by exact Hneg. lia.
  - assert (Hp : (0 < 10 ^ k)%Z) by (apply Z.pow_pos_nonneg; lia).
    apply le_IZR. apply ln_le_inv; [apply IZR_lt; exact Hp | apply IZR_lt; exact Hb |].
    rewrite (ln_IZR_Zpow 10 k) by lia. rewrite (ln_IZR_Zpow bw 200) by lia.
    unfold log10 in Hle. pose proof ln10_pos as H10.
    apply Rmult_le_compat_r with (r := ln 10) in Hle; [| lra].
    replace (200 * (ln (IZR bw) / ln 10) * ln 10) with (200 * ln (IZR bw)) in Hle by (field; lra).
    exact Hle.
Qed.

Lemma upper_bound_inv bw k : (0 < bw)%Z -> 200 * log10 (IZR bw) <= IZR k -> (bw ^ 200 <= 10 ^ k)%Z.
Proof.
  intros Hbw Hle.
  assert (Hb : (0 < bw ^ 200)%Z) by (apply Z.pow_pos_nonneg; lia).
  assert (Hk : (0 <= k)%Z).
  { apply le_IZR. pose proof (log10_nonneg bw Hbw). lra. }
  assert (Hp : (0 < 10 ^ k)%Z) by (apply Z.pow_pos_nonneg; lia).
  apply le_IZR. apply ln_le_inv; [apply IZR_lt; exact Hb | apply IZR_lt; exact Hp |].
  rewrite (ln_IZR_Zpow 10 k) by lia. rewrite (ln_IZR_Zpow bw 200) by lia.
  unfold log10 in Hle. pose proof ln10_pos as H10.
  apply Rmult_le_compat_r with (r := ln 10) in Hle; [| lra].
  replace (200 * (ln (IZR bw) / ln 10) * ln 10) with (200 * ln (IZR bw)) in Hle by (field; lra).
  exact Hle.
Qed.

Lemma Rabs_le_bounds x a : Rabs x <= a -> - a <= x <= a.
Proof.
  intros H. pose proof (Rle_abs x) as H1. pose proof (Rle_abs (- x)) as H2.
  rewrite Rabs_Ropp in H2. lra.
Qed.

Theorem sens_bracket_complete bw nfsnr o :
  (0 < bw)%Z -> Rabs (Q2R o - sens_real bw (Q2R nfsnr)) <= 1 / 20 ->
  sens_bracket bw nfsnr o = true.
Proof.
  intros Hbw Habs. unfold sens_bracket.
  set (y := (o + 174 - nfsnr)%Q).
  set (m := Qfloor (20 * y)).
  assert (Hy : Q2R y = Q2R o + 174 - Q2R nfsnr).
  { unfold y. rewrite Q2R_minus, Q2R_plus.
    replace (Q2R 174) with 174 by (unfold Q2R; simpl; field). reflexivity. }
  assert (H20 : Q2R (20 * y) = 20 * Q2R y).
  { rewrite Q2R_mult. replace (Q2R 20) with 20 by (unfold Q2R; simpl; field). reflexivity. }
  assert (Hfl : IZR m <= 20 * Q2R y).
  { rewrite <- H20, <- Q2R_inject_Z. apply Qle_Rle. apply Qfloor_le. }
  assert (Hfu : 20 * Q2R y < IZR m + 1).
  { rewrite <- H20. replace (IZR m + 1) with (IZR (m + 1)) by (rewrite plus_IZR; reflexivity).
    rewrite <- Q2R_inject_Z. apply Qlt_Rlt. apply Qlt_floor. }
  clearbody m y.
  unfold sens_real in Habs. apply Rabs_le_bounds in Habs.
  assert (HL : IZR (m - 1) <= 200 * log10 (IZR bw)).
  { rewrite minus_IZR. set (L := log10 (IZR bw)) in *. clearbody L. lra. }
  assert (HU : 200 * log10 (IZR bw) <= IZR (m + 2)).
  { rewrite plus_IZR. set (L := log10 (IZR bw)) in *. clearbody L. lra. }
  apply (lower_bound_inv bw (m - 1) Hbw) in HL.
  apply (upper_bound_inv bw (m + 2) Hbw) in HU.
  apply Z.ltb_lt in Hbw. apply Z.leb_le in HL. apply Z.leb_le in HU.
  rewrite Hbw, HL, HU. reflexivity.
Qed.

(* the bound cannot be read off a looser test: the bracket refuses a value 0.2 dB off *)
Example sens_bracket_accepts : sens_bracket 125000 (-14) (-1370309 # 10000) = true.
Proof. vm_compute. reflexivity. Qed.
Example sens_bracket_refuses : sens_bracket 125000 (-14) (-1368309 # 10000) = false.
Proof. vm_compute. reflexivity. Qed.
