(* Model of backend.Frequency / backend.Percentage JSON conversions
   (/repo/backend/backend.go:147-187) with Coq's primitive binary64 floats,
   which the kernel evaluates with the machine's IEEE-754 operations.

     func (f Frequency) MarshalJSON()   = json.Marshal(float64(f) / 1000000)
     func (f *Frequency) UnmarshalJSON  : mhz := ParseFloat(str); *f = Frequency(CONV(mhz * 1000000))
     func (p Percentage) MarshalJSON()  = json.Marshal(float64(p) / 100)
     func (p *Percentage) UnmarshalJSON : perc := ParseFloat(str); *p = Percentage(CONV(perc * 100))

   CONV is math.Round in the working tree (commit "fix: backend Frequency/Percentage
   JSON decoding rounds instead of truncating") and was the identity (so that the
   int conversion truncated toward zero) before; both are modelled.

   The decimal text between Marshal and Unmarshal is produced by strconv
   (shortest representation that parses back to the same float64) and parsed
   by strconv.ParseFloat: Go standard library, trusted, so the model passes the
   float itself.  float64 -> int conversion of NaN, infinities and values outside
   the int64 range is implementation-defined in Go: [None] (not modelled). *)
From Coq Require Import ZArith Floats Uint63 Bool.
Open Scope Z_scope.

(* float64(z) for |z| < 2^63: of_uint63 rounds to nearest even like the Go conversion *)
Definition f_of_Z (z : Z) : float :=
  if z <? 0 then PrimFloat.opp (PrimFloat.of_uint63 (Uint63.of_Z (- z)))
  else PrimFloat.of_uint63 (Uint63.of_Z z).

(* exact value of a finite float as sign, mantissa, exponent: (-1)^s * m * 2^e *)
Definition decompose (x : float) : option (bool * Z * Z) :=
  match Prim2SF x with
  | S754_zero s => Some (s, 0, 0)
  | S754_finite s m e => Some (s, Zpos m, e)
  | _ => None
  end.

Definition in_int64 (z : Z) : bool := (-9223372036854775808 <=? z) && (z <=? 9223372036854775807).

(* Go int(x): truncation toward zero *)
Definition trunc_to_Z (x : float) : option Z :=
  match decompose x with
  | Some (s, m, e) =>
    let mag := if 0 <=? e then Z.shiftl m e else Z.shiftr m (- e) in   (* m * 2^e, floor (m / 2^-e) *)
    let z := if s then - mag else mag in
    if in_int64 z then Some z else None
  | None => None
  end.

(* Go int(math.Round(x)): nearest integer, halves away from zero *)
Definition round_to_Z (x : float) : option Z :=
  match decompose x with
  | Some (s, m, e) =>
    let mag := if 0 <=? e then Z.shiftl m e
               else Z.shiftr (2 * m + Z.shiftl 1 (- e)) (- e + 1) in   (* floor ((2m + 2^-e) / 2^(-e+1)) = floor (m / 2^-e + 1/2) *)
    let z := if s then - mag else mag in
    if in_int64 z then Some z else None
  | None => None
  end.

Definition f_1e6 : float := 1000000%float.
Definition f_100 : float := 100%float.

(* Marshal: the float that is printed *)
Definition freq_marshal (f : Z) : float := PrimFloat.div (f_of_Z f) f_1e6.
Definition pct_marshal (p : Z) : float := PrimFloat.div (f_of_Z p) f_100.

(* Unmarshal of a parsed float, working tree (math.Round) and before the repair (truncation) *)
Definition freq_unmarshal (x : float) : option Z := round_to_Z (PrimFloat.mul x f_1e6).
Definition pct_unmarshal (x : float) : option Z := round_to_Z (PrimFloat.mul x f_100).
Definition freq_unmarshal_orig (x : float) : option Z := trunc_to_Z (PrimFloat.mul x f_1e6).
Definition pct_unmarshal_orig (x : float) : option Z := trunc_to_Z (PrimFloat.mul x f_100).

Definition freq_rt (f : Z) : option Z := freq_unmarshal (freq_marshal f).
Definition pct_rt (p : Z) : option Z := pct_unmarshal (pct_marshal p).
Definition freq_rt_orig (f : Z) : option Z := freq_unmarshal_orig (freq_marshal f).
Definition pct_rt_orig (p : Z) : option Z := pct_unmarshal_orig (pct_marshal p).

(* a float given as m * 2^e (|m| < 2^53), as the harness prints observed floats *)
Definition float_of_me (m e : Z) : float := Z.ldexp (f_of_Z m) e.

(* the working tree: math.Round since commit 7514334 (the _orig versions before) *)
Definition freq_unmarshal_code : float -> option Z := freq_unmarshal.
Definition pct_unmarshal_code : float -> option Z := pct_unmarshal.
