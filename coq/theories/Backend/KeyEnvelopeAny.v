(* Model of backend.NewKeyEnvelope / KeyEnvelope.Unwrap (/repo/backend/backend.go:218-264) for
   every KEK length: the key-encryption key goes to crypto/aes.NewCipher, which accepts 16, 24
   and 32 bytes (AES-128/192/256, LW.Crypto.AESAny) and returns an error for every other
   length; the wrapping itself is RFC 3394 (LW.Crypto.KeyWrapAny).

     func NewKeyEnvelope(kekLabel string, kek []byte, key AES128Key) (ptr KeyEnvelope, error) {
         if kekLabel == "" || len(kek) == 0 { return &KeyEnvelope{AESKey: key[:]}, nil }     // key in clear, no label
         block, err := aes.NewCipher(kek)          // error unless len(kek) is 16, 24 or 32
         b, err := keywrap.Wrap(block, key[:])     // 16 bytes: never an error
         return &KeyEnvelope{KEKLabel: kekLabel, AESKey: b}, nil }
     func (k KeyEnvelope) Unwrap(kek []byte) (AES128Key, error) {
         if len(k.AESKey) != len(key)+8 { return key, error }   // since the repair C17-3: exactly 24 bytes
         block, err := aes.NewCipher(kek)
         b, err := keywrap.Unwrap(block, k.AESKey[:])   // error iff the recovered IV differs from A6A6A6A6A6A6A6A6
         copy(key[:], b); return key, nil }             // first 16 bytes, zero padded

   Before the repair (finding C17-3, audit) Unwrap handed AESKey of any length to keywrap.Unwrap:
   < 8 bytes panicked (make with a negative length), 8..15 bytes panicked when they began with
   the IV (else error), bytes beyond 8 * (len / 8) were ignored and copy(key[:], b) truncated /
   zero-padded key data that was not 16 bytes - all of it reachable from a peer's JSON.  That code is
   kept as [envelope_unwrap_any_orig] (for 16-byte KEKs it is KeyEnvelope.envelope_unwrap), with
   witnesses in EnvelopeAnyProofs.unwrap_orig_refuted.  Unwrap does not look at KEKLabel.  *)
From Coq Require Import List NArith Bool.
From LW Require Import Base.Outcome Base.Bytes Crypto.AES Crypto.AESAny Crypto.KeyWrap Crypto.KeyWrapAny
  Backend.KeyEnvelope.
Import ListNotations.
Open Scope N_scope.

(* result: (KEKLabel, AESKey) *)
Definition new_key_envelope_any (label kek key : list N) : outcome (list N * list N) :=
  if is_nil label || is_nil kek then Ok ([], key)
  else match wrap_any kek key with
       | Some w => Ok (label, w)
       | None => Err                       (* aes.NewCipher: invalid key size *)
       end.

(* the code before the repair: any length goes to keywrap.Unwrap *)
Definition envelope_unwrap_any_orig (aeskey kek : list N) : outcome (list N) :=
  match expand_key_any kek with
  | None => Err                            (* aes.NewCipher: invalid key size *)
  | Some rks =>
    if Nat.ltb (length aeskey) 8 then Panic
    else if Nat.ltb (length aeskey) 16 then
      (if bytes_eqb (firstn 8 aeskey) default_iv then Panic else Err)
    else
      let '(iv, plain) := unwrap_raw_rk rks aeskey in
      if bytes_eqb iv default_iv then Ok (copy16 plain) else Err
  end.

(* the working tree: a wrapped AES128 key is exactly 24 bytes *)
Definition envelope_unwrap_any (aeskey kek : list N) : outcome (list N) :=
  if negb (Nat.eqb (length aeskey) 24) then Err
  else match expand_key_any kek with
       | None => Err                       (* aes.NewCipher: invalid key size *)
       | Some rks =>
         let '(iv, plain) := unwrap_raw_rk rks aeskey in
         if bytes_eqb iv default_iv then Ok (copy16 plain) else Err
       end.

(* the same function with the raw unwrap result given (None = key-size error): lets a caller that
   also needs [unwrap_raw_any kek aeskey] evaluate it once; equal to [envelope_unwrap_any] by
   EnvelopeAnyProofs.envelope_unwrap_any_from_raw *)
Definition envelope_unwrap_from_raw (aeskey : list N) (r : option (list N * list N)) : outcome (list N) :=
  if negb (Nat.eqb (length aeskey) 24) then Err
  else match r with
       | None => Err
       | Some (iv, plain) => if bytes_eqb iv default_iv then Ok (copy16 plain) else Err
       end.

(* RFC 3394 4.1 / 4.2 / 4.3 through the envelope, a KEK of 20 bytes, no label *)
Example envelope_rfc3394 :
  (new_key_envelope_any [107] (seq_bytes 16) kd128, new_key_envelope_any [107] (seq_bytes 24) kd128,
   new_key_envelope_any [107] (seq_bytes 32) kd128, new_key_envelope_any [107] (seq_bytes 20) kd128,
   new_key_envelope_any [] (seq_bytes 32) kd128)
  = (Ok ([107], rfc3394_wrapped), Ok ([107], rfc3394_4_2), Ok ([107], rfc3394_4_3), Err, Ok ([], kd128)).
Proof. vm_compute. reflexivity. Qed.
Example envelope_rfc3394_unwrap :
  (envelope_unwrap_any rfc3394_wrapped (seq_bytes 16), envelope_unwrap_any rfc3394_4_2 (seq_bytes 24),
   envelope_unwrap_any rfc3394_4_3 (seq_bytes 32), envelope_unwrap_any rfc3394_4_3 (seq_bytes 24),
   envelope_unwrap_any rfc3394_4_3 (seq_bytes 31), envelope_unwrap_any [1; 2; 3] (seq_bytes 32),
   envelope_unwrap_any default_iv (seq_bytes 24), envelope_unwrap_any rfc3394_4_4 (seq_bytes 24),
   envelope_unwrap_any (rfc3394_4_2 ++ [0]) (seq_bytes 24))
  = (Ok kd128, Ok kd128, Ok kd128, Err, Err, Err, Err, Err, Err).
Proof. vm_compute. reflexivity. Qed.
