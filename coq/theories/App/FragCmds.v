(* Model of applayer/fragmentation/fragmentation.go (Fragmented Data Block
   Transport): eight payloads, registry, Command / Commands instance.
   No proofs in this file. *)
From Coq Require Import List NArith ZArith Bool.
From LW Require Import Base.Outcome Base.Bytes App.Common.
Import ListNotations.
Open Scope N_scope.

Inductive payload :=
| PackageVersionAns (ident ver : N)
| FragSessionSetupReq (frag_index : N) (m : list bool) (nb_frag : N) (frag_size : N)
                      (frag_matrix block_ack_delay : N) (padding : N) (descriptor : list N)
| FragSessionSetupAns (frag_index : N) (wrong_descriptor index_not_supported
                       not_enough_memory encoding_unsupported : bool)
| FragSessionDeleteReq (frag_index : N)
| FragSessionDeleteAns (frag_index : N) (session_does_not_exist : bool)
| DataFragment (frag_index : N) (n : N) (data : list N)
| FragSessionStatusReq (frag_index : N) (participants : bool)
| FragSessionStatusAns (frag_index : N) (nb_frag_received : N) (missing_frag : N)
                       (not_enough_matrix_memory : bool).

Definition psize (p : payload) : nat :=
  match p with
  | PackageVersionAns _ _ => 2
  | FragSessionSetupReq _ _ _ _ _ _ _ _ => 10
  | FragSessionSetupAns _ _ _ _ _ => 1
  | FragSessionDeleteReq _ => 1
  | FragSessionDeleteAns _ _ => 1
  | DataFragment _ _ d => 2 + length d          (* fragmentation.go:413-416 *)
  | FragSessionStatusReq _ _ => 1
  | FragSessionStatusAns _ _ _ _ => 4
  end.

(* binary.LittleEndian.PutUint16(b[0:2], v & 0x3fff); b[1] |= (idx & 0x03) << 6 *)
Definition index_and_n (fi n : N) : list N :=
  match le_bytes 2 (N.land n 0x3fff) with
  | [b0; b1] => [b0; N.lor b1 (shl8 (N.land fi 0x03) 6)]
  | l => l
  end.

Definition enc (p : payload) : outcome (list N) :=
  match p with
  | PackageVersionAns i v => Ok [i; v]
  | FragSessionSetupReq fi m nb fs fm bad pad desc =>
    let b0 := N.lor (mask_bits 0 m 0) (shl8 (N.land fi 0x03) 4) in
    let b4 := N.lor (N.land bad 0x07) (shl8 (N.land fm 0x07) 3) in
    Ok ([b0] ++ le_bytes 2 nb ++ [fs; b4; pad] ++ desc)
  | FragSessionSetupAns fi wd ins nem eu =>
    let b := if eu then 0x01 else 0 in
    let b := if nem then N.lor b 0x02 else b in
    let b := if ins then N.lor b 0x04 else b in
    let b := if wd then N.lor b 0x08 else b in
    Ok [N.lor b (shl8 (N.land fi 0x03) 6)]
  | FragSessionDeleteReq fi => Ok [N.land fi 0x03]
  | FragSessionDeleteAns fi sdne =>
    let b := N.land fi 0x03 in Ok [if sdne then N.lor b 0x04 else b]
  | DataFragment fi n d => Ok (index_and_n fi n ++ d)
  | FragSessionStatusReq fi part =>
    let b := if part then 0x01 else 0 in
    Ok [N.lor b (shl8 (N.land fi 0x03) 1)]
  | FragSessionStatusAns fi nbr miss nemm =>
    Ok (index_and_n fi nbr ++ [miss; if nemm then 0x01 else 0])
  end.

Definition dec_PackageVersionAns (data : list N) : outcome payload :=
  if (length data <? 2)%nat then Err else
  do i <- idx data 0; do v <- idx data 1; Ok (PackageVersionAns i v).

Definition dec_FragSessionSetupReq (data : list N) : outcome payload :=
  if (length data <? 10)%nat then Err else
  do b0 <- idx data 0;
  do nb <- rd_le data 1 2;
  do fs <- idx data 3;
  do b4 <- idx data 4;
  do pad <- idx data 5;
  do desc <- sub data 6 10;
  Ok (FragSessionSetupReq (N.land (N.shiftr b0 4) 0x03) (unmask4 b0) nb fs
        (N.land (N.shiftr b4 3) 0x07) (N.land b4 0x07) pad desc).

Definition dec_FragSessionSetupAns (data : list N) : outcome payload :=
  if (length data <? 1)%nat then Err else
  do b <- idx data 0;
  Ok (FragSessionSetupAns (N.land (N.shiftr b 6) 0x03) (nz (N.land b 0x08)) (nz (N.land b 0x04))
        (nz (N.land b 0x02)) (nz (N.land b 0x01))).

Definition dec_FragSessionDeleteReq (data : list N) : outcome payload :=
  if (length data <? 1)%nat then Err else
  do b <- idx data 0; Ok (FragSessionDeleteReq (N.land b 0x3)).

Definition dec_FragSessionDeleteAns (data : list N) : outcome payload :=
  if (length data <? 1)%nat then Err else
  do b <- idx data 0; Ok (FragSessionDeleteAns (N.land b 0x03) (nz (N.land b 0x04))).

(* consumes everything that is left: Payload = data[2:] *)
Definition dec_DataFragment (data : list N) : outcome payload :=
  if (length data <? 2)%nat then Err else
  do v <- rd_le data 0 2;
  do b1 <- idx data 1;
  Ok (DataFragment (N.shiftr b1 6) (N.land v 0x3fff) (skipn 2 data)).

Definition dec_FragSessionStatusReq (data : list N) : outcome payload :=
  if (length data <? 1)%nat then Err else
  do b <- idx data 0;
  Ok (FragSessionStatusReq (N.land (N.shiftr b 1) 0x03) (nz (N.land b 0x01))).

Definition dec_FragSessionStatusAns (data : list N) : outcome payload :=
  if (length data <? 4)%nat then Err else
  do v <- rd_le data 0 2;
  do b1 <- idx data 1;
  do miss <- idx data 2;
  do b3 <- idx data 3;
  Ok (FragSessionStatusAns (N.shiftr b1 6) (N.land v 0x3fff) miss (nz (N.land b3 0x01))).

(* commandPayloadRegistry: fragmentation.go:37-52 *)
Definition lookup (uplink : bool) (cid : N) : option (list N -> outcome payload) :=
  if uplink then
    match cid with
    | 0 => Some dec_PackageVersionAns
    | 1 => Some dec_FragSessionStatusAns
    | 2 => Some dec_FragSessionSetupAns
    | 3 => Some dec_FragSessionDeleteAns
    | _ => None
    end
  else
    match cid with
    | 1 => Some dec_FragSessionStatusReq
    | 2 => Some dec_FragSessionSetupReq
    | 3 => Some dec_FragSessionDeleteReq
    | 8 => Some dec_DataFragment
    | _ => None
    end.

Definition cid_of (p : payload) : N :=
  match p with
  | PackageVersionAns _ _ => 0
  | FragSessionStatusReq _ _ | FragSessionStatusAns _ _ _ _ => 1
  | FragSessionSetupReq _ _ _ _ _ _ _ _ | FragSessionSetupAns _ _ _ _ _ => 2
  | FragSessionDeleteReq _ | FragSessionDeleteAns _ _ => 3
  | DataFragment _ _ _ => 8
  end.
Definition uplink_of (p : payload) : bool :=
  match p with
  | PackageVersionAns _ _ | FragSessionStatusAns _ _ _ _ | FragSessionSetupAns _ _ _ _ _
  | FragSessionDeleteAns _ _ => true
  | _ => false
  end.

Definition command := Common.command payload.
Definition cmd_enc : command -> outcome (list N) := Common.cmd_enc enc.
Definition cmd_size : command -> nat := Common.cmd_size psize.
Definition cmd_dec : bool -> list N -> outcome command := Common.cmd_dec lookup.
Definition cmds_enc : list command -> outcome (list N) := Common.cmds_enc enc.
Definition cmds_dec : bool -> list N -> outcome (list command) :=
  Common.cmds_dec psize lookup whole.
