package main

// Independent Go transcription of the device / network-server oracle of
// coq/theories/Backend/Device.v (LoRaWAN 1.1 section 6.2, 1.0.x section 6.2.5, Backend Interfaces
// KeyEnvelope).  It uses crypto/aes, jacobsa/crypto/cmac and go-aes-key-wrap directly and nothing
// of github.com/brocaar/lorawan.  Used to build the uplink frames of the requests, for the Go-only
// bulk cases (incl. AES-192/256 KEKs, which the Coq model does not cover) and for nothing else: the
// verdict of the Coq-evaluated cases comes from the Coq oracle.

import (
	"bytes"
	"crypto/aes"
	"errors"
	"fmt"

	keywrap "github.com/NickBall/go-aes-key-wrap"
	"github.com/jacobsa/crypto/cmac"
)

type device struct {
	devEUI, joinEUI [8]byte // most significant byte first
	nwkKey, appKey  [16]byte
}

func rev(b []byte) []byte {
	o := make([]byte, len(b))
	for i := range b {
		o[len(b)-1-i] = b[i]
	}
	return o
}

func cat(parts ...[]byte) []byte {
	var o []byte
	for _, p := range parts {
		o = append(o, p...)
	}
	return o
}

func le16(x uint16) []byte { return []byte{byte(x), byte(x >> 8)} }

func mic4(key, msg []byte) []byte {
	h, err := cmac.New(key)
	if err != nil {
		panic(err)
	}
	h.Write(msg)
	return h.Sum(nil)[:4]
}

func aesEnc(key, block []byte) []byte {
	c, err := aes.NewCipher(key)
	if err != nil {
		panic(err)
	}
	o := make([]byte, 16)
	c.Encrypt(o, block)
	return o
}

func derive(key []byte, typ byte, fields []byte) []byte {
	b := make([]byte, 16)
	b[0] = typ
	copy(b[1:], fields)
	return aesEnc(key, b)
}

func (d device) jsIntKey() []byte { return derive(d.nwkKey[:], 6, rev(d.devEUI[:])) }
func (d device) jsEncKey() []byte { return derive(d.nwkKey[:], 5, rev(d.devEUI[:])) }

func (d device) joinRequestFrame(devNonce uint16) []byte {
	return d.joinRequestFrameUnder(devNonce, d.nwkKey[:])
}

// joinRequestFrameUnder: the same frame with the MIC computed under another key (a forged or
// mis-provisioned request: a join server must answer MICFailed unless the key is the NwkKey)
func (d device) joinRequestFrameUnder(devNonce uint16, key []byte) []byte {
	msg := cat([]byte{0x00}, rev(d.joinEUI[:]), rev(d.devEUI[:]), le16(devNonce))
	return cat(msg, mic4(key, msg))
}

// joinRequestFrameMHDR: a join-request whose MHDR octet has RFU bits set (MType 000, Major 00), the MIC
// computed over the octets as transmitted
func (d device) joinRequestFrameMHDR(devNonce uint16, mhdr byte) []byte {
	msg := cat([]byte{mhdr}, rev(d.joinEUI[:]), rev(d.devEUI[:]), le16(devNonce))
	return cat(msg, mic4(d.nwkKey[:], msg))
}

func (d device) rejoin02Frame(ty byte, netID [3]byte, rjCount uint16, sNwkSIntKey []byte) []byte {
	msg := cat([]byte{0xc0, ty}, rev(netID[:]), rev(d.devEUI[:]), le16(rjCount))
	return cat(msg, mic4(sNwkSIntKey, msg))
}

func (d device) rejoin1Frame(rjCount uint16) []byte {
	msg := cat([]byte{0xc0, 1}, rev(d.joinEUI[:]), rev(d.devEUI[:]), le16(rjCount))
	return cat(msg, mic4(d.jsIntKey(), msg))
}

type session struct {
	joinNonce  uint32
	netID      []byte // msb first
	devAddr    []byte // msb first
	dlSettings byte
	rxDelay    byte
	cfList     []byte // nil or 16 bytes
	optNeg     bool
	fNwkSIntKey, sNwkSIntKey, nwkSEncKey, appSKey []byte
}

// accept: reqtype 0xff after a join-request, 0/1/2 after a rejoin-request
func (d device) accept(reqtype byte, devNonce uint16, frame []byte) (*session, error) {
	if len(frame) < 1 {
		return nil, errors.New("empty frame")
	}
	mhdr, ct := frame[0], frame[1:]
	if mhdr>>5 != 1 || mhdr&3 != 0 {
		return nil, fmt.Errorf("mhdr %02x is not a join-accept", mhdr)
	}
	if len(ct) != 16 && len(ct) != 32 {
		return nil, fmt.Errorf("join-accept of %d bytes", len(frame))
	}
	key := d.nwkKey[:]
	if reqtype != 0xff {
		key = d.jsEncKey()
	}
	var pt []byte
	for i := 0; i < len(ct); i += 16 {
		pt = append(pt, aesEnc(key, ct[i:i+16])...)
	}
	body, mic := pt[:len(pt)-4], pt[len(pt)-4:]
	jn, netid, devaddr, dls, rxd := body[0:3], body[3:6], body[6:10], body[10], body[11]&0x0f // RxDelay: bits 3..0
	s := &session{joinNonce: uint32(jn[0]) | uint32(jn[1])<<8 | uint32(jn[2])<<16, netID: rev(netid), devAddr: rev(devaddr),
		dlSettings: dls, rxDelay: rxd, optNeg: dls&0x80 != 0}
	if len(body) == 28 {
		s.cfList = append([]byte{}, body[12:]...)
	}
	var expect []byte
	if s.optNeg {
		expect = mic4(d.jsIntKey(), cat([]byte{reqtype}, rev(d.joinEUI[:]), le16(devNonce), []byte{mhdr}, body))
	} else {
		expect = mic4(d.nwkKey[:], cat([]byte{mhdr}, body))
	}
	if !bytes.Equal(mic, expect) {
		return nil, fmt.Errorf("join-accept MIC %x, device computes %x", mic, expect)
	}
	if s.optNeg {
		f := cat(jn, rev(d.joinEUI[:]), le16(devNonce))
		s.fNwkSIntKey, s.sNwkSIntKey, s.nwkSEncKey = derive(d.nwkKey[:], 1, f), derive(d.nwkKey[:], 3, f), derive(d.nwkKey[:], 4, f)
		s.appSKey = derive(d.appKey[:], 2, f)
	} else {
		f := cat(jn, netid, le16(devNonce))
		k := derive(d.nwkKey[:], 1, f)
		s.fNwkSIntKey, s.sNwkSIntKey, s.nwkSEncKey = k, k, k
		s.appSKey = derive(d.nwkKey[:], 2, f)
	}
	return s, nil
}

type envelope struct {
	label string
	key   []byte
}

// openEnvelope: a server that shares a KEK with the join server under the label `own` expects its
// key wrapped with it (RFC 3394, AES-128/192/256 by KEK length) and labelled; a server without one
// expects the key in the clear without a label.
func openEnvelope(keks func(string) []byte, own string, e *envelope) (out []byte, err error) {
	if e == nil {
		return nil, errors.New("envelope absent")
	}
	if own == "" || len(keks(own)) == 0 {
		if e.label != "" {
			return nil, fmt.Errorf("KEKLabel %q although no KEK is shared", e.label)
		}
		return e.key, nil
	}
	if e.label != own {
		return nil, fmt.Errorf("KEKLabel %q, the server shares a KEK under %q", e.label, own)
	}
	defer func() {
		if r := recover(); r != nil {
			err = fmt.Errorf("unwrap panicked: %v", r)
		}
	}()
	c, err := aes.NewCipher(keks(own))
	if err != nil {
		return nil, err
	}
	return keywrap.Unwrap(c, e.key)
}
