(* Specification side of the GPS-time clauses of C20, written from the
   published data, not from gps.go:

   * GPS time started 1980-01-06 00:00:00 UTC with GPS-UTC = 0 and is not
     adjusted for leap seconds.
   * IERS Bulletin C: a positive leap second was inserted at the end of the
     day before each of the 18 dates below (UTC 23:59:60), so GPS-UTC grows by
     one second at 00:00:00 UTC of each date.
   * civil dates are turned into Unix seconds inside Coq by [days_from_civil]
     (proleptic Gregorian calendar, days since 1970-01-01). *)
From Coq Require Import List ZArith Bool.
Import ListNotations.
Open Scope Z_scope.

(* days since 1970-01-01 of the civil date y-m-d (m = 1..12) *)
Definition days_from_civil (y m d : Z) : Z :=
  let y' := if m <=? 2 then y - 1 else y in
  let era := y' / 400 in
  let yoe := y' - era * 400 in
  let mp := (m + 9) mod 12 in
  let doy := (153 * mp + 2) / 5 + d - 1 in
  let doe := yoe * 365 + yoe / 4 - yoe / 100 + doy in
  era * 146097 + doe - 719468.

(* the inverse, used only to validate [days_from_civil] over the range of interest *)
Definition civil_from_days (z : Z) : Z * Z * Z :=
  let z := z + 719468 in
  let era := z / 146097 in
  let doe := z - era * 146097 in
  let yoe := (doe - doe / 1460 + doe / 36524 - doe / 146096) / 365 in
  let y := yoe + era * 400 in
  let doy := doe - (365 * yoe + yoe / 4 - yoe / 100) in
  let mp := (5 * doy + 2) / 153 in
  let d := doy - (153 * mp + 2) / 5 + 1 in
  let m := if mp <? 10 then mp + 3 else mp - 9 in
  (if m <=? 2 then y + 1 else y, m, d).

(* calendar written the plain way: leap years and month lengths *)
Definition is_leap_year (y : Z) : bool :=
  ((y mod 4 =? 0) && negb (y mod 100 =? 0)) || (y mod 400 =? 0).
Definition days_in_month (y m : Z) : Z :=
  if m =? 2 then (if is_leap_year y then 29 else 28)
  else if (m =? 4) || (m =? 6) || (m =? 9) || (m =? 11) then 30 else 31.
Definition next_day (ymd : Z * Z * Z) : Z * Z * Z :=
  let '(y, m, d) := ymd in
  if d <? days_in_month y m then (y, m, d + 1)
  else if m <? 12 then (y, m + 1, 1) else (y + 1, 1, 1).

Definition unix_of_civil (ymd : Z * Z * Z) : Z :=
  let '(y, m, d) := ymd in days_from_civil y m d * 86400.

Definition gps_epoch_civil : Z * Z * Z := (1980, 1, 6).

(* dates at whose 00:00:00 UTC the difference TAI-UTC (hence GPS-UTC) stepped by +1 s *)
Definition iers_leap_dates : list (Z * Z * Z) :=
  [ (1981, 7, 1); (1982, 7, 1); (1983, 7, 1); (1985, 7, 1); (1988, 1, 1); (1990, 1, 1);
    (1991, 1, 1); (1992, 7, 1); (1993, 7, 1); (1994, 7, 1); (1996, 1, 1); (1997, 7, 1);
    (1999, 1, 1); (2006, 1, 1); (2009, 1, 1); (2012, 7, 1); (2015, 7, 1); (2017, 1, 1) ].

(* Unix seconds of those instants (evaluated once here: the case checker uses this list thousands of times) *)
Definition leap_steps : list Z := Eval vm_compute in map unix_of_civil iers_leap_dates.
Lemma leap_steps_def : leap_steps = map unix_of_civil iers_leap_dates.
Proof. vm_compute. reflexivity. Qed.


Definition ns : Z := 1000000000.

(* number of step instants (Unix seconds) not later than t (ns) *)
Definition count_steps (steps : list Z) (t : Z) : Z :=
  Z.of_nat (length (filter (fun s => s * ns <=? t) steps)).

(* published GPS-UTC (seconds) at the UTC instant t (ns since the Unix epoch) *)
Definition gps_minus_utc (t : Z) : Z := count_steps leap_steps t.

(* the specification of the conversion *)
Definition spec_to_gps (t : Z) : Z := t - unix_of_civil gps_epoch_civil * ns + gps_minus_utc t * ns.

(* A GPS duration d (ns) falls inside the i-th inserted leap second (i = 1..)
   when the GPS clock reading, expressed like a Unix time, is in
   [step_i + (i-1), step_i + i) seconds: at UTC 23:59:60 of the day before the
   step date GPS-UTC is still i-1. *)
Fixpoint in_leap_from (i : Z) (steps : list Z) (g : Z) : bool :=
  match steps with
  | [] => false
  | s :: r => (((s + (i - 1)) * ns <=? g) && (g <? (s + i) * ns)) || in_leap_from (i + 1) r g
  end.
Definition in_inserted_leap_second (d : Z) : bool :=
  in_leap_from 1 leap_steps (unix_of_civil gps_epoch_civil * ns + d).
