(* C04 - join / rejoin / join-accept MICs and join-accept encryption follow the specification.
   Statements only; proofs in LW.Sec.JoinAcceptProofs.  Model: LW.Sec.JoinAccept; specification:
   LW.Sec.JoinSpec (LoRaWAN 1.1 section 6.2.2-6.2.4, 1.0.x section 6.2.4-6.2.5). *)
From Coq Require Import List NArith ZArith Bool.
From LW Require Import Base.Outcome Base.Bytes Crypto.AES Crypto.AESInv Crypto.CMAC Mac.Commands Mac.Stream
     Frame.Model Frame.Spec Frame.RoundtripProofs Frame.CanonProofs Sec.MIC Sec.JoinAccept Sec.JoinSpec Sec.JoinAcceptProofs
     Sec.WireMIC Sec.WireMICProofs.
Import ListNotations.
Open Scope N_scope.

Theorem C04_join_request_mic_spec : forall key mt mj je de dn m,
  calc_up_join_mic key (mkPHY mt mj (PLJoinRequest je de dn) m)
  = Ok (spec_join_request_mic key (mhdr_marshal mt mj) je de dn).
Proof. exact join_request_mic_spec. Qed.
Print Assumptions C04_join_request_mic_spec.

Theorem C04_rejoin02_mic_spec : forall key mt mj ty nid de rc m,
  ty = 0 \/ ty = 2 ->
  calc_up_join_mic key (mkPHY mt mj (PLRejoin02 ty nid de rc) m)
  = Ok (spec_rejoin02_mic key (mhdr_marshal mt mj) ty nid de rc).
Proof. exact rejoin02_mic_spec. Qed.
Print Assumptions C04_rejoin02_mic_spec.

Theorem C04_rejoin1_mic_spec : forall key mt mj je de rc m,
  calc_up_join_mic key (mkPHY mt mj (PLRejoin1 1 je de rc) m)
  = Ok (spec_rejoin1_mic key (mhdr_marshal mt mj) je de rc).
Proof. exact rejoin1_mic_spec. Qed.
Print Assumptions C04_rejoin1_mic_spec.

Theorem C04_rejoin_bad_type_no_mic : forall key mt mj ty nid de rc je m,
  (ty <> 0 /\ ty <> 2 -> calc_up_join_mic key (mkPHY mt mj (PLRejoin02 ty nid de rc) m) = Err) /\
  (ty <> 1 -> calc_up_join_mic key (mkPHY mt mj (PLRejoin1 ty je de rc) m) = Err).
Proof. exact rejoin_bad_type_no_mic. Qed.
Print Assumptions C04_rejoin_bad_type_no_mic.

(* 1.0 form, and with OptNeg the 1.1 form covering JoinReqType | JoinEUI | DevNonce *)
Theorem C04_join_accept_mic_spec : forall ty je dn key p body,
  is_join_accept p -> payload_marshal (pl p) = Ok body ->
  calc_down_join_mic ty je dn key p
  = Ok (if optneg_of p
        then spec_join_accept_mic_11 key ty je dn (mhdr_marshal (mtype p) (major p)) body
        else spec_join_accept_mic_10 key (mhdr_marshal (mtype p) (major p)) body).
Proof. exact join_accept_mic_spec. Qed.
Print Assumptions C04_join_accept_mic_spec.

Theorem C04_validate_up_join_iff : forall key p b x,
  calc_up_join_mic key p = Ok x -> validate_up_join_mic key p = Ok b -> (b = true <-> mic p = x).
Proof. exact validate_up_join_iff. Qed.
Print Assumptions C04_validate_up_join_iff.

Theorem C04_validate_down_join_iff : forall ty je dn key p b body,
  is_join_accept p -> payload_marshal (pl p) = Ok body ->
  validate_down_join_mic ty je dn key p = Ok b ->
  (b = true <-> mic p = (if optneg_of p
                         then spec_join_accept_mic_11 key ty je dn (mhdr_marshal (mtype p) (major p)) body
                         else spec_join_accept_mic_10 key (mhdr_marshal (mtype p) (major p)) body)).
Proof. exact validate_down_join_iff. Qed.
Print Assumptions C04_validate_down_join_iff.

Theorem C04_ciphertext_spec : forall key p q,
  encrypt_join_accept key p = Ok q ->
  exists body d, payload_marshal (pl p) = Ok body /\ pl q = PLData d /\
                 d ++ mic q = spec_join_accept_ciphertext key body (mic p).
Proof. exact ciphertext_spec. Qed.
Print Assumptions C04_ciphertext_spec.

(* all keys and messages of bytes whose length is a multiple of 16 (uses AESInv) *)
Theorem C04_device_recovers : forall key body m,
  Forall byte key -> Forall byte (body ++ m) -> (length (body ++ m) mod 16 = 0)%nat ->
  device_decrypt key (spec_join_accept_ciphertext key body m) = body ++ m.
Proof. exact device_recovers. Qed.
Print Assumptions C04_device_recovers.

Theorem C04_device_recovers_frame : forall key p q,
  Forall byte key -> encrypt_join_accept key p = Ok q ->
  exists body d, payload_marshal (pl p) = Ok body /\ pl q = PLData d /\
    (Forall byte (body ++ mic p) -> device_decrypt key (d ++ mic q) = body ++ mic p).
Proof. exact device_recovers_frame. Qed.
Print Assumptions C04_device_recovers_frame.

(* 12- and 28-byte forms, both CFList kinds; equality modulo trailing all-zero channel masks
   (known finding C04-1).  The join-accept payload codec round trip of C01 is
   LW.Frame.RoundtripProofs.joinaccept_codec. *)
Theorem C04_decrypt_encrypt : forall key p,
  Forall byte key -> spec_valid p = true -> is_join_accept p ->
  exists q, encrypt_join_accept key p = Ok q /\ decrypt_join_accept key q = Ok (wire_phy p).
Proof. exact (decrypt_encrypt joinaccept_codec). Qed.
Print Assumptions C04_decrypt_encrypt.

(* literal equality where no mask is lost: no CFList, a channel list, or masks whose last one is not all zero *)
Theorem C04_decrypt_encrypt_literal : forall key p,
  Forall byte key -> spec_valid p = true -> is_join_accept p -> wire_phy p = p ->
  exists q, encrypt_join_accept key p = Ok q /\ decrypt_join_accept key q = Ok p.
Proof.
  intros key p Hk Hv Hj Hw. destruct (decrypt_encrypt joinaccept_codec key p Hk Hv Hj) as (q & H1 & H2).
  exists q. split; [exact H1|]. now rewrite Hw in H2.
Qed.
Print Assumptions C04_decrypt_encrypt_literal.

Theorem C04_decrypt_encrypt_literal_refuted :
  spec_valid c04_witness = true /\ is_join_accept c04_witness /\
  exists q, encrypt_join_accept c04_witness_key c04_witness = Ok q /\
            decrypt_join_accept c04_witness_key q = Ok (wire_phy c04_witness) /\
            wire_phy c04_witness <> c04_witness.
Proof. exact decrypt_encrypt_literal_refuted. Qed.
Print Assumptions C04_decrypt_encrypt_literal_refuted.

(* ---- octets as received ----
   The MIC theorems above speak about the decoded frame value, whose re-encoding the library hashes.  For octets from
   the air: a join-request / rejoin-request whose MHDR RFU bits are zero is accepted exactly when its last four octets
   are cmac(key, all other octets)[0..3].  Exceptions, known findings with witnesses: C04-2 (MHDR RFU bits, all three
   join MIC validators) and C04-3 (RFU parts of a join-accept: RxDelay bits 7..4, channel-mask CFList octets 12..14). *)
Theorem C04_up_join_received_octets : forall key bs b,
  Forall (fun x => x < 256) bs -> rfu_zero bs = true ->
  wire_validate_up_join key bs = Ok b ->
  b = bytes_eqb (skipn (length bs - 4) bs) (mic_of key (firstn (length bs - 4) bs)).
Proof. exact up_join_wire_validate. Qed.
Print Assumptions C04_up_join_received_octets.

Theorem C04_up_join_mhdr_rfu_refuted :
  rfu_zero c04_2_received = false /\
  wire_validate_up_join c04_2_key c04_2_sent = Ok true /\
  wire_validate_up_join c04_2_key c04_2_received = Ok true /\
  (let '(carried, specified) := wire_spec_up_join c04_2_key c04_2_received in bytes_eqb carried specified) = false.
Proof. exact up_join_wire_mhdr_rfu_refuted. Qed.
Print Assumptions C04_up_join_mhdr_rfu_refuted.

Theorem C04_join_accept_rfu_refuted :
  (exists q, wire_join_accept 255 [0;0;0;0;0;0;0;0] 0 c04_3_key c04_3_key (c04_3_wire 1) = Ok (q, true)
             /\ payload_marshal (pl q) = Ok (c04_3_body 1)) /\
  (exists q, wire_join_accept 255 [0;0;0;0;0;0;0;0] 0 c04_3_key c04_3_key (c04_3_wire 17) = Ok (q, false)
             /\ payload_marshal (pl q) = Ok (c04_3_body 1)) /\
  match wire_spec_join_accept 255 [0;0;0;0;0;0;0;0] 0 c04_3_key c04_3_key (c04_3_wire 17) with
  | Some (body, carried, specified) => body = c04_3_body 17 /\ bytes_eqb carried specified = true
  | None => False
  end.
Proof. exact join_accept_wire_rfu_refuted. Qed.
Print Assumptions C04_join_accept_rfu_refuted.

(* non-vacuity: a 28-byte join-accept with OptNeg and a channel CFList round-trips literally, and its
   1.1 MIC depends on the DevNonce *)
Definition ex_ja : phy :=
  mkPHY JoinAccept 0
        (PLJoinAccept 66051 [1; 2; 3] [4; 5; 6; 7] true 3 2 5
           (Some (mkCFList (CFPChannels [867100000; 867300000; 867500000; 867700000; 867900000]) 0)))
        [0; 0; 0; 0].
Definition ex_jkey : list N := [16; 15; 14; 13; 12; 11; 10; 9; 8; 7; 6; 5; 4; 3; 2; 1].
Definition ex_je : list N := [1; 2; 3; 4; 5; 6; 7; 8].
Definition ex_m1 : list N :=
  Eval vm_compute in match calc_down_join_mic 255 ex_je 258 ex_jkey ex_ja with Ok m => m | _ => [] end.
Definition ex_m2 : list N :=
  Eval vm_compute in match calc_down_join_mic 255 ex_je 513 ex_jkey ex_ja with Ok m => m | _ => [] end.
Definition ex_q : phy :=
  Eval vm_compute in match encrypt_join_accept ex_jkey (set_mic ex_ja ex_m1) with Ok q => q | _ => ex_ja end.
Example C04_example_nonvacuous :
  spec_valid ex_ja = true /\
  calc_down_join_mic 255 ex_je 258 ex_jkey ex_ja = Ok ex_m1 /\
  calc_down_join_mic 255 ex_je 513 ex_jkey ex_ja = Ok ex_m2 /\ ex_m1 <> ex_m2 /\ length ex_m1 = 4%nat /\
  encrypt_join_accept ex_jkey (set_mic ex_ja ex_m1) = Ok ex_q /\
  decrypt_join_accept ex_jkey ex_q = Ok (set_mic ex_ja ex_m1) /\
  validate_down_join_mic 255 ex_je 258 ex_jkey (set_mic ex_ja ex_m1) = Ok true.
Proof. vm_compute. repeat split; try reflexivity; discriminate. Qed.
