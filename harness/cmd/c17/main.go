// Correspondence harness for C17 (backend JSON types and key envelopes).
package main

import (
	"bytes"
	"crypto/aes"
	"encoding/json"
	"fmt"
	"math"
	"os"
	"reflect"
	"strconv"
	"time"

	keywrap "github.com/NickBall/go-aes-key-wrap"
	"github.com/brocaar/lorawan"
	"github.com/brocaar/lorawan/backend"
	"verifharness/internal/cases"
	"verifharness/internal/cq"
)

// ---- floats as exact m * 2^e --------------------------------------------------

func me(x float64) (int64, int) {
	if x == 0 {
		return 0, 0
	}
	fr, ex := math.Frexp(x)
	m := int64(fr * (1 << 53))
	e := ex - 53
	for m != 0 && m%2 == 0 {
		m /= 2
		e++
	}
	return m, e
}

func meTerm(x float64) string {
	m, e := me(x)
	return cq.Z(m) + " " + cq.Z(int64(e))
}

// ---- Frequency / Percentage ------------------------------------------------------

func freqRT(f int64) (txt []byte, x float64, back int64, err error) {
	txt, err = json.Marshal(backend.Frequency(f))
	if err != nil {
		return
	}
	x, err = strconv.ParseFloat(string(txt), 64)
	if err != nil {
		return
	}
	var g backend.Frequency
	err = json.Unmarshal(txt, &g)
	back = int64(g)
	return
}

func pctRT(p int64) (txt []byte, x float64, back int64, err error) {
	txt, err = json.Marshal(backend.Percentage(p))
	if err != nil {
		return
	}
	x, err = strconv.ParseFloat(string(txt), 64)
	if err != nil {
		return
	}
	var g backend.Percentage
	err = json.Unmarshal(txt, &g)
	back = int64(g)
	return
}

func freqCase(s *cases.Set, f int64, kind string) {
	txt, x, back, err := freqRT(f)
	rp := map[string]interface{}{"api": "json.Marshal(backend.Frequency) -> json.Unmarshal", "hz": f, "json": string(txt), "observed_back": back}
	if err != nil {
		s.Fail(cases.GoFail{Key: fmt.Sprintf("freq:f=%d", f), What: "Frequency JSON round trip returns an error: " + err.Error(), Replay: rp})
		return
	}
	s.Add(cases.Case{Term: fmt.Sprintf("CFreq %s %s %s", cq.Z(f), meTerm(x), cq.Z(back)), Key: fmt.Sprintf("freq:f=%d", f), Kind: kind, Nontrivial: true, Replay: rp})
}

func pctCase(s *cases.Set, p int64, kind string) {
	txt, x, back, err := pctRT(p)
	rp := map[string]interface{}{"api": "json.Marshal(backend.Percentage) -> json.Unmarshal", "percent": p, "json": string(txt), "observed_back": back}
	if err != nil {
		s.Fail(cases.GoFail{Key: fmt.Sprintf("pct:p=%d", p), What: "Percentage JSON round trip returns an error: " + err.Error(), Replay: rp})
		return
	}
	s.Add(cases.Case{Term: fmt.Sprintf("CPct %s %s %s", cq.Z(p), meTerm(x), cq.Z(back)), Key: fmt.Sprintf("pct:p=%d", p), Kind: kind, Nontrivial: true, Replay: rp})
}

func textCase(s *cases.Set, txt string, isFreq bool) {
	x, err := strconv.ParseFloat(txt, 64)
	if err != nil || math.IsNaN(x) || math.IsInf(x, 0) || math.Abs(x) > 9e9 {
		return
	}
	if isFreq {
		var g backend.Frequency
		if json.Unmarshal([]byte(txt), &g) != nil {
			return
		}
		s.Add(cases.Case{Term: fmt.Sprintf("CFreqText %s %s", meTerm(x), cq.Z(int64(g))), Key: "freqtext:" + txt, Kind: "frequency-unmarshal-text", Nontrivial: true,
			Replay: map[string]interface{}{"api": "backend.Frequency.UnmarshalJSON", "json": txt, "observed": int64(g)}})
	} else {
		var g backend.Percentage
		if json.Unmarshal([]byte(txt), &g) != nil {
			return
		}
		s.Add(cases.Case{Term: fmt.Sprintf("CPctText %s %s", meTerm(x), cq.Z(int64(g))), Key: "pcttext:" + txt, Kind: "percentage-unmarshal-text", Nontrivial: true,
			Replay: map[string]interface{}{"api": "backend.Percentage.UnmarshalJSON", "json": txt, "observed": int64(g)}})
	}
}

func floatCases(s *cases.Set, r *cq.RNG, thorough bool) {
	// witnesses of finding C17-1 first
	for _, p := range []int64{29, 57, 58} {
		pctCase(s, p, "percentage-witness")
	}
	freqCase(s, 128200000, "frequency-witness")
	// Percentage -5..300, exhaustively
	for p := int64(-5); p <= 300; p++ {
		pctCase(s, p, "percentage-all-(-5..300)")
	}
	s.Exhaustive("percentage: every value -5..300 through json.Marshal/Unmarshal, evaluated in Coq")
	for i := 0; i < 40; i++ {
		pctCase(s, int64(r.U64()%100000)-1000, "percentage-random-wide")
	}
	// Frequency: boundaries
	for _, f := range []int64{0, 1, 2, 999999, 1000000, 1000001, 99999999, 100000000, 2147483647, 2147483648, 4294967294, 4294967295,
		433050000, 433175000, 470300000, 779500000, 863000000, 868100000, 868300000, 868500000, 869525000, 902300000, 915000000, 923200000, 927500000, 2403000000, 2479000000} {
		freqCase(s, f, "frequency-boundary-and-plan")
	}
	// outside 0..2^32 (model tie only)
	for _, f := range []int64{-1, -868100000, 4294967296, 5000000000, 1 << 40} {
		freqCase(s, f, "frequency-outside-u32")
	}
	// dense around 0.1 MHz steps: on the Go side every multiple of 100 kHz in 0..2^32 with -2..+2 Hz,
	// in Coq a sample of those
	bad := 0
	checkGo := func(f int64) {
		if f < 0 || f > 4294967295 {
			return
		}
		txt, _, back, err := freqRT(f)
		if (err != nil || back != f) && bad < 40 {
			bad++
			s.Fail(cases.GoFail{Key: fmt.Sprintf("freq:f=%d", f), What: fmt.Sprintf("Frequency %d Hz decodes as %d after JSON encoding (%s)", f, back, txt),
				Replay: map[string]interface{}{"api": "json.Marshal(backend.Frequency) -> json.Unmarshal", "hz": f, "json": string(txt), "observed_back": back}})
		}
	}
	nGo := 0
	for k := int64(0); k*100000 <= 4294967295; k++ {
		for d := int64(-2); d <= 2; d++ {
			checkGo(k*100000 + d)
			nGo++
		}
	}
	s.Exhaustive("frequency: every multiple of 0.1 MHz in 0..2^32 Hz with offsets -2..+2 Hz, round trip checked on the Go side")
	nRand := 200000
	if thorough {
		nRand = 6000000
		for k := int64(0); k*1000 <= 4294967295; k++ { // every kHz
			checkGo(k * 1000)
			nGo++
		}
	}
	for i := 0; i < nRand; i++ {
		checkGo(int64(r.U32()))
		nGo++
	}
	s.Extra["frequency_go_side_round_trips"] = nGo
	nCoq := 220
	if thorough {
		nCoq = 6000
	}
	for i := 0; i < nCoq; i++ {
		k := int64(r.U64() % 42950)
		freqCase(s, k*100000+int64(r.Intn(3))-1, "frequency-0.1MHz-step-neighbourhood")
		f := int64(r.U32())
		if f <= 4294967295 {
			freqCase(s, f, "frequency-random-u32")
		}
	}
	// arbitrary JSON numbers into UnmarshalJSON
	for _, t := range []string{"868.1", "868.3", "433.175", "0.000001", "0.0000005", "0.0000004", "4294.967295", "1e3", "1E-6", "-1", "-0.0000015", "123456.789", "0", "-0", "0.29", "0.57", "0.58", "1", "0.005", "0.015", "0.025", "2.675", "100", "1e2"} {
		textCase(s, t, true)
		textCase(s, t, false)
	}
	for i := 0; i < 60; i++ {
		t := strconv.FormatFloat(float64(r.U64()%5000000000)/1e6+float64(r.Intn(1000))/1e9, 'f', -1, 64)
		textCase(s, t, true)
		textCase(s, strconv.FormatFloat(float64(r.Intn(100000))/1e4, 'f', -1, 64), false)
	}
}

// ---- HEXBytes ---------------------------------------------------------------------

func hexOutcome(text []byte) string {
	var hb backend.HEXBytes
	if err := hb.UnmarshalText(text); err != nil {
		return cq.Err
	}
	return cq.Ok(cq.Bytes(hb))
}

// lengths around powers of two for every variable-length field
var ladder = []int{0, 1, 2, 15, 16, 17, 255, 256, 257, 258, 300, 511, 512, 1024, 4096}
var ladderThorough = []int{31, 32, 33, 63, 64, 65, 127, 128, 129, 1023, 1025, 2047, 2048, 2049, 4095, 4097, 8192}

// lowerHex is written here independently of encoding/hex: two lower-case digits per byte, all bytes.
func lowerHex(b []byte) string {
	const d = "0123456789abcdef"
	out := make([]byte, 0, 2*len(b))
	for _, x := range b {
		out = append(out, d[x>>4], d[x&15])
	}
	return string(out)
}

// hexGoSide: text form, String, text with 0x, and JSON inside a struct, against lowerHex.
func hexGoSide(s *cases.Set, bs []byte) (text []byte, ok bool) {
	ok = true
	name := fmt.Sprintf("len=%d:%x", len(bs), bs)
	if len(bs) > 24 {
		name = fmt.Sprintf("len=%d:%x..", len(bs), bs[:8])
	}
	fail := func(what string, extra map[string]interface{}) {
		ok = false
		rp := map[string]interface{}{"api": "backend.HEXBytes MarshalText/UnmarshalText/String/json", "length": len(bs), "value_prefix": fmt.Sprintf("%x", bs[:min(len(bs), 32)])}
		for k, v := range extra {
			rp[k] = v
		}
		s.Fail(cases.GoFail{Key: "hex:go:" + name, What: what, Replay: rp})
	}
	want := lowerHex(bs)
	text, err := backend.HEXBytes(bs).MarshalText()
	if err != nil || string(text) != want {
		fail(fmt.Sprintf("HEXBytes.MarshalText of %d bytes is not the lower-case hex of all bytes (got %d characters, want %d)", len(bs), len(text), len(want)), map[string]interface{}{"text_tail": string(text[max(0, len(text)-40):])})
	}
	if got := backend.HEXBytes(bs).String(); got != want {
		fail(fmt.Sprintf("HEXBytes.String of %d bytes is not the hex of all bytes", len(bs)), map[string]interface{}{"string_tail": got[max(0, len(got)-40):]})
	}
	for _, pre := range []string{"", "0x"} {
		var back backend.HEXBytes
		if err := back.UnmarshalText(append([]byte(pre), text...)); err != nil || !bytes.Equal(back, bs) {
			fail(fmt.Sprintf("HEXBytes of %d bytes does not survive MarshalText -> UnmarshalText (prefix %q): %v", len(bs), pre, err), nil)
		}
	}
	type w struct{ V backend.HEXBytes }
	b, err := json.Marshal(w{V: bs})
	var back w
	if err == nil {
		err = json.Unmarshal(b, &back)
	}
	if err != nil || !bytes.Equal(back.V, bs) {
		fail(fmt.Sprintf("HEXBytes of %d bytes does not survive json.Marshal/Unmarshal: %v", len(bs), err), nil)
	}
	return text, ok
}

func min(a, b int) int {
	if a < b {
		return a
	}
	return b
}

func max(a, b int) int {
	if a > b {
		return a
	}
	return b
}

func hexCases(s *cases.Set, r *cq.RNG, thorough bool) {
	n := 60
	if thorough {
		n = 2000
	}
	// length ladder, stand-alone: evaluated in Coq up to 4096 (8192 thorough), on the Go side up to 64 KiB
	ls := append([]int{}, ladder...)
	if thorough {
		ls = append(ls, ladderThorough...)
	}
	for _, l := range ls {
		bs := r.Bytes(l)
		text, _ := hexGoSide(s, bs)
		b1, b2 := hexOutcome(text), hexOutcome(append([]byte("0x"), text...))
		okb := cq.Ok(cq.Bytes(bs))
		term := fmt.Sprintf("CHexRTSame %s %s", cq.Bytes(bs), cq.Bytes(text))
		if b1 != okb || b2 != okb {
			term = fmt.Sprintf("CHexRT %s %s %s %s", cq.Bytes(bs), cq.Bytes(text), b1, b2)
		}
		s.Add(cases.Case{Term: term, Key: fmt.Sprintf("hex:rt:len=%d", l), Kind: "hexbytes-roundtrip-length-ladder", Nontrivial: true,
			Replay: map[string]interface{}{"api": "backend.HEXBytes.MarshalText/UnmarshalText", "length": l, "value_prefix": fmt.Sprintf("%x", bs[:min(l, 32)]), "text_length": len(text), "text_tail": string(text[max(0, len(text)-40):])}})
	}
	for _, l := range []int{16383, 16384, 16385, 65535, 65536, 65537} {
		hexGoSide(s, r.Bytes(l))
	}
	s.Exhaustive("hexbytes: length ladder 0,1,2,15,16,17,255,256,257,258,300,511,512,1024,4096 evaluated in Coq; additionally 16383..16385 and 65535..65537 bytes on the Go side against an independent lower-case hex printer")
	for i := 0; i < n; i++ {
		l := r.Intn(40)
		if i < 3 {
			l = i
		}
		bs := r.Bytes(l)
		if i%7 == 0 && l > 0 {
			bs[0] = 0
		}
		text, _ := hexGoSide(s, bs)
		s.Add(cases.Case{Term: fmt.Sprintf("CHexRT %s %s %s %s", cq.Bytes(bs), cq.Bytes(text), hexOutcome(text), hexOutcome(append([]byte("0x"), text...))),
			Key: fmt.Sprintf("hex:rt:%x", bs), Kind: "hexbytes-roundtrip", Nontrivial: true,
			Replay: map[string]interface{}{"api": "backend.HEXBytes.MarshalText/UnmarshalText", "value": fmt.Sprintf("%x", bs)}})
	}
	hexd := []byte("0123456789abcdefABCDEF")
	for i := 0; i < n; i++ {
		l := r.Intn(24)
		t := make([]byte, l)
		for j := range t {
			t[j] = hexd[r.Intn(len(hexd))]
		}
		switch r.Intn(6) {
		case 0:
			t = append([]byte("0x"), t...)
		case 1:
			if l > 0 {
				t[r.Intn(l)] = "gxX -\x00\xff"[r.Intn(7)]
			}
		case 2:
			t = append([]byte("0x0x"), t...)
		case 3:
			t = append([]byte("0X"), t...)
		}
		s.Add(cases.Case{Term: fmt.Sprintf("CHexText %s %s", cq.Bytes(t), hexOutcome(t)), Key: fmt.Sprintf("hex:text:%q", string(t)), Kind: "hexbytes-malformed-text", Nontrivial: true,
			Replay: map[string]interface{}{"api": "backend.HEXBytes.UnmarshalText", "text": string(t)}})
	}
}

// ---- key envelopes -------------------------------------------------------------------

func unwrapOutcome(env backend.KeyEnvelope, kek []byte) (res string) {
	defer func() {
		if recover() != nil {
			res = cq.Panic
		}
	}()
	k, err := env.Unwrap(kek)
	if err != nil {
		return cq.Err
	}
	return cq.Ok(cq.Bytes(k[:]))
}

func envNewCase(s *cases.Set, label string, kek []byte, key lorawan.AES128Key, kind string) {
	env, err := backend.NewKeyEnvelope(label, kek, key)
	o, ou := cq.Err, cq.Err
	if err == nil {
		o = cq.Ok(cq.Tuple(cq.Str(env.KEKLabel), cq.Bytes(env.AESKey)))
		ou = unwrapOutcome(*env, kek)
	}
	s.Add(cases.Case{Term: fmt.Sprintf("CEnvNew %s %s %s %s %s", cq.Str(label), cq.Bytes(kek), cq.Bytes(key[:]), o, ou),
		Key: fmt.Sprintf("env:new:label=%q:kek=%x:key=%x", label, kek, key[:]), Kind: kind, Nontrivial: true,
		Replay: map[string]interface{}{"api": "backend.NewKeyEnvelope -> KeyEnvelope.Unwrap", "label": label, "kek": fmt.Sprintf("%x", kek), "key": fmt.Sprintf("%x", key[:]), "observed": o, "observed_unwrap": ou}})
}

func envUnwrapCase(s *cases.Set, data, kek []byte, kind string) {
	o := unwrapOutcome(backend.KeyEnvelope{KEKLabel: "x", AESKey: data}, kek)
	s.Add(cases.Case{Term: fmt.Sprintf("CEnvUnwrap %s %s %s", cq.Bytes(data), cq.Bytes(kek), o),
		Key: fmt.Sprintf("env:unwrap:len=%d:data=%x:kek=%x", len(data), data, kek), Kind: kind, Nontrivial: true,
		Replay: map[string]interface{}{"api": "backend.KeyEnvelope.Unwrap", "aeskey": fmt.Sprintf("%x", data), "kek": fmt.Sprintf("%x", kek), "observed": o}})
}

// flipBit returns a copy of b with one bit of byte i flipped.
func flipBit(b []byte, i int, bit uint) []byte {
	c := append([]byte{}, b...)
	c[i] ^= 1 << bit
	return c
}

func envCases(s *cases.Set, r *cq.RNG, thorough bool) {
	n := 5
	if thorough {
		n = 120
	}
	var key lorawan.AES128Key
	// RFC 3394 4.1 / 4.2 / 4.3 first: key data 00112233..ff under the KEKs 000102.. of 16, 24 and 32 bytes
	copy(key[:], []byte{0x00, 0x11, 0x22, 0x33, 0x44, 0x55, 0x66, 0x77, 0x88, 0x99, 0xaa, 0xbb, 0xcc, 0xdd, 0xee, 0xff})
	for _, kl := range []int{16, 24, 32} {
		kek := make([]byte, kl)
		for i := range kek {
			kek[i] = byte(i)
		}
		envNewCase(s, "rfc3394", kek, key, fmt.Sprintf("envelope-rfc3394-vector-aes%d", kl*8))
	}
	for _, kl := range []int{16, 24, 32} {
		aesName := fmt.Sprintf("aes%d", kl*8)
		for i := 0; i < n; i++ {
			copy(key[:], r.Bytes(16))
			kek := r.Bytes(kl)
			switch i {
			case 1: // structured KEKs and keys
				kek = make([]byte, kl)
				key = lorawan.AES128Key{}
			case 2:
				for j := range kek {
					kek[j] = 0xff
				}
			case 3: // the halves of the KEK are equal (a cipher that looks at the first 16 bytes only cannot tell)
				copy(kek[kl-16:], kek[:16])
			}
			// neighbour family: the base call, the same call with exactly one thing changed, the base call again
			envNewCase(s, "kek-label", kek, key, "envelope-wrapped-"+aesName)
			envNewCase(s, "", kek, key, "envelope-no-label-clear-"+aesName)
			envNewCase(s, "kek-label", flipBit(kek, kl-1, uint(r.Intn(8))), key, "envelope-wrapped-last-kek-byte-changed-"+aesName)
			envNewCase(s, "kek-label", flipBit(kek, r.Intn(kl), uint(r.Intn(8))), key, "envelope-wrapped-one-kek-bit-changed-"+aesName)
			var key2 lorawan.AES128Key
			copy(key2[:], flipBit(key[:], r.Intn(16), uint(r.Intn(8))))
			envNewCase(s, "kek-label", kek, key2, "envelope-wrapped-one-key-bit-changed-"+aesName)
			if i%3 == 0 {
				envNewCase(s, "k", kek, key, "envelope-wrapped-other-label-"+aesName)
				envNewCase(s, "lbl", nil, key, "envelope-label-but-empty-kek-clear")
				bad := []int{1, 5, 8, 15, 17, 20, 23, 25, 31, 33, 40, 48, 64}[r.Intn(13)]
				envNewCase(s, "lbl", r.Bytes(bad), key, "envelope-bad-kek-length")
				envNewCase(s, "", r.Bytes(bad), key, "envelope-no-label-bad-kek-length-clear")
			}
			envNewCase(s, "kek-label", kek, key, "envelope-wrapped-"+aesName)
			env, err := backend.NewKeyEnvelope("l", kek, key)
			if err != nil || len(env.AESKey) != 24 {
				s.Fail(cases.GoFail{Key: fmt.Sprintf("env:go:kek=%x:key=%x", kek, key[:]), What: "NewKeyEnvelope with a label and a valid KEK does not return a 24-byte wrapped key",
					Replay: map[string]interface{}{"api": "backend.NewKeyEnvelope", "label": "l", "kek": fmt.Sprintf("%x", kek), "key": fmt.Sprintf("%x", key[:])}})
				continue
			}
			w := append([]byte{}, env.AESKey...)
			envUnwrapCase(s, w, kek, "unwrap-valid-"+aesName)
			envUnwrapCase(s, flipBit(w, r.Intn(len(w)), uint(r.Intn(8))), kek, "unwrap-corrupted-ciphertext-"+aesName)
			envUnwrapCase(s, w, r.Bytes(kl), "unwrap-wrong-kek-same-size-"+aesName)
			envUnwrapCase(s, w, flipBit(kek, kl-1, uint(r.Intn(8))), "unwrap-wrong-kek-last-byte-"+aesName)
			envUnwrapCase(s, w, flipBit(kek, r.Intn(kl), uint(r.Intn(8))), "unwrap-wrong-kek-one-bit-"+aesName)
			// the KEK of another size that shares the leading bytes
			switch kl {
			case 16:
				envUnwrapCase(s, w, append(append([]byte{}, kek...), r.Bytes(8)...), "unwrap-wrong-kek-extended-to-24")
				envUnwrapCase(s, w, append(append([]byte{}, kek...), kek...), "unwrap-wrong-kek-doubled-to-32")
			case 24:
				envUnwrapCase(s, w, kek[:16], "unwrap-wrong-kek-truncated-to-16")
				envUnwrapCase(s, w, append(append([]byte{}, kek...), r.Bytes(8)...), "unwrap-wrong-kek-extended-to-32")
			case 32:
				envUnwrapCase(s, w, kek[:16], "unwrap-wrong-kek-truncated-to-16")
				envUnwrapCase(s, w, kek[:24], "unwrap-wrong-kek-truncated-to-24")
			}
			envUnwrapCase(s, w, kek[:kl-1], "unwrap-bad-kek-length")
			envUnwrapCase(s, w, kek, "unwrap-valid-"+aesName)
			if i%2 == 0 {
				envUnwrapCase(s, append(append([]byte{}, w...), r.Bytes(1+r.Intn(7))...), kek, "unwrap-valid-plus-partial-block-"+aesName)
				envUnwrapCase(s, r.Bytes(16+8*r.Intn(3)), kek, "unwrap-random-data-"+aesName)
				envUnwrapCase(s, key[:], kek, "unwrap-clear-key-as-if-wrapped-"+aesName)
				envUnwrapCase(s, w[:16], kek, "unwrap-one-block-dropped-"+aesName)
			}
			if i%3 == 1 { // key data of 3 and 4 blocks wrapped by the library directly, unwrapped by the envelope (first 16 bytes returned)
				block, _ := aes.NewCipher(kek)
				if d, err := keywrap.Wrap(block, r.Bytes(24+8*r.Intn(2))); err == nil {
					envUnwrapCase(s, d, kek, "unwrap-longer-key-data-"+aesName)
				}
			}
		}
		kek := r.Bytes(kl)
		envUnwrapCase(s, nil, kek, "unwrap-short-data-"+aesName)
		envUnwrapCase(s, r.Bytes(7), kek, "unwrap-short-data-"+aesName)
		envUnwrapCase(s, r.Bytes(8), kek, "unwrap-short-data-"+aesName)
		envUnwrapCase(s, []byte{0xa6, 0xa6, 0xa6, 0xa6, 0xa6, 0xa6, 0xa6, 0xa6}, kek, "unwrap-short-data-"+aesName)
		envUnwrapCase(s, append([]byte{0xa6, 0xa6, 0xa6, 0xa6, 0xa6, 0xa6, 0xa6, 0xa6}, r.Bytes(5)...), kek, "unwrap-short-data-"+aesName)
		envUnwrapCase(s, r.Bytes(15), kek, "unwrap-short-data-"+aesName)
	}
	// every data length 0..48 (finding C17-3: Unwrap handed any length to the key-wrap library): random bytes, bytes that
	// begin with the RFC 3394 initial value, genuine wrappings of 8 / 16 / 24 / 32 / 40 bytes of key data, the 24-byte
	// wrapping cut short and extended; envelopes decoded from a peer's JSON with the key absent, empty or short
	for ki, kl := range []int{16, 24, 32} {
		kek := r.Bytes(kl)
		block, _ := aes.NewCipher(kek)
		copy(key[:], r.Bytes(16))
		w24, _ := keywrap.Wrap(block, key[:])
		for l := 0; l <= 48; l++ {
			if !thorough && l%3 != ki && l != 0 && l != 7 && l != 8 && l != 15 && l != 16 && l != 23 && l != 24 && l != 25 && l != 32 && l != 40 && l != 48 {
				continue
			}
			envUnwrapCase(s, r.Bytes(l), kek, fmt.Sprintf("unwrap-length-%d-random", l))
			if l >= 8 {
				envUnwrapCase(s, append([]byte{0xa6, 0xa6, 0xa6, 0xa6, 0xa6, 0xa6, 0xa6, 0xa6}, r.Bytes(l-8)...), kek, fmt.Sprintf("unwrap-length-%d-begins-with-iv", l))
			}
			if l >= 16 && l%8 == 0 {
				if d, err := keywrap.Wrap(block, r.Bytes(l-8)); err == nil {
					envUnwrapCase(s, d, kek, fmt.Sprintf("unwrap-length-%d-genuine-wrapping-of-%d-bytes", l, l-8))
				}
			}
			if l < 24 {
				envUnwrapCase(s, w24[:l], kek, fmt.Sprintf("unwrap-length-%d-wrapping-cut-short", l))
			} else if l > 24 {
				envUnwrapCase(s, append(append([]byte{}, w24...), r.Bytes(l-24)...), kek, fmt.Sprintf("unwrap-length-%d-wrapping-extended", l))
			}
		}
		for _, js := range []string{`{"KEKLabel":"lbl"}`, `{"KEKLabel":"lbl","AESKey":""}`, `{"KEKLabel":"lbl","AESKey":null}`, `{"KEKLabel":"lbl","AESKey":"00010203040506"}`,
			`{"KEKLabel":"lbl","AESKey":"a6a6a6a6a6a6a6a6"}`, `{"KEKLabel":"lbl","AESKey":"0xa6a6a6a6a6a6a6a600"}`, fmt.Sprintf(`{"AESKey":"%x"}`, w24), fmt.Sprintf(`{"KEKLabel":"lbl","AESKey":"%x00"}`, w24)} {
			var env backend.KeyEnvelope
			if err := json.Unmarshal([]byte(js), &env); err == nil {
				envUnwrapCase(s, env.AESKey, kek, "unwrap-envelope-decoded-from-json")
			}
		}
	}
	s.Exhaustive("key envelopes: KeyEnvelope.Unwrap on AESKey of every length 0..48 (thorough: every length x every shape; quick: the block boundaries and a third of the rest per KEK size) - random, beginning with the RFC 3394 initial value, genuine wrappings of 8..40 bytes of key data, the 24-byte wrapping cut short and extended, envelopes decoded from JSON with the key absent / empty / short - under KEKs of 16, 24 and 32 bytes, evaluated in Coq")
	for _, bad := range []int{0, 1, 5, 15, 17, 23, 25, 31, 33, 48, 64} {
		envUnwrapCase(s, r.Bytes(24), r.Bytes(bad), "unwrap-bad-kek-length")
		envUnwrapCase(s, r.Bytes(3), r.Bytes(bad), "unwrap-bad-kek-length-short-data")
		copy(key[:], r.Bytes(16))
		envNewCase(s, "lbl", r.Bytes(bad), key, "envelope-bad-kek-length")
	}
	s.Exhaustive("key envelopes: KEK lengths 0, 1, 5, 15, 16, 17, 23, 24, 25, 31, 32, 33, 48, 64 through NewKeyEnvelope and Unwrap (16/24/32 wrapped, every other length the key-size error, empty KEK in clear), evaluated in Coq")

	// additional volume on the Go side (all three KEK sizes): round trip, corruption, wrong KEK, equality with the library, JSON
	m := 200
	if thorough {
		m = 5000
	}
	for i := 0; i < m; i++ {
		kl := []int{16, 24, 32}[i%3]
		kek := r.Bytes(kl)
		copy(key[:], r.Bytes(16))
		rp := map[string]interface{}{"api": "backend.NewKeyEnvelope -> KeyEnvelope.Unwrap", "kek": fmt.Sprintf("%x", kek), "key": fmt.Sprintf("%x", key[:])}
		k := fmt.Sprintf("env:go:kek=%x:key=%x", kek, key[:])
		env, err := backend.NewKeyEnvelope("label", kek, key)
		if err != nil || env.KEKLabel != "label" || len(env.AESKey) != 24 {
			s.Fail(cases.GoFail{Key: k, What: "NewKeyEnvelope with a label and a valid KEK does not return a 24-byte wrapped key", Replay: rp})
			continue
		}
		back, err := env.Unwrap(kek)
		if err != nil || back != key {
			s.Fail(cases.GoFail{Key: k, What: "key does not unwrap to itself with the same KEK", Replay: rp})
		}
		// independent RFC 3394 implementation of the integrity rule: unwrap must succeed iff the library's raw IV matches; here: corrupted data and wrong KEK must fail
		c := append(backend.HEXBytes{}, env.AESKey...)
		c[r.Intn(24)] ^= 1 << uint(r.Intn(8))
		if _, err := (backend.KeyEnvelope{AESKey: c}).Unwrap(kek); err == nil {
			s.Fail(cases.GoFail{Key: k + ":corrupted", What: "corrupted wrapped key unwraps without error", Replay: rp})
		}
		other := r.Bytes(kl)
		if _, err := env.Unwrap(other); err == nil {
			s.Fail(cases.GoFail{Key: k + ":wrongkek", What: "wrapped key unwraps with a different KEK", Replay: rp})
		}
		// the envelope agrees with the library called directly
		block, _ := aes.NewCipher(kek)
		if d, err := keywrap.Wrap(block, key[:]); err != nil || !bytes.Equal(d, env.AESKey) {
			s.Fail(cases.GoFail{Key: k + ":lib", What: "envelope differs from keywrap.Wrap", Replay: rp})
		}
		// JSON round trip of the envelope itself
		b, _ := json.Marshal(env)
		var e2 backend.KeyEnvelope
		if err := json.Unmarshal(b, &e2); err != nil || e2.KEKLabel != env.KEKLabel || !bytes.Equal(e2.AESKey, env.AESKey) {
			s.Fail(cases.GoFail{Key: k + ":json", What: "KeyEnvelope does not survive JSON", Replay: rp})
		}
		clear, _ := backend.NewKeyEnvelope("", kek, key)
		if clear.KEKLabel != "" || !bytes.Equal(clear.AESKey, key[:]) {
			s.Fail(cases.GoFail{Key: k + ":clear", What: "without a KEK label the key is not carried in clear", Replay: rp})
		}
	}
	s.Extra["envelope_go_side_round_trips_aes128_192_256"] = m
}

// ---- ISO8601Time (Go-side volume; the cases evaluated in Coq are in iso.go) and the payload structs (Go side only) ----

func randTime(r *cq.RNG) time.Time {
	// years 1..9999, whole seconds plus sometimes a fraction (dropped by RFC 3339 without fraction), zone offsets in whole minutes
	sec := int64(r.U64()%(253402300799+62135596800)) - 62135596800
	ns := int64(0)
	if r.Intn(3) == 0 {
		ns = int64(r.U64() % 1000000000)
	}
	t := time.Unix(sec, ns).UTC()
	switch r.Intn(4) {
	case 0:
		t = t.In(time.FixedZone("", (r.Intn(26*60)-12*60)*60))
	case 1:
		t = t.In(time.FixedZone("X", []int{3600, -3600, 19800, 20700, 45900, -34200}[r.Intn(6)]))
	}
	if t.Year() < 1 || t.Year() > 9999 {
		t = t.UTC()
	}
	return t
}

func isoCases(s *cases.Set, r *cq.RNG, thorough bool) {
	n := 400
	if thorough {
		n = 20000
	}
	for i := 0; i < n; i++ {
		t := randTime(r)
		switch i {
		case 0:
			t = time.Time{}
		case 1:
			t = time.Date(9999, 12, 31, 23, 59, 59, 999999999, time.UTC)
		case 2:
			t = time.Date(2016, 12, 31, 23, 59, 59, 0, time.UTC)
		}
		txt, err := backend.ISO8601Time(t).MarshalText()
		var back backend.ISO8601Time
		if err == nil {
			err = back.UnmarshalText(txt)
		}
		if err != nil || time.Time(back).Unix() != t.Unix() {
			s.Fail(cases.GoFail{Key: "iso8601:" + t.Format(time.RFC3339Nano), What: fmt.Sprintf("ISO8601Time does not survive its text form to one second (%s -> %s)", txt, time.Time(back).Format(time.RFC3339Nano)),
				Replay: map[string]interface{}{"api": "backend.ISO8601Time.MarshalText/UnmarshalText", "time": t.Format(time.RFC3339Nano), "text": string(txt)}})
		}
	}
	for _, off := range []int{86400, -86400, 86460, -86460, 89940, -89940, 24*3600 + 30*60} { // Go reads zone hours up to 24: these survive
		t := time.Date(2020, 6, 15, 12, 0, 0, 0, time.FixedZone("", off))
		txt, err := backend.ISO8601Time(t).MarshalText()
		var back backend.ISO8601Time
		if err == nil {
			err = back.UnmarshalText(txt)
		}
		if err != nil || time.Time(back).Unix() != t.Unix() {
			s.Fail(cases.GoFail{Key: fmt.Sprintf("iso8601:zone-offset-24h:%s", txt), What: fmt.Sprintf("ISO8601Time with a zone offset of %d s does not survive its text form (%s)", off, txt),
				Replay: map[string]interface{}{"api": "backend.ISO8601Time.MarshalText/UnmarshalText", "zone_offset_s": off, "text": string(txt)}})
		}
	}
	s.Extra["iso8601_go_side_round_trips"] = n
	// witnesses of finding C17-2 (RFC 3339 cannot carry these; the random stream above stays inside whole-minute zones and years 1..9999)
	for _, w := range []struct {
		key string
		t   time.Time
	}{
		{"iso8601:subminute-zone-offset:1900-01-01T12:00:00+00:19:32", time.Date(1900, 1, 1, 12, 0, 0, 0, time.FixedZone("AMT", 1172))},
		{"iso8601:year-outside-0-9999:12000-01-01T12:00:00Z", time.Date(12000, 1, 1, 12, 0, 0, 0, time.UTC)},
		// whole-minute zones of 25 h and more are printed but not read back (Go's parser takes zone hours up to 24)
		{"iso8601:zone-offset-25h-or-more:2020-06-15T12:00:00+25:00", time.Date(2020, 6, 15, 12, 0, 0, 0, time.FixedZone("", 25*3600))},
		{"iso8601:zone-offset-25h-or-more:2020-06-15T12:00:00-25:00", time.Date(2020, 6, 15, 12, 0, 0, 0, time.FixedZone("", -25*3600))},
		{"iso8601:zone-offset-25h-or-more:2020-06-15T12:00:00+99:59", time.Date(2020, 6, 15, 12, 0, 0, 0, time.FixedZone("", 99*3600+59*60))},
		{"iso8601:zone-offset-25h-or-more:2020-06-15T12:00:00+100:00", time.Date(2020, 6, 15, 12, 0, 0, 0, time.FixedZone("", 100*3600))},
	} {
		txt, err := backend.ISO8601Time(w.t).MarshalText()
		var back backend.ISO8601Time
		if err == nil {
			err = back.UnmarshalText(txt)
		}
		if err != nil || time.Time(back).Unix() != w.t.Unix() {
			what := fmt.Sprintf("ISO8601Time does not survive its text form (%s): ", txt)
			if err != nil {
				what += err.Error()
			} else {
				what += fmt.Sprintf("instant moves by %d s", time.Time(back).Unix()-w.t.Unix())
			}
			s.Fail(cases.GoFail{Key: w.key, What: what, Replay: map[string]interface{}{"api": "backend.ISO8601Time.MarshalText/UnmarshalText", "time": w.t.Format(time.RFC3339Nano), "zone_offset_s": func() int { _, o := w.t.Zone(); return o }(), "text": string(txt)}})
		}
	}
}

// filler sets random values; full = every pointer set and every slice non-empty (so that every field is reachable).
type filler struct {
	r     *cq.RNG
	full  bool
	small bool // no length ladder (the cases whose values are written out as Gallina terms)
}

var (
	tHex  = reflect.TypeOf(backend.HEXBytes{})
	tISO  = reflect.TypeOf(backend.ISO8601Time{})
	tFreq = reflect.TypeOf(backend.Frequency(0))
	tPct  = reflect.TypeOf(backend.Percentage(0))
	tRaw  = reflect.TypeOf(json.RawMessage{})
	tDLS  = reflect.TypeOf(lorawan.DLSettings{})
)

func (f filler) str() string {
	al := []string{"a", "B", "7", " ", "-", ".", "\"", "\\", "/", "<", "&", "é", "λ", "1.0.2", "EU868", "\n", "日"}
	n := f.r.Intn(9)
	s := ""
	for i := 0; i < n; i++ {
		s += al[f.r.Intn(len(al))]
	}
	return s
}

func (f filler) fill(v reflect.Value) {
	t := v.Type()
	switch {
	case t == tHex:
		switch {
		case !f.small && f.r.Intn(8) == 0:
			v.SetBytes(f.r.Bytes(ladder[f.r.Intn(len(ladder)-1)])) // up to 1024 bytes
		case f.full || f.r.Intn(3) != 0:
			v.SetBytes(f.r.Bytes(1 + f.r.Intn(12)))
		}
		return
	case t == tISO:
		v.Set(reflect.ValueOf(backend.ISO8601Time(randTime(f.r))))
		return
	case t == tFreq:
		v.SetInt(int64(f.r.U32()))
		return
	case t == tPct:
		v.SetInt(int64(f.r.Intn(101)))
		return
	case t == tRaw:
		if f.full || f.r.Intn(2) == 0 {
			v.SetBytes([]byte([]string{`{"a":1}`, `[1,2,{"b":null}]`, `"x"`, `12.5`, `true`}[f.r.Intn(5)]))
		}
		return
	case t == tDLS:
		v.Set(reflect.ValueOf(lorawan.DLSettings{OptNeg: f.r.Bool(), RX2DataRate: uint8(f.r.Intn(16)), RX1DROffset: uint8(f.r.Intn(8))}))
		return
	}
	switch t.Kind() {
	case reflect.String:
		v.SetString(f.str())
	case reflect.Bool:
		v.SetBool(f.r.Bool())
	case reflect.Int, reflect.Int64, reflect.Int32:
		v.SetInt(int64(int32(f.r.U32())) >> uint(f.r.Intn(32)))
	case reflect.Uint8:
		v.SetUint(uint64(f.r.Byte()))
	case reflect.Uint32, reflect.Uint, reflect.Uint64, reflect.Uint16:
		v.SetUint(uint64(f.r.U32()) >> uint(f.r.Intn(32)))
		if t.Kind() == reflect.Uint16 {
			v.SetUint(v.Uint() & 0xffff)
		}
	case reflect.Float64:
		x := math.Float64frombits(f.r.U64())
		if math.IsNaN(x) || math.IsInf(x, 0) || f.r.Intn(2) == 0 {
			x = float64(int64(f.r.U64()%200000000)-100000000) / 1e5
		}
		v.SetFloat(x)
	case reflect.Ptr:
		if f.full || f.r.Intn(5) < 3 {
			p := reflect.New(t.Elem())
			f.fill(p.Elem())
			v.Set(p)
		}
	case reflect.Slice:
		if f.full || f.r.Intn(3) != 0 {
			n := 1 + f.r.Intn(3)
			sl := reflect.MakeSlice(t, n, n)
			for i := 0; i < n; i++ {
				f.fill(sl.Index(i))
			}
			v.Set(sl)
		}
	case reflect.Array:
		for i := 0; i < v.Len(); i++ {
			f.fill(v.Index(i))
		}
	case reflect.Struct:
		for i := 0; i < v.NumField(); i++ {
			if v.Field(i).CanSet() {
				f.fill(v.Field(i))
			}
		}
	}
}

// same: structural equality where nil and empty slices agree and timestamps are compared to one second.
func same(a, b reflect.Value) bool {
	t := a.Type()
	if t == tISO {
		return time.Time(a.Interface().(backend.ISO8601Time)).Unix() == time.Time(b.Interface().(backend.ISO8601Time)).Unix()
	}
	switch t.Kind() {
	case reflect.Ptr:
		if a.IsNil() || b.IsNil() {
			return a.IsNil() == b.IsNil()
		}
		return same(a.Elem(), b.Elem())
	case reflect.Slice:
		if a.Len() != b.Len() {
			return false
		}
		for i := 0; i < a.Len(); i++ {
			if !same(a.Index(i), b.Index(i)) {
				return false
			}
		}
		return true
	case reflect.Array:
		for i := 0; i < a.Len(); i++ {
			if !same(a.Index(i), b.Index(i)) {
				return false
			}
		}
		return true
	case reflect.Struct:
		for i := 0; i < a.NumField(); i++ {
			if !same(a.Field(i), b.Field(i)) {
				return false
			}
		}
		return true
	case reflect.Float64:
		return a.Float() == b.Float()
	}
	return reflect.DeepEqual(a.Interface(), b.Interface())
}

// jsonRT: Marshal -> Unmarshal -> Marshal; "" when the value survives.
func jsonRT(v reflect.Value) (msg string, js, js2 []byte) {
	b, err := json.Marshal(v.Interface())
	back := reflect.New(v.Type().Elem())
	if err == nil {
		err = json.Unmarshal(b, back.Interface())
	}
	var b2 []byte
	if err == nil {
		b2, err = json.Marshal(back.Interface())
	}
	switch {
	case err != nil:
		return "error: " + err.Error(), b, b2
	case !same(v.Elem(), back.Elem()):
		return "value differs after json.Marshal/Unmarshal", b, b2
	case !bytes.Equal(b, b2):
		return "JSON differs when marshalled again", b, b2
	}
	return "", b, b2
}

type varField struct {
	path string
	v    reflect.Value
}

// varFields collects every settable variable-length field (HEXBytes, strings, slices) below v.
func varFields(v reflect.Value, path string, out *[]varField) {
	t := v.Type()
	if t == tISO || t == tRaw || t == tDLS {
		return
	}
	if t == tHex || t.Kind() == reflect.String {
		if v.CanSet() {
			*out = append(*out, varField{path, v})
		}
		return
	}
	switch t.Kind() {
	case reflect.Ptr:
		if !v.IsNil() {
			varFields(v.Elem(), path, out)
		}
	case reflect.Struct:
		for i := 0; i < v.NumField(); i++ {
			varFields(v.Field(i), path+"."+t.Field(i).Name, out)
		}
	case reflect.Slice: // []GWInfoElement, []Frequency, ...
		if v.CanSet() {
			*out = append(*out, varField{path + "[]", v})
		}
		if v.Len() > 0 && t.Elem().Kind() == reflect.Struct {
			varFields(v.Index(0), path+"[0]", out)
		}
	}
}

// fieldLadder: every variable-length field of every payload type at lengths around powers of two.
func fieldLadder(s *cases.Set, r *cq.RNG, protos []interface{}, thorough bool) int {
	lens := []int{17, 256, 257, 4096}
	if thorough {
		lens = append(append([]int{}, ladder...), 2047, 2048, 2049, 4097, 65537)
	}
	total := 0
	f := filler{r: r, full: true}
	for _, p := range protos {
		t := reflect.TypeOf(p)
		v := reflect.New(t)
		f.fill(v.Elem())
		var fields []varField
		varFields(v.Elem(), t.Name(), &fields)
		for _, fl := range fields {
			saved := reflect.New(fl.v.Type()).Elem()
			saved.Set(fl.v)
			for _, l := range lens {
				switch {
				case fl.v.Type() == tHex:
					fl.v.SetBytes(r.Bytes(l))
				case fl.v.Kind() == reflect.String:
					b := make([]byte, l)
					for i := range b {
						b[i] = "abcXYZ019 -_/\"<"[r.Intn(15)]
					}
					fl.v.SetString(string(b))
				default: // slice
					if l > 300 {
						continue
					}
					sl := reflect.MakeSlice(fl.v.Type(), l, l)
					for i := 0; i < l; i++ {
						filler{r: r}.fill(sl.Index(i))
					}
					fl.v.Set(sl)
				}
				total++
				if msg, js, _ := jsonRT(v); msg != "" {
					tail := string(js)
					if len(tail) > 300 {
						tail = tail[:150] + " ... " + tail[len(tail)-150:]
					}
					s.Fail(cases.GoFail{Key: fmt.Sprintf("struct:%s:len=%d", fl.path, l), What: fmt.Sprintf("%s with %s of length %d does not survive encoding/json: %s", t.Name(), fl.path, l, msg),
						Replay: map[string]interface{}{"api": "json.Marshal/json.Unmarshal of backend." + t.Name(), "field": fl.path, "length": l, "json_excerpt": tail}})
					break
				}
			}
			fl.v.Set(saved)
		}
	}
	return total
}

// rawValueCases: a RawMessage that is not compact, or holds < > &, comes back as other bytes (json.Marshal compacts and
// HTML-escapes it) but as the same JSON value (audit finding 4: considered, the statement is about the value).
func rawValueCases(s *cases.Set) {
	for _, raw := range []string{`{"a": 1}`, `"<x&y>"`, `[1, 2]`, ` {"k" : [ true , null , "\u003c" ] } `, "\"\u2028\"", `{"a":1,"a":2}`} {
		v := backend.VSExtension{VendorID: backend.HEXBytes{1}, Object: json.RawMessage(raw)}
		b, err := json.Marshal(v)
		var back backend.VSExtension
		if err == nil {
			err = json.Unmarshal(b, &back)
		}
		var x, y interface{}
		d1 := json.NewDecoder(bytes.NewReader([]byte(raw)))
		d1.UseNumber()
		d2 := json.NewDecoder(bytes.NewReader(back.Object))
		d2.UseNumber()
		e1, e2 := d1.Decode(&x), d2.Decode(&y)
		if err != nil || e1 != nil || e2 != nil || !reflect.DeepEqual(x, y) {
			s.Fail(cases.GoFail{Key: fmt.Sprintf("raw:value:%q", raw), What: fmt.Sprintf("VSExtension.Object %q comes back as %q: another JSON value", raw, string(back.Object)),
				Replay: map[string]interface{}{"api": "json.Marshal / json.Unmarshal of backend.VSExtension", "object": raw, "json": string(b), "back": string(back.Object)}})
		}
	}
}

func structCases(s *cases.Set, r *cq.RNG, thorough bool) {
	rawValueCases(s)
	protos := []interface{}{
		backend.JoinReqPayload{}, backend.JoinAnsPayload{}, backend.RejoinReqPayload{}, backend.RejoinAnsPayload{},
		backend.AppSKeyReqPayload{}, backend.AppSKeyAnsPayload{}, backend.PRStartReqPayload{}, backend.PRStartAnsPayload{},
		backend.PRStopReqPayload{}, backend.PRStopAnsPayload{}, backend.HRStartReqPayload{}, backend.HRStartAnsPayload{},
		backend.HRStopReqPayload{}, backend.HRStopAnsPayload{}, backend.HomeNSReqPayload{}, backend.HomeNSAnsPayload{},
		backend.ProfileReqPayload{}, backend.ProfileAnsPayload{}, backend.XmitDataReqPayload{}, backend.XmitDataAnsPayload{},
	}
	n := 40
	if thorough {
		n = 1500
	}
	f := filler{r: r}
	total := 0
	for _, p := range protos {
		t := reflect.TypeOf(p)
		fails := 0
		for i := 0; i < n; i++ {
			v := reflect.New(t)
			if i > 0 { // i == 0: the zero value
				f.fill(v.Elem())
			}
			total++
			b, err := json.Marshal(v.Interface())
			back := reflect.New(t)
			if err == nil {
				err = json.Unmarshal(b, back.Interface())
			}
			var b2 []byte
			if err == nil {
				b2, err = json.Marshal(back.Interface())
			}
			if (err != nil || !same(v.Elem(), back.Elem()) || !bytes.Equal(b, b2)) && fails < 3 {
				fails++
				msg := "value differs after json.Marshal/Unmarshal"
				if err != nil {
					msg = "error: " + err.Error()
				}
				js := string(b)
				if len(js) > 1500 {
					js = js[:1500]
				}
				s.Fail(cases.GoFail{Key: fmt.Sprintf("struct:%s:seedcase=%d", t.Name(), i), What: t.Name() + " does not survive encoding/json: " + msg,
					Replay: map[string]interface{}{"api": "json.Marshal/json.Unmarshal of backend." + t.Name(), "json": js, "json_after": string(b2)}})
			}
		}
	}
	s.Extra["struct_field_length_ladder_round_trips"] = fieldLadder(s, r, protos, thorough)
	s.Exhaustive("payload structs: every HEXBytes / string / struct-slice field of the 20 payload types (all pointers set) at lengths 17, 256, 257, 4096 (thorough: the whole ladder and 65537) through encoding/json, Go side")
	s.Extra["struct_go_side_round_trips"] = total
	s.Extra["struct_types"] = len(protos)
}

func main() {
	dir, seed, thorough := cases.Args()
	r := cq.NewRNG(seed)
	s := cases.New("C17", dir, "LW.Corr.C17",
		"Percentage -5..300 exhaustively and Frequency boundary / 0.1 MHz-step / random values through json.Marshal and Unmarshal with the printed float given exactly (m*2^e); arbitrary JSON numbers into UnmarshalJSON; HEXBytes values on a length ladder (0..4096 bytes around powers of two in Coq, up to 64 KiB on the Go side) and malformed texts; key envelopes under KEKs of 16, 24 and 32 bytes (AES-128/192/256; RFC 3394 4.1-4.3 vectors first) and of every refused length: with and without label, one KEK / key bit changed, corrupted, wrong KEK of the same and of another size, AESKey of every length 0..48 (random, beginning with the IV, genuine wrappings of 8..40 bytes, cut short, extended, decoded from JSON with the key absent); ISO8601Time: boundary instants x zone offsets, every month end, random instants of the years 0..9999 with whole-minute zones, instants outside RFC 3339 (format only), and texts into UnmarshalText (hand-written malformed list, fractions, day-of-month and field limits, zone limits, one-character mutations, random), all evaluated in Coq against format_rfc3339 / parse_rfc3339. generic JSON: json.Marshal of every byte as a string, string pieces and random trees (valid and invalid UTF-8), json.Valid / Decoder trees of documents with white space and escapes put in, hand-written malformed texts, prefixes, one-byte mutations, token soup and the nesting limit, against json_print / json_parse; payload structs: values of the 20 payload types and 10 nested objects (zero value, every optional field set, random optional-field combinations, edge values) printed by reflection without looking at the tags, json.Marshal by value and by pointer and json.Unmarshal compared with to_json / of_json over the type tables, plus decoding of documents with unknown, reversed, dropped, null and wrong-kind members. transport (Go side): the synchronous backend client against a test server on loopback, every request method and SendAnswer x every ResultCode x populated fields, answer sizes up to 64 KB written in one piece / flushed / gzip-encoded, status codes, TLS, error paths. enumerated strings (Go side): the string constants of backend.go read with go/ast, the specification's spellings and every near-miss spelling (one character deleted / inserted / substituted / transposed / doubled, case and suffix variants) as bare values and in every string field of every payload type; ResultCode spellings also as Coq struct cases. Go side (additional volume): the 20 payload structs with random optional fields and with every variable-length field (HEXBytes, strings, slices) at lengths 17/256/257/4096, envelopes, timestamps. Every case is non-trivial; distinct = distinct printed case")
	s.Watchdog(20 * time.Second) // calls into the client (transport section) run under cases.Begin / cases.End
	floatCases(s, r.Fork(), thorough)
	hexCases(s, r.Fork(), thorough)
	envCases(s, r.Fork(), thorough)
	isoCases(s, r.Fork(), thorough)
	structCases(s, r.Fork(), thorough)
	isoCoqCases(s, r.Fork(), thorough)
	jsonCases(s, r.Fork(), thorough)
	structCoqCases(s, r.Fork(), thorough)
	transportCases(s, r.Fork(), thorough)
	enumCases(s, r.Fork(), thorough)
	enumCoqCases(s, r.Fork())
	if err := s.Finish(); err != nil {
		fmt.Fprintln(os.Stderr, err)
		os.Exit(2)
	}
}
