// Post-history cases for C12: after a history of AddChannel / DisableUplinkChannelIndex /
// EnableUplinkChannelIndex calls the RX1 channel obtained from the channel index and the RX1
// frequency obtained from the uplink frequency must still denote the same existing downlink
// channel, for every uplink channel of the band object (default and added, enabled or not).
// The FIRST RX1 lookup on each object is made after the first part of the history (nothing may
// have been cached from the fresh state), then the history continues on the same object and
// every channel is looked up again.
package main

import (
	"fmt"

	"verifharness/bandcfg"
	"verifharness/internal/cases"
	"verifharness/internal/cq"
)

// rx1Rows adds one case per uplink channel of b, which is the object of configuration c after ops.
func rx1Rows(s *cases.Set, c bandcfg.Config, b bandLike, ops []bandcfg.ChanOp, errs []bool, label, kind string) {
	rx1RowsT(s, c, b, bandcfg.ChanOps(ops), bandcfg.Bools(errs), bandcfg.ChanOpsReplay(ops), label, kind)
}

// rowFilter, when set, selects the uplink channel indices that get a row (very long histories).
var rowFilter func(ch int) bool

// rx1RowsT: the history is given as printed Gallina terms (compact forms for long histories) and
// as replay description.
func rx1RowsT(s *cases.Set, c bandcfg.Config, b bandLike, opsTerm, errsTerm string, history interface{}, label, kind string) {
	idxs := b.GetUplinkChannelIndices()
	n := len(idxs)
	for _, ch := range idxs {
		ch := ch
		if rowFilter != nil && !rowFilter(ch) {
			continue
		}
		key := fmt.Sprintf("rx1hist:%s:ops=%s:ch=%d", c.Key(), label, ch)
		u, err := b.GetUplinkChannel(ch)
		if err != nil {
			s.Fail(cases.GoFail{Key: key, What: "GetUplinkChannelIndices lists an index that GetUplinkChannel rejects: " + err.Error(),
				Replay: map[string]interface{}{"name": string(c.Name), "history": history, "channel": ch}})
			continue
		}
		var j int
		haveJ := false
		oIdx := oz(func() (int64, error) {
			v, err := b.GetRX1ChannelIndexForUplinkChannelIndex(ch)
			if err == nil {
				j, haveJ = v, true
			}
			return int64(v), err
		})
		oDown := cq.Err
		if haveJ {
			oDown = oz(func() (int64, error) { d, err := b.GetDownlinkChannel(j); return int64(d.Frequency), err })
		}
		oFreq := oz(func() (int64, error) {
			v, err := b.GetRX1FrequencyForUplinkFrequency(u.Frequency)
			return int64(v), err
		})
		s.Add(cases.Case{
			Term: fmt.Sprintf("CRx1ChHist %d %s %s %d%%Z %s %d%%Z %s %s %s", c.Index, opsTerm, errsTerm, n, cq.Z(int64(ch)), u.Frequency, oIdx, oDown, oFreq),
			Key:  key, Kind: kind, Nontrivial: true,
			Replay: map[string]interface{}{"api": "b := GetConfig(name, repeater, dwell); history on b (no RX1 lookup on b before the history; lookups for all channels after each part); then for uplink channel ch: GetRX1ChannelIndexForUplinkChannelIndex(ch) -> j, GetDownlinkChannel(j).Frequency, GetRX1FrequencyForUplinkFrequency(GetUplinkChannel(ch).Frequency)",
				"name": string(c.Name), "repeater": c.Repeater, "dwell400ms": c.Dwell, "history": history, "channel": ch,
				"uplink_frequency": u.Frequency, "observed_rx1_index": oIdx, "observed_downlink_frequency_at_rx1_index": oDown, "observed_rx1_frequency": oFreq}})
	}
}

// rx1History: fresh object, part 1 of the history, all rows; part 2 on the same object, all rows again.
// name: short label for long fixed histories (the replay carries the calls), "" = print the calls.
func rx1History(s *cases.Set, c bandcfg.Config, name string, part1, part2 []bandcfg.ChanOp, kind string) {
	rx1HistoryMode(s, c, name, part1, part2, kind, false)
}

// getters = true: every other getter of the Band interface (GetCFList for all versions, the index
// lists, LinkADR helpers, look-ups by frequency ...) is called after every call of the history;
// getters must not change the object (the case - and the model - are those of the plain history).
func rx1HistoryMode(s *cases.Set, c bandcfg.Config, name string, part1, part2 []bandcfg.ChanOp, kind string, getters bool) {
	b, err := c.New()
	if err != nil {
		return
	}
	apply := bandcfg.ApplyChanOps
	if getters {
		apply = bandcfg.ApplyChanOpsTouching
		bandcfg.TouchGetters(b)
	}
	label := name
	if label == "" {
		label = bandcfg.ChanOpsKey(part1)
	}
	if getters {
		label = "getters-between;" + label
	}
	errs := apply(b, part1)
	rx1Rows(s, c, b, part1, errs, label, kind)
	if len(part2) == 0 {
		return
	}
	all := append(append([]bandcfg.ChanOp{}, part1...), part2...)
	errs = append(errs, apply(b, part2)...)
	if name == "" {
		label += ";then:" + bandcfg.ChanOpsKey(part2)
	} else {
		label += ";then:" + name + "-part2"
	}
	rx1Rows(s, c, b, all, errs, label, kind)
}

func rx1Histories(s *cases.Set, r *cq.RNG, thorough bool, cfgs []bandcfg.Config) {
	A, D, E := bandcfg.AddOp, bandcfg.DisableOp, bandcfg.EnableOp
	// corpus of past failures (seeded defects):
	for _, c := range cfgs {
		switch {
		case c.Name == "EU868":
			// AddChannel skipped the downlink entry for a frequency that already existed:
			// 868.3 MHz a second time for DR6 (250 kHz), then 867.1 MHz
			rx1History(s, c, "", []bandcfg.ChanOp{A(868300000, 6, 6), A(867100000, 0, 5)}, nil, "rx1-channel-after-history-corpus")
		case c.Name == "US915" && (!c.Repeater && !c.Dwell || thorough):
			// RX1 frequencies memoised on the first lookup from the POSITION in the enabled list:
			// sub-band 2 (all off, 8..15 and 65 on) selected before the first lookup, later 66 on, 8 off
			var p1 []bandcfg.ChanOp
			for i := 0; i < 72; i++ {
				p1 = append(p1, D(i))
			}
			for i := 8; i < 16; i++ {
				p1 = append(p1, E(i))
			}
			p1 = append(p1, E(65))
			rx1History(s, c, "subband2", p1, []bandcfg.ChanOp{E(66), D(8), E(0)}, "rx1-channel-after-history-corpus")
		}
	}
	for _, c := range cfgs {
		b, err := c.New()
		if err != nil {
			continue
		}
		base := bandcfg.UplinkFrequencies(b)
		runs := bandcfg.UplinkRuns(b)
		nch := len(base)
		if nch == 0 || len(runs) == 0 {
			continue
		}
		top := runs[len(runs)-1][1]
		lo0, hi0 := runs[0][0], runs[0][1]
		fresh := func(k int) uint32 { return base[0] + uint32(k)*200000 }
		extra := b.AddChannel(fresh(50), lo0, hi0) == nil
		big := nch > 16
		main := !c.Repeater && !c.Dwell

		// first channel off before the first lookup (every later channel moves one position up in
		// the enabled list); then on again and the last one off
		rx1History(s, c, "", []bandcfg.ChanOp{D(0)}, []bandcfg.ChanOp{E(0), D(nch - 1)}, "rx1-channel-after-history")
		if !big || main {
			rx1HistoryMode(s, c, "", []bandcfg.ChanOp{D(1)}, []bandcfg.ChanOp{E(1), D(0)}, "rx1-channel-after-history-with-getters", true)
		}
		if extra {
			dup := base[nch/2]
			// a default frequency a second time with another DR range, then a new frequency; then the
			// default channel of that frequency off
			rx1History(s, c, "", []bandcfg.ChanOp{A(dup, top, top), A(fresh(5), lo0, hi0)}, []bandcfg.ChanOp{D(nch / 2), A(fresh(6), lo0, hi0)}, "rx1-channel-after-history")
			// a new frequency twice (different DR ranges), another new one, a default one again
			rx1History(s, c, "", []bandcfg.ChanOp{A(fresh(7), lo0, hi0), A(fresh(7), top, top), A(fresh(9), lo0, lo0), A(base[0], hi0, hi0)}, nil, "rx1-channel-after-history")
			// custom channels in NON-ascending frequency order, every other getter (GetCFList ...) called
			// after each call; then one more below all of them
			cfmin, cfmax := lo0, hi0
			if ch, err := b.GetUplinkChannel(0); err == nil {
				cfmin, cfmax = ch.MinDR, ch.MaxDR
			}
			desc := []bandcfg.ChanOp{A(fresh(9), cfmin, cfmax), A(fresh(7), cfmin, cfmax), A(fresh(8), cfmin, cfmax), A(fresh(6), lo0, lo0)}
			rx1HistoryMode(s, c, "", desc, []bandcfg.ChanOp{A(fresh(5), cfmin, cfmax), D(nch)}, "rx1-channel-after-history-with-getters", true)
			rx1HistoryMode(s, c, "", []bandcfg.ChanOp{A(dup, top, top), A(fresh(5), lo0, hi0)}, []bandcfg.ChanOp{D(nch / 2), A(fresh(4), lo0, hi0)}, "rx1-channel-after-history-with-getters", true)
			// custom channels very close to existing ones (a frequency is a number, not an opaque key):
			// 1, 2, 5, 9, 10, 11 raster steps (100 Hz; 200 Hz from 2.4 GHz on - what AddChannel accepts)
			// above / below default and custom channels, and +-1 Hz / +-999 Hz (refused since a79c4b5)
			st := uint32(100)
			if base[0] >= 2400000000 {
				st = 200
			}
			last := base[nch-1]
			rx1History(s, c, "", []bandcfg.ChanOp{A(base[0]+st, lo0, hi0), A(base[0]-st, lo0, hi0), A(base[0]+5*st, lo0, hi0), A(base[0]+1, lo0, hi0)},
				[]bandcfg.ChanOp{A(base[0]-2*st, lo0, hi0), A(base[0]+2*st, lo0, hi0), A(base[0]-5*st, lo0, hi0), A(base[0]-999, lo0, hi0)}, "rx1-channel-close-frequencies")
			rx1History(s, c, "", []bandcfg.ChanOp{A(last+9*st, lo0, hi0), A(last-10*st, lo0, hi0), A(last+11*st, lo0, hi0)},
				[]bandcfg.ChanOp{A(last-9*st, lo0, hi0), A(last+10*st, lo0, hi0), A(last-11*st, lo0, hi0), A(last-1, lo0, hi0)}, "rx1-channel-close-frequencies")
			rx1History(s, c, "", []bandcfg.ChanOp{A(fresh(11), lo0, hi0), A(fresh(11)+5*st, lo0, hi0), A(fresh(11)-st, lo0, hi0), A(fresh(11)+9*st, top, top)},
				[]bandcfg.ChanOp{A(fresh(11)+14*st, lo0, hi0), A(fresh(11)-10*st, lo0, hi0), A(fresh(11)+999, lo0, hi0)}, "rx1-channel-close-frequencies")
		} else if main || thorough {
			// one refused AddChannel, nothing changes
			rx1History(s, c, "", []bandcfg.ChanOp{A(fresh(50), lo0, hi0)}, nil, "rx1-channel-after-refused-add")
		}
		if big && (main || thorough) {
			// the lower half off, then channel 3 on again
			var p1 []bandcfg.ChanOp
			for i := 0; i < nch/2; i++ {
				p1 = append(p1, D(i))
			}
			rx1History(s, c, "lower-half-off", p1, []bandcfg.ChanOp{E(3)}, "rx1-channel-after-history")
		}
		n := 2
		switch {
		case thorough && big:
			n = 8
		case thorough:
			n = 40
		case big && !main:
			n = 1
		}
		for k := 0; k < n; k++ {
			p1 := bandcfg.RandomChanOps(r, base, runs, extra, nch, 1+r.Intn(5))
			n1 := nch
			f1 := append([]uint32{}, base...)
			if extra {
				for _, o := range p1 {
					if o.Kind == 'A' {
						n1++
						f1 = append(f1, o.Freq)
					}
				}
			}
			p2 := bandcfg.RandomChanOps(r, f1, runs, extra, n1, 1+r.Intn(4))
			if k%2 == 1 || n == 1 && c.Index%2 == 1 {
				rx1HistoryMode(s, c, "", p1, p2, "rx1-channel-after-history-with-getters", true)
			} else {
				rx1History(s, c, "", p1, p2, "rx1-channel-after-history")
			}
		}
	}
}
