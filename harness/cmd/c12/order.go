// Construction-order independence for C12: what a band object answers may depend on its
// configuration only, not on which OTHER regions have been configured in the same process
// before or after it.  The regions are configured one after the other; every object's answers
// are recorded right after its construction and asked again - on the same object and on a newly
// built object of the same configuration - after every later GetConfig call, and once more after
// every region has been configured a second time.  A changed answer is a failing input
// "history:<call>".  The parent process runs the alphabetical order (before anything else has
// configured a band), a child process (--order-child) the reverse order, so that for any two
// regions each is once configured before the other.
package main

import (
	"bufio"
	"bytes"
	"encoding/binary"
	"encoding/json"
	"fmt"
	"os"
	"os/exec"
	"time"

	"github.com/brocaar/lorawan"
	"github.com/brocaar/lorawan/band"
	"verifharness/bandcfg"
	"verifharness/internal/cases"
)

// bandLike is band.Band (named here so that history.go does not import the band package)
type bandLike = band.Band

type sigItem struct{ call, val string }

// signature: every C12 observation of one object
func signature(b band.Band) []sigItem {
	var out []sigItem
	add := func(call, val string) { out = append(out, sigItem{call, val}) }
	add("Name()", b.Name())
	for dr := -1; dr <= 16; dr++ {
		for off := -1; off <= 8; off++ {
			add(fmt.Sprintf("GetRX1DataRateIndex(%d, %d)", dr, off), rx1dr(b, dr, off))
		}
	}
	for _, ch := range b.GetUplinkChannelIndices() {
		ch := ch
		var j int
		ok := false
		oIdx := oz(func() (int64, error) {
			v, err := b.GetRX1ChannelIndexForUplinkChannelIndex(ch)
			if err == nil {
				j, ok = v, true
			}
			return int64(v), err
		})
		add(fmt.Sprintf("GetRX1ChannelIndexForUplinkChannelIndex(%d)", ch), oIdx)
		if ok {
			add(fmt.Sprintf("GetDownlinkChannel(%d).Frequency", j), oz(func() (int64, error) { d, err := b.GetDownlinkChannel(j); return int64(d.Frequency), err }))
		}
		if u, err := b.GetUplinkChannel(ch); err == nil {
			add(fmt.Sprintf("GetRX1FrequencyForUplinkFrequency(%d)", u.Frequency), oz(func() (int64, error) {
				v, err := b.GetRX1FrequencyForUplinkFrequency(u.Frequency)
				return int64(v), err
			}))
		}
	}
	for _, da := range []uint32{0, 5, 0xfffffffb} {
		for _, bt := range []time.Duration{0, 129 * time.Second, 1443312000 * time.Second} {
			var d lorawan.DevAddr
			binary.BigEndian.PutUint32(d[:], da)
			add(fmt.Sprintf("GetPingSlotFrequency(%08x, %d ns)", da, int64(bt)), oz(func() (int64, error) { v, err := b.GetPingSlotFrequency(d, bt); return int64(v), err }))
		}
	}
	add("GetDefaults()", bandcfg.Defaults(b.GetDefaults()))
	return out
}

type orderObj struct {
	cfg   bandcfg.Config
	b     band.Band
	first []sigItem
}

// the report is capped: a shared table shows up in hundreds of answers
const maxOrderFails = 60
const maxOrderFailsPerConfig = 3

// orderRun configures the regions in the given order and reports changed answers.
func orderRun(order []band.Name, orderName string) []cases.GoFail {
	var fails []cases.GoFail
	seen := map[string]bool{}
	perCfg := map[int]int{}
	var objs []orderObj
	var done []string
	byName := map[band.Name][]bandcfg.Config{}
	for _, c := range bandcfg.All() {
		byName[c.Name] = append(byName[c.Name], c)
	}
	compare := func(o orderObj, b band.Band, which string) {
		now := signature(b)
		for k := range o.first {
			if k >= len(now) || now[k] != o.first[k] {
				got := "(missing)"
				if k < len(now) {
					got = now[k].call + " = " + now[k].val
				}
				key := fmt.Sprintf("history:%s:%s", o.cfg.Key(), o.first[k].call)
				if seen[key] || len(fails) >= maxOrderFails || perCfg[o.cfg.Index] >= maxOrderFailsPerConfig {
					continue
				}
				seen[key] = true
				perCfg[o.cfg.Index]++
				fails = append(fails, cases.GoFail{Key: key,
					What: fmt.Sprintf("%s = %s right after band.GetConfig(%s, ...), but %s on %s after the later band.GetConfig calls - the answer depends on which other regions were configured in the process",
						o.first[k].call, o.first[k].val, o.cfg.Name, got, which),
					Replay: map[string]interface{}{"api": "band.GetConfig(name, repeater, dwell) for the names of `configured_in_order`, four objects each (repeater x dwell); the call on the object of `name` right after its construction and again at the end",
						"order": orderName, "configured_in_order": append([]string{}, done...), "name": string(o.cfg.Name), "repeater": o.cfg.Repeater, "dwell400ms": o.cfg.Dwell,
						"call": o.first[k].call, "first": o.first[k].val, "later": got, "later_object": which}})
			}
		}
	}
	recheck := func() {
		for _, o := range objs {
			compare(o, o.b, "the same object")
			if nb, err := o.cfg.New(); err == nil {
				compare(o, nb, "a newly built object of the same configuration")
			}
		}
	}
	for _, name := range order {
		var fresh []orderObj
		for _, c := range byName[name] {
			b, err := c.New()
			if err != nil {
				continue
			}
			fresh = append(fresh, orderObj{c, b, signature(b)})
		}
		done = append(done, string(name))
		recheck() // the objects of the regions configured before this one
		objs = append(objs, fresh...)
	}
	// every region a second time, in the opposite order (also through the deprecated names)
	alias := map[band.Name]band.Name{}
	for a, n := range bandcfg.DeprecatedAliases {
		alias[n] = a
	}
	for i := len(order) - 1; i >= 0; i-- {
		for _, c := range byName[order[i]] {
			c.New()
			if a, ok := alias[c.Name]; ok {
				band.GetConfig(a, c.Repeater, c.DwellTime())
			}
		}
		done = append(done, string(order[i])+" (again)")
		recheck()
	}
	return fails
}

func reversed(names []band.Name) []band.Name {
	out := make([]band.Name, len(names))
	for i, n := range names {
		out[len(names)-1-i] = n
	}
	return out
}

// orderChildMain: `c12 --order-child` - reverse order, failures as JSON lines on stdout.
func orderChildMain() {
	w := bufio.NewWriter(os.Stdout)
	enc := json.NewEncoder(w)
	for _, f := range orderRun(reversed(bandcfg.Names), "reverse alphabetical") {
		enc.Encode(f)
	}
	w.Flush()
}

// orderIndependence must run before anything else in the process has configured a band.
func orderIndependence(s *cases.Set) {
	for _, f := range orderRun(bandcfg.Names, "alphabetical") {
		s.Fail(f)
	}
	cmd := exec.Command(os.Args[0], "--order-child")
	cmd.Stderr = os.Stderr
	out, err := cmd.Output()
	if err != nil {
		s.Fail(cases.GoFail{Key: "history:order-child", What: "the reverse-order run of the construction-order check did not finish: " + err.Error(),
			Replay: map[string]interface{}{"api": os.Args[0] + " --order-child"}})
		return
	}
	sc := bufio.NewScanner(bytes.NewReader(out))
	sc.Buffer(make([]byte, 1<<20), 1<<24)
	for sc.Scan() {
		var f cases.GoFail
		if json.Unmarshal(sc.Bytes(), &f) == nil && f.Key != "" {
			s.Fail(f)
		}
	}
}
