(* Correspondence cases for C16: one request through the real joinserver handler.
   bit 0: handle (model) on the printed configuration table and request <> observed answer
   bit 1: the property evaluated on the OBSERVED answer with the independent device / server oracle
          (LW.Backend.Device) fails. *)
From Coq Require Import List NArith ZArith Bool.
From LW Require Export Base.Outcome Base.Bytes Frame.Model Backend.JoinServer Backend.Device.
Import ListNotations.
Open Scope N_scope.

(* the tables behind the four configuration callbacks of the harness; a key that is not listed gives
   the default of NewHandler's contract: unknown device, no KEK, no AS label *)
Record table := mkTable {
  tb_devices : list (list N * lookup devkeys);
  tb_keks : list (list N * outcome (list N));
  tb_aslabels : list (list N * outcome (list N));
  tb_home : list (list N * lookup (list N))
}.

Fixpoint assoc {A} (k : list N) (l : list (list N * A)) (dflt : A) : A :=
  match l with
  | [] => dflt
  | (k', v) :: r => if bytes_eqb k k' then v else assoc k r dflt
  end.

Definition config_of (t : table) : config :=
  mkConfig (fun de => assoc de (tb_devices t) NotFound)
           (fun label => assoc label (tb_keks t) (Ok []))
           (fun de => assoc de (tb_aslabels t) (Ok []))
           (fun de => assoc de (tb_home t) NotFound).

(* the KEKs as the network / application server have them configured *)
Definition server_keks (t : table) (label : list N) : list N :=
  match assoc label (tb_keks t) (Ok []) with Ok k => k | _ => [] end.

(* what the harness intended with the request (it knows the device that "sent" the frame) *)
Inductive intent :=
(* conformant (re)join-request of known device [d]; reqtype 255 = join-request (correct MIC), 0/1/2 =
   rejoin-request; expected: Success, device accepts, fields echoed, keys shared *)
| IActivate (d : device) (reqtype devnonce : N) (joinnonce : N) (netid devaddr : list N)
            (dlsettings rxdelay : N) (cflist : option (list N))
| IWrongMIC            (* join-request of a known device, MIC wrong: MICFailed *)
| IUnknownDevEUI       (* device not in the table: UnknownDevEUI *)
| IMalformed           (* undecodable base payload / unknown MessageType: anything but Success *)
| IMember              (* base payload fine, a member of the typed payload undecodable: a mirrored answer
                          message of the right type that is not Success (audit finding 1) *)
| INone.               (* no expectation beyond mirroring and no panic *)

Inductive part := PAll | PNoKeys | PKeysOnly.

Inductive case := CReq (t : table) (b : body) (obs : answer) (i : intent) (p : part).

Definition mirror_ok (b : body) (obs : answer) : bool :=
  match obs, b with
  | AMsg _ _ sd rv tx _ _ _ _ _, Body r | AMsg _ _ sd rv tx _ _ _ _ _, BadMember r =>
    bytes_eqb sd (r_receiver r) && bytes_eqb rv (r_sender r) && (tx =? r_txid r)
  | AMsg _ _ _ _ _ _ _ _ _ _, BadJSON => false
  | ABare _ _, _ => true
  | APanic, _ => false
  end.

Definition is_success (obs : answer) : bool :=
  match obs with AMsg _ _ _ _ _ RSuccess _ _ _ _ => true | _ => false end.

Definition expected_mtype (b : body) (mt : ansmtype) : bool :=
  match b with
  | Body r | BadMember r =>
    if bytes_eqb (r_mtype r) s_JoinReq then ansmtype_eqb mt MJoinAns
    else if bytes_eqb (r_mtype r) s_RejoinReq then ansmtype_eqb mt MRejoinAns
    else ansmtype_eqb mt MHomeNSAns
  | BadJSON => false
  end.

(* the labels under which the servers share their KEK with the join server: the network server is
   identified by its NetID text (SenderID), the application server by the configured AS-KEK label *)
Definition ns_label (b : body) : list N := match b with Body r | BadMember r => r_sender r | BadJSON => [] end.
Definition as_label (t : table) (d : device) : list N :=
  match assoc (d_deveui d) (tb_aslabels t) (Ok []) with Ok l => l | _ => [] end.

Definition usable (t : table) (b : body) (obs : answer) (d : device) (reqtype devnonce joinnonce : N)
    (netid devaddr : list N) (dls rxdelay : N) (cfl : option (list N)) (p : part) : bool :=
  match obs with
  | AMsg 200 mt _ _ _ RSuccess phy None keys None =>
    match device_accept d reqtype devnonce phy with
    | Some s =>
      let e := expected_mtype b mt && echoes s joinnonce netid devaddr dls rxdelay cfl in
      let k := servers_share_keys (server_keks t) (ns_label b) (as_label t d) s (k_snwksint keys) (k_fnwksint keys) (k_nwksenc keys)
                                  (k_nwkskey keys) (k_appskey keys) in
      match p with PAll => e && k | PNoKeys => e | PKeysOnly => k end
    | None => match p with PKeysOnly => true | _ => false end
    end
  | _ => match p with PKeysOnly => true | _ => false end
  end.

Definition prop_ok (t : table) (b : body) (obs : answer) (i : intent) (p : part) : bool :=
  mirror_ok b obs &&
  match i with
  | IActivate d ty dn jn nid da dls rxd cfl => usable t b obs d ty dn jn nid da dls rxd cfl p
  | IWrongMIC => match obs with AMsg _ MJoinAns _ _ _ RMICFailed [] _ k _ => keyset_eqb k no_keys | _ => false end
  | IUnknownDevEUI => match obs with AMsg _ _ _ _ _ RUnknownDevEUI [] _ k _ => keyset_eqb k no_keys | _ => false end
  | IMalformed => negb (is_success obs)
  | IMember => match obs with AMsg _ mt _ _ _ _ _ _ _ _ => expected_mtype b mt && negb (is_success obs) | _ => false end
  | INone => match obs with ABare _ _ => false | _ => true end
  end.

Definition check (c : case) : N :=
  match c with
  | CReq t b obs i p =>
    code (match p with PKeysOnly => true | _ => answer_eqb (handle (config_of t) b) obs end)
         (prop_ok t b obs i p)
  end.

Definition run_cases := run_with check.
