(* TS004 (Fragmented Data Block Transport v1.0.0) forward error correction,
   transcribed from the specification's pseudo-code, independently of
   encode.go:

     function prbs23(x):  b0 = bit 0 of x;  b1 = bit 5 of x
                          x  = floor(x / 2) + ((b0 xor b1) << 22)
     function matrix_line(N, M):             (line N >= 1 of the parity matrix, M columns)
         line = zeros(1, M)
         m = 1 if M is a power of two else 0
         x = 1 + 1001 * N
         for nb_coeff = 0 .. floor(M/2) - 1
             r = 2^16
             while r >= M:  x = prbs23(x);  r = x mod (M + m)
             line[r] = 1
   Coded fragment i (1-based) of a block of M uncoded fragments:
     i <= M : uncoded fragment i;   i > M : XOR of the uncoded fragments j with
     matrix_line(i - M, M)[j] = 1.

   As I remember the document the modulus is M, plus one when M is a power
   of two (the PRBS period and a power-of-two modulus would otherwise be
   correlated); encode.go agrees.  The while loop has no a-priori bound in
   the specification either: here it runs on fuel ([None] when exhausted).

   Also: GF(2) matrices acting on fragments, and an executable Gaussian
   elimination producing a left inverse, for the recoverability statement.
   No proofs in this file. *)
From Coq Require Import List NArith ZArith Bool.
From LW Require Import Base.Outcome Base.Bytes.
Import ListNotations.
Open Scope N_scope.

Definition spec_prbs23 (x : N) : N :=
  N.shiftr x 1 + (if xorb (N.testbit x 0) (N.testbit x 5) then 2 ^ 22 else 0).

Definition spec_pow2 (m : N) : bool := negb (m =? 0) && (m =? 2 ^ N.log2 m).

(* one coefficient: the next PRBS state and the column drawn *)
Fixpoint spec_draw (fuel : nat) (x md M : N) : option (N * N) :=
  match fuel with
  | O => None
  | S f =>
    let x' := spec_prbs23 x in
    let r := x' mod md in
    if M <=? r then spec_draw f x' md M else Some (x', r)
  end.

(* the columns drawn for one line, in order *)
Fixpoint spec_columns (k : nat) (fuel : nat) (x md M : N) : option (list N) :=
  match k with
  | O => Some []
  | S k' =>
    match spec_draw fuel x md M with
    | None => None
    | Some (x', r) =>
      match spec_columns k' fuel x' md M with
      | None => None
      | Some rs => Some (r :: rs)
      end
    end
  end.

Definition spec_line_columns (fuel : nat) (n M : N) : option (list N) :=
  spec_columns (N.to_nat (M / 2)) fuel (1 + 1001 * n) (M + (if spec_pow2 M then 1 else 0)) M.

(* the line as a 0/1 vector of M entries *)
Definition spec_matrix_line (fuel : nat) (n M : N) : option (list bool) :=
  match spec_line_columns fuel n M with
  | None => None
  | Some rs => Some (map (fun j => existsb (N.eqb (N.of_nat j)) rs) (seq 0 (N.to_nat M)))
  end.

(* ---- GF(2) vectors and matrices acting on fragments --------------------- *)
Definition zeros (k : nat) : list N := repeat 0 k.

(* sum over GF(2) of the rows selected by [a] *)
Fixpoint comb (k : nat) (a : list bool) (rows : list (list N)) : list N :=
  match a, rows with
  | sel :: a', row :: rows' =>
    if sel then xor_bytes row (comb k a' rows') else comb k a' rows'
  | _, _ => zeros k
  end.

Definition mat_apply (k : nat) (A : list (list bool)) (rows : list (list N)) : list (list N) :=
  map (fun a => comb k a rows) A.

(* the same on 0/1 rows: vector-matrix and matrix-matrix product *)
Fixpoint xorb_list (a b : list bool) : list bool :=
  match a, b with
  | x :: a', y :: b' => xorb x y :: xorb_list a' b'
  | _, _ => []
  end.
Fixpoint vec_mat (n : nat) (a : list bool) (S : list (list bool)) : list bool :=
  match a, S with
  | sel :: a', row :: S' =>
    if sel then xorb_list row (vec_mat n a' S') else vec_mat n a' S'
  | _, _ => repeat false n
  end.
Definition mat_mul (n : nat) (T S : list (list bool)) : list (list bool) :=
  map (fun t => vec_mat n t S) T.

Definition unit_row (n i : nat) : list bool := map (Nat.eqb i) (seq 0 n).
Definition identity (n : nat) : list (list bool) := map (unit_row n) (seq 0 n).

(* the generator: identity on top, [red] parity lines below *)
Fixpoint spec_parity_lines (fuel : nat) (cnt : nat) (y : N) (M : N) : option (list (list bool)) :=
  match cnt with
  | O => Some []
  | S cnt' =>
    match spec_matrix_line fuel (y + 1) M, spec_parity_lines fuel cnt' (y + 1) M with
    | Some l, Some r => Some (l :: r)
    | _, _ => None
    end
  end.
Definition spec_generator (fuel : nat) (M red : nat) : option (list (list bool)) :=
  match spec_parity_lines fuel red 0 (N.of_nat M) with
  | Some ls => Some (identity M ++ ls)
  | None => None
  end.

(* fragment a block into rows of [k] bytes *)
Fixpoint chunks (cnt k : nat) (data : list N) : list (list N) :=
  match cnt with
  | O => []
  | S c => firstn k data :: chunks c k (skipn k data)
  end.

(* the coded fragments the specification defines *)
Definition spec_encode (fuel : nat) (data : list N) (k red : nat) : option (list (list N)) :=
  let M := (length data / k)%nat in
  match spec_generator fuel M red with
  | Some G => Some (mat_apply k G (chunks M k data))
  | None => None
  end.

Definition select {A} (idxs : list nat) (l : list A) (d : A) : list A :=
  map (fun i => nth i l d) idxs.

(* ---- executable Gaussian elimination over GF(2) -------------------------
   Rows are numbers: bit j (j < n) = column j of S, bit n + i = column i of
   the accumulated row operations.  [left_inverse n S] returns T (n rows,
   length S columns) with T.S = I when S has full column rank. *)
Definition row_num (l : list bool) : N :=
  fold_right (fun (b : bool) (acc : N) => (if b then 1 else 0) + 2 * acc) 0 l.

Fixpoint find_pivot (j : N) (rows : list N) : option (N * list N) :=
  match rows with
  | [] => None
  | r :: rows' =>
    if N.testbit r j then Some (r, rows')
    else match find_pivot j rows' with
         | Some (p, rest) => Some (p, r :: rest)
         | None => None
         end
  end.

(* eliminate column j with pivot p in every other row *)
Definition clear_col (j : N) (p : N) (rows : list N) : list N :=
  map (fun r => if N.testbit r j then N.lxor r p else r) rows.

(* pivots found so far (in column order) and the rows not yet used *)
Fixpoint gauss (cols : list N) (pivots rows : list N) : option (list N) :=
  match cols with
  | [] => Some (rev pivots)
  | j :: cols' =>
    match find_pivot j rows with
    | None => None
    | Some (p, rest) => gauss cols' (p :: clear_col j p pivots) (clear_col j p rest)
    end
  end.

Definition left_inverse (n : nat) (S : list (list bool)) : option (list (list bool)) :=
  let k := length S in
  let rows := map (fun ir => row_num (snd ir) + 2 ^ N.of_nat (n + fst ir))
                  (combine (seq 0 k) S) in
  match gauss (map N.of_nat (seq 0 n)) [] rows with
  | None => None
  | Some ps => Some (map (fun p => map (fun i => N.testbit p (N.of_nat (n + i))) (seq 0 k)) ps)
  end.

Definition bool_mat_eqb (A B : list (list bool)) : bool :=
  list_eqb (list_eqb Bool.eqb) A B.
