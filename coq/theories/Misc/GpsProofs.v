(* Proofs of the GPS-time clauses of C20 about the model in Gps.v, against
   the specification in GpsSpec.v.  The dumped table enters through two
   computed obligations ([table_published], [epoch_published]); everything
   else is proved for any strictly increasing list of step instants. *)
From Coq Require Import List ZArith Bool Lia Sorted.
From LWGen Require Import LeapGen.
From LW Require Import Misc.Gps Misc.GpsSpec.
Import ListNotations.
Open Scope Z_scope.

(* ---- obligations on the dumped data (recomputed on every run) ---- *)
Definition entry_of_step (s : Z) : Z * Z := ((s - 1) * ns, ns).

Lemma table_published : table_ns leap_table = map entry_of_step leap_steps.
Proof. vm_compute. reflexivity. Qed.

Lemma epoch_published : gps_epoch_ns = unix_of_civil gps_epoch_civil * ns.
Proof. vm_compute. reflexivity. Qed.

Lemma leap_steps_sorted : StronglySorted Z.lt leap_steps.
Proof. vm_compute. repeat (constructor; [|repeat constructor]); constructor. Qed.

Lemma leap_steps_length : length leap_steps = 18%nat.
Proof. reflexivity. Qed.

(* ---- int64 plumbing ---- *)
(* 2^63 = 9223372036854775808, 2^62 = 4611686018427387904 *)
Lemma wrap64_id z : - 9223372036854775808 <= z < 9223372036854775808 -> wrap64 z = z.
Proof.
  intros H. unfold wrap64.
  destruct ((-9223372036854775808 <=? z) && (z <=? 9223372036854775807)) eqn:E; [reflexivity|].
  rewrite Z.mod_small; lia.
Qed.

Lemma time_sub_id t u : - 9223372036854775808 <= t - u < 9223372036854775808 -> time_sub t u = t - u.
Proof.
  intros H. unfold time_sub, min_duration, max_duration. cbv zeta.
  destruct (Z.ltb_spec (t - u) (- 9223372036854775808)); [lia|].
  destruct (Z.ltb_spec 9223372036854775807 (t - u)); lia.
Qed.

Lemma ns_val : ns = 1000000000. Proof. reflexivity. Qed.
Lemma ns_per_s_ns : ns_per_s = ns. Proof. reflexivity. Qed.

(* [ns] becomes its numeral before arithmetic, so that products with it are linear *)
Ltac zlia := rewrite ?ns_val in *; lia.

(* ---- the published count ---- *)
Notation count := count_steps.

Lemma count_cons s r t : count (s :: r) t = (if s * ns <=? t then 1 else 0) + count r t.
Proof. unfold count_steps. cbn [filter]. destruct (s * ns <=? t); cbn [length]; zlia. Qed.

Lemma count_nonneg steps t : 0 <= count steps t.
Proof. unfold count_steps. zlia. Qed.

Lemma count_le_length steps t : count steps t <= Z.of_nat (length steps).
Proof.
  induction steps as [|s r IH]; [reflexivity|].
  rewrite count_cons. cbn [length]. destruct (s * ns <=? t); zlia.
Qed.

Lemma count_mono steps t1 t2 : t1 <= t2 -> count steps t1 <= count steps t2.
Proof.
  intros H. induction steps as [|s r IH]; [reflexivity|].
  rewrite !count_cons.
  destruct (Z.leb_spec (s * ns) t1), (Z.leb_spec (s * ns) t2); zlia.
Qed.

Lemma count_zero steps t : Forall (fun s => t < s * ns) steps -> count steps t = 0.
Proof.
  induction 1 as [|s r Hs _ IH]; [reflexivity|].
  rewrite count_cons, IH. destruct (Z.leb_spec (s * ns) t); zlia.
Qed.

(* [gps_minus_utc t] is [count leap_steps t] unfolded: expose the common raw form *)
Ltac raw_count := unfold gps_minus_utc in *.

(* syntactic replacement of the specification's epoch by the dumped one *)
Ltac use_epoch :=
  replace (unix_of_civil gps_epoch_civil * ns) with gps_epoch_ns in * by (exact epoch_published).

(* ---- TimeSinceGPSEpoch: the offset loop adds one second per published step <= t ---- *)
Lemma offset_fold steps t : forall acc,
  0 <= acc -> acc + Z.of_nat (length steps) * ns < 9223372036854775808 ->
  fold_left (fun off e => if cond_to_fixed (fst e) (snd e) t then wrap64 (off + snd e) else off)
            (map entry_of_step steps) acc
  = acc + ns * count steps t.
Proof.
  set (f := fun (off : Z) (e : Z * Z) => if cond_to_fixed (fst e) (snd e) t then wrap64 (off + snd e) else off).
  induction steps as [|s r IH]; intros acc H0 H1.
  - cbn. unfold count_steps. cbn. lia.
  - cbn [map fold_left]. rewrite count_cons.
    cbn [length] in H1. rewrite Nat2Z.inj_succ in H1.
    assert (Hf : f acc (entry_of_step s) = if s * ns <=? t then wrap64 (acc + ns) else acc).
    { subst f. cbn [entry_of_step fst snd]. unfold cond_to_fixed.
      replace ((s - 1) * ns + ns) with (s * ns) by lia.
      destruct (Z.ltb_spec t (s * ns)), (Z.leb_spec (s * ns) t); cbn [negb]; try lia; reflexivity. }
    rewrite Hf.
    destruct (Z.leb_spec (s * ns) t).
    + rewrite wrap64_id by zlia. rewrite IH by zlia. lia.
    + rewrite IH by zlia. lia.
Qed.

(* +- 2^62 ns (146 years) around the GPS epoch: 1833-11 .. 2126-02 *)
Definition utc_range (t : Z) : Prop :=
  gps_epoch_ns - 4611686018427387904 <= t <= gps_epoch_ns + 4611686018427387904.
(* durations: |d| <= 4.6e18 ns (145 years; 18 s of slack below 2^62 for the leap corrections) *)
Definition dur_range (d : Z) : Prop := - 4600000000000000000 <= d <= 4600000000000000000.

(* clause "offset = published count": the conversion IS the specified one *)
Theorem to_gps_spec t : utc_range t -> to_gps_fixed t = spec_to_gps t.
Proof.
  intros [Hl Hu]. unfold to_gps_fixed, to_gps_with, offset_loop, spec_to_gps.
  rewrite table_published.
  rewrite (offset_fold leap_steps t 0); [|lia|rewrite leap_steps_length; zlia].
  use_epoch.
  pose proof (count_nonneg leap_steps t). pose proof (count_le_length leap_steps t) as Hc.
  rewrite leap_steps_length in Hc. raw_count.
  rewrite time_sub_id by zlia. rewrite wrap64_id by zlia. lia.
Qed.

Theorem offset_published t : utc_range t ->
  to_gps_fixed t - (t - gps_epoch_ns) = gps_minus_utc t * ns.
Proof. intros H. rewrite to_gps_spec by assumption. unfold spec_to_gps. use_epoch. lia. Qed.

Theorem strict_mono t1 t2 : utc_range t1 -> utc_range t2 -> t1 < t2 -> to_gps_fixed t1 < to_gps_fixed t2.
Proof.
  intros H1 H2 Hlt. rewrite !to_gps_spec by assumption. unfold spec_to_gps.
  pose proof (count_mono leap_steps t1 t2 ltac:(lia)). raw_count. zlia.
Qed.

(* ---- NewTimeFromTimeSinceGPSEpoch: the sequential loop ---- *)
Definition from_fold (steps : list Z) (x : Z) : Z :=
  fold_left (fun t e => if cond_from_fixed (fst e) (snd e) t then t - snd e else t) (map entry_of_step steps) x.

Lemma from_fold_cons s r x :
  from_fold (s :: r) x = from_fold r (if (s + 1) * ns <=? x then x - ns else x).
Proof.
  unfold from_fold. cbn [map fold_left]. cbn [entry_of_step fst snd].
  unfold cond_from_fixed. replace ((s - 1) * ns + 2 * ns) with ((s + 1) * ns) by zlia.
  destruct (Z.ltb_spec x ((s + 1) * ns)), (Z.leb_spec ((s + 1) * ns) x); cbn [negb]; try zlia; reflexivity.
Qed.

Lemma from_fold_nil x : from_fold [] x = x.
Proof. reflexivity. Qed.

Lemma from_fold_noop steps x : Forall (fun s => x < (s + 1) * ns) steps -> from_fold steps x = x.
Proof.
  induction 1 as [|s r Hs _ IH]; [reflexivity|].
  rewrite from_fold_cons. destruct (Z.leb_spec ((s + 1) * ns) x); [zlia|exact IH].
Qed.

Lemma from_fold_lower steps b : forall y,
  Forall (fun s => b <= s * ns) steps -> b <= y -> b <= from_fold steps y.
Proof.
  induction steps as [|s r IH]; intros y HF Hy; [exact Hy|].
  inversion HF as [|? ? Hs Hr]; subst. rewrite from_fold_cons. pose proof ns_val.
  destruct (Z.leb_spec ((s + 1) * ns) y); apply IH; auto; zlia.
Qed.

Lemma from_fold_bounds steps : forall x,
  x - Z.of_nat (length steps) * ns <= from_fold steps x <= x.
Proof.
  induction steps as [|s r IH]; intros x; [cbn; zlia|].
  rewrite from_fold_cons. cbn [length]. rewrite Nat2Z.inj_succ. pose proof ns_val.
  destruct (Z.leb_spec ((s + 1) * ns) x); [specialize (IH (x - ns))|specialize (IH x)]; zlia.
Qed.

Lemma Forall_impl' {A} (P Q : A -> Prop) l : (forall a, P a -> Q a) -> Forall P l -> Forall Q l.
Proof. intros H F. eapply Forall_impl; eauto. Qed.

Lemma from_gps_fixed_fold d : from_gps_fixed d = from_fold leap_steps (gps_epoch_ns + d).
Proof. unfold from_gps_fixed, from_gps_with, from_fold. rewrite table_published. reflexivity. Qed.

(* UTC -> GPS -> UTC *)
Lemma from_fold_count steps : StronglySorted Z.lt steps ->
  forall t, from_fold steps (t + ns * count steps t) = t.
Proof.
  induction 1 as [|s r _ IH HF]; intros t; [cbn; unfold count; cbn; f_equal; zlia|].
  rewrite from_fold_cons, count_cons. pose proof ns_val as Hn. pose proof (count_nonneg r t).
  destruct (Z.leb_spec (s * ns) t).
  - destruct (Z.leb_spec ((s + 1) * ns) (t + ns * (1 + count r t))); [|zlia].
    replace (t + ns * (1 + count r t) - ns) with (t + ns * count r t) by zlia. apply IH.
  - assert (Hz : count r t = 0).
    { apply count_zero. eapply Forall_impl'; [|exact HF]. cbn. intros a Ha. zlia. }
    rewrite Hz. replace (t + ns * (0 + 0)) with t by zlia.
    destruct (Z.leb_spec ((s + 1) * ns) t); [zlia|].
    apply from_fold_noop. eapply Forall_impl'; [|exact HF]. cbn. intros a Ha. zlia.
Qed.

Theorem utc_gps_utc t : utc_range t -> from_gps_fixed (to_gps_fixed t) = t.
Proof.
  intros H. rewrite to_gps_spec by assumption.
  rewrite from_gps_fixed_fold.
  unfold spec_to_gps. use_epoch. raw_count.
  replace (gps_epoch_ns + (t - gps_epoch_ns + count leap_steps t * ns)) with (t + ns * count leap_steps t) by lia.
  apply from_fold_count, leap_steps_sorted.
Qed.

(* GPS -> UTC -> GPS: identity, except that a reading inside the i-th inserted
   leap second comes back one second later *)
Lemma in_leap_from_false i steps g :
  Forall (fun s => g < (s + (i - 1)) * ns) steps -> StronglySorted Z.lt steps ->
  in_leap_from i steps g = false.
Proof.
  revert i. induction steps as [|s r IH]; intros i HF HS; [reflexivity|].
  inversion HF as [|? ? Hs Hr]; subst. inversion HS as [|? ? HS' HF']; subst.
  cbn [in_leap_from]. destruct (Z.leb_spec ((s + (i - 1)) * ns) g); [zlia|]. cbn [andb orb].
  apply IH; [|assumption].
  eapply Forall_impl'; [|exact HF']. cbn. intros a Ha. pose proof ns_val. zlia.
Qed.

Lemma round_trip_fold steps : StronglySorted Z.lt steps ->
  forall x i, let t' := from_fold steps x in
  t' + ns * count steps t' = x + (if in_leap_from i steps (x + (i - 1) * ns) then ns else 0).
Proof.
  induction 1 as [|s r HS IH HF]; intros x i; [cbn; unfold count; cbn; zlia|].
  cbv zeta. rewrite from_fold_cons. cbn [in_leap_from]. pose proof ns_val as Hn.
  destruct (Z.leb_spec ((s + 1) * ns) x) as [Hx|Hx].
  - (* this step's second is subtracted *)
    specialize (IH (x - ns) (i + 1)). cbv zeta in IH.
    replace (x - ns + (i + 1 - 1) * ns) with (x + (i - 1) * ns) in IH by zlia.
    assert (Hlow : s * ns <= from_fold r (x - ns)).
    { apply from_fold_lower; [|zlia]. eapply Forall_impl'; [|exact HF]. cbn. intros a Ha. zlia. }
    rewrite count_cons. destruct (Z.leb_spec (s * ns) (from_fold r (x - ns))); [|zlia].
    destruct (Z.ltb_spec (x + (i - 1) * ns) ((s + i) * ns)); [zlia|].
    rewrite andb_false_r. cbn [orb]. zlia.
  - (* nothing more is subtracted *)
    assert (Hno : from_fold r x = x).
    { apply from_fold_noop. eapply Forall_impl'; [|exact HF]. cbn. intros a Ha. zlia. }
    rewrite Hno, count_cons.
    assert (Hz : count r x = 0).
    { apply count_zero. eapply Forall_impl'; [|exact HF]. cbn. intros a Ha. zlia. }
    rewrite Hz.
    assert (Hrest : in_leap_from (i + 1) r (x + (i - 1) * ns) = false).
    { apply in_leap_from_false; [|assumption]. eapply Forall_impl'; [|exact HF]. cbn. intros a Ha. zlia. }
    rewrite Hrest, orb_false_r.
    destruct (Z.leb_spec (s * ns) x).
    + destruct (Z.leb_spec ((s + (i - 1)) * ns) (x + (i - 1) * ns)); [|zlia].
      destruct (Z.ltb_spec (x + (i - 1) * ns) ((s + i) * ns)); [|zlia]. cbn. zlia.
    + destruct (Z.leb_spec ((s + (i - 1)) * ns) (x + (i - 1) * ns)); [zlia|]. cbn. zlia.
Qed.

Theorem gps_utc_gps_general d : dur_range d ->
  to_gps_fixed (from_gps_fixed d) = d + (if in_inserted_leap_second d then ns else 0).
Proof.
  intros [Hl Hu].
  pose proof (from_gps_fixed_fold d) as Hf.
  pose proof (from_fold_bounds leap_steps (gps_epoch_ns + d)) as Hb. rewrite leap_steps_length in Hb.
  change (Z.of_nat 18) with 18 in Hb.
  rewrite to_gps_spec by (unfold utc_range; rewrite Hf; zlia).
  rewrite Hf. unfold spec_to_gps.
  pose proof (round_trip_fold leap_steps leap_steps_sorted (gps_epoch_ns + d) 1) as H. cbv zeta in H.
  replace (gps_epoch_ns + d + (1 - 1) * ns) with (gps_epoch_ns + d) in H by lia.
  unfold in_inserted_leap_second. use_epoch. raw_count. lia.
Qed.

Theorem gps_utc_gps d : dur_range d -> in_inserted_leap_second d = false ->
  to_gps_fixed (from_gps_fixed d) = d.
Proof. intros H E. rewrite gps_utc_gps_general, E by assumption. zlia. Qed.

(* the UTC instant produced is the specified one: it maps back to d under the specification *)
Theorem from_gps_spec d : dur_range d -> in_inserted_leap_second d = false ->
  spec_to_gps (from_gps_fixed d) = d.
Proof.
  intros H E. rewrite <- (gps_utc_gps d H E) at 2. symmetry. apply to_gps_spec.
  destruct H as [Hl Hu]. unfold utc_range.
  pose proof (from_gps_fixed_fold d) as Hf.
  pose proof (from_fold_bounds leap_steps (gps_epoch_ns + d)) as Hb. rewrite leap_steps_length in Hb.
  change (Z.of_nat 18) with 18 in Hb. rewrite Hf. zlia.
Qed.

Theorem gps_utc_gps_both d : dur_range d -> in_inserted_leap_second d = false ->
  to_gps_fixed (from_gps_fixed d) = d /\ spec_to_gps (from_gps_fixed d) = d.
Proof. intros H E. split; [exact (gps_utc_gps d H E) | exact (from_gps_spec d H E)]. Qed.

Theorem gps_utc_gps_in_leap d : dur_range d -> in_inserted_leap_second d = true ->
  to_gps_fixed (from_gps_fixed d) = d + 1000000000.
Proof. intros H E. rewrite (gps_utc_gps_general d H), E. reflexivity. Qed.

(* ---- the code before the repair applied each offset one second early ---- *)
(* 2012-06-30 23:59:59.5 UTC: published GPS-UTC is 15 s, the old loop added 16 s *)
Lemma orig_offset_early :
  let t := 1341100799500000000 in
  gps_minus_utc t = 15 /\ to_gps_orig t - (t - gps_epoch_ns) = 16 * ns /\ to_gps_fixed t - (t - gps_epoch_ns) = 15 * ns.
Proof. vm_compute. repeat split; reflexivity. Qed.

(* ... and a duration one half second before the inserted leap second did not survive *)
Lemma orig_round_trip_fails :
  let d := 1025136014500000000 in
  in_inserted_leap_second d = false /\ to_gps_orig (from_gps_orig d) = d - ns /\ to_gps_fixed (from_gps_fixed d) = d.
Proof. vm_compute. repeat split; reflexivity. Qed.

Theorem orig_refuted :
  (let t := 1341100799500000000 in
   gps_minus_utc t = 15 /\ to_gps_orig t - (t - gps_epoch_ns) = 16 * 1000000000) /\
  (let d := 1025136014500000000 in
   in_inserted_leap_second d = false /\ to_gps_orig (from_gps_orig d) = d - 1000000000).
Proof. vm_compute. repeat split; reflexivity. Qed.

(* ---- days_from_civil against the calendar written the plain way ---- *)
(* walks n consecutive days from [date] = day number k with next_day and checks both conversions *)
Fixpoint calendar_ok (n : nat) (date : Z * Z * Z) (k : Z) : bool :=
  match n with
  | O => true
  | S n' =>
    let '(y, m, d) := date in
    (days_from_civil y m d =? k) &&
    (let '(y', m', d') := civil_from_days k in (y' =? y) && (m' =? m) && (d' =? d)) &&
    calendar_ok n' (next_day date) (k + 1)
  end.

(* 1970-01-01 .. 2100-12-31 is 47,847 days; ends on 2101-01-01 = day 47847 *)
Lemma days_from_civil_calendar :
  calendar_ok (N.to_nat 47847) (1970, 1, 1) 0 = true /\ days_from_civil 2101 1 1 = 47847.
Proof. vm_compute. split; reflexivity. Qed.
