(* Correspondence cases for C11: model vs implementation, and the
   specification evaluated on what the implementation returned. *)
From Coq Require Import List NArith ZArith Bool.
From LW Require Import Base.Outcome Base.Bytes Base.Hex Ident.Model Ident.Spec.
Import ListNotations.
Open Scope N_scope.

Inductive case :=
(* NetID value, DevAddr value; observed: address after SetAddrPrefix, IsNetID
   of the original address, NetID.Type, NetID.ID bytes, and of the resulting
   address: NetIDType, NwkID bytes as (value, byte count) *)
| CPrefix (v a : N) (o_addr : N) (o_member : bool) (o_ntype : N) (o_nid : list N)
          (o_atype : Z) (o_nwkid : option (N * nat))
(* a DevAddr as received (no prefix assigned): NetIDType and NwkID; type -1 = no type prefix (first byte ff) *)
| CAddr (a : N) (o_atype : Z) (o_nwkid : option (N * nat))
(* value bytes -> MarshalText -> UnmarshalText, also with "0x" in front *)
| CTextRT (bs : list N) (o_text : list N) (o_back o_back0x : outcome (list N))
(* arbitrary text into UnmarshalText of a k-byte identifier *)
| CText (k : nat) (text : list N) (o : outcome (list N))
| CBinRT (bs : list N) (o_bin : list N) (o_back : outcome (list N))
| CBin (k : nat) (data : list N) (o : outcome (list N))
| CScanRT (bs : list N) (o_val : list N) (o_back : outcome (list N))
| CScan (k : nat) (data : list N) (o : outcome (list N)).

Definition oeqb := outcome_eqb bytes_eqb.
Definition nwk_eqb (x y : option (N * nat)) :=
  option_eqb (fun p q => (fst p =? fst q) && Nat.eqb (snd p) (snd q)) x y.

Definition check (c : case) : N :=
  match c with
  | CPrefix v a o_addr o_member o_ntype o_nid o_atype o_nwkid =>
    let t := spec_type v in
    code ((set_addr_prefix v a =? o_addr) && Bool.eqb (is_netid v a) o_member
          && (netid_type v =? o_ntype) && bytes_eqb (netid_id_bytes v) o_nid
          && (devaddr_netid_type o_addr =? o_atype)%Z && nwk_eqb (devaddr_nwkid o_addr) o_nwkid)
         ((o_addr =? spec_addr v a) && Bool.eqb o_member (spec_member v a)
          && (o_ntype =? t) && (be_val o_nid =? spec_id v)
          && (o_atype =? Z.of_N t)%Z
          && match o_nwkid with Some (n, _) => n =? spec_nwkid v | None => false end
          && spec_member v o_addr)
  | CAddr a o_atype o_nwkid =>
    code ((devaddr_netid_type a =? o_atype)%Z && nwk_eqb (devaddr_nwkid a) o_nwkid)
         (* the type is the one whose prefix value the leading bits carry; the NwkID is the field behind it *)
         (match o_atype with
          | Z.neg _ => (a / 2 ^ 24 =? 255) && match o_nwkid with None => true | Some _ => false end
          | _ => let t := Z.to_N o_atype in
                 (t <? 8) && (a / 2 ^ (32 - spec_prefix_len t) =? spec_prefix_val t)
                 && match o_nwkid with Some (n, _) => n =? (a / 2 ^ spec_addr_bits t) mod 2 ^ spec_nwkid_width t | None => false end
          end)
  | CTextRT bs o_text o_back o_back0x =>
    let k := length bs in
    code (bytes_eqb (marshal_text bs) o_text && oeqb (unmarshal_text k o_text) o_back
          && oeqb (unmarshal_text k (48 :: 120 :: o_text)) o_back0x)
         (oeqb o_back (Ok bs) && oeqb o_back0x (Ok bs))
  | CText k text o =>
    code (oeqb (unmarshal_text k text) o)
         (* accepted text must be the hex form (optional 0x) of exactly k bytes, decoded to those bytes *)
         (match o with
          | Ok bs => match hex_dec (trim0x text) with
                     | Ok b => Nat.eqb (length b) k && bytes_eqb b bs
                     | _ => false
                     end
          | _ => true
          end)
  | CBinRT bs o_bin o_back =>
    code (bytes_eqb (marshal_binary bs) o_bin && oeqb (unmarshal_binary (length bs) o_bin) o_back)
         (bytes_eqb o_bin (rev bs) && oeqb o_back (Ok bs))
  | CBin k data o =>
    code (oeqb (unmarshal_binary k data) o)
         (match o with Ok bs => Nat.eqb (length data) k && Nat.eqb (length bs) k
                     | _ => negb (Nat.eqb (length data) k) end)
  | CScanRT bs o_val o_back =>
    code (bytes_eqb bs o_val && oeqb (scan (length bs) o_val) o_back)
         (oeqb o_back (Ok bs))
  | CScan k data o =>
    code (oeqb (scan k data) o)
         (match o with Ok bs => Nat.eqb (length data) k && bytes_eqb bs data
                     | _ => negb (Nat.eqb (length data) k) end)
  end.

Definition run_cases := run_with check.
