(* Model of backend.ISO8601Time (/repo/backend/backend.go:130-145):

     func (t ISO8601Time) MarshalText() ([]byte, error) { return []byte(time.Time(t).Format(time.RFC3339)), nil }
     func (t *ISO8601Time) UnmarshalText(text []byte) error { ts, err := time.Parse(time.RFC3339, string(text)); ... }

   with time.RFC3339 = "2006-01-02T15:04:05Z07:00".  A timestamp is a pair
   (unix seconds, zone offset in seconds east of UTC); the sub-second part is
   not printed by this layout and is ignored by the property ("to one second").
   Model file: definitions and examples only; theorems in Iso8601Proofs.v.

   Calendar: proleptic Gregorian, days counted from 1970-01-01, by the
   era / year-of-era / day-of-era decomposition (eras of 400 years = 146097
   days starting on 1 March); [/] and [mod] on Z are floor division, so
   negative day numbers and years need no special case.

   [format_rfc3339 s off] is Time.Format: local civil time of s + off, fields
   printed by [append_int] (Go's appendInt: at least [width] digits, '-' in
   front of a negative number, more digits when needed), then "Z" when the
   offset is 0, else sign, hours and minutes of the offset truncated toward
   zero to whole minutes (the seconds of the offset are not printed).  Covered:
   every s, off for which Go's own arithmetic does not overflow (the harness
   compares years -9999..99999).

   [parse_rfc3339 text] is time.Parse with that layout, for EVERY byte string
   (Go 1.23: the strict fast path parseRFC3339 is tried first and the general
   layout parser decides; both agree where the first accepts):
     - year: exactly 4 digits; "-"; month: exactly 2 digits; "-"; day: exactly 2 digits; "T";
     - hour: 1 or 2 digits (getnum without the fixed flag); ":"; minute, ":" and second: exactly 2 digits each;
     - optional fraction: '.' or ',' followed by at least one digit, then all following digits (value dropped here);
     - zone: "Z", or sign, 2 digits, ":", 2 digits with hours <= 24 and minutes <= 60 (Go accepts +24:00 and +00:60);
     - nothing may follow; month 1..12, hour < 24, minute < 60, second < 60 (no leap second), day 1..days in that month.
   Result: (unix seconds, offset); [None] = any error. *)
From Coq Require Import List NArith ZArith Bool.
Import ListNotations.
Open Scope Z_scope.

(* ---- calendar ---- *)
Definition is_leap (y : Z) : bool :=
  ((y mod 4 =? 0) && negb (y mod 100 =? 0)) || (y mod 400 =? 0).

Definition days_in_month (y m : Z) : Z :=
  if m =? 2 then (if is_leap y then 29 else 28)
  else if (m =? 4) || (m =? 6) || (m =? 9) || (m =? 11) then 30
  else 31.

(* day of era from year of era (years start on 1 March), month index (0 = March .. 11 = February), day of month *)
Definition doe_of (yoe mp d : Z) : Z :=
  yoe * 365 + yoe / 4 - yoe / 100 + (153 * mp + 2) / 5 + d - 1.
Definition yoe_of (doe : Z) : Z := (doe - doe / 1460 + doe / 36524 - doe / 146096) / 365.
Definition doy_of (doe yoe : Z) : Z := doe - (365 * yoe + yoe / 4 - yoe / 100).
Definition mp_of (doy : Z) : Z := (5 * doy + 2) / 153.
Definition dom_of (doy mp : Z) : Z := doy - (153 * mp + 2) / 5 + 1.
Definition month_of_mp (mp : Z) : Z := if mp <? 10 then mp + 3 else mp - 9.
Definition mp_of_month (m : Z) : Z := if m <=? 2 then m + 9 else m - 3.

(* days since 1970-01-01 of the civil date y-m-d *)
Definition days_from_civil (y m d : Z) : Z :=
  let y' := if m <=? 2 then y - 1 else y in
  let era := y' / 400 in
  let yoe := y' - era * 400 in
  era * 146097 + doe_of yoe (mp_of_month m) d - 719468.

(* civil date (year, month, day) of a day number *)
Definition civil_from_days (z : Z) : Z * Z * Z :=
  let z' := z + 719468 in
  let era := z' / 146097 in
  let doe := z' - era * 146097 in
  let yoe := yoe_of doe in
  let doy := doy_of doe yoe in
  let mp := mp_of doy in
  let m := month_of_mp mp in
  let y := yoe + era * 400 in
  ((if m <=? 2 then y + 1 else y), m, dom_of doy mp).

(* ---- Format ---- *)
Definition digit (n : Z) : N := Z.to_N (48 + n mod 10).

(* decimal digits of u >= 0, least significant first; 20 digits cover 64 bits *)
Fixpoint dec_rev (fuel : nat) (u : Z) : list N :=
  match fuel with
  | O => []
  | S f => if u <? 10 then [digit u] else digit u :: dec_rev f (u / 10)
  end.

(* time.appendInt *)
Definition append_int (x : Z) (width : nat) : list N :=
  let ds := dec_rev 20 (Z.abs x) in
  (if x <? 0 then [45%N] else []) ++ repeat 48%N (width - length ds) ++ rev ds.

Definition pad2 (n : Z) : list N := [digit (n / 10); digit n].
Definition pad4 (n : Z) : list N := [digit (n / 1000); digit (n / 100); digit (n / 10); digit n].

Definition zone_text (off : Z) : list N :=
  if off =? 0 then [90%N]                                  (* "Z" *)
  else
    let zone := Z.quot off 60 in                           (* Go: offset / 60, truncated toward zero *)
    let az := Z.abs zone in
    (if zone <? 0 then [45%N] else [43%N]) ++ append_int (az / 60) 2 ++ [58%N] ++ append_int (az mod 60) 2.

Definition format_rfc3339 (s off : Z) : list N :=
  let t := s + off in
  let sod := t mod 86400 in
  let '(y, m, d) := civil_from_days (t / 86400) in
  append_int y 4 ++ [45%N] ++ append_int m 2 ++ [45%N] ++ append_int d 2 ++ [84%N]
  ++ append_int (sod / 3600) 2 ++ [58%N] ++ append_int (sod mod 3600 / 60) 2 ++ [58%N]
  ++ append_int (sod mod 60) 2 ++ zone_text off.

(* ---- Parse ---- *)
Definition is_digit (c : N) : bool := ((48 <=? c) && (c <=? 57))%N.
Definition dval (c : N) : Z := Z.of_N c - 48.

Definition obind {A B} (x : option A) (f : A -> option B) : option B :=
  match x with Some a => f a | None => None end.

Definition expect (c : N) (l : list N) : option (list N) :=
  match l with
  | x :: r => if (x =? c)%N then Some r else None
  | [] => None
  end.

(* getnum(value, fixed = true) *)
Definition take2 (l : list N) : option (Z * list N) :=
  match l with
  | a :: b :: r => if is_digit a && is_digit b then Some (dval a * 10 + dval b, r) else None
  | _ => None
  end.

(* getnum(value, fixed = false): one digit when the second character is not a digit *)
Definition take_hour (l : list N) : option (Z * list N) :=
  match l with
  | a :: r =>
    if is_digit a then
      match r with
      | b :: r' => if is_digit b then Some (dval a * 10 + dval b, r') else Some (dval a, r)
      | [] => Some (dval a, r)
      end
    else None
  | [] => None
  end.

(* stdLongYear: value[0:4] through atoi *)
Definition take_year (l : list N) : option (Z * list N) :=
  match l with
  | a :: b :: c :: d :: r =>
    if is_digit a && is_digit b && is_digit c && is_digit d
    then Some (dval a * 1000 + dval b * 100 + dval c * 10 + dval d, r) else None
  | _ => None
  end.

Fixpoint skip_digits (l : list N) : list N :=
  match l with
  | x :: r => if is_digit x then skip_digits r else l
  | [] => []
  end.

(* a fractional second although the layout has none: '.' or ',' and at least one digit *)
Definition skip_fraction (l : list N) : list N :=
  match l with
  | p :: x :: r => if ((p =? 46) || (p =? 44))%N && is_digit x then skip_digits r else l
  | _ => l
  end.

(* stdISO8601ColonTZ "Z07:00" *)
Definition take_zone (l : list N) : option (Z * list N) :=
  match l with
  | [] => None
  | z :: r0 =>
    if (z =? 90)%N then Some (0, r0)
    else
      match r0 with
      | h1 :: h2 :: c :: m1 :: m2 :: r =>
        if (c =? 58)%N then
          obind (take2 [h1; h2]) (fun '(hr, _) =>
          obind (take2 [m1; m2]) (fun '(mm, _) =>
            if (hr <=? 24) && (mm <=? 60) then
              if (z =? 43)%N then Some ((hr * 60 + mm) * 60, r)
              else if (z =? 45)%N then Some (- ((hr * 60 + mm) * 60), r)
              else None
            else None))
        else None
      | _ => None
      end
  end.

Definition is_nil {A} (l : list A) : bool := match l with [] => true | _ => false end.

Definition parse_rfc3339 (text : list N) : option (Z * Z) :=
  obind (take_year text) (fun '(y, r) =>
  obind (expect 45 r) (fun r =>
  obind (take2 r) (fun '(m, r) =>
  obind (expect 45 r) (fun r =>
  obind (take2 r) (fun '(d, r) =>
  obind (expect 84 r) (fun r =>
  obind (take_hour r) (fun '(h, r) =>
  obind (expect 58 r) (fun r =>
  obind (take2 r) (fun '(mi, r) =>
  obind (expect 58 r) (fun r =>
  obind (take2 r) (fun '(sec, r) =>
  obind (take_zone (skip_fraction r)) (fun '(off, r) =>
    if is_nil r && (1 <=? m) && (m <=? 12) && (h <? 24) && (mi <? 60) && (sec <? 60)
       && (1 <=? d) && (d <=? days_in_month y m)
    then Some (days_from_civil y m d * 86400 + h * 3600 + mi * 60 + sec - off, off)
    else None)))))))))))).

(* ---- examples ---- *)
Definition str (s : list Z) : list N := map Z.to_N s.

Example civil_examples :
  (civil_from_days 0, civil_from_days (-1), civil_from_days 11016, civil_from_days (-719528),
   civil_from_days 2932896, civil_from_days 47540, civil_from_days 47541)
  = ((1970, 1, 1), (1969, 12, 31), (2000, 2, 29), (0, 1, 1), (9999, 12, 31), (2100, 2, 28), (2100, 3, 1)).
Proof. vm_compute. reflexivity. Qed.

Example days_examples :
  (days_from_civil 1970 1 1, days_from_civil 2000 2 29, days_from_civil 0 1 1, days_from_civil 9999 12 31,
   days_from_civil 1 1 1, days_from_civil 2038 1 19)
  = (0, 11016, -719528, 2932896, -719162, 24855).
Proof. vm_compute. reflexivity. Qed.

(* "2000-02-29T23:59:59Z", "1999-12-31T23:59:00-00:01", "0000-01-01T00:00:00+23:59" *)
Example format_examples :
  (format_rfc3339 951868799 0, format_rfc3339 946684800 (-60), format_rfc3339 (-62167305540) 86340)
  = ([50; 48; 48; 48; 45; 48; 50; 45; 50; 57; 84; 50; 51; 58; 53; 57; 58; 53; 57; 90]%N,
     [49; 57; 57; 57; 45; 49; 50; 45; 51; 49; 84; 50; 51; 58; 53; 57; 58; 48; 48; 45; 48; 48; 58; 48; 49]%N,
     [48; 48; 48; 48; 45; 48; 49; 45; 48; 49; 84; 48; 48; 58; 48; 48; 58; 48; 48; 43; 50; 51; 58; 53; 57]%N).
Proof. vm_compute. reflexivity. Qed.

(* outside RFC 3339: "12000-01-01T12:00:00Z", "-0001-01-01T00:00:00Z", a zone of +00:19:32 printed as "+00:19",
   -59 s printed as "+00:00", 100 h printed as "+100:00" *)
Example format_outside :
  (format_rfc3339 316516248000 0, format_rfc3339 (-62198755200) 0,
   skipn 19 (format_rfc3339 0 1172), skipn 19 (format_rfc3339 0 (-59)), skipn 19 (format_rfc3339 0 360000))
  = ([49; 50; 48; 48; 48; 45; 48; 49; 45; 48; 49; 84; 49; 50; 58; 48; 48; 58; 48; 48; 90]%N,
     [45; 48; 48; 48; 49; 45; 48; 49; 45; 48; 49; 84; 48; 48; 58; 48; 48; 58; 48; 48; 90]%N,
     [43; 48; 48; 58; 49; 57]%N, [43; 48; 48; 58; 48; 48]%N, [43; 49; 48; 48; 58; 48; 48]%N).
Proof. vm_compute. reflexivity. Qed.

Example parse_examples :
  (parse_rfc3339 (format_rfc3339 951868799 0), parse_rfc3339 (format_rfc3339 946684800 (-60)),
   parse_rfc3339 (format_rfc3339 (-62167305540) 86340), parse_rfc3339 (format_rfc3339 316516248000 0),
   parse_rfc3339 (format_rfc3339 0 1172))
  = (Some (951868799, 0), Some (946684800, -60), Some (-62167305540, 86340), None, Some (32, 1140)).
Proof. vm_compute. reflexivity. Qed.
