(* The secure data-frame exchange as a composition of the model functions, in
   the order property C05 gives (the documented use of the PHYPayload methods,
   cf. the examples in phypayload_test.go):

   sender:    EncryptFRMPayload -> EncryptFOpts (1.1 only) -> Set{Up,Down}linkDataMIC -> MarshalBinary
   receiver:  UnmarshalBinary -> FHDR.FCnt := full 32-bit counter -> Validate{Up,Down}linkDataMIC
              -> DecryptFOpts (1.1) | DecodeFOptsToMACCommands (1.0) -> DecryptFRMPayload

   Model file: no proofs (EndToEndProofs.v). *)
From Coq Require Import List NArith ZArith Bool.
From LW Require Import Base.Outcome Base.Bytes Crypto.AES Crypto.CMAC Mac.Commands Mac.Spec Mac.Stream
     Frame.Model Frame.Spec Sec.MIC Sec.Encrypt.
Import ListNotations.
Open Scope N_scope.

(* session keys (for 1.0 all three network keys are the NwkSKey) *)
Record keys := mkKeys { fnwksint : list N; snwksint : list N; nwksenc : list N; appskey : list N }.
(* the MIC parameters besides the keys: ConfFCnt, TxDr, TxCh (the latter two uplink only) *)
Record micparams := mkParams { conf : N; txdr : N; txch : N }.

(* FRMPayload key: NwkSEncKey for FPort 0, AppSKey otherwise *)
Definition frm_key (k : keys) (p : phy) : list N :=
  match pl p with
  | PLMac m => match fport m with Some 0 => nwksenc k | _ => appskey k end
  | _ => appskey k
  end.

Definition set_data_mic (ver : macver) (up : bool) (k : keys) (prm : micparams) (p : phy) : outcome phy :=
  if up then set_up_mic ver (conf prm) (txdr prm) (txch prm) (fnwksint k) (snwksint k) p
  else set_down_mic ver (conf prm) (snwksint k) p.

Definition validate_data_mic (ver : macver) (up : bool) (k : keys) (prm : micparams) (p : phy) : outcome bool :=
  if up then validate_up_mic ver (conf prm) (txdr prm) (txch prm) (fnwksint k) (snwksint k) p
  else validate_down_mic ver (conf prm) (snwksint k) p.

(* the frame just before serialisation *)
Definition sender_frame (ver : macver) (k : keys) (prm : micparams) (f : phy) : outcome phy :=
  do p1 <- phy_encrypt_frm (frm_key k f) f;
  do p2 <- match ver with LoRaWAN1_1 => phy_encrypt_fopts (nwksenc k) p1 | LoRaWAN1_0 => Ok p1 end;
  set_data_mic ver (is_uplink (mtype f)) k prm p2.

Definition sender (ver : macver) (k : keys) (prm : micparams) (f : phy) : outcome (list N) :=
  do p3 <- sender_frame ver k prm f; phy_marshal p3.

(* `macPL.FHDR.FCnt = full` *)
Definition set_fcnt (full : N) (p : phy) : phy :=
  match pl p with
  | PLMac m =>
    let h := hdr m in
    mkPHY (mtype p) (major p) (PLMac (mkMAC (mkFHDR (devaddr h) (fc h) full (fopts h)) (fport m) (frm m))) (mic p)
  | _ => p
  end.

(* the receiver's MIC validation; [up] is the receiver's role: a network server validates
   uplinks (ValidateUplinkDataMIC), an end-device downlinks (ValidateDownlinkDataMIC) *)
Definition rx_validate (ver : macver) (up : bool) (k : keys) (prm : micparams) (full : N) (bs : list N)
  : outcome bool :=
  do p <- phy_unmarshal bs;
  validate_data_mic ver up k prm (set_fcnt full p).

Inductive rx_frame := RxBadMIC | RxFrame (p : phy).

(* the whole receiver; the role follows the MType of the received frame *)
Definition receiver_frame (reg : registry) (ver : macver) (k : keys) (prm : micparams) (full : N) (bs : list N)
  : outcome rx_frame :=
  do p <- phy_unmarshal bs;
  let p1 := set_fcnt full p in
  do ok <- validate_data_mic ver (is_uplink (mtype p1)) k prm p1;
  if negb ok then Ok RxBadMIC else
  do p2 <- match ver with
           | LoRaWAN1_1 => phy_decrypt_fopts reg (nwksenc k) p1
           | LoRaWAN1_0 => phy_decode_fopts reg p1
           end;
  do p3 <- phy_decrypt_frm reg (frm_key k p2) p2;
  Ok (RxFrame p3).

(* what the exchange is about: MAC commands in FOpts, FPort, and the FRMPayload
   (MAC commands on port 0, else the application bytes) *)
Inductive content := BadMIC | Content (fopts_cmds : list item) (port : option N) (frm_items : list item).

Definition content_of_frame (p : phy) : content :=
  match pl p with
  | PLMac m => Content (fopts (hdr m)) (fport m) (frm m)
  | _ => BadMIC
  end.

Definition receiver (reg : registry) (ver : macver) (k : keys) (prm : micparams) (full : N) (bs : list N)
  : outcome content :=
  do r <- receiver_frame reg ver k prm full bs;
  match r with RxBadMIC => Ok BadMIC | RxFrame p => Ok (content_of_frame p) end.

(* the content of the sender's frame as the receiver can see it: application bytes arrive as one byte string *)
Definition commands_and_payload (f : phy) : content :=
  match pl f with
  | PLMac m =>
    Content (fopts (hdr m)) (fport m)
            (match fport m with Some 0 => frm m | _ => wire_items (frm m) end)
  | _ => BadMIC
  end.

(* ---- the frames the exchange is claimed for ---- *)
(* a MAC command that the given registry delimits: payload of the registered
   kind and within the specified ranges (at wire resolution), or no payload
   and none registered *)
Definition cmd_sendable (reg : registry) (up : bool) (it : item) : bool :=
  match it with
  | IMac c None =>
    (c <? 256) && match reg_lookup reg up c with None => true | Some _ => false end
  | IMac c (Some v) =>
    (c <? 256) && spec_in_range v && macpl_eqb (wire_resolution v) v
    && match v with PProprietary _ => false | _ => true end
    && match reg_lookup reg up c with Some (_, k) => kind_eqb k (kind_of v) | None => false end
  | IData _ => false
  end.

Definition spec_valid_data (reg : registry) (f : phy) : bool :=
  spec_valid f &&
  match pl f with
  | PLMac m =>
    let up := is_uplink (mtype f) in
    forallb (cmd_sendable reg up) (fopts (hdr m))
    && match fport m with
       | Some 0 => forallb (cmd_sendable reg up) (frm m)
       | _ => negb (existsb is_mac (frm m))
       end
  | _ => false
  end.
