(* C06 - wire format of the 29 MAC-command payloads against the independent
   table-driven specification Mac/Spec.v (layouts, CID table, semantic maps).
   Statement file: every theorem is closed by [exact] of a lemma from theories/.
   (Frame headers, join payloads and CFList: see the C06 part of Frame/FrameSpecProofs.v.) *)
From Coq Require Import List NArith ZArith Bool.
From LW Require Import Base.Outcome Base.Bytes Mac.Commands Mac.Spec Mac.Stream
     Mac.RegistryProofs Mac.DecProofs Mac.EncProofs Mac.PackProofs Mac.StreamProofs Frame.Model Frame.WireSpec Frame.WireSpecProofs Frame.CFListSpecProofs.
From LWGen Require Import RegistryGen.
Import ListNotations.
Open Scope N_scope.

(* every (direction, CID) in the LIVE registry is the command the specification
   assigns to it, and its registered size is the size of the specified layout *)
Theorem C06_registry_complete : forall up cid sz k,
  reg_lookup builtin_registry up cid = Some (sz, k) ->
  spec_reg_lookup spec_registry up cid = Some k /\
  sz = Z.of_nat (byte_size (layout_of k)) /\ sz = kind_size k.
Proof. exact registry_complete. Qed.
Print Assumptions C06_registry_complete.

(* ... and every command the specification defines is registered *)
Theorem C06_registry_covers_spec :
  forallb spec_entry_ok spec_registry = true.
Proof. exact (proj2 registry_matches_spec). Qed.
Print Assumptions C06_registry_covers_spec.

(* ENCODE: for every payload value of the Go types (all uint8/uint32/int8/int/Duration
   field values), whatever the encoder accepts is bit for bit the specified layout of
   the value's fields (little-endian, field order and widths from the table,
   frequency in 100 Hz / 200 Hz units, 6-bit signed margin, 1/256 s fraction) *)
Theorem C06_encode_is_spec : forall v bs,
  wf_go v = true -> kind_of v <> KProprietary -> enc v = Ok bs ->
  bs = spec_encode_k (kind_of v) (fields_of v).
Proof. exact enc_eq_spec. Qed.
Print Assumptions C06_encode_is_spec.

(* DECODE: for every payload kind and EVERY byte string, the decoder returns the
   specified field values with RFU bits ignored when the length is the layout's,
   and an error otherwise.  One- and two-byte payloads: all 2^8 / 2^16 strings by
   kernel computation (19 + 3 kinds); 3-5 byte payloads by div/mod arithmetic. *)
Theorem C06_decode_is_spec : forall k bs,
  k <> KProprietary -> Forall (fun b => b < 256) bs ->
  dec k bs =
  if Nat.eqb (length bs) (byte_size (layout_of k))
  then Ok (value_of k (spec_decode_k k bs)) else Err.
Proof. exact dec_eq_spec. Qed.
Print Assumptions C06_decode_is_spec.

(* [spec_encode_k] / [spec_decode_k] are the layout interpreter for every kind but one: the table
   [legacy_octets] of Mac/Spec.v names the single whole-octet value that is not read through a
   layout - DutyCycleReq octet 255 (LoRaWAN 1.0 "device off"; 1.0.2+/1.1: MaxDCycle 3:0, RFU 7:4) *)
Theorem C06_layout_only_kinds : forall k x,
  k <> KDutyCycleReq ->
  spec_encode_k k x = spec_encode (layout_of k) x /\ spec_decode_k k x = spec_decode (layout_of k) x.
Proof. exact layout_only_kinds. Qed.
Print Assumptions C06_layout_only_kinds.

(* DutyCycleReq spelled out, all 256 octets (finding C06-3, fixed): the RFU bits 7:4 of a received
   octet do not reach the value - 0x17 is MaxDCycle 7, not 23 -, octet 255 is the value 255, and
   what the decoder yields the encoder accepts (octet with the RFU bits cleared) *)
Theorem C06_dutycycle_rfu_ignored : forall b, b < 256 ->
  dec KDutyCycleReq [b] = Ok (PDutyCycleReq (if b =? 255 then 255 else b mod 16)) /\
  enc (PDutyCycleReq (if b =? 255 then 255 else b mod 16)) = Ok [if b =? 255 then 255 else b mod 16].
Proof. exact dutycycle_rfu_ignored. Qed.
Print Assumptions C06_dutycycle_rfu_ignored.

(* the layout interpreter itself is an inverse pair on in-width field values *)
Theorem C06_layout_inverse : forall L vals,
  bit_size L = 8 * N.of_nat (byte_size L) -> in_widths L vals = true ->
  spec_decode L (spec_encode L vals) = vals.
Proof. exact spec_decode_encode. Qed.
Print Assumptions C06_layout_inverse.

(* ... and so is the kind-level description, on in-width field values and on the legacy octet
   (no layout encoding - RFU bits zero - collides with it) *)
Theorem C06_kind_inverse : forall k vals, k <> KProprietary ->
  in_widths (layout_of k) vals = true \/ (exists x, vals = [x] /\ is_legacy k x = true) ->
  spec_decode_k k (spec_encode_k k vals) = vals.
Proof. exact spec_k_inverse. Qed.
Print Assumptions C06_kind_inverse.

(* ---- frame headers, join payloads (layouts in Frame/WireSpec.v) ---- *)
(* MHDR: all MTypes x Majors encode to the layout; all 256 octets decode to it (RFU ignored) *)
Theorem C06_mhdr : forall mt mj b, mt < 8 -> mj < 4 -> b < 256 ->
  mhdr_marshal mt mj = spec_mhdr mt mj /\ [N.land b 3; N.shiftr b 5] = unpack L_MHDR b.
Proof. intros mt mj b H1 H2 H3. split; [exact (mhdr_is_spec mt mj H1 H2)|exact (mhdr_decode_is_spec b H3)]. Qed.
Print Assumptions C06_mhdr.

(* FCtrl: every flag combination x FOptsLen 0..15 encodes to the layout; every octet decodes to it *)
Theorem C06_fctrl : forall c b, foptslen c < 16 -> b < 256 ->
  fctrl_marshal c = Ok (spec_fctrl c) /\ fctrl_unmarshal b = spec_fctrl_decode b.
Proof. intros c b H1 H2. split; [exact (fctrl_is_spec c H1)|exact (fctrl_decode_is_spec b H2)]. Qed.
Print Assumptions C06_fctrl.

Theorem C06_dlsettings : forall optneg rx2 rx1 b, rx2 < 16 -> rx1 < 8 -> b < 256 ->
  enc_dlsettings optneg rx2 rx1 = Ok (spec_dlsettings optneg rx2 rx1) /\
  dec_dlsettings b = (f2b (nth 2 (unpack L_DLSettings b) 0), nth 0 (unpack L_DLSettings b) 0, nth 1 (unpack L_DLSettings b) 0).
Proof. intros o a c b H1 H2 H3. split; [exact (dlsettings_is_spec o a c H1 H2)|exact (dlsettings_decode_is_spec b H3)]. Qed.
Print Assumptions C06_dlsettings.

(* join-request, rejoin-request 0/2 and 1, join-accept (12-byte form): little-endian
   concatenation of the specified fields, identifiers byte-reversed *)
Theorem C06_joinrequest : forall je de dn,
  length je = 8%nat -> length de = 8%nat -> Forall (fun b => b < 256) je -> Forall (fun b => b < 256) de -> dn < 65536 ->
  payload_marshal (PLJoinRequest je de dn) = Ok (spec_encode L_JoinRequest [id_val je; id_val de; dn]).
Proof. exact joinrequest_is_spec. Qed.
Print Assumptions C06_joinrequest.

Theorem C06_rejoin02 : forall ty nid de rc,
  (ty = 0 \/ ty = 2) -> length nid = 3%nat -> length de = 8%nat ->
  Forall (fun b => b < 256) nid -> Forall (fun b => b < 256) de -> rc < 65536 ->
  payload_marshal (PLRejoin02 ty nid de rc) = Ok (spec_encode L_Rejoin02 [ty; id_val nid; id_val de; rc]).
Proof. exact rejoin02_is_spec. Qed.
Print Assumptions C06_rejoin02.

Theorem C06_rejoin1 : forall je de rc,
  length je = 8%nat -> length de = 8%nat ->
  Forall (fun b => b < 256) je -> Forall (fun b => b < 256) de -> rc < 65536 ->
  payload_marshal (PLRejoin1 1 je de rc) = Ok (spec_encode L_Rejoin1 [1; id_val je; id_val de; rc]).
Proof. exact rejoin1_is_spec. Qed.
Print Assumptions C06_rejoin1.

Theorem C06_joinaccept : forall jn nid da optneg rx2 rx1 rxd,
  jn < 2 ^ 24 -> length nid = 3%nat -> length da = 4%nat ->
  Forall (fun b => b < 256) nid -> Forall (fun b => b < 256) da -> rx2 < 16 -> rx1 < 8 -> rxd < 16 ->
  payload_marshal (PLJoinAccept jn nid da optneg rx2 rx1 rxd None) =
  Ok (spec_encode L_JoinAccept [jn; id_val nid; id_val da; spec_dlsettings optneg rx2 rx1; rxd]).
Proof. exact joinaccept_is_spec. Qed.
Print Assumptions C06_joinaccept.
(* FHDR: DevAddr | FCtrl | FCnt (16 LSB) | FOpts, with FOptsLen = the number of FOpts bytes that
   follow, whatever the header's internal (possibly stale) FOptsLen field holds *)
Theorem C06_fhdr : forall h opts,
  items_marshal (fopts h) = Ok opts -> (length opts <= 15)%nat ->
  length (devaddr h) = 4%nat -> Forall (fun b => b < 256) (devaddr h) ->
  fhdr_marshal h = Ok (spec_fhdr h opts).
Proof. exact fhdr_is_spec. Qed.
Print Assumptions C06_fhdr.
(* CFList: 5 x 24-bit frequencies / 100 Hz + type 0, or up to 6 x 16-bit channel masks (7th RFU) + type 1 *)
Theorem C06_cflist_channels : forall chs b,
  spec_cflist (mkCFList (CFPChannels chs) 0) = Some b -> cflist_marshal (mkCFList (CFPChannels chs) 0) = Ok b.
Proof. exact cflist_channels_is_spec. Qed.
Print Assumptions C06_cflist_channels.

Theorem C06_cflist_masks : forall ms b,
  spec_cflist (mkCFList (CFPMasks ms) 1) = Some b -> cflist_marshal (mkCFList (CFPMasks ms) 1) = Ok b.
Proof. exact cflist_masks_is_spec. Qed.
Print Assumptions C06_cflist_masks.
(* The decode direction of frame headers, join payloads and CFList is C01_roundtrip / C08_canonical. *)

(* non-vacuity: an in-range LinkADRReq meets the hypotheses and has the expected bytes *)
Example C06_example :
  wf_go (PLinkADRReq 5 3 (true :: true :: repeat false 14) 6 1) = true /\
  enc (PLinkADRReq 5 3 (true :: true :: repeat false 14) 6 1) = Ok [0x53; 0x03; 0x00; 0x61].
Proof. split; vm_compute; reflexivity. Qed.

(* Decode direction of the channel-mask CFList: the three octets after the six masks are RFU and
   do not reach the decoded value, which holds at most six masks (finding C06-2, fixed by e2c2b92). *)
Theorem C06_cflist_masks_rfu_ignored : forall a b,
  length a = 16%nat -> length b = 16%nat -> nth 15 a 0 = 1 -> nth 15 b 0 = 1 ->
  firstn 12 a = firstn 12 b -> cflist_unmarshal a = cflist_unmarshal b.
Proof. exact cflist_masks_rfu_ignored. Qed.
Print Assumptions C06_cflist_masks_rfu_ignored.

Theorem C06_cflist_masks_at_most_six : forall c l,
  cflist_unmarshal c = Ok l -> nth 15 c 0 = 1 ->
  exists ms, cf_payload l = CFPMasks ms /\ (length ms <= 6)%nat.
Proof. exact cflist_masks_at_most_six. Qed.
Print Assumptions C06_cflist_masks_at_most_six.
(* That the value decoded from ANY 16 octets of the channel-mask type is accepted by the encoder and
   encodes to the twelve mask octets followed by zero RFU octets is C16_cflist_masks_any_rfu
   (props/C16.v, Backend/JoinServerCFList.cflist_masks_decode); every run evaluates the same
   statement on observed output (Corr/C06.v, case CCFListDec). *)

(* Join-accept, decode direction: bits 7..4 of the RxDelay octet are RFU and do not reach the decoded
   value (finding C06-4, fixed by f9b46ea). *)
Theorem C06_joinaccept_rxdelay_rfu_ignored : forall j0 j1 j2 n2 n1 n0 a3 a2 a1 a0 dl rxd,
  joinaccept_unmarshal [j0; j1; j2; n2; n1; n0; a3; a2; a1; a0; dl; rxd] =
  joinaccept_unmarshal [j0; j1; j2; n2; n1; n0; a3; a2; a1; a0; dl; N.land rxd 15].
Proof. exact ja_rxdelay_rfu_ignored_12. Qed.
Print Assumptions C06_joinaccept_rxdelay_rfu_ignored.

Theorem C06_joinaccept_cflist_rxdelay_rfu_ignored : forall j0 j1 j2 n2 n1 n0 a3 a2 a1 a0 dl rxd cf,
  length cf = 16%nat ->
  joinaccept_unmarshal (j0 :: j1 :: j2 :: n2 :: n1 :: n0 :: a3 :: a2 :: a1 :: a0 :: dl :: rxd :: cf) =
  joinaccept_unmarshal (j0 :: j1 :: j2 :: n2 :: n1 :: n0 :: a3 :: a2 :: a1 :: a0 :: dl :: N.land rxd 15 :: cf).
Proof. exact ja_rxdelay_rfu_ignored_28. Qed.
Print Assumptions C06_joinaccept_cflist_rxdelay_rfu_ignored.

(* FHDR: more than 15 octets of FOpts are refused, whatever their number is modulo 256 (finding C06-5,
   fixed by 52b19d4: the length used to be narrowed to uint8 before the comparison). *)
Theorem C06_fhdr_fopts_too_long_refused : forall h opts,
  items_marshal (fopts h) = Ok opts -> (15 < length opts)%nat -> fhdr_marshal h = Err.
Proof. exact fhdr_too_long_refused. Qed.
Print Assumptions C06_fhdr_fopts_too_long_refused.
