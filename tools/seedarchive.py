#!/usr/bin/env python3
"""Copies confirmed seeded defects of one round into /verif/seeded/<Cxx><letter>/ :
   usage seedarchive.py <root> <round> <letter for a> <letter for b>
   (patch.diff, demo_test.go.txt, meta.json with the lead's confirmation parsed from seedcheck.log)."""
import sys, os, json, re, shutil
root, rnd, la, lb = sys.argv[1], int(sys.argv[2]), sys.argv[3], sys.argv[4]
# what the property's own check said the first time the seed was run (before any strengthening);
# "caught" = VIOLATION with input, "nfi" = VIOLATION no-failing-input-found, "missed" = exit 0
FIRST = {
 1: {"C04/b": "missed", "C06/a": "missed", "C07/b": "missed", "C08/a": "nfi", "C09/a": "missed", "C09/b": "nfi",
     "C10/a": "missed", "C10/b": "nfi", "C16/b": "missed"},
 2: {"C01/a": "nfi", "C01/b": "missed", "C03/b": "missed", "C05/b": "missed (C10 caught it)", "C06/b": "missed", "C08/a": "missed (C10 caught it)",
     "C11/b": "nfi", "C12/a": "missed", "C13/a": "missed", "C13/b": "missed", "C15/a": "missed", "C15/b": "missed", "C20/a": "missed"},
 3: {"C01/a": "missed", "C02/b": "missed (C05 caught it)", "C03/a": "missed", "C04/a": "missed", "C05/a": "nfi", "C05/b": "missed (C02 caught it)",
     "C06/b": "missed", "C08/a": "missed (C01 caught it)", "C09/a": "missed (C10 nfi)", "C09/b": "missed", "C10/a": "missed (C09 nfi)",
     "C10/b": "missed", "C11/a": "missed", "C12/a": "nfi", "C12/b": "missed", "C14/a": "missed (C15 caught it)", "C17/b": "missed"},
 4: {"C01/a": "missed", "C01/b": "missed", "C02/a": "missed", "C03/a": "missed (C05 caught it)", "C04/a": "missed", "C05/b": "missed (C10 nfi)",
     "C06/a": "missed", "C07/a": "missed", "C08/b": "missed (C10 caught it)", "C10/a": "missed", "C11/a": "missed", "C11/b": "missed",
     "C12/b": "missed", "C16/b": "missed", "C18/b": "missed", "C19/b": "missed"},
 5: {"C01/a": "missed", "C01/b": "missed", "C02/a": "missed", "C02/b": "missed", "C03/a": "missed", "C04/a": "missed", "C04/b": "missed",
     "C05/a": "missed", "C05/b": "missed (C10, C07 caught it)", "C06/a": "missed", "C06/b": "missed", "C07/a": "missed (C06 caught it)",
     "C08/a": "missed (C01 caught it)", "C08/b": "missed", "C09/a": "missed (C10 nfi)", "C09/b": "missed", "C10/a": "missed", "C11/a": "missed",
     "C12/a": "missed", "C12/b": "missed", "C13/a": "nfi", "C13/b": "missed (C12 caught it)", "C15/b": "missed", "C16/b": "missed",
     "C17/a": "missed", "C17/b": "missed", "C18/a": "missed", "C18/b": "missed", "C19/a": "missed", "C19/b": "missed", "C20/a": "missed"},
 7: {"C02/a": "missed", "C05/a": "missed (C01, C06 caught it)", "C07/a": "missed (C09 nfi)", "C08/a": "missed (C10 nfi)", "C09/a": "missed (C10 nfi)",
     "C10/a": "missed", "C11/a": "missed (C10 caught it)", "C12/a": "missed", "C13/a": "missed", "C14/a": "nfi", "C16/a": "missed", "C17/a": "missed",
     "C18/a": "missed (C10 nfi)"},
 6: {"C01/b": "missed", "C03/a": "missed", "C03/b": "missed", "C04/a": "missed", "C05/a": "missed", "C05/b": "missed (C10 nfi)",
     "C06/a": "missed", "C06/b": "missed", "C07/a": "missed", "C07/b": "missed", "C08/b": "missed (C10 nfi)", "C09/b": "missed",
     "C10/a": "missed", "C10/b": "missed", "C11/a": "missed", "C12/a": "missed", "C12/b": "missed (C15 caught it)", "C13/b": "missed",
     "C15/b": "missed", "C17/a": "missed", "C18/a": "missed (C10 nfi)", "C19/a": "missed", "C19/b": "missed", "C20/a": "missed", "C20/b": "missed"},
}
# seeds that violate none of the properties as stated (see DESIGN section 12); archived, not claimed
_386 = "extensionally equal to the original with a 64-bit int; differs only under GOARCH=386, where the unchanged library already fails its own suite (DESIGN section 1, Environment)"
NOT_CLAIMED = {(6, "C03/a"): _386, (6, "C06/a"): _386, (6, "C06/b"): _386, (6, "C07/a"): _386, (6, "C07/b"): _386, (6, "C11/a"): _386,
               (4, "C11/a"): "a rejected text leaves the receiver partly overwritten: C11 demands rejection (still given); no property speaks about the receiver after an error"}
# seeds whose precondition was removed by a later repair of /repo: the patch still applies, but the demonstration no
# longer fails (the patched tree is not defective any more); archived with the history, no longer run as a defect
_LEAF = "retired: relied on DataPayload / ProprietaryMACCommandPayload.MarshalBinary returning the value's own storage; since /repo 02a1cb6 (finding C10-5) these return copies, so the shortcut seeded here writes only into a private buffer and the demonstration passes"
NOT_CLAIMED.update({(7, "C17/a"): "the asynchronous transport of backend/client.go (answer taken from a non-empty HTTP acknowledgement body instead of HandleAnswer / redis): C17 speaks about the JSON types and key envelopes, not about the transport; the synchronous path, which c17 exercises, is unchanged",
                    (4, "C07/a"): _LEAF, (5, "C04/b"): _LEAF, (6, "C10/b"): _LEAF,
                    (6, "C15/a"): "retired: the unguarded index was reachable only for device channels outside the plan; since /repo cdfefd0 (finding C14-4) the planner drops those before any use, the demonstration passes"})
n = 0
for pid in sorted(os.listdir(root)):
    for v, letter in (("a", la), ("b", lb)):
        d = os.path.join(root, pid, v)
        if not (os.path.exists(os.path.join(d, "patch.diff")) and os.path.exists(os.path.join(d, "seedcheck.log"))):
            continue
        out = open(os.path.join(d, "seedcheck.log")).read().replace("\n\n", "\n")
        m = re.search(r"demo on clean tree \(must pass\)\nrc=(\d+)", out); clean = int(m.group(1)) if m else None
        m = re.search(r"demo on patched tree \(must fail\)\nrc=(\d+)", out); patched = int(m.group(1)) if m else None
        checks = []
        for c, body, rc in re.findall(r"== check (\w+) on patched tree\n(.*?)rc=(\d+)", out, re.S):
            checks.append({"check": c, "exit": int(rc), "violation": "VIOLATION" in body,
                           "no_failing_input_found": "no-failing-input-found" in body})
        if (clean != 0 or not patched) and not str(NOT_CLAIMED.get((rnd, "%s/%s" % (pid, v)), "")).startswith("retired"):
            print("NOT CONFIRMED", d); continue
        meta = json.load(open(os.path.join(d, "meta.json")))
        meta["round"] = rnd
        meta["confirmed_by_lead"] = {
            "how": "tools/seedcheck.sh: private worktree of /repo HEAD; demo passes on the clean tree, fails with the patch; `go build ./... && go test -vet=off -count=1 ./...` with the patch passes except backend TestAsyncClient; then ./check <id> (own property, then neighbouring properties when the own check is quiet) with VERIF_REPO/VERIF_COQDIR/VERIF_OUTDIR pointing at private copies",
            "demo_clean_rc": clean, "demo_patched_rc": patched, "checks": checks,
            "own_check_first_run": FIRST.get(rnd, {}).get("%s/%s" % (pid, v), "caught"),
        }
        nc = NOT_CLAIMED.get((rnd, "%s/%s" % (pid, v)))
        meta["claimed"] = nc is None
        if nc:
            meta["not_claimed_because"] = nc
        meta["demo_file"] = "demo_test.go.txt (copy to demo_dest as a _test.go file)"
        dst = os.path.join("/verif/seeded", pid + letter)
        os.makedirs(dst, exist_ok=True)
        shutil.copy(os.path.join(d, "patch.diff"), os.path.join(dst, "patch.diff"))
        shutil.copy(os.path.join(d, "demo_test.go"), os.path.join(dst, "demo_test.go.txt"))
        json.dump(meta, open(os.path.join(dst, "meta.json"), "w"), indent=1)
        n += 1
print("archived", n)
