(* Correspondence cases for C04: join-request / rejoin-request / join-accept
   MICs and join-accept encryption, against the model (LW.Sec.JoinAccept) and
   the specification (LW.Sec.JoinSpec).
   bit 0: model differs from the observed behaviour;
   bit 1: the observed behaviour is not the specified one. *)
From Coq Require Import List NArith ZArith Bool.
From LW Require Export Base.Outcome Base.Bytes Crypto.AES Crypto.CMAC Mac.Commands Mac.Stream Frame.Model Frame.Spec
     Sec.MIC Sec.JoinAccept Sec.JoinSpec Sec.WireMIC.
Import ListNotations.
Open Scope N_scope.

Inductive case :=
(* SetUplinkJoinMIC on a copy (MIC stored), ValidateUplinkJoinMIC on the frame as given *)
| CUpJoin (key : list N) (p : phy) (o_set : outcome (list N)) (o_val : outcome bool)
(* SetDownlinkJoinMIC / ValidateDownlinkJoinMIC (joinReqType, joinEUI, devNonce, key) *)
| CDownJoin (ty : N) (je : list N) (dn : N) (key : list N) (p : phy) (o_set : outcome (list N)) (o_val : outcome bool)
(* EncryptJoinAcceptPayload key on p; frame afterwards *)
| CEnc (key : list N) (p : phy) (o : outcome phy)
(* DecryptJoinAcceptPayload key on p; frame afterwards *)
| CDec (key : list N) (p : phy) (o : outcome phy)
(* Encrypt then Decrypt with the same key: p, final frame; [modulo] = compare modulo trailing all-zero masks *)
| CRound (modulo : bool) (key : list N) (p : phy) (o : outcome phy)
(* octets as received: UnmarshalBinary; ValidateUplinkJoinMIC *)
| CWireUp (key : list N) (bs : list N) (o : outcome bool)
(* octets as received: UnmarshalBinary; DecryptJoinAcceptPayload enckey (frame afterwards); ValidateDownlinkJoinMIC *)
| CWireAccept (ty : N) (je : list N) (dn : N) (key enckey : list N) (bs : list N) (o_dec : outcome phy) (o_val : outcome bool)
| CCmac (k m o : list N)
| CAesDec (k b o : list N).

Definition oeqb := outcome_eqb bytes_eqb.
Definition obeqb := outcome_eqb Bool.eqb.
Definition phyeqb := outcome_eqb phy_eqb.
Definition mh (p : phy) : N := mhdr_marshal (mtype p) (major p).

Definition wire_payload (pl : payload) : payload :=
  match pl with
  | PLJoinAccept jn nid da o rx2 rx1 rxd (Some l) => PLJoinAccept jn nid da o rx2 rx1 rxd (Some (wire_cflist l))
  | _ => pl
  end.
Definition wire_phy (p : phy) : phy := mkPHY (mtype p) (major p) (wire_payload (pl p)) (mic p).

(* the specified uplink join MIC of a frame, where the specification defines one *)
Definition spec_up (key : list N) (p : phy) : option (list N) :=
  match pl p with
  | PLJoinRequest je de dn => Some (spec_join_request_mic key (mh p) je de dn)
  | PLRejoin02 ty nid de rc => if (ty =? 0) || (ty =? 2) then Some (spec_rejoin02_mic key (mh p) ty nid de rc) else None
  | PLRejoin1 ty je de rc => if ty =? 1 then Some (spec_rejoin1_mic key (mh p) je de rc) else None
  | _ => None
  end.

Definition spec_down (ty : N) (je : list N) (dn : N) (key : list N) (p : phy) : option (list N) :=
  match pl p with
  | PLJoinAccept _ _ _ optneg _ _ _ _ =>
    match payload_marshal (pl p) with
    | Ok body => Some (if optneg then spec_join_accept_mic_11 key ty je dn (mh p) body
                       else spec_join_accept_mic_10 key (mh p) body)
    | _ => None
    end
  | _ => None
  end.

Definition mic_prop (spec : option (list N)) (carried : list N) (o_set : outcome (list N)) (o_val : outcome bool) : bool :=
  match spec with
  | Some s => oeqb o_set (Ok s) && obeqb o_val (Ok (bytes_eqb carried s))
  | None => negb (is_panic o_set) && negb (is_panic o_val)
  end.

Definition check (c : case) : N :=
  match c with
  | CUpJoin key p o_set o_val =>
    let m := calc_up_join_mic key p in
    code (oeqb m o_set && obeqb (do x <- m; Ok (bytes_eqb (mic p) x)) o_val)
         (mic_prop (spec_up key p) (mic p) o_set o_val)
  | CDownJoin ty je dn key p o_set o_val =>
    let m := calc_down_join_mic ty je dn key p in
    code (oeqb m o_set && obeqb (do x <- m; Ok (bytes_eqb (mic p) x)) o_val)
         (mic_prop (spec_down ty je dn key p) (mic p) o_set o_val)
  | CEnc key p o =>
    code (phyeqb (encrypt_join_accept key p) o)
         (match pl p, payload_marshal (pl p) with
          | PLJoinAccept _ _ _ _ _ _ _ _, Ok body =>
            match o with
            | Ok q =>
              match pl q with
              | PLData d =>
                let ct := d ++ mic q in
                bytes_eqb ct (spec_join_accept_ciphertext key body (mic p))
                && bytes_eqb (device_decrypt key ct) (body ++ mic p)      (* the device recovers payload | MIC *)
                && (mtype q =? mtype p) && (major q =? major p) && Nat.eqb (length (mic q)) 4
              | _ => false
              end
            | _ => false
            end
          | _, _ => is_err o
          end)
  | CDec key p o => code (phyeqb (decrypt_join_accept key p) o) (negb (is_panic o))
  | CRound modulo key p o =>
    code (phyeqb (do q <- encrypt_join_accept key p; decrypt_join_accept key q) o)
         (if spec_valid p && match pl p with PLJoinAccept _ _ _ _ _ _ _ _ => true | _ => false end
          then phyeqb o (Ok (if modulo then wire_phy p else p))
          else negb (is_panic o))
  | CWireUp key bs o =>
    code (obeqb (wire_validate_up_join key bs) o)
         (match o with
          | Ok b => let '(carried, specified) := wire_spec_up_join key bs in Bool.eqb b (bytes_eqb carried specified)
          | Err => true
          | _ => false
          end)
  | CWireAccept ty je dn key enckey bs o_dec o_val =>
    let m := wire_join_accept ty je dn key enckey bs in
    code (match m with
          | Ok (q, b) => phyeqb o_dec (Ok q) && obeqb o_val (Ok b)
          | _ =>
            (* the model stops at the first failing step; the harness reports the later ones as Err *)
            match (do p <- phy_unmarshal bs; decrypt_join_accept enckey p) with
            | Ok q => phyeqb o_dec (Ok q) && negb (is_ok o_val)
            | _ => negb (is_ok o_dec)
            end
          end)
         (* the decrypted payload is the octets the sender encrypted, and the verdict is
            (decrypted MIC = specification MIC over the MHDR octet as received and those octets) *)
         (match o_dec, o_val, wire_spec_join_accept ty je dn key enckey bs with
          | Ok q, Ok b, Some (body, carried, specified) =>
            Bool.eqb b (bytes_eqb carried specified)
            && oeqb (payload_marshal (pl q)) (Ok body) && bytes_eqb (mic q) carried
          | Ok q, Err, Some (body, carried, specified) => false   (* decoded, but its MIC cannot be checked *)
          | _, _, _ => negb (is_panic o_dec) && negb (is_panic o_val)
          end)
  | CCmac k m o => code (bytes_eqb (cmac k m) o) (Nat.eqb (length o) 16 && bytes_ok o)
  | CAesDec k b o =>
    let rks := expand_key k in
    code (bytes_eqb (aes_decrypt_rk rks b) o) (bytes_eqb (aes_encrypt_rk rks o) b && Nat.eqb (length o) 16)
  end.

Definition run_cases := run_with check.
