// Correspondence harness for C15 (channel-plan state machine, CFList,
// MAC-layer encodability of band outputs).
package main

import (
	"bytes"
	"fmt"
	"os"
	"reflect"
	"strings"
	"time"

	"github.com/brocaar/lorawan"
	"github.com/brocaar/lorawan/band"
	"verifharness/chanobs"
	"verifharness/internal/cases"
	"verifharness/internal/cq"
)

var versions = []string{band.LoRaWAN_1_0_0, band.LoRaWAN_1_0_1, band.LoRaWAN_1_0_2, band.LoRaWAN_1_0_3, band.LoRaWAN_1_0_4, band.LoRaWAN_1_1_0, "latest"}

func maskCoq(m lorawan.ChMask) string {
	s := make([]string, 16)
	for i, b := range m {
		s[i] = cq.Bool(b)
	}
	return cq.List(s)
}

// cflistCoq prints a *lorawan.CFList as `cflist` term ("" for nil).
func cflistCoq(cf *lorawan.CFList) string {
	if cf == nil {
		return ""
	}
	switch p := cf.Payload.(type) {
	case *lorawan.CFListChannelPayload:
		fs := make([]int64, 5)
		for i, f := range p.Channels {
			fs[i] = int64(f)
		}
		return "(CFChannels " + cq.Zs(fs) + ")"
	case *lorawan.CFListChannelMaskPayload:
		ms := make([]string, len(p.ChannelMasks))
		for i, m := range p.ChannelMasks {
			ms[i] = maskCoq(m)
		}
		return "(CFMasks " + cq.List(ms) + ")"
	}
	return "(CFMasks [[]])" // unknown payload type: cannot match the model
}

func optCoq(s string) string {
	if s == "" {
		return cq.None
	}
	return cq.Some(s)
}

func chanOut(k int, c chanobs.Chan) string { return chanobs.Out(k, c.Coq()) }

type gen struct {
	s      *cases.Set
	r      *cq.RNG
	seen   map[string]bool
	lo, hi uint32 // span of the own frequencies of the band being processed
}

// span of the frequencies a fresh instance of the band uses itself: uplink and
// downlink channels, RX2, ping-slot.
func ownSpan(cfg chanobs.Config) (uint32, uint32) {
	b := cfg.New()
	fs := []uint32{b.GetDefaults().RX2Frequency}
	for _, c := range chanobs.Uplinks(b) {
		fs = append(fs, c.Freq)
	}
	for _, c := range chanobs.Downlinks(b) {
		fs = append(fs, c.Freq)
	}
	lo, hi := fs[0], fs[0]
	for _, f := range fs {
		if f < lo {
			lo = f
		}
		if f > hi {
			hi = f
		}
	}
	return lo, hi
}

// history runs one history on the implementation and records the CHist case
// plus the cross-layer cases of the values the band now produces.
func (g *gen) history(tag string, cfg chanobs.Config, ops []chanobs.Op) {
	r := g.r
	b, kinds := chanobs.Replay(cfg, ops)
	steps := make([]string, len(ops))
	for i, o := range ops {
		steps[i] = cq.Tuple(o.Coq(), chanobs.Out(kinds[i], "tt"))
	}
	all := b.GetUplinkChannelIndices()
	n := len(all)
	var ups []string
	var upc []chanobs.Chan
	for i := 0; i < n; i++ {
		k, c := chanobs.UplinkChannel(b, i)
		ups = append(ups, chanOut(k, c))
		if k == chanobs.KOk {
			upc = append(upc, c)
		}
	}
	downs := chanobs.Downlinks(b)
	var cfs []string
	cfl := make([]*lorawan.CFList, len(versions))
	for i, v := range versions {
		var cf *lorawan.CFList
		k := chanobs.Call(func() error { cf = b.GetCFList(v); return nil })
		if k != chanobs.KOk {
			g.s.Fail(cases.GoFail{Key: fmt.Sprintf("panic:GetCFList:%s:%s", cfg.String(), v), What: "GetCFList panics",
				Replay: map[string]interface{}{"band": cfg.String(), "history": chanobs.OpsStrings(ops), "version": v}})
		}
		cfl[i] = cf
		cfs = append(cfs, optCoq(cflistCoq(cf)))
	}
	obs := fmt.Sprintf("(mkObs %s %s %s %s %s %s %s %s)", cq.Ints(all), cq.Ints(b.GetStandardUplinkChannelIndices()),
		cq.Ints(b.GetCustomUplinkChannelIndices()), cq.Ints(b.GetEnabledUplinkChannelIndices()), cq.Ints(b.GetDisabledUplinkChannelIndices()),
		cq.List(ups), chanobs.ChanList(downs), cq.List(cfs))

	// probes: indices (valid, boundary, negative, huge), lookups by frequency and by frequency + DR
	var probes []string
	var probeTxt []string
	idxs := []int{-1, n, n - 1, 0, len(downs), len(downs) - 1, chanobs.WeirdInts[r.Intn(len(chanobs.WeirdInts))], chanobs.RandIndex(r, n), chanobs.RandIndex(r, n)}
	for _, i := range idxs {
		k, c := chanobs.UplinkChannel(b, i)
		probes = append(probes, fmt.Sprintf("PUp %s %s", cq.Z(int64(i)), chanOut(k, c)))
		probeTxt = append(probeTxt, fmt.Sprintf("GetUplinkChannel(%d) -> %s", i, chanobs.KindName(k)))
		k, c = chanobs.DownlinkChannel(b, i)
		probes = append(probes, fmt.Sprintf("PDown %s %s", cq.Z(int64(i)), chanOut(k, c)))
		probeTxt = append(probeTxt, fmt.Sprintf("GetDownlinkChannel(%d) -> %s", i, chanobs.KindName(k)))
		var v int
		k = chanobs.Call(func() error { var err error; v, err = b.GetTXPowerOffset(i); return err })
		probes = append(probes, fmt.Sprintf("PTxp %s %s", cq.Z(int64(i)), chanobs.Out(k, cq.Z(int64(v)))))
		probeTxt = append(probeTxt, fmt.Sprintf("GetTXPowerOffset(%d) -> %s", i, chanobs.KindName(k)))
	}
	for j := 0; j < 8; j++ {
		var f uint32
		if len(upc) > 0 && j < 6 {
			f = upc[r.Intn(len(upc))].Freq
		} else {
			f = chanobs.RandFreq(r, upc)
		}
		d := r.Bool()
		var i int
		k := chanobs.Call(func() error { var err error; i, err = b.GetUplinkChannelIndex(f, d); return err })
		probes = append(probes, fmt.Sprintf("PIdx %s %s %s", cq.Z(int64(f)), cq.Bool(d), chanobs.Out(k, cq.Z(int64(i)))))
		probeTxt = append(probeTxt, fmt.Sprintf("GetUplinkChannelIndex(%d,%v) -> %s %d", f, d, chanobs.KindName(k), i))
		dr := []int{0, 3, 5, 6, 7, -1, 15, 100}[r.Intn(8)]
		k = chanobs.Call(func() error { var err error; i, err = b.GetUplinkChannelIndexForFrequencyDR(f, dr); return err })
		probes = append(probes, fmt.Sprintf("PIdxDR %s %s %s", cq.Z(int64(f)), cq.Z(int64(dr)), chanobs.Out(k, cq.Z(int64(i)))))
		probeTxt = append(probeTxt, fmt.Sprintf("GetUplinkChannelIndexForFrequencyDR(%d,%d) -> %s %d", f, dr, chanobs.KindName(k), i))
	}
	worst := chanobs.KOk
	for _, k := range kinds {
		if k > worst {
			worst = k
		}
	}
	g.s.Add(cases.Case{
		Term: fmt.Sprintf("CHist %d%%nat %s %s %s", cfg.Index, cq.List(steps), obs, cq.List(probes)),
		Key:  fmt.Sprintf("hist:%s:%s:%s", cfg.String(), tag, chanobs.Hash(chanobs.OpsCoq(ops), probes)),
		Kind: "history-" + tag, Nontrivial: len(ops) > 0,
		Replay: map[string]interface{}{"api": "AddChannel/Disable/Enable + accessors", "band": cfg.String(), "history": chanobs.OpsStrings(ops),
			"call_outcomes": kindNames(kinds), "probes": probeTxt, "channels": n}})

	// ---- band outputs through the MAC-layer encoders ------------------------
	name := string(cfg.Name)
	g.lo, g.hi = ownSpan(cfg)
	for i, c := range upc {
		if c.MinDR >= 0 && c.MinDR <= 255 && c.MaxDR >= 0 && c.MaxDR <= 255 {
			g.newChannel(name, uint8(i), c)
		}
	}
	for i, c := range downs {
		g.dlChannel(name, uint8(i), c)
	}
	d := b.GetDefaults()
	g.rxParam(name, d.RX2Frequency, d.RX2DataRate)
	var pf uint32
	if chanobs.Call(func() error {
		var err error
		pf, err = b.GetPingSlotFrequency(lorawan.DevAddr{1, 2, 3, byte(r.Intn(256))}, time.Duration(r.Intn(1<<20))*time.Second)
		return err
	}) == chanobs.KOk {
		g.pingSlot(name, pf, d.RX2DataRate)
		g.beacon(name, pf)
	}
	for i, cf := range cfl {
		if cf != nil {
			g.cflist(cfg, versions[i], ops, cf)
		}
	}
}

func kindNames(ks []int) []string {
	s := make([]string, len(ks))
	for i, k := range ks {
		s[i] = chanobs.KindName(k)
	}
	return s
}

func who(own bool) string {
	if own {
		return "own"
	}
	return "user"
}

// freqCase records one encoder call; dec is nil when the encoder failed.
func (g *gen) freqCase(bandName, cmd string, kind int, ins []int64, own bool, enc []byte, encErr error, dec []int64, decErr error, freq uint32) {
	key := fmt.Sprintf("xl:%s:%s:%s:freq=%d", bandName, cmd, who(own), freq)
	full := key + fmt.Sprint(ins)
	if g.seen[full] {
		return
	}
	g.seen[full] = true
	oe, od := cq.Err, cq.Err
	if encErr == nil {
		oe = cq.Ok(cq.Bytes(enc))
		if decErr == nil {
			od = cq.Ok(cq.Zs(dec))
		}
	}
	g.s.Add(cases.Case{
		Term: fmt.Sprintf("CFreq %d %s %s %s %s %s %s", kind, cq.Zs(ins), cq.Bool(own), cq.Z(int64(g.lo)), cq.Z(int64(g.hi)), oe, od),
		Key:  key, Kind: "encode-" + cmd + "-" + who(own), Nontrivial: true,
		Replay: map[string]interface{}{"api": "lorawan." + cmd + "Payload.MarshalBinary/UnmarshalBinary", "band": bandName, "fields": ins,
			"band_own_frequency": own, "band_own_span": []uint32{g.lo, g.hi}, "encode_error": fmt.Sprint(encErr), "decoded": dec}})
}

func (g *gen) newChannel(bandName string, idx uint8, c chanobs.Chan) {
	p := lorawan.NewChannelReqPayload{ChIndex: idx, Freq: c.Freq, MaxDR: uint8(c.MaxDR), MinDR: uint8(c.MinDR)}
	b, err := p.MarshalBinary()
	var q lorawan.NewChannelReqPayload
	var derr error
	if err == nil {
		derr = q.UnmarshalBinary(b)
	}
	g.freqCase(bandName, "NewChannelReq", 1, []int64{int64(idx), int64(c.Freq), int64(c.MaxDR), int64(c.MinDR)}, !c.Custom, b, err,
		[]int64{int64(q.ChIndex), int64(q.Freq), int64(q.MaxDR), int64(q.MinDR)}, derr, c.Freq)
}

func (g *gen) dlChannel(bandName string, idx uint8, c chanobs.Chan) {
	p := lorawan.DLChannelReqPayload{ChIndex: idx, Freq: c.Freq}
	b, err := p.MarshalBinary()
	var q lorawan.DLChannelReqPayload
	var derr error
	if err == nil {
		derr = q.UnmarshalBinary(b)
	}
	g.freqCase(bandName, "DLChannelReq", 2, []int64{int64(idx), int64(c.Freq)}, !c.Custom, b, err, []int64{int64(q.ChIndex), int64(q.Freq)}, derr, c.Freq)
}

func (g *gen) rxParam(bandName string, f uint32, dr int) {
	p := lorawan.RXParamSetupReqPayload{Frequency: f, DLSettings: lorawan.DLSettings{RX2DataRate: uint8(dr)}}
	b, err := p.MarshalBinary()
	var q lorawan.RXParamSetupReqPayload
	var derr error
	if err == nil {
		derr = q.UnmarshalBinary(b)
	}
	g.freqCase(bandName, "RXParamSetupReq", 0, []int64{int64(f), int64(dr)}, true, b, err, []int64{int64(q.Frequency), int64(q.DLSettings.RX2DataRate)}, derr, f)
}

func (g *gen) pingSlot(bandName string, f uint32, dr int) {
	p := lorawan.PingSlotChannelReqPayload{Frequency: f, DR: uint8(dr)}
	b, err := p.MarshalBinary()
	var q lorawan.PingSlotChannelReqPayload
	var derr error
	if err == nil {
		derr = q.UnmarshalBinary(b)
	}
	g.freqCase(bandName, "PingSlotChannelReq", 4, []int64{int64(f), int64(dr)}, true, b, err, []int64{int64(q.Frequency), int64(q.DR)}, derr, f)
}

func (g *gen) beacon(bandName string, f uint32) {
	p := lorawan.BeaconFreqReqPayload{Frequency: f}
	b, err := p.MarshalBinary()
	var q lorawan.BeaconFreqReqPayload
	var derr error
	if err == nil {
		derr = q.UnmarshalBinary(b)
	}
	g.freqCase(bandName, "BeaconFreqReq", 3, []int64{int64(f)}, true, b, err, []int64{int64(q.Frequency)}, derr, f)
}

// cflist: CFList.MarshalBinary / UnmarshalBinary, and the same CFList inside a
// JoinAcceptPayload (checked here: the join-accept carries exactly the CFList
// bytes and decodes to the same CFList as the stand-alone decoder).
func (g *gen) cflist(cfg chanobs.Config, version string, ops []chanobs.Op, cf *lorawan.CFList) {
	term := cflistCoq(cf)
	shape := "channels"
	if cp, ok := cf.Payload.(*lorawan.CFListChannelPayload); ok {
		for _, f := range cp.Channels {
			if f/100 >= 1<<24 {
				shape = "channels:above-24bit"
			}
		}
	}
	if mp, ok := cf.Payload.(*lorawan.CFListChannelMaskPayload); ok {
		shape = "masks:last-nonzero"
		if len(mp.ChannelMasks) > 0 && mp.ChannelMasks[len(mp.ChannelMasks)-1] == (lorawan.ChMask{}) {
			shape = "masks:trailing-zero-mask"
		}
	}
	key := fmt.Sprintf("cflist-rt:%s:%s:%s", cfg.Name, shape, chanobs.Hash(term))
	if g.seen[key] {
		return
	}
	g.seen[key] = true
	rp := map[string]interface{}{"api": "GetCFList -> CFList.MarshalBinary/UnmarshalBinary, JoinAcceptPayload", "band": cfg.String(),
		"history": chanobs.OpsStrings(ops), "version": version, "cflist": term}
	b, err := cf.MarshalBinary()
	oe, od := cq.Err, cq.Err
	if err == nil {
		oe = cq.Ok(cq.Bytes(b))
		var back lorawan.CFList
		if derr := back.UnmarshalBinary(b); derr == nil {
			od = cq.Ok(cflistCoq(&back))
		}
		// inside a join-accept
		ja := lorawan.JoinAcceptPayload{JoinNonce: 7, DevAddr: lorawan.DevAddr{1, 2, 3, 4}, RXDelay: 1, CFList: cf}
		jb, jerr := ja.MarshalBinary()
		if jerr != nil || len(jb) != 28 || !bytes.Equal(jb[12:], b) {
			g.s.Fail(cases.GoFail{Key: "joinaccept:" + key, What: "JoinAcceptPayload does not carry the CFList bytes", Replay: rp})
		} else {
			var jback lorawan.JoinAcceptPayload
			if uerr := jback.UnmarshalBinary(false, jb); uerr != nil || jback.CFList == nil || !reflect.DeepEqual(*jback.CFList, back) {
				g.s.Fail(cases.GoFail{Key: "joinaccept:" + key, What: "JoinAcceptPayload decodes the CFList differently from CFList.UnmarshalBinary", Replay: rp})
			}
		}
	}
	g.s.Add(cases.Case{Term: fmt.Sprintf("CCFList %s %s %s %s %s", term, cq.Z(int64(g.lo)), cq.Z(int64(g.hi)), oe, od), Key: key, Kind: "cflist-" + strings.Split(shape, ":")[0], Nontrivial: true, Replay: rp})
}

func main() {
	dir, seed, thorough := cases.Args()
	r := cq.NewRNG(seed)
	s := cases.New("C15", dir, "LW.Corr.C15",
		"14 bands (x repeater x dwell) x histories of up to 30 AddChannel/Disable/Enable calls with arbitrary ints (negative, huge, boundary) and frequencies (duplicates, zero, non-multiples of 100 Hz, 2.4 GHz, 32-bit extremes), each call under recover; after each history every accessor is read (all index lists, every uplink/downlink channel with its flags, GetCFList for 7 versions, index probes, lookups by frequency and frequency+DR); every frequency / DR / CFList the band then produces goes through the real RXParamSetupReq, NewChannelReq, DLChannelReq, PingSlotChannelReq, BeaconFreqReq, CFList and JoinAccept encoders and decoders. Non-trivial = history non-empty (CHist) or any encoder case; distinct = distinct printed case")
	g := &gen{s: s, r: r, seen: map[string]bool{}}
	cfgs := chanobs.Configs()
	byName := func(n band.Name) chanobs.Config {
		for _, c := range cfgs {
			if c.Name == n {
				return c
			}
		}
		panic("no config")
	}

	// ---- witnesses of the findings, always first ----------------------------
	// C15-1 (fixed): negative indices
	g.history("witness-negative-index", byName(band.EU868), []chanobs.Op{chanobs.Disable(-1), chanobs.Enable(-1), chanobs.Add(867100000, 0, 5), chanobs.Disable(3)})
	// C15-2: ISM2400's own frequencies (RX2, ping-slot, downlink channels) and a CFList channel
	g.history("witness-ism2400", byName(band.ISM2400), []chanobs.Op{chanobs.Add(2450000000, 0, 7)})
	// C15-3: channel-mask CFList whose last mask is all-zero
	{
		var ops []chanobs.Op
		for i := 64; i < 72; i++ {
			ops = append(ops, chanobs.Disable(i))
		}
		g.history("witness-trailing-zero-mask", byName(band.US915), ops)
	}
	// C15-4: user channel between 1.2 GHz and 2^24*100 Hz through NewChannelReq
	g.history("witness-newchannel-1300mhz", byName(band.EU868), []chanobs.Op{chanobs.Add(1300000000, 0, 5)})

	rounds := 10
	if thorough {
		rounds = 300
	}
	for round := 0; round < rounds; round++ {
		for _, name := range chanobs.Names {
			cfg := cfgs[byName(name).Index+r.Intn(4)]
			if round == 0 {
				g.history("fresh", cfg, nil)
			}
			for _, m := range []int{6, 30} {
				g.history(fmt.Sprintf("random%d", m), cfg, chanobs.RandHistory(r, cfg, m))
			}
		}
	}
	if err := s.Finish(); err != nil {
		fmt.Fprintln(os.Stderr, err)
		os.Exit(2)
	}
}
