// AddChannel histories shared by the C12 / C13 harnesses: short sequences of
// band.AddChannel(frequency, minDR, maxDR) calls applied to a fresh band
// object, printed as Gallina `list (Z * Z * Z)`.
package bandcfg

import (
	"fmt"
	"strings"

	"github.com/brocaar/lorawan/band"
)

// Op is one AddChannel(frequency, minDR, maxDR) call.
type Op struct {
	Freq         uint32
	MinDR, MaxDR int
}

// Ops prints a history as a Gallina list of triples.
func Ops(ops []Op) string {
	items := make([]string, len(ops))
	for i, o := range ops {
		items[i] = fmt.Sprintf("(%d%%Z, %s%%Z, %s%%Z)", o.Freq, Z(int64(o.MinDR)), Z(int64(o.MaxDR)))
	}
	return "[" + strings.Join(items, "; ") + "]"
}

// OpsKey is the stable, human-readable form used in case keys: "868300000/6/6,867100000/0/5".
func OpsKey(ops []Op) string {
	items := make([]string, len(ops))
	for i, o := range ops {
		items[i] = fmt.Sprintf("%d/%d/%d", o.Freq, o.MinDR, o.MaxDR)
	}
	return strings.Join(items, ",")
}

// OpsReplay is the replay form of a history.
func OpsReplay(ops []Op) []string {
	items := make([]string, len(ops))
	for i, o := range ops {
		items[i] = fmt.Sprintf("AddChannel(%d, %d, %d)", o.Freq, o.MinDR, o.MaxDR)
	}
	return items
}

// Apply runs the history on b and reports, per call, whether it returned an error
// (printed as a Gallina `list bool`).
func Apply(b band.Band, ops []Op) (errs []bool, printed string) {
	items := make([]string, len(ops))
	for i, o := range ops {
		err := b.AddChannel(o.Freq, o.MinDR, o.MaxDR)
		errs = append(errs, err != nil)
		items[i] = Bool(err != nil)
	}
	return errs, "[" + strings.Join(items, "; ") + "]"
}

// UplinkRuns returns the maximal runs [lo, hi] of consecutive indices 0..15 that are
// defined data-rates usable for uplink (decided through the public API:
// GetDataRate(i) succeeds and GetDataRateIndex(true, that) == i).
func UplinkRuns(b band.Band) [][2]int {
	var runs [][2]int
	open := false
	for dr := 0; dr <= 16; dr++ {
		ok := false
		if dr <= 15 {
			if d, err := b.GetDataRate(dr); err == nil {
				if i, err := b.GetDataRateIndex(true, d); err == nil && i == dr {
					ok = true
				}
			}
		}
		switch {
		case ok && !open:
			runs = append(runs, [2]int{dr, dr})
			open = true
		case ok:
			runs[len(runs)-1][1] = dr
		default:
			open = false
		}
	}
	return runs
}

// RNG is the part of cq.RNG the generators need.
type RNG interface{ Intn(n int) int }

// RandomRange draws a DR range inside one run of defined uplink data-rates; single-DR ranges
// (also at the very top / bottom of a run) are frequent.
func RandomRange(r RNG, runs [][2]int) (int, int) {
	run := runs[r.Intn(len(runs))]
	n := run[1] - run[0] + 1
	switch r.Intn(5) {
	case 0:
		return run[1], run[1]
	case 1:
		return run[0], run[0]
	case 2:
		return run[0], run[1]
	}
	lo := run[0] + r.Intn(n)
	hi := lo + r.Intn(run[1]-lo+1)
	return lo, hi
}

// UplinkFrequencies lists the frequencies of the current uplink channels of b.
func UplinkFrequencies(b band.Band) []uint32 {
	var out []uint32
	for _, i := range b.GetUplinkChannelIndices() {
		if c, err := b.GetUplinkChannel(i); err == nil {
			out = append(out, c.Frequency)
		}
	}
	return out
}

// RandomHistory draws n AddChannel calls for a band whose default uplink frequencies are
// base: about 40% of the calls repeat a frequency that is already a channel (default or
// added earlier) with a freshly drawn DR range, the others use a new frequency on the
// 200 kHz raster above the first default channel.
func RandomHistory(r RNG, base []uint32, runs [][2]int, n int) []Op {
	freqs := append([]uint32{}, base...)
	var ops []Op
	for k := 0; k < n; k++ {
		var f uint32
		if len(freqs) > 0 && r.Intn(5) < 2 {
			f = freqs[r.Intn(len(freqs))]
		} else {
			f0 := uint32(868100000)
			if len(base) > 0 {
				f0 = base[0]
			}
			f = f0 + uint32(1+r.Intn(40))*200000
		}
		lo, hi := RandomRange(r, runs)
		ops = append(ops, Op{f, lo, hi})
		freqs = append(freqs, f)
	}
	return ops
}

// ChanOp is one channel-plan call: AddChannel ('A'), DisableUplinkChannelIndex ('D') or
// EnableUplinkChannelIndex ('E').
type ChanOp struct {
	Kind         byte
	Freq         uint32
	MinDR, MaxDR int
	Index        int
}

func AddOp(f uint32, lo, hi int) ChanOp { return ChanOp{Kind: 'A', Freq: f, MinDR: lo, MaxDR: hi} }
func DisableOp(i int) ChanOp            { return ChanOp{Kind: 'D', Index: i} }
func EnableOp(i int) ChanOp             { return ChanOp{Kind: 'E', Index: i} }

// ChanOps prints a history as a Gallina `list chan_op` (Band/Lookup.v).
func ChanOps(ops []ChanOp) string {
	items := make([]string, len(ops))
	for i, o := range ops {
		switch o.Kind {
		case 'A':
			items[i] = fmt.Sprintf("OpAdd %d%%Z %s%%Z %s%%Z", o.Freq, Z(int64(o.MinDR)), Z(int64(o.MaxDR)))
		case 'D':
			items[i] = fmt.Sprintf("OpDisable %s%%Z", Z(int64(o.Index)))
		default:
			items[i] = fmt.Sprintf("OpEnable %s%%Z", Z(int64(o.Index)))
		}
	}
	return "[" + strings.Join(items, "; ") + "]"
}

// ChanOpsKey is the compact form used in case keys: "add868300000/6/6,dis0,en5".
func ChanOpsKey(ops []ChanOp) string {
	items := make([]string, len(ops))
	for i, o := range ops {
		switch o.Kind {
		case 'A':
			items[i] = fmt.Sprintf("add%d/%d/%d", o.Freq, o.MinDR, o.MaxDR)
		case 'D':
			items[i] = fmt.Sprintf("dis%d", o.Index)
		default:
			items[i] = fmt.Sprintf("en%d", o.Index)
		}
	}
	return strings.Join(items, ",")
}

// ChanOpsReplay is the replay form of a history.
func ChanOpsReplay(ops []ChanOp) []string {
	items := make([]string, len(ops))
	for i, o := range ops {
		switch o.Kind {
		case 'A':
			items[i] = fmt.Sprintf("AddChannel(%d, %d, %d)", o.Freq, o.MinDR, o.MaxDR)
		case 'D':
			items[i] = fmt.Sprintf("DisableUplinkChannelIndex(%d)", o.Index)
		default:
			items[i] = fmt.Sprintf("EnableUplinkChannelIndex(%d)", o.Index)
		}
	}
	return items
}

// ApplyChanOps runs the history on b; per call: did it return an error.
func ApplyChanOps(b band.Band, ops []ChanOp) []bool {
	var errs []bool
	for _, o := range ops {
		var err error
		switch o.Kind {
		case 'A':
			err = b.AddChannel(o.Freq, o.MinDR, o.MaxDR)
		case 'D':
			err = b.DisableUplinkChannelIndex(o.Index)
		default:
			err = b.EnableUplinkChannelIndex(o.Index)
		}
		errs = append(errs, err != nil)
	}
	return errs
}

// Bools prints a Gallina `list bool`.
func Bools(bs []bool) string {
	items := make([]string, len(bs))
	for i, b := range bs {
		items[i] = Bool(b)
	}
	return "[" + strings.Join(items, "; ") + "]"
}

// RandomChanOps draws n calls for a band that currently has nch uplink channels with the
// frequencies base: AddChannel (repeated or new frequency; refused by bands without extra
// channels), Disable / Enable of a valid index, now and then of the index one past the end.
func RandomChanOps(r RNG, base []uint32, runs [][2]int, extra bool, nch, n int) []ChanOp {
	freqs := append([]uint32{}, base...)
	var ops []ChanOp
	for k := 0; k < n; k++ {
		w := r.Intn(10)
		switch {
		case extra && w < 4, !extra && w == 0:
			a := RandomHistory(r, freqs, runs, 1)[0]
			ops = append(ops, AddOp(a.Freq, a.MinDR, a.MaxDR))
			if extra {
				freqs = append(freqs, a.Freq)
				nch++
			}
		case w < 8:
			i := r.Intn(nch + 1)
			if r.Intn(8) != 0 && i == nch {
				i = 0
			}
			ops = append(ops, DisableOp(i))
		default:
			ops = append(ops, EnableOp(r.Intn(nch)))
		}
	}
	return ops
}
