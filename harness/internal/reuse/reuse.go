// Package reuse decodes every frame a harness handles a second time, into a receiver that lives
// through the whole run and that the "application" keeps working with between frames (MAC-command
// decoding, decryption with some key). A decoder's result must not depend on what its receiver held
// before: UnmarshalBinary documents none of that.
package reuse

import (
	"fmt"

	"github.com/brocaar/lorawan"
	"verifharness/internal/cases"
	"verifharness/internal/cq"
	"verifharness/internal/framefmt"
)

type Receiver struct {
	phy  lorawan.PHYPayload
	prev string
	N    int
}

// Fresh decodes b into a new PHYPayload and returns the outcome in the format the Corr modules use.
func Fresh(b []byte) (q lorawan.PHYPayload, out string) {
	defer func() {
		if r := recover(); r != nil {
			out = cq.Panic
		}
	}()
	if err := q.UnmarshalBinary(append([]byte{}, b...)); err != nil {
		return q, cq.Err
	}
	return q, cq.Ok(framefmt.Phy(q, framefmt.DecodedFOptsLen(b)))
}

// Decode decodes b into the long-lived receiver and reports a Go-side failure when the outcome is not
// `fresh` (the outcome of decoding b into a new value, as Fresh formats it).
func (rc *Receiver) Decode(s *cases.Set, r *cq.RNG, b []byte, fresh string) {
	rc.N++
	got := cq.Err
	func() {
		defer func() {
			if r := recover(); r != nil {
				got = cq.Panic
			}
		}()
		if err := rc.phy.UnmarshalBinary(append([]byte{}, b...)); err == nil {
			got = cq.Ok(framefmt.Phy(rc.phy, framefmt.DecodedFOptsLen(b)))
		}
	}()
	if got != fresh {
		s.Fail(cases.GoFail{Key: fmt.Sprintf("reused-receiver:%x", b),
			What:   "decoding into a PHYPayload that held another frame gives a different outcome than decoding into a new one",
			Replay: map[string]interface{}{"bytes": fmt.Sprintf("%x", b), "into_new_value": clip(fresh), "into_used_value": clip(got), "receiver_held_before": rc.prev}})
	}
	rc.prev = fmt.Sprintf("%x", b)
	// what an application does with a received frame before the next one arrives
	func() {
		defer func() { _ = recover() }()
		switch r.Intn(4) {
		case 0:
			_ = rc.phy.DecodeFOptsToMACCommands()
			_ = rc.phy.DecodeFRMPayloadToMACCommands()
			rc.prev += " then DecodeFOptsToMACCommands, DecodeFRMPayloadToMACCommands"
		case 1:
			var k lorawan.AES128Key
			copy(k[:], r.Bytes(16))
			_ = rc.phy.DecryptFRMPayload(k)
			rc.prev += " then DecryptFRMPayload"
		case 2:
			var k lorawan.AES128Key
			copy(k[:], r.Bytes(16))
			_ = rc.phy.DecryptFOpts(k)
			rc.prev += " then DecryptFOpts"
		}
	}()
}

func clip(x string) string {
	if len(x) > 300 {
		return x[:300] + "…"
	}
	return x
}
