(* AES key wrap (RFC 3394, default initial value A6A6A6A6A6A6A6A6) over the
   Gallina AES-128.  Model file: definitions and the RFC's test vector; the
   round-trip and length theorems are in KeyWrapProofs.v.

   The plaintext is cut into n = length / 8 blocks of 8 bytes (RFC: n >= 2,
   length a multiple of 8).  Totality: a trailing partial block is ignored by
   [wrap] (the Go library github.com/NickBall/go-aes-key-wrap returns an error
   there; callers in the repository only pass 16-byte keys), and [unwrap]
   looks at the first 8 * (length / 8) bytes only, with n = length / 8 - 1,
   exactly as the Go library computes n (the Go library panics on inputs
   shorter than 8 bytes; the model returns a value there). *)
From Coq Require Import List NArith Bool Arith.
From LW Require Import Base.Outcome Base.Bytes Crypto.AES.
Import ListNotations.
Open Scope N_scope.

Definition default_iv : list N := [0xA6; 0xA6; 0xA6; 0xA6; 0xA6; 0xA6; 0xA6; 0xA6].

(* [n] consecutive 8-byte blocks of [l] *)
Fixpoint chunks8 (n : nat) (l : list N) : list (list N) :=
  match n with
  | O => []
  | S n' => firstn 8 l :: chunks8 n' (skipn 8 l)
  end.

(* one step of the wrapping process, RFC 3394 2.2.1 step 2:
   B = AES(K, A | R[i]); A = MSB64(B) xor t; R[i] = LSB64(B) *)
Definition wrap_step (rks : list (list N)) (a : list N) (t : N) (r : list N) : list N * list N :=
  let b := aes_encrypt_rk rks (a ++ r) in
  (xor_bytes (firstn 8 b) (be_bytes 8 t), skipn 8 b).

(* 2.2.2 step 2: B = AES-1(K, (A xor t) | R[i]); A = MSB64(B); R[i] = LSB64(B) *)
Definition unwrap_step (rks : list (list N)) (a : list N) (t : N) (r : list N) : list N * list N :=
  let b := aes_decrypt_rk rks (xor_bytes a (be_bytes 8 t) ++ r) in
  (firstn 8 b, skipn 8 b).

(* i = 1..n for a fixed j; [t] is the counter value of the first block *)
Fixpoint wrap_pass (rks : list (list N)) (a : list N) (t : N) (rs : list (list N))
  : list N * list (list N) :=
  match rs with
  | [] => (a, [])
  | r :: rs' =>
    let '(a1, r1) := wrap_step rks a t r in
    let '(a2, rs2) := wrap_pass rks a1 (t + 1) rs' in
    (a2, r1 :: rs2)
  end.

(* i = n..1 for a fixed j: the blocks after the first are undone first *)
Fixpoint unwrap_pass (rks : list (list N)) (a : list N) (t : N) (rs : list (list N))
  : list N * list (list N) :=
  match rs with
  | [] => (a, [])
  | r1 :: rs2 =>
    let '(a1, rs') := unwrap_pass rks a (t + 1) rs2 in
    let '(a0, r) := unwrap_step rks a1 t r1 in
    (a0, r :: rs')
  end.

(* [k] passes j, j+1, ...; t = n*j + i *)
Fixpoint wrap_passes (k : nat) (rks : list (list N)) (n j : N) (a : list N) (rs : list (list N))
  : list N * list (list N) :=
  match k with
  | O => (a, rs)
  | S k' =>
    let '(a', rs') := wrap_pass rks a (n * j + 1) rs in
    wrap_passes k' rks n (j + 1) a' rs'
  end.

(* undoes passes j+k-1 down to j *)
Fixpoint unwrap_passes (k : nat) (rks : list (list N)) (n j : N) (a : list N) (rs : list (list N))
  : list N * list (list N) :=
  match k with
  | O => (a, rs)
  | S k' =>
    let '(a', rs') := unwrap_passes k' rks n (j + 1) a rs in
    unwrap_pass rks a' (n * j + 1) rs'
  end.

Definition wrap_rk (rks : list (list N)) (iv plain : list N) : list N :=
  let n := (length plain / 8)%nat in
  let '(a, rs) := wrap_passes 6 rks (N.of_nat n) 0 iv (chunks8 n plain) in
  a ++ concat rs.

Definition unwrap_raw_rk (rks : list (list N)) (data : list N) : list N * list N :=
  let n := (length data / 8 - 1)%nat in
  let '(a, rs) := unwrap_passes 6 rks (N.of_nat n) 0 (firstn 8 data) (chunks8 n (skipn 8 data)) in
  (a, concat rs).

Definition wrap (kek plain : list N) : list N := wrap_rk (expand_key kek) default_iv plain.

(* (recovered initial value, recovered key data) before the integrity check *)
Definition unwrap_raw (kek data : list N) : list N * list N := unwrap_raw_rk (expand_key kek) data.

Definition unwrap (kek data : list N) : option (list N) :=
  let '(iv, plain) := unwrap_raw kek data in
  if bytes_eqb iv default_iv then Some plain else None.

(* ---- RFC 3394 section 4.1: 128 bits of key data with a 128-bit KEK ---- *)
Definition rfc3394_kek : list N :=
  [0x00; 0x01; 0x02; 0x03; 0x04; 0x05; 0x06; 0x07; 0x08; 0x09; 0x0a; 0x0b; 0x0c; 0x0d; 0x0e; 0x0f].
Definition rfc3394_key : list N :=
  [0x00; 0x11; 0x22; 0x33; 0x44; 0x55; 0x66; 0x77; 0x88; 0x99; 0xaa; 0xbb; 0xcc; 0xdd; 0xee; 0xff].
Definition rfc3394_wrapped : list N :=
  [0x1f; 0xa6; 0x8b; 0x0a; 0x81; 0x12; 0xb4; 0x47;
   0xae; 0xf3; 0x4b; 0xd8; 0xfb; 0x5a; 0x7b; 0x82;
   0x9d; 0x3e; 0x86; 0x23; 0x71; 0xd2; 0xcf; 0xe5].

Example rfc3394_4_1_wrap : wrap rfc3394_kek rfc3394_key = rfc3394_wrapped.
Proof. vm_compute. reflexivity. Qed.
Example rfc3394_4_1_unwrap : unwrap rfc3394_kek rfc3394_wrapped = Some rfc3394_key.
Proof. vm_compute. reflexivity. Qed.
Example rfc3394_4_1_unwrap_raw : unwrap_raw rfc3394_kek rfc3394_wrapped = (default_iv, rfc3394_key).
Proof. vm_compute. reflexivity. Qed.
Example rfc3394_corrupted :
  unwrap rfc3394_kek (0x1e :: tl rfc3394_wrapped) = None.
Proof. vm_compute. reflexivity. Qed.
