(* Proofs for C12 (beyond Rx1BaseProofs.v): invalid arguments, regional
   formula, monotone / step rule, RX1 channel and frequency, ping slot. *)
From Coq Require Import List ZArith Bool String Lia.
From LW Require Import Base.Outcome Band.Types Band.Lookup Band.Regional Band.Rx1Spec Band.Rx1Checks
     Band.Rx1BaseProofs.
From LWGen Require Import BandGen KnownGen.
Import ListNotations.
Open Scope Z_scope.

(* ---- invalid arguments give an error ------------------------------------------ *)

Lemma valid_check_all : all_cells valid_check = true.
Proof. vm_compute. reflexivity. Qed.

Lemma rx1_invalid_err c : In c band_configs -> forall dr off,
  rx1_args_invalid dr off = true -> get_rx1_dr c dr off = Err.
Proof.
  intros Hc dr off Hinv.
  destruct (get_rx1_dr_cases c dr off) as [E|[r [E _]]]; [exact E|].
  pose proof (all_cells_lift _ valid_check_all c Hc dr off r E) as H.
  unfold valid_check in H. rewrite Hinv in H. discriminate.
Qed.

Lemma rx1_args_invalid_iff dr off :
  rx1_args_invalid dr off = true <-> dr < 0 \/ off < 0 \/ dr > 15 \/ off > 7.
Proof.
  unfold rx1_args_invalid. rewrite !orb_true_iff, !Z.ltb_lt, !Z.gtb_lt. lia.
Qed.

(* ---- formula ------------------------------------------------------------------ *)

Lemma spec_formula_domain reg dw dr off e :
  spec_rx1_formula reg dw dr off = Some e -> In (dr, off) formula_domain.
Proof.
  intros H.
  assert (0 <= dr <= 7 /\ 0 <= off <= 5) as [Hd Ho].
  { unfold spec_rx1_formula in H.
    destruct reg;
      match type of H with
      | (if ?b then _ else _) = _ => destruct b eqn:B; [|discriminate]
      end;
      rewrite !andb_true_iff, !Z.leb_le in B; lia. }
  unfold formula_domain. apply in_flat_map. exists dr. split; [now apply zrange_In|].
  apply in_map. now apply zrange_In.
Qed.

Lemma formula_check_ok : formula_check = true.
Proof. vm_compute. reflexivity. Qed.


Lemma rx1_formula c : In c band_configs -> forall reg, region_of (c_name c) = Some reg ->
  forall dr off e, spec_rx1_formula reg (c_dwell c) dr off = Some e ->
  get_rx1_dr c dr off = Ok e.
Proof.
  intros Hc reg Hreg dr off e He.
  pose proof formula_check_ok as H. unfold formula_check in H.
  rewrite forallb_forall in H. specialize (H c Hc). rewrite Hreg in H.
  rewrite forallb_forall in H. specialize (H (dr, off) (spec_formula_domain _ _ _ _ _ He)).
  cbn [fst snd] in H. unfold rx1_formula_rule in H. rewrite He in H.
  now apply oz_eqb_eq.
Qed.

(* ---- never increases, at most one defined downlink data-rate per step ------- *)

Lemma step_check_all : all_cells step_check = true.
Proof. vm_compute. reflexivity. Qed.

Lemma rx1_step c : In c band_configs -> forall dr off r0 r1,
  0 <= off < max_positive_offset ->
  get_rx1_dr c dr off = Ok r0 -> get_rx1_dr c dr (off + 1) = Ok r1 ->
  r1 <= r0 /\ forall d, r1 < d < r0 -> dr_defined_down (c_tab c) d = false.
Proof.
  unfold max_positive_offset. intros Hc dr off r0 r1 Hoff H0 H1.
  pose proof (all_cells_lift _ step_check_all c Hc dr (off + 1) r1 H1) as H.
  unfold step_check, rx1_step_rule, max_positive_offset in H.
  replace (off + 1 - 1) with off in H by lia. rewrite H0, H1 in H.
  destruct (Z.leb_spec 1 (off + 1)); [|lia].
  destruct (Z.leb_spec (off + 1) 5); [|lia].
  cbn [andb] in H. apply andb_true_iff in H as [Hle Hbet].
  apply Z.leb_le in Hle. split; [exact Hle|].
  intros d Hd. unfold no_defined_down_between in Hbet. rewrite forallb_forall in Hbet.
  assert (Hin : In d (zrange (r1 + 1) (r0 - 1))) by (apply zrange_In; lia).
  specialize (Hbet d Hin). now apply negb_true_iff in Hbet.
Qed.

(* ---- RX1 channel and frequency --------------------------------------------------- *)

Lemma channel_check_ok : channel_check = true.
Proof. vm_compute. reflexivity. Qed.

Lemma rx1_channel c : In c band_configs -> forall reg, region_of (c_name c) = Some reg ->
  forall i u, zindex (t_up (c_tab c)) i = Ok u ->
  rx1_channel_ok reg (t_down (c_tab c)) i (ch_freq u)
                 (get_rx1_channel_index c i) (get_rx1_frequency c (ch_freq u)) = true.
Proof.
  intros Hc reg Hreg i u Hu.
  pose proof channel_check_ok as H. unfold channel_check in H.
  rewrite forallb_forall in H. specialize (H c Hc). rewrite Hreg in H. cbv zeta in H.
  rewrite forallb_forall in H.
  assert (Hin : In i (zrange 0 (zlen (t_up (c_tab c)) - 1)))
    by (apply zrange_In; pose proof (zindex_Ok_range _ _ _ Hu); lia).
  specialize (H i Hin). now rewrite Hu in H.
Qed.

(* reading of the executable rule *)
Lemma rx1_channel_ok_spec reg down i f o_idx o_freq :
  rx1_channel_ok reg down i f o_idx o_freq = true ->
  exists d, o_idx = Ok (spec_rx1_channel reg i)
            /\ zindex down (spec_rx1_channel reg i) = Ok d
            /\ o_freq = Ok (ch_freq d)
            /\ (match reg with RUS915 | RAU915 | RCN470 => True | _ => ch_freq d = f end).
Proof.
  unfold rx1_channel_ok. destruct o_idx as [j| | |]; try discriminate.
  destruct o_freq as [g| | |]; try discriminate.
  rewrite !andb_true_iff. intros [[Hj Hd] Hf]. apply Z.eqb_eq in Hj. subst j.
  destruct (zindex down (spec_rx1_channel reg i)) as [d| | |]; try discriminate.
  apply Z.eqb_eq in Hd. exists d. repeat split; try congruence.
  destruct reg; try exact I; apply Z.eqb_eq in Hf; congruence.
Qed.

(* ---- ping slot --------------------------------------------------------------------- *)

Lemma ping_check_ok : ping_check = true.
Proof. vm_compute. reflexivity. Qed.

Lemma ping_channel_nonneg devaddr beacon : 0 <= devaddr -> 0 <= beacon ->
  ping_slot_channel devaddr beacon = (devaddr + beacon / beacon_period_ns) mod 8.
Proof.
  intros Hd Hb. unfold ping_slot_channel, beacon_period_ns.
  assert (0 < 128 * second) by (unfold second; lia).
  rewrite Z.quot_div_nonneg by lia.
  assert (0 <= beacon / (128 * second)) by (apply Z.div_pos; lia).
  rewrite Z.rem_mod_nonneg by lia. reflexivity.
Qed.

Lemma ping_slot c : In c band_configs -> forall reg, region_of (c_name c) = Some reg ->
  forall devaddr beacon, 0 <= devaddr -> 0 <= beacon ->
  get_ping_slot_frequency c devaddr beacon = Ok (spec_ping_slot reg devaddr beacon).
Proof.
  intros Hc reg Hreg devaddr beacon Hd Hb.
  unfold get_ping_slot_frequency, spec_ping_slot.
  replace (beacon <? 0) with false by (symmetry; apply Z.ltb_ge; exact Hb). rewrite andb_false_r.
  rewrite ping_channel_nonneg by assumption.
  set (k := (devaddr + beacon / beacon_period_ns) mod 8).
  assert (Hk : 0 <= k < 8) by (apply Z.mod_pos_bound; lia).
  pose proof ping_check_ok as H. unfold ping_check in H.
  rewrite forallb_forall in H. specialize (H c Hc). rewrite Hreg in H.
  rewrite forallb_forall in H.
  assert (Hin : In k (zrange 0 7)) by (apply zrange_In; lia).
  specialize (H k Hin). now apply oz_eqb_eq.
Qed.

(* ANY beacon time, negative ones included: never a panic; before the GPS epoch the hopping
   regions answer with an error, the fixed-frequency regions with their frequency *)
Lemma kind_region_check_ok' : kind_region_check = true.
Proof. vm_compute. reflexivity. Qed.

Lemma hopping_identity_kind k : hopping_kind k = negb (identity_kind k).
Proof. destruct k; reflexivity. Qed.
Lemma hopping_identity_region r : hopping_region r = negb (identity_region r).
Proof. destruct r; reflexivity. Qed.

Lemma ping_slot_at_fixed c k : hopping_kind (c_kind c) = false -> ping_slot_at c k = ping_slot_at c 0.
Proof. unfold ping_slot_at. destruct (c_kind c); intros E; try reflexivity; discriminate. Qed.

Lemma oz_eqb_refl x : outcome_eqb Z.eqb (Ok x) (Ok x) = true.
Proof. cbn [outcome_eqb]. apply Z.eqb_refl. Qed.

Lemma ping_slot_any_time c : In c band_configs -> forall reg, region_of (c_name c) = Some reg ->
  forall devaddr beacon, 0 <= devaddr ->
  ping_slot_any_ok reg devaddr beacon (get_ping_slot_frequency c devaddr beacon) = true.
Proof.
  intros Hc reg Hreg devaddr beacon Hd. unfold ping_slot_any_ok.
  destruct (Z.leb_spec 0 beacon) as [Hb|Hb].
  - rewrite (ping_slot c Hc reg Hreg devaddr beacon Hd Hb). unfold ping_slot_ok. apply oz_eqb_refl.
  - pose proof kind_region_check_ok' as K. unfold kind_region_check in K.
    rewrite forallb_forall in K. specialize (K c Hc). rewrite Hreg in K. apply Bool.eqb_prop in K.
    assert (Ehk : hopping_kind (c_kind c) = hopping_region reg)
      by (rewrite hopping_identity_kind, hopping_identity_region, K; reflexivity).
    unfold get_ping_slot_frequency. rewrite Ehk.
    replace (beacon <? 0) with true by (symmetry; apply Z.ltb_lt; exact Hb).
    destruct (hopping_region reg) eqn:HR; cbn [andb]; [reflexivity|].
    rewrite ping_slot_at_fixed by (rewrite Ehk; reflexivity).
    pose proof ping_check_ok as H. unfold ping_check in H.
    rewrite forallb_forall in H. specialize (H c Hc). rewrite Hreg in H.
    rewrite forallb_forall in H.
    assert (Hin : In 0 (zrange 0 7)) by (apply zrange_In; lia).
    specialize (H 0 Hin). apply oz_eqb_eq in H. rewrite H. apply oz_eqb_refl.
Qed.

Lemma ping_slot_no_panic c : In c band_configs -> forall devaddr beacon, 0 <= devaddr ->
  get_ping_slot_frequency c devaddr beacon <> Panic.
Proof.
  intros Hc devaddr beacon Hd. destruct (region_known c Hc) as [reg Hreg].
  pose proof (ping_slot_any_time c Hc reg Hreg devaddr beacon Hd) as H. unfold ping_slot_any_ok, ping_slot_ok in H.
  intros E. rewrite E in H. destruct (0 <=? beacon); [discriminate|]. destruct (hopping_region reg); discriminate.
Qed.
