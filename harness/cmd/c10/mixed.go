package main

import (
	"github.com/brocaar/lorawan"
	"verifharness/internal/cq"
	"verifharness/internal/framefmt"
	"verifharness/internal/macfmt"
)

// Hand-built frames whose FOpts / FRMPayload item LISTS have 2..4 entries mixing
// DataPayload values (each later relocated into its own guarded window with spare
// capacity 0..31 by arena.hphy) and MAC commands, including registered proprietary
// commands whose payload bytes also live in a guarded window.  Decoders only ever
// produce single-entry lists; an encoder that uses the bytes of one entry as the
// accumulator for the following ones writes into the spare capacity behind it.

func isUp(mt lorawan.MType) bool {
	return mt == lorawan.UnconfirmedDataUp || mt == lorawan.ConfirmedDataUp
}

// mixedItems returns n entries; budget bounds the total encoded size (roughly).
func mixedItems(r *cq.RNG, up bool, n, budget int, firstData bool) []lorawan.Payload {
	var out []lorawan.Payload
	for i := 0; i < n; i++ {
		k := r.Intn(4)
		if i == 0 && firstData {
			k = 0
		}
		switch k {
		case 0, 1: // raw bytes (pre-encoded / still encrypted commands)
			sz := 1 + r.Intn(3)
			if sz > budget {
				sz = budget
			}
			if sz < 0 {
				sz = 0
			}
			out = append(out, &lorawan.DataPayload{Bytes: r.Bytes(sz)})
			budget -= sz
		case 2: // a built-in command
			cmds := framefmt.ValidCmds(r, up, 1+r.Intn(5))
			if len(cmds) == 0 {
				cmds = []lorawan.Payload{&lorawan.MACCommand{CID: lorawan.LinkCheckReq}}
			}
			out = append(out, cmds[0])
			if mc, ok := cmds[0].(*lorawan.MACCommand); ok && mc.Payload != nil {
				if b, err := mc.Payload.MarshalBinary(); err == nil {
					budget -= len(b)
				}
			}
			budget--
		default: // a registered proprietary command: payload bytes in a guarded window
			if up {
				out = append(out, &lorawan.MACCommand{CID: 128, Payload: &lorawan.ProprietaryMACCommandPayload{Bytes: r.Bytes(3)}})
				budget -= 4
			} else {
				out = append(out, &lorawan.MACCommand{CID: 129, Payload: &lorawan.ProprietaryMACCommandPayload{Bytes: r.Bytes(2)}})
				budget -= 3
			}
		}
	}
	return out
}

// mixedFrame: variant 0 = multi-entry FOpts (+ FPort > 0 with 0..3 DataPayload entries in FRMPayload);
// variant 1 = FPort 0 with a multi-entry FRMPayload mixing raw bytes and commands;
// variant 2 = FOpts too long for the header (encoder refuses after having marshalled the entries).
func mixedFrame(r *cq.RNG, variant int) lorawan.PHYPayload {
	mt := []lorawan.MType{lorawan.UnconfirmedDataUp, lorawan.UnconfirmedDataDown, lorawan.ConfirmedDataUp, lorawan.ConfirmedDataDown}[r.Intn(4)]
	p := framefmt.DataFrame(r, framefmt.Opt{MType: mt, Port: -1, FCntHigh: r.Bool()})
	m := p.MACPayload.(*lorawan.MACPayload)
	up := isUp(mt)
	switch variant {
	case 0, 2:
		budget := 15
		if variant == 2 {
			budget = 40
		}
		m.FHDR.FOpts = mixedItems(r, up, 2+r.Intn(3), budget, r.Intn(3) > 0)
		if variant == 2 {
			m.FHDR.FOpts = append(m.FHDR.FOpts, &lorawan.DataPayload{Bytes: r.Bytes(14)})
		}
		if r.Intn(3) > 0 {
			port := uint8(1 + r.Intn(223))
			m.FPort = &port
			for i := r.Intn(4); i > 0; i-- {
				m.FRMPayload = append(m.FRMPayload, &lorawan.DataPayload{Bytes: r.Bytes(r.Intn(20))})
			}
		}
	default:
		port := uint8(0)
		m.FPort = &port
		m.FRMPayload = mixedItems(r, up, 2+r.Intn(3), 60, r.Intn(3) > 0)
	}
	return p
}

// witnessFrame: FOpts = [DataPayload{2 bytes}, LinkADRAns] (uplink); the first entry's window gets spare capacity.
func witnessFrame() lorawan.PHYPayload {
	port := uint8(10)
	return lorawan.PHYPayload{
		MHDR: lorawan.MHDR{MType: lorawan.UnconfirmedDataUp, Major: lorawan.LoRaWANR1},
		MACPayload: &lorawan.MACPayload{
			FHDR: lorawan.FHDR{DevAddr: lorawan.DevAddr{1, 2, 3, 4}, FCnt: 7, FOpts: []lorawan.Payload{
				&lorawan.DataPayload{Bytes: []byte{0x02, 0x0d}},
				&lorawan.MACCommand{CID: lorawan.LinkADRAns, Payload: &lorawan.LinkADRAnsPayload{ChannelMaskACK: true, PowerACK: true}},
			}},
			FPort:      &port,
			FRMPayload: []lorawan.Payload{&lorawan.DataPayload{Bytes: []byte{1, 2}}, &lorawan.DataPayload{Bytes: []byte{3}}},
		},
	}
}

// mixed runs every frame-consuming operation on multi-entry frames.
func (h *H) mixed(mult int) {
	// corpus: the witness with a guaranteed spare capacity behind every slice
	for i := 0; i < 3; i++ {
		h.forceSpare = 8 + 4*i
		h.marshal(witnessFrame(), "multi-entry")
		h.mic(witnessFrame(), 0, false)
		h.mic(witnessFrame(), 0, true)
		h.frameCrypt(witnessFrame(), 1)
		h.frameCrypt(witnessFrame(), 0)
	}
	h.forceSpare = -1
	// several proprietary commands of ONE CID in one encrypted stream: DecryptFOpts / DecryptFRMPayload with the
	// right key must give every command the bytes of its own wire segment (compared with the heap model)
	for i := 0; i < 6*mult; i++ {
		up := i%2 == 0
		var k lorawan.AES128Key
		copy(k[:], h.r.Bytes(16))
		cmds, _ := propCmds(h.r, up, 2+h.r.Intn(2), i%3 != 2)
		if i%4 < 2 {
			f := newDataFrame(h.r, up, cmds, []int{-1, 7}[i%2], nil)
			if f.EncryptFOpts(k) == nil {
				h.frameCryptKey(*f, 4, &k)
			}
		} else {
			f := newDataFrame(h.r, up, nil, 0, cmds)
			if f.EncryptFRMPayload(k) == nil {
				h.frameCryptKey(*f, 2, &k)
			}
		}
	}
	for i := 0; i < 30*mult; i++ {
		v := []int{0, 0, 1, 0, 1, 2}[i%6]
		p := mixedFrame(h.r, v)
		which := 1
		if isUp(p.MHDR.MType) {
			which = 0
		}
		switch i % 5 {
		case 0, 1:
			h.marshal(p, "multi-entry")
		case 2:
			h.mic(p, which, false)
		case 3:
			h.mic(p, which, true)
		default:
			h.frameCrypt(p, []int{0, 1, 2, 4}[(i/5)%4])
		}
	}
	_ = macfmt.Kinds
}
