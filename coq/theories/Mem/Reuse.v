(* C10 (M2): decoding INTO A VALUE THAT WAS USED BEFORE.

   Every UnmarshalBinary of the root package is a method on a pointer: it
   assigns fields of an existing object.  Here each decoder is a function of
   the previous contents [prev] of that object, mirroring the Go code
   assignment by assignment:

     field = expr                        -> the new value, [prev] ignored
     if cond { field = true }            -> [if cond then true else prev_field]
     s = append(s, x)                    -> [prev_s ++ [x]]
     array[i] = x  for i < k             -> first k slots new, the others from [prev]
     ptr = &T{} only on one branch       -> [prev] pointer kept on the other branch

   Objects that a decoder allocates itself (CFList.Payload, PHYPayload.MACPayload,
   MACCommand.Payload, `var cm ChMask`) are decoded from the zero value, as in
   the code.  The property is [X_dec_into prev bs = X_dec_into zero bs].
   On an error return Go leaves the object partially assigned; the result is
   then just [Err] (the property compares successful decodes).

   mac_commands.go: ChMask, LinkADRReq, LinkADRAns, TXParamSetupReq (the only
   payload decoders with conditional assignments; the others assign every field
   unconditionally and are [Mac.Commands.dec]), MACCommand.
   payload.go: CFListChannelPayload, CFListChannelMaskPayload, CFList, JoinAcceptPayload.
   fhdr.go / macpayload.go / phypayload.go: FHDR, MACPayload, PHYPayload.
   No proofs in this file. *)
From Coq Require Import List NArith ZArith Bool Arith.
From LW Require Import Base.Outcome Base.Bytes Mac.Commands Mac.Stream Frame.Model.
Import ListNotations.
Open Scope N_scope.

Definition idx16 : list N := [0;1;2;3;4;5;6;7;8;9;10;11;12;13;14;15].
Definition pad16b (m : list bool) : list bool := firstn 16 (m ++ repeat false 16).
Definition zero_mask : list bool := repeat false 16.

(* ChMask.UnmarshalBinary (after fix 4dbc1ba):  m[i] = n&(1<<i) != 0 *)
Definition chmask_dec_into (prev : list bool) (data : list N) : outcome (list bool) :=
  if Nat.eqb (length data) 2 then
    let n := le_val data in
    Ok (map (fun ip : N * bool => negb (N.land n (N.shiftl 1 (fst ip)) =? 0))
            (combine idx16 (pad16b prev)))
  else Err.

Definition setonly (prev b : bool) : bool := if b then true else prev.

Definition prev_mask (prev : macpl) : list bool :=
  match prev with PLinkADRReq _ _ cm _ _ => cm | _ => zero_mask end.

(* MAC command payloads. [prev] of another kind counts as the zero value. *)
Definition macpl_dec_into (prev : macpl) (k : kind) (data : list N) : outcome macpl :=
  let d := nth0 data in
  match k with
  | KLinkADRReq =>
    if Nat.eqb (length data) 4 then
      do cm <- chmask_dec_into (prev_mask prev) (firstn 2 (skipn 1 data));
      Ok (PLinkADRReq (N.shiftr (N.land (d 0%nat) 240) 4) (N.land (d 0%nat) 15) cm
                      (N.shiftr (N.land (d 3%nat) 112) 4) (N.land (d 3%nat) 15))
    else Err
  | KLinkADRAns =>
    (* p.ChannelMaskACK = data[0]&(1<<0) > 0 ...  (after fix 4dbc1ba) *)
    if Nat.eqb (length data) 1
    then Ok (PLinkADRAns (tbit (d 0%nat) 0) (tbit (d 0%nat) 1) (tbit (d 0%nat) 2))
    else Err
  | KTXParamSetupReq =>
    (* p.UplinkDwellTime = DwellTimeNoLimit; if data[0]&(1<<4) > 0 { p.UplinkDwellTime = DwellTime400ms } ...
       (after fix 4dbc1ba) *)
    if Nat.eqb (length data) 1
    then Ok (PTXParamSetupReq (if tbit (d 0%nat) 5 then 1%Z else 0%Z) (if tbit (d 0%nat) 4 then 1%Z else 0%Z) (N.land (d 0%nat) 15))
    else Err
  | _ => dec k data
  end.

(* MACCommand.UnmarshalBinary: (command, error returned) *)
Definition cmd_dec_into (prev : item) (r : registry) (up : bool) (data : list N) : item * bool :=
  let prev_pl := match prev with IMac _ p => p | IData _ => None end in
  match data with
  | [] => (prev, true)
  | c :: rest =>
    match rest with
    | [] => (IMac c None, false)                     (* m.Payload = nil (after fix 4dbc1ba) *)
    | _ =>
      match reg_lookup r up c with
      | None => (IMac c None, true)
      | Some (_, k) =>
        (* m.Payload = p (a fresh object from the registry) *)
        match macpl_dec_into (zero_value k) k rest with
        | Ok v => (IMac c (Some v), false)
        | _ => (IMac c (Some (zero_value k)), true)
        end
      end
    end
  end.

(* CFListChannelPayload.UnmarshalBinary *)
Definition zero_channels : list N := [0;0;0;0;0].
Definition cfl_channels_dec_into (prev : list N) (data : list N) : outcome (list N) :=
  let n := length data in
  if (15 <? n)%nat then Err else
  if negb (Nat.eqb (n mod 3) 0) then Err else
  let k := (n / 3)%nat in
  Ok (map (fun i => le_val (firstn 3 (skipn (3 * i) data)) * 100) (seq 0 k)
      ++ skipn k zero_channels).                     (* p.Channels = [5]uint32{} first (after fix 4dbc1ba) *)

(* CFListChannelMaskPayload.UnmarshalBinary *)
Definition cfl_masks_dec_into (prev : list (list bool)) (data : list N) : outcome (list (list bool)) :=
  let n := length data in
  if (15 <? n)%nat then Err else
  (* if len(data) > 12 { data = data[:12] }: at most six masks, the bytes behind them are RFU
     (after fix e2c2b92, finding C06-2) *)
  let data := if (12 <? n)%nat then firstn 12 data else data in
  let n := length data in
  let d := firstn (n - n mod 2) data in              (* make data a multiple of 2 *)
  Ok (masks_loop d 8 [] []).                         (* p.ChannelMasks = nil first (after fix 4dbc1ba) *)

(* CFList.UnmarshalBinary: l.Payload is a new object on both branches *)
Definition zero_cflist : cflist := mkCFList CFPNil 0.
Definition cflist_dec_into (prev : cflist) (data : list N) : outcome cflist :=
  if negb (Nat.eqb (length data) 16) then Err else
  let ty := nth 15 data 0 in
  if ty =? 1 then
    do m <- cfl_masks_dec_into [] (firstn 15 data); Ok (mkCFList (CFPMasks m) ty)
  else
    do c <- cfl_channels_dec_into zero_channels (firstn 15 data); Ok (mkCFList (CFPChannels c) ty).

(* JoinAcceptPayload.UnmarshalBinary *)
Definition zero_joinaccept : payload := PLJoinAccept 0 [0;0;0] [0;0;0;0] false 0 0 0 None.
Definition joinaccept_dec_into (prev : payload) (data : list N) : outcome payload :=
  let prev_cfl := match prev with PLJoinAccept _ _ _ _ _ _ _ c => c | _ => None end in
  let l := length data in
  if negb (Nat.eqb l 12) && negb (Nat.eqb l 28) then Err else
  let '(optneg, rx2, rx1) := dec_dlsettings (nth 10 data 0) in
  do cf <- (if Nat.eqb l 28
            then do c <- cflist_dec_into zero_cflist (skipn 12 data); Ok (Some c)   (* p.CFList = &CFList{} *)
            else Ok None);                                                          (* p.CFList = nil (after fix 4dbc1ba) *)
  Ok (PLJoinAccept (le_val (firstn 3 data)) (rev (firstn 3 (skipn 3 data))) (rev (firstn 4 (skipn 6 data)))
                   optneg rx2 rx1 (N.land (nth 11 data 0) 15) cf).   (* RXDelay = data[11] & 0x0f (fix C06-4) *)

(* FHDR.UnmarshalBinary *)
Definition zero_fctrl : fctrl := mkFCtrl false false false false false 0.
Definition zero_fhdr : fhdr := mkFHDR [0;0;0;0] zero_fctrl 0 [].
Definition fhdr_dec_into (prev : fhdr) (data : list N) : outcome fhdr :=
  if (length data <? 7)%nat then Err else
  let c := fctrl_unmarshal (nth 4 data 0) in
  let fc16 := le_val (firstn 2 (skipn 5 data)) in
  Ok (mkFHDR (rev (firstn 4 data)) c fc16
             (if (7 <? length data)%nat then [IData (skipn 7 data)] else [])).   (* h.FOpts = nil first (after fix 4dbc1ba) *)

(* MACPayload.UnmarshalBinary *)
Definition zero_mac : macpayload := mkMAC zero_fhdr None [].
Definition mac_dec_into (prev : macpayload) (data : list N) : outcome macpayload :=
  let n := length data in
  if (n <? 7)%nat then Err else
  let ol := N.to_nat (N.land (nth 4 data 0) 15) in
  if (n <? 7 + ol)%nat then Err else
  do h <- fhdr_dec_into (hdr prev) (firstn (7 + ol) data);
  let port := if (7 + ol <? n)%nat then Some (nth (7 + ol) data 0) else None in     (* p.FPort = nil first *)
  (* FPort 0 excludes FOpts, also when the FRMPayload is empty (after fix 6878deb) *)
  if (match port with Some 0 => true | _ => false end) && (0 <? ol)%nat then Err else
  if (7 + ol + 1 <? n)%nat then
    Ok (mkMAC h port [IData (skipn (7 + ol + 1) data)])
  else Ok (mkMAC h port []).                                                        (* p.FRMPayload = nil first *)

(* PHYPayload.UnmarshalBinary: p.MACPayload is a new object for every MType *)
Definition zero_phy : phy := mkPHY 0 0 PLNil [0;0;0;0].
Definition phy_dec_into (prev : phy) (data : list N) : outcome phy :=
  let n := length data in
  if (n <? 5)%nat then Err else
  let b0 := nth 0 data 0 in
  let mt := N.shiftr b0 5 in
  let mj := N.land b0 3 in
  let body := firstn (n - 5) (skipn 1 data) in
  do p <-
    (if (mt =? JoinRequest) || (mt =? RejoinRequest) then
       do v <- phy_unmarshal data; Ok (pl v)
     else if (mt =? JoinAccept) || (mt =? Proprietary) then Ok (PLData body)
     else do m <- mac_dec_into zero_mac body; Ok (PLMac m));
  Ok (mkPHY mt mj p (skipn (n - 4) data)).
