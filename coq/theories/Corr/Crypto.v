(* Correspondence cases for the cryptographic primitives: the Gallina AES-128,
   AES-CMAC and RFC 3394 key wrap against the Go implementations the repository
   calls (crypto/aes, github.com/jacobsa/crypto/cmac,
   github.com/NickBall/go-aes-key-wrap).  The [...Any] cases are the same
   comparisons for keys of every length (AESAny.v / KeyWrapAny.v: AES-128/192/256,
   [None] = crypto/aes.NewCipher refuses the key size).

   bit 0: the model's output differs from the observed output;
   bit 1: an executable property fails on the observed output:
     - AES: the model's inverse direction maps the observed output back to the
       input, and the observed output has 16 bytes;
     - CMAC: the observed tag has 16 bytes, each < 256;
     - Wrap: the model unwraps the observed ciphertext to the plaintext, and
       the ciphertext is 8 bytes longer;
     - Unwrap: on success the model re-wraps the returned key data to the
       input (to its first 8 * (length / 8) bytes: the Go library ignores a
       trailing partial block); on failure the recovered initial value is not
       the default one. *)
From Coq Require Import List NArith ZArith Bool.
From LW Require Import Base.Outcome Base.Bytes Crypto.AES Crypto.CMAC Crypto.KeyWrap Crypto.AESAny Crypto.KeyWrapAny.
Import ListNotations.
Open Scope N_scope.

Inductive case :=
| CAesEnc (k b o : list N)
| CAesDec (k b o : list N)
| CCmac (k m o : list N)
| CWrap (kek p o : list N)
| CUnwrap (kek d : list N) (o : option (list N))
(* keys of any length; o = None: NewCipher returned the key-size error *)
| CAesEncAny (k b : list N) (o : option (list N))
| CAesDecAny (k b : list N) (o : option (list N))
| CWrapAny (kek p : list N) (o : option (list N))
(* Some (Some p) = unwrapped, Some None = integrity error, None = key-size error *)
| CUnwrapAny (kek d : list N) (o : option (option (list N))).

Definition check (c : case) : N :=
  match c with
  | CAesEnc k b o =>
    let rks := expand_key k in
    code (bytes_eqb (aes_encrypt_rk rks b) o)
         (bytes_eqb (aes_decrypt_rk rks o) b && Nat.eqb (length o) 16)
  | CAesDec k b o =>
    let rks := expand_key k in
    code (bytes_eqb (aes_decrypt_rk rks b) o)
         (bytes_eqb (aes_encrypt_rk rks o) b && Nat.eqb (length o) 16)
  | CCmac k m o =>
    code (bytes_eqb (cmac k m) o)
         (Nat.eqb (length o) 16 && bytes_ok o)
  | CWrap kek p o =>
    let rks := expand_key kek in
    code (bytes_eqb (wrap_rk rks default_iv p) o)
         (let '(iv, p') := unwrap_raw_rk rks o in
          bytes_eqb iv default_iv && bytes_eqb p' p && Nat.eqb (length o) (length p + 8))
  | CUnwrap kek d o =>
    let rks := expand_key kek in
    let '(iv, p') := unwrap_raw_rk rks d in
    let ok := bytes_eqb iv default_iv in
    code (option_eqb bytes_eqb (if ok then Some p' else None) o)
         (match o with
          | Some p => bytes_eqb (wrap_rk rks default_iv p) (firstn (8 * (length d / 8)) d)
          | None => negb ok
          end)
  | CAesEncAny k b o =>
    match expand_key_any k, o with
    | Some rks, Some c =>
      code (bytes_eqb (aes_encrypt_rk rks b) c)
           (bytes_eqb (aes_decrypt_rk rks c) b && Nat.eqb (length c) 16)
    | None, None => 0
    | Some _, None => 3          (* a key of 16/24/32 bytes refused *)
    | None, Some _ => 3          (* another key size accepted *)
    end
  | CAesDecAny k b o =>
    match expand_key_any k, o with
    | Some rks, Some c =>
      code (bytes_eqb (aes_decrypt_rk rks b) c)
           (bytes_eqb (aes_encrypt_rk rks c) b && Nat.eqb (length c) 16)
    | None, None => 0
    | _, _ => 3
    end
  | CWrapAny kek p o =>
    match expand_key_any kek, o with
    | Some rks, Some w =>
      code (bytes_eqb (wrap_rk rks default_iv p) w)
           (let '(iv, p') := unwrap_raw_rk rks w in
            bytes_eqb iv default_iv && bytes_eqb p' p && Nat.eqb (length w) (length p + 8))
    | None, None => 0
    | _, _ => 3
    end
  | CUnwrapAny kek d o =>
    match expand_key_any kek, o with
    | Some rks, Some o' =>
      let '(iv, p') := unwrap_raw_rk rks d in
      let ok := bytes_eqb iv default_iv in
      code (option_eqb bytes_eqb (if ok then Some p' else None) o')
           (match o' with
            | Some p => bytes_eqb (wrap_rk rks default_iv p) (firstn (8 * (length d / 8)) d)
            | None => negb ok
            end)
    | None, None => 0
    | _, _ => 3
    end
  end.

Definition run_cases := run_with check.

(* the check is the model: these are the definitions of the public functions *)
Example check_uses_wrap kek p : wrap kek p = wrap_rk (expand_key kek) default_iv p.
Proof. reflexivity. Qed.
Example check_uses_aes_any k b : aes_encrypt_any k b =
  match expand_key_any k with Some rks => Some (aes_encrypt_rk rks b) | None => None end.
Proof. reflexivity. Qed.
Example check_uses_wrap_any kek p : wrap_any kek p =
  match expand_key_any kek with Some rks => Some (wrap_rk rks default_iv p) | None => None end.
Proof. reflexivity. Qed.
Example check_uses_unwrap_any kek d : unwrap_any kek d =
  match expand_key_any kek with
  | Some rks => let '(iv, p') := unwrap_raw_rk rks d in if bytes_eqb iv default_iv then Some p' else None
  | None => None
  end.
Proof. unfold unwrap_any, unwrap_raw_any. destruct (expand_key_any kek); reflexivity. Qed.
Example check_uses_unwrap kek d :
  unwrap kek d = let '(iv, p') := unwrap_raw_rk (expand_key kek) d in
                 if bytes_eqb iv default_iv then Some p' else None.
Proof. reflexivity. Qed.
