(* What C14 demands of the planner, written from the property statement and
   the LoRaWAN LinkADRReq definition, not from the planner's code. *)
From Coq Require Import List ZArith Bool.
From LW Require Import Base.Outcome Band.Channels Band.Planner.
Import ListNotations.
Open Scope Z_scope.

(* the set the device must end up with: the network's enabled channels among
   those the device can know (standard ones, and custom ones already active on
   the device), in ascending order; [k] is the index of the head of [u] *)
Fixpoint target_from (u : list channel) (dev : list Z) (k : Z) : list Z :=
  match u with
  | [] => []
  | c :: u' =>
    if enabled c && (negb (custom c) || zmem k dev)
    then k :: target_from u' dev (k + 1) else target_from u' dev (k + 1)
  end.
Definition target (s : st) (dev : list Z) : list Z := target_from (up s) dev 0.

(* same set of channels (order and repetitions of the device list are irrelevant) *)
Definition same_set (a b : list Z) : Prop := forall c, In c a <-> In c b.
Definition same_setb (a b : list Z) : bool :=
  forallb (fun c => zmem c b) a && forallb (fun c => zmem c a) b.

(* LinkADRReq wire format: DataRate, TXPower, NbRep 4 bits each, ChMaskCntl 3 bits,
   ChMask 16 bits *)
Definition encodable (p : payload) : bool :=
  (0 <=? p_dr p) && (p_dr p <=? 15) && (0 <=? p_txp p) && (p_txp p <=? 15) &&
  (0 <=? p_nbrep p) && (p_nbrep p <=? 15) && (0 <=? p_cntl p) && (p_cntl p <=? 7) &&
  (length (p_mask p) =? 16)%nat.

(* number of 16-channel blocks of a plan with n channels *)
Definition blocks (B n : Z) : Z := (n + B - 1) / B.

Definition in_range (n : Z) (dev : list Z) : bool := forallb (fun c => (0 <=? c) && (c <? n)) dev.
