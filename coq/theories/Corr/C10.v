(* Correspondence cases for C10 (isolation).  Every case carries the memory
   the harness handed to the implementation (backing buffers with guard bytes
   and spare capacity) and what it observed afterwards; [check] runs the heap
   model (Mem/Alias.v) or the reuse model (Mem/Reuse.v) on the same input
   (bit 0: model <> implementation) and evaluates the isolation property on
   the OBSERVED buffers and snapshots (bit 1). *)
From Coq Require Import List NArith ZArith Bool Arith.
From LW Require Export Base.Outcome Base.Bytes Mac.Commands Mac.Stream Frame.Model Mem.Heap Mem.Alias Mem.Reuse.
From LWGen Require Import RegistryGen.
Import ListNotations.
Open Scope N_scope.

(* append growth: irrelevant for anything the harness can observe *)
Definition g0 (n : nat) : nat := 0%nat.

(* the harness process registers these proprietary commands before the first case *)
Definition harness_registry : registry :=
  register_all builtin_registry [(true, 128, 3%Z); (false, 129, 2%Z); (true, 130, 1%Z)].

(* values of the reuse cases *)
Inductive rtype :=
| TMacpl (k : kind) | TMask | TChannels | TMasks | TCFList | TJoinAccept | TFhdr | TMac | TCmd (up : bool) | TPhy.

Inductive rval :=
| RMacpl (p : macpl) | RMask (m : list bool) | RChannels (l : list N) | RMasks (l : list (list bool))
| RCFList (c : cflist) | RPayload (p : payload) | RFhdr (x : fhdr) | RMac (m : macpayload)
| RItem (i : item) | RPhy (p : phy).

Definition rval_eqb (a b : rval) : bool :=
  match a, b with
  | RMacpl x, RMacpl y => macpl_eqb x y
  | RMask x, RMask y => blist_eqb x y
  | RChannels x, RChannels y => bytes_eqb x y
  | RMasks x, RMasks y => list_eqb blist_eqb x y
  | RCFList x, RCFList y => cflist_eqb x y
  | RPayload x, RPayload y => payload_eqb x y
  | RFhdr x, RFhdr y => fhdr_eqb x y
  | RMac x, RMac y => mac_eqb x y
  | RItem x, RItem y => item_eqb x y
  | RPhy x, RPhy y => phy_eqb x y
  | _, _ => false
  end.

Definition zero_of (t : rtype) : rval :=
  match t with
  | TMacpl k => RMacpl (zero_value k)
  | TMask => RMask zero_mask
  | TChannels => RChannels zero_channels
  | TMasks => RMasks []
  | TCFList => RCFList zero_cflist
  | TJoinAccept => RPayload zero_joinaccept
  | TFhdr => RFhdr zero_fhdr
  | TMac => RMac zero_mac
  | TCmd _ => RItem (IMac 0 None)
  | TPhy => RPhy zero_phy
  end.

Definition dec_into_any (t : rtype) (prev : rval) (bs : list N) : outcome rval :=
  match t, prev with
  | TMacpl k, RMacpl p => omap RMacpl (macpl_dec_into p k bs)
  | TMask, RMask m => omap RMask (chmask_dec_into m bs)
  | TChannels, RChannels l => omap RChannels (cfl_channels_dec_into l bs)
  | TMasks, RMasks l => omap RMasks (cfl_masks_dec_into l bs)
  | TCFList, RCFList c => omap RCFList (cflist_dec_into c bs)
  | TJoinAccept, RPayload p => omap RPayload (joinaccept_dec_into p bs)
  | TFhdr, RFhdr x => omap RFhdr (fhdr_dec_into x bs)
  | TMac, RMac m => omap RMac (mac_dec_into m bs)
  | TCmd up, RItem i => let '(it, e) := cmd_dec_into i harness_registry up bs in if e then Err else Ok (RItem it)
  | TPhy, RPhy p => omap RPhy (phy_dec_into p bs)
  | _, _ => Panic
  end.

Inductive case :=
(* PHYPayload.UnmarshalBinary on bk[off : off+len : off+cap]; snapshot; backing buffer afterwards;
   snapshot after the caller overwrote the whole backing buffer with [scr] *)
| CDecode (bk : list N) (off len cap : nat) (scr : N) (o1 : outcome phy) (bk1 : list N) (o2 : outcome phy)
(* direct FHDR.UnmarshalBinary / MACPayload.UnmarshalBinary (exported entry points of their own) likewise *)
| CFhdrDecode (bk : list N) (off len cap : nat) (scr : N) (o1 : outcome fhdr) (bk1 : list N) (o2 : outcome fhdr)
| CMacDecode (bk : list N) (off len cap : nat) (scr : N) (o1 : outcome macpayload) (bk1 : list N) (o2 : outcome macpayload)
(* MarshalBinary of a leaf element whose Bytes are bk[off:off+len:off+cap] (which: 0 DataPayload, 1 ProprietaryMACCommandPayload):
   output; backing buffer afterwards; the element's bytes after the caller overwrote the output (whole capacity) *)
| CElemMarshal (bk : list N) (off len cap : nat) (which : N) (scr : N) (o : outcome (list N)) (bk1 : list N) (after : list N)
(* AES128Key / EUI64 / DevAddr / NetID.UnmarshalBinary with receiver bk[roff:roff+len] and input bk[doff:doff+len] of ONE
   backing array (any overlap): ok?, backing array afterwards *)
| CIdentOverlap (bk : list N) (roff doff len : nat) (okay : bool) (bk1 : list N)
(* MACCommand.UnmarshalBinary (proprietary payloads) likewise *)
| CCmdDecode (bk : list N) (off len cap : nat) (up : bool) (scr : N) (o1 : outcome item) (bk1 : list N) (o2 : outcome item)
(* exported EncryptFRMPayload(key, uplink, devAddr, fCnt, bk[off:off+len:off+cap]) *)
| CEncFRM (bk : list N) (off len cap : nat) (key : list N) (up : bool) (devaddr : list N) (fcnt : N)
          (o : outcome (list N)) (bk1 : list N)
(* exported EncryptFOpts *)
| CEncFOpts (bk : list N) (off len cap : nat) (key : list N) (afd up : bool) (devaddr : list N) (fcnt : N)
            (o : outcome (list N)) (bk1 : list N)
(* DecryptJoinAcceptPayload on a frame whose DataPayload.Bytes is bk[off:off+len:off+cap] *)
| CDecryptJA (bk : list N) (off len cap : nat) (mic key : list N) (o : outcome phy) (bk1 : list N)
(* PHYPayload.MarshalBinary of a frame whose byte slices live in [bufs]; snapshot before; output;
   buffers afterwards; snapshot after the caller overwrote the output (whole capacity) with [scr] *)
| CMarshal (bufs : list (list N)) (f : hphy) (scr : N) (snap0 : phy) (o : outcome (list N))
           (bufs1 : list (list N)) (snap1 : phy)
(* Validate*MIC / Set*MIC (which: 0 uplink data, 1 downlink data, 2 uplink join, 3 downlink join; set: Set instead
   of Validate): ok/err, buffers afterwards, snapshot afterwards (MIC field excluded when set) *)
| CMic (bufs : list (list N)) (f : hphy) (which : N) (set : bool) (snap0 : phy) (okay : bool)
       (bufs1 : list (list N)) (snap1 : phy)
(* frame-level EncryptFRMPayload (0) / EncryptFOpts (1) / DecryptFRMPayload (2) / EncryptJoinAcceptPayload (3) /
   DecryptFOpts (4) *)
| CFrameCrypt (bufs : list (list N)) (f : hphy) (which : N) (key : list N) (o : outcome phy) (bufs1 : list (list N))
(* decode b2 into a value that decoded b1 before, and into a fresh value *)
| CReuse (t : rtype) (b1 b2 : list N) (o_used o_fresh : outcome rval)
(* two instances of one band: full snapshot of the second before / after a mutation history on the first *)
| CBand (cfg : N) (nops : N) (snap0 snap1 : list Z).

Definition phyeqb := outcome_eqb phy_eqb.
Definition itemeqb := outcome_eqb item_eqb.
Definition byteseqb := outcome_eqb bytes_eqb.
Definition bufs_eqb := list_eqb bytes_eqb.
Definition zlist_eqb := list_eqb Z.eqb.

Definition outside_eqb (off len : nat) (a b : list N) : bool :=
  bytes_eqb (firstn off a) (firstn off b) && bytes_eqb (skipn (off + len) a) (skipn (off + len) b)
  && Nat.eqb (length a) (length b).

Definition same_status {A} (o : outcome A) (okay : bool) : bool :=
  match o with Ok _ => okay | Err => negb okay | _ => false end.

Definition dummy_mic (_ : list N) : list N := [0; 0; 0; 0].

Definition no_mic (p : phy) : phy := mkPHY (mtype p) (major p) (pl p) [].

Definition check (c : case) : N :=
  match c with
  | CDecode bk off len cap scr o1 bk1 o2 =>
    let s := mkSlice 0 off len cap in
    let '(h1, r) := h_phy_unmarshal s [bk] in
    code (phyeqb (omap (view h1) r) o1 && bytes_eqb (buffer h1 0) bk1 &&
          match r with Ok f => phyeqb (Ok (view (scribble h1 0 scr) f)) o2 | _ => true end)
         (bytes_eqb bk1 bk && match o1 with Ok _ => phyeqb o1 o2 | _ => true end)
  | CFhdrDecode bk off len cap scr o1 bk1 o2 =>
    let s := mkSlice 0 off len cap in
    let '(h1, r) := h_fhdr_unmarshal s [bk] in
    let eqo := outcome_eqb fhdr_eqb in
    code (eqo (omap (view_fhdr h1) r) o1 && bytes_eqb (buffer h1 0) bk1 &&
          match r with Ok f => eqo (Ok (view_fhdr (scribble h1 0 scr) f)) o2 | _ => true end)
         (bytes_eqb bk1 bk && match o1 with Ok _ => eqo o1 o2 | _ => true end)
  | CMacDecode bk off len cap scr o1 bk1 o2 =>
    let s := mkSlice 0 off len cap in
    let '(h1, r) := h_mac_unmarshal s [bk] in
    let eqo := outcome_eqb mac_eqb in
    code (eqo (omap (view_mac h1) r) o1 && bytes_eqb (buffer h1 0) bk1 &&
          match r with Ok f => eqo (Ok (view_mac (scribble h1 0 scr) f)) o2 | _ => true end)
         (bytes_eqb bk1 bk && match o1 with Ok _ => eqo o1 o2 | _ => true end)
  | CElemMarshal bk off len cap which scr o bk1 after =>
    let s := mkSlice 0 off len cap in
    let '(h1, r) := (if which =? 0 then h_item_marshal g0 (HIData s) else h_macpl_marshal (HPProp s)) [bk] in
    code (byteseqb (omap (bytes_of h1) r) o && bytes_eqb (buffer h1 0) bk1 &&
          match r with Ok out => bytes_eqb (bytes_of (scribble h1 (sbuf out) scr) s) after | _ => true end)
         (bytes_eqb bk1 bk && bytes_eqb after (firstn len (skipn off bk)))
  | CIdentOverlap bk roff doff len okay bk1 =>
    let recv := mkSlice 0 roff len len in
    let data := mkSlice 0 doff len len in
    let '(h1, r) := h_ident_unmarshal recv data [bk] in
    code (same_status r okay && bytes_eqb (buffer h1 0) bk1)
         (negb okay ||
          (bytes_eqb (firstn len (skipn roff bk1)) (rev (firstn len (skipn doff bk))) &&
           outside_eqb roff len bk1 bk))
  | CCmdDecode bk off len cap up scr o1 bk1 o2 =>
    let s := mkSlice 0 off len cap in
    let '(h1, r) := h_cmd_unmarshal harness_registry up s [bk] in
    let res h := match r with Ok (it, false) => Ok (view_item h it) | Ok (_, true) => Err | Err => Err | Panic => Panic | OutOfFuel => OutOfFuel end in
    code (itemeqb (res h1) o1 && bytes_eqb (buffer h1 0) bk1 && itemeqb (res (scribble h1 0 scr)) o2)
         (bytes_eqb bk1 bk && itemeqb o1 o2)
  | CEncFRM bk off len cap key up devaddr fcnt o bk1 =>
    let s := mkSlice 0 off len cap in
    let '(h1, r) := h_encrypt_frm key up devaddr fcnt s [bk] in
    code (byteseqb (omap (bytes_of h1) r) o && bytes_eqb (buffer h1 0) bk1)
         (outside_eqb off len bk1 bk)
  | CEncFOpts bk off len cap key afd up devaddr fcnt o bk1 =>
    let s := mkSlice 0 off len cap in
    let '(h1, r) := h_encrypt_fopts key afd up devaddr fcnt s [bk] in
    code (byteseqb (omap (bytes_of h1) r) o && bytes_eqb (buffer h1 0) bk1)
         (outside_eqb off len bk1 bk)
  | CDecryptJA bk off len cap mic key o bk1 =>
    let s := mkSlice 0 off len cap in
    let '(h1, r) := h_decrypt_ja g0 key (mkHPHY JoinAccept 0 (HPLData s) mic) [bk] in
    code (phyeqb (omap (view h1) r) o && bytes_eqb (buffer h1 0) bk1)
         (bytes_eqb bk1 bk)
  | CMarshal bufs f scr snap0 o bufs1 snap1 =>
    let '(h1, r) := h_phy_marshal g0 f bufs in
    code (phy_eqb (view bufs f) snap0 && byteseqb (omap (bytes_of h1) r) o &&
          bufs_eqb (firstn (length bufs) h1) bufs1 &&
          match r with Ok out => phy_eqb (view (scribble h1 (sbuf out) scr) f) snap1 | _ => phy_eqb (view h1 f) snap1 end)
         (bufs_eqb bufs1 bufs && phy_eqb snap1 snap0)
  | CMic bufs f which set snap0 okay bufs1 snap1 =>
    let '(h1, r) := (if (which <? 2) then h_calc_data_mic dummy_mic g0 f else h_calc_join_mic dummy_mic g0 f) bufs in
    code (phy_eqb (view bufs f) snap0 && same_status r okay && bufs_eqb (firstn (length bufs) h1) bufs1 &&
          phy_eqb (no_mic (view h1 f)) (no_mic snap1))
         (bufs_eqb bufs1 bufs && if set then phy_eqb (no_mic snap1) (no_mic snap0) else phy_eqb snap1 snap0)
  | CFrameCrypt bufs f which key o bufs1 =>
    let '(h1, r) := (if which =? 0 then h_phy_encrypt_frm g0 key f
                     else if which =? 1 then h_phy_encrypt_fopts g0 key f
                     else if which =? 2 then h_phy_decrypt_frm g0 harness_registry key f
                     else if which =? 3 then h_encrypt_ja g0 key f
                     else h_phy_decrypt_fopts g0 harness_registry key f) bufs in
    code (phyeqb (omap (view h1) r) o && bufs_eqb (firstn (length bufs) h1) bufs1)
         (bufs_eqb bufs1 bufs)
  | CReuse t b1 b2 o_used o_fresh =>
    let p1 := match dec_into_any t (zero_of t) b1 with Ok v => v | _ => zero_of t end in
    code (outcome_eqb rval_eqb (dec_into_any t p1 b2) o_used &&
          outcome_eqb rval_eqb (dec_into_any t (zero_of t) b2) o_fresh)
         (outcome_eqb rval_eqb o_used o_fresh)
  | CBand _ _ snap0 snap1 =>
    (* the functional model of GetConfig builds every instance from literals: no sharing is expressible *)
    code true (zlist_eqb snap0 snap1)
  end.

Definition run_cases := run_with check.
