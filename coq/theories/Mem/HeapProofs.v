(* C10 (M1): frame rules of the buffer heap.

   [pres W n0 h h']: h' is h plus new buffers, and every cell of the first n0
   buffers that is not in the write permission W is unchanged (buffer lengths
   never change).  [safe W n0 m Q]: running m from any heap with at least n0
   buffers preserves [pres W n0] on EVERY outcome (Ok, Err, Panic), and an Ok
   result satisfies Q.  A slice may be appended to when it is [own]ed: its
   buffer did not exist before (index >= n0) or its whole capacity window lies
   in W; it may be written (indices < len) when [wr_ok]. *)
From Coq Require Import List NArith ZArith Bool Arith Lia.
From LW Require Import Base.Outcome Mem.Heap.
Import ListNotations.

(* ---- lists ---- *)
Lemma upd_length {A} (l : list A) i v : length (upd l i v) = length l.
Proof. revert i; induction l; intros [|i]; simpl; auto. Qed.

Lemma nth_upd {A} (l : list A) i j v d :
  nth j (upd l i v) d = if Nat.eqb j i && (i <? length l)%nat then v else nth j l d.
Proof.
  revert i j; induction l as [|x l IH]; intros i j.
  - replace (i <? length (@nil A))%nat with false by (symmetry; apply Nat.ltb_ge; simpl; lia).
    rewrite andb_false_r. destruct i; reflexivity.
  - destruct i as [|i], j as [|j]; try reflexivity.
    cbn [upd nth length]. rewrite IH. reflexivity.
Qed.

Lemma nth_upd_other {A} (l : list A) i j v d : j <> i -> nth j (upd l i v) d = nth j l d.
Proof. intros H. rewrite nth_upd. apply Nat.eqb_neq in H. now rewrite H. Qed.

Lemma upd_beyond {A} (l : list A) i v : length l <= i -> upd l i v = l.
Proof. revert i; induction l; intros [|i] H; simpl in *; auto; try lia. f_equal. apply IHl. lia. Qed.

Lemma list_ext_nth (l1 l2 : list N) :
  length l1 = length l2 -> (forall i, nth i l1 0%N = nth i l2 0%N) -> l1 = l2.
Proof. intros HL H. apply (nth_ext l1 l2 0%N 0%N); auto. Qed.

(* ---- buffers of an updated heap ---- *)
Lemma buffer_upd_same h b x : b < length h -> buffer (upd h b x) b = x.
Proof.
  intros H. unfold buffer. rewrite nth_upd, Nat.eqb_refl. apply Nat.ltb_lt in H. now rewrite H.
Qed.
Lemma buffer_upd_other h b b' x : b' <> b -> buffer (upd h b x) b' = buffer h b'.
Proof. intros H. unfold buffer. now apply nth_upd_other. Qed.

Lemma buffer_app_old h x b : b < length h -> buffer (h ++ x) b = buffer h b.
Proof. intros H. unfold buffer. now apply app_nth1. Qed.
Lemma buffer_app_new h x : buffer (h ++ [x]) (length h) = x.
Proof. unfold buffer. rewrite app_nth2 by lia. now rewrite Nat.sub_diag. Qed.

Lemma set_byte_length h b i v : length (set_byte h b i v) = length h.
Proof. apply upd_length. Qed.

Lemma set_byte_buffer_length h b i v b' : length (buffer (set_byte h b i v) b') = length (buffer h b').
Proof.
  unfold set_byte. destruct (Nat.eq_dec b' b) as [->|Hn].
  - destruct (Nat.lt_ge_cases b (length h)).
    + rewrite buffer_upd_same by auto. apply upd_length.
    + now rewrite upd_beyond.
  - now rewrite buffer_upd_other.
Qed.

Lemma set_byte_nth h b i v b' j :
  (b' <> b \/ j <> i) -> nth j (buffer (set_byte h b i v) b') 0%N = nth j (buffer h b') 0%N.
Proof.
  intros H. unfold set_byte. destruct (Nat.eq_dec b' b) as [->|Hn].
  - destruct H as [H|H]; [congruence|].
    destruct (Nat.lt_ge_cases b (length h)).
    + rewrite buffer_upd_same by auto. now apply nth_upd_other.
    + now rewrite upd_beyond.
  - now rewrite buffer_upd_other.
Qed.

Lemma set_bytes_length h b i vs : length (set_bytes h b i vs) = length h.
Proof. revert h i; induction vs; simpl; intros; auto. rewrite IHvs. apply set_byte_length. Qed.

Lemma set_bytes_buffer_length h b i vs b' : length (buffer (set_bytes h b i vs) b') = length (buffer h b').
Proof. revert h i; induction vs; simpl; intros; auto. rewrite IHvs. apply set_byte_buffer_length. Qed.

Lemma set_bytes_nth h b i vs b' j :
  (b' <> b \/ j < i \/ i + length vs <= j) ->
  nth j (buffer (set_bytes h b i vs) b') 0%N = nth j (buffer h b') 0%N.
Proof.
  revert h i; induction vs as [|v vs IH]; simpl; intros h i H; auto.
  rewrite IH by lia. apply set_byte_nth. lia.
Qed.

(* ---- permissions, preservation ---- *)
Definition perm := nat -> nat -> Prop.
Definition noperm : perm := fun _ _ => False.
Definition window (s : slice) : perm := fun b i => b = sbuf s /\ soff s <= i < soff s + slen s.

Definition pres (W : perm) (n0 : nat) (h h' : heap) : Prop :=
  length h <= length h' /\
  forall b, b < n0 ->
    length (buffer h' b) = length (buffer h b) /\
    forall i, ~ W b i -> nth i (buffer h' b) 0%N = nth i (buffer h b) 0%N.

Lemma pres_refl (W : perm) n0 h : pres W n0 h h.
Proof. split; auto. Qed.

Lemma pres_trans (W : perm) n0 h1 h2 h3 : pres W n0 h1 h2 -> pres W n0 h2 h3 -> pres W n0 h1 h3.
Proof.
  intros [L1 H1] [L2 H2]. split; [lia|]. intros b Hb.
  destruct (H1 b Hb) as [A1 B1], (H2 b Hb) as [A2 B2]. split; [congruence|].
  intros i Hi. rewrite B2, B1; auto.
Qed.

Lemma pres_noperm_eq n0 h h' b : pres noperm n0 h h' -> b < n0 -> buffer h' b = buffer h b.
Proof.
  intros [_ H] Hb. destruct (H b Hb) as [HL HN]. apply list_ext_nth; [exact HL|].
  intros i. apply HN. intros [].
Qed.

Lemma pres_alloc (W : perm) n0 h x : n0 <= length h -> pres W n0 h (h ++ [x]).
Proof.
  intros Hn. split; [rewrite app_length; lia|]. intros b Hb.
  rewrite buffer_app_old by lia. auto.
Qed.

Lemma pres_set_bytes (W : perm) n0 h b i vs :
  (n0 <= b \/ forall j, i <= j < i + length vs -> W b j) -> pres W n0 h (set_bytes h b i vs).
Proof.
  intros H. split; [now rewrite set_bytes_length|]. intros b' Hb'. split.
  - apply set_bytes_buffer_length.
  - intros j Hj. apply set_bytes_nth.
    destruct (Nat.eq_dec b' b) as [->|]; [right|now left].
    destruct H as [H|H]; [lia|].
    destruct (Nat.lt_ge_cases j i); [now left|right].
    destruct (Nat.lt_ge_cases j (i + length vs)); [|lia].
    exfalso. apply Hj, H. lia.
Qed.

Lemma pres_set_byte (W : perm) n0 h b i v : (n0 <= b \/ W b i) -> pres W n0 h (set_byte h b i v).
Proof.
  intros H. apply (pres_set_bytes W n0 h b i [v]). destruct H as [H|H]; [now left|right].
  simpl. intros j Hj. replace j with i by lia. exact H.
Qed.

(* ---- ownership ---- *)
Definition fresh (n0 : nat) (s : slice) : Prop := n0 <= sbuf s.

Definition wr_ok (W : perm) (n0 : nat) (s : slice) : Prop :=
  fresh n0 s \/ forall i, soff s <= i < soff s + slen s -> W (sbuf s) i.

Definition own (W : perm) (n0 : nat) (s : slice) : Prop :=
  slen s <= scap s /\ (fresh n0 s \/ forall i, soff s <= i < soff s + scap s -> W (sbuf s) i).

Lemma own_wr_ok (W : perm) n0 s : own W n0 s -> wr_ok W n0 s.
Proof. intros [HL [H|H]]; [now left|right]. intros i Hi. apply H. lia. Qed.

Lemma own_nil (W : perm) n0 : own W n0 nil_slice.
Proof. split; simpl; auto. right. intros i Hi. lia. Qed.

Lemma window_wr_ok n0 s : wr_ok (window s) n0 s.
Proof. right. intros i Hi. split; auto. Qed.

Lemma own_sub (W : perm) n0 s a b s' : own W n0 s -> sl_sub s a b = Ok s' -> own W n0 s'.
Proof.
  unfold sl_sub. intros [HL HO] H.
  destruct ((0 <=? a)%Z && (a <=? b)%Z && (b <=? Z.of_nat (scap s))%Z) eqn:E; [|discriminate].
  inversion H; subst s'; clear H.
  apply andb_true_iff in E as [E E3]. apply andb_true_iff in E as [E1 E2].
  apply Z.leb_le in E1, E2, E3.
  split; simpl; [lia|]. destruct HO as [HO|HO]; [now left|right].
  intros i Hi. apply HO. lia.
Qed.

Lemma wr_ok_sub (W : perm) n0 s a b s' :
  wr_ok W n0 s -> (b <= Z.of_nat (slen s))%Z -> sl_sub s a b = Ok s' -> wr_ok W n0 s'.
Proof.
  unfold sl_sub. intros HO Hb H.
  destruct ((0 <=? a)%Z && (a <=? b)%Z && (b <=? Z.of_nat (scap s))%Z) eqn:E; [|discriminate].
  inversion H; subst s'; clear H.
  apply andb_true_iff in E as [E E3]. apply andb_true_iff in E as [E1 E2].
  apply Z.leb_le in E1, E2, E3.
  destruct HO as [HO|HO]; [now left|right]. simpl.
  intros i Hi. apply HO. lia.
Qed.

Lemma fresh_sub n0 s a b s' : fresh n0 s -> sl_sub s a b = Ok s' -> fresh n0 s'.
Proof.
  unfold sl_sub, fresh. intros HF H.
  destruct ((0 <=? a)%Z && (a <=? b)%Z && (b <=? Z.of_nat (scap s))%Z); [|discriminate].
  inversion H; subst s'. exact HF.
Qed.

(* ---- triples ---- *)
Definition safe {A} (W : perm) (n0 : nat) (m : M A) (Q : A -> Prop) : Prop :=
  forall h, n0 <= length h ->
    pres W n0 h (fst (m h)) /\ forall a, snd (m h) = Ok a -> Q a.

Lemma safe_ret {A} (W : perm) n0 (a : A) (Q : A -> Prop) : Q a -> safe W n0 (retM a) Q.
Proof. intros H h _. split; [apply pres_refl|]. simpl. intros a' E. now inversion E; subst. Qed.

Lemma safe_fail {A} (W : perm) n0 (Q : A -> Prop) : safe W n0 failM Q.
Proof. intros h _. split; [apply pres_refl|]. simpl. discriminate. Qed.

Lemma safe_panic {A} (W : perm) n0 (Q : A -> Prop) : safe W n0 panicM Q.
Proof. intros h _. split; [apply pres_refl|]. simpl. discriminate. Qed.

Lemma safe_oof {A} (W : perm) n0 (Q : A -> Prop) : safe W n0 (fun h => (h, @OutOfFuel A)) Q.
Proof. intros h _. split; [apply pres_refl|]. simpl. discriminate. Qed.

Lemma safe_lift {A} (W : perm) n0 (o : outcome A) (Q : A -> Prop) :
  (forall a, o = Ok a -> Q a) -> safe W n0 (liftM o) Q.
Proof. intros H h _. split; [apply pres_refl|]. exact H. Qed.

Lemma safe_conseq {A} (W : perm) n0 (m : M A) (Q Q' : A -> Prop) :
  safe W n0 m Q -> (forall a, Q a -> Q' a) -> safe W n0 m Q'.
Proof. intros H HQ h Hn. destruct (H h Hn) as [P R]. split; auto. Qed.

Lemma safe_bind {A B} (W : perm) n0 (m : M A) (f : A -> M B) (Q : A -> Prop) (R : B -> Prop) :
  safe W n0 m Q -> (forall a, Q a -> safe W n0 (f a) R) -> safe W n0 (bindM m f) R.
Proof.
  intros Hm Hf h Hn. unfold bindM. destruct (Hm h Hn) as [P1 Q1].
  destruct (m h) as [h1 [a| | |]] eqn:E; simpl in *; try (split; [exact P1|discriminate]).
  assert (Hn1 : n0 <= length h1) by (destruct P1; lia).
  destruct (Hf a (Q1 a eq_refl) h1 Hn1) as [P2 Q2].
  split; [eapply pres_trans; eauto|exact Q2].
Qed.

Lemma safe_rd (W : perm) n0 s i : safe W n0 (sl_rd s i) (fun _ => True).
Proof.
  intros h _. unfold sl_rd. destruct ((0 <=? i)%Z && (i <? zlen s)%Z); simpl; split; auto using pres_refl.
Qed.

Lemma safe_load (W : perm) n0 s : safe W n0 (loadM s) (fun _ => True).
Proof. intros h _. split; [apply pres_refl|auto]. Qed.

Lemma safe_subM (W : perm) n0 s a b : safe W n0 (sl_subM s a b) (fun s' => sl_sub s a b = Ok s').
Proof. apply safe_lift. auto. Qed.

Lemma safe_wr (W : perm) n0 s i v : wr_ok W n0 s -> safe W n0 (sl_wr s i v) (fun _ => True).
Proof.
  intros HO h _. unfold sl_wr, zlen.
  destruct ((0 <=? i)%Z && (i <? Z.of_nat (slen s))%Z) eqn:E; simpl; split; auto using pres_refl.
  apply andb_true_iff in E as [E1 E2]. apply Z.leb_le in E1. apply Z.ltb_lt in E2.
  apply pres_set_byte. destruct HO as [HO|HO]; [now left|right]. apply HO. lia.
Qed.

Lemma safe_mk (W : perm) n0 n c : safe W n0 (sl_mk n c) (fun s => fresh n0 s /\ own W n0 s /\ slen s = n).
Proof.
  intros h Hn. unfold sl_mk. destruct (n <=? c)%nat eqn:E; simpl.
  - split; [now apply pres_alloc|]. intros a Ha. inversion Ha; subst a; clear Ha.
    apply Nat.leb_le in E. unfold own, fresh; simpl. auto.
  - split; [apply pres_refl|discriminate].
Qed.

Lemma safe_lit (W : perm) n0 bs : safe W n0 (sl_lit bs) (fun s => fresh n0 s /\ own W n0 s).
Proof.
  intros h Hn. unfold sl_lit; simpl. split; [now apply pres_alloc|].
  intros a Ha. inversion Ha; subst a. unfold own, fresh; simpl. auto.
Qed.

Lemma safe_app (W : perm) n0 g s vs : own W n0 s -> safe W n0 (sl_app g s vs) (own W n0).
Proof.
  intros [HL HO] h Hn. unfold sl_app.
  destruct (slen s + length vs <=? scap s)%nat eqn:E; simpl.
  - apply Nat.leb_le in E. split.
    + apply pres_set_bytes. destruct HO as [HO|HO]; [now left|right]. intros j Hj. apply HO. lia.
    + intros a Ha. inversion Ha; subst a. split; simpl; [lia|exact HO].
  - split; [now apply pres_alloc|]. intros a Ha. inversion Ha; subst a.
    unfold own, fresh; simpl. split; [lia|now left].
Qed.

Lemma safe_app_sl (W : perm) n0 g dst src : own W n0 dst -> safe W n0 (sl_app_sl g dst src) (own W n0).
Proof. intros H h Hn. unfold sl_app_sl. now apply safe_app. Qed.

(* a fresh destination stays fresh or is replaced by a newer buffer *)
Lemma safe_app_fresh (W : perm) n0 g s vs :
  own W n0 s -> fresh n0 s -> safe W n0 (sl_app g s vs) (fun s' => fresh n0 s' /\ own W n0 s').
Proof.
  intros HO HF h Hn. destruct (safe_app W n0 g s vs HO h Hn) as [P Q]. split; auto.
  intros a Ha. split; [|auto]. revert Ha. unfold sl_app.
  destruct (slen s + length vs <=? scap s)%nat; simpl; intros Ha; inversion Ha; subst a; unfold fresh; simpl; auto.
Qed.

Lemma safe_cpy (W : perm) n0 dst src : wr_ok W n0 dst -> safe W n0 (sl_cpy dst src) (fun _ => True).
Proof.
  intros HO h _. unfold sl_cpy; simpl. split; auto.
  apply pres_set_bytes. destruct HO as [HO|HO]; [now left|right].
  intros j Hj. apply HO. rewrite firstn_length in Hj. lia.
Qed.

Lemma safe_cpy_bytes (W : perm) n0 dst bs : wr_ok W n0 dst -> safe W n0 (sl_cpy_bytes dst bs) (fun _ => True).
Proof.
  intros HO h _. unfold sl_cpy_bytes; simpl. split; auto.
  apply pres_set_bytes. destruct HO as [HO|HO]; [now left|right].
  intros j Hj. apply HO. rewrite firstn_length in Hj. lia.
Qed.

(* views of slices depend only on their buffer *)
Lemma bytes_of_ext h1 h2 s : buffer h1 (sbuf s) = buffer h2 (sbuf s) -> bytes_of h1 s = bytes_of h2 s.
Proof. unfold bytes_of. now intros ->. Qed.

Lemma pres_length (W : perm) n0 h h' : pres W n0 h h' -> length h <= length h'.
Proof. now intros [H _]. Qed.

(* running a safe computation from h, as one statement about the result pair *)
Lemma safe_run {A} (W : perm) (m : M A) (Q : A -> Prop) h h' r :
  safe W (length h) m Q -> m h = (h', r) -> pres W (length h) h h' /\ forall a, r = Ok a -> Q a.
Proof. intros H E. destruct (H h (le_n _)) as [P R]. rewrite E in *. auto. Qed.
