// Post-history cases for C12: after a short history of AddChannel calls the RX1
// channel obtained from the channel index and the RX1 frequency obtained from the
// uplink frequency must still denote the same existing downlink channel, for every
// uplink channel of the band object (default and added ones).
package main

import (
	"fmt"

	"verifharness/bandcfg"
	"verifharness/internal/cases"
	"verifharness/internal/cq"
)

func rx1History(s *cases.Set, c bandcfg.Config, ops []bandcfg.Op, kind string) {
	b, err := c.New()
	if err != nil {
		return
	}
	_, errs := bandcfg.Apply(b, ops)
	idxs := b.GetUplinkChannelIndices()
	n := len(idxs)
	for _, ch := range idxs {
		ch := ch
		u, err := b.GetUplinkChannel(ch)
		if err != nil {
			s.Fail(cases.GoFail{Key: fmt.Sprintf("rx1hist:%s:ops=%s:ch=%d", c.Key(), bandcfg.OpsKey(ops), ch),
				What:   "GetUplinkChannelIndices lists an index that GetUplinkChannel rejects: " + err.Error(),
				Replay: map[string]interface{}{"name": string(c.Name), "history": bandcfg.OpsReplay(ops), "channel": ch}})
			continue
		}
		var j int
		haveJ := false
		oIdx := oz(func() (int64, error) {
			v, err := b.GetRX1ChannelIndexForUplinkChannelIndex(ch)
			if err == nil {
				j, haveJ = v, true
			}
			return int64(v), err
		})
		oDown := cq.Err
		if haveJ {
			oDown = oz(func() (int64, error) { d, err := b.GetDownlinkChannel(j); return int64(d.Frequency), err })
		}
		oFreq := oz(func() (int64, error) {
			v, err := b.GetRX1FrequencyForUplinkFrequency(u.Frequency)
			return int64(v), err
		})
		s.Add(cases.Case{
			Term: fmt.Sprintf("CRx1ChHist %d %s %s %d%%Z %s %d%%Z %s %s %s", c.Index, bandcfg.Ops(ops), errs, n, cq.Z(int64(ch)), u.Frequency, oIdx, oDown, oFreq),
			Key:  fmt.Sprintf("rx1hist:%s:ops=%s:ch=%d", c.Key(), bandcfg.OpsKey(ops), ch), Kind: kind, Nontrivial: true,
			Replay: map[string]interface{}{"api": "GetConfig(name, repeater, dwell); history; then for uplink channel ch: GetRX1ChannelIndexForUplinkChannelIndex(ch) -> j, GetDownlinkChannel(j).Frequency, GetRX1FrequencyForUplinkFrequency(GetUplinkChannel(ch).Frequency)",
				"name": string(c.Name), "repeater": c.Repeater, "dwell400ms": c.Dwell, "history": bandcfg.OpsReplay(ops), "channel": ch,
				"uplink_frequency": u.Frequency, "observed_rx1_index": oIdx, "observed_downlink_frequency_at_rx1_index": oDown, "observed_rx1_frequency": oFreq}})
	}
}

func rx1Histories(s *cases.Set, r *cq.RNG, thorough bool, cfgs []bandcfg.Config) {
	// corpus of past failures: EU868 with 868.3 MHz a second time for DR6 (250 kHz), then 867.1 MHz
	// (seeded defect: AddChannel skipped the downlink entry for a frequency that already existed)
	for _, c := range cfgs {
		if c.Name == "EU868" {
			rx1History(s, c, []bandcfg.Op{{Freq: 868300000, MinDR: 6, MaxDR: 6}, {Freq: 867100000, MinDR: 0, MaxDR: 5}}, "rx1-channel-after-history-corpus")
		}
	}
	for _, c := range cfgs {
		b, err := c.New()
		if err != nil {
			continue
		}
		base := bandcfg.UplinkFrequencies(b)
		runs := bandcfg.UplinkRuns(b)
		if len(base) == 0 || len(runs) == 0 {
			continue
		}
		top := runs[len(runs)-1][1]
		lo0, hi0 := runs[0][0], runs[0][1]
		fresh := func(k int) uint32 { return base[0] + uint32(k)*200000 }
		if b.AddChannel(fresh(50), lo0, hi0) != nil {
			// the band does not support extra channels: one refused call, nothing changes
			if !c.Repeater && !c.Dwell || thorough {
				rx1History(s, c, []bandcfg.Op{{fresh(50), lo0, hi0}}, "rx1-channel-after-refused-add")
			}
			continue
		}
		dup := base[len(base)/2]
		// a default frequency a second time with another DR range, then a new frequency
		rx1History(s, c, []bandcfg.Op{{dup, top, top}, {fresh(5), lo0, hi0}}, "rx1-channel-after-history")
		// a new frequency twice (different DR ranges), then another new one, then a default one again
		rx1History(s, c, []bandcfg.Op{{fresh(7), lo0, hi0}, {fresh(7), top, top}, {fresh(9), lo0, lo0}, {base[0], hi0, hi0}}, "rx1-channel-after-history")
		n := 2
		if thorough {
			n = 40
		}
		for k := 0; k < n; k++ {
			rx1History(s, c, bandcfg.RandomHistory(r, base, runs, 1+r.Intn(5)), "rx1-channel-after-history")
		}
	}
}
