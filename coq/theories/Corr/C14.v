(* Correspondence cases for C14: the LinkADRReq planner / apply models against
   the implementation, and the property evaluated on what the implementation
   returned (using only observed values: channel count, enabled and custom
   index lists, payloads, apply result, encoder output). *)
From Coq Require Import List NArith ZArith Bool String.
From LW Require Export Base.Outcome Band.Channels Band.Planner.
From LW Require Import Band.PlannerSpec Band.CrossLayer.
From LWGen Require Import ChannelsGen.
Import ListNotations.
Open Scope Z_scope.

(* compact payload constructor for case files: DataRate TXPower ChMask(value) ChMaskCntl NbRep *)
Definition P (dr txp mask cntl nbrep : N) : payload :=
  mkPayload (Z.of_N dr) (Z.of_N txp) (val_bits 16 (Z.of_N mask)) (Z.of_N cntl) (Z.of_N nbrep).

Inductive case :=
(* configuration index into ChannelsGen.configs, history, device channels;
   observed after the history: number of channels, enabled and custom indices;
   observed plan; observed apply of that plan to the device channels *)
| CPlan (cfg : nat) (ops : list op) (dev : list Z)
        (o_n : Z) (o_en o_cus : list Z)
        (o_plan : outcome (list payload)) (o_apply : outcome (list Z))
(* the planned payloads through LinkADRReqPayload.MarshalBinary / UnmarshalBinary *)
| CEnc (o_n : Z) (dev : list Z) (pls : list payload)
       (o_bytes : list (outcome (list N))) (o_back : list (outcome payload))
(* apply on an arbitrary payload list *)
| CApply (cfg : nat) (ops : list op) (dev : list Z) (pls : list payload) (o_apply : outcome (list Z)).

Definition default_st := mkSt false 0 0 [] [] [] [].
Definition cfg_name (cfg : nat) : string :=
  match nth_error configs cfg with Some (nm, _, _, _) => nm | None => EmptyString end.
Definition cfg_st (cfg : nat) : st :=
  match nth_error configs cfg with Some (_, _, _, s) => s | None => default_st end.
(* the two bands that override the planner and its inverse *)
Definition us_style (cfg : nat) : bool :=
  String.eqb (cfg_name cfg) "US915" || String.eqb (cfg_name cfg) "AU915".

Definition zlist_eqb := list_eqb Z.eqb.
Definition payload_eqb (a b : payload) : bool :=
  (p_dr a =? p_dr b) && (p_txp a =? p_txp b) && list_eqb Bool.eqb (p_mask a) (p_mask b)
  && (p_cntl a =? p_cntl b) && (p_nbrep a =? p_nbrep b).
Definition plan_eqb := outcome_eqb (list_eqb payload_eqb).
Definition zs_eqb := outcome_eqb zlist_eqb.
Definition bytesZ_eqb := outcome_eqb zlist_eqb.

Definition zrange (n : Z) : list Z := map Z.of_nat (seq 0 (Z.to_nat n)).
(* the target set from observed values only *)
Definition target_obs (n : Z) (en cus dev : list Z) : list Z :=
  filter (fun i => zmem i en && (negb (zmem i cus) || zmem i dev)) (zrange n).

Definition check (c : case) : N :=
  match c with
  | CPlan cfg ops dev o_n o_en o_cus o_plan o_apply =>
    let us := us_style cfg in
    let s := run (cfg_st cfg) ops in
    let pls := match o_plan with Ok l => l | _ => [] end in
    (* the channels a device cannot know are the appended ones: indices n0 .. n-1, n0 = size of
       the band's own plan (the custom flag of the implementation is checked against that) *)
    let n0 := zlen (up (cfg_st cfg)) in
    let cus_spec := map (Z.add n0) (zrange (o_n - n0)) in
    let tgt := target_obs o_n o_en cus_spec dev in
    code ((zlen (up s) =? o_n) && zlist_eqb (get_enabled_uplink_channel_indices s) o_en
          && zlist_eqb (get_custom_uplink_channel_indices s) o_cus
          && plan_eqb (plan us 16 s dev) o_plan
          && zs_eqb (apply us 16 s dev pls) o_apply)
         (is_ok o_plan && negb (is_panic o_apply)
          (* every appended channel is custom, every channel of the band's own plan is not *)
          && zlist_eqb o_cus cus_spec
          (* soundness, for every device list (entries outside the plan are dropped by the
             planner and ignored by apply); plans of more than 256 channels fail here: finding
             C14-2, matched by its key (n=...) *)
          && zs_eqb o_apply (Ok tgt)
          (* at most one payload per 16-channel block, plus one *)
          && (Z.of_nat (List.length pls) <=? blocks 16 o_n + 1)
          (* nothing when the device already matches on the channels of the plan *)
          && (if same_setb (known_channels o_n dev) tgt then match pls with [] => true | _ => false end else true))
  | CEnc o_n dev pls o_bytes o_back =>
    let ob := map (omap (map Z.of_N)) o_bytes in
    code (list_eqb bytesZ_eqb (map linkadrreq_marshal pls) ob
          && list_eqb (outcome_eqb payload_eqb)
               (map (fun o => match o with Ok b => linkadrreq_unmarshal b | _ => Err end) ob) o_back)
         (* every planned payload is encodable, for every device list; plans of more than 128
            channels fail here: finding C14-1, matched by its key (n=...) *)
         (forallb encodable pls && forallb is_ok o_bytes
          && list_eqb (outcome_eqb payload_eqb) o_back (map Ok pls))
  | CApply cfg ops dev pls o_apply =>
    let s := run (cfg_st cfg) ops in
    code (zs_eqb (apply (us_style cfg) 16 s dev pls) o_apply) (negb (is_panic o_apply))
  end.

Definition run_cases := run_with check.
