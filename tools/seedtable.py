#!/usr/bin/env python3
"""Prints the markdown table of DESIGN.md section 11 from seeded/*/meta.json."""
import os, json, re
rows = []
for d in sorted(os.listdir("/verif/seeded")):
    mp = os.path.join("/verif/seeded", d, "meta.json")
    if not os.path.exists(mp): continue
    m = json.load(open(mp))
    patch = open(os.path.join("/verif/seeded", d, "patch.diff")).read()
    files = sorted(set(re.findall(r"^\+\+\+ b/(\S+)", patch, re.M)))
    c = m.get("confirmed_by_lead", {})
    own = m.get("property", d[:3])
    caught = []
    for k in c.get("checks", []):
        if k.get("violation"):
            caught.append(k["check"] + (" (obligation)" if k.get("no_failing_input_found") else ""))
    needs = (m.get("needs") or m.get("summary") or "").replace("\n", " ").replace("|", "/")
    if len(needs) > 170: needs = needs[:167] + "…"
    rows.append((d, m.get("round", 1), ", ".join(files), needs, ", ".join(caught) or ("not claimed" if m.get("claimed") is False else "NOT CAUGHT"), c.get("own_check_first_run", "caught")))
print("| id | round | files changed | needs, to manifest | reported by (final) | own check, first run |")
print("|----|-------|---------------|--------------------|---------------------|----------------------|")
for r in rows:
    print("| %s | %s | %s | %s | %s | %s |" % r)
