(* AES-128/192/256 (AESAny.v): the expanded keys are well-formed (11 / 13 / 15
   round keys of 16 bytes), so the inverse laws of AESInv.v, which hold over any
   list of well-formed round keys, give decrypt (encrypt b) = b and the converse
   for every key size; the generic FIPS-197 key expansion with Nk = 4 is the
   AES-128 expansion of AES.v for every key; a key is accepted exactly when it
   has 16, 24 or 32 bytes. *)
From Coq Require Import List NArith Bool Lia Arith.
From LW Require Import Base.Bytes Crypto.AES Crypto.AESInv Crypto.CMACProofs Crypto.AESAny.
Import ListNotations.
Open Scope N_scope.

Definition w4 (w : list N) : Prop := length w = 4%nat /\ Forall byte w.

Lemma word0_w4 : w4 word0.
Proof. split; [reflexivity|]. unfold word0. repeat constructor. Qed.

Lemma last_w4 win : Forall w4 win -> w4 (last win word0).
Proof.
  induction 1 as [|w l Hw Hl IH]; [apply word0_w4|].
  destruct l as [|w' l']; [exact Hw|exact IH].
Qed.

Lemma hd_w4 win : Forall w4 win -> w4 (hd word0 win).
Proof. intros [|w l Hw _]; [apply word0_w4|exact Hw]. Qed.

Lemma rot_sub_rcon_w4 w rc : w4 w -> byte rc -> w4 (rot_sub_rcon w rc).
Proof.
  intros [Hl Hb] Hrc.
  destruct w as [|a [|b [|c [|d [|e w]]]]]; try (cbn [length] in Hl; discriminate Hl).
  pose proof (Forall_inv Hb) as Ha. pose proof (Forall_inv_tail Hb) as Hb1.
  pose proof (Forall_inv Hb1) as Hbb. pose proof (Forall_inv_tail Hb1) as Hb2.
  pose proof (Forall_inv Hb2) as Hc. pose proof (Forall_inv_tail Hb2) as Hb3.
  pose proof (Forall_inv Hb3) as Hd.
  split; [reflexivity|]. cbn [rot_sub_rcon].
  repeat constructor; try (apply sub_byte; assumption).
  apply lxor_byte; [apply sub_byte; assumption|exact Hrc].
Qed.

Lemma sub_word_w4 w : w4 w -> w4 (sub_word w).
Proof.
  intros [Hl Hb]. split; [unfold sub_word; now rewrite map_length|].
  unfold sub_word. apply Forall_forall. intros x Hx. apply in_map_iff in Hx.
  destruct Hx as [y [<- Hy]]. apply sub_byte. revert y Hy. apply Forall_forall, Hb.
Qed.

Lemma xor_w4 a b : w4 a -> w4 b -> w4 (xor_bytes a b).
Proof.
  intros [La Ha] [Lb Hb]. split; [rewrite xor_bytes_length, La, Lb; reflexivity|].
  apply xor_bytes_byte; assumption.
Qed.

Lemma Forall_tl {A} (P : A -> Prop) l : Forall P l -> Forall P (tl l).
Proof. intros [|x l' _ H]; [constructor|exact H]. Qed.

Lemma hd_byte rcs : Forall byte rcs -> byte (hd 0 rcs).
Proof. intros [|x l H _]; [reflexivity|exact H]. Qed.

Lemma gen_words_w4 fuel nk : forall pos rcs win, Forall byte rcs -> Forall w4 win ->
  Forall w4 (gen_words fuel nk pos rcs win).
Proof.
  induction fuel as [|f IH]; intros pos rcs win Hrcs Hwin; cbn [gen_words]; [constructor|].
  cbv zeta.
  assert (Hprev : w4 (last win word0)) by (apply last_w4, Hwin).
  assert (Htemp : w4 (if Nat.eqb pos 0 then rot_sub_rcon (last win word0) (hd 0 rcs)
                      else if Nat.ltb 6 nk && Nat.eqb pos 4 then sub_word (last win word0)
                      else last win word0)).
  { destruct (Nat.eqb pos 0); [apply rot_sub_rcon_w4; [exact Hprev|apply hd_byte, Hrcs]|].
    destruct (Nat.ltb 6 nk && Nat.eqb pos 4); [apply sub_word_w4, Hprev|exact Hprev]. }
  pose proof (xor_w4 _ _ (hd_w4 win Hwin) Htemp) as Hw.
  constructor; [exact Hw|]. apply IH.
  - destruct (Nat.eqb pos 0); [apply Forall_tl, Hrcs|exact Hrcs].
  - apply Forall_app. split; [apply Forall_tl, Hwin|constructor; [exact Hw|constructor]].
Qed.

Lemma gen_words_length fuel nk : forall pos rcs win, length (gen_words fuel nk pos rcs win) = fuel.
Proof.
  induction fuel as [|f IH]; intros pos rcs win; cbn [gen_words length]; [reflexivity|].
  cbv zeta. now rewrite IH.
Qed.

(* ---- cutting into pieces and gluing back ---- *)
Definition piece (sz : nat) (c : list N) : Prop := length c = sz /\ Forall byte c.

Lemma chunks_spec sz n : forall l, length l = (sz * n)%nat -> Forall byte l ->
  Forall (piece sz) (chunks sz n l) /\ concat (chunks sz n l) = l.
Proof.
  induction n as [|n IH]; intros l Hl Hb.
  - rewrite Nat.mul_0_r in Hl. destruct l; [|discriminate Hl]. cbn [chunks concat]. auto.
  - cbn [chunks concat].
    destruct (IH (skipn sz l)) as [I1 I2].
    { rewrite skipn_length. lia. } { apply Forall_skipn', Hb. }
    split.
    + constructor; [|exact I1]. split; [rewrite firstn_length; lia|apply Forall_firstn', Hb].
    + rewrite I2. apply firstn_skipn.
Qed.

Lemma chunks_length sz n l : length (chunks sz n l) = n.
Proof. revert l; induction n; intros l; cbn [chunks length]; auto. Qed.

Lemma chunks_concat sz rs : Forall (fun r => length r = sz) rs -> chunks sz (length rs) (concat rs) = rs.
Proof.
  induction 1 as [|r rs Hr _ IH]; [reflexivity|].
  cbn [concat length chunks].
  rewrite (take_app_n sz r) by exact Hr. rewrite (drop_app_n sz r) by exact Hr. now rewrite IH.
Qed.

Lemma concat_pieces_length sz rs : Forall (piece sz) rs -> length (concat rs) = (sz * length rs)%nat.
Proof.
  induction 1 as [|r rs [Hr _] _ IH]; [cbn; lia|].
  cbn [concat length]. rewrite app_length, Hr, IH. lia.
Qed.

Lemma concat_pieces_bytes sz rs : Forall (piece sz) rs -> Forall byte (concat rs).
Proof.
  induction 1 as [|r rs [_ Hr] _ IH]; [constructor|]. cbn [concat]. apply Forall_app. auto.
Qed.

Lemma piece4_w4 rs : Forall (piece 4) rs -> Forall w4 rs.
Proof. intros H. eapply Forall_impl; [|exact H]. intros a Ha. exact Ha. Qed.

Lemma piece16_st16 rs : Forall (piece 16) rs -> Forall st16 rs.
Proof. intros H. eapply Forall_impl; [|exact H]. intros a Ha. exact Ha. Qed.

(* ---- the expanded key is well-formed ---- *)
Lemma expand_nk_wf nk key : length key = (4 * nk)%nat -> Forall byte key ->
  Forall st16 (expand_nk nk key) /\ length (expand_nk nk key) = (nk + 7)%nat.
Proof.
  intros Hl Hb. unfold expand_nk. split; [|apply chunks_length].
  destruct (chunks_spec 4 nk key Hl Hb) as [C1 C2].
  set (g := gen_words (4 * (nk + 7) - nk) nk 0 rcons (chunks 4 nk key)).
  assert (Hg : Forall w4 g) by (apply gen_words_w4; [apply rcons_bytes|apply piece4_w4, C1]).
  assert (Hall : Forall (piece 4) (chunks 4 nk key ++ g)).
  { apply Forall_app. split; [exact C1|]. eapply Forall_impl; [|exact Hg]. intros a Ha. exact Ha. }
  apply piece16_st16, chunks_spec.
  - rewrite (concat_pieces_length 4) by exact Hall.
    rewrite app_length, chunks_length. unfold g. rewrite gen_words_length. lia.
  - apply (concat_pieces_bytes 4), Hall.
Qed.

Lemma expand_nk_st16 nk key : length key = (4 * nk)%nat -> Forall byte key -> Forall st16 (expand_nk nk key).
Proof. intros Hl Hb. apply (expand_nk_wf nk key Hl Hb). Qed.

(* ---- crypto/aes.NewCipher accepts exactly 16, 24 and 32 bytes ---- *)
Definition key_len_ok (key : list N) : Prop :=
  length key = 16%nat \/ length key = 24%nat \/ length key = 32%nat.

Lemma expand_key_any_16 k : length k = 16%nat -> expand_key_any k = Some (expand_nk 4 k).
Proof. intros H. unfold expand_key_any. now rewrite H. Qed.
Lemma expand_key_any_24 k : length k = 24%nat -> expand_key_any k = Some (expand_nk 6 k).
Proof. intros H. unfold expand_key_any. now rewrite H. Qed.
Lemma expand_key_any_32 k : length k = 32%nat -> expand_key_any k = Some (expand_nk 8 k).
Proof. intros H. unfold expand_key_any. now rewrite H. Qed.

Theorem expand_key_any_some_iff k : (exists rks, expand_key_any k = Some rks) <-> key_len_ok k.
Proof.
  unfold expand_key_any, key_len_ok. split.
  - intros [rks H].
    destruct (Nat.eqb (length k) 16) eqn:E1; [apply Nat.eqb_eq in E1; auto|].
    destruct (Nat.eqb (length k) 24) eqn:E2; [apply Nat.eqb_eq in E2; auto|].
    destruct (Nat.eqb (length k) 32) eqn:E3; [apply Nat.eqb_eq in E3; auto|discriminate H].
  - intros [H|[H|H]]; rewrite H; cbn [Nat.eqb]; eauto.
Qed.

Theorem expand_key_any_none_iff k : expand_key_any k = None <-> ~ key_len_ok k.
Proof.
  split.
  - intros H Hk. apply expand_key_any_some_iff in Hk. destruct Hk as [rks Hr]. congruence.
  - intros H. destruct (expand_key_any k) as [rks|] eqn:E; [|reflexivity].
    exfalso. apply H, expand_key_any_some_iff. eauto.
Qed.

Theorem expand_key_any_wf k rks : Forall byte k -> expand_key_any k = Some rks ->
  Forall st16 rks /\ (length rks = 11 \/ length rks = 13 \/ length rks = 15)%nat /\
  length rks = (length k / 4 + 7)%nat.
Proof.
  intros Hb H. unfold expand_key_any in H.
  destruct (Nat.eqb (length k) 16) eqn:E1.
  { apply Nat.eqb_eq in E1. inversion H; subst rks.
    destruct (expand_nk_wf 4 k E1 Hb) as [W L]. rewrite L, E1. repeat split; auto. }
  destruct (Nat.eqb (length k) 24) eqn:E2.
  { apply Nat.eqb_eq in E2. inversion H; subst rks.
    destruct (expand_nk_wf 6 k E2 Hb) as [W L]. rewrite L, E2. repeat split; auto. }
  destruct (Nat.eqb (length k) 32) eqn:E3; [|discriminate H].
  apply Nat.eqb_eq in E3. inversion H; subst rks.
  destruct (expand_nk_wf 8 k E3 Hb) as [W L]. rewrite L, E3. repeat split; auto.
Qed.

Lemma expand_key_any_st16 k rks : Forall byte k -> expand_key_any k = Some rks -> Forall st16 rks.
Proof. intros Hb H. apply (expand_key_any_wf k rks Hb H). Qed.

(* ---- Nk = 4: the generic routine is the AES-128 expansion of AES.v ---- *)
Lemma gen4_step f rc rcs k0 k1 k2 k3 k4 k5 k6 k7 k8 k9 k10 k11 k12 k13 k14 k15 :
  gen_words (S (S (S (S f)))) 4 0 (rc :: rcs)
    [[k0; k1; k2; k3]; [k4; k5; k6; k7]; [k8; k9; k10; k11]; [k12; k13; k14; k15]]
  = chunks 4 4 (next_round_key [k0; k1; k2; k3; k4; k5; k6; k7; k8; k9; k10; k11; k12; k13; k14; k15] rc)
    ++ gen_words f 4 0 rcs
         (chunks 4 4 (next_round_key [k0; k1; k2; k3; k4; k5; k6; k7; k8; k9; k10; k11; k12; k13; k14; k15] rc)).
Proof. reflexivity. Qed.

Lemma expand_from_hd rk rcs : expand_from rk rcs = rk :: tl (expand_from rk rcs).
Proof. destruct rcs; reflexivity. Qed.

Lemma gen4_all rcs : forall rk, len16 rk ->
  concat (gen_words (4 * length rcs) 4 0 rcs (chunks 4 4 rk)) = concat (tl (expand_from rk rcs)).
Proof.
  induction rcs as [|rc rcs IH]; intros rk Hrk; [reflexivity|].
  replace (4 * length (rc :: rcs))%nat with (S (S (S (S (4 * length rcs))))) by (cbn [length]; lia).
  pose proof (next_round_key_len16 rk rc Hrk) as Hn.
  unfold len16 in Hrk.
  destruct rk as [|k0 [|k1 [|k2 [|k3 [|k4 [|k5 [|k6 [|k7 [|k8 [|k9 [|k10 [|k11 [|k12 [|k13 [|k14 [|k15 [|k16 rk]]]]]]]]]]]]]]]]];
    try (cbn [length] in Hrk; discriminate Hrk). clear Hrk.
  change (chunks 4 4 [k0; k1; k2; k3; k4; k5; k6; k7; k8; k9; k10; k11; k12; k13; k14; k15])
    with [[k0; k1; k2; k3]; [k4; k5; k6; k7]; [k8; k9; k10; k11]; [k12; k13; k14; k15]].
  rewrite gen4_step. cbn [expand_from tl].
  set (rk' := next_round_key [k0; k1; k2; k3; k4; k5; k6; k7; k8; k9; k10; k11; k12; k13; k14; k15] rc) in *.
  clearbody rk'.
  rewrite concat_app, (IH rk' Hn).
  rewrite (expand_from_hd rk' rcs). cbn [tl concat]. f_equal.
  clear -Hn. unfold len16 in Hn.
  do 16 (destruct rk' as [|? rk']; [discriminate Hn|]). destruct rk'; [reflexivity|discriminate Hn].
Qed.

Theorem expand_nk4_expand_key k : length k = 16%nat -> expand_nk 4 k = expand_key k.
Proof.
  intros Hl. unfold expand_nk, expand_key. rewrite (norm16_id k) by exact Hl.
  change (4 * (4 + 7) - 4)%nat with (4 * length rcons)%nat.
  rewrite concat_app, (gen4_all rcons k Hl).
  assert (Hc : concat (chunks 4 4 k) = k).
  { clear -Hl. do 16 (destruct k as [|? k]; [discriminate Hl|]). destruct k; [reflexivity|discriminate Hl]. }
  rewrite Hc.
  change (k ++ concat (tl (expand_from k rcons))) with (concat (k :: tl (expand_from k rcons))).
  rewrite <- expand_from_hd.
  change (4 + 7)%nat with (length (expand_from k rcons)).
  apply chunks_concat. apply expand_from_len16, Hl.
Qed.

Theorem expand_key_any_128 k : length k = 16%nat -> expand_key_any k = Some (expand_key k).
Proof. intros H. rewrite expand_key_any_16, expand_nk4_expand_key by exact H. reflexivity. Qed.

Theorem aes_encrypt_any_128 k b : length k = 16%nat -> aes_encrypt_any k b = Some (aes_encrypt k b).
Proof. intros H. unfold aes_encrypt_any, aes_encrypt. rewrite expand_key_any_128 by exact H. exact eq_refl. Qed.

Theorem aes_decrypt_any_128 k b : length k = 16%nat -> aes_decrypt_any k b = Some (aes_decrypt k b).
Proof. intros H. unfold aes_decrypt_any, aes_decrypt. rewrite expand_key_any_128 by exact H. exact eq_refl. Qed.

(* ---- the cipher and its inverse, every key size ---- *)
Local Opaque aes_encrypt_rk aes_decrypt_rk expand_nk.

Theorem aes_any_defined k b : key_len_ok k ->
  (exists c, aes_encrypt_any k b = Some c) /\ (exists p, aes_decrypt_any k b = Some p).
Proof.
  intros Hk. apply expand_key_any_some_iff in Hk. destruct Hk as [rks Hr].
  unfold aes_encrypt_any, aes_decrypt_any. rewrite Hr. eauto.
Qed.

Theorem aes_any_key_size_error k b : ~ key_len_ok k ->
  aes_encrypt_any k b = None /\ aes_decrypt_any k b = None.
Proof.
  intros Hk. apply expand_key_any_none_iff in Hk.
  unfold aes_encrypt_any, aes_decrypt_any. now rewrite Hk.
Qed.

Theorem aes_decrypt_encrypt_any k b c : Forall byte k -> st16 b ->
  aes_encrypt_any k b = Some c -> aes_decrypt_any k c = Some b /\ st16 c.
Proof.
  intros Hk Hb. unfold aes_encrypt_any, aes_decrypt_any.
  destruct (expand_key_any k) as [rks|] eqn:E; [|discriminate].
  intros H. inversion H; subst c. pose proof (expand_key_any_st16 k rks Hk E) as Hr.
  split; [|apply aes_encrypt_rk_st16; [exact Hr|apply Hb]].
  f_equal. apply aes_decrypt_encrypt_rk; assumption.
Qed.

Theorem aes_encrypt_decrypt_any k b p : Forall byte k -> st16 b ->
  aes_decrypt_any k b = Some p -> aes_encrypt_any k p = Some b /\ st16 p.
Proof.
  intros Hk Hb. unfold aes_encrypt_any, aes_decrypt_any.
  destruct (expand_key_any k) as [rks|] eqn:E; [|discriminate].
  intros H. inversion H; subst p. pose proof (expand_key_any_st16 k rks Hk E) as Hr.
  split; [|apply aes_decrypt_rk_st16; [exact Hr|apply Hb]].
  f_equal. apply aes_encrypt_decrypt_rk; assumption.
Qed.

(* closed form: all three sizes, 16-byte blocks *)
Theorem aes_any_inverse k b : key_len_ok k -> Forall byte k -> length b = 16%nat -> Forall byte b ->
  exists c, aes_encrypt_any k b = Some c /\ length c = 16%nat /\ Forall byte c /\
            aes_decrypt_any k c = Some b.
Proof.
  intros Hk Hkb Hl Hb. destruct (aes_any_defined k b Hk) as [[c Hc] _]. exists c.
  destruct (aes_decrypt_encrypt_any k b c Hkb (conj Hl Hb) Hc) as [D [L B]]. auto.
Qed.
