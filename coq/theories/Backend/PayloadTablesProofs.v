(* The tables of PayloadTables.v are usable descriptions (distinct valid keys in every struct, 64-bit integer
   ranges, pointers to types that never print null, nesting below the bound of PayloadProofs.decode_encode), hence
   the round-trip theorem for each of the 20 payload types. *)
From Coq Require Import List NArith ZArith Bool.
From LW Require Import Backend.Json Backend.Payload Backend.PayloadProofs Backend.PayloadFloat Backend.PayloadTables.
Import ListNotations.

Lemma all_usable : forallb usable (payload_types ++ nested_types) = true.
Proof. vm_compute. reflexivity. Qed.

Lemma float_free_ones : forallb float_free float_free_payload_types = true.
Proof. vm_compute. reflexivity. Qed.

Lemma float_free_sublist : forall t, In t float_free_payload_types -> In t payload_types.
Proof.
  intros t H. unfold float_free_payload_types in H. unfold payload_types.
  repeat (destruct H as [<-|H]; [cbn; tauto|]). destruct H.
Qed.

(* every payload type and nested object, given the premise about the decimal text of floats *)
Theorem payload_roundtrip c t v : codec_ok c -> In t (payload_types ++ nested_types) ->
  has_type t false v = true -> decode c t (encode c t v) = Some (norm t false v).
Proof.
  intros Hc Hin Ht. pose proof all_usable as U. rewrite forallb_forall in U.
  destruct (usable_spec t (U t Hin)) as [W D]. now apply decode_encode_floats.
Qed.

(* the payload types without float fields: unconditionally *)
Theorem payload_roundtrip_float_free c t v : In t float_free_payload_types ->
  has_type t false v = true -> decode c t (encode c t v) = Some (norm t false v).
Proof.
  intros Hin Ht. pose proof all_usable as U. rewrite forallb_forall in U.
  destruct (usable_spec t (U t (in_or_app _ _ _ (or_introl (float_free_sublist t Hin))))) as [W D].
  pose proof float_free_ones as F. rewrite forallb_forall in F.
  apply decode_encode; [left; exact (F t Hin)|exact W|exact D|exact Ht].
Qed.
