(* C09 (frame decoders): the checked decoders - every Go slice expression and
   index through go_slice / go_index - never panic: on every input they return
   exactly what the value model returns, which is Ok or Err by construction. *)
From Coq Require Import List NArith ZArith Bool Lia.
From Coq Require Import ZifyN ZifyNat ZifyBool.
From LW Require Import Base.Outcome Base.Bytes Mac.Commands Mac.Stream Frame.Model Frame.Checked.
Import ListNotations.
Open Scope N_scope.

Lemma go_slice_ok {A} (s : list A) (a b : Z) :
  (0 <= a)%Z -> (a <= b)%Z -> (b <= Z.of_nat (length s))%Z ->
  go_slice s a b = Ok (firstn (Z.to_nat b - Z.to_nat a) (skipn (Z.to_nat a) s)).
Proof.
  intros H1 H2 H3. unfold go_slice.
  replace ((0 <=? a)%Z && (a <=? b)%Z && (b <=? Z.of_nat (length s))%Z) with true by lia. reflexivity.
Qed.

Lemma go_index_ok {A} (s : list A) (i : Z) (d : A) :
  (0 <= i)%Z -> (i < Z.of_nat (length s))%Z -> go_index s i = Ok (nth (Z.to_nat i) s d).
Proof.
  intros H1 H2. unfold go_index. replace (0 <=? i)%Z with true by lia.
  destruct (nth_error s (Z.to_nat i)) as [x|] eqn:E.
  - f_equal. symmetry. now apply nth_error_nth.
  - apply nth_error_None in E. lia.
Qed.

Lemma skipn_length' {A} n (l : list A) : length (skipn n l) = (length l - n)%nat.
Proof. apply skipn_length. Qed.

Lemma firstn_length' {A} n (l : list A) : (n <= length l)%nat -> length (firstn n l) = n.
Proof. intros H. rewrite firstn_length. lia. Qed.

Lemma nth_firstn {A} (i n : nat) (l : list A) d : (i < n)%nat -> nth i (firstn n l) d = nth i l d.
Proof.
  revert i l. induction n as [|n IH]; intros i l H; [lia|].
  destruct l as [|x l]; [now destruct i|]. destruct i as [|i]; [reflexivity|]. cbn. apply IH. lia.
Qed.

Lemma nth_skipn {A} (i n : nat) (l : list A) d : nth i (skipn n l) d = nth (n + i) l d.
Proof.
  revert l. induction n as [|n IH]; intros l; [reflexivity|].
  destruct l as [|x l]; [now destruct i|]. cbn. apply IH.
Qed.

Lemma firstn_firstn' {A} (a b : nat) (l : list A) : (a <= b)%nat -> firstn a (firstn b l) = firstn a l.
Proof. intros H. rewrite firstn_firstn. f_equal. lia. Qed.

Lemma skipn_firstn_comm' {A} (a b : nat) (l : list A) : skipn a (firstn b l) = firstn (b - a) (skipn a l).
Proof. apply skipn_firstn_comm. Qed.

Lemma skipn_skipn' {A} (a b : nat) (l : list A) : skipn a (skipn b l) = skipn (b + a) l.
Proof.
  revert l. induction b as [|b IH]; intros l; [reflexivity|].
  destruct l as [|x l]; cbn [skipn Nat.add]; [now destruct a|apply IH].
Qed.

Theorem fhdr_chk_eq data : fhdr_unmarshal_chk data = fhdr_unmarshal data.
Proof.
  unfold fhdr_unmarshal_chk, fhdr_unmarshal, zlen.
  destruct (length data <? 7)%nat eqn:L.
  - replace (Z.of_nat (length data) <? 7)%Z with true by lia. reflexivity.
  - replace (Z.of_nat (length data) <? 7)%Z with false by lia.
    rewrite !go_slice_ok by lia. cbn [bind].
    rewrite (go_index_ok _ 0 0); [|lia|rewrite firstn_length, skipn_length; lia]. cbn [bind].
    change (Z.to_nat 0) with 0%nat. change (Z.to_nat 4) with 4%nat. change (Z.to_nat 5) with 5%nat.
    change (Z.to_nat 7) with 7%nat. change (4 - 0)%nat with 4%nat. change (5 - 4)%nat with 1%nat. change (7 - 5)%nat with 2%nat.
    change (skipn 0 data) with data.
    rewrite nth_firstn, nth_skipn by lia. change (4 + 0)%nat with 4%nat.
    destruct (7 <? length data)%nat eqn:L2.
    + replace (7 <? Z.of_nat (length data))%Z with true by lia.
      cbn [bind]. rewrite Nat2Z.id.
      rewrite (firstn_all2 (n := length data - 7) (skipn 7 data)); [reflexivity|]. pose proof (skipn_length 7 data) as X. change (Z.to_nat 7) with 7%nat in *. lia.
    + replace (7 <? Z.of_nat (length data))%Z with false by lia. reflexivity.
Qed.

Theorem mac_chk_eq data : mac_unmarshal_chk data = mac_unmarshal data.
Proof.
  unfold mac_unmarshal_chk, mac_unmarshal, zlen.
  destruct (length data <? 7)%nat eqn:L.
  - replace (Z.of_nat (length data) <? 7)%Z with true by lia. reflexivity.
  - replace (Z.of_nat (length data) <? 7)%Z with false by lia.
    rewrite (go_slice_ok data 4 5) by lia. cbn [bind].
    rewrite (go_index_ok _ 0 0); [|lia|rewrite firstn_length, skipn_length; lia]. cbn [bind].
    change (Z.to_nat 0) with 0%nat. change (Z.to_nat 4) with 4%nat. change (Z.to_nat 5) with 5%nat.
    change (5 - 4)%nat with 1%nat.
    rewrite nth_firstn, nth_skipn by lia. change (4 + 0)%nat with 4%nat.
    set (c := nth 4 data 0). set (ol := N.to_nat (N.land c 15)).
    assert (Eol : Z.of_N (N.land c 15) = Z.of_nat ol) by (unfold ol; lia). rewrite Eol.
    destruct (length data <? 7 + ol)%nat eqn:L2.
    + replace (Z.of_nat (length data) <? 7 + Z.of_nat ol)%Z with true by lia. reflexivity.
    + replace (Z.of_nat (length data) <? 7 + Z.of_nat ol)%Z with false by lia.
      rewrite (go_slice_ok data 0 (7 + Z.of_nat ol)) by lia. cbn [bind].
      change (Z.to_nat 0) with 0%nat. replace (Z.to_nat (7 + Z.of_nat ol) - 0)%nat with (7 + ol)%nat by lia.
      change (skipn 0 data) with data.
      rewrite fhdr_chk_eq. destruct (fhdr_unmarshal (firstn (7 + ol) data)) as [h| | |]; cbn [bind]; try reflexivity.
      destruct (7 + ol <? length data)%nat eqn:L3.
      * replace (7 + Z.of_nat ol <? Z.of_nat (length data))%Z with true by lia.
        rewrite (go_index_ok data _ 0) by lia. cbn [bind].
        replace (Z.to_nat (7 + Z.of_nat ol)) with (7 + ol)%nat by lia.
        destruct (7 + ol + 1 <? length data)%nat eqn:L4.
        -- replace (7 + Z.of_nat ol + 1 <? Z.of_nat (length data))%Z with true by lia.
           rewrite (go_slice_ok data (7 + Z.of_nat ol + 1) (Z.of_nat (length data))) by lia. cbn [bind].
           replace (Z.to_nat (7 + Z.of_nat ol + 1)) with (7 + ol + 1)%nat by lia. rewrite Nat2Z.id.
           rewrite (firstn_all2 (n := length data - (7 + ol + 1)) (skipn (7 + ol + 1) data)) by (rewrite skipn_length; lia).
           replace (0 <? Z.of_nat ol)%Z with (0 <? ol)%nat by lia.
           destruct (nth (7 + ol) data 0) as [|pp]; reflexivity.
        -- replace (7 + Z.of_nat ol + 1 <? Z.of_nat (length data))%Z with false by lia.
           replace (0 <? Z.of_nat ol)%Z with (0 <? ol)%nat by lia.
           destruct (nth (7 + ol) data 0) as [|pp]; reflexivity.
      * replace (7 + Z.of_nat ol <? Z.of_nat (length data))%Z with false by lia. cbn [bind].
        replace (7 + Z.of_nat ol + 1 <? Z.of_nat (length data))%Z with false by lia.
        replace (7 + ol + 1 <? length data)%nat with false by lia. reflexivity.
Qed.

Lemma last4_split (data : list N) : (4 <= length data)%nat ->
  exists pre a b c d, data = pre ++ [a; b; c; d].
Proof.
  intros H. exists (firstn (length data - 4) data).
  assert (Lm : length (skipn (length data - 4) data) = 4%nat) by (rewrite skipn_length; lia).
  destruct (skipn (length data - 4) data) as [|a [|b [|c [|d [|]]]]] eqn:E; cbn in Lm; try lia.
  exists a, b, c, d. rewrite <- E. symmetry. apply firstn_skipn.
Qed.

Lemma skipn_last4 (data : list N) : (4 <= length data)%nat ->
  skipn (length data - 4) data =
  [nth (length data - 4) data 0; nth (length data - 3) data 0; nth (length data - 2) data 0; nth (length data - 1) data 0].
Proof.
  intros H. destruct (last4_split data H) as (pre & a & b & c & d & ->).
  rewrite app_length. cbn [length].
  replace (length pre + 4 - 4)%nat with (length pre) by lia.
  replace (length pre + 4 - 3)%nat with (length pre + 1)%nat by lia.
  replace (length pre + 4 - 2)%nat with (length pre + 2)%nat by lia.
  replace (length pre + 4 - 1)%nat with (length pre + 3)%nat by lia.
  rewrite drop_app_length. rewrite !app_nth2 by lia.
  replace (length pre - length pre)%nat with 0%nat by lia.
  replace (length pre + 1 - length pre)%nat with 1%nat by lia.
  replace (length pre + 2 - length pre)%nat with 2%nat by lia.
  replace (length pre + 3 - length pre)%nat with 3%nat by lia.
  reflexivity.
Qed.

Theorem phy_chk_eq data : phy_unmarshal_chk data = phy_unmarshal data.
Proof.
  unfold phy_unmarshal_chk, phy_unmarshal, zlen.
  destruct (length data <? 5)%nat eqn:L.
  - replace (Z.of_nat (length data) <? 5)%Z with true by lia. reflexivity.
  - replace (Z.of_nat (length data) <? 5)%Z with false by lia.
    rewrite (go_slice_ok data 0 1) by lia. cbn [bind].
    rewrite (go_index_ok _ 0 0); [|lia|rewrite firstn_length, skipn_length; lia]. cbn [bind].
    change (Z.to_nat 0) with 0%nat. change (Z.to_nat 1) with 1%nat. change (1 - 0)%nat with 1%nat.
    change (skipn 0 data) with data. rewrite nth_firstn by lia.
    rewrite (go_slice_ok data 1 (Z.of_nat (length data) - 4)) by lia. cbn [bind].
    change (Z.to_nat 1) with 1%nat.
    replace (Z.to_nat (Z.of_nat (length data) - 4) - 1)%nat with (length data - 5)%nat by lia.
    rewrite !(go_index_ok data _ 0) by lia. cbn [bind].
    replace (Z.to_nat (Z.of_nat (length data) - 4)) with (length data - 4)%nat by lia.
    replace (Z.to_nat (Z.of_nat (length data) - 3)) with (length data - 3)%nat by lia.
    replace (Z.to_nat (Z.of_nat (length data) - 2)) with (length data - 2)%nat by lia.
    replace (Z.to_nat (Z.of_nat (length data) - 1)) with (length data - 1)%nat by lia.
    rewrite <- skipn_last4 by lia.
    set (body := firstn (length data - 5) (skipn 1 data)).
    set (m := skipn (length data - 4) data).
    set (b0 := nth 0 data 0).
    assert (pay : forall (x y : outcome payload), x = y ->
       (do p <- x; Ok (mkPHY (N.shiftr b0 5) (N.land b0 3) p m)) = (do p <- y; Ok (mkPHY (N.shiftr b0 5) (N.land b0 3) p m)))
      by (intros x y ->; reflexivity).
    apply pay. clear pay.
    destruct (N.shiftr b0 5 =? JoinRequest).
    { destruct (Nat.eqb (length body) 18) eqn:L18.
      - apply PeanoNat.Nat.eqb_eq in L18. replace (Z.of_nat (length body) =? 18)%Z with true by lia. cbn [negb].
        rewrite !go_slice_ok by lia. cbn [bind].
        change (Z.to_nat 0) with 0%nat. change (Z.to_nat 8) with 8%nat. change (Z.to_nat 16) with 16%nat. change (Z.to_nat 18) with 18%nat.
        change (8 - 0)%nat with 8%nat. change (16 - 8)%nat with 8%nat. change (18 - 16)%nat with 2%nat.
        change (skipn 0 body) with body.
        rewrite (firstn_all2 (n := 2) (skipn 16 body)) by (rewrite skipn_length; lia). reflexivity.
      - apply PeanoNat.Nat.eqb_neq in L18. replace (Z.of_nat (length body) =? 18)%Z with false by lia. reflexivity. }
    destruct ((N.shiftr b0 5 =? JoinAccept) || (N.shiftr b0 5 =? Proprietary)); [reflexivity|].
    destruct (N.shiftr b0 5 =? RejoinRequest).
    { cbn [bind]. change (Z.to_nat 1) with 1%nat.
      assert (Hb0 : (0 < length body)%nat -> nth 0 body 0 = nth 1 data 0).
      { intros Hl. unfold body in *. rewrite firstn_length, skipn_length in Hl. rewrite nth_firstn, nth_skipn by lia. reflexivity. }
      destruct ((nth 1 data 0 =? 0) || (nth 1 data 0 =? 2)).
      - destruct (Nat.eqb (length body) 14) eqn:L14.
        + apply PeanoNat.Nat.eqb_eq in L14. replace (Z.of_nat (length body) =? 14)%Z with true by lia. cbn [negb].
          rewrite (go_index_ok body 0 0) by lia. rewrite !go_slice_ok by lia. cbn [bind].
          change (Z.to_nat 0) with 0%nat. change (Z.to_nat 1) with 1%nat. change (Z.to_nat 4) with 4%nat.
          change (Z.to_nat 12) with 12%nat. change (Z.to_nat 14) with 14%nat.
          change (4 - 1)%nat with 3%nat. change (12 - 4)%nat with 8%nat. change (14 - 12)%nat with 2%nat.
          rewrite Hb0 by lia.
          rewrite (firstn_all2 (n := 2) (skipn 12 body)) by (rewrite skipn_length; lia). reflexivity.
        + apply PeanoNat.Nat.eqb_neq in L14. replace (Z.of_nat (length body) =? 14)%Z with false by lia. reflexivity.
      - destruct (nth 1 data 0 =? 1); [|reflexivity].
        destruct (Nat.eqb (length body) 19) eqn:L19.
        + apply PeanoNat.Nat.eqb_eq in L19. replace (Z.of_nat (length body) =? 19)%Z with true by lia. cbn [negb].
          rewrite (go_index_ok body 0 0) by lia. rewrite !go_slice_ok by lia. cbn [bind].
          change (Z.to_nat 0) with 0%nat. change (Z.to_nat 1) with 1%nat. change (Z.to_nat 9) with 9%nat.
          change (Z.to_nat 17) with 17%nat. change (Z.to_nat 19) with 19%nat.
          change (9 - 1)%nat with 8%nat. change (17 - 9)%nat with 8%nat. change (19 - 17)%nat with 2%nat.
          rewrite Hb0 by lia.
          rewrite (firstn_all2 (n := 2) (skipn 17 body)) by (rewrite skipn_length; lia). reflexivity.
        + apply PeanoNat.Nat.eqb_neq in L19. replace (Z.of_nat (length body) =? 19)%Z with false by lia. reflexivity. }
    now rewrite mac_chk_eq.
Qed.

Definition okerr {A} (x : outcome A) : Prop := x <> Panic /\ x <> OutOfFuel.

Lemma okerr_ok {A} (v : A) : okerr (Ok v). Proof. split; discriminate. Qed.
Lemma okerr_err {A} : okerr (@Err A). Proof. split; discriminate. Qed.
Lemma okerr_bind {A B} (x : outcome A) (f : A -> outcome B) :
  okerr x -> (forall v, okerr (f v)) -> okerr (bind x f).
Proof. intros [H1 H2] Hf. destruct x; cbn [bind]; try congruence; [apply Hf|apply okerr_err]. Qed.

Lemma fhdr_okerr d : okerr (fhdr_unmarshal d).
Proof. unfold fhdr_unmarshal. destruct (_ <? _)%nat; [apply okerr_err|apply okerr_ok]. Qed.

Lemma mac_okerr d : okerr (mac_unmarshal d).
Proof.
  unfold mac_unmarshal. destruct (_ <? 7)%nat; [apply okerr_err|].
  destruct (_ <? _)%nat; [apply okerr_err|].
  apply okerr_bind; [apply fhdr_okerr|]. intros h.
  destruct (_ <? _)%nat; destruct (if (_ <? _)%nat then _ else _) as [[|pp]|];
    try destruct (0 <? _)%nat; first [apply okerr_err|apply okerr_ok].
Qed.

(* C09, frame decoders: no input makes the (checked) decoder panic or loop *)
Theorem phy_unmarshal_total data : okerr (phy_unmarshal_chk data).
Proof.
  rewrite phy_chk_eq. unfold phy_unmarshal.
  destruct (_ <? 5)%nat; [apply okerr_err|].
  apply okerr_bind; [|intros; apply okerr_ok].
  destruct (_ =? JoinRequest).
  { destruct (negb _); [apply okerr_err|apply okerr_ok]. }
  destruct (_ || _); [apply okerr_ok|].
  destruct (_ =? RejoinRequest).
  { destruct (_ || _).
    - destruct (negb _); [apply okerr_err|apply okerr_ok].
    - destruct (_ =? 1); [|apply okerr_err]. destruct (negb _); [apply okerr_err|apply okerr_ok]. }
  apply okerr_bind; [apply mac_okerr|intros; apply okerr_ok].
Qed.

Theorem mac_unmarshal_total data : okerr (mac_unmarshal_chk data).
Proof. rewrite mac_chk_eq. apply mac_okerr. Qed.
