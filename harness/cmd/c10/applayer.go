package main

// Application-layer decoders (applayer/clocksync, multicastsetup, fragmentation,
// firmwaremanagement): decode b2 into a value that decoded b1 before versus into a
// fresh value.  These packages have no reuse model in Coq (Mem/Reuse.v covers the
// root package); the property is evaluated on the implementation by the harness
// (reflect.DeepEqual of the two results) and a difference is reported through s.Fail.

import (
	"fmt"
	"reflect"

	"github.com/brocaar/lorawan/applayer/clocksync"
	"github.com/brocaar/lorawan/applayer/firmwaremanagement"
	"github.com/brocaar/lorawan/applayer/fragmentation"
	"github.com/brocaar/lorawan/applayer/multicastsetup"
	"verifharness/internal/cases"
)

type appPayload interface {
	UnmarshalBinary(data []byte) error
	Size() int
}

type appPkg struct {
	name string
	// fresh payload object for (uplink, cid), nil when the package defines none
	payload func(up bool, cid byte) appPayload
	// fresh Command / Commands values: decoder and a pointer to the value for comparison
	command  func() (func(up bool, b []byte) error, interface{})
	commands func() (func(up bool, b []byte) error, interface{})
}

func appPkgs() []appPkg {
	return []appPkg{
		{"clocksync",
			func(up bool, cid byte) appPayload {
				p, err := clocksync.GetCommandPayload(up, clocksync.CID(cid))
				if err != nil {
					return nil
				}
				return p
			},
			func() (func(bool, []byte) error, interface{}) { var c clocksync.Command; return c.UnmarshalBinary, &c },
			func() (func(bool, []byte) error, interface{}) { var c clocksync.Commands; return c.UnmarshalBinary, &c }},
		{"multicastsetup",
			func(up bool, cid byte) appPayload {
				p, err := multicastsetup.GetCommandPayload(up, multicastsetup.CID(cid))
				if err != nil {
					return nil
				}
				return p
			},
			func() (func(bool, []byte) error, interface{}) {
				var c multicastsetup.Command
				return c.UnmarshalBinary, &c
			},
			func() (func(bool, []byte) error, interface{}) {
				var c multicastsetup.Commands
				return c.UnmarshalBinary, &c
			}},
		{"fragmentation",
			func(up bool, cid byte) appPayload {
				p, err := fragmentation.GetCommandPayload(up, fragmentation.CID(cid))
				if err != nil {
					return nil
				}
				return p
			},
			func() (func(bool, []byte) error, interface{}) {
				var c fragmentation.Command
				return c.UnmarshalBinary, &c
			},
			func() (func(bool, []byte) error, interface{}) {
				var c fragmentation.Commands
				return c.UnmarshalBinary, &c
			}},
		{"firmwaremanagement",
			func(up bool, cid byte) appPayload {
				p, err := firmwaremanagement.GetCommandPayload(up, firmwaremanagement.CID(cid))
				if err != nil {
					return nil
				}
				return p
			},
			func() (func(bool, []byte) error, interface{}) {
				var c firmwaremanagement.Command
				return c.UnmarshalBinary, &c
			},
			func() (func(bool, []byte) error, interface{}) {
				var c firmwaremanagement.Commands
				return c.UnmarshalBinary, &c
			}},
	}
}

func tryDec(f func() error) (st string) {
	cases.Begin("application-layer UnmarshalBinary [reuse]", nil)
	defer cases.End()
	defer func() {
		if r := recover(); r != nil {
			st = "panic"
		}
	}()
	if err := f(); err != nil {
		return "err"
	}
	return "ok"
}

// appReuse runs the used-versus-fresh comparison; returns the number of comparisons made.
func (h *H) appReuse(mult int) {
	r := h.r
	n, nontrivial := 0, 0
	report := func(what string, b1, b2 []byte, used, fresh interface{}, su, sf string) {
		h.s.Fail(cases.GoFail{
			Key:    fmt.Sprintf("app-reuse:%s:%s:%s", what, hexs(b1), hexs(b2)),
			What:   fmt.Sprintf("%s: decoding b2 into a value that decoded b1 before differs from decoding b2 into a fresh value (used: %s %+v, fresh: %s %+v)", what, su, used, sf, fresh),
			Replay: map[string]interface{}{"api": what + ".UnmarshalBinary(b1) then (b2) on the same value vs (b2) on a fresh value", "b1": hexs(b1), "b2": hexs(b2)},
		})
	}
	keptCheck := func(what string, b1, b2 []byte, kept interface{}, keptText string) {
		if after := deep(kept); after != keptText {
			h.s.Fail(cases.GoFail{Key: fmt.Sprintf("kept-copy-changed:%s:%s:%s", what, hexs(b1), hexs(b2)),
				What:   fmt.Sprintf("%s: a copy (kept := *v) of the value decoded from b1 changed when b2 was decoded into the same receiver: %s then %s", what, clip(keptText), clip(after)),
				Replay: map[string]interface{}{"api": what + ": v.UnmarshalBinary(b1); kept := *v; v.UnmarshalBinary(b2); inspect kept", "b1": hexs(b1), "b2": hexs(b2)}})
		}
	}
	fill := func(k int) []byte {
		b := r.Bytes(k)
		switch r.Intn(4) {
		case 0:
			for i := range b {
				b[i] = 0
			}
		case 1:
			for i := range b {
				b[i] = 0xff
			}
		}
		return b
	}
	for _, pk := range appPkgs() {
		type ent struct {
			up  bool
			cid byte
		}
		var known []ent
		for _, up := range []bool{false, true} {
			for cid := 0; cid < 256; cid++ {
				if pk.payload(up, byte(cid)) != nil {
					known = append(known, ent{up, byte(cid)})
				}
			}
		}
		// payloads
		for _, e := range known {
			for i := 0; i < 6*mult; i++ {
				used := pk.payload(e.up, e.cid)
				size := used.Size()
				b1, b2 := fill(size+r.Intn(3)), fill(size+r.Intn(3))
				if tryDec(func() error { return used.UnmarshalBinary(b1) }) != "ok" {
					continue
				}
				kept := shallow(used)
				keptText := deep(kept)
				// variable-length payloads report their size after decoding: give them enough bytes
				su := tryDec(func() error { return used.UnmarshalBinary(b2) })
				keptCheck(fmt.Sprintf("%s.%T", pk.name, used), b1, b2, kept, keptText)
				fresh := pk.payload(e.up, e.cid)
				sf := tryDec(func() error { return fresh.UnmarshalBinary(b2) })
				n++
				if su == "ok" {
					nontrivial++
				}
				if su != sf || (su == "ok" && !reflect.DeepEqual(used, fresh)) {
					report(fmt.Sprintf("%s.%T", pk.name, used), b1, b2, used, fresh, su, sf)
				}
			}
		}
		// Command and Commands
		stream := func() []byte {
			var out []byte
			for k := r.Intn(4); k >= 0; k-- {
				e := known[r.Intn(len(known))]
				out = append(out, e.cid)
				out = append(out, fill(pk.payload(e.up, e.cid).Size())...)
			}
			return out
		}
		for i := 0; i < 30*mult; i++ {
			up := r.Bool()
			for j, mk := range []func() (func(bool, []byte) error, interface{}){pk.command, pk.commands} {
				b1, b2 := stream(), stream()
				if r.Intn(4) == 0 {
					b2 = []byte{byte(200 + r.Intn(50))} // a CID without payload
				}
				dec, used := mk()
				if tryDec(func() error { return dec(up, b1) }) != "ok" {
					continue
				}
				kept := shallow(used) // for Commands: the slice header, sharing the backing array (cmds := *c)
				keptText := deep(kept)
				su := tryDec(func() error { return dec(up, b2) })
				keptCheck(fmt.Sprintf("%s.%s", pk.name, []string{"Command", "Commands"}[j]), b1, b2, kept, keptText)
				dec2, fresh := mk()
				sf := tryDec(func() error { return dec2(up, b2) })
				n++
				if su == "ok" {
					nontrivial++
				}
				if su != sf || (su == "ok" && !reflect.DeepEqual(used, fresh)) {
					report(fmt.Sprintf("%s.%s", pk.name, []string{"Command", "Commands"}[j]), b1, b2, reflect.ValueOf(used).Elem().Interface(), reflect.ValueOf(fresh).Elem().Interface(), su, sf)
				}
			}
		}
	}
	h.s.Extra["applayer_reuse_comparisons"] = n
	h.s.Extra["applayer_reuse_successful_decodes"] = nontrivial
}
