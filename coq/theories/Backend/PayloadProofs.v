(* The struct layer (Payload.v): for every described type whose struct keys are distinct and every value of the
   claimed domain, Unmarshal (Marshal x) gives the normal form of x - on document trees and, with JsonProofs, on bytes.
   Proved once for the generic functions; each payload type is then an instance (a table). *)
From Coq Require Import List NArith ZArith Bool Arith Lia Floats.
From Coq Require Import ZifyN ZifyNat ZifyBool.
From LW Require Import Base.Outcome Base.Bytes Base.Hex Backend.F64
  Backend.Iso8601 Backend.Iso8601Proofs Backend.Json Backend.JsonProofs Backend.Payload.
Import ListNotations.
Open Scope N_scope.

(* what is assumed about the decimal text of floats (strconv): the text of a finite float is a JSON number
   and parses back to that float *)
Definition codec_ok (c : fcodec) : Prop :=
  forall f, ffinite f = true -> is_number (ftext c f) = true /\ fparse c (ftext c f) = Some f.

(* ---- ASCII strings are valid UTF-8 ---- *)
Lemma ascii_valid s : Forall (fun b => b < 128) s -> utf8_valid s = true.
Proof.
  induction 1 as [|b s Hb _ IH]; [reflexivity|]. cbn [utf8_valid].
  replace (b <? 128) with true by lia. exact IH.
Qed.

Lemma hex_digit_ascii n : n < 16 -> hex_digit n < 128.
Proof. unfold hex_digit. intros H. destruct (n <? 10); lia. Qed.

Lemma hex_enc_ascii bs : Forall (fun b => b < 256) bs -> Forall (fun b => b < 128) (hex_enc bs).
Proof.
  induction 1 as [|b bs Hb _ IH]; [constructor|].
  unfold hex_enc in *. cbn [flat_map app]. constructor; [apply hex_digit_ascii; lia|].
  constructor; [apply hex_digit_ascii; lia|exact IH].
Qed.

(* ---- integers: strconv prints, strconv reads ---- *)
Lemma digits_val_app a : forall acc b, digits_val acc (a ++ b) =
  match digits_val acc a with Some x => digits_val x b | None => None end.
Proof.
  induction a as [|c a IH]; intros acc b; [reflexivity|]. cbn [app digits_val].
  destruct (Json.is_digit c); [apply IH|reflexivity].
Qed.

Lemma digit_char u : (0 <= u < 10)%Z -> Json.is_digit (Z.to_N (48 + u)) = true /\ (Z.of_N (Z.to_N (48 + u)) - 48 = u)%Z.
Proof. intros H. unfold Json.is_digit. lia. Qed.

Lemma jdec_val f : forall u, (0 <= u < 10 ^ Z.of_nat f)%Z -> (1 <= f)%nat ->
  digits_val 0 (rev (jdec_rev f u)) = Some u.
Proof.
  induction f as [|f IH]; intros u Hu Hf; [lia|]. cbn [jdec_rev].
  destruct (u <? 10)%Z eqn:E.
  - cbn [rev app digits_val]. destruct (digit_char u ltac:(lia)) as [D V]. rewrite D, V. f_equal; lia.
  - rewrite Nat2Z.inj_succ, Z.pow_succ_r in Hu by lia.
    assert (Hf' : (1 <= f)%nat).
    { destruct f; [|lia]. cbn in Hu. lia. }
    cbn [rev]. rewrite digits_val_app, (IH (u / 10)%Z) by (try assumption; lia).
    cbn [digits_val]. destruct (digit_char (u mod 10) ltac:(lia)) as [D V]. rewrite D, V. f_equal; lia.
Qed.

Lemma jdec_digits f : forall u, (0 <= u)%Z -> Forall (fun c => Json.is_digit c = true) (jdec_rev f u).
Proof.
  induction f as [|f IH]; intros u Hu; cbn [jdec_rev]; [constructor|].
  destruct (u <? 10)%Z eqn:E.
  - constructor; [apply (digit_char u); lia|constructor].
  - constructor; [apply (digit_char (u mod 10)); lia|apply IH; lia].
Qed.

(* the most significant digit is not 0 *)
Lemma jdec_last f : forall u, (1 <= u < 10 ^ Z.of_nat f)%Z ->
  exists d ds, rev (jdec_rev f u) = d :: ds /\ Json.is_digit d = true /\ d <> 48.
Proof.
  induction f as [|f IH]; intros u Hu; [cbn in Hu; lia|]. cbn [jdec_rev].
  destruct (u <? 10)%Z eqn:E.
  - exists (Z.to_N (48 + u)), []. split; [reflexivity|]. split; [apply (digit_char u); lia|lia].
  - rewrite Nat2Z.inj_succ, Z.pow_succ_r in Hu by lia.
    destruct (IH (u / 10)%Z ltac:(lia)) as (d & ds & R & D & Z0).
    cbn [rev]. rewrite R. exists d, (ds ++ [Z.to_N (48 + u mod 10)]). auto.
Qed.

Lemma digits_all ds : Forall (fun c => Json.is_digit c = true) ds -> digits ds = (ds, []).
Proof.
  induction 1 as [|c ds Hc _ IH]; [reflexivity|]. cbn [digits]. now rewrite Hc, IH.
Qed.

Definition in64 (z : Z) : Prop := (-9223372036854775808 <= z <= 9223372036854775807)%Z.

Lemma abs_lt_pow z : in64 z -> (0 <= Z.abs z < 10 ^ Z.of_nat 20)%Z.
Proof. unfold in64. intros H. change (10 ^ Z.of_nat 20)%Z with 100000000000000000000%Z. lia. Qed.

Lemma unsigned_number u : (0 <= u < 10 ^ Z.of_nat 20)%Z ->
  exists d ds, rev (jdec_rev 20 u) = d :: ds /\ Json.is_digit d = true /\ d <> 45 /\
               scan_int (d :: ds) = Some (d :: ds, []).
Proof.
  intros Hu. destruct (Z.eq_dec u 0) as [->|Hn].
  - exists 48, []. repeat split; try reflexivity; lia.
  - destruct (jdec_last 20 u ltac:(lia)) as (d & ds & R & D & Z0).
    exists d, ds. split; [exact R|]. split; [exact D|]. split; [unfold Json.is_digit in D; lia|].
    cbn [scan_int]. replace (d =? 48) with false by lia. rewrite D.
    assert (A : Forall (fun c => Json.is_digit c = true) (d :: ds)).
    { rewrite <- R. apply Forall_rev, jdec_digits. lia. }
    rewrite (digits_all ds) by (inversion A; assumption). reflexivity.
Qed.

Theorem print_int_number z : in64 z -> is_number (print_int z) = true.
Proof.
  intros Hz. destruct (unsigned_number (Z.abs z) (abs_lt_pow z Hz)) as (d & ds & R & D & N45 & S).
  unfold print_int. rewrite R. unfold is_number, scan_number.
  destruct (z <? 0)%Z.
  - cbn [app N.eqb Pos.eqb]. rewrite S. reflexivity.
  - cbn [app]. replace (d =? 45) with false by lia. rewrite S. cbn [scan_frac scan_exp app]. reflexivity.
Qed.

Theorem int_of_text_print lo hi z : in64 z -> (lo <= z <= hi)%Z ->
  int_of_text lo hi (print_int z) = Some z.
Proof.
  intros Hz Hr. destruct (unsigned_number (Z.abs z) (abs_lt_pow z Hz)) as (d & ds & R & D & N45 & _).
  pose proof (jdec_val 20 (Z.abs z) (abs_lt_pow z Hz) ltac:(lia)) as V.
  unfold print_int, int_of_text. rewrite R in *.
  destruct (z <? 0)%Z eqn:E.
  - cbn [app]. replace (0 <=? lo)%Z with false by lia. cbn [andb]. rewrite V.
    replace ((lo <=? - Z.abs z) && (- Z.abs z <=? hi))%Z with true by lia. f_equal. lia.
  - cbn [app].
    assert (M : match d :: ds with 45 :: r => (true, r) | _ => (false, d :: ds) end = (false, d :: ds)).
    { destruct d as [|p]; [reflexivity|]. do 6 (destruct p as [p|p|]; try reflexivity). all: try lia. }
    rewrite M. cbn [andb]. rewrite V.
    replace ((lo <=? Z.abs z) && (Z.abs z <=? hi))%Z with true by lia. f_equal. lia.
Qed.

(* ---- induction over type descriptions ---- *)
Lemma ftype_ind' (P : ftype -> Prop)
  (Hstr : P TStr) (Hbool : P TBool) (Hint : forall lo hi, P (TInt lo hi)) (Hhex : P THex)
  (Hfix : forall n, P (TFix n)) (Hdls : P TDLSettings) (Htime : P TTime) (Hfreq : P TFreq) (Hpct : P TPct)
  (Hfloat : P TFloat) (Hraw : P TRaw) (Hptr : forall t, P t -> P (TPtr t)) (Hslice : forall t, P t -> P (TSlice t))
  (Hstruct : forall fs, Forall (fun f => P (snd f)) fs -> P (TStruct fs)) : forall t, P t.
Proof.
  fix IH 1. intros [ | |lo hi| |n| | | | | | |t|t|fs];
    [exact Hstr|exact Hbool|apply Hint|exact Hhex|apply Hfix|exact Hdls|exact Htime|exact Hfreq|exact Hpct
    |exact Hfloat|exact Hraw|apply Hptr, IH|apply Hslice, IH|].
  apply Hstruct. induction fs as [|[[k o] ft] fs IHfs]; constructor; [apply IH|exact IHfs].
Qed.

(* ---- the loops over the fields, named ---- *)
Fixpoint fields_of (c : fcodec) (ms : list (list N * jvalue)) (fs : list (list N * bool * ftype)) : option (list gval) :=
  match fs with
  | [] => Some []
  | (k, _, ft) :: fs' =>
    match (match lookup k ms with Some x => of_json c ft x | None => Some (zero ft) end), fields_of c ms fs' with
    | Some v, Some vs => Some (v :: vs)
    | _, _ => None
    end
  end.

Fixpoint norm_fields (fs : list (list N * bool * ftype)) (vs : list gval) {struct vs} : list gval :=
  match vs, fs with
  | x :: vs', (_, o, ft) :: fs' => norm ft o x :: norm_fields fs' vs'
  | _, _ => []
  end.

Fixpoint typed_fields (fs : list (list N * bool * ftype)) (vs : list gval) {struct vs} : bool :=
  match vs, fs with
  | [], [] => true
  | x :: vs', (_, o, ft) :: fs' => has_type ft o x && typed_fields fs' vs'
  | _, _ => false
  end.

Lemma of_json_struct c fs ms : of_json c (TStruct fs) (JObj ms) =
  match fields_of c ms fs with Some vs => Some (GStruct vs) | None => None end.
Proof.
  cbn [of_json].
  match goal with |- match ?F fs with _ => _ end = _ => assert (E : forall l, F l = fields_of c ms l) end.
  { induction l as [|[[k o] ft] l IHl]; [reflexivity|]. cbn [fields_of]. rewrite <- IHl. reflexivity. }
  now rewrite E.
Qed.
Lemma norm_struct fs om vs : norm (TStruct fs) om (GStruct vs) = GStruct (norm_fields fs vs).
Proof. reflexivity. Qed.
Lemma has_type_struct fs om vs : has_type (TStruct fs) om (GStruct vs) = typed_fields fs vs.
Proof. reflexivity. Qed.
Lemma to_json_struct c fs vs : to_json c (TStruct fs) (GStruct vs) = JObj (members_of c fs vs).
Proof.
  cbn [to_json]. f_equal.
  match goal with |- ?F fs vs = _ => assert (E : forall l2 l1, F l1 l2 = members_of c l1 l2) end.
  { induction l2 as [|x l2 IHl]; intros l1; [destruct l1; reflexivity|].
    destruct l1 as [|[[k o] ft] l1]; [reflexivity|]. cbn [members_of]. rewrite <- IHl. reflexivity. }
  apply E.
Qed.

(* ---- looking a key up among the printed members ---- *)
Lemma bytes_eqb_refl k : bytes_eqb k k = true.
Proof. apply bytes_eqb_eq. reflexivity. Qed.

Definition keys_of (fs : list (list N * bool * ftype)) : list (list N) :=
  map (fun f => match f with (k, _, _) => k end) fs.

Lemma lookup_absent c k : forall fs vs, existsb (bytes_eqb k) (keys_of fs) = false ->
  lookup k (members_of c fs vs) = None.
Proof.
  intros fs vs. revert fs. induction vs as [|x vs IH]; intros fs H; [reflexivity|].
  destruct fs as [|[[k0 o0] ft0] fs]; [reflexivity|].
  cbn [keys_of map existsb] in H. apply orb_false_iff in H. destruct H as [H0 H1].
  cbn [members_of]. destruct (o0 && is_empty x); [apply IH, H1|].
  cbn [lookup]. rewrite (IH fs H1). now rewrite H0.
Qed.

Lemma lookup_members c : forall fs vs, keys_distinct (keys_of fs) = true ->
  forall k om ft x, In ((k, om, ft), x) (combine fs vs) ->
  lookup k (members_of c fs vs) = if om && is_empty x then None else Some (to_json c ft x).
Proof.
  intros fs vs. revert fs. induction vs as [|x0 vs IH]; intros fs Hd k om ft x Hin.
  { destruct fs; destruct Hin. }
  destruct fs as [|[[k0 o0] ft0] fs]; [destruct Hin|].
  cbn [keys_of map keys_distinct] in Hd. apply andb_true_iff in Hd. destruct Hd as [H0 Hd].
  apply negb_true_iff in H0. fold (keys_of fs) in H0, Hd.
  cbn [combine] in Hin. destruct Hin as [E|Hin].
  - inversion E; subst. cbn [members_of].
    destruct (om && is_empty x); [apply lookup_absent, H0|].
    cbn [lookup]. rewrite (lookup_absent c k fs vs H0). now rewrite bytes_eqb_refl.
  - specialize (IH fs Hd k om ft x Hin). cbn [members_of].
    destruct (o0 && is_empty x0); [exact IH|]. cbn [lookup]. rewrite IH.
    destruct (om && is_empty x); [|reflexivity].
    assert (Hk : bytes_eqb k k0 = false).
    { destruct (bytes_eqb k k0) eqn:E; [|reflexivity]. apply bytes_eqb_eq in E. subst k0.
      assert (Hk : In k (keys_of fs)).
      { apply in_combine_l in Hin. unfold keys_of. apply in_map_iff. exists (k, om, ft). auto. }
      assert (T : existsb (bytes_eqb k) (keys_of fs) = true).
      { apply existsb_exists. exists k. split; [exact Hk|apply bytes_eqb_refl]. }
      congruence. }
    now rewrite Hk.
Qed.

(* ---- one field ---- *)
Definition field_ok (c : fcodec) (t : ftype) : Prop := forall om v, has_type t om v = true ->
  (om && is_empty v = true -> zero t = norm t om v) /\
  (om && is_empty v = false -> of_json c t (to_json c t v) = Some (norm t om v)).

Lemma fields_loop c ms : forall fs vs, Forall (fun f => field_ok c (snd f)) fs -> typed_fields fs vs = true ->
  (forall k om ft x, In ((k, om, ft), x) (combine fs vs) ->
     lookup k ms = if om && is_empty x then None else Some (to_json c ft x)) ->
  fields_of c ms fs = Some (norm_fields fs vs).
Proof.
  intros fs vs. revert fs. induction vs as [|x vs IH]; intros fs Hok Ht Hl.
  - destruct fs as [|[[k o] ft] fs]; [reflexivity|discriminate Ht].
  - destruct fs as [|[[k o] ft] fs]; [discriminate Ht|].
    cbn [typed_fields] in Ht. apply andb_true_iff in Ht. destruct Ht as [Tx Ts].
    inversion Hok as [|? ? Hf Hfs]; subst. cbn [snd] in Hf.
    cbn [fields_of norm_fields].
    rewrite (IH fs Hfs Ts) by (intros; apply Hl; cbn [combine]; right; assumption).
    rewrite (Hl k o ft x) by (cbn [combine]; left; reflexivity).
    destruct (Hf o x Tx) as [Z1 Z2].
    destruct (o && is_empty x); [now rewrite (Z1 eq_refl)|now rewrite (Z2 eq_refl)].
Qed.

Lemma never_null_not_null c t om v : never_null t = true -> has_type t om v = true -> to_json c t v <> JNull.
Proof.
  destruct t; try discriminate; intros _ H; destruct v; try discriminate H; cbn [to_json]; discriminate.
Qed.

Lemma omap_map {A B C} (f : B -> option C) (h : A -> B) (g : A -> C) l :
  Forall (fun x => f (h x) = Some (g x)) l -> omap f (map h l) = Some (map g l).
Proof.
  induction 1 as [|x l Hx _ IH]; [reflexivity|]. unfold omap in *. cbn [fold_right map]. now rewrite Hx, IH.
Qed.

Lemma dls_roundtrip o a b : a <= 15 -> b <= 7 -> dls_of_byte (dls_byte o a b) = GDLS o a b /\ dls_byte o a b < 256.
Proof.
  intros Ha Hb. unfold dls_of_byte, dls_byte. destruct o.
  - replace (128 <=? a + b * 16 + 128) with true by lia. split; [f_equal; lia|lia].
  - replace (128 <=? a + b * 16 + 0) with false by lia. split; [f_equal; lia|lia].
Qed.

Ltac Zify.zify_post_hook ::= Z.to_euclidean_division_equations.

(* ---- the generic theorem on document trees ---- *)
(* what is used of the float arithmetic of Frequency / Percentage (F64.v): proved in PayloadFloat.v from the
   IEEE-754 semantics of Coq's floats; kept as a premise here so that types without float fields do not depend on it *)
Definition float_facts : Prop := forall z, (0 <= z < 4294967296)%Z ->
  freq_rt z = Some z /\ ffinite (freq_marshal z) = true /\ pct_rt z = Some z /\ ffinite (pct_marshal z) = true.

Definition floats_ok (c : fcodec) (t : ftype) : Prop := float_free t = true \/ (codec_ok c /\ float_facts).

Lemma floats_ok_codec c t : float_free t = false -> floats_ok c t -> codec_ok c /\ float_facts.
Proof. intros H [E|E]; [congruence|exact E]. Qed.

Lemma floats_ok_field c fs k o ft : floats_ok c (TStruct fs) -> In (k, o, ft) fs -> floats_ok c ft.
Proof.
  intros [E|E] Hin; [left|right; exact E]. cbn [float_free] in E. rewrite forallb_forall in E. exact (E _ Hin).
Qed.

Theorem all_field_ok c : forall t, floats_ok c t -> twf t = true -> field_ok c t.
Proof.
  induction t as [ | |lo hi| |n| | | | | | |t IH|t IH|fs IH] using ftype_ind';
    intros Hc Hwf om v Ht; destruct v; try discriminate Ht; cbn [has_type] in Ht;
    try (match type of Hc with floats_ok _ ?tt => destruct (floats_ok_codec c tt eq_refl Hc) as [Hcc Hff] end).
  - (* string *) split; intros E.
    + destruct s; [reflexivity|]. cbn [is_empty] in E. now rewrite andb_false_r in E.
    + reflexivity.
  - (* bool *) split; intros E.
    + destruct b; [cbn [is_empty] in E; now rewrite andb_false_r in E|reflexivity].
    + reflexivity.
  - (* integer *) split; intros E.
    + destruct z; [reflexivity| |]; cbn [is_empty] in E; now rewrite andb_false_r in E.
    + cbn [twf] in Hwf. cbn [to_json of_json norm].
      rewrite int_of_text_print; [reflexivity|unfold in64; lia|lia].
  - (* HEXBytes *) apply bytes_ok_Forall in Ht. split; intros E.
    + destruct bs; [reflexivity|]. cbn [is_empty] in E. now rewrite andb_false_r in E.
    + cbn [to_json of_json norm]. now rewrite trim0x_enc, hex_dec_enc by exact Ht.
  - (* identifiers *) apply andb_true_iff in Ht. destruct Ht as [Hl Hb].
    apply Nat.eqb_eq in Hl. apply bytes_ok_Forall in Hb. split; intros E.
    + cbn [is_empty] in E. now rewrite andb_false_r in E.
    + cbn [to_json of_json norm]. destruct (text_roundtrip n bs Hl Hb) as [R _].
      unfold marshal_text in R. now rewrite R.
  - (* DLSettings *) split; intros E.
    + cbn [is_empty] in E. now rewrite andb_false_r in E.
    + cbn [to_json of_json norm]. destruct (dls_roundtrip optneg rx2dr rx1off ltac:(lia) ltac:(lia)) as [R B].
      rewrite hex_dec_enc by (constructor; [exact B|constructor]). now rewrite R.
  - (* ISO8601Time *) split; intros E.
    + cbn [is_empty] in E. now rewrite andb_false_r in E.
    + cbn [to_json of_json norm]. unfold time_ok in Ht.
      rewrite rfc3339_roundtrip by lia. reflexivity.
  - (* Frequency *) split; intros E.
    + destruct hz; [reflexivity| |]; cbn [is_empty] in E; now rewrite andb_false_r in E.
    + cbn [to_json of_json norm].
      destruct (Hff hz ltac:(lia)) as (X & Fin & _).
      destruct (Hcc (freq_marshal hz) Fin) as [_ P]. rewrite P.
      unfold freq_rt in X. unfold freq_unmarshal_code. now rewrite X.
  - (* Percentage *) split; intros E.
    + destruct p; [reflexivity| |]; cbn [is_empty] in E; now rewrite andb_false_r in E.
    + cbn [to_json of_json norm].
      destruct (Hff p ltac:(lia)) as (_ & _ & X & Fin).
      destruct (Hcc (pct_marshal p) Fin) as [_ P]. rewrite P.
      unfold pct_rt in X. unfold pct_unmarshal_code. now rewrite X.
  - (* float64 *) apply andb_true_iff in Ht. destruct Ht as [Hf Ho]. apply negb_true_iff in Ho. subst om.
    split; intros E; [discriminate E|]. cbn [to_json of_json norm]. destruct (Hcc f Hf) as [_ P]. now rewrite P.
  - (* RawMessage *) destruct j as [j|].
    + split; intros E; [cbn [is_empty] in E; now rewrite andb_false_r in E|reflexivity].
    + subst om. split; intros E; [reflexivity|discriminate E].
  - (* pointer *) cbn [twf] in Hwf. apply andb_true_iff in Hwf. destruct Hwf as [Hnn Hwf].
    destruct o as [v'|].
    + split; intros E; [cbn [is_empty] in E; now rewrite andb_false_r in E|].
      cbn [to_json norm]. destruct (IH Hc Hwf false v' Ht) as [_ R]. specialize (R eq_refl).
      pose proof (never_null_not_null c t false v' Hnn Ht) as NN.
      cbn [of_json]. destruct (to_json c t v'); try congruence; now rewrite R.
    + split; intros E; reflexivity.
  - (* slice *) cbn [twf] in Hwf. destruct o as [l|].
    + destruct l as [|x l].
      * destruct om; split; intros E; try discriminate E; reflexivity.
      * split; intros E; [cbn [is_empty] in E; now rewrite andb_false_r in E|].
        cbn [to_json of_json norm].
        rewrite (omap_map (of_json c t) (to_json c t) (norm t false)); [reflexivity|].
        apply Forall_forall. intros y Hy.
        assert (Ty : has_type t false y = true) by (rewrite forallb_forall in Ht; apply Ht, Hy).
        destruct (IH Hc Hwf false y Ty) as [_ R]. exact (R eq_refl).
    + split; intros E; reflexivity.
  - (* struct *) rewrite has_type_struct in Ht || idtac. split; intros E.
    + cbn [is_empty] in E. now rewrite andb_false_r in E.
    + cbn [twf] in Hwf. apply andb_true_iff in Hwf. destruct Hwf as [Hd Hw].
      rewrite to_json_struct, of_json_struct, norm_struct.
      rewrite (fields_loop c (members_of c fs vs) fs vs); [reflexivity| |exact Ht|].
      * rewrite forallb_forall in Hw. rewrite Forall_forall in IH. apply Forall_forall.
        intros [[k o] ft] Hin. cbn [snd]. apply (IH _ Hin); [exact (floats_ok_field c fs k o ft Hc Hin)|].
        specialize (Hw _ Hin). cbn in Hw. apply andb_true_iff in Hw. apply Hw.
      * apply lookup_members. exact Hd.
Qed.

Theorem of_to_json c t v : floats_ok c t -> twf t = true -> has_type t false v = true ->
  of_json c t (to_json c t v) = Some (norm t false v).
Proof. intros Hc Hw Ht. destruct (all_field_ok c t Hc Hw false v Ht) as [_ R]. exact (R eq_refl). Qed.

(* ---- the printed tree is well-formed and not too deep, so JsonProofs applies ---- *)
Lemma digit_ascii n : Iso8601.digit n < 128.
Proof. unfold Iso8601.digit. lia. Qed.

Lemma format_ascii s off : time_ok s off = true -> Forall (fun b => b < 128) (format_rfc3339 s off).
Proof.
  unfold time_ok. intros H.
  assert (Hm : (off mod 60 = 0)%Z) by lia. assert (Ho : (-86400 < off < 86400)%Z) by lia.
  assert (Hr : in_years_0_9999 s off) by (unfold in_years_0_9999; lia).
  destruct (format_shape s off Hr) as (y & m & d & h & mi & sec & _ & E). rewrite E.
  unfold text_of, pad4, pad2. cbn [app].
  repeat (constructor; [first [apply digit_ascii|lia]|]).
  destruct (Z.eq_dec off 0) as [->|Hnz]; [repeat constructor|].
  rewrite (zone_text_shape off (conj Hm Ho) Hnz). unfold pad2. cbn [app].
  constructor; [destruct (off <? 0)%Z; lia|].
  repeat (constructor; [first [apply digit_ascii|lia]|]). constructor.
Qed.

Lemma jwf_members c : forall fs vs,
  (forall k om ft x, In ((k, om, ft), x) (combine fs vs) -> utf8_valid k = true /\ jwf (to_json c ft x) = true) ->
  forallb (fun kv => utf8_valid (fst kv) && jwf (snd kv)) (members_of c fs vs) = true.
Proof.
  intros fs vs. revert fs. induction vs as [|x vs IH]; intros fs H; [reflexivity|].
  destruct fs as [|[[k o] ft] fs]; [reflexivity|]. cbn [members_of].
  assert (Ht : forallb (fun kv => utf8_valid (fst kv) && jwf (snd kv)) (members_of c fs vs) = true).
  { apply IH. intros. apply (H k0 om ft0 x0). cbn [combine]. right. assumption. }
  destruct (o && is_empty x); [exact Ht|]. cbn [forallb fst snd]. rewrite Ht.
  destruct (H k o ft x ltac:(cbn [combine]; left; reflexivity)) as [A B]. now rewrite A, B.
Qed.

Lemma typed_fields_in fs : forall vs, typed_fields fs vs = true ->
  forall k om ft x, In ((k, om, ft), x) (combine fs vs) -> has_type ft om x = true.
Proof.
  induction fs as [|[[k0 o0] ft0] fs IH]; intros vs Ht k om ft x Hin; [destruct Hin|].
  destruct vs as [|x0 vs]; [destruct Hin|]. cbn [typed_fields] in Ht. apply andb_true_iff in Ht.
  destruct Ht as [T0 Ts]. cbn [combine] in Hin. destruct Hin as [E|Hin]; [inversion E; subst; exact T0|].
  exact (IH vs Ts k om ft x Hin).
Qed.

Theorem to_json_wf c : forall t, floats_ok c t -> twf t = true -> forall om v, has_type t om v = true ->
  jwf (to_json c t v) = true.
Proof.
  induction t as [ | |lo hi| |n| | | | | | |t IH|t IH|fs IH] using ftype_ind';
    intros Hc Hwf om v Ht; destruct v; try discriminate Ht;
    try (match type of Hc with floats_ok _ ?tt => destruct (floats_ok_codec c tt eq_refl Hc) as [Hcc Hff] end);
    try (lazymatch goal with |- context [TStruct] => fail | _ => cbn [has_type] in Ht; cbn [to_json jwf] end).
  - exact Ht.
  - reflexivity.
  - cbn [twf] in Hwf. apply print_int_number. unfold in64. lia.
  - apply ascii_valid, hex_enc_ascii, bytes_ok_Forall, Ht.
  - apply andb_true_iff in Ht. apply ascii_valid, hex_enc_ascii, bytes_ok_Forall, Ht.
  - apply ascii_valid, hex_enc_ascii. constructor; [|constructor].
    apply (dls_roundtrip optneg rx2dr rx1off); lia.
  - apply ascii_valid, format_ascii, Ht.
  - apply (Hcc (freq_marshal hz)), (Hff hz). lia.
  - apply (Hcc (pct_marshal p)), (Hff p). lia.
  - apply andb_true_iff in Ht. apply (Hcc f), Ht.
  - destruct j as [j|]; [apply andb_true_iff in Ht; apply Ht|reflexivity].
  - cbn [twf] in Hwf. apply andb_true_iff in Hwf. destruct o as [v'|]; [apply (IH Hc (proj2 Hwf) false v' Ht)|reflexivity].
  - cbn [twf] in Hwf. destruct o as [l|]; [|reflexivity]. cbn [jwf]. rewrite forallb_forall. intros j Hj.
    apply in_map_iff in Hj. destruct Hj as (y & <- & Hy). rewrite forallb_forall in Ht. apply (IH Hc Hwf false y), Ht, Hy.
  - rewrite to_json_struct. cbn [jwf]. apply jwf_members. intros k o ft x Hin.
    cbn [twf] in Hwf. apply andb_true_iff in Hwf. destruct Hwf as [_ Hw]. rewrite forallb_forall in Hw.
    pose proof (in_combine_l _ _ _ _ Hin) as Hf. specialize (Hw _ Hf). cbn in Hw. apply andb_true_iff in Hw.
    split; [apply Hw|]. rewrite Forall_forall in IH.
    apply (IH _ Hf (floats_ok_field c fs k o ft Hc Hf) (proj2 Hw) o x).
    rewrite has_type_struct in Ht. exact (typed_fields_in fs vs Ht k o ft x Hin).
Qed.

(* nesting of the type description *)
Fixpoint tdepth (t : ftype) : nat :=
  match t with
  | TPtr t' => tdepth t'
  | TSlice t' => S (tdepth t')
  | TStruct fs => S (fold_right (fun f m => Nat.max (match f with (_, _, ft) => tdepth ft end) m) O fs)
  | _ => O
  end.

Lemma fold_max_in fs k o ft : In (k, o, ft) fs ->
  (tdepth ft <= fold_right (fun (f : list N * bool * ftype) m => Nat.max (match f with (_, _, ft) => tdepth ft end) m) O fs)%nat.
Proof.
  induction fs as [|[[k0 o0] ft0] fs IH]; intros H; [destruct H|]. cbn [fold_right].
  destruct H as [E|H]; [inversion E; subst; lia|specialize (IH H); lia].
Qed.

Lemma depth_members c D : forall fs vs,
  (forall k om ft x, In ((k, om, ft), x) (combine fs vs) -> (jdepth (to_json c ft x) <= D)%nat) ->
  (fold_right (fun kv m => Nat.max (jdepth (snd kv)) m) O (members_of c fs vs) <= D)%nat.
Proof.
  intros fs vs. revert fs. induction vs as [|x vs IH]; intros fs H; [cbn; lia|].
  destruct fs as [|[[k o] ft] fs]; [cbn; lia|]. cbn [members_of].
  assert (Ht : (fold_right (fun kv m => Nat.max (jdepth (snd kv)) m) O (members_of c fs vs) <= D)%nat).
  { apply IH. intros. apply (H k0 om ft0 x0). cbn [combine]. right. assumption. }
  destruct (o && is_empty x); [exact Ht|]. cbn [fold_right snd].
  pose proof (H k o ft x ltac:(cbn [combine]; left; reflexivity)). lia.
Qed.

Theorem to_json_depth c : forall t om v, has_type t om v = true ->
  (jdepth (to_json c t v) <= tdepth t + raw_depth)%nat.
Proof.
  induction t as [ | |lo hi| |n| | | | | | |t IH|t IH|fs IH] using ftype_ind';
    intros om v Ht; destruct v; try discriminate Ht;
    try (lazymatch goal with |- context [TStruct] => fail | _ => cbn [has_type] in Ht; cbn [to_json jdepth tdepth]; try lia end).
  - destruct j as [j|]; [|cbn; lia]. apply andb_true_iff in Ht. destruct Ht as [_ Hd].
    apply Nat.leb_le in Hd. lia.
  - destruct o as [v'|]; [apply (IH false v' Ht)|cbn; lia].
  - destruct o as [l|]; [|cbn; lia]. cbn [jdepth].
    assert (H : (fold_right (fun x m => Nat.max (jdepth x) m) O (map (to_json c t) l) <= tdepth t + raw_depth)%nat).
    { rewrite forallb_forall in Ht. induction l as [|y l IHl]; [cbn; lia|]. cbn [map fold_right].
      pose proof (IH false y (Ht y (or_introl eq_refl))).
      specialize (IHl (fun z Hz => Ht z (or_intror Hz))). lia. }
    lia.
  - rewrite to_json_struct. cbn [jdepth tdepth].
    set (M := fold_right (fun (f : list N * bool * ftype) m => Nat.max (match f with (_, _, ft) => tdepth ft end) m) O fs).
    assert (H : (fold_right (fun kv m => Nat.max (jdepth (snd kv)) m) O (members_of c fs vs) <= M + raw_depth)%nat).
    { apply depth_members. intros k o ft x Hin. pose proof (in_combine_l _ _ _ _ Hin) as Hf.
      rewrite Forall_forall in IH. rewrite has_type_struct in Ht.
      pose proof (IH _ Hf o x (typed_fields_in fs vs Ht k o ft x Hin)) as B. cbn [snd] in B.
      pose proof (fold_max_in fs k o ft Hf). fold M in H. lia. }
    lia.
Qed.

(* ---- bytes: json.Unmarshal (json.Marshal x) ---- *)
Theorem decode_encode c t v :
  floats_ok c t -> twf t = true -> (tdepth t <= 1000)%nat -> has_type t false v = true ->
  decode c t (encode c t v) = Some (norm t false v).
Proof.
  intros Hc Hw Hd Ht. unfold decode, encode.
  rewrite json_parse_print.
  - now apply of_to_json.
  - now apply (to_json_wf c t Hc Hw false v).
  - pose proof (to_json_depth c t false v Ht) as B.
    assert (R : (raw_depth + 1000 <= max_depth)%nat) by (vm_compute; lia).
    lia.
Qed.

(* ---- the described payload types are usable descriptions ---- *)
Definition usable (t : ftype) : bool := twf t && Nat.leb (tdepth t) 1000.

Lemma usable_spec t : usable t = true -> twf t = true /\ (tdepth t <= 1000)%nat.
Proof. unfold usable. intros H. apply andb_true_iff in H. destruct H as [A B]. apply Nat.leb_le in B. auto. Qed.

Lemma modelled_2_usable : forallb (fun t => usable t && float_free t) modelled_types_2 = true.
Proof. vm_compute. reflexivity. Qed.

(* the types of stage 2 contain no floats: json.Unmarshal (json.Marshal x) = norm x, whatever strconv does *)
Theorem payload_roundtrip_2 c t v : In t modelled_types_2 -> has_type t false v = true ->
  decode c t (encode c t v) = Some (norm t false v).
Proof.
  intros Hin Ht. pose proof modelled_2_usable as U. rewrite forallb_forall in U. specialize (U t Hin).
  apply andb_true_iff in U. destruct U as [U F]. destruct (usable_spec t U) as [W D].
  apply decode_encode; [left; exact F|exact W|exact D|exact Ht].
Qed.
