"""Per-property configuration of the driver: one file lib/cfg/Cxx.json per claimed property."""
import json, glob, os, re

HERE = os.path.dirname(os.path.abspath(__file__))

TRUSTED_COMMON = [
    "Coq 8.16.1 kernel incl. its vm_compute machine (finite sweeps, correspondence evaluation); native_compute not used",
    "no axioms declared by this development (driver greps for Axiom/Parameter/Admitted/... on every run)",
    "hand-written Gallina model tied to /repo only by the correspondence run of this check (Go harness built with -tags verif against the working tree; printers in harness/internal/cq)",
    "tables in coq/gen/*.v are dumped from the live code by harness/cmd/dump on every run",
    "no extraction: the model is evaluated inside Coq",
]
ASSUME_COMMON = [
    "Go runtime semantics (bounds checks, integer wrap-around) as specified by the language",
    "specification transcribed by hand from the public LoRaWAN documents (no network access)",
]

PROPS = {}
KNOWN_DECLS = {}   # name -> Coq element type of the exception lists in gen/KnownGen.v
for f in sorted(glob.glob(os.path.join(HERE, "cfg", "C*.json"))):
    pid = os.path.basename(f)[:-5]
    c = json.load(open(f))
    root = os.path.dirname(HERE)
    # a property is claimed only once its statement file, case checker and harness exist
    if not (os.path.exists(os.path.join(root, "coq", "props", pid + ".v"))
            and os.path.exists(os.path.join(root, "coq", "theories", "Corr", pid + ".v"))
            and os.path.isdir(os.path.join(root, "harness", "cmd", c.get("cmd", "?")))):
        continue
    PROPS[pid] = c
    KNOWN_DECLS.update(c.get("known_decls", {}))


def parse_diag(pid, out):
    """A diagnosis file (cfg 'diag') prints, for each failing table cell, a line produced by
    `Print`-ing definitions named DIAG_<tag>; the value is a list of keys as strings of
    numbers. Format understood here:   DIAG_<tag> = [<item>; <item>; ...]  where an item is
    any parenthesised tuple or number; the key becomes '<tag>:<item with spaces removed>'."""
    res = []
    for m in re.finditer(r"(DIAG_\w+)\s*=\s*(.*?)\n\s*:\s*list", out, re.S):
        tag = m.group(1)[5:]
        body = " ".join(m.group(2).split())
        if body.startswith("["):
            body = body[1:]
        if body.rstrip().endswith("]"):
            body = body.rstrip()[:-1]
        depth = 0
        cur = ""
        items = []
        for ch in body:
            if ch in "([":
                depth += 1
            if ch in ")]":
                depth -= 1
            if ch == ";" and depth == 0:
                items.append(cur); cur = ""
            else:
                cur += ch
        if cur.strip():
            items.append(cur)
        for it in items:
            key = tag + ":" + re.sub(r"\s+|%\w+", "", it)
            res.append((key, "table obligation '%s' fails for cell %s" % (tag, it.strip())))
    return res
