(* Model of applayer/fragmentation/encode.go: Encode, prbs23, isPower2,
   matrixLine.  Go ints are Z (the values that occur stay far below 2^63:
   x < 2^23 after the first PRBS step, 1 + 1001*n needs n > 9*10^15 to wrap,
   which would take that many loop iterations of Encode first); Go's / and %
   truncate toward zero (Z.quot, Z.rem); run-time panics are values:
   integer divide by zero, makeslice with a negative or unallocatable length, index out of
   range.  The retry loop of matrixLine runs on fuel.  No proofs in this file. *)
From Coq Require Import List NArith ZArith Bool.
From LW Require Import Base.Outcome Base.Bytes.
Import ListNotations.
Open Scope Z_scope.

(* encode.go:51-55 *)
Definition prbs23 (x : Z) : Z :=
  let b0 := Z.land x 1 in
  let b1 := Z.quot (Z.land x 32) 32 in
  Z.quot x 2 + (Z.lxor b0 b1) * 2 ^ 22.

(* encode.go:57-59 *)
Definition is_power2 (num : Z) : bool :=
  negb (num =? 0) && (Z.land num (num - 1) =? 0).

(* the inner loop  for r >= m { x = prbs23(x); r = x % (m + mm) }  entered with r >= m *)
Fixpoint draw (fuel : nat) (x m mm : Z) : outcome (Z * Z) :=
  match fuel with
  | O => OutOfFuel
  | S fuel' =>
    let x' := prbs23 x in
    if m + mm =? 0 then Panic else          (* integer divide by zero *)
    let r := Z.rem x' (m + mm) in
    if r >=? m then draw fuel' x' m mm else Ok (x', r)
  end.

(* line[r] = 1 *)
Fixpoint set_one (r : nat) (line : list bool) : option (list bool) :=
  match line, r with
  | [], _ => None
  | _ :: l, O => Some (true :: l)
  | b :: l, S r' => match set_one r' l with Some l' => Some (b :: l') | None => None end
  end.

(* the outer loop  for nbCoeff := 0; nbCoeff < m/2; nbCoeff++ *)
Fixpoint coeffs (k : nat) (fuel : nat) (x m mm : Z) (line : list bool) : outcome (list bool) :=
  match k with
  | O => Ok line
  | S k' =>
    (* r := 1 << 16 *)
    do xr <- (if 65536 >=? m then draw fuel x m mm else Ok (x, 65536));
    let '(x', r) := xr in
    if r <? 0 then Panic else
    match set_one (Z.to_nat r) line with
    | None => Panic                          (* index out of range *)
    | Some line' => coeffs k' fuel x' m mm line'
    end
  end.

(* encode.go:61-81; m = len(dataRows) >= 0 *)
Definition matrix_line (fuel : nat) (n m : Z) : outcome (list bool) :=
  if m <? 0 then Panic else
  let mm := if is_power2 m then 1 else 0 in
  coeffs (Z.to_nat (Z.quot m 2)) fuel (1 + 1001 * n) m mm (repeat false (Z.to_nat m)).

(* dataRows[i] = data[offset : offset+fragmentSize] for i < len(data)/fragmentSize *)
Fixpoint data_rows (cnt : nat) (data : list N) (size : nat) : outcome (list (list N)) :=
  match cnt with
  | O => Ok []
  | S cnt' =>
    if (size <=? length data)%nat then
      do r <- data_rows cnt' (skipn size data) size; Ok (firstn size data :: r)
    else Panic
  end.

(* for x < w { if a[x] == 1 { for m < size { s[m] ^= dataRows[x][m] } } } *)
Fixpoint xor_selected (a : list bool) (rows : list (list N)) (s : list N) : list N :=
  match a, rows with
  | sel :: a', row :: rows' => xor_selected a' rows' (if sel then xor_bytes s row else s)
  | _, _ => s
  end.

Definition MAXALLOC : Z := 2 ^ 48.

Fixpoint parity_rows (fuel : nat) (cnt : nat) (y : Z) (rows : list (list N)) (size : Z)
  : outcome (list (list N)) :=
  match cnt with
  | O => Ok []
  | S cnt' =>
    (* make([]byte, fragmentSize): "makeslice: len out of range" for a negative length and for one
       beyond the runtime's allocation limit (maxAlloc = 2^48 bytes on linux/amd64) *)
    if (size <? 0) || (MAXALLOC <? size) then Panic else
    do a <- matrix_line fuel (y + 1) (Z.of_nat (length rows));
    let s := xor_selected a rows (repeat 0%N (Z.to_nat size)) in
    do r <- parity_rows fuel cnt' (y + 1) rows size;
    Ok (s :: r)
  end.

Definition FUEL : nat := 64.

(* encode.go:10-49; since fix 4f15916 the data rows are copies of data[offset:offset+size] -
   invisible at the level of values *)
Definition encode_with (fuel : nat) (data : list N) (size red : Z) : outcome (list (list N)) :=
  let len := Z.of_nat (length data) in
  if size <=? 0 then Err else                (* guard added by fix 9813ac2 *)
  if len =? 0 then Err else                  (* empty block refused since fix 10583ce *)
  if size =? 0 then Panic else               (* len(data) % fragmentSize *)
  if negb (Z.rem len size =? 0) then Err else
  do rows <- data_rows (Z.to_nat (Z.quot len size)) data (Z.to_nat size);
  do par <- parity_rows fuel (Z.to_nat red) 0 rows size;
  Ok (rows ++ par).

Definition encode := encode_with FUEL.
