(* Base proofs shared by C12 and C13: list / map lemmas, the finite set of
   accepted (dr, off) pairs, "errors not panics", closure of the RX1 results
   (every accepted pair maps to a defined downlink data-rate, modulo the
   recorded cells, each of which is a real violation) and the RX2 defaults.
   Unbounded arguments are reduced to the finite key sets of the dumped tables
   by lookup lemmas; the finite obligations are decided by vm_compute over
   LWGen.BandGen and lifted with forallb_forall. *)
From Coq Require Import List ZArith Bool String Lia.
From LW Require Import Base.Outcome Band.Types Band.Lookup Band.Regional Band.Rx1Spec Band.Rx1Checks.
From LWGen Require Import BandGen KnownGen.
Import ListNotations.
Open Scope Z_scope.

(* ---- generic list / map lemmas ------------------------------------------- *)

Lemma zrange_from_In x lo n :
  In x (zrange_from lo n) <-> lo <= x < lo + Z.of_nat n.
Proof.
  revert lo; induction n as [|n IH]; intros lo; cbn [zrange_from In].
  - split; [tauto | lia].
  - rewrite IH. lia.
Qed.

Lemma zrange_In x lo hi : lo <= x <= hi -> In x (zrange lo hi).
Proof. intros H. unfold zrange. apply zrange_from_In. lia. Qed.

Lemma zrange_In_inv x lo hi : In x (zrange lo hi) -> lo <= x <= hi.
Proof. unfold zrange. intros H. apply zrange_from_In in H. lia. Qed.

Lemma zfind_Some_In {A} k (m : zmap A) v : zfind k m = Some v -> In (k, v) m.
Proof.
  induction m as [|[k' v'] m IH]; cbn [zfind]; [discriminate|].
  destruct (Z.eqb_spec k k') as [->|_].
  - intros [= ->]. now left.
  - intros H. right. now apply IH.
Qed.

Lemma zfind_None_notin {A} k (m : zmap A) : zfind k m = None -> ~ In k (zkeys m).
Proof.
  induction m as [|[k' v'] m IH]; cbn [zfind zkeys map fst In]; [tauto|].
  destruct (Z.eqb_spec k k') as [->|Hne]; [discriminate|].
  intros H [E|Hin]; [congruence|]. now apply IH.
Qed.

Lemma zindex_Ok_range {A} (l : list A) i a : zindex l i = Ok a -> 0 <= i < zlen l.
Proof.
  unfold zindex, zlen. destruct (Z.ltb_spec i 0); [discriminate|].
  destruct (nth_error l (Z.to_nat i)) eqn:E; [|discriminate].
  intros _. assert (Z.to_nat i < List.length l)%nat by (apply nth_error_Some; congruence). lia.
Qed.

Lemma zindex_in_range {A} (l : list A) i : 0 <= i < zlen l -> exists a, zindex l i = Ok a.
Proof.
  unfold zindex, zlen. intros H. destruct (Z.ltb_spec i 0); [lia|].
  destruct (nth_error l (Z.to_nat i)) eqn:E; [eauto|].
  apply nth_error_None in E. lia.
Qed.

Lemma zindex_Ok_In {A} (l : list A) i a : zindex l i = Ok a -> In a l.
Proof.
  unfold zindex. destruct (i <? 0); [discriminate|].
  destruct (nth_error l (Z.to_nat i)) eqn:E; [|discriminate].
  intros [= ->]. eapply nth_error_In; eauto.
Qed.

Lemma oz_eqb_eq (x y : outcome Z) : outcome_eqb Z.eqb x y = true -> x = y.
Proof.
  destruct x, y; cbn; try discriminate; try reflexivity.
  intros H. apply Z.eqb_eq in H. now subst.
Qed.

(* ---- the accepted (dr, off) pairs are a finite, enumerable set -------------- *)

Lemma generic_rx1_dr_cases t dr off :
  generic_rx1_dr t dr off = Err \/
  (exists r, generic_rx1_dr t dr off = Ok r /\ In (dr, off) (generic_domain t)).
Proof.
  unfold generic_rx1_dr. destruct (zfind dr (t_rx1 t)) as [row|] eqn:F; [|now left].
  destruct (Z.ltb_spec off 0); cbn [orb]; [now left|].
  destruct (Z.gtb_spec off (zlen row - 1)); [now left|].
  right. destruct (zindex_in_range row off) as [a Ha]; [lia|].
  exists a. split; [exact Ha|].
  unfold generic_domain. apply in_flat_map. exists (dr, row). split.
  - now apply zfind_Some_In.
  - cbn [fst snd]. apply in_map. apply zrange_In. lia.
Qed.

Lemma as923_rx1_dr_cases dw dr off :
  as923_rx1_dr dw dr off = Err \/
  (exists r, as923_rx1_dr dw dr off = Ok r /\ In (dr, off) as923_domain).
Proof.
  unfold as923_rx1_dr.
  destruct (Z.ltb_spec off 0); cbn [orb]; [now left|].
  destruct (Z.gtb_spec off 7); cbn [orb]; [now left|].
  destruct (Z.ltb_spec dr 0); cbn [orb]; [now left|].
  destruct (Z.gtb_spec dr 7); cbn [orb]; [now left|].
  right.
  destruct (zindex_in_range [0; 1; 2; 3; 4; 5; -1; -2] off) as [e He]; [unfold zlen; cbn; lia|].
  rewrite He. eexists. split; [reflexivity|].
  unfold as923_domain. apply in_flat_map. exists dr. split; [apply zrange_In; lia|].
  apply in_map. apply zrange_In. lia.
Qed.

Lemma get_rx1_dr_cases c dr off :
  get_rx1_dr c dr off = Err \/
  (exists r, get_rx1_dr c dr off = Ok r /\ In (dr, off) (rx1_domain c)).
Proof.
  unfold get_rx1_dr, rx1_domain.
  destruct (c_kind c); try apply generic_rx1_dr_cases. apply as923_rx1_dr_cases.
Qed.

(* errors, never panics: for ANY tables, all integer arguments *)
Lemma rx1_no_panic_any c dr off : get_rx1_dr c dr off <> Panic.
Proof.
  destruct (get_rx1_dr_cases c dr off) as [E|[r [E _]]]; rewrite E; discriminate.
Qed.

Lemma rx1_Ok_in_domain c dr off r : get_rx1_dr c dr off = Ok r -> In (dr, off) (rx1_domain c).
Proof.
  intros H. destruct (get_rx1_dr_cases c dr off) as [E|[r' [_ Hin]]]; [congruence|exact Hin].
Qed.

(* ---- lifting a computed check over all configurations and all cells ------- *)

Lemma all_cells_lift P : all_cells P = true ->
  forall c, In c band_configs -> forall dr off r, get_rx1_dr c dr off = Ok r -> P c dr off = true.
Proof.
  unfold all_cells. intros H c Hc dr off r Hr.
  rewrite forallb_forall in H. specialize (H c Hc). rewrite forallb_forall in H.
  exact (H (dr, off) (rx1_Ok_in_domain _ _ _ _ Hr)).
Qed.

Lemma cell_eqb_eq a b : cell_eqb a b = true -> a = b.
Proof.
  destruct a as [[n d] o], b as [[n' d'] o']. unfold cell_eqb. cbn [fst snd].
  rewrite !andb_true_iff. intros [[H1 H2] H3].
  apply String.eqb_eq in H1. apply Z.eqb_eq in H2. apply Z.eqb_eq in H3. now subst.
Qed.

Lemma cell_known_In x : cell_known x = true -> In x c12_known_cells.
Proof.
  unfold cell_known. rewrite existsb_exists. intros [y [Hy E]]. apply cell_eqb_eq in E. now subst.
Qed.

(* ---- every accepted pair maps to a defined downlink data-rate -------------- *)

Lemma defined_check_all : all_cells defined_check = true.
Proof. vm_compute. reflexivity. Qed.

Lemma rx1_defined c : In c band_configs -> forall dr off r,
  get_rx1_dr c dr off = Ok r ->
  dr_defined_down (c_tab c) r = true \/ In (c_name c, dr, off) c12_known_cells.
Proof.
  intros Hc dr off r Hr.
  pose proof (all_cells_lift _ defined_check_all c Hc dr off r Hr) as H.
  unfold defined_check in H. rewrite Hr in H. cbn [rx1_defined_rule] in H.
  apply orb_true_iff in H as [H|H]; [now left | right; now apply cell_known_In].
Qed.

Lemma refuted_all : forallb refuted_check c12_known_cells = true.
Proof. vm_compute. reflexivity. Qed.

Lemma rx1_known_refuted : forall name dr off, In (name, dr, off) c12_known_cells ->
  exists c r, In c band_configs /\ c_name c = name /\ get_rx1_dr c dr off = Ok r
              /\ dr_defined_down (c_tab c) r = false.
Proof.
  intros name dr off Hin. pose proof refuted_all as H. rewrite forallb_forall in H.
  specialize (H _ Hin). unfold refuted_check in H. cbn [fst snd] in H.
  apply existsb_exists in H as [c [Hc H]]. apply andb_true_iff in H as [Hn H].
  apply String.eqb_eq in Hn.
  destruct (get_rx1_dr c dr off) as [r| | |] eqn:E; try discriminate.
  exists c, r. repeat split; auto. now apply negb_true_iff in H.
Qed.

(* ---- an accepted uplink data-rate is a data-rate of the band ------------------- *)

Lemma uplink_dr_check_all : all_cells uplink_dr_check = true.
Proof. vm_compute. reflexivity. Qed.

Lemma rx1_uplink_dr_defined c : In c band_configs -> forall dr off r,
  get_rx1_dr c dr off = Ok r -> dr_defined (c_tab c) dr = true.
Proof.
  intros Hc dr off r Hr.
  pose proof (all_cells_lift _ uplink_dr_check_all c Hc dr off r Hr) as H.
  unfold uplink_dr_check in H. now rewrite Hr in H.
Qed.

(* ---- an accepted offset is one the region defines ------------------------------- *)

Lemma offset_check_all : all_cells offset_check = true.
Proof. vm_compute. reflexivity. Qed.

Lemma offset_cell_known_In x : offset_cell_known x = true -> In x c12_known_offset_cells.
Proof.
  unfold offset_cell_known. rewrite existsb_exists. intros [y [Hy E]]. apply cell_eqb_eq in E. now subst.
Qed.

Lemma rx1_offset_in_range c : In c band_configs -> forall reg, region_of (c_name c) = Some reg ->
  forall dr off r, get_rx1_dr c dr off = Ok r ->
  off <= spec_max_rx1_offset reg \/ In (c_name c, dr, off) c12_known_offset_cells.
Proof.
  intros Hc reg Hreg dr off r Hr.
  pose proof (all_cells_lift _ offset_check_all c Hc dr off r Hr) as H.
  unfold offset_check in H. rewrite Hreg, Hr in H. unfold rx1_offset_rule in H.
  apply orb_true_iff in H as [H|H]; [|right; now apply offset_cell_known_In].
  left. destruct (Z.gtb_spec off (spec_max_rx1_offset reg)); [discriminate | lia].
Qed.

Lemma offset_refuted_all : forallb offset_refuted_check c12_known_offset_cells = true.
Proof. vm_compute. reflexivity. Qed.

Lemma rx1_offset_known_refuted : forall name dr off, In (name, dr, off) c12_known_offset_cells ->
  exists c reg r, In c band_configs /\ c_name c = name /\ region_of name = Some reg
                  /\ off > spec_max_rx1_offset reg /\ get_rx1_dr c dr off = Ok r.
Proof.
  intros name dr off Hin. pose proof offset_refuted_all as H. rewrite forallb_forall in H.
  specialize (H _ Hin). unfold offset_refuted_check in H. cbn [fst snd] in H.
  apply existsb_exists in H as [c [Hc H]]. apply andb_true_iff in H as [Hn H].
  apply String.eqb_eq in Hn. destruct (region_of (c_name c)) as [reg|] eqn:R; [|discriminate].
  apply andb_true_iff in H as [Ho Hk].
  destruct (get_rx1_dr c dr off) as [r| | |] eqn:E; try discriminate.
  exists c, reg, r. subst name. repeat split; auto.
  destruct (Z.gtb_spec off (spec_max_rx1_offset reg)); [lia | discriminate].
Qed.

(* ---- every configuration belongs to a region of the specification ------------ *)

Lemma regions_check_ok : regions_check = true.
Proof. vm_compute. reflexivity. Qed.

Lemma region_known c : In c band_configs -> exists reg, region_of (c_name c) = Some reg.
Proof.
  intros Hc. pose proof regions_check_ok as H. unfold regions_check in H.
  rewrite forallb_forall in H. specialize (H c Hc).
  destruct (region_of (c_name c)); [eauto | discriminate].
Qed.

(* ---- defaults / RX2 -------------------------------------------------------------------- *)

Lemma defaults_check_ok : defaults_check = true.
Proof. vm_compute. reflexivity. Qed.

Lemma defaults_eqb_eq a b : defaults_eqb a b = true -> a = b.
Proof.
  destruct a, b. unfold defaults_eqb. cbn. rewrite !andb_true_iff, !Z.eqb_eq.
  intros [[[[[? ?] ?] ?] ?] ?]. now subst.
Qed.

Lemma rx2_defaults c : In c band_configs -> forall reg, region_of (c_name c) = Some reg ->
  get_defaults c = c_defaults c /\ get_defaults c = spec_defaults reg
  /\ dr_defined_down (c_tab c) (d_rx2_dr (get_defaults c)) = true.
Proof.
  intros Hc reg Hreg. pose proof defaults_check_ok as H. unfold defaults_check in H.
  rewrite forallb_forall in H. specialize (H c Hc). rewrite Hreg in H.
  unfold rx2_ok in H. rewrite !andb_true_iff in H. destruct H as [H1 [H2 H3]].
  repeat split; auto using defaults_eqb_eq.
Qed.
