(* Model of backend.HEXBytes text form (/repo/backend/backend.go:105-128):
     MarshalText   = hex.EncodeToString(hb)
     UnmarshalText = hex.DecodeString(strings.TrimPrefix(text, "0x"))
   over LW.Base.Hex (encoding/hex and TrimPrefix re-specified there).  Any length, including empty. *)
From Coq Require Import List NArith.
From LW Require Import Base.Outcome Base.Bytes Base.Hex.
Import ListNotations.
Open Scope N_scope.

Definition hexbytes_marshal (bs : list N) : list N := hex_enc bs.
Definition hexbytes_unmarshal (text : list N) : outcome (list N) := hex_dec (trim0x text).
