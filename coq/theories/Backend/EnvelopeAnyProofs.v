(* Key envelopes under 16-, 24- and 32-byte KEKs (KeyEnvelopeAny.v): without label the key is
   carried in clear; with a label and an accepted KEK the key is wrapped and unwraps to itself;
   every other KEK length is an error on both sides; for EVERY byte string as AESKey, Unwrap returns
   a key exactly when the data has 24 bytes and the RFC 3394 integrity check passes under this KEK, it
   never panics, and the key it returns is the 16 bytes whose wrap the data is; the code before the
   repair C17-3 is refuted by witnesses (panic, truncation, zero padding, ignored trailing bytes). *)
From Coq Require Import List NArith Bool Lia PeanoNat.
From LW Require Import Base.Outcome Base.Bytes Crypto.AES Crypto.AESInv Crypto.AESAny Crypto.AESAnyProofs
  Crypto.KeyWrap Crypto.KeyWrapProofs Crypto.KeyWrapAny Crypto.KeyWrapAnyProofs
  Backend.KeyEnvelope Backend.EnvelopeProofs Backend.KeyEnvelopeAny.
Import ListNotations.
Open Scope N_scope.

Local Opaque wrap_rk unwrap_raw_rk expand_nk expand_key.

Lemma key_len_ok_iff kek : key_len_ok kek <-> kek_len_ok kek = true.
Proof.
  unfold key_len_ok, kek_len_ok. rewrite !orb_true_iff, !Nat.eqb_eq. tauto.
Qed.

Lemma key_len_ok_nonempty kek : key_len_ok kek -> kek <> [].
Proof. intros [H|[H|H]] ->; discriminate H. Qed.

(* ---- without a label (or without a KEK): the key in clear, no label ---- *)
Theorem no_label_clear_any label kek key :
  label = [] \/ kek = [] -> new_key_envelope_any label kek key = Ok ([], key).
Proof.
  intros [-> | ->]; unfold new_key_envelope_any; cbn [is_nil orb]; [reflexivity|].
  now rewrite orb_true_r.
Qed.

Lemma labelled_any label kek key : label <> [] -> kek <> [] ->
  new_key_envelope_any label kek key =
  match wrap_any kek key with Some w => Ok (label, w) | None => Err end.
Proof.
  intros Hl Hk. unfold new_key_envelope_any.
  destruct label as [|a l]; [congruence|]. destruct kek as [|b k]; [congruence|]. reflexivity.
Qed.

(* ---- wrapped with the KEK, unwraps to the same key with that KEK ---- *)
Theorem envelope_unwrap_wrap_any label kek key :
  label <> [] -> key_len_ok kek -> Forall byte kek -> length key = 16%nat -> Forall byte key ->
  exists w, new_key_envelope_any label kek key = Ok (label, w) /\ length w = 24%nat /\
            envelope_unwrap_any w kek = Ok key.
Proof.
  intros Hl Hok Hkb Hlen Hb.
  destruct (unwrap_wrap_any kek key 2 Hok Hkb Hb Hlen) as (w & Hw & Hu & Lw & _).
  exists w. rewrite (labelled_any label kek key Hl (key_len_ok_nonempty kek Hok)), Hw.
  split; [reflexivity|]. split; [lia|].
  apply unwrap_any_ok_iff_iv in Hu. unfold unwrap_raw_any in Hu. unfold envelope_unwrap_any.
  replace (length w) with 24%nat by lia. cbn [Nat.eqb negb].
  destruct (expand_key_any kek) as [rks|]; [|discriminate Hu].
  inversion Hu as [Hr]. rewrite Hr.
  replace (bytes_eqb default_iv default_iv) with true by reflexivity.
  now rewrite copy16_id.
Qed.

(* ---- a KEK crypto/aes refuses: error from both functions ---- *)
Theorem envelope_bad_kek label kek key d : label <> [] -> kek <> [] -> ~ key_len_ok kek ->
  new_key_envelope_any label kek key = Err /\ envelope_unwrap_any d kek = Err.
Proof.
  intros Hl Hk Hbad. rewrite (labelled_any label kek key Hl Hk).
  destruct (any_key_size_error kek key Hbad) as [W _]. rewrite W. split; [reflexivity|].
  unfold envelope_unwrap_any. apply expand_key_any_none_iff in Hbad. rewrite Hbad.
  destruct (negb (Nat.eqb (length d) 24)); reflexivity.
Qed.

(* ---- Unwrap on EVERY byte string: a key exactly when 24 bytes pass the RFC 3394 check; never a panic ---- *)
Theorem envelope_unwrap_any_ok_iff d kek k :
  envelope_unwrap_any d kek = Ok k <->
  length d = 24%nat /\ exists p, unwrap_any kek d = Some p /\ k = copy16 p.
Proof.
  unfold envelope_unwrap_any, unwrap_any, unwrap_raw_any.
  destruct (Nat.eqb (length d) 24) eqn:L; cbn [negb].
  - apply Nat.eqb_eq in L. destruct (expand_key_any kek) as [rks|].
    + destruct (unwrap_raw_rk rks d) as [iv plain]. destruct (bytes_eqb iv default_iv).
      * split.
        { intros H. inversion H. split; [exact L|]. exists plain. auto. }
        { intros (_ & p & Hp & ->). inversion Hp. reflexivity. }
      * split; [discriminate|]. intros (_ & p & Hp & _). discriminate Hp.
    + split; [discriminate|]. intros (_ & p & Hp & _). discriminate Hp.
  - apply Nat.eqb_neq in L. split; [discriminate|]. intros (H & _). contradiction.
Qed.

Theorem envelope_unwrap_any_total d kek :
  envelope_unwrap_any d kek = Err \/ exists k, envelope_unwrap_any d kek = Ok k.
Proof.
  unfold envelope_unwrap_any. destruct (negb (Nat.eqb (length d) 24)); [left; reflexivity|].
  destruct (expand_key_any kek) as [rks|]; [|left; reflexivity].
  destruct (unwrap_raw_rk rks d) as [iv plain]. destruct (bytes_eqb iv default_iv); [right; eauto|left; reflexivity].
Qed.

Theorem envelope_unwrap_any_never_panics d kek : envelope_unwrap_any d kek <> Panic.
Proof. destruct (envelope_unwrap_any_total d kek) as [H|[k H]]; rewrite H; discriminate. Qed.

(* in terms of the recovered initial value: the form of the earlier theorem, now for every length *)
Theorem envelope_unwrap_any_ok_iff_iv d kek :
  key_len_ok kek -> length d = 24%nat ->
  exists iv plain, unwrap_raw_any kek d = Some (iv, plain) /\
    (forall k, envelope_unwrap_any d kek = Ok k <-> iv = default_iv /\ k = copy16 plain) /\
    (envelope_unwrap_any d kek = Err <-> iv <> default_iv).
Proof.
  intros Hok Hd. unfold envelope_unwrap_any, unwrap_raw_any. rewrite Hd. cbn [Nat.eqb negb].
  apply expand_key_any_some_iff in Hok. destruct Hok as [rks Hr]. rewrite Hr.
  destruct (unwrap_raw_rk rks d) as [iv plain]. exists iv, plain. split; [reflexivity|].
  destruct (bytes_eqb iv default_iv) eqn:E.
  - apply bytes_eqb_eq in E. subst iv. split.
    + intros k. split; [intros H; inversion H; auto|intros [_ ->]; reflexivity].
    + split; [discriminate|]. intros H. exfalso. apply H. reflexivity.
  - assert (Hne : iv <> default_iv).
    { intros ->. assert (T : bytes_eqb default_iv default_iv = true) by reflexivity. congruence. }
    split.
    + intros k. split; [discriminate|]. intros [Hc _]. contradiction.
    + split; [intros _; exact Hne|reflexivity].
Qed.

(* ---- the key that comes out has 16 bytes, and the data is its wrap ---- *)
Local Transparent unwrap_raw_rk.
Lemma unwrap_raw_rk_24 rks d : Forall st16 rks -> Forall byte d -> length d = 24%nat ->
  length (snd (unwrap_raw_rk rks d)) = 16%nat.
Proof.
  intros Hr Hd Hl. unfold unwrap_raw_rk. rewrite Hl.
  change (24 / 8 - 1)%nat with 2%nat.
  assert (Ha : blk8 (firstn 8 d)) by (split; [rewrite firstn_length; lia|apply Forall_firstn', Hd]).
  destruct (chunks8_spec 2 (skipn 8 d)) as [C1 _].
  { rewrite skipn_length. lia. } { apply CMACProofs.Forall_skipn', Hd. }
  destruct (unwrap_passes_inv rks Hr 6 (N.of_nat 2) 0 (firstn 8 d) (chunks8 2 (skipn 8 d)) Ha C1) as (_ & U2 & _).
  pose proof (unwrap_passes_length 6 rks (N.of_nat 2) 0 (firstn 8 d) (chunks8 2 (skipn 8 d))) as UL.
  rewrite chunks8_length in UL.
  destruct (unwrap_passes 6 rks (N.of_nat 2) 0 (firstn 8 d) (chunks8 2 (skipn 8 d))) as [a rs].
  cbn [fst snd] in *. rewrite concat_blk8_length by exact U2. rewrite UL. reflexivity.
Qed.
Local Opaque unwrap_raw_rk.

Theorem envelope_unwrap_any_only_wrapped d kek k :
  Forall byte kek -> Forall byte d -> envelope_unwrap_any d kek = Ok k ->
  length d = 24%nat /\ length k = 16%nat /\ wrap_any kek k = Some d.
Proof.
  intros Hkb Hdb H. apply envelope_unwrap_any_ok_iff in H. destruct H as (Hl & p & Hu & ->).
  split; [exact Hl|].
  assert (Lp : length p = 16%nat).
  { pose proof Hu as Hu'. apply unwrap_any_ok_iff_iv in Hu'. unfold unwrap_raw_any in Hu'.
    destruct (expand_key_any kek) as [rks|] eqn:E; [|discriminate Hu'].
    pose proof (unwrap_raw_rk_24 rks d (expand_key_any_st16 kek rks Hkb E) Hdb Hl) as L.
    inversion Hu' as [Hr]. rewrite Hr in L. exact L. }
  rewrite copy16_id by exact Lp. split; [exact Lp|].
  exact (wrap_unwrap_any kek d p 2 Hkb Hdb Hl Hu).
Qed.

(* ---- the form used by the case checker ---- *)
Theorem envelope_unwrap_any_from_raw d kek :
  envelope_unwrap_any d kek = envelope_unwrap_from_raw d (unwrap_raw_any kek d).
Proof.
  unfold envelope_unwrap_any, envelope_unwrap_from_raw, unwrap_raw_any.
  destruct (negb (Nat.eqb (length d) 24)); [reflexivity|].
  destruct (expand_key_any kek) as [rks|]; [|reflexivity].
  destruct (unwrap_raw_rk rks d) as [iv plain]. reflexivity.
Qed.

(* ---- the code before the repair ---- *)
Theorem unwrap_orig_agrees_on_24 d kek : length d = 24%nat ->
  envelope_unwrap_any d kek = envelope_unwrap_any_orig d kek.
Proof.
  intros H. unfold envelope_unwrap_any, envelope_unwrap_any_orig. rewrite H. reflexivity.
Qed.

(* no data / the bare IV: a run-time panic; 192 bits of key data (RFC 3394 4.4): success with the first 16 bytes;
   64 bits of key data: success with 8 zero bytes added; a trailing byte: ignored *)
Theorem unwrap_orig_refuted :
  envelope_unwrap_any_orig [] (seq_bytes 16) = Panic /\
  envelope_unwrap_any_orig [1; 2; 3; 4; 5; 6; 7] (seq_bytes 24) = Panic /\
  envelope_unwrap_any_orig default_iv (seq_bytes 32) = Panic /\
  envelope_unwrap_any_orig rfc3394_4_4 (seq_bytes 24) = Ok (firstn 16 kd192) /\
  match wrap_any (seq_bytes 16) (seq_bytes 8) with
  | Some w => length w = 16%nat /\ envelope_unwrap_any_orig w (seq_bytes 16) = Ok (seq_bytes 8 ++ repeat 0 8)
  | None => False
  end /\
  envelope_unwrap_any_orig (rfc3394_4_2 ++ [255]) (seq_bytes 24) = Ok kd128.
Proof. vm_compute. repeat split; reflexivity. Qed.

(* ---- 16-byte KEKs: the AES-128 model of KeyEnvelope.v (NewKeyEnvelope as C16 uses it; its Unwrap is the old code) ---- *)
Theorem envelope_any_128 kek : length kek = 16%nat ->
  (forall label key, new_key_envelope_any label kek key = new_key_envelope label kek key) /\
  (forall d, envelope_unwrap_any_orig d kek = envelope_unwrap d kek).
Proof.
  intros Hk. split.
  - intros label key. unfold new_key_envelope_any, new_key_envelope, new_key_envelope_with.
    rewrite (wrap_any_128 kek key Hk), (kek16_ok kek Hk). reflexivity.
  - intros d. unfold envelope_unwrap_any_orig, envelope_unwrap, envelope_unwrap_with, unwrap_raw.
    rewrite (expand_key_any_128 kek Hk), (kek16_ok kek Hk). reflexivity.
Qed.
