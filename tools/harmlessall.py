#!/usr/bin/env python3
"""Runs tools/harmlesscheck.sh over behaviour-preserving changes: usage harmlessall.py <root> [A1/1 ...]"""
import sys, os, subprocess, re, json, concurrent.futures
root = sys.argv[1]; sel = sys.argv[2:]
todo = []
for a in sorted(os.listdir(root)):
    if not re.fullmatch(r"A\d", a): continue
    checks = json.load(open(os.path.join(root, "checks_%s.json" % a)))
    for n in ("1", "2", "3"):
        d = os.path.join(root, a, n)
        if os.path.exists(os.path.join(d, "patch.diff")) and (not sel or "%s/%s" % (a, n) in sel):
            todo.append((a, n, d, checks))
def run(t):
    a, n, d, checks = t
    p = subprocess.run(["/verif/tools/harmlesscheck.sh", d] + checks, capture_output=True, text=True)
    out = p.stdout + p.stderr
    open(os.path.join(d, "harmlesscheck.log"), "w").write(out)
    suite = out.split("== suite on patched tree")[1].split("== check")[0] if "== suite on patched tree" in out else "?"
    suite_ok = not re.search(r"FAIL|panic|cannot|undefined", suite)
    res = re.findall(r"== check (\w+) on patched tree\n(.*?)rc=(\d+)", out, re.S)
    return "%s/%s suite_ok=%s | %s" % (a, n, suite_ok, "; ".join("%s rc=%s%s" % (c, rc, " VIOLATION" + (" nfi" if "no-failing-input-found" in b else "") if "VIOLATION" in b else "") for c, b, rc in res))
with concurrent.futures.ThreadPoolExecutor(3) as ex:
    for r in ex.map(run, todo):
        print(r, flush=True)
