(* C08 - accepted frames are canonical.  Statement file. *)
From Coq Require Import List NArith ZArith Bool.
From LW Require Import Base.Outcome Base.Bytes Mac.Commands Mac.Stream Frame.Model Frame.CanonProofs.
Import ListNotations.
Open Scope N_scope.

(* every byte string (of any length) that the frame decoder accepts, with the three
   reserved MHDR bits zero, re-encodes without error to exactly the same bytes *)
Theorem C08_canonical : forall bs p,
  Forall (fun b => b < 256) bs -> rfu_zero bs = true ->
  phy_unmarshal bs = Ok p -> phy_marshal p = Ok bs.
Proof. exact phy_canonical. Qed.
Print Assumptions C08_canonical.

(* ... and decoding that output again yields the same frame *)
Theorem C08_stable : forall bs p,
  Forall (fun b => b < 256) bs -> rfu_zero bs = true ->
  phy_unmarshal bs = Ok p ->
  exists bs', phy_marshal p = Ok bs' /\ phy_unmarshal bs' = Ok p.
Proof. intros bs p Hb Hr H. exists bs. split; [exact (phy_canonical bs p Hb Hr H) | exact H]. Qed.
Print Assumptions C08_stable.

(* the MACPayload part on its own (all four data MTypes) *)
Theorem C08_mac_canonical : forall body m,
  Forall (fun b => b < 256) body -> mac_unmarshal body = Ok m -> mac_marshal m = Ok body.
Proof. exact mac_canonical. Qed.
Print Assumptions C08_mac_canonical.

(* non-vacuity: an accepted data frame with FOpts, FPort and payload *)
Example C08_example :
  exists p, phy_unmarshal [0x40; 4; 3; 2; 1; 0x82; 7; 0; 0x02; 0x06; 9; 0xaa; 0xbb; 1; 2; 3; 4] = Ok p /\
            phy_marshal p = Ok [0x40; 4; 3; 2; 1; 0x82; 7; 0; 0x02; 0x06; 9; 0xaa; 0xbb; 1; 2; 3; 4].
Proof. eexists. split; vm_compute; reflexivity. Qed.
