// Correspondence harness for C11 (DevAddr/NetID algebra, identifier representations).
package main

import (
	"bytes"
	"database/sql/driver"
	"encoding/binary"
	"fmt"
	"os"
	"sync"

	"github.com/brocaar/lorawan"
	"verifharness/internal/cases"
	"verifharness/internal/cq"
)

func be(b []byte) uint64 {
	var v uint64
	for _, x := range b {
		v = v<<8 | uint64(x)
	}
	return v
}

func outcome(b []byte, err error) string {
	if err != nil {
		return cq.Err
	}
	return cq.Ok(cq.Bytes(b))
}

type ident struct {
	name string
	k    int
	// text -> value bytes
	untext func([]byte) ([]byte, error)
	text   func([]byte) ([]byte, error)
	unbin  func([]byte) ([]byte, error)
	bin    func([]byte) ([]byte, error)
	scan   func(interface{}) ([]byte, error)
	value  func([]byte) (driver.Value, error)
}

func idents() []ident {
	return []ident{
		{"EUI64", 8,
			func(t []byte) ([]byte, error) { var e lorawan.EUI64; err := e.UnmarshalText(t); return e[:], err },
			func(b []byte) ([]byte, error) { var e lorawan.EUI64; copy(e[:], b); return e.MarshalText() },
			func(t []byte) ([]byte, error) { var e lorawan.EUI64; err := e.UnmarshalBinary(t); return e[:], err },
			func(b []byte) ([]byte, error) { var e lorawan.EUI64; copy(e[:], b); return e.MarshalBinary() },
			func(s interface{}) ([]byte, error) { var e lorawan.EUI64; err := e.Scan(s); return e[:], err },
			func(b []byte) (driver.Value, error) { var e lorawan.EUI64; copy(e[:], b); return e.Value() }},
		{"DevAddr", 4,
			func(t []byte) ([]byte, error) { var e lorawan.DevAddr; err := e.UnmarshalText(t); return e[:], err },
			func(b []byte) ([]byte, error) { var e lorawan.DevAddr; copy(e[:], b); return e.MarshalText() },
			func(t []byte) ([]byte, error) { var e lorawan.DevAddr; err := e.UnmarshalBinary(t); return e[:], err },
			func(b []byte) ([]byte, error) { var e lorawan.DevAddr; copy(e[:], b); return e.MarshalBinary() },
			func(s interface{}) ([]byte, error) { var e lorawan.DevAddr; err := e.Scan(s); return e[:], err },
			func(b []byte) (driver.Value, error) { var e lorawan.DevAddr; copy(e[:], b); return e.Value() }},
		{"NetID", 3,
			func(t []byte) ([]byte, error) { var e lorawan.NetID; err := e.UnmarshalText(t); return e[:], err },
			func(b []byte) ([]byte, error) { var e lorawan.NetID; copy(e[:], b); return e.MarshalText() },
			func(t []byte) ([]byte, error) { var e lorawan.NetID; err := e.UnmarshalBinary(t); return e[:], err },
			func(b []byte) ([]byte, error) { var e lorawan.NetID; copy(e[:], b); return e.MarshalBinary() },
			func(s interface{}) ([]byte, error) { var e lorawan.NetID; err := e.Scan(s); return e[:], err },
			func(b []byte) (driver.Value, error) { var e lorawan.NetID; copy(e[:], b); return e.Value() }},
		{"AES128Key", 16,
			func(t []byte) ([]byte, error) { var e lorawan.AES128Key; err := e.UnmarshalText(t); return e[:], err },
			func(b []byte) ([]byte, error) { var e lorawan.AES128Key; copy(e[:], b); return e.MarshalText() },
			func(t []byte) ([]byte, error) { var e lorawan.AES128Key; err := e.UnmarshalBinary(t); return e[:], err },
			func(b []byte) ([]byte, error) { var e lorawan.AES128Key; copy(e[:], b); return e.MarshalBinary() },
			func(s interface{}) ([]byte, error) { var e lorawan.AES128Key; err := e.Scan(s); return e[:], err },
			func(b []byte) (driver.Value, error) { var e lorawan.AES128Key; copy(e[:], b); return e.Value() }},
	}
}

func prefixCase(s *cases.Set, v uint32, a uint32) {
	var nid lorawan.NetID
	nid[0], nid[1], nid[2] = byte(v>>16), byte(v>>8), byte(v)
	var da lorawan.DevAddr
	binary.BigEndian.PutUint32(da[:], a)
	member := da.IsNetID(nid)
	da2 := da
	da2.SetAddrPrefix(nid)
	oaddr := binary.BigEndian.Uint32(da2[:])
	nwk := da2.NwkID()
	onwk := cq.None
	if nwk != nil {
		onwk = cq.Some(cq.Tuple(cq.N(be(nwk)), fmt.Sprintf("%d%%nat", len(nwk))))
	}
	term := fmt.Sprintf("CPrefix %d %d %d %s %d %s %s %s", v, a, oaddr, cq.Bool(member),
		nid.Type(), cq.Bytes(nid.ID()), cq.Z(int64(da2.NetIDType())), onwk)
	s.Add(cases.Case{Term: term, Key: fmt.Sprintf("prefix:netid=%06x:devaddr=%08x", v, a),
		Kind:       fmt.Sprintf("prefix-type%d", v>>21),
		Nontrivial: true,
		Replay:     map[string]interface{}{"api": "DevAddr.SetAddrPrefix/IsNetID/NwkID", "netid": fmt.Sprintf("%06x", v), "devaddr": fmt.Sprintf("%08x", a), "observed_addr": fmt.Sprintf("%08x", oaddr)}})
}

// concurrentForms: the representation methods are called from several goroutines at once on distinct values
// (a server renders and parses many identifiers in parallel); every result must be the one obtained
// sequentially before (those are compared with the model as ordinary cases).
func concurrentForms(s *cases.Set, r *cq.RNG, rounds int) {
	type job struct {
		id                    ident
		val                   []byte
		text, bin             []byte
		sqlv                  []byte
		prefixNet, prefixAddr uint32
		prefixOut             uint32
		member                bool
	}
	var jobs []job
	for g := 0; g < 8; g++ {
		for _, id := range idents() {
			v := r.Bytes(id.k)
			t, _ := id.text(v)
			b, _ := id.bin(v)
			sv, _ := id.value(v)
			sb, _ := sv.([]byte)
			j := job{id: id, val: v, text: t, bin: b, sqlv: append([]byte{}, sb...)}
			j.prefixNet, j.prefixAddr = r.U32()&0xffffff, r.U32()
			var nid lorawan.NetID
			nid[0], nid[1], nid[2] = byte(j.prefixNet>>16), byte(j.prefixNet>>8), byte(j.prefixNet)
			var da lorawan.DevAddr
			binary.BigEndian.PutUint32(da[:], j.prefixAddr)
			j.member = da.IsNetID(nid)
			da.SetAddrPrefix(nid)
			j.prefixOut = binary.BigEndian.Uint32(da[:])
			jobs = append(jobs, j)
		}
	}
	var mu sync.Mutex
	bad := map[string]string{}
	var wg sync.WaitGroup
	for g := 0; g < 8; g++ {
		wg.Add(1)
		go func(g int) {
			defer wg.Done()
			defer func() {
				if rec := recover(); rec != nil {
					mu.Lock()
					bad["panic"] = fmt.Sprint(rec)
					mu.Unlock()
				}
			}()
			for k := 0; k < rounds; k++ {
				for i := g; i < len(jobs); i += 8 {
					j := jobs[i]
					what := ""
					if t, _ := j.id.text(j.val); !bytes.Equal(t, j.text) {
						what = fmt.Sprintf("MarshalText gave %q, sequentially %q", t, j.text)
					} else if v, err := j.id.untext(j.text); err != nil || !bytes.Equal(v, j.val) {
						what = fmt.Sprintf("UnmarshalText(%q) gave %x", j.text, v)
					} else if b, _ := j.id.bin(j.val); !bytes.Equal(b, j.bin) {
						what = fmt.Sprintf("MarshalBinary gave %x, sequentially %x", b, j.bin)
					} else if v, err := j.id.unbin(j.bin); err != nil || !bytes.Equal(v, j.val) {
						what = fmt.Sprintf("UnmarshalBinary(%x) gave %x", j.bin, v)
					} else if v, err := j.id.scan(append([]byte{}, j.sqlv...)); err != nil || !bytes.Equal(v, j.val) {
						what = fmt.Sprintf("Scan(%x) gave %x", j.sqlv, v)
					} else {
						var nid lorawan.NetID
						nid[0], nid[1], nid[2] = byte(j.prefixNet>>16), byte(j.prefixNet>>8), byte(j.prefixNet)
						var da lorawan.DevAddr
						binary.BigEndian.PutUint32(da[:], j.prefixAddr)
						m := da.IsNetID(nid)
						da.SetAddrPrefix(nid)
						if m != j.member || binary.BigEndian.Uint32(da[:]) != j.prefixOut {
							what = fmt.Sprintf("SetAddrPrefix/IsNetID(%06x, %08x) gave %08x/%v, sequentially %08x/%v", j.prefixNet, j.prefixAddr, binary.BigEndian.Uint32(da[:]), m, j.prefixOut, j.member)
						}
					}
					if what != "" {
						mu.Lock()
						key := fmt.Sprintf("concurrent:%s:%x", j.id.name, j.val)
						if _, ok := bad[key]; !ok && len(bad) < 20 {
							bad[key] = what
						}
						mu.Unlock()
					}
				}
			}
		}(g)
	}
	wg.Wait()
	for k, w := range bad {
		s.Fail(cases.GoFail{Key: k, What: "with 8 goroutines working on distinct identifiers: " + w, Replay: map[string]interface{}{"goroutines": 8, "rounds": rounds}})
	}
	s.Extra["concurrent_identifier_calls"] = 8 * rounds * len(jobs) / 8 * 6
}

// addrCase: NetIDType / NwkID of a DevAddr as it is (coverage of the harness runs showed that the "no type
// prefix" answers were never observed)
func addrCase(s *cases.Set, a uint32) {
	var da lorawan.DevAddr
	binary.BigEndian.PutUint32(da[:], a)
	nwk := da.NwkID()
	onwk := cq.None
	if nwk != nil {
		onwk = cq.Some(cq.Tuple(cq.N(be(nwk)), fmt.Sprintf("%d%%nat", len(nwk))))
	}
	s.Add(cases.Case{Term: fmt.Sprintf("CAddr %d %s %s", a, cq.Z(int64(da.NetIDType())), onwk), Key: fmt.Sprintf("addr:%08x", a), Kind: "devaddr-type",
		Nontrivial: true, Replay: map[string]interface{}{"api": "DevAddr.NetIDType/NwkID", "devaddr": fmt.Sprintf("%08x", a)}})
}

func main() {
	dir, seed, thorough := cases.Args()
	r := cq.NewRNG(seed)
	s := cases.New("C11", dir, "LW.Corr.C11",
		"NetID type 0..7 x ID field {0, 1, all-ones, width boundaries, random} x DevAddr {0, ffffffff, boundary, random}; identifier values through text/binary/sql forms plus malformed text and wrong lengths; every case is non-trivial (distinct = distinct printed case)")
	nPrefix, nRepr := 250, 40
	if thorough {
		nPrefix, nRepr = 12000, 1500
	}
	// structured NetIDs: every type, boundary IDs
	for t := uint32(0); t < 8; t++ {
		ids := []uint32{0, 1, 0x3f, 0x40, 0x1ff, 0x200, 0x7ff, 0x800, 0xfff, 0x1fff, 0x7fff, 0x1ffff, 0x20000, 0x1fffff, 0x155555, 0x0aaaaa}
		for _, id := range ids {
			for _, a := range []uint32{0, 0xffffffff, 0x01020304, r.U32()} {
				prefixCase(s, t<<21|id, a)
			}
		}
	}
	for i := 0; i < nPrefix; i++ {
		v := r.U32() & 0xffffff
		a := r.U32()
		prefixCase(s, v, a)
		// an address that is a member: derive it, then flip one bit
		var nid lorawan.NetID
		nid[0], nid[1], nid[2] = byte(v>>16), byte(v>>8), byte(v)
		var da lorawan.DevAddr
		binary.BigEndian.PutUint32(da[:], a)
		da.SetAddrPrefix(nid)
		m := binary.BigEndian.Uint32(da[:])
		prefixCase(s, v, m)
		prefixCase(s, v, m^(1<<uint(r.Intn(32))))
		// neighbours: the NetID with one bit changed, right after, on the same address, and the first one
		// again (a result must depend on the arguments of this call only); bit i%24 so that every bit is
		// covered for every type in a few hundred iterations
		w := v ^ 1<<uint(i%24)
		prefixCase(s, w, a)
		prefixCase(s, w, m)
		prefixCase(s, v, a)
	}
	// every type x every single-bit neighbour pair of the all-ones-but-one and random IDs, back to back
	for t := uint32(0); t < 8; t++ {
		for bit := uint(0); bit < 21; bit++ {
			id := r.U32() & 0x1fffff
			a := r.U32()
			prefixCase(s, t<<21|id, a)
			prefixCase(s, t<<21|(id^1<<bit), a)
			prefixCase(s, t<<21|id, a)
		}
	}
	// raw addresses: every first byte (all type prefixes, and ff = none) x boundary tails, and random ones
	for b0 := uint32(0); b0 < 256; b0++ {
		addrCase(s, b0<<24)
		addrCase(s, b0<<24|0xffffff)
		addrCase(s, b0<<24|r.U32()&0xffffff)
	}
	s.Exhaustive("DevAddr.NetIDType/NwkID: all 256 first bytes")
	for i := 0; i < nPrefix/2; i++ {
		addrCase(s, r.U32())
	}
	// representations
	hexd := []byte("0123456789abcdefABCDEF")
	for _, id := range idents() {
		for i := 0; i < nRepr; i++ {
			var bs []byte
			switch i {
			case 0:
				bs = make([]byte, id.k)
			case 1:
				bs = make([]byte, id.k)
				for j := range bs {
					bs[j] = 0xff
				}
			case 2: // starts with the text "0x.." once hex-encoded? value 0x0x cannot occur; use leading zero byte
				bs = r.Bytes(id.k)
				bs[0] = 0x00
			default:
				bs = r.Bytes(id.k)
			}
			text, _ := id.text(bs)
			b1, e1 := id.untext(text)
			b2, e2 := id.untext(append([]byte("0x"), text...))
			s.Add(cases.Case{Term: fmt.Sprintf("CTextRT %s %s %s %s", cq.Bytes(bs), cq.Bytes(text), outcome(b1, e1), outcome(b2, e2)),
				Key: "textrt:" + id.name + ":" + fmt.Sprintf("%x", bs), Kind: "text-roundtrip-" + id.name, Nontrivial: true,
				Replay: map[string]interface{}{"api": id.name + ".MarshalText/UnmarshalText", "value": fmt.Sprintf("%x", bs)}})
			bin, _ := id.bin(bs)
			b3, e3 := id.unbin(bin)
			s.Add(cases.Case{Term: fmt.Sprintf("CBinRT %s %s %s", cq.Bytes(bs), cq.Bytes(bin), outcome(b3, e3)),
				Key: "binrt:" + id.name + ":" + fmt.Sprintf("%x", bs), Kind: "binary-roundtrip-" + id.name, Nontrivial: true,
				Replay: map[string]interface{}{"api": id.name + ".MarshalBinary/UnmarshalBinary", "value": fmt.Sprintf("%x", bs)}})
			val, _ := id.value(bs)
			vb, _ := val.([]byte)
			b4, e4 := id.scan(append([]byte{}, vb...))
			s.Add(cases.Case{Term: fmt.Sprintf("CScanRT %s %s %s", cq.Bytes(bs), cq.Bytes(vb), outcome(b4, e4)),
				Key: "scanrt:" + id.name + ":" + fmt.Sprintf("%x", bs), Kind: "sql-roundtrip-" + id.name, Nontrivial: true,
				Replay: map[string]interface{}{"api": id.name + ".Value/Scan", "value": fmt.Sprintf("%x", bs)}})
		}
		// malformed / wrong-length stream
		for i := 0; i < nRepr; i++ {
			n := id.k*2 + []int{-2, -1, 0, 1, 2, 4, -2, 2}[r.Intn(8)]
			if i%7 == 0 {
				n = r.Intn(40)
			}
			if n < 0 {
				n = 0
			}
			t := make([]byte, n)
			for j := range t {
				t[j] = hexd[r.Intn(len(hexd))]
			}
			switch r.Intn(5) {
			case 0:
				t = append([]byte("0x"), t...)
			case 1:
				if n > 0 {
					t[r.Intn(n)] = "gxX -"[r.Intn(5)]
				}
			case 2:
				t = append([]byte("0x0x"), t...)
			}
			b, e := id.untext(t)
			s.Add(cases.Case{Term: fmt.Sprintf("CText %d%%nat %s %s", id.k, cq.Bytes(t), outcome(b, e)),
				Key: "text:" + id.name + ":" + string(t), Kind: "text-malformed-" + id.name, Nontrivial: true,
				Replay: map[string]interface{}{"api": id.name + ".UnmarshalText", "text": string(t)}})
			d := r.Bytes(id.k + []int{-1, 0, 0, 1, 3}[r.Intn(5)])
			if i%3 == 0 {
				// the raw forms fed with what is really the text form (or another identifier's raw form that
				// happens to consist of ASCII hex digits): wrong length, must be refused
				d = append([]byte{}, t...)
			} else if i%3 == 1 {
				d = make([]byte, []int{id.k * 2, id.k*2 + 2, id.k, id.k * 4, 8, 16, 6, 4}[r.Intn(8)])
				for j := range d {
					d[j] = hexd[r.Intn(len(hexd))]
				}
				if len(d) == id.k*2+2 {
					d[0], d[1] = '0', 'x'
				}
			}
			b, e = id.unbin(d)
			s.Add(cases.Case{Term: fmt.Sprintf("CBin %d%%nat %s %s", id.k, cq.Bytes(d), outcome(b, e)),
				Key: "bin:" + id.name + ":" + fmt.Sprintf("%x", d), Kind: "binary-anylen-" + id.name, Nontrivial: true,
				Replay: map[string]interface{}{"api": id.name + ".UnmarshalBinary", "data": fmt.Sprintf("%x", d)}})
			b, e = id.scan(append([]byte{}, d...))
			s.Add(cases.Case{Term: fmt.Sprintf("CScan %d%%nat %s %s", id.k, cq.Bytes(d), outcome(b, e)),
				Key: "scan:" + id.name + ":" + fmt.Sprintf("%x", d), Kind: "sql-anylen-" + id.name, Nontrivial: true,
				Replay: map[string]interface{}{"api": id.name + ".Scan", "data": fmt.Sprintf("%x", d)}})
		}
	}
	// database/sql receives identifiers by value through interface{}: each type (not only its pointer) must be a
	// driver.Valuer that the default converter accepts
	for _, v := range []interface{}{lorawan.EUI64{1, 2, 3, 4, 5, 6, 7, 8}, lorawan.DevAddr{1, 2, 3, 4}, lorawan.NetID{1, 2, 3}, lorawan.AES128Key{1, 2, 3}} {
		name := fmt.Sprintf("%T", v)
		if _, ok := v.(driver.Valuer); !ok {
			s.Fail(cases.GoFail{Key: "sql-by-value:" + name, What: name + " passed by value is not a driver.Valuer", Replay: map[string]interface{}{"type": name}})
			continue
		}
		out, err := driver.DefaultParameterConverter.ConvertValue(v)
		b, _ := out.([]byte)
		want, _ := v.(driver.Valuer).Value()
		wb, _ := want.([]byte)
		if err != nil || !bytes.Equal(b, wb) || len(b) == 0 {
			s.Fail(cases.GoFail{Key: "sql-by-value:" + name, What: fmt.Sprintf("database/sql conversion of %s by value gives %x, %v", name, b, err), Replay: map[string]interface{}{"type": name}})
		}
	}
	rounds := 3000
	if thorough {
		rounds = 60000
	}
	concurrentForms(s, r, rounds)
	if err := s.Finish(); err != nil {
		fmt.Fprintln(os.Stderr, err)
		os.Exit(2)
	}
}
