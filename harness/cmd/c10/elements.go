package main

// Encoded output of every PART of a frame.  "Encoded output does not change the frame when overwritten" holds
// for whatever encoder a caller can reach: p.MACPayload.MarshalBinary() of a decoded join-accept / proprietary
// frame, FOpts[i] / FRMPayload[i].MarshalBinary() of a decoded data frame, MACCommand.Payload.MarshalBinary(),
// FHDR / MACPayload / CFList / join payload / identifier MarshalBinary.  For each decoded (and further processed)
// frame every such output is overwritten over its whole capacity; the frame must print the same and re-encode to
// the same bytes (`part-output-aliases:<part>:<frame>`).  The two leaf encoders that hold a byte slice
// (DataPayload, ProprietaryMACCommandPayload) are also compared with the heap model (CElemMarshal); the
// fixed-size identifier decoders are run with the input overlapping the receiver (CIdentOverlap).

import (
	"bytes"
	"fmt"
	"unsafe"

	"github.com/brocaar/lorawan"
	"verifharness/internal/cases"
	"verifharness/internal/cq"
	"verifharness/internal/framefmt"
)

type part struct {
	name string
	enc  func() ([]byte, error)
}

func itemParts(prefix string, items []lorawan.Payload) []part {
	var out []part
	for i, it := range items {
		it := it
		out = append(out, part{fmt.Sprintf("%s[%d].MarshalBinary", prefix, i), it.MarshalBinary})
		if mc, ok := it.(*lorawan.MACCommand); ok && mc.Payload != nil {
			out = append(out, part{fmt.Sprintf("%s[%d].Payload.MarshalBinary", prefix, i), mc.Payload.MarshalBinary})
		}
	}
	return out
}

func partsOf(p *lorawan.PHYPayload) []part {
	var out []part
	if p.MACPayload == nil {
		return nil
	}
	out = append(out, part{"PHYPayload.MACPayload.MarshalBinary", p.MACPayload.MarshalBinary}, part{"MHDR.MarshalBinary", p.MHDR.MarshalBinary})
	switch v := p.MACPayload.(type) {
	case *lorawan.MACPayload:
		out = append(out, part{"FHDR.MarshalBinary", v.FHDR.MarshalBinary}, part{"FHDR.DevAddr.MarshalBinary", v.FHDR.DevAddr.MarshalBinary}, part{"FHDR.FCtrl.MarshalBinary", v.FHDR.FCtrl.MarshalBinary})
		out = append(out, itemParts("FHDR.FOpts", v.FHDR.FOpts)...)
		out = append(out, itemParts("FRMPayload", v.FRMPayload)...)
	case *lorawan.JoinAcceptPayload:
		out = append(out, part{"JoinAcceptPayload.JoinNonce.MarshalBinary", v.JoinNonce.MarshalBinary}, part{"JoinAcceptPayload.HomeNetID.MarshalBinary", v.HomeNetID.MarshalBinary},
			part{"JoinAcceptPayload.DevAddr.MarshalBinary", v.DevAddr.MarshalBinary}, part{"JoinAcceptPayload.DLSettings.MarshalBinary", v.DLSettings.MarshalBinary})
		if v.CFList != nil {
			out = append(out, part{"CFList.MarshalBinary", v.CFList.MarshalBinary})
			if v.CFList.Payload != nil {
				out = append(out, part{"CFList.Payload.MarshalBinary", v.CFList.Payload.MarshalBinary})
			}
		}
	case *lorawan.JoinRequestPayload:
		out = append(out, part{"JoinRequestPayload.JoinEUI.MarshalBinary", v.JoinEUI.MarshalBinary}, part{"JoinRequestPayload.DevEUI.MarshalBinary", v.DevEUI.MarshalBinary}, part{"JoinRequestPayload.DevNonce.MarshalBinary", v.DevNonce.MarshalBinary})
	case *lorawan.RejoinRequestType02Payload:
		out = append(out, part{"RejoinRequestType02Payload.NetID.MarshalBinary", v.NetID.MarshalBinary}, part{"RejoinRequestType02Payload.DevEUI.MarshalBinary", v.DevEUI.MarshalBinary})
	case *lorawan.RejoinRequestType1Payload:
		out = append(out, part{"RejoinRequestType1Payload.JoinEUI.MarshalBinary", v.JoinEUI.MarshalBinary}, part{"RejoinRequestType1Payload.DevEUI.MarshalBinary", v.DevEUI.MarshalBinary})
	}
	return out
}

// partOutputs overwrites every part's encoded output; stage says how the frame was obtained.
func (h *H) partOutputs(stage string, wire []byte, p *lorawan.PHYPayload) {
	text := deep(p)
	enc0, err0 := p.MarshalBinary()
	for _, pt := range partsOf(p) {
		h.nparts++
		var out []byte
		func() {
			cases.Begin("part output "+pt.name, map[string]interface{}{"frame": hexs(wire), "stage": stage})
			defer cases.End()
			defer func() { _ = recover() }()
			out, _ = pt.enc()
		}()
		if out == nil {
			continue
		}
		full := out[:cap(out)]
		for i := range full {
			full[i] ^= 0xff
		}
		enc1, err1 := p.MarshalBinary()
		if now := deep(p); now != text || (err0 == nil) != (err1 == nil) || !bytes.Equal(enc0, enc1) {
			h.s.Fail(cases.GoFail{Key: fmt.Sprintf("part-output-aliases:%s:%s:%x", pt.name, stage, wire),
				What:   fmt.Sprintf("overwriting the output of %s of a frame (%s) changed the frame: it re-encodes as %x, before %x", pt.name, stage, enc1, enc0),
				Replay: map[string]interface{}{"api": "decode the frame (" + stage + "); out := " + pt.name + "(); overwrite out; inspect / re-encode the frame", "frame": hexs(wire), "before": clip(text), "after": clip(now)}})
			return
		}
	}
}

// elemMarshal: a leaf encoder on a guarded window, against the heap model.
func (h *H) elemMarshal(which int, content []byte, spare int) {
	a := h.arena()
	in, off, capa := a.window(content, spare)
	bk := cq.Bytes(a.bufs[0])
	name := []string{"DataPayload.MarshalBinary", "ProprietaryMACCommandPayload.MarshalBinary"}[which]
	dp := &lorawan.DataPayload{Bytes: in}
	pp := &lorawan.ProprietaryMACCommandPayload{Bytes: in}
	var out []byte
	curWhat, curReplay = fmt.Sprintf("%s(%x)", name, content), map[string]interface{}{"api": name, "bytes": hexs(content)}
	st := guard(func() (err error) {
		if which == 0 {
			out, err = dp.MarshalBinary()
		} else {
			out, err = pp.MarshalBinary()
		}
		return
	})
	o := st
	if st == "ok" {
		o = cq.Ok(cq.Bytes(out))
	}
	bk1 := cq.Bytes(a.bufs[0])
	scr := h.r.Byte()
	if st == "ok" {
		full := out[:cap(out)]
		for i := range full {
			full[i] = scr
		}
	}
	h.s.Add(cases.Case{
		Term: fmt.Sprintf("CElemMarshal %s %d %d %d %d %d %s %s %s", bk, off, len(content), capa, which, scr, o, bk1, cq.Bytes(in)),
		Key:  fmt.Sprintf("element-marshal:%s:%x:spare=%d", name, content, capa-len(content)), Kind: "element-marshal", Nontrivial: st == "ok",
		Replay: map[string]interface{}{"api": "v := " + name[:len(name)-14] + "{Bytes: buf[off:off+len:off+cap]}; out := v.MarshalBinary(); overwrite out incl. capacity; inspect v.Bytes", "bytes": hexs(content), "scribble": scr},
	})
}

// identOverlap: receiver and input inside one backing array.
func (h *H) identOverlap(kind, roff, doff int) {
	n := []int{16, 8, 4, 3}[kind]
	name := []string{"AES128Key", "EUI64", "DevAddr", "NetID"}[kind]
	arr := make([]byte, 3*n+2)
	pattern(arr, kind+roff+3*doff)
	bk := cq.Bytes(arr)
	data := arr[doff : doff+n : doff+n]
	ptr := unsafe.Pointer(&arr[roff])
	curWhat, curReplay = fmt.Sprintf("%s.UnmarshalBinary with the input at offset %d of the receiver", name, doff-roff), map[string]interface{}{"type": name, "receiver_offset": roff, "input_offset": doff, "array": hexs(arr)}
	st := guard(func() error {
		switch kind {
		case 0:
			return (*lorawan.AES128Key)(ptr).UnmarshalBinary(data)
		case 1:
			return (*lorawan.EUI64)(ptr).UnmarshalBinary(data)
		case 2:
			return (*lorawan.DevAddr)(ptr).UnmarshalBinary(data)
		default:
			return (*lorawan.NetID)(ptr).UnmarshalBinary(data)
		}
	})
	if st == cq.Panic {
		h.s.Fail(cases.GoFail{Key: "ident-overlap-panic:" + name, What: name + ".UnmarshalBinary panicked", Replay: curReplay})
		return
	}
	h.s.Add(cases.Case{
		Term: fmt.Sprintf("CIdentOverlap %s %d %d %d %s %s", bk, roff, doff, n, cq.Bool(st == "ok"), cq.Bytes(arr)),
		Key:  fmt.Sprintf("ident-overlap:%s:input-at-receiver%+d", name, doff-roff), Kind: "ident-overlap", Nontrivial: true,
		Replay: map[string]interface{}{"api": "k := (*" + name + ")(arr[r:r+n]); k.UnmarshalBinary(arr[d:d+n])", "array": bk, "receiver_offset": roff, "input_offset": doff},
	})
}

func (h *H) elements(mult int) {
	r := h.r
	// ---- corpus: the audit's witnesses ----
	h.forceSpare = 0
	h.elemMarshal(0, []byte{0xaa, 0xbb, 0xcc}, 0)
	h.elemMarshal(1, []byte{0xaa, 0xbb, 0xcc}, 5)
	h.forceSpare = -1
	for kind := 0; kind < 4; kind++ {
		n := []int{16, 8, 4, 3}[kind]
		h.identOverlap(kind, n, n) // the receiver itself: k.UnmarshalBinary(k[:])
	}
	decode := func(wire []byte) *lorawan.PHYPayload {
		p := &lorawan.PHYPayload{}
		if guardErr(func() error { return p.UnmarshalBinary(append([]byte{}, wire...)) }) != nil {
			return nil
		}
		return p
	}
	unhex := func(s string) []byte { var b []byte; fmt.Sscanf(s, "%x", &b); return b }
	for _, w := range []string{"20aabbccddeeff00112233445566778899aabbccddeeff001122334455667788", "e00102030405060708090a", "4001020304020500aabb07ccdd09090909"} {
		if p := decode(unhex(w)); p != nil {
			h.partOutputs("decoded", unhex(w), p)
		}
	}
	// library-only consequence: decode an uplink with a valid MIC, decrypt FRMPayload[0].MarshalBinary() in place
	{
		var k lorawan.AES128Key
		copy(k[:], r.Bytes(16))
		f := newDataFrame(r, true, nil, 10, []lorawan.Payload{&lorawan.DataPayload{Bytes: []byte("hello")}})
		m := f.MACPayload.(*lorawan.MACPayload)
		m.FHDR.FCnt &= 0xffff
		if f.EncryptFRMPayload(k) == nil && f.SetUplinkDataMIC(lorawan.LoRaWAN1_0, 0, 0, 0, k, k) == nil {
			if wire, err := f.MarshalBinary(); err == nil {
				if q := decode(wire); q != nil {
					ok0, _ := q.ValidateUplinkDataMIC(lorawan.LoRaWAN1_0, 0, 0, 0, k, k)
					qm := q.MACPayload.(*lorawan.MACPayload)
					enc, _ := qm.FRMPayload[0].MarshalBinary()
					_, _ = lorawan.EncryptFRMPayload(k, true, qm.FHDR.DevAddr, qm.FHDR.FCnt, enc)
					ok1, _ := q.ValidateUplinkDataMIC(lorawan.LoRaWAN1_0, 0, 0, 0, k, k)
					wire2, _ := q.MarshalBinary()
					if ok0 != ok1 || !bytes.Equal(wire, wire2) {
						h.s.Fail(cases.GoFail{Key: fmt.Sprintf("part-output-aliases:decrypting FRMPayload[0].MarshalBinary() in place:%x", wire),
							What:   fmt.Sprintf("a decoded uplink (MIC valid: %v) changed when the output of FRMPayload[0].MarshalBinary() was decrypted in place with the exported EncryptFRMPayload: MIC valid now %v, frame re-encodes as %x instead of %x", ok0, ok1, wire2, wire),
							Replay: map[string]interface{}{"frame": hexs(wire), "key": hexs(k[:])}})
					}
				}
			}
		}
	}
	// ---- generated ----
	for i := 0; i < 30*mult; i++ {
		h.elemMarshal(i%2, r.Bytes(r.Intn(20)), h.arena().spare())
	}
	for kind := 0; kind < 4; kind++ {
		n := []int{16, 8, 4, 3}[kind]
		for d := -n; d <= n; d++ { // every relative placement, from disjoint-before over identical to disjoint-after
			h.identOverlap(kind, n+1, n+1+d)
		}
	}
	for i := 0; i < 25*mult; i++ {
		up := i%2 == 0
		var k lorawan.AES128Key
		copy(k[:], r.Bytes(16))
		switch i % 5 {
		case 0, 1: // data frame, decoded; then FOpts decoded into commands (incl. proprietary)
			var fo []lorawan.Payload
			if i%2 == 0 {
				fo, _ = propCmds(r, up, 1+r.Intn(3), false)
			} else {
				fo = framefmt.ValidCmds(r, up, 1+r.Intn(14))
			}
			f := newDataFrame(r, up, fo, 1+r.Intn(200), []lorawan.Payload{&lorawan.DataPayload{Bytes: r.Bytes(1 + r.Intn(30))}})
			wire, err := f.MarshalBinary()
			if err != nil {
				continue
			}
			if p := decode(wire); p != nil {
				h.partOutputs("decoded", wire, p)
				if guardErr(p.DecodeFOptsToMACCommands) == nil {
					h.partOutputs("decoded + DecodeFOptsToMACCommands", wire, p)
				}
			}
		case 2: // port 0: commands in the FRMPayload, decrypted
			frm, _ := propCmds(r, up, 1+r.Intn(3), false)
			frm = append(frm, framefmt.ValidCmds(r, up, r.Intn(10))...)
			f := newDataFrame(r, up, nil, 0, frm)
			if f.EncryptFRMPayload(k) != nil {
				continue
			}
			wire, err := f.MarshalBinary()
			if err != nil {
				continue
			}
			if p := decode(wire); p != nil {
				h.partOutputs("decoded", wire, p)
				if guardErr(func() error { return p.DecryptFRMPayload(k) }) == nil {
					h.partOutputs("decoded + DecryptFRMPayload", wire, p)
				}
			}
		case 3: // join-accept: encrypted (raw DataPayload), then decrypted (CFList, join payload parts)
			f := framefmt.JoinFrame(r, 1)
			if f.SetDownlinkJoinMIC(lorawan.JoinRequestType, lorawan.EUI64{1}, 2, k) != nil || f.EncryptJoinAcceptPayload(k) != nil {
				continue
			}
			wire, err := f.MarshalBinary()
			if err != nil {
				continue
			}
			if p := decode(wire); p != nil {
				h.partOutputs("decoded", wire, p)
				if guardErr(func() error { return p.DecryptJoinAcceptPayload(k) }) == nil {
					h.partOutputs("decoded + DecryptJoinAcceptPayload", wire, p)
				}
			}
		default: // join-request, rejoin requests, proprietary
			var f lorawan.PHYPayload
			if r.Bool() {
				f = framefmt.JoinFrame(r, []int{0, 2, 3, 4}[r.Intn(4)])
			} else {
				f = lorawan.PHYPayload{MHDR: lorawan.MHDR{MType: lorawan.Proprietary}, MACPayload: &lorawan.DataPayload{Bytes: r.Bytes(1 + r.Intn(30))}}
			}
			wire, err := f.MarshalBinary()
			if err != nil {
				continue
			}
			if p := decode(wire); p != nil {
				h.partOutputs("decoded", wire, p)
			}
		}
	}
	h.s.Extra["part_outputs_overwritten"] = h.nparts
}

func guardErr(f func() error) (err error) {
	cases.Begin(curWhat, curReplay)
	defer cases.End()
	defer func() {
		if r := recover(); r != nil {
			err = fmt.Errorf("panic: %v", r)
		}
	}()
	return f()
}
