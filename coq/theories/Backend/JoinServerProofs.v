(* Proofs for C16 (statements: coq/props/C16.v).  Model: Backend/JoinServer.v; oracle: Backend/Device.v.
   No crypto term is ever computed symbolically: AES / CMAC / key wrap are opaque here and enter only
   through Crypto.AESInv (aes_encrypt_decrypt via Sec.JoinAcceptProofs.ecb_enc_dec),
   Crypto.KeyWrapProofs.unwrap_wrap and the length / byte-range lemmas. *)
From Coq Require Import List NArith ZArith Bool Lia Permutation.
From Coq Require Import ZifyN ZifyNat ZifyBool.
From LW Require Import Base.Outcome Base.Bytes Base.Hex Crypto.AES Crypto.CMAC Crypto.KeyWrap Crypto.AESInv Crypto.CMACProofs
  Crypto.KeyWrapProofs Mac.Commands Mac.Stream Frame.Model Sec.MIC Sec.JoinAccept Sec.JoinAcceptProofs
  Backend.KeyEnvelope Backend.JoinServer Backend.Device.
From LWGen Require Import KnownGen.
Import ListNotations.
Open Scope N_scope.
Ltac Zify.zify_post_hook ::= Z.div_mod_to_equations.
Local Opaque aes_encrypt aes_decrypt cmac expand_key aes_encrypt_rk aes_decrypt_rk wrap unwrap.

Definition bytes (l : list N) : Prop := Forall (fun b => b < 256) l.

(* DLSettings: all 256 values *)
Definition dls_facts (d : N) : bool :=
  let '(o, rx2, rx1) := dec_dlsettings d in
  outcome_eqb N.eqb (enc_dlsettings o rx2 rx1) (Ok d) && Bool.eqb o (negb (d / 128 =? 0)).

Lemma dls_sweep : forallb dls_facts (map N.of_nat (seq 0 256)) = true.
Proof. vm_compute. reflexivity. Qed.

Lemma dls_ok d : d < 256 ->
  let '(o, rx2, rx1) := dec_dlsettings d in
  enc_dlsettings o rx2 rx1 = Ok d /\ o = negb (d / 128 =? 0).
Proof.
  intros H. pose proof dls_sweep as S. rewrite forallb_forall in S.
  specialize (S d). unfold dls_facts in S.
  destruct (dec_dlsettings d) as [[o rx2] rx1].
  assert (I : In d (map N.of_nat (seq 0 256))).
  { apply in_map_iff. exists (N.to_nat d). split; [lia|]. apply in_seq. lia. }
  apply S in I. apply andb_true_iff in I. destruct I as [I1 I2].
  split.
  - destruct (enc_dlsettings o rx2 rx1); cbn in I1; try discriminate. apply N.eqb_eq in I1. now subst.
  - now apply eqb_prop in I2.
Qed.

(* one CFList channel: 3 bytes -> frequency -> 3 bytes *)
Lemma chan_rt a b c : a < 256 -> b < 256 -> c < 256 ->
  let f := le_val [a; b; c] * 100 in
  (f mod 100 =? 0) = true /\ (16777215 <? f / 100) = false /\ firstn 3 (le_bytes 4 (f / 100)) = [a; b; c].
Proof.
  intros Ha Hb Hc f. unfold f.
  rewrite N.mod_mul by lia. rewrite N.div_mul by lia.
  cbn [le_val le_bytes firstn]. split; [reflexivity|]. split; [lia|].
  repeat f_equal; lia.
Qed.

Definition chstep (acc : outcome (list N)) (f : N) : outcome (list N) :=
  do out <- acc;
  if negb (f mod 100 =? 0) then Err else
  if 16777215 <? f / 100 then Err else
  Ok (out ++ firstn 3 (le_bytes 4 (f / 100))).

Lemma chans_fold triples out :
  Forall (fun t => length t = 3%nat /\ bytes t) triples ->
  fold_left chstep (map (fun t => le_val t * 100) triples) (Ok out) = Ok (out ++ concat triples).
Proof.
  intros H. revert out. induction H as [|t ts [Hl Hb] _ IH]; intros out.
  - cbn. now rewrite app_nil_r.
  - destruct t as [|a [|b [|c [|]]]]; try discriminate Hl.
    inversion Hb as [|? ? Ha Hb']; subst. inversion Hb' as [|? ? Hb2 Hb'']; subst. inversion Hb'' as [|? ? Hc _]; subst.
    cbn [map fold_left concat].
    destruct (chan_rt a b c Ha Hb2 Hc) as (E1 & E2 & E3).
    unfold chstep at 2. cbn [bind]. rewrite E1, E2, E3. cbn [negb].
    rewrite IH. now rewrite <- app_assoc.
Qed.

Lemma bytes_inv a l : bytes (a :: l) -> a < 256 /\ bytes l.
Proof. intros H. inversion H; auto. Qed.

Lemma cflist_channels_rt c : length c = 16%nat -> bytes c -> nth 15 c 0 <> 1 ->
  exists l, cflist_unmarshal c = Ok l /\ cflist_marshal l = Ok c.
Proof.
  intros Hl Hb Hty.
  do 16 (destruct c as [|? c]; [discriminate Hl|]). destruct c; [|discriminate Hl].
  cbn [nth] in Hty.
  unfold cflist_unmarshal. cbn [length Nat.eqb negb nth].
  destruct (n14 =? 1) eqn:E; [lia|].
  eexists. split; [reflexivity|].
  unfold cflist_marshal. cbn [cf_payload cf_type cfpayload_marshal].
  change (fold_left _ ?l (Ok [])) with (fold_left chstep l (Ok [])).
  change (map _ [0%nat; 1%nat; 2%nat; 3%nat; 4%nat]) with
    (map (fun t => le_val t * 100) [[n; n0; n1]; [n2; n3; n4]; [n5; n6; n7]; [n8; n9; n10]; [n11; n12; n13]]).
  rewrite chans_fold.
  - cbn [concat app bind firstn]. repeat f_equal.
    do 15 (apply bytes_inv in Hb; destruct Hb as [_ Hb]). apply bytes_inv in Hb. lia.
  - repeat (apply bytes_inv in Hb; let H := fresh in destruct Hb as [H Hb]).
    repeat constructor; assumption.
Qed.

Definition ja_body (jn : N) (netid devaddr : list N) (dls rxd : N) (cf : list N) : list N :=
  firstn 3 (le_bytes 4 jn) ++ rev netid ++ rev devaddr ++ [dls; rxd] ++ cf.

(* the CFList bytes of the request survive decode + encode *)
Definition cf_canonical (cf : list N) : Prop :=
  cf = [] \/ (length cf = 16%nat /\ exists l, cflist_unmarshal cf = Ok l /\ cflist_marshal l = Ok cf).

Lemma ja_body_length jn netid devaddr dls rxd cf :
  length netid = 3%nat -> length devaddr = 4%nat ->
  length (ja_body jn netid devaddr dls rxd cf) = (12 + length cf)%nat.
Proof. intros H1 H2. unfold ja_body. rewrite !app_length, !rev_length, H1, H2. cbn. lia. Qed.

Definition ja_prefix (optneg : bool) (ty : N) (je : list N) (dn : N) : list N :=
  if optneg then [ty] ++ rev je ++ le_bytes 2 dn else [].

Lemma aes_dec_len key b : length (aes_decrypt_rk (expand_key key) b) = 16%nat.
Proof. rewrite aes_dec_rk_eq. apply aes_decrypt_length. Qed.

Lemma mhdr_ja : mhdr_marshal JoinAccept 0 = 32.
Proof. reflexivity. Qed.

Lemma build_ok jn netid phy deveui devaddr dls dl rxd cf ty je dn mickey enckey :
  dec_dlsettings dls = dl ->
  jn < 16777216 -> rxd < 16 -> dls < 256 -> length netid = 3%nat -> length devaddr = 4%nat -> cf_canonical cf ->
  let body := ja_body jn netid devaddr dls rxd cf in
  let mic := firstn 4 (cmac mickey (ja_prefix (negb (dls / 128 =? 0)) ty je dn ++ [32] ++ body)) in
  build_join_accept jn netid (mkTReq phy deveui devaddr dl (Z.of_N rxd) cf) ty je dn mickey enckey
  = Ok (32 :: ecb (aes_decrypt enckey) (length (body ++ mic) / 16) (body ++ mic)).
Proof.
  intros <- Hjn Hrxd Hdls Hn Hd Hcf body mic.
  unfold build_join_accept. cbn [t_cflist t_dl t_devaddr t_rxdelay].
  pose proof (dls_ok dls Hdls) as D. destruct (dec_dlsettings dls) as [[o rx2] rx1]. destruct D as [D1 D2].
  replace ((Z.of_N rxd <? 0)%Z || (15 <? Z.of_N rxd)%Z) with false by lia.
  replace (Z.to_N (Z.of_N rxd)) with rxd by lia.
  assert (PM : forall cfl, (match cfl with None => Ok [] | Some l => cflist_marshal l end) = Ok cf ->
     payload_marshal (PLJoinAccept jn netid devaddr o rx2 rx1 rxd cfl) = Ok body).
  { intros cfl Hc. cbn [payload_marshal].
    replace (15 <? rxd) with false by lia. replace (16777216 <=? jn) with false by lia.
    rewrite D1. cbn [bind]. rewrite Hc. cbn [bind]. reflexivity. }
  assert (exists cfl, opt_cflist cf = Ok cfl /\ (match cfl with None => Ok [] | Some l => cflist_marshal l end) = Ok cf) as (cfl & Hc1 & Hc2).
  { destruct Hcf as [->|[Hl (l & U & M)]].
    - exists None. split; reflexivity.
    - exists (Some l). unfold opt_cflist. destruct cf; [discriminate Hl|]. rewrite U. split; [reflexivity|exact M]. }
  rewrite Hc1. cbn [bind].
  specialize (PM cfl Hc2).
  unfold set_down_join_mic, calc_down_join_mic. cbn [pl mtype major].
  rewrite PM. cbn [bind].
  unfold encrypt_join_accept, set_mic. cbn [pl mtype major Frame.Model.mic].
  rewrite PM. cbn [bind].
  replace ((if o then optneg_prefix ty je dn else []) ++ [mhdr_marshal JoinAccept 0] ++ body)
    with (ja_prefix (negb (dls / 128 =? 0)) ty je dn ++ [32] ++ body) by (subst o; destruct (negb (dls / 128 =? 0)); reflexivity).
  fold mic.
  assert (Lm : length mic = 4%nat).
  { unfold mic. rewrite firstn_length, cmac_length. reflexivity. }
  assert (Lb : length (body ++ mic) = 16%nat \/ length (body ++ mic) = 32%nat).
  { rewrite app_length, Lm. unfold body. rewrite ja_body_length by assumption.
    destruct Hcf as [->|[Hl _]]; [left; reflexivity|right; rewrite Hl; reflexivity]. }
  set (pt := body ++ mic) in *. clearbody pt. clear Lm. clearbody mic. clearbody body.
  assert (Lc : length (ecb (aes_decrypt_rk (expand_key enckey)) (length pt / 16) pt) = length pt).
  { rewrite ecb_length by (intros; apply aes_dec_len).
    destruct Lb as [-> | ->]; reflexivity. }
  replace (negb (length pt mod 16 =? 0)%nat) with false by (destruct Lb as [-> | ->]; reflexivity).
  replace (length pt <? 4)%nat with false by (destruct Lb as [-> | ->]; reflexivity).
  cbn [bind]. unfold phy_marshal. cbn [pl payload_marshal bind mtype major Frame.Model.mic].
  rewrite firstn_skipn. rewrite mhdr_ja. cbn [app].
  rewrite (ecb_ext _ _ _ _ (aes_dec_rk_eq enckey)). reflexivity.
Qed.

Lemma ja_fields jn netid devaddr dls rxd cf :
  length netid = 3%nat -> length devaddr = 4%nat ->
  let body := ja_body jn netid devaddr dls rxd cf in
  firstn 3 body = firstn 3 (le_bytes 4 jn) /\ firstn 3 (skipn 3 body) = rev netid /\
  firstn 4 (skipn 6 body) = rev devaddr /\ nth 10 body 0 = dls /\ nth 11 body 0 = rxd /\ skipn 12 body = cf.
Proof.
  intros Hn Hd.
  destruct netid as [|n0 [|n1 [|n2 [|]]]]; try discriminate Hn.
  destruct devaddr as [|a0 [|a1 [|a2 [|a3 [|]]]]]; try discriminate Hd.
  cbn -[N.modulo N.div]. repeat split; reflexivity.
Qed.

Lemma le_val3 jn : jn < 16777216 -> le_val (firstn 3 (le_bytes 4 jn)) = jn.
Proof. intros H. cbn [le_bytes firstn le_val]. lia. Qed.

Lemma blocks_ecb f n m : concat (map f (blocks n m)) = ecb f n m.
Proof. revert m. induction n as [|n IH]; intros m; [reflexivity|]. cbn [blocks map concat ecb]. now rewrite IH. Qed.

Lemma split_tail (b m : list N) : length m = 4%nat ->
  firstn (length (b ++ m) - 4) (b ++ m) = b /\ skipn (length (b ++ m) - 4) (b ++ m) = m.
Proof.
  intros H. rewrite app_length, H. replace (length b + 4 - 4)%nat with (length b + 0)%nat by lia.
  rewrite firstn_app_2, skipn_app. cbn [firstn]. rewrite app_nil_r.
  rewrite skipn_all2 by lia. replace (length b + 0 - length b)%nat with 0%nat by lia. split; reflexivity.
Qed.

Lemma list_eqb_refl l : list_eqb N.eqb l l = true.
Proof. induction l as [|a l IH]; [reflexivity|]. cbn [list_eqb]. rewrite N.eqb_refl. exact IH. Qed.

(* what the device expects as MIC of a decrypted body *)
Definition expected_mic (d : device) (reqtype dn dls : N) (body : list N) : list N :=
  if negb (dls / 128 =? 0)
  then mic4 (d_jsintkey d) ([reqtype] ++ lsb_first (d_joineui d) ++ le 2 dn ++ [32] ++ body)
  else mic4 (d_nwkkey d) ([32] ++ body).

Definition session_of (d : device) (dn jn : N) (netid devaddr : list N) (dls rxd : N) (cf : list N) : session :=
  let j3 := firstn 3 (le_bytes 4 jn) in
  let f11 := j3 ++ lsb_first (d_joineui d) ++ le 2 dn in
  let f10 := j3 ++ rev netid ++ le 2 dn in
  let cfl := match cf with [] => None | _ => Some cf end in
  if negb (dls / 128 =? 0)
  then mkSession jn netid devaddr dls rxd cfl true
         (derive (d_nwkkey d) 1 f11) (derive (d_nwkkey d) 3 f11) (derive (d_nwkkey d) 4 f11) (derive (d_appkey d) 2 f11)
  else mkSession jn netid devaddr dls rxd cfl false
         (derive (d_nwkkey d) 1 f10) (derive (d_nwkkey d) 1 f10) (derive (d_nwkkey d) 1 f10) (derive (d_nwkkey d) 2 f10).

Definition wf_device (d : device) : Prop :=
  length (d_deveui d) = 8%nat /\ bytes (d_deveui d) /\ length (d_joineui d) = 8%nat /\ bytes (d_joineui d) /\
  length (d_nwkkey d) = 16%nat /\ bytes (d_nwkkey d) /\ length (d_appkey d) = 16%nat /\ bytes (d_appkey d).

Lemma bytes_app a b : bytes a -> bytes b -> bytes (a ++ b).
Proof. intros; apply Forall_app; auto. Qed.
Lemma bytes_rev a : bytes a -> bytes (rev a).
Proof. intros; apply Forall_rev; auto. Qed.
Lemma bytes_le k x : bytes (le_bytes k x).
Proof. apply le_bytes_ok. Qed.
Lemma bytes_repeat0 n : bytes (repeat 0 n).
Proof. induction n; constructor; [lia|assumption]. Qed.
Lemma bytes_firstn n l : bytes l -> bytes (firstn n l).
Proof. apply Forall_firstn. Qed.
Lemma bytes_cons a l : a < 256 -> bytes l -> bytes (a :: l).
Proof. intros; constructor; auto. Qed.

Lemma derive_bytes key typ fields : bytes key -> typ < 256 -> bytes fields -> bytes (derive key typ fields).
Proof.
  intros Hk Ht Hf. unfold derive. apply aes_encrypt_bytes; [exact Hk|].
  unfold pad16. apply bytes_firstn, bytes_app; [apply bytes_cons; assumption|apply bytes_repeat0].
Qed.
Lemma derive_length key typ fields : length (derive key typ fields) = 16%nat.
Proof. apply aes_encrypt_length. Qed.

Lemma ja_body_bytes jn netid devaddr dls rxd cf :
  bytes netid -> bytes devaddr -> bytes cf -> dls < 256 -> rxd < 256 -> bytes (ja_body jn netid devaddr dls rxd cf).
Proof.
  intros. unfold ja_body. repeat apply bytes_app; auto using bytes_firstn, bytes_le, bytes_rev.
  repeat apply bytes_cons; auto. constructor.
Qed.

Lemma expected_mic_bytes d reqtype dn dls body :
  wf_device d -> reqtype < 256 -> bytes body -> bytes (expected_mic d reqtype dn dls body).
Proof.
  intros (_ & Bde & _ & Bje & _ & Bnk & _ & _) Ht Hb. unfold expected_mic, mic4.
  destruct (negb _); apply bytes_firstn, cmac_bytes.
  - apply derive_bytes; [exact Bnk|lia|apply bytes_rev; exact Bde].
  - apply bytes_cons; [exact Ht|]. cbn [app]. apply bytes_app; [apply bytes_rev; exact Bje|].
    apply bytes_app; [apply bytes_le|]. apply bytes_cons; [lia|exact Hb].
  - exact Bnk.
  - apply bytes_cons; [lia|exact Hb].
Qed.

Lemma device_accept_ok d reqtype dn jn netid devaddr dls rxd cf key :
  wf_device d -> reqtype < 256 ->
  jn < 16777216 -> length netid = 3%nat -> length devaddr = 4%nat -> (cf = [] \/ length cf = 16%nat) ->
  bytes netid -> bytes devaddr -> bytes cf -> dls < 256 -> rxd < 16 ->
  key = (if reqtype =? JoinReqType_join then d_nwkkey d else d_jsenckey d) ->
  let body := ja_body jn netid devaddr dls rxd cf in
  let mic := expected_mic d reqtype dn dls body in
  device_accept d reqtype dn (32 :: ecb (aes_decrypt key) (length (body ++ mic) / 16) (body ++ mic))
  = Some (session_of d dn jn netid devaddr dls rxd cf).
Proof.
  intros Wd Ht Hjn Hn Hd Hcf Bn Bd Bc Hdls Hrxd Hkey body mic.
  assert (Lm : length mic = 4%nat).
  { unfold mic, expected_mic, mic4. destruct (negb _); rewrite firstn_length, cmac_length; reflexivity. }
  assert (Lb : length body = (12 + length cf)%nat) by (apply ja_body_length; assumption).
  assert (Bb : bytes body) by (apply ja_body_bytes; try assumption; lia).
  assert (Bm : bytes mic) by (apply expected_mic_bytes; assumption).
  assert (Bk : bytes key).
  { destruct Wd as (_ & Bde & _ & _ & _ & Bnk & _ & _). subst key. destruct (reqtype =? JoinReqType_join); [exact Bnk|].
    apply derive_bytes; [exact Bnk|lia|apply bytes_rev; exact Bde]. }
  pose proof (ja_fields jn netid devaddr dls rxd cf Hn Hd) as F. fold body in F.
  destruct F as (F1 & F2 & F3 & F4 & F5 & F6).
  pose proof (split_tail body mic Lm) as [S1 S2].
  set (pt := body ++ mic) in *.
  assert (Lp : (length pt = 16 * (length pt / 16))%nat /\ (length pt = 16%nat \/ length pt = 32%nat)).
  { unfold pt. rewrite app_length, Lm, Lb. destruct Hcf as [-> | ->]; cbn; lia. }
  destruct Lp as [Lp1 Lp2].
  assert (Bp : bytes pt) by (apply bytes_app; assumption).
  unfold device_accept.
  replace (negb (32 / 32 =? 1)) with false by reflexivity.
  replace (negb (32 mod 4 =? 0)) with false by reflexivity.
  assert (Lc : length (ecb (aes_decrypt key) (length pt / 16) pt) = length pt).
  { rewrite ecb_length by (intros; apply aes_decrypt_length). lia. }
  rewrite Lc.
  replace (negb (Nat.eqb (length pt) 16) && negb (Nat.eqb (length pt) 32)) with false
    by (destruct Lp2 as [-> | ->]; reflexivity).
  rewrite <- Hkey. unfold ecb_encrypt. rewrite blocks_ecb, Lc.
  rewrite (ecb_enc_dec key (length pt / 16) pt Bk Bp Lp1).
  unfold device_check. rewrite S1, S2, F1, F2, F3, F4, F5, F6, Lb.
  replace (rxd mod 16) with rxd by lia.
  fold (expected_mic d reqtype dn dls body). fold mic.
  rewrite list_eqb_refl. cbn [negb]. rewrite (le_val3 jn Hjn), !rev_involutive.
  replace (if (12 + length cf =? 28)%nat then Some cf else None) with (match cf with [] => None | _ => Some cf end).
  2:{ destruct Hcf as [-> | Hl]; [reflexivity|]. rewrite Hl. destruct cf; [discriminate Hl|reflexivity]. }
  unfold session_of. destruct (negb (dls / 128 =? 0)); reflexivity.
Qed.

Lemma le_val2 dn : dn < 65536 -> le_val (le_bytes 2 dn) = dn.
Proof. intros H. cbn [le_bytes le_val]. lia. Qed.

Lemma phy_unmarshal_join_request je de dn m :
  length je = 8%nat -> length de = 8%nat -> length m = 4%nat -> dn < 65536 ->
  phy_unmarshal ([0] ++ rev je ++ rev de ++ le_bytes 2 dn ++ m) = Ok (mkPHY 0 0 (PLJoinRequest je de dn) m).
Proof.
  intros Hje Hde Hm Hdn.
  destruct je as [|j0 [|j1 [|j2 [|j3 [|j4 [|j5 [|j6 [|j7 [|]]]]]]]]]; try discriminate Hje.
  destruct de as [|d0 [|d1 [|d2 [|d3 [|d4 [|d5 [|d6 [|d7 [|]]]]]]]]]; try discriminate Hde.
  destruct m as [|m0 [|m1 [|m2 [|m3 [|]]]]]; try discriminate Hm.
  unfold phy_unmarshal.
  cbn -[N.modulo N.div N.mul N.add].
  repeat f_equal. lia.
Qed.

Lemma phy_unmarshal_rejoin02 ty nid de rc m :
  ty = 0 \/ ty = 2 -> length nid = 3%nat -> length de = 8%nat -> length m = 4%nat -> rc < 65536 ->
  phy_unmarshal ([192; ty] ++ rev nid ++ rev de ++ le_bytes 2 rc ++ m) = Ok (mkPHY 6 0 (PLRejoin02 ty nid de rc) m).
Proof.
  intros Hty Hn Hde Hm Hrc.
  destruct nid as [|n0 [|n1 [|n2 [|]]]]; try discriminate Hn.
  destruct de as [|d0 [|d1 [|d2 [|d3 [|d4 [|d5 [|d6 [|d7 [|]]]]]]]]]; try discriminate Hde.
  destruct m as [|m0 [|m1 [|m2 [|m3 [|]]]]]; try discriminate Hm.
  unfold phy_unmarshal.
  destruct Hty as [-> | ->]; cbn -[N.modulo N.div N.mul N.add]; repeat f_equal; lia.
Qed.

Lemma phy_unmarshal_rejoin1 je de rc m :
  length je = 8%nat -> length de = 8%nat -> length m = 4%nat -> rc < 65536 ->
  phy_unmarshal ([192; 1] ++ rev je ++ rev de ++ le_bytes 2 rc ++ m) = Ok (mkPHY 6 0 (PLRejoin1 1 je de rc) m).
Proof.
  intros Hje Hde Hm Hrc.
  destruct je as [|j0 [|j1 [|j2 [|j3 [|j4 [|j5 [|j6 [|j7 [|]]]]]]]]]; try discriminate Hje.
  destruct de as [|d0 [|d1 [|d2 [|d3 [|d4 [|d5 [|d6 [|d7 [|]]]]]]]]]; try discriminate Hde.
  destruct m as [|m0 [|m1 [|m2 [|m3 [|]]]]]; try discriminate Hm.
  unfold phy_unmarshal.
  cbn -[N.modulo N.div N.mul N.add]. repeat f_equal. lia.
Qed.

Lemma mic4_length k m : length (mic4 k m) = 4%nat.
Proof. unfold mic4. rewrite firstn_length, cmac_length. reflexivity. Qed.

Lemma join_frame_decodes d dn : wf_device d -> dn < 65536 ->
  exists p, phy_unmarshal (join_request_frame d dn) = Ok p /\ pl p = PLJoinRequest (d_joineui d) (d_deveui d) dn /\
            validate_up_join_mic (d_nwkkey d) p = Ok true.
Proof.
  intros (Lde & _ & Lje & _) Hdn. unfold join_request_frame, lsb_first, le.
  rewrite <- !app_assoc.
  rewrite phy_unmarshal_join_request by (auto using mic4_length).
  eexists. split; [reflexivity|]. split; [reflexivity|].
  unfold validate_up_join_mic, calc_up_join_mic. cbn [pl payload_marshal bind mtype major Frame.Model.mic].
  unfold mic4. cbn [app].
  replace (mhdr_marshal 0 0) with 0 by reflexivity.
  unfold bytes_eqb. rewrite list_eqb_refl. reflexivity.
Qed.

(* ---------- key derivations: the model's blocks are the specification's ---------- *)
Lemma skey_block_eq o typ netid je jn dn :
  skey_block o typ netid je jn dn =
  pad16 (typ :: firstn 3 (le_bytes 4 jn) ++ (if o then rev je else rev netid) ++ le_bytes 2 dn).
Proof. unfold skey_block, pad16. cbn [app]. rewrite <- !app_assoc. reflexivity. Qed.

Lemma jsint_eq d : get_jsintkey (d_nwkkey d) (d_deveui d) = d_jsintkey d.
Proof. reflexivity. Qed.
Lemma jsenc_eq d : get_jsenckey (d_nwkkey d) (d_deveui d) = d_jsenckey d.
Proof. reflexivity. Qed.

(* ---------- key envelopes ---------- *)
Definition kek_supported (k : list N) : Prop := k = [] \/ (length k = 16%nat /\ bytes k).

Definition keks_of (cfg : config) (label : list N) : list N :=
  match get_kek cfg label with Ok k => k | _ => [] end.

Lemma envelope_opens keks label kek key :
  kek_supported kek -> keks label = kek -> length key = 16%nat -> bytes key ->
  exists e, envelope_of label kek key = Ok (Some e) /\ opens_to keks label (Some e) key = true.
Proof.
  intros Hk Hl Lk Bk. unfold envelope_of, new_key_envelope, new_key_envelope_with.
  unfold opens_to. rewrite Hl.
  destruct label as [|c label].
  { cbn [is_nil is_empty orb bind negb andb]. eexists. split; [reflexivity|]. cbn [is_empty andb]. apply list_eqb_refl. }
  destruct Hk as [-> | [L16 Bkek]].
  { cbn [is_nil is_empty orb bind negb andb]. eexists. split; [reflexivity|]. cbn [is_empty andb]. apply list_eqb_refl. }
  destruct kek as [|k0 kek]; [discriminate L16|].
  cbn [is_nil is_empty orb negb andb]. unfold kek_len_ok. rewrite L16. cbn [Nat.eqb orb bind].
  eexists. split; [reflexivity|]. cbn iota beta.
  rewrite (unwrap_wrap (k0 :: kek) key L16 Bkek Bk Lk), !list_eqb_refl. reflexivity.
Qed.

(* ---------- the pure handler ---------- *)
Definition mirrors (r : request) (a : answer) : Prop :=
  match a with
  | AMsg _ _ sd rv tx _ _ _ _ _ => sd = r_receiver r /\ rv = r_sender r /\ tx = r_txid r
  | _ => False
  end.

Lemma activation_answer mt pipe cfg r :
  let a := handle_activation mt pipe cfg r in mirrors r a \/ a = APanic.
Proof.
  unfold handle_activation.
  destruct (typed_decode r) as [t| | |]; cbn; auto.
  destruct (get_keys cfg (t_deveui t)); cbn; auto.
  destruct (get_kek cfg (r_sender r)); cbn; auto.
  destruct (get_aslabel cfg (t_deveui t)) as [l| | |]; cbn; auto.
  destruct (get_kek cfg l); cbn; auto.
  destruct (pipe _ _ _ _ _ _ _ _) as [[phy keys]| | |]; cbn; auto.
Qed.

(* the request of a body whose base payload encoding/json accepts *)
Definition request_of (b : body) : option request :=
  match b with BadJSON => None | BadMember r => Some r | Body r => Some r end.

Lemma bytes_eqb_refl l : bytes_eqb l l = true.
Proof. unfold bytes_eqb. apply list_eqb_refl. Qed.

(* no answer type: the message type is not one the join-server serves *)
Definition unanswerable (r : request) : Prop :=
  r_mtype r <> s_JoinReq /\ r_mtype r <> s_RejoinReq /\ r_mtype r <> s_HomeNSReq.

Lemma bytes_eqb_true a b : bytes_eqb a b = true -> a = b.
Proof. apply bytes_eqb_eq. Qed.
Lemma bytes_eqb_false a b : bytes_eqb a b = false -> a <> b.
Proof. intros H ->. unfold bytes_eqb in H. rewrite list_eqb_refl in H. discriminate. Qed.

Lemma error_answer_shape r :
  match error_answer r with
  | AMsg _ _ sd rv tx _ _ _ _ _ => sd = r_receiver r /\ rv = r_sender r /\ tx = r_txid r
  | ABare st rc => st = 400 /\ rc = ROther /\ unanswerable r
  | APanic => False
  end.
Proof.
  unfold error_answer, unanswerable.
  destruct (bytes_eqb (r_mtype r) s_JoinReq) eqn:E1; [auto|].
  destruct (bytes_eqb (r_mtype r) s_RejoinReq) eqn:E2; [auto|].
  destruct (bytes_eqb (r_mtype r) s_HomeNSReq) eqn:E3; [auto|].
  apply bytes_eqb_false in E1, E2, E3. auto.
Qed.

Theorem answer_shape cfg b :
  match handle cfg b with
  | AMsg _ _ sd rv tx _ _ _ _ _ =>
    exists r, request_of b = Some r /\ sd = r_receiver r /\ rv = r_sender r /\ tx = r_txid r
  | ABare st rc => st = 400 /\ rc = ROther /\ (b = BadJSON \/ exists r, request_of b = Some r /\ unanswerable r)
  | APanic => True
  end.
Proof.
  assert (EA : forall r b', request_of b' = Some r ->
     match error_answer r with
     | AMsg _ _ sd rv tx _ _ _ _ _ =>
       exists r0, request_of b' = Some r0 /\ sd = r_receiver r0 /\ rv = r_sender r0 /\ tx = r_txid r0
     | ABare st rc => st = 400 /\ rc = ROther /\ (b' = BadJSON \/ exists r0, request_of b' = Some r0 /\ unanswerable r0)
     | APanic => True
     end).
  { intros r b' Hb. pose proof (error_answer_shape r) as S. destruct (error_answer r); [|exists r; auto|exact I].
    destruct S as (-> & -> & U). split; [reflexivity|]. split; [reflexivity|]. right. exists r. auto. }
  destruct b as [|r|r]; cbn [handle]; [auto|apply EA; reflexivity|].
  destruct (base_decode r) eqn:Eb; try exact I; [|apply EA; reflexivity].
  cbn [request_of]. unfold unanswerable.
  destruct (bytes_eqb (r_mtype r) s_JoinReq) eqn:E1.
  { pose proof (activation_answer MJoinAns join_pipeline cfg r) as A. cbn zeta in A.
    destruct (handle_activation MJoinAns join_pipeline cfg r); cbn [mirrors] in A.
    - destruct A as [[]|A]; discriminate A.
    - destruct A as [(-> & -> & ->)|A]; [|discriminate A]. exists r. auto.
    - exact I. }
  destruct (bytes_eqb (r_mtype r) s_RejoinReq) eqn:E2.
  { pose proof (activation_answer MRejoinAns rejoin_pipeline cfg r) as A. cbn zeta in A.
    destruct (handle_activation MRejoinAns rejoin_pipeline cfg r); cbn [mirrors] in A.
    - destruct A as [[]|A]; discriminate A.
    - destruct A as [(-> & -> & ->)|A]; [|discriminate A]. exists r. auto.
    - exact I. }
  destruct (bytes_eqb (r_mtype r) s_HomeNSReq) eqn:E3.
  { unfold handle_homens.
    destruct (field (zero_bytes 8) (unmarshal_text 8) (r_deveui r)) as [de| | |] eqn:F; try exact I.
    - destruct (get_homenetid cfg de); exists r; auto.
    - exists r; auto. }
  apply bytes_eqb_false in E1, E2, E3.
  split; [reflexivity|]. split; [reflexivity|]. right. exists r. auto.
Qed.

(* every answer that is a JoinAns / RejoinAns / HomeNSAns message mirrors the request *)
Theorem mirror cfg b st mt sd rv tx rc phy lt keys hn :
  handle cfg b = AMsg st mt sd rv tx rc phy lt keys hn ->
  exists r, request_of b = Some r /\ sd = r_receiver r /\ rv = r_sender r /\ tx = r_txid r.
Proof. intros H. pose proof (answer_shape cfg b) as A. rewrite H in A. exact A. Qed.

(* a JSON object whose message type is served ALWAYS gets a mirrored answer message, whatever is wrong
   with any other member of the base or of the typed payload - unless a configuration callback panics *)
Theorem served_is_mirrored cfg b r :
  request_of b = Some r ->
  (r_mtype r = s_JoinReq \/ r_mtype r = s_RejoinReq \/ r_mtype r = s_HomeNSReq) ->
  mirrors r (handle cfg b) \/ handle cfg b = APanic.
Proof.
  intros Hb Hmt. pose proof (answer_shape cfg b) as A.
  destruct (handle cfg b) eqn:E; [| |auto].
  - exfalso. destruct A as (_ & _ & [->|(r' & Hr' & (U1 & U2 & U3))]); [discriminate Hb|].
    rewrite Hb in Hr'. injection Hr' as <-. destruct Hmt as [H|[H|H]]; contradiction.
  - left. destruct A as (r' & Hr' & A). rewrite Hb in Hr'. injection Hr' as <-. exact A.
Qed.

(* ---------- session keys ---------- *)
Lemma session_keys_ok o dk netid je jn dn : jn < 16777216 ->
  session_keys o dk netid je jn dn =
  Ok (mkSKeys (aes_encrypt (dk_nwkkey dk) (skey_block o 1 netid je jn dn))
              (aes_encrypt (if o then dk_appkey dk else dk_nwkkey dk) (skey_block o 2 netid je jn dn))
              (aes_encrypt (dk_nwkkey dk) (skey_block o 3 netid je jn dn))
              (aes_encrypt (dk_nwkkey dk) (skey_block o 4 netid je jn dn))).
Proof.
  intros H. unfold session_keys, get_skey. replace (16777216 <=? jn) with false by lia. reflexivity.
Qed.

Lemma set_join_nonce_ok nk ak jn : jn < 16777216 -> set_join_nonce (mkDevKeys nk ak (Z.of_N jn)) = Ok jn.
Proof.
  intros H. unfold set_join_nonce. cbn [dk_joinnonce].
  replace ((Z.of_N jn <? 0)%Z || (16777215 <? Z.of_N jn)%Z) with false by lia. f_equal. lia.
Qed.

Definition opt_cf (cf : list N) : option (list N) := match cf with [] => None | _ => Some cf end.

Lemma echoes_session d dn jn netid devaddr dls rxd cf :
  echoes (session_of d dn jn netid devaddr dls rxd cf) jn netid devaddr dls rxd (opt_cf cf) = true.
Proof.
  unfold echoes, session_of, opt_cf.
  destruct (negb (dls / 128 =? 0)); cbn [s_joinnonce s_netid s_devaddr s_dlsettings s_rxdelay s_cflist];
    rewrite !N.eqb_refl, !list_eqb_refl; destruct cf; cbn [andb]; auto using list_eqb_refl.
Qed.

Lemma server_mic_eq d ty dn dls body :
  firstn 4 (cmac (if negb (dls / 128 =? 0) then d_jsintkey d else d_nwkkey d)
                 (ja_prefix (negb (dls / 128 =? 0)) ty (d_joineui d) dn ++ [32] ++ body))
  = expected_mic d ty dn dls body.
Proof.
  unfold expected_mic, ja_prefix, mic4, lsb_first, le. destruct (negb (dls / 128 =? 0)); [|reflexivity].
  rewrite <- !app_assoc. reflexivity.
Qed.

(* ---------- join-request: usable answer ---------- *)
Lemma skey_derive (o : bool) key typ netid je jn dn :
  aes_encrypt key (skey_block o typ netid je jn dn)
  = derive key typ (firstn 3 (le_bytes 4 jn) ++ (if o then lsb_first je else rev netid) ++ le 2 dn).
Proof. unfold derive, lsb_first, le. rewrite skey_block_eq. reflexivity. Qed.

Lemma derive_wf key typ fields : bytes key -> typ < 256 -> bytes fields ->
  length (derive key typ fields) = 16%nat /\ bytes (derive key typ fields).
Proof. intros. split; [apply derive_length|apply derive_bytes; assumption]. Qed.

Lemma fields_bytes (o : bool) netid je jn dn : bytes netid -> bytes je ->
  bytes (firstn 3 (le_bytes 4 jn) ++ (if o then lsb_first je else rev netid) ++ le 2 dn).
Proof.
  intros. apply bytes_app; [apply bytes_firstn, bytes_le|]. apply bytes_app; [|apply bytes_le].
  destruct o; apply bytes_rev; assumption.
Qed.

Theorem join_usable cfg r d dn netid rid devaddr dls rxd cf jn nskek aslabel askek :
  wf_device d -> dn < 65536 -> jn < 16777216 ->
  length netid = 3%nat -> bytes netid -> length devaddr = 4%nat -> bytes devaddr ->
  dls < 256 -> rxd < 16 -> bytes cf -> cf_canonical cf ->
  r_mtype r = s_JoinReq -> base_decode r = Ok tt ->
  typed_decode r = Ok (mkTReq (join_request_frame d dn) (d_deveui d) devaddr (dec_dlsettings dls) (Z.of_N rxd) cf) ->
  unmarshal_text 3 (r_sender r) = Ok netid -> unmarshal_text 8 (r_receiver r) = Ok rid ->
  get_keys cfg (d_deveui d) = Found (mkDevKeys (d_nwkkey d) (d_appkey d) (Z.of_N jn)) ->
  get_kek cfg (r_sender r) = Ok nskek -> kek_supported nskek ->
  get_aslabel cfg (d_deveui d) = Ok aslabel -> get_kek cfg aslabel = Ok askek -> kek_supported askek ->
  exists phy keys s,
    handle cfg (Body r) = AMsg 200 MJoinAns (r_receiver r) (r_sender r) (r_txid r) RSuccess phy None keys None /\
    device_accept d 255 dn phy = Some s /\
    echoes s jn netid devaddr dls rxd (opt_cf cf) = true /\
    servers_share_keys (keks_of cfg) (r_sender r) aslabel s (k_snwksint keys) (k_fnwksint keys) (k_nwksenc keys) (k_nwkskey keys)
                       (k_appskey keys) = true.
Proof.
  intros Wd Hdn Hjn Ln Bn Ld Bd Hdls Hrxd Bc Hcf Hmt Hbase Htyped Hs Hr Hkeys Hns Kns Has Hask Kas.
  destruct (join_frame_decodes d dn Wd Hdn) as (p & Hp & Hpl & Hmic).
  assert (Hcf' : cf = [] \/ length cf = 16%nat) by (destruct Hcf as [->|[L _]]; auto).
  pose proof Wd as (Lde & Bde & Lje & Bje & Lnk & Bnk & Lak & Bak).
  cbn [handle]. rewrite Hbase, Hmt. replace (bytes_eqb s_JoinReq s_JoinReq) with true by reflexivity.
  unfold handle_activation. rewrite Htyped. cbn [t_deveui]. rewrite Hkeys, Hns, Has, Hask.
  unfold join_pipeline. cbn [t_phy t_dl t_deveui]. rewrite Hp, Hs, Hr. cbn [lift pbind]. rewrite Hpl, bytes_eqb_refl.
  cbn [pbind dk_nwkkey dk_appkey]. rewrite Hmic. cbn [lift pbind negb dk_nwkkey dk_appkey].
  rewrite (set_join_nonce_ok _ _ _ Hjn). cbn [lift pbind].
  pose proof (dls_ok dls Hdls) as D. destruct (dec_dlsettings dls) as [[o rx2] rx1] eqn:Edl. destruct D as [_ Do].
  rewrite (session_keys_ok o _ netid (d_joineui d) jn dn Hjn). cbn [lift pbind dk_nwkkey dk_appkey sk_fnwksint sk_appskey sk_snwksint sk_nwksenc].
  rewrite (build_ok jn netid _ _ devaddr dls _ rxd cf JoinRequestType (d_joineui d) dn _ _ Edl Hjn Hrxd Hdls Ln Ld Hcf).
  cbn [lift pbind].
  rewrite jsint_eq.
  replace (if o then d_jsintkey d else d_nwkkey d) with (if negb (dls / 128 =? 0) then d_jsintkey d else d_nwkkey d) by (rewrite Do; reflexivity).
  unfold JoinRequestType. rewrite server_mic_eq.
  rewrite !skey_derive.
  set (F := firstn 3 (le_bytes 4 jn) ++ (if o then lsb_first (d_joineui d) else rev netid) ++ le 2 dn).
  assert (BF : bytes F) by (apply fields_bytes; assumption).
  assert (Kns2 : forall typ, typ < 256 -> exists e, envelope_of (r_sender r) nskek (derive (d_nwkkey d) typ F) = Ok (Some e) /\
                 opens_to (keks_of cfg) (r_sender r) (Some e) (derive (d_nwkkey d) typ F) = true).
  { intros typ Ht. destruct (derive_wf (d_nwkkey d) typ F Bnk Ht BF) as [L B].
    apply envelope_opens; auto. unfold keks_of. now rewrite Hns. }
  assert (Kas' : forall key, bytes key -> exists e, envelope_of aslabel askek (derive key 2 F) = Ok (Some e) /\
                 opens_to (keks_of cfg) aslabel (Some e) (derive key 2 F) = true).
  { intros key Bkey. destruct (derive_wf key 2 F Bkey ltac:(lia) BF) as [L B].
    apply envelope_opens; auto. unfold keks_of. now rewrite Hask. }
  pose proof (device_accept_ok d 255 dn jn netid devaddr dls rxd cf (d_nwkkey d) Wd ltac:(lia) Hjn Ln Ld Hcf' Bn Bd Bc Hdls
                ltac:(lia) eq_refl) as DA. cbn zeta in DA.
  assert (So : session_of d dn jn netid devaddr dls rxd cf =
    if o then mkSession jn netid devaddr dls rxd (opt_cf cf) true (derive (d_nwkkey d) 1 F) (derive (d_nwkkey d) 3 F)
                        (derive (d_nwkkey d) 4 F) (derive (d_appkey d) 2 F)
    else mkSession jn netid devaddr dls rxd (opt_cf cf) false (derive (d_nwkkey d) 1 F) (derive (d_nwkkey d) 1 F)
                        (derive (d_nwkkey d) 1 F) (derive (d_nwkkey d) 2 F)).
  { unfold session_of. rewrite <- Do. unfold F. destruct o; reflexivity. }
  destruct o.
  - destruct (Kas' (d_appkey d) Bak) as (ea & Ea & Oa).
    destruct (Kns2 1 ltac:(lia)) as (e1 & E1 & O1). destruct (Kns2 3 ltac:(lia)) as (e3 & E3 & O3).
    destruct (Kns2 4 ltac:(lia)) as (e4 & E4 & O4).
    rewrite Ea, E1, E3, E4. cbn [lift pbind].
    eexists _, _, _. split; [reflexivity|]. split; [exact DA|]. split; [apply echoes_session|].
    rewrite So. unfold servers_share_keys.
    cbn [s_optneg s_appskey s_fnwksint s_snwksint s_nwksenc k_snwksint k_fnwksint k_nwksenc k_nwkskey k_appskey].
    now rewrite Oa, O1, O3, O4.
  - destruct (Kas' (d_nwkkey d) Bnk) as (ea & Ea & Oa).
    destruct (Kns2 1 ltac:(lia)) as (e1 & E1 & O1).
    rewrite Ea, E1. cbn [lift pbind].
    eexists _, _, _. split; [reflexivity|]. split; [exact DA|]. split; [apply echoes_session|].
    rewrite So. unfold servers_share_keys.
    cbn [s_optneg s_appskey s_fnwksint s_snwksint s_nwksenc k_snwksint k_fnwksint k_nwksenc k_nwkskey k_appskey].
    now rewrite Oa, O1.
Qed.

(* ---------- join-request: wrong MIC, unknown DevEUI ---------- *)
(* any frame that is a join-request of this device with four MIC bytes other than the right ones *)
Theorem mic_failed cfg r je de dn m dk devaddr dl rxd cf nskek aslabel askek netid joineui :
  length je = 8%nat -> length de = 8%nat -> length m = 4%nat -> dn < 65536 ->
  m <> mic4 (dk_nwkkey dk) ([0] ++ rev je ++ rev de ++ le_bytes 2 dn) ->
  r_mtype r = s_JoinReq -> base_decode r = Ok tt ->
  typed_decode r = Ok (mkTReq ([0] ++ rev je ++ rev de ++ le_bytes 2 dn ++ m) de devaddr dl rxd cf) ->
  unmarshal_text 3 (r_sender r) = Ok netid -> unmarshal_text 8 (r_receiver r) = Ok joineui ->
  get_keys cfg de = Found dk ->
  get_kek cfg (r_sender r) = Ok nskek -> get_aslabel cfg de = Ok aslabel -> get_kek cfg aslabel = Ok askek ->
  handle cfg (Body r) = AMsg 200 MJoinAns (r_receiver r) (r_sender r) (r_txid r) RMICFailed [] None no_keys None.
Proof.
  intros Lje Lde Lm Hdn Hm Hmt Hbase Htyped Hs Hr Hkeys Hns Has Hask.
  cbn [handle]. rewrite Hbase, Hmt. replace (bytes_eqb s_JoinReq s_JoinReq) with true by reflexivity.
  unfold handle_activation. rewrite Htyped. cbn [t_deveui]. rewrite Hkeys, Hns, Has, Hask.
  unfold join_pipeline. cbn [t_phy].
  rewrite (phy_unmarshal_join_request je de dn m Lje Lde Lm Hdn), Hs, Hr. cbn [lift pbind pl t_deveui].
  rewrite bytes_eqb_refl. cbn [pbind].
  unfold validate_up_join_mic, calc_up_join_mic. cbn [pl payload_marshal bind mtype major Frame.Model.mic lift pbind].
  replace (mhdr_marshal 0 0) with 0 by reflexivity.
  destruct (bytes_eqb m _) eqn:E; [|reflexivity].
  apply bytes_eqb_true in E. exfalso. apply Hm. rewrite E. reflexivity.
Qed.

Theorem unknown_deveui cfg r t :
  (r_mtype r = s_JoinReq \/ r_mtype r = s_RejoinReq) -> base_decode r = Ok tt -> typed_decode r = Ok t ->
  get_keys cfg (t_deveui t) = NotFound ->
  handle cfg (Body r) = AMsg 400 (if bytes_eqb (r_mtype r) s_JoinReq then MJoinAns else MRejoinAns)
                             (r_receiver r) (r_sender r) (r_txid r) RUnknownDevEUI [] None no_keys None.
Proof.
  intros Hmt Hbase Htyped Hk. cbn [handle]. rewrite Hbase.
  destruct Hmt as [-> | ->].
  - replace (bytes_eqb s_JoinReq s_JoinReq) with true by reflexivity.
    unfold handle_activation. now rewrite Htyped, Hk.
  - replace (bytes_eqb s_RejoinReq s_JoinReq) with false by reflexivity.
    replace (bytes_eqb s_RejoinReq s_RejoinReq) with true by reflexivity.
    unfold handle_activation. now rewrite Htyped, Hk.
Qed.

(* ---------- purity: concurrent requests at model level ---------- *)
(* the answer to a request depends on that request and the configuration only: whatever other
   requests are in flight, before or after, in whatever order *)
Theorem independent cfg (before after : list body) b :
  nth (length before) (handle_all cfg (before ++ b :: after)) APanic = handle cfg b.
Proof.
  unfold handle_all. rewrite map_app. cbn [map].
  rewrite app_nth2 by (rewrite map_length; lia). rewrite map_length, Nat.sub_diag. reflexivity.
Qed.

Theorem independent_of_order cfg (bs bs' : list body) :
  Permutation bs bs' -> Permutation (handle_all cfg bs) (handle_all cfg bs').
Proof. apply Permutation_map. Qed.

(* ---------- rejoin-request ---------- *)
(* [frame] is a rejoin-request of type [ty] of device [d] with counter [rc]; the four MIC bytes are
   arbitrary (the handler never looks at them), the NetID of a type 0 / 2 request too *)
Definition rejoin_frame_of (d : device) (ty rc : N) (frame : list N) : Prop :=
  ((ty = 0 \/ ty = 2) /\ exists nid m, length nid = 3%nat /\ length m = 4%nat /\
      frame = [192; ty] ++ rev nid ++ rev (d_deveui d) ++ le_bytes 2 rc ++ m) \/
  (ty = 1 /\ exists m, length m = 4%nat /\
      frame = [192; 1] ++ rev (d_joineui d) ++ rev (d_deveui d) ++ le_bytes 2 rc ++ m).

Lemma rejoin02_frame_of d ty netid rc skey : ty = 0 \/ ty = 2 -> length netid = 3%nat ->
  rejoin_frame_of d ty rc (rejoin02_frame d ty netid rc skey).
Proof.
  intros Hty Hn. left. split; [exact Hty|]. exists netid, (mic4 skey ([192; ty] ++ lsb_first netid ++ lsb_first (d_deveui d) ++ le 2 rc)).
  split; [exact Hn|]. split; [apply mic4_length|]. unfold rejoin02_frame, lsb_first, le. now rewrite <- !app_assoc.
Qed.

Lemma rejoin1_frame_of d rc : rejoin_frame_of d 1 rc (rejoin1_frame d rc).
Proof.
  right. split; [reflexivity|]. eexists. split; [apply mic4_length|].
  unfold rejoin1_frame, lsb_first, le. now rewrite <- !app_assoc.
Qed.

Lemma rejoin_frame_decodes d ty rc frame : wf_device d -> rc < 65536 -> rejoin_frame_of d ty rc frame ->
  exists p, phy_unmarshal frame = Ok p /\
            match pl p with
            | PLRejoin02 t _ de c => t = ty /\ c = rc /\ de = d_deveui d
            | PLRejoin1 t je de c => t = ty /\ c = rc /\ je = d_joineui d /\ de = d_deveui d
            | _ => False
            end.
Proof.
  intros (Lde & _ & Lje & _) Hrc [[Hty (nid & m & Ln & Lm & ->)]|[-> (m & Lm & ->)]].
  - rewrite phy_unmarshal_rejoin02 by assumption. eexists. split; [reflexivity|]. cbn. auto.
  - rewrite phy_unmarshal_rejoin1 by assumption. eexists. split; [reflexivity|]. cbn. auto.
Qed.

(* the keys the servers receive with a RejoinAns: the 1.0-style derivation over NetID with NwkKey *)
Definition rejoin_server_key (d : device) (typ jn : N) (netid : list N) (rc : N) : list N :=
  derive (d_nwkkey d) typ (firstn 3 (le_bytes 4 jn) ++ lsb_first netid ++ le 2 rc).

Theorem rejoin_usable cfg r d ty rc frame netid devaddr dls rxd cf jn nskek aslabel askek :
  wf_device d -> rc < 65536 -> jn < 16777216 ->
  length netid = 3%nat -> bytes netid -> length devaddr = 4%nat -> bytes devaddr ->
  128 <= dls < 256 -> rxd < 16 -> bytes cf -> cf_canonical cf ->
  rejoin_frame_of d ty rc frame ->
  r_mtype r = s_RejoinReq -> base_decode r = Ok tt ->
  typed_decode r = Ok (mkTReq frame (d_deveui d) devaddr (dec_dlsettings dls) (Z.of_N rxd) cf) ->
  unmarshal_text 3 (r_sender r) = Ok netid -> unmarshal_text 8 (r_receiver r) = Ok (d_joineui d) ->
  get_keys cfg (d_deveui d) = Found (mkDevKeys (d_nwkkey d) (d_appkey d) (Z.of_N jn)) ->
  get_kek cfg (r_sender r) = Ok nskek -> kek_supported nskek ->
  get_aslabel cfg (d_deveui d) = Ok aslabel -> get_kek cfg aslabel = Ok askek -> kek_supported askek ->
  exists phy keys s,
    handle cfg (Body r) = AMsg 200 MRejoinAns (r_receiver r) (r_sender r) (r_txid r) RSuccess phy None keys None /\
    device_accept d ty rc phy = Some s /\
    echoes s jn netid devaddr dls rxd (opt_cf cf) = true /\
    (servers_share_keys (keks_of cfg) (r_sender r) aslabel s (k_snwksint keys) (k_fnwksint keys) (k_nwksenc keys) (k_nwkskey keys)
                        (k_appskey keys) = true \/ In ty c16_rejoin_optneg_session_keys) /\
    opens_to (keks_of cfg) (r_sender r) (k_fnwksint keys) (rejoin_server_key d 1 jn netid rc) = true /\
    opens_to (keks_of cfg) aslabel (k_appskey keys) (rejoin_server_key d 2 jn netid rc) = true /\
    opens_to (keks_of cfg) (r_sender r) (k_snwksint keys) (rejoin_server_key d 3 jn netid rc) = true /\
    opens_to (keks_of cfg) (r_sender r) (k_nwksenc keys) (rejoin_server_key d 4 jn netid rc) = true.
Proof.
  intros Wd Hrc Hjn Ln Bn Ld Bd Hdls Hrxd Bc Hcf Hframe Hmt Hbase Htyped Hs Hr Hkeys Hns Kns Has Hask Kas.
  destruct (rejoin_frame_decodes d ty rc frame Wd Hrc Hframe) as (p & Hp & Hpl).
  assert (Hty : ty = 0 \/ ty = 1 \/ ty = 2) by (destruct Hframe as [[[|] _]|[? _]]; auto).
  assert (Hcf' : cf = [] \/ length cf = 16%nat) by (destruct Hcf as [->|[L _]]; auto).
  pose proof Wd as (Lde & Bde & Lje & Bje & Lnk & Bnk & Lak & Bak).
  cbn [handle]. rewrite Hbase, Hmt.
  replace (bytes_eqb s_RejoinReq s_JoinReq) with false by reflexivity.
  replace (bytes_eqb s_RejoinReq s_RejoinReq) with true by reflexivity.
  unfold handle_activation. rewrite Htyped. cbn [t_deveui]. rewrite Hkeys, Hns, Has, Hask.
  unfold rejoin_pipeline. cbn [t_phy t_dl t_deveui]. rewrite Hp, Hs, Hr. cbn [lift pbind].
  assert (Etn : match pl p with
                | PLRejoin02 ty0 _ de rc0 => if bytes_eqb de (d_deveui d) then POk (ty0, d_joineui d, rc0) else POther
                | PLRejoin1 ty0 je de rc0 => if bytes_eqb de (d_deveui d) then POk (ty0, je, rc0) else POther
                | _ => POther end = POk (ty, d_joineui d, rc)).
  { destruct (pl p); try contradiction; [destruct Hpl as (-> & -> & ->)|destruct Hpl as (-> & -> & -> & ->)];
      rewrite bytes_eqb_refl; reflexivity. }
  rewrite Etn. cbn [pbind dk_nwkkey dk_appkey].
  rewrite (set_join_nonce_ok _ _ _ Hjn). cbn [lift pbind].
  rewrite (session_keys_ok false _ netid (d_joineui d) jn rc Hjn).
  cbn [lift pbind dk_nwkkey dk_appkey sk_fnwksint sk_appskey sk_snwksint sk_nwksenc].
  rewrite (build_ok jn netid _ _ devaddr dls _ rxd cf ty (d_joineui d) rc _ _ eq_refl Hjn Hrxd ltac:(lia) Ln Ld Hcf).
  cbn [lift pbind].
  rewrite jsint_eq, jsenc_eq.
  assert (O : negb (dls / 128 =? 0) = true) by lia.
  assert (M : forall B, firstn 4 (cmac (d_jsintkey d) (ja_prefix (negb (dls / 128 =? 0)) ty (d_joineui d) rc ++ [32] ++ B))
                     = expected_mic d ty rc dls B).
  { intros B. rewrite <- server_mic_eq, O. reflexivity. }
  rewrite M.
  rewrite !skey_derive.
  set (F := firstn 3 (le_bytes 4 jn) ++ rev netid ++ le 2 rc).
  assert (BF : bytes F) by (apply (fields_bytes false netid (d_joineui d) jn rc); assumption).
  assert (Kns2 : forall typ, typ < 256 -> exists e, envelope_of (r_sender r) nskek (derive (d_nwkkey d) typ F) = Ok (Some e) /\
                 opens_to (keks_of cfg) (r_sender r) (Some e) (derive (d_nwkkey d) typ F) = true).
  { intros typ Ht. destruct (derive_wf (d_nwkkey d) typ F Bnk Ht BF) as [L B].
    apply envelope_opens; auto. unfold keks_of. now rewrite Hns. }
  assert (Kas' : exists e, envelope_of aslabel askek (derive (d_nwkkey d) 2 F) = Ok (Some e) /\
                 opens_to (keks_of cfg) aslabel (Some e) (derive (d_nwkkey d) 2 F) = true).
  { destruct (derive_wf (d_nwkkey d) 2 F Bnk ltac:(lia) BF) as [L B].
    apply envelope_opens; auto. unfold keks_of. now rewrite Hask. }
  assert (Ek : d_jsenckey d = (if ty =? JoinReqType_join then d_nwkkey d else d_jsenckey d)).
  { destruct Hty as [-> | [-> | ->]]; reflexivity. }
  pose proof (device_accept_ok d ty rc jn netid devaddr dls rxd cf (d_jsenckey d) Wd ltac:(lia) Hjn Ln Ld Hcf' Bn Bd Bc
                ltac:(lia) ltac:(lia) Ek) as DA. cbn zeta in DA.
  destruct Kas' as (ea & Ea & Oa).
  destruct (Kns2 1 ltac:(lia)) as (e1 & E1 & O1). destruct (Kns2 3 ltac:(lia)) as (e3 & E3 & O3).
  destruct (Kns2 4 ltac:(lia)) as (e4 & E4 & O4).
  rewrite Ea, E1, E3, E4. cbn [lift pbind].
  eexists _, _, _. split; [reflexivity|]. split; [exact DA|]. split; [apply echoes_session|].
  split. { right. unfold c16_rejoin_optneg_session_keys. cbn [In]. lia. }
  cbn [k_snwksint k_fnwksint k_nwksenc k_nwkskey k_appskey]. unfold rejoin_server_key, lsb_first. fold F. auto.
Qed.

