(* Executable checks for C12 over the dumped tables: the finite enumerations
   (accepted (dr, off) pairs, channels, hopping channels) and the boolean
   obligations the proofs in Rx1Proofs.v discharge by vm_compute.  Kept apart
   from the proofs so that the diagnosis file (coq/diag/C12.v) can still
   evaluate them cell by cell when an obligation stops holding.
   Definitions only. *)
From Coq Require Import List ZArith Bool String.
From LW Require Import Base.Outcome Band.Types Band.Lookup Band.Regional Band.Rx1Spec.
From LWGen Require Import BandGen KnownGen.
Import ListNotations.
Open Scope Z_scope.

Definition generic_domain (t : tables) : list (Z * Z) :=
  flat_map (fun e => map (pair (fst e)) (zrange 0 (zlen (snd e) - 1))) (t_rx1 t).

Definition as923_domain : list (Z * Z) :=
  flat_map (fun dr => map (pair dr) (zrange 0 7)) (zrange 0 7).

Definition rx1_domain (c : band_cfg) : list (Z * Z) :=
  match c_kind c with
  | KAS923 => as923_domain
  | _ => generic_domain (c_tab c)
  end.

Definition all_cells (P : band_cfg -> Z -> Z -> bool) : bool :=
  forallb (fun c => forallb (fun p => P c (fst p) (snd p)) (rx1_domain c)) band_configs.

(* membership in the generated exception list *)
Definition cell_eqb (a b : string * Z * Z) : bool :=
  String.eqb (fst (fst a)) (fst (fst b)) && (snd (fst a) =? snd (fst b)) && (snd a =? snd b).

Definition cell_known (x : string * Z * Z) : bool := existsb (cell_eqb x) c12_known_cells.

Definition defined_check (c : band_cfg) (dr off : Z) : bool :=
  rx1_defined_rule (c_tab c) (get_rx1_dr c dr off) || cell_known (c_name c, dr, off).

(* the listed exceptions are real: each is accepted and yields an undefined data-rate *)
Definition refuted_check (x : string * Z * Z) : bool :=
  existsb (fun c => String.eqb (c_name c) (fst (fst x))
                    && match get_rx1_dr c (snd (fst x)) (snd x) with
                       | Ok r => negb (dr_defined_down (c_tab c) r)
                       | _ => false
                       end) band_configs.

Definition valid_check (c : band_cfg) (dr off : Z) : bool := negb (rx1_args_invalid dr off).

(* an accepted uplink data-rate is a data-rate of the band *)
Definition uplink_dr_check (c : band_cfg) (dr off : Z) : bool :=
  rx1_uplink_dr_rule (c_tab c) dr (get_rx1_dr c dr off).

(* an accepted offset is one the region defines - except the recorded cells *)
Definition offset_cell_known (x : string * Z * Z) : bool := existsb (cell_eqb x) c12_known_offset_cells.
Definition offset_check (c : band_cfg) (dr off : Z) : bool :=
  match region_of (c_name c) with
  | None => false
  | Some reg => rx1_offset_rule reg off (get_rx1_dr c dr off) || offset_cell_known (c_name c, dr, off)
  end.
Definition offset_refuted_check (x : string * Z * Z) : bool :=
  existsb (fun c => String.eqb (c_name c) (fst (fst x))
                    && match region_of (c_name c) with
                       | Some reg => (snd x >? spec_max_rx1_offset reg) && is_ok (get_rx1_dr c (snd (fst x)) (snd x))
                       | None => false
                       end) band_configs.

Definition formula_domain : list (Z * Z) :=
  flat_map (fun dr => map (pair dr) (zrange 0 5)) (zrange 0 7).

Definition formula_check : bool :=
  forallb (fun c =>
    match region_of (c_name c) with
    | None => false
    | Some reg =>
      forallb (fun p => rx1_formula_rule reg (c_dwell c) (fst p) (snd p) (get_rx1_dr c (fst p) (snd p)))
              formula_domain
    end) band_configs.

Definition step_check (c : band_cfg) (dr off : Z) : bool :=
  rx1_step_rule (c_tab c) off (get_rx1_dr c dr (off - 1)) (get_rx1_dr c dr off).

Definition channel_check : bool :=
  forallb (fun c =>
    match region_of (c_name c) with
    | None => false
    | Some reg =>
      let t := c_tab c in
      forallb (fun i =>
        match zindex (t_up t) i with
        | Ok u => rx1_channel_ok reg (t_down t) i (ch_freq u)
                                 (get_rx1_channel_index c i) (get_rx1_frequency c (ch_freq u))
        | _ => false
        end) (zrange 0 (zlen (t_up t) - 1))
    end) band_configs.

Definition ping_check : bool :=
  forallb (fun c =>
    match region_of (c_name c) with
    | None => false
    | Some reg =>
      forallb (fun k => outcome_eqb Z.eqb (ping_slot_at c k) (Ok (spec_ping_slot_at reg k))) (zrange 0 7)
    end) band_configs.

Definition defaults_check : bool :=
  forallb (fun c =>
    match region_of (c_name c) with
    | None => false
    | Some reg =>
      defaults_eqb (get_defaults c) (c_defaults c) && rx2_ok reg (c_tab c) (get_defaults c)
    end) band_configs.

Definition regions_check : bool :=
  forallb (fun c => match region_of (c_name c) with Some _ => true | None => false end) band_configs.

(* ---- band objects after AddChannel histories (proofs: AddChannelProofs.v) ---------- *)
(* the bands that accept extra channels answer RX1 on the uplink channel / frequency, and their
   default uplink and downlink channels carry the same frequencies index by index *)
Definition identity_kind (k : band_kind) : bool :=
  match k with KUS915 | KAU915 | KCN470 => false | _ => true end.
Definition identity_region (r : region) : bool :=
  match r with RUS915 | RAU915 | RCN470 => false | _ => true end.

Definition extra_aligned_cfg (c : band_cfg) : bool :=
  if t_extra (c_tab c) then
    identity_kind (c_kind c)
    && match region_of (c_name c) with Some reg => identity_region reg | None => false end
    && list_eqb Z.eqb (map ch_freq (t_up (c_tab c))) (map ch_freq (t_down (c_tab c)))
  else true.

Definition extra_aligned_check : bool := forallb extra_aligned_cfg band_configs.

(* the regions answering RX1 on the uplink frequency are implemented by the band types that do *)
Definition kind_region_check : bool :=
  forallb (fun c => match region_of (c_name c) with
                    | Some reg => Bool.eqb (identity_kind (c_kind c)) (identity_region reg)
                    | None => false
                    end) band_configs.

(* ---- deprecated band names (proofs: AliasProofs.v) ------------------------------------ *)
(* what GetConfig returns for a deprecated name is, apart from the name it was asked for, the
   configuration of the common name with the same repeater / dwell-time arguments *)
Definition all_configs : list band_cfg := band_configs ++ band_alias_configs.

Definition is_deprecated (name : string) : bool :=
  match assoc_string name deprecated_names with Some _ => true | None => false end.

Definition alias_partner (ac : band_cfg) : option band_cfg :=
  find (fun c => String.eqb (c_name c) (common_name (c_name ac)) && cfg_body_eqb ac c) band_configs.

Definition alias_cfg_check (ac : band_cfg) : bool :=
  is_deprecated (c_name ac) && match alias_partner ac with Some _ => true | None => false end.

(* every deprecated name x repeater x dwell time has been dumped *)
Definition alias_cover_cell (name : string) (rep dw : bool) : bool :=
  existsb (fun ac => String.eqb (c_name ac) name && Bool.eqb (c_rep ac) rep && Bool.eqb (c_dwell ac) dw)
          band_alias_configs.
Definition alias_cover_check : bool :=
  forallb (fun p => forallb (fun rep => forallb (alias_cover_cell (fst p) rep) [false; true]) [false; true])
          deprecated_names.

Definition alias_check : bool := forallb alias_cfg_check band_alias_configs && alias_cover_check.
