// Package collide constructs pairs of different 128-bit keys that agree under cheap non-cryptographic digests
// (CRC-32 with three polynomials at once, Adler-32, byte sum, xor-folds, FNV-1a 32, shared prefixes / suffixes).
// Any cache, memo or index keyed by such a digest of a key confuses the two keys; single-bit neighbours and random
// keys never collide, so the harnesses construct the pairs: "a different key must give a different result" clauses
// are run with K, then K', then K again in one process.
package collide

import (
	"hash/adler32"
	"hash/crc32"
	"hash/fnv"
	"sync"
)

type Key = [16]byte

// Pair is a base key and a different key that collides with it under the named digest(s).
type Pair struct {
	Name  string
	K, K2 Key
}

var (
	crcOnce sync.Once
	crcMask Key // xoring it into any 16-byte key leaves crc32 IEEE, Castagnoli and Koopman unchanged
)

var tabs = []*crc32.Table{crc32.IEEETable, crc32.MakeTable(crc32.Castagnoli), crc32.MakeTable(crc32.Koopman)}

func crc3(k Key) (d [3]uint32) {
	for i, t := range tabs {
		d[i] = crc32.Checksum(k[:], t)
	}
	return
}

// CRC is affine over GF(2) for a fixed length: crc(K ^ e) ^ crc(K) does not depend on K. Gaussian elimination over
// the 128 single-bit differences (96 equations) yields a non-empty set of bits whose differences cancel.
func crcNull() Key {
	crcOnce.Do(func() {
		var zero Key
		base := crc3(zero)
		type row struct {
			d    [3]uint32
			bits Key // which key bits are combined
		}
		var rows []row
		for b := 0; b < 128; b++ {
			var e Key
			e[b/8] = 1 << uint(b%8)
			c := crc3(e)
			r := row{bits: e}
			for i := range c {
				r.d[i] = c[i] ^ base[i]
			}
			rows = append(rows, r)
		}
		// eliminate: pivots per (word, bit)
		var pivots []row
		for _, r := range rows {
			for _, p := range pivots {
				// leading bit of p
				w, bit := lead(p.d)
				if r.d[w]>>bit&1 == 1 {
					for i := range r.d {
						r.d[i] ^= p.d[i]
					}
					for i := range r.bits {
						r.bits[i] ^= p.bits[i]
					}
				}
			}
			if r.d == [3]uint32{} {
				crcMask = r.bits
				return
			}
			pivots = append(pivots, r)
		}
	})
	return crcMask
}

func lead(d [3]uint32) (int, uint) {
	for w := 0; w < 3; w++ {
		if d[w] != 0 {
			for b := uint(31); ; b-- {
				if d[w]>>b&1 == 1 {
					return w, b
				}
			}
		}
	}
	return 0, 0
}

// For returns the colliding partners that can be constructed for the given base key (a construction that needs two
// different bytes in certain positions is skipped when the key does not have them).
func For(k Key) []Pair {
	var out []Pair
	add := func(name string, k2 Key) {
		if k2 != k {
			out = append(out, Pair{name, k, k2})
		}
	}
	// CRC-32 IEEE, Castagnoli and Koopman at once
	m := crcNull()
	k2 := k
	for i := range k2 {
		k2[i] ^= m[i]
	}
	add("crc32-ieee+castagnoli+koopman", k2)
	// Adler-32 (hence byte sum): +1, -2, +1 on three neighbouring bytes keeps both running sums
	for i := 0; i+2 < 16; i++ {
		if k[i] < 255 && k[i+1] >= 2 && k[i+2] < 255 {
			k2 = k
			k2[i]++
			k2[i+1] -= 2
			k2[i+2]++
			add("adler32+bytesum", k2)
			break
		}
		if k[i] >= 1 && k[i+1] <= 253 && k[i+2] >= 1 {
			k2 = k
			k2[i]--
			k2[i+1] += 2
			k2[i+2]--
			add("adler32+bytesum", k2)
			break
		}
	}
	// xor-fold to 8 / 4 / 2 / 1 bytes and byte sum: swap two different bytes eight positions apart
	for i := 0; i < 8; i++ {
		if k[i] != k[i+8] {
			k2 = k
			k2[i], k2[i+8] = k[i+8], k[i]
			add("xorfold8/4/2/1+bytesum", k2)
			break
		}
	}
	// xor-fold to one byte only: two bytes flipped in the same bit
	k2 = k
	k2[3] ^= 0x40
	k2[12] ^= 0x40
	add("xorfold1", k2)
	// prefix / suffix indexed
	k2 = k
	k2[15] ^= 0x5a
	add("first15bytes", k2)
	k2 = k
	for i := 8; i < 16; i++ {
		k2[i] = ^k[i]
	}
	add("first8bytes", k2)
	k2 = k
	for i := 0; i < 8; i++ {
		k2[i] = ^k[i]
	}
	add("last8bytes", k2)
	return out
}

var (
	fnvOnce sync.Once
	fnvPair Pair
	fnvOK   bool
)

func fnv32a(k Key) uint32 {
	h := fnv.New32a()
	h.Write(k[:])
	return h.Sum32()
}

// FNV returns a pair of different keys with equal FNV-1a 32 (birthday search over variations of one key, done once
// per process; about 2^17..2^18 hash evaluations).
func FNV(rnd func() uint64) (Pair, bool) {
	fnvOnce.Do(func() {
		var base Key
		for i := 0; i < 16; i += 8 {
			x := rnd()
			for j := 0; j < 8; j++ {
				base[i+j] = byte(x >> (8 * uint(j)))
			}
		}
		seen := map[uint32]Key{}
		for n := 0; n < 1<<20; n++ {
			k := base
			x := rnd()
			for j := 0; j < 8; j++ {
				k[4+j] = byte(x >> (8 * uint(j)))
			}
			h := fnv32a(k)
			if o, ok := seen[h]; ok && o != k {
				fnvPair, fnvOK = Pair{"fnv1a32", o, k}, true
				return
			}
			seen[h] = k
		}
	})
	return fnvPair, fnvOK
}

// Check reports whether the pair really collides under the digests its name lists (self-test used by the harnesses).
func Check(p Pair) bool {
	if p.K == p.K2 {
		return false
	}
	sum := func(k Key) (s int) {
		for _, b := range k {
			s += int(b)
		}
		return
	}
	fold := func(k Key, w int) (f [8]byte) {
		for i, b := range k {
			f[i%w] ^= b
		}
		return
	}
	switch p.Name {
	case "crc32-ieee+castagnoli+koopman":
		return crc3(p.K) == crc3(p.K2)
	case "adler32+bytesum":
		return adler32.Checksum(p.K[:]) == adler32.Checksum(p.K2[:]) && sum(p.K) == sum(p.K2)
	case "xorfold8/4/2/1+bytesum":
		return fold(p.K, 8) == fold(p.K2, 8) && fold(p.K, 4) == fold(p.K2, 4) && fold(p.K, 1) == fold(p.K2, 1) && sum(p.K) == sum(p.K2)
	case "xorfold1":
		return fold(p.K, 1) == fold(p.K2, 1)
	case "first15bytes":
		return string(p.K[:15]) == string(p.K2[:15])
	case "first8bytes":
		return string(p.K[:8]) == string(p.K2[:8])
	case "last8bytes":
		return string(p.K[8:]) == string(p.K2[8:])
	case "fnv1a32":
		return fnv32a(p.K) == fnv32a(p.K2)
	}
	return false
}
