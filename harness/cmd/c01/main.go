// Correspondence harness for C01: frame encode/decode round trip for every message type.
package main

import (
	"bytes"
	"encoding/base64"
	"encoding/json"
	"fmt"
	"io"
	"log"
	"os"
	"reflect"
	"time"

	"github.com/brocaar/lorawan"
	"verifharness/internal/cases"
	"verifharness/internal/cq"
	"verifharness/internal/framefmt"
	"verifharness/internal/macfmt"
	"verifharness/internal/noise"
	"verifharness/internal/reuse"
)

// nr drives the unrelated library calls made between the compared calls
var nr *cq.RNG

// theSet: where Go-side failures found inside helper functions are reported
var theSet *cases.Set

func marshal(p lorawan.PHYPayload) (b []byte, s string) {
	defer func() {
		if r := recover(); r != nil {
			b, s = nil, cq.Panic
		}
	}()
	b, err := p.MarshalBinary()
	if err != nil {
		return nil, cq.Err
	}
	return b, cq.Ok(cq.Bytes(b))
}

func unmarshal(b []byte) (q lorawan.PHYPayload, s string) {
	cases.Begin(fmt.Sprintf("PHYPayload.UnmarshalBinary:%x", b), map[string]interface{}{"bytes": fmt.Sprintf("%x", b)})
	defer cases.End()
	defer func() {
		if r := recover(); r != nil {
			s = cq.Panic
		}
	}()
	in := append([]byte{}, b...)
	if err := q.UnmarshalBinary(in); err != nil {
		return q, cq.Err
	}
	reuse.CheckIsolation(theSet, b, in, &q)
	return q, cq.Ok(framefmt.Phy(q, framefmt.DecodedFOptsLen(b)))
}

var reused reuse.Receiver

// observe renders a frame the way logging / debugging code does. None of this may change the frame.
func observe(s *cases.Set, p *lorawan.PHYPayload, foptsLen int, when string) {
	defer func() { _ = recover() }()
	before := framefmt.Phy(*p, foptsLen)
	_, _ = json.Marshal(*p)
	_, _ = json.Marshal(p)
	_, _ = p.MarshalText()
	_ = fmt.Sprintf("%+v %v", *p, p.MACPayload)
	if after := framefmt.Phy(*p, foptsLen); after != before {
		s.Fail(cases.GoFail{Key: "observer-changes-frame:" + before, What: "rendering a frame (json.Marshal / MarshalText / fmt) " + when + " changed it to " + after,
			Replay: map[string]interface{}{"frame": before, "after": after}})
	}
}

func roundTrip(s *cases.Set, p lorawan.PHYPayload, kind string) { roundTripL(s, p, kind, 0) }

// roundTripL: foptsLen is the value of the unexported FCtrl.fOptsLen field of p (0 for hand-built
// frames, the decoded nibble for frames that came out of UnmarshalBinary)
func roundTripL(s *cases.Set, p lorawan.PHYPayload, kind string, foptsLen int) {
	t := framefmt.Phy(p, foptsLen)
	noise.Step(nr)
	observe(s, &p, foptsLen, "before encoding")
	b, oenc := marshal(p)
	odec := cq.Err
	if b != nil {
		noise.Step(nr)
		var q lorawan.PHYPayload
		q, odec = unmarshal(b)
		reused.Decode(s, nr, b, odec)
		// text form: base64 of the same bytes must decode to the same frame (Go-side property; encoding/base64 is trusted)
		txt, err := p.MarshalText()
		var q2 lorawan.PHYPayload
		if err != nil {
			s.Fail(cases.GoFail{Key: "text-marshal:" + t, What: "MarshalBinary succeeds but MarshalText fails", Replay: map[string]interface{}{"frame": t}})
		} else if err := q2.UnmarshalText(txt); (err != nil) != (odec == cq.Err) || (err == nil && !reflect.DeepEqual(q, q2)) {
			s.Fail(cases.GoFail{Key: "text-roundtrip:" + t, What: "UnmarshalText(MarshalText(p)) differs from the binary round trip", Replay: map[string]interface{}{"frame": t, "text": string(txt)}})
		}
		// decoding the output again / re-encoding gives the same bytes
		if odec != cq.Err && odec != cq.Panic {
			b2, err := q.MarshalBinary()
			if err != nil || !bytes.Equal(b, b2) {
				s.Fail(cases.GoFail{Key: "reencode:" + t, What: "re-encoding the decoded frame does not give the same bytes", Replay: map[string]interface{}{"frame": t, "bytes": fmt.Sprintf("%x", b)}})
			}
		}
	}
	rp := map[string]interface{}{"api": "PHYPayload.MarshalBinary / UnmarshalBinary", "frame": t}
	textCase(s, p, kind, t)
	s.Add(cases.Case{Term: fmt.Sprintf("CRoundTrip %s %s %s", t, oenc, odec), Key: "rt:" + kind + ":" + t, Kind: kind, Nontrivial: true, Replay: rp})
	s.Remember("rt:"+kind+":"+t, oenc+" "+odec, rp, func() string {
		b, oenc := marshal(p)
		odec := cq.Err
		if b != nil {
			_, odec = unmarshal(b)
		}
		return oenc + " " + odec
	})
}

// textCase: MarshalText / UnmarshalText against the base64 model (Text/Base64.v)
func textCase(s *cases.Set, p lorawan.PHYPayload, kind, t string) {
	otxt, odec := cq.Err, cq.Err
	func() {
		defer func() {
			if r := recover(); r != nil {
				otxt = cq.Panic
			}
		}()
		txt, err := p.MarshalText()
		if err != nil {
			return
		}
		otxt = cq.Ok(cq.Bytes(txt))
		func() {
			defer func() {
				if r := recover(); r != nil {
					odec = cq.Panic
				}
			}()
			var q lorawan.PHYPayload
			if err := q.UnmarshalText(append([]byte{}, txt...)); err == nil {
				var wire []byte
				if wire, err = base64.StdEncoding.DecodeString(string(txt)); err == nil {
					odec = cq.Ok(framefmt.Phy(q, framefmt.DecodedFOptsLen(wire)))
				}
			}
		}()
	}()
	s.Add(cases.Case{Term: fmt.Sprintf("CText %s %s %s", t, otxt, odec), Key: "text:" + kind + ":" + t, Kind: "text-" + kind, Nontrivial: true,
		Replay: map[string]interface{}{"api": "PHYPayload.MarshalText / UnmarshalText", "frame": t}})
}

func joinAccept(s *cases.Set, ja *lorawan.JoinAcceptPayload, kind string) {
	t := framefmt.Payload(ja, 0)
	oenc, odec := cq.Err, cq.Err
	func() {
		defer func() {
			if r := recover(); r != nil {
				oenc = cq.Panic
			}
		}()
		b, err := ja.MarshalBinary()
		if err != nil {
			return
		}
		oenc = cq.Ok(cq.Bytes(b))
		var q lorawan.JoinAcceptPayload
		func() {
			defer func() {
				if r := recover(); r != nil {
					odec = cq.Panic
				}
			}()
			if err := q.UnmarshalBinary(false, append([]byte{}, b...)); err == nil {
				odec = cq.Ok(framefmt.Payload(&q, 0))
			}
		}()
	}()
	key := "ja:" + t
	if ja.CFList != nil {
		if m, ok := ja.CFList.Payload.(*lorawan.CFListChannelMaskPayload); ok && len(m.ChannelMasks) > 0 && len(m.ChannelMasks) <= 6 {
			last := m.ChannelMasks[len(m.ChannelMasks)-1]
			if last == (lorawan.ChMask{}) {
				key = "ja:cflist-channel-mask-with-trailing-all-zero-mask:" + t
			}
		}
	}
	s.Add(cases.Case{Term: fmt.Sprintf("CJoinAccept %s %s %s", t, oenc, odec), Key: key, Kind: kind, Nontrivial: true,
		Replay: map[string]interface{}{"api": "JoinAcceptPayload.MarshalBinary / UnmarshalBinary", "payload": t}})
}

func main() {
	log.SetOutput(io.Discard)
	dir, seed, thorough := cases.Args()
	r := cq.NewRNG(seed)
	nr = cq.NewRNG(seed ^ 0x9e3779b97f4a7c15)
	s := cases.New("C01", dir, "LW.Corr.C01",
		"spec-valid frames: 4 data MTypes x 32 FCtrl flag combinations cycled x FOpts length 0..15 (MAC commands or raw) x FPort absent/0/1..255 x FRMPayload lengths {0,1,15,16,17,31,32,33,100,241,242,random}; join-request, join-accept (CFList absent / channels / masks), rejoin 0/1/2, proprietary; plus a malformed stream (payload type not matching MType, FOpts 16..300 bytes, JoinNonce >= 2^24, FPort absent with payload, MAC command on port > 0, RXDelay > 15, nil payloads). All cases distinct by construction.")
	s.ShardSize = 250
	theSet = s
	s.Watchdog(3 * time.Second)
	n := 260
	if thorough {
		n = 7000
	}
	// corpus
	{
		ja := &lorawan.JoinAcceptPayload{CFList: &lorawan.CFList{CFListType: lorawan.CFListChannelMask,
			Payload: &lorawan.CFListChannelMaskPayload{ChannelMasks: []lorawan.ChMask{{true}, {}}}}}
		joinAccept(s, ja, "join-accept-payload") // C01-1 / C04-1 (known)
	}
	// "a value the encoder refuses is never one the specification allows": the 2.4 GHz region (RP002 ISM2400)
	// allows these frequencies (coded in 200 Hz steps there); only NewChannelReq has that coding (C01-2 / C15-2, known)
	for _, f := range []uint32{2403000000, 2425000000, 2479000000, 2423000000, 2424000000} {
		refused := func(what string, p lorawan.PHYPayload) {
			if _, err := p.MarshalBinary(); err != nil {
				s.Fail(cases.GoFail{Key: fmt.Sprintf("spec-allows:ism2400:%s:%d", what, f), What: "the encoder refuses a frequency of the 2.4 GHz region: " + err.Error(),
					Replay: map[string]interface{}{"api": "PHYPayload.MarshalBinary", "frequency": f, "in": what}})
			}
		}
		port := uint8(0)
		cmd := func(c lorawan.CID, pl lorawan.MACCommandPayload) lorawan.PHYPayload {
			return lorawan.PHYPayload{MHDR: lorawan.MHDR{MType: lorawan.UnconfirmedDataDown, Major: lorawan.LoRaWANR1},
				MACPayload: &lorawan.MACPayload{FHDR: lorawan.FHDR{DevAddr: lorawan.DevAddr{1, 2, 3, 4}}, FPort: &port,
					FRMPayload: []lorawan.Payload{&lorawan.MACCommand{CID: c, Payload: pl}}}}
		}
		refused("cflist", lorawan.PHYPayload{MHDR: lorawan.MHDR{MType: lorawan.JoinAccept, Major: lorawan.LoRaWANR1},
			MACPayload: &lorawan.JoinAcceptPayload{CFList: &lorawan.CFList{CFListType: lorawan.CFListChannel,
				Payload: &lorawan.CFListChannelPayload{Channels: [5]uint32{f}}}}})
		refused("RXParamSetupReq", cmd(lorawan.RXParamSetupReq, &lorawan.RXParamSetupReqPayload{Frequency: f}))
		refused("DLChannelReq", cmd(lorawan.DLChannelReq, &lorawan.DLChannelReqPayload{Freq: f}))
		refused("PingSlotChannelReq", cmd(lorawan.PingSlotChannelReq, &lorawan.PingSlotChannelReqPayload{Frequency: f}))
		refused("BeaconFreqReq", cmd(lorawan.BeaconFreqReq, &lorawan.BeaconFreqReqPayload{Frequency: f}))
		refused("NewChannelReq", cmd(lorawan.NewChannelReq, &lorawan.NewChannelReqPayload{ChIndex: 3, Freq: f, MaxDR: 5}))
	}
	for i := 0; i < n; i++ {
		roundTrip(s, framefmt.DataFrame(r, framefmt.ValidDataOpt(r)), "data-valid")
		if i%3 == 1 { // the same frames in other Go shapes: payload bytes split over several elements, empty non-nil lists
			p := framefmt.DataFrame(r, framefmt.ValidDataOpt(r))
			m := p.MACPayload.(*lorawan.MACPayload)
			if len(m.FRMPayload) == 1 {
				if dp, ok := m.FRMPayload[0].(*lorawan.DataPayload); ok && len(dp.Bytes) >= 2 {
					k := 1 + r.Intn(len(dp.Bytes)-1)
					m.FRMPayload = []lorawan.Payload{&lorawan.DataPayload{Bytes: dp.Bytes[:k]}, &lorawan.DataPayload{Bytes: dp.Bytes[k:]}}
					if r.Bool() {
						m.FRMPayload = append(m.FRMPayload, &lorawan.DataPayload{})
					}
				}
			}
			if len(m.FHDR.FOpts) == 0 {
				m.FHDR.FOpts = make([]lorawan.Payload, 0, r.Intn(4))
			}
			// elements of a type the library does not define (lorawan.Payload is an open interface)
			for k, e := range m.FRMPayload {
				if dp, ok := e.(*lorawan.DataPayload); ok && r.Bool() {
					m.FRMPayload[k] = &framefmt.Opaque{B: dp.Bytes}
				}
			}
			for k, e := range m.FHDR.FOpts {
				if dp, ok := e.(*lorawan.DataPayload); ok && r.Bool() {
					m.FHDR.FOpts[k] = &framefmt.Opaque{B: dp.Bytes}
				}
			}
			if len(m.FRMPayload) == 0 && r.Bool() {
				m.FRMPayload = []lorawan.Payload{}
			}
			roundTrip(s, p, "data-valid-other-shape")
			if r.Intn(3) == 0 { // FPort 0, no FOpts: a data element first, then commands (a new frame: p is remembered)
				o := framefmt.ValidDataOpt(r)
				o.Port, o.FOptsBytes, o.FRMLen, o.FRMAsMAC = 0, 0, 0, false
				p2 := framefmt.DataFrame(r, o)
				m2 := p2.MACPayload.(*lorawan.MACPayload)
				up := p2.MHDR.MType == lorawan.UnconfirmedDataUp || p2.MHDR.MType == lorawan.ConfirmedDataUp
				m2.FRMPayload = append([]lorawan.Payload{&lorawan.DataPayload{Bytes: r.Bytes(1 + r.Intn(4))}}, framefmt.ValidCmds(r, up, 1+r.Intn(10))...)
				roundTrip(s, p2, "data-port0-data-then-commands")
			}
		}
		if i%4 == 0 {
			k := (i / 4) % 5
			roundTrip(s, framefmt.JoinFrame(r, k), fmt.Sprintf("join-kind%d", k))
			ja := framefmt.JoinFrame(r, 1).MACPayload.(*lorawan.JoinAcceptPayload)
			joinAccept(s, ja, "join-accept-payload")
			p := lorawan.PHYPayload{MHDR: lorawan.MHDR{MType: lorawan.Proprietary, Major: lorawan.Major(r.Intn(4))}, MACPayload: &lorawan.DataPayload{Bytes: r.Bytes(r.Intn(60))}}
			if i%8 == 0 { // a vendor-defined payload type (lorawan.Payload is an open interface)
				p.MACPayload = &framefmt.Opaque{B: r.Bytes(1 + r.Intn(60))}
			}
			copy(p.MIC[:], r.Bytes(4))
			roundTrip(s, p, "proprietary")
		}
		if i%5 == 0 { // a decoded frame edited by the application and sent on: stale internal FOptsLen
			o := framefmt.ValidDataOpt(r)
			o.FOptsBytes = 1 + r.Intn(15)
			if o.Port == 0 {
				o.Port = 1 + r.Intn(200)
			}
			if b, err := framefmt.DataFrame(r, o).MarshalBinary(); err == nil {
				var q lorawan.PHYPayload
				if q.UnmarshalBinary(b) == nil {
					m, isData := q.MACPayload.(*lorawan.MACPayload)
					if !isData { // the round-trip case of this frame (below) reports it
						roundTrip(s, framefmt.DataFrame(r, o), "data-valid")
						continue
					}
					old := framefmt.DecodedFOptsLen(b)
					switch r.Intn(3) {
					case 0:
						m.FHDR.FOpts = nil
					case 1:
						m.FHDR.FOpts = []lorawan.Payload{&lorawan.DataPayload{Bytes: r.Bytes(1 + r.Intn(15))}}
					default:
						m.FHDR.FOpts = framefmt.ValidCmds(r, o.MType == lorawan.UnconfirmedDataUp || o.MType == lorawan.ConfirmedDataUp, 1+r.Intn(15))
					}
					roundTripL(s, q, "data-edited-after-decode", old)
				}
			}
		}
		if i%6 == 0 { // proprietary frames whose base64 text consists of hex digits only
			hexd := "0123456789abcdefABCDEF"
			n := 4 * (2 + r.Intn(6))
			txt := []byte("4A")
			for len(txt) < n {
				txt = append(txt, hexd[r.Intn(len(hexd))])
			}
			if b, err := base64.StdEncoding.DecodeString(string(txt)); err == nil && len(b) >= 5 {
				var q lorawan.PHYPayload
				if q.UnmarshalBinary(b) == nil {
					roundTrip(s, q, "proprietary-hexlike-text")
				}
			}
		}
		if i%3 == 0 { // malformed stream
			o := framefmt.ValidDataOpt(r)
			switch r.Intn(7) {
			case 0:
				o.FOptsBytes, o.FOptsRaw = 16+r.Intn(285), true
			case 1:
				o.Port = -1
				o.FRMLen = 1 + r.Intn(20)
			case 2:
				o.Port, o.FRMAsMAC, o.FRMLen = 1+r.Intn(255), true, 10
			case 3:
				o.Port, o.FOptsBytes = 0, 1+r.Intn(15)
			case 4:
				o.FOptsBytes, o.FOptsRaw = 256, true
			}
			p := framefmt.DataFrame(r, o)
			if i%2 == 0 { // one out-of-range MAC command among valid ones, in FOpts or in a port-0 FRMPayload, not last
				o2 := framefmt.Opt{MType: o.MType, Port: -1, FOptsBytes: 15}
				if r.Bool() {
					o2 = framefmt.Opt{MType: o.MType, Port: 0, FRMAsMAC: true, FRMLen: 10 + r.Intn(40)}
				}
				p = framefmt.DataFrame(r, o2)
				m := p.MACPayload.(*lorawan.MACPayload)
				list := &m.FHDR.FOpts
				if o2.Port == 0 {
					list = &m.FRMPayload
				}
				if len(*list) >= 2 {
					up := o.MType == lorawan.UnconfirmedDataUp || o.MType == lorawan.ConfirmedDataUp
					for tries := 0; tries < 50; tries++ {
						b := macfmt.Builtin[r.Intn(len(macfmt.Builtin))]
						if b.Up != up {
							continue
						}
						pl := macfmt.Random(r, macfmt.KindIndex(b.Kind), false)
						if _, err := pl.MarshalBinary(); err != nil {
							(*list)[r.Intn(len(*list)-1)] = &lorawan.MACCommand{CID: b.CID, Payload: pl}
							break
						}
					}
				}
				roundTrip(s, p, "data-invalid-command-not-last")
				p = framefmt.DataFrame(r, o)
			}
			switch r.Intn(6) {
			case 0:
				p.MHDR.MType = lorawan.MType(r.Intn(8))
			case 1:
				p.MACPayload = nil
			case 2:
				p.MHDR.Major = lorawan.Major(r.Intn(256))
			}
			roundTrip(s, p, "data-malformed")
			j := framefmt.JoinFrame(r, r.Intn(5))
			switch v := j.MACPayload.(type) {
			case *lorawan.JoinAcceptPayload:
				switch r.Intn(4) {
				case 0:
					v.JoinNonce = lorawan.JoinNonce(1<<24 + r.Intn(1000))
				case 1:
					v.RXDelay = uint8(16 + r.Intn(200))
				case 2:
					v.CFList = &lorawan.CFList{}
				case 3:
					v.DLSettings.RX1DROffset = 8
				}
				joinAccept(s, v, "join-accept-malformed")
			case *lorawan.RejoinRequestType02Payload:
				v.RejoinType = lorawan.JoinType(r.Intn(4))
			case *lorawan.RejoinRequestType1Payload:
				v.RejoinType = lorawan.JoinType(r.Intn(3))
			}
			if r.Intn(3) == 0 {
				j.MHDR.MType = lorawan.MType(r.Intn(8))
			}
			roundTrip(s, j, "join-malformed")
		}
	}
	s.ReplayRemembered(nr.Intn, 3, func() { noise.Step(nr) })
	s.ReplayConcurrently(8, 2, 60*time.Second)
	if err := s.Finish(); err != nil {
		fmt.Fprintln(os.Stderr, err)
		os.Exit(2)
	}
}
