(* Diagnosis for C13: which cells of the dumped tables fail which table
   obligation of Band/TablesProofs.v.  Run by the driver on every check; every
   item of a non-empty DIAG_<tag> list becomes the failing key "<tag>:<item>".
   Depends on model, spec and generated tables only (not on the proofs). *)
From Coq Require Import List ZArith Bool String.
From LW Require Import Base.Outcome Band.Types Band.Lookup Band.Regional Band.Rx1Spec Band.TablesSpec
     Band.Rx1Checks Band.TablesChecks.
From LWGen Require Import BandGen KnownGen.
Import ListNotations.
Open Scope Z_scope.
Set Printing Width 200.

Definition id_of (c : band_cfg) := (c_name c, c_rep c, c_dwell c).
Definition with_reg (c : band_cfg) (f : region -> bool) : bool :=
  match region_of (c_name c) with Some reg => f reg | None => false end.

(* every (version key, revision key, size table) of a configuration *)
Definition keyed_size_tables (t : tables) : list (string * string * size_table) :=
  flat_map (fun v => map (fun r => (fst v, fst r, snd r)) (snd v)) (t_maxpl t).

(* (name, repeater, dwell, version key, revision key, DR, M, N) *)
Definition DIAG_listed_size := Eval vm_compute in
  flat_map (fun c => flat_map (fun k =>
    map (fun e => (id_of c, fst (fst k), snd (fst k), fst e, fst (snd e), snd (snd e)))
        (filter (fun e => negb (size_cell_check c e)) (snd k))) (keyed_size_tables (c_tab c))) band_configs.
Print DIAG_listed_size.

Definition DIAG_sf_monotone := Eval vm_compute in
  flat_map (fun c => flat_map (fun k =>
    map (fun e => (id_of c, fst (fst k), snd (fst k), fst e, fst (snd e), snd (snd e)))
        (filter (fun e => negb (sf_monotone_cell (t_drs (c_tab c)) (snd k) (fst e) (snd e))) (snd k)))
    (keyed_size_tables (c_tab c))) band_configs.
Print DIAG_sf_monotone.

(* (name, repeater, dwell, DR) *)
Definition DIAG_latest_total := Eval vm_compute in
  flat_map (fun c => map (fun e => (id_of c, fst e))
    (filter (fun e => negb (is_ok (get_max_payload (c_tab c) latest latest (fst e)))) (t_drs (c_tab c))))
    band_configs.
Print DIAG_latest_total.

(* (name, repeater, dwell, version key or latest, revision key or latest, DR): a data-rate the
   region lists since its first release without a size under that combination *)
Definition DIAG_every_revision_total := Eval vm_compute in
  flat_map (fun c => let t := c_tab c in
    flat_map (fun v => flat_map (fun r =>
      map (fun e => (id_of c, v, r, fst e))
          (filter (fun e => negb (with_reg c (fun reg => every_rev_cell_check reg t v r (fst e)))) (t_drs t)))
      (nodup string_dec (latest :: rev_keys t))) (latest :: skeys (t_maxpl t))) band_configs.
Print DIAG_every_revision_total.

(* (deprecated name, repeater, dwell): GetConfig does not return the configuration of the common name *)
Definition DIAG_deprecated_name := Eval vm_compute in
  (map id_of (filter (fun ac => negb (alias_cfg_check ac)) band_alias_configs)
   ++ flat_map (fun p => flat_map (fun rep => flat_map (fun dw =>
        if alias_cover_cell (fst p) rep dw then [] else [(fst p, rep, dw)]) [false; true]) [false; true]) deprecated_names)%list.
Print DIAG_deprecated_name.

(* (name, repeater, dwell, key): a first-level key that is no protocol version / a second-level key
   that is no regional-parameters revision *)
Definition DIAG_version_keys := Eval vm_compute in
  flat_map (fun c =>
    (map (fun v => (id_of c, v)) (filter (fun v => negb (str_mem v (latest :: protocol_versions))) (skeys (t_maxpl (c_tab c))))
     ++ map (fun r => (id_of c, r)) (filter (fun r => negb (str_mem r (latest :: reg_param_revisions))) (rev_keys (c_tab c))))%list)
    band_configs.
Print DIAG_version_keys.

(* (name, dwell, version, revision, DR) of the repeater configuration *)
Definition DIAG_repeater_le_non_repeater := Eval vm_compute in
  flat_map (fun cr => flat_map (fun cn =>
    if is_rep_pair cr cn then
      let tr := c_tab cr in let tn := c_tab cn in
      flat_map (fun v =>
        flat_map (fun r =>
          match select_size_table tr v r with
          | None => []
          | Some st =>
            map (fun e => (c_name cr, c_dwell cr, v, r, fst e))
                (filter (fun e => negb match get_max_payload tn v r (fst e) with
                                       | Ok s' => size_le (snd e) s'
                                       | _ => false
                                       end) st)
          end) (latest :: pair_KR tr tn)) (latest :: pair_KV tr tn)
    else []) band_configs) band_configs.
Print DIAG_repeater_le_non_repeater.

(* (name, repeater, dwell, channel index) *)
Definition indexed {A} (l : list A) : list (Z * A) := combine (zrange 0 (zlen l - 1)) l.

Definition DIAG_closure_uplink_channel := Eval vm_compute in
  flat_map (fun c => let t := c_tab c in map (fun p => (id_of c, fst p))
    (filter (fun p => negb (uplink_channel_closed t (ch_min (snd p)) (ch_max (snd p)))) (indexed (t_up t))))
    band_configs.
Print DIAG_closure_uplink_channel.
Definition DIAG_closure_downlink_channel := Eval vm_compute in
  flat_map (fun c => let t := c_tab c in map (fun p => (id_of c, fst p))
    (filter (fun p => negb (downlink_channel_closed t (ch_min (snd p)) (ch_max (snd p)))) (indexed (t_down t))))
    band_configs.
Print DIAG_closure_downlink_channel.
(* (name, repeater, dwell, DR) *)
Definition DIAG_closure_enabled_uplink_dr := Eval vm_compute in
  flat_map (fun c => let t := c_tab c in map (fun d => (id_of c, d))
    (filter (fun d => negb (dr_defined_up t d)) (get_enabled_uplink_data_rates t))) band_configs.
Print DIAG_closure_enabled_uplink_dr.
(* (name, repeater, dwell) *)
Definition DIAG_closure_cflist_range := Eval vm_compute in
  map id_of (filter (fun c => negb (cflist_closed (c_tab c))) band_configs).
Print DIAG_closure_cflist_range.

(* (name, repeater, dwell, DR) *)
Definition DIAG_dr_roundtrip := Eval vm_compute in
  flat_map (fun c => let t := c_tab c in map (fun e => (id_of c, fst e))
    (filter (fun e => negb (dr_roundtrip_ok (fst e) (snd e) (get_data_rate_index t true (snd e))
                                            (get_data_rate_index t false (snd e)))) (t_drs t))) band_configs.
Print DIAG_dr_roundtrip.
(* (name, repeater, dwell, DR, DR) two data-rates of one direction with equal parameters *)
Definition DIAG_dr_params_not_distinct := Eval vm_compute in
  flat_map (fun c => let drs := t_drs (c_tab c) in
    flat_map (fun a => map (fun b => (id_of c, fst a, fst b))
      (filter (fun b => negb ((fst a =? fst b)
         || negb (data_rate_params_eqb (snd a) (snd b)
                  && ((dr_up (snd a) && dr_up (snd b)) || (dr_down (snd a) && dr_down (snd b)))))) drs)) drs)
    band_configs.
Print DIAG_dr_params_not_distinct.

(* Regional Parameters: (name, repeater, dwell) whose data-rate definitions / default
   uplink channels / default downlink channels differ; (name, repeater, dwell, index) for TX power *)
Definition DIAG_regional_data_rates := Eval vm_compute in
  map id_of (filter (fun c => negb (with_reg c (fun reg => data_rates_ok (spec_data_rates reg) (t_drs (c_tab c)))))
                    band_configs).
Print DIAG_regional_data_rates.
Definition DIAG_regional_uplink_channels := Eval vm_compute in
  map id_of (filter (fun c => negb (with_reg c (fun reg =>
    default_channels_ok (spec_uplink_channels reg) (t_up (c_tab c))))) band_configs).
Print DIAG_regional_uplink_channels.
Definition DIAG_regional_downlink_channels := Eval vm_compute in
  map id_of (filter (fun c => negb (with_reg c (fun reg =>
    default_channels_ok (spec_downlink_channels reg) (t_down (c_tab c))))) band_configs).
Print DIAG_regional_downlink_channels.
Definition DIAG_regional_tx_power_step := Eval vm_compute in
  flat_map (fun c => map (fun p => (id_of c, fst p))
    (filter (fun p => negb (tx_power_ok (fst p) (snd p))) (indexed (t_txpow (c_tab c))))) band_configs.
Print DIAG_regional_tx_power_step.

(* (name, repeater, dwell, version, revision, DR) whose size differs from the transcribed value *)
Definition DIAG_regional_max_payload_value := Eval vm_compute in
  flat_map (fun c => map (fun q => (id_of c, fst (fst q), snd (fst q), snd q))
    (filter (fun q => negb (with_reg c (fun reg =>
       max_payload_value_ok reg (c_rep c) (fst (fst q)) (snd (fst q)) (snd q)
         (get_max_payload (c_tab c) (fst (fst q)) (snd (fst q)) (snd q))))) value_domain)) band_configs.
Print DIAG_regional_max_payload_value.

(* closure of RX1 results and RX2 default, as in C12 *)
Definition DIAG_closure_rx1_result := Eval vm_compute in
  flat_map (fun c => map (fun p => (id_of c, fst p, snd p))
                         (filter (fun p => negb (defined_check c (fst p) (snd p))) (rx1_domain c))) band_configs.
Print DIAG_closure_rx1_result.
Definition DIAG_closure_rx2_default := Eval vm_compute in
  map id_of (filter (fun c => negb (with_reg c (fun reg =>
    defaults_eqb (get_defaults c) (c_defaults c) && rx2_ok reg (c_tab c) (get_defaults c)))) band_configs).
Print DIAG_closure_rx2_default.

(* recorded cells that no longer reproduce (a _refuted theorem fails) *)
Definition DIAG_known_zero_cell_not_reproduced := Eval vm_compute in
  filter (fun x => negb (zero_refuted_check x)) c13_known_zero_cells.
Print DIAG_known_zero_cell_not_reproduced.
Definition DIAG_known_rx1_cell_not_reproduced := Eval vm_compute in
  filter (fun x => negb (refuted_check x)) c12_known_cells.
Print DIAG_known_rx1_cell_not_reproduced.

(* informational, NOT a failing key (no DIAG_ prefix): size-table rows keyed by an index that is no
   data-rate of the band - (name, repeater, dwell, version key, revision key, DR).  Second audit,
   C13 item 1: IN865 lists a size for the RFU index 6 in all its tables; considered, not claimed
   (the clause enumerates channel ranges, RX1 results, RX2 default and enabled uplink data-rates,
   not the key set of the payload tables; see notes/C13.md) *)
Definition INFO_size_rows_for_undefined_dr := Eval vm_compute in
  flat_map (fun c => flat_map (fun k =>
    map (fun e => (id_of c, fst (fst k), snd (fst k), fst e))
        (filter (fun e => negb (dr_defined (c_tab c) (fst e))) (snd k))) (keyed_size_tables (c_tab c))) band_configs.
Print INFO_size_rows_for_undefined_dr.
