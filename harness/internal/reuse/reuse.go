// Package reuse decodes every frame a harness handles a second time, into a receiver that lives
// through the whole run and that the "application" keeps working with between frames (MAC-command
// decoding, decryption with some key). A decoder's result must not depend on what its receiver held
// before: UnmarshalBinary documents none of that.
package reuse

import (
	"bytes"
	"fmt"

	"github.com/brocaar/lorawan"
	"verifharness/internal/cases"
	"verifharness/internal/cq"
	"verifharness/internal/framefmt"
)

type Receiver struct {
	phy    lorawan.PHYPayload
	prev   string
	prevOK bool
	prevN  int
	N      int
}

// CheckIsolation is called right after q was decoded from the private copy `in` of `wire`: the decoder
// must not have written to its input, and the decoded value must not change when the caller goes on
// to reuse the buffer (every byte of `in` is inverted here; a pointer or slice of q that still refers to
// the buffer shows as a changed frame).
func CheckIsolation(s *cases.Set, wire, in []byte, q *lorawan.PHYPayload) {
	defer func() { _ = recover() }()
	if !bytes.Equal(wire, in) {
		s.Fail(cases.GoFail{Key: fmt.Sprintf("decoder-writes-input:%x", wire), What: fmt.Sprintf("PHYPayload.UnmarshalBinary changed its input buffer to %x", in),
			Replay: map[string]interface{}{"bytes": fmt.Sprintf("%x", wire), "buffer_after": fmt.Sprintf("%x", in)}})
		copy(in, wire)
	}
	n := framefmt.DecodedFOptsLen(wire)
	before := framefmt.Phy(*q, n)
	for i := range in {
		in[i] ^= 0xff
	}
	after := framefmt.Phy(*q, n)
	if before != after {
		s.Fail(cases.GoFail{Key: fmt.Sprintf("decoded-frame-aliases-input:%x", wire), What: "the decoded frame changes when the caller overwrites the buffer it was decoded from",
			Replay: map[string]interface{}{"bytes": fmt.Sprintf("%x", wire), "frame_before": clip(before), "frame_after_buffer_overwritten": clip(after)}})
	}
}

// Fresh decodes b into a new PHYPayload and returns the outcome in the format the Corr modules use.
func Fresh(b []byte) (q lorawan.PHYPayload, out string) {
	defer func() {
		if r := recover(); r != nil {
			out = cq.Panic
		}
	}()
	in := append([]byte{}, b...)
	if err := q.UnmarshalBinary(in); err != nil {
		return q, cq.Err
	}
	return q, cq.Ok(framefmt.Phy(q, framefmt.DecodedFOptsLen(b)))
}

// Decode decodes b into the long-lived receiver and reports a Go-side failure when the outcome is not
// `fresh` (the outcome of decoding b into a new value, as Fresh formats it).
func (rc *Receiver) Decode(s *cases.Set, r *cq.RNG, b []byte, fresh string) {
	rc.N++
	got := cq.Err
	// what the caller may have kept of the previous frame: a shallow copy of the receiver (`frames = append(frames, rx)`)
	kept := rc.phy
	keptN := rc.prevN
	keptText := ""
	if rc.prevOK {
		keptText = framefmt.Phy(kept, keptN)
	}
	cases.Begin(fmt.Sprintf("decode-into-used-receiver:%x", b), map[string]interface{}{"bytes": fmt.Sprintf("%x", b), "receiver_held_before": rc.prev})
	defer cases.End()
	func() {
		defer func() {
			if r := recover(); r != nil {
				got = cq.Panic
			}
		}()
		if err := rc.phy.UnmarshalBinary(append([]byte{}, b...)); err == nil {
			got = cq.Ok(framefmt.Phy(rc.phy, framefmt.DecodedFOptsLen(b)))
		}
	}()
	if rc.prevOK {
		func() {
			defer func() { _ = recover() }()
			if after := framefmt.Phy(kept, keptN); after != keptText {
				s.Fail(cases.GoFail{Key: fmt.Sprintf("kept-frame-changed:%x", b),
					What:   "a copy of the previously decoded frame, kept by the caller, changed when the next frame was decoded into the same receiver",
					Replay: map[string]interface{}{"receiver_held_before": rc.prev, "then_decoded": fmt.Sprintf("%x", b), "kept_before": clip(keptText), "kept_after": clip(after)}})
			}
		}()
	}
	rc.prevOK = got != cq.Err && got != cq.Panic
	rc.prevN = framefmt.DecodedFOptsLen(b)
	if got != fresh {
		s.Fail(cases.GoFail{Key: fmt.Sprintf("reused-receiver:%x", b),
			What:   "decoding into a PHYPayload that held another frame gives a different outcome than decoding into a new one",
			Replay: map[string]interface{}{"bytes": fmt.Sprintf("%x", b), "into_new_value": clip(fresh), "into_used_value": clip(got), "receiver_held_before": rc.prev}})
	}
	rc.prev = fmt.Sprintf("%x", b)
	// what an application does with a received frame before the next one arrives (join-accepts are
	// decrypted: the payload changes its Go type under the same MType)
	func() {
		defer func() { _ = recover() }()
		if rc.phy.MHDR.MType == lorawan.JoinAccept && r.Bool() {
			var k lorawan.AES128Key
			copy(k[:], r.Bytes(16))
			_ = rc.phy.DecryptJoinAcceptPayload(k)
			rc.prev += " then DecryptJoinAcceptPayload"
			return
		}
		if m, ok := rc.phy.MACPayload.(*lorawan.MACPayload); ok && r.Bool() {
			// the receiving side restores the full 32-bit counter, as the Validate*DataMIC documentation asks
			m.FHDR.FCnt |= uint32(1+r.Intn(0xffff)) << 16
			rc.prev += " then FCnt set to its full 32-bit value"
		}
		switch r.Intn(4) {
		case 0:
			_ = rc.phy.DecodeFOptsToMACCommands()
			_ = rc.phy.DecodeFRMPayloadToMACCommands()
			rc.prev += " then DecodeFOptsToMACCommands, DecodeFRMPayloadToMACCommands"
		case 1:
			var k lorawan.AES128Key
			copy(k[:], r.Bytes(16))
			_ = rc.phy.DecryptFRMPayload(k)
			rc.prev += " then DecryptFRMPayload"
		case 2:
			var k lorawan.AES128Key
			copy(k[:], r.Bytes(16))
			_ = rc.phy.DecryptFOpts(k)
			rc.prev += " then DecryptFOpts"
		}
	}()
}

func clip(x string) string {
	if len(x) > 300 {
		return x[:300] + "…"
	}
	return x
}
