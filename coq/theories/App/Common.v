(* Shared pieces of the application-layer package models (the applayer packages):
   byte access that panics exactly when Go does, little-endian readers,
   uint8 arithmetic, lorawan.DevAddr binary form, and the Command / Commands
   code, which is textually identical in the four packages
   (type CommandPayload ... Commands.UnmarshalBinary in clocksync.go, multicastsetup.go,
   fragmentation.go, firmwaremanagement.go: the md5 of the package-name-normalised text
   agreed at the snapshot; since fix e758b58 firmwaremanagement's Commands.UnmarshalBinary
   hands a shorter window to zero-length commands - the [window] parameter below).

   No proofs in this file. *)
From Coq Require Import List NArith ZArith Bool.
From LW Require Import Base.Outcome Base.Bytes.
Import ListNotations.
Open Scope N_scope.

(* data[i] for a constant or computed index i >= 0 *)
Definition idx (data : list N) (i : nat) : outcome N :=
  match nth_error data i with Some b => Ok b | None => Panic end.

(* data[a:b], 0 <= a <= b; panics when b > len(data) *)
Definition sub (data : list N) (a b : nat) : outcome (list N) :=
  if (b <=? length data)%nat then Ok (firstn (b - a) (skipn a data)) else Panic.

(* binary.LittleEndian.UintXX(data[a:a+k]) *)
Definition rd_le (data : list N) (a k : nat) : outcome N :=
  do s <- sub data a (a + k); Ok (le_val s).

(* uint8 arithmetic *)
Definition shl8 (x s : N) : N := (N.shiftl x s) mod 256.
Definition b2n (b : bool) : N := if b then 1 else 0.
Definition nz (x : N) : bool := negb (x =? 0).

(* [4]bool group masks: for i, mask := range m { if mask { b |= 1 << uint8(i) } } *)
Fixpoint mask_bits (i : N) (ms : list bool) (acc : N) : N :=
  match ms with
  | [] => acc
  | m :: ms' => mask_bits (i + 1) ms' (if m then N.lor acc (shl8 1 i) else acc)
  end.
(* m[i] = b & (1 << uint8(i)) != 0, i = 0..3 *)
Definition unmask4 (b : N) : list bool :=
  map (fun i => nz (N.land b (shl8 1 i))) [0; 1; 2; 3].
Fixpoint count_true (ms : list bool) : nat :=
  match ms with [] => O | m :: ms' => ((if m then 1 else 0) + count_true ms')%nat end.

(* lorawan.DevAddr ([4]byte, printed big-endian): MarshalBinary reverses
   (fhdr.go:133-140); UnmarshalBinary wants exactly len(a) bytes (fhdr.go:143-152) *)
Definition devaddr_marshal (a : list N) : list N := rev a.
Definition devaddr_unmarshal (data : list N) : outcome (list N) :=
  if Nat.eqb (length data) 4 then Ok (rev data) else Err.

(* int32 <-> uint32 *)
Definition u32_of_i32 (z : Z) : N := Z.to_N (z mod 2 ^ 32).
Definition i32_of_u32 (u : N) : Z :=
  if u <? 2 ^ 31 then Z.of_N u else (Z.of_N u - 2 ^ 32)%Z.

Section Stream.
  Variable payload : Type.
  (* Payload.MarshalBinary, Payload.Size *)
  Variable enc : payload -> outcome (list N).
  Variable psize : payload -> nat.
  (* GetCommandPayload(uplink, cid) followed by UnmarshalBinary on the fresh value *)
  Variable lookup : bool -> N -> option (list N -> outcome payload).
  (* the bytes Commands.UnmarshalBinary hands to Command.UnmarshalBinary
     for the command starting at the head of [data] (data[i:] in three of
     the packages) *)
  Variable window : bool -> list N -> list N.

  (* Command{CID, Payload}; Payload may be nil *)
  Definition command := (N * option payload)%type.

  (* Command.MarshalBinary *)
  Definition cmd_enc (c : command) : outcome (list N) :=
    match snd c with
    | None => Ok [fst c]
    | Some p => do bs <- enc p; Ok (fst c :: bs)
    end.

  (* Command.Size *)
  Definition cmd_size (c : command) : nat :=
    match snd c with
    | None => 1%nat
    | Some p => (psize p + 1)%nat
    end.

  (* Command.UnmarshalBinary(uplink, data) *)
  Definition cmd_dec (uplink : bool) (data : list N) : outcome command :=
    match data with
    | [] => Err
    | cid :: rest =>
      match lookup uplink cid with
      | None => Ok (cid, None)
      | Some d => do p <- d rest; Ok (cid, Some p)
      end
    end.

  (* Commands.MarshalBinary *)
  Fixpoint cmds_enc (cs : list command) : outcome (list N) :=
    match cs with
    | [] => Ok []
    | c :: cs' => do b <- cmd_enc c; do r <- cmds_enc cs'; Ok (b ++ r)
    end.

  (* Commands.UnmarshalBinary: for i < len(data) { decode data[i:]; i += cmd.Size() } *)
  Fixpoint cmds_dec_loop (fuel : nat) (uplink : bool) (data : list N) : outcome (list command) :=
    match data with
    | [] => Ok []
    | _ :: _ =>
      match fuel with
      | O => OutOfFuel
      | S fuel' =>
        do c <- cmd_dec uplink (window uplink data);
        do r <- cmds_dec_loop fuel' uplink (skipn (cmd_size c) data);
        Ok (c :: r)
      end
    end.

  Definition cmds_dec (uplink : bool) (data : list N) : outcome (list command) :=
    cmds_dec_loop (S (length data)) uplink data.
End Stream.

Arguments command : clear implicits.
Arguments cmd_enc {payload}.
Arguments cmd_size {payload}.
Arguments cmd_dec {payload}.
Arguments cmds_enc {payload}.
Arguments cmds_dec_loop {payload}.
Arguments cmds_dec {payload}.

Definition whole (uplink : bool) (data : list N) : list N := data.
