// c10race: stress program run under the Go race detector by the C10 harness
// (thorough tier).  args: <seed> <goroutines> <iterations>.
// N goroutines each work on their OWN values (decode, MIC, encrypt, validate)
// while all of them register proprietary MAC commands and look payloads up in
// the shared registry, with randomized yields.  Exit code 66 / "DATA RACE" on a race.
package main

import (
	"fmt"
	"io"
	"log"
	"os"
	"runtime"
	"strconv"
	"sync"

	"github.com/brocaar/lorawan"
	"github.com/brocaar/lorawan/band"
	"verifharness/internal/cq"
	"verifharness/internal/framefmt"
)

func main() {
	log.SetOutput(io.Discard)
	seed, _ := strconv.ParseUint(os.Args[1], 10, 64)
	n, _ := strconv.Atoi(os.Args[2])
	iters, _ := strconv.Atoi(os.Args[3])
	root := cq.NewRNG(seed)
	var wg sync.WaitGroup
	var mu sync.Mutex
	ops := map[string]int{}
	// two proprietary commands every goroutine decodes concurrently (registered before any goroutine starts;
	// the random registrations below stay within 128..191)
	lorawan.RegisterProprietaryMACCommand(true, 200, 2)
	lorawan.RegisterProprietaryMACCommand(false, 201, 3)
	var mismatches int32
	mismatch := func(what string) {
		mu.Lock()
		mismatches++
		if mismatches <= 5 {
			fmt.Println("VALUE MISMATCH:", what)
		}
		mu.Unlock()
	}
	for g := 0; g < n; g++ {
		r := root.Fork()
		wg.Add(1)
		go func(g int) {
			defer wg.Done()
			local := map[string]int{}
			b, _ := band.GetConfig(band.EU868, false, lorawan.DwellTimeNoLimit)
			for i := 0; i < iters; i++ {
				if r.Intn(3) == 0 {
					runtime.Gosched()
				}
				switch r.Intn(9) {
				case 0: // registration (write under Lock)
					lorawan.RegisterProprietaryMACCommand(r.Bool(), lorawan.CID(128+r.Intn(64)), 1+r.Intn(4))
					local["register"]++
				case 1: // lookup (read under RLock)
					lorawan.GetMACPayloadAndSize(r.Bool(), lorawan.CID(r.Intn(256)))
					local["lookup"]++
				case 2: // encode + decode of an own frame
					p := framefmt.DataFrame(r, framefmt.ValidDataOpt(r))
					if bs, err := p.MarshalBinary(); err == nil {
						var q lorawan.PHYPayload
						q.UnmarshalBinary(bs)
					}
					local["codec"]++
				case 3: // MIC set + validate
					p := framefmt.DataFrame(r, framefmt.ValidDataOpt(r))
					var k lorawan.AES128Key
					copy(k[:], r.Bytes(16))
					if p.MHDR.MType == lorawan.UnconfirmedDataUp || p.MHDR.MType == lorawan.ConfirmedDataUp {
						p.SetUplinkDataMIC(lorawan.LoRaWAN1_1, 0, 1, 2, k, k)
						p.ValidateUplinkDataMIC(lorawan.LoRaWAN1_1, 0, 1, 2, k, k)
					} else {
						p.SetDownlinkDataMIC(lorawan.LoRaWAN1_1, 0, k)
						p.ValidateDownlinkDataMIC(lorawan.LoRaWAN1_1, 0, k)
					}
					local["mic"]++
				case 4: // encrypt, then decrypt + decode MAC commands (reads the registry)
					o := framefmt.ValidDataOpt(r)
					p := framefmt.DataFrame(r, o)
					var k lorawan.AES128Key
					copy(k[:], r.Bytes(16))
					if p.EncryptFRMPayload(k) == nil {
						p.DecryptFRMPayload(k)
					}
					p.EncryptFOpts(k)
					p.DecryptFOpts(k)
					local["crypt"]++
				case 7: // decode proprietary commands of ONE (direction, CID) that all goroutines use; the values stay ours
					wire := append([]byte{200}, r.Bytes(2)...)
					up := true
					if r.Bool() {
						wire, up = append([]byte{201}, r.Bytes(3)...), false
					}
					var c1, c2 lorawan.MACCommand
					c1.UnmarshalBinary(up, wire)
					runtime.Gosched()
					w2 := append([]byte{wire[0]}, r.Bytes(len(wire)-1)...)
					c2.UnmarshalBinary(up, w2)
					runtime.Gosched()
					for _, x := range []struct {
						c *lorawan.MACCommand
						w []byte
					}{{&c1, wire}, {&c2, w2}} {
						if pp, ok := x.c.Payload.(*lorawan.ProprietaryMACCommandPayload); !ok || string(pp.Bytes) != string(x.w[1:]) {
							mismatch(fmt.Sprintf("decoded proprietary command %x shows %+v", x.w, x.c.Payload))
						}
					}
					local["proprietary"]++
				case 8: // a frame keeps its encrypted FOpts while other goroutines encrypt theirs
					p := framefmt.DataFrame(r, framefmt.Opt{MType: lorawan.UnconfirmedDataUp, Port: 5, FOptsBytes: 1 + r.Intn(15)})
					var k lorawan.AES128Key
					copy(k[:], r.Bytes(16))
					if p.EncryptFOpts(k) == nil {
						b1, e1 := p.MarshalBinary()
						runtime.Gosched()
						b2, e2 := p.MarshalBinary()
						if e1 == nil && (e2 != nil || string(b1) != string(b2)) {
							mismatch(fmt.Sprintf("frame with encrypted FOpts marshals to %x, later to %x", b1, b2))
						}
					}
					local["fopts-kept"]++
				case 5: // join-accept encrypt/decrypt
					p := framefmt.JoinFrame(r, 1)
					var k lorawan.AES128Key
					copy(k[:], r.Bytes(16))
					if p.EncryptJoinAcceptPayload(k) == nil {
						p.DecryptJoinAcceptPayload(k)
					}
					local["join"]++
				default: // own band instance
					b.AddChannel(uint32(867100000+200000*r.Intn(8)), 0, 5)
					b.DisableUplinkChannelIndex(r.Intn(8))
					b.EnableUplinkChannelIndex(r.Intn(8))
					b.GetEnabledUplinkChannelIndices()
					local["band"]++
				}
			}
			mu.Lock()
			for k, v := range local {
				ops[k] += v
			}
			mu.Unlock()
		}(g)
	}
	wg.Wait()
	if mismatches > 0 {
		fmt.Printf("%d value mismatches\n", mismatches)
		os.Exit(3)
	}
	fmt.Printf("goroutines=%d iterations=%d ops=%v", n, iters, ops)
}
