package main

import (
	"crypto/sha256"
	"fmt"

	"github.com/brocaar/lorawan"
	"github.com/brocaar/lorawan/band"
	"verifharness/internal/cases"
	"verifharness/internal/cq"
)

var bandNames = []band.Name{band.AS923, band.AS923_2, band.AS923_3, band.AS923_4, band.AU915, band.CN470,
	band.CN779, band.EU433, band.EU868, band.IN865, band.KR920, band.US915, band.RU864, band.ISM2400}

// bandSnapshot observes a band instance through the public API (every channel,
// every index list, data-rates, CFList, TX power offsets, RX1 mapping) and adds
// a hash of the deep copy of its internal tables taken by the verif hook.
func bandSnapshot(b band.Band) []int64 {
	var out []int64
	add := func(xs ...int) {
		for _, x := range xs {
			out = append(out, int64(x))
		}
	}
	lists := [][]int{b.GetUplinkChannelIndices(), b.GetStandardUplinkChannelIndices(), b.GetCustomUplinkChannelIndices(),
		b.GetEnabledUplinkChannelIndices(), b.GetDisabledUplinkChannelIndices(), b.GetEnabledUplinkDataRates()}
	for _, l := range lists {
		add(len(l))
		add(l...)
	}
	for i := 0; ; i++ {
		c, err := b.GetUplinkChannel(i)
		if err != nil {
			break
		}
		add(int(c.Frequency), c.MinDR, c.MaxDR)
		if rx, err := b.GetRX1ChannelIndexForUplinkChannelIndex(i); err == nil {
			add(rx)
		} else {
			add(-1)
		}
	}
	add(-7)
	for i := 0; ; i++ {
		c, err := b.GetDownlinkChannel(i)
		if err != nil {
			break
		}
		add(int(c.Frequency), c.MinDR, c.MaxDR)
	}
	add(-7)
	for dr := 0; dr < 16; dr++ {
		d, err := b.GetDataRate(dr)
		if err != nil {
			add(-1)
			continue
		}
		add(int(d.SpreadFactor), d.Bandwidth, d.BitRate)
		if m, err := b.GetMaxPayloadSizeForDataRateIndex("", "", dr); err == nil {
			add(m.M, m.N)
		}
	}
	for p := 0; p < 16; p++ {
		if o, err := b.GetTXPowerOffset(p); err == nil {
			add(o)
		} else {
			add(-1)
		}
	}
	for _, ver := range []string{"1.0.2", "1.1.0"} {
		if cf := b.GetCFList(ver); cf != nil {
			if bs, err := cf.MarshalBinary(); err == nil {
				for _, x := range bs {
					add(int(x))
				}
			}
		} else {
			add(-2)
		}
	}
	d := b.GetDefaults()
	add(int(d.RX2Frequency), d.RX2DataRate, int(d.ReceiveDelay1), int(d.JoinAcceptDelay1))
	if snap, ok := band.VerifTakeSnapshot(b); ok {
		sum := sha256.Sum256([]byte(fmt.Sprintf("%+v", snap)))
		for _, x := range sum[:8] {
			add(int(x))
		}
	}
	return out
}

// bands: two instances of one configuration; a random mutation history on the first; the second must not change.
func (h *H) bands(mult int) {
	r := h.r
	idx := 0
	for _, name := range bandNames {
		for _, cfg := range []struct {
			rep bool
			dt  lorawan.DwellTime
		}{{false, lorawan.DwellTimeNoLimit}, {true, lorawan.DwellTime400ms}} {
			for rep := 0; rep < mult; rep++ {
				a, err1 := band.GetConfig(name, cfg.rep, cfg.dt)
				b, err2 := band.GetConfig(name, cfg.rep, cfg.dt)
				if err1 != nil || err2 != nil {
					continue
				}
				snap0 := bandSnapshot(b)
				// what a caller keeps of instance a: the slices and objects the API returned
				keptLists := [][]int{a.GetUplinkChannelIndices(), a.GetStandardUplinkChannelIndices(), a.GetCustomUplinkChannelIndices(),
					a.GetEnabledUplinkChannelIndices(), a.GetDisabledUplinkChannelIndices(), a.GetEnabledUplinkDataRates()}
				keptCF := a.GetCFList("1.0.2")
				keptADR := a.GetLinkADRReqPayloadsForEnabledUplinkChannelIndices(a.GetEnabledUplinkChannelIndices())
				keptText := fmt.Sprintf("%v %s %+v", keptLists, deep(keptCF), keptADR)
				nops := 5 + r.Intn(40)
				var hist []string
				for i := 0; i < nops; i++ {
					n := len(a.GetUplinkChannelIndices())
					func() {
						cases.Begin(fmt.Sprintf("band %s operation %d", name, i), map[string]interface{}{"history": hist})
						defer cases.End()
						defer func() { recover() }()
						op := r.Intn(4)
						if i == 0 && n > 0 { // always start by disabling an existing channel in place
							hist = append(hist, fmt.Sprintf("Disable(%d)=%v", n-1, a.DisableUplinkChannelIndex(n-1) == nil))
							return
						}
						switch op {
						case 0:
							f := uint32(400000000 + 100000*r.Intn(6000))
							if c, err := a.GetUplinkChannel(r.Intn(n + 1)); err == nil && r.Bool() {
								f = c.Frequency + uint32(200000*(1+r.Intn(8)))
							}
							mn, mx := r.Intn(4), 3+r.Intn(4)
							err := a.AddChannel(f, mn, mx)
							hist = append(hist, fmt.Sprintf("AddChannel(%d,%d,%d)=%v", f, mn, mx, err == nil))
						case 1:
							i := r.Intn(n + 2)
							hist = append(hist, fmt.Sprintf("Disable(%d)=%v", i, a.DisableUplinkChannelIndex(i) == nil))
						case 2:
							i := r.Intn(n + 2)
							hist = append(hist, fmt.Sprintf("Enable(%d)=%v", i, a.EnableUplinkChannelIndex(i) == nil))
						default:
							// hand out internal slices / structures and scribble over what the API returned
							for _, l := range [][]int{a.GetUplinkChannelIndices(), a.GetEnabledUplinkChannelIndices(), a.GetEnabledUplinkDataRates()} {
								for j := range l {
									l[j] = -99
								}
							}
							if cf := a.GetCFList("1.0.2"); cf != nil {
								if p, ok := cf.Payload.(*lorawan.CFListChannelPayload); ok {
									p.Channels[0] = 1
								}
							}
							hist = append(hist, "scribble-over-returned-lists")
						}
					}()
				}
				snap1 := bandSnapshot(b)
				if after := fmt.Sprintf("%v %s %+v", keptLists, deep(keptCF), keptADR); after != keptText {
					h.s.Fail(cases.GoFail{Key: fmt.Sprintf("kept-copy-changed:band:%s:rep=%v:dwell=%d:%d", name, cfg.rep, cfg.dt, rep),
						What:   "index lists / CFList / LinkADRReq payloads returned by a band object changed when the band was mutated afterwards: " + clip(keptText) + " then " + clip(after),
						Replay: map[string]interface{}{"band": string(name), "history": hist}})
				}
				h.s.Add(cases.Case{
					Term: fmt.Sprintf("CBand %d %d %s %s", idx, nops, cq.Zs(snap0), cq.Zs(snap1)),
					Key:  fmt.Sprintf("band-instances:%s:rep=%v:dwell=%d:%d", name, cfg.rep, cfg.dt, rep), Kind: "band-instances", Nontrivial: true,
					Replay: map[string]interface{}{"api": "a, b := GetConfig(x), GetConfig(x); history on a; snapshot of b before/after", "band": string(name), "repeater": cfg.rep, "dwell": int(cfg.dt), "history": hist},
				})
			}
			idx++
		}
	}
}
