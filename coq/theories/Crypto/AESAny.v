(* AES with 128-, 192- and 256-bit keys (FIPS-197, Nk = 4, 6, 8) over the round
   functions of AES.v.  Model file: definitions and official vectors only; the
   inverse laws and well-formedness lemmas are in AESAnyProofs.v.

   Key expansion is the word-by-word routine of FIPS-197 section 5.2:
     w[i] = w[i-Nk] xor temp,   temp = w[i-1], except
       i mod Nk = 0            : temp = SubWord(RotWord(w[i-1])) xor Rcon[i/Nk]
       Nk > 6 and i mod Nk = 4 : temp = SubWord(w[i-1])
   for i = Nk .. 4*(Nr+1)-1 with Nr = Nk + 6, i.e. 44 / 52 / 60 words that are
   cut into 11 / 13 / 15 round keys of 16 bytes.  [gen_words] keeps the last Nk
   words in a window (oldest first) and the position i mod Nk as a counter.

   [expand_key_any] dispatches on the length of the key exactly like Go's
   crypto/aes.NewCipher: 16, 24 and 32 bytes are accepted, every other length
   is the error value [None] (aes.KeySizeError).  [aes_encrypt_any] and
   [aes_decrypt_any] are the block operations of the cipher.Block returned by
   NewCipher; the block is normalised to 16 bytes as in AES.v (crypto/aes
   panics on shorter blocks, callers pass 16 bytes). *)
From Coq Require Import List NArith Bool Arith.
From LW Require Import Base.Bytes Crypto.AES.
Import ListNotations.
Open Scope N_scope.

Definition word0 : list N := [0; 0; 0; 0].

(* SubWord(RotWord(w)) xor (rc, 0, 0, 0) *)
Definition rot_sub_rcon (w : list N) (rc : N) : list N :=
  match w with
  | [a; b; c; d] => [N.lxor (sub b) rc; sub c; sub d; sub a]
  | _ => word0
  end.

Definition sub_word (w : list N) : list N := map sub w.

(* [n] consecutive pieces of [sz] elements *)
Fixpoint chunks (sz n : nat) (l : list N) : list (list N) :=
  match n with
  | O => []
  | S n' => firstn sz l :: chunks sz n' (skipn sz l)
  end.

(* the next [fuel] words; [win] = the previous Nk words (oldest first),
   [pos] = i mod Nk, [rcs] = the round constants not yet used *)
Fixpoint gen_words (fuel nk pos : nat) (rcs : list N) (win : list (list N)) : list (list N) :=
  match fuel with
  | O => []
  | S f =>
    let prev := last win word0 in
    let temp :=
      if Nat.eqb pos 0 then rot_sub_rcon prev (hd 0 rcs)
      else if Nat.ltb 6 nk && Nat.eqb pos 4 then sub_word prev
      else prev in
    let rcs' := if Nat.eqb pos 0 then tl rcs else rcs in
    let w := xor_bytes (hd word0 win) temp in
    w :: gen_words f nk (if Nat.eqb (S pos) nk then O else S pos) rcs' (tl win ++ [w])
  end.

(* the Nk + 7 round keys for a key of 4 * Nk bytes *)
Definition expand_nk (nk : nat) (key : list N) : list (list N) :=
  let ws := chunks 4 nk key in
  chunks 16 (nk + 7) (concat (ws ++ gen_words (4 * (nk + 7) - nk) nk 0 rcons ws)).

(* crypto/aes.NewCipher: the expanded key, or the key-size error *)
Definition expand_key_any (key : list N) : option (list (list N)) :=
  let n := length key in
  if Nat.eqb n 16 then Some (expand_nk 4 key)
  else if Nat.eqb n 24 then Some (expand_nk 6 key)
  else if Nat.eqb n 32 then Some (expand_nk 8 key)
  else None.

Definition aes_encrypt_any (key block : list N) : option (list N) :=
  match expand_key_any key with
  | Some rks => Some (aes_encrypt_rk rks block)
  | None => None
  end.

Definition aes_decrypt_any (key block : list N) : option (list N) :=
  match expand_key_any key with
  | Some rks => Some (aes_decrypt_rk rks block)
  | None => None
  end.

(* ---- official vectors ---- *)
Definition seq_bytes (n : nat) : list N := map N.of_nat (seq 0 n).

(* number of round keys *)
Example expand_nk_counts :
  (length (expand_nk 4 (seq_bytes 16)), length (expand_nk 6 (seq_bytes 24)), length (expand_nk 8 (seq_bytes 32)))
  = (11, 13, 15)%nat.
Proof. vm_compute. reflexivity. Qed.

(* FIPS-197 Appendix A.1 (Nk = 4): the generic routine gives the round keys of AES.v *)
Definition a1_key : list N :=
  [0x2b; 0x7e; 0x15; 0x16; 0x28; 0xae; 0xd2; 0xa6; 0xab; 0xf7; 0x15; 0x88; 0x09; 0xcf; 0x4f; 0x3c].
Example fips197_A1_generic : expand_nk 4 a1_key = expand_key a1_key.
Proof. vm_compute. reflexivity. Qed.
Example fips197_A1_last : nth 10 (expand_nk 4 a1_key) []
  = [0xd0; 0x14; 0xf9; 0xa8; 0xc9; 0xee; 0x25; 0x89; 0xe1; 0x3f; 0x0c; 0xc8; 0xb6; 0x63; 0x0c; 0xa6].
Proof. vm_compute. reflexivity. Qed.

(* FIPS-197 Appendix A.2 (Nk = 6): w6..w9 and w48..w51 *)
Definition a2_key : list N :=
  [0x8e; 0x73; 0xb0; 0xf7; 0xda; 0x0e; 0x64; 0x52; 0xc8; 0x10; 0xf3; 0x2b;
   0x80; 0x90; 0x79; 0xe5; 0x62; 0xf8; 0xea; 0xd2; 0x52; 0x2c; 0x6b; 0x7b].
Example fips197_A2_w6_w7 : skipn 8 (nth 1 (expand_nk 6 a2_key) [])
  = [0xfe; 0x0c; 0x91; 0xf7; 0x24; 0x02; 0xf5; 0xa5].
Proof. vm_compute. reflexivity. Qed.
Example fips197_A2_last : nth 12 (expand_nk 6 a2_key) []
  = [0xe9; 0x8b; 0xa0; 0x6f; 0x44; 0x8c; 0x77; 0x3c; 0x8e; 0xcc; 0x72; 0x04; 0x01; 0x00; 0x22; 0x02].
Proof. vm_compute. reflexivity. Qed.

(* FIPS-197 Appendix A.3 (Nk = 8): w8..w11 (first use of Rcon), w12 (the extra SubWord) and w56..w59 *)
Definition a3_key : list N :=
  [0x60; 0x3d; 0xeb; 0x10; 0x15; 0xca; 0x71; 0xbe; 0x2b; 0x73; 0xae; 0xf0; 0x85; 0x7d; 0x77; 0x81;
   0x1f; 0x35; 0x2c; 0x07; 0x3b; 0x61; 0x08; 0xd7; 0x2d; 0x98; 0x10; 0xa3; 0x09; 0x14; 0xdf; 0xf4].
Example fips197_A3_w8_w11 : nth 2 (expand_nk 8 a3_key) []
  = [0x9b; 0xa3; 0x54; 0x11; 0x8e; 0x69; 0x25; 0xaf; 0xa5; 0x1a; 0x8b; 0x5f; 0x20; 0x67; 0xfc; 0xde].
Proof. vm_compute. reflexivity. Qed.
Example fips197_A3_w12 : firstn 4 (nth 3 (expand_nk 8 a3_key) []) = [0xa8; 0xb0; 0x9c; 0x1a].
Proof. vm_compute. reflexivity. Qed.
Example fips197_A3_last : nth 14 (expand_nk 8 a3_key) []
  = [0xfe; 0x48; 0x90; 0xd1; 0xe6; 0x18; 0x8d; 0x0b; 0x04; 0x6d; 0xf3; 0x44; 0x70; 0x6c; 0x63; 0x1e].
Proof. vm_compute. reflexivity. Qed.

(* FIPS-197 Appendix C.1, C.2, C.3: plaintext 00112233445566778899aabbccddeeff under the keys 00 01 02 ... *)
Definition c2_cipher : list N :=
  [0xdd; 0xa9; 0x7c; 0xa4; 0x86; 0x4c; 0xdf; 0xe0; 0x6e; 0xaf; 0x70; 0xa0; 0xec; 0x0d; 0x71; 0x91].
Definition c3_cipher : list N :=
  [0x8e; 0xa2; 0xb7; 0xca; 0x51; 0x67; 0x45; 0xbf; 0xea; 0xfc; 0x49; 0x90; 0x4b; 0x49; 0x60; 0x89].

Example fips197_C1_any : aes_encrypt_any (seq_bytes 16) c1_plain = Some c1_cipher.
Proof. vm_compute. reflexivity. Qed.
Example fips197_C2_enc : aes_encrypt_any (seq_bytes 24) c1_plain = Some c2_cipher.
Proof. vm_compute. reflexivity. Qed.
Example fips197_C2_dec : aes_decrypt_any (seq_bytes 24) c2_cipher = Some c1_plain.
Proof. vm_compute. reflexivity. Qed.
Example fips197_C3_enc : aes_encrypt_any (seq_bytes 32) c1_plain = Some c3_cipher.
Proof. vm_compute. reflexivity. Qed.
Example fips197_C3_dec : aes_decrypt_any (seq_bytes 32) c3_cipher = Some c1_plain.
Proof. vm_compute. reflexivity. Qed.

(* key sizes crypto/aes refuses *)
Example key_size_error :
  map (fun n => aes_encrypt_any (seq_bytes n) c1_plain) [0; 1; 15; 17; 23; 25; 31; 33; 48; 64]%nat
  = repeat None 10.
Proof. vm_compute. reflexivity. Qed.
