(* Correspondence cases for C06 (MAC-command part): model vs implementation,
   and the table-driven specification evaluated on what the implementation did. *)
From Coq Require Import List NArith ZArith Bool.
From LW Require Export Base.Outcome Base.Bytes Mac.Commands Mac.Spec Mac.Stream.
From LWGen Require Import RegistryGen.
Import ListNotations.
Open Scope N_scope.

Inductive case :=
| CEnc (v : macpl) (o : outcome (list N))
| CDec (k : kind) (bs : list N) (o : outcome macpl)
| CReg (up : bool) (cid : N) (o : option (Z * kind)).

Definition oeqb := outcome_eqb bytes_eqb.
Definition peqb := outcome_eqb macpl_eqb.

Definition check (c : case) : N :=
  match c with
  | CEnc v o =>
    code (oeqb (enc v) o)
         (if spec_in_range v
          then oeqb o (Ok (spec_encode (layout_of (kind_of v)) (fields_of v)))
          else true)
  | CDec k bs o =>
    let L := layout_of k in
    code (peqb (dec k bs) o)
         (if Nat.eqb (length bs) (byte_size L)
          then peqb o (Ok (value_of k (spec_decode L bs)))
          else is_err o)
  | CReg up cid o =>
    code (option_eqb (fun a b => (fst a =? fst b)%Z && kind_eqb (snd a) (snd b))
                     (reg_lookup builtin_registry up cid) o)
         (match spec_reg_lookup spec_registry up cid, o with
          | Some k, Some (sz, k') => kind_eqb k k' && (sz =? Z.of_nat (byte_size (layout_of k)))%Z
          | None, None => true
          | _, _ => false
          end)
  end.

Definition run_cases := run_with check.
