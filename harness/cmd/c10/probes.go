package main

// Aliasing probes for EVERY exported decoder entry point of the root package (and the application-layer
// payloads / Command / Commands): encoding.BinaryUnmarshaler says "UnmarshalBinary must copy the data if it
// wishes to retain the data after returning".  Each probe decodes from a private buffer (with spare
// capacity), requires the buffer unchanged by the call, prints the decoded value deeply (encoding/json
// follows every pointer, slice and interface of the value), inverts every byte of the buffer incl. its spare
// capacity and prints again.  Go-side property: `decoder-writes-input:<entry>:…`, `decoder-aliases-input:<entry>:…`.
// FHDR and MACPayload are additionally compared with the heap model (CFhdrDecode / CMacDecode in Corr/C10.v).

import (
	"bytes"
	"encoding/base64"
	"encoding/json"
	"fmt"
	"runtime"
	"runtime/debug"
	"strings"
	"syscall"

	"github.com/brocaar/lorawan"
	"verifharness/internal/cases"
	"verifharness/internal/cq"
	"verifharness/internal/framefmt"
	"verifharness/internal/macfmt"
)

func deep(v interface{}) (s string) {
	defer func() {
		if r := recover(); r != nil {
			s = fmt.Sprintf("panic while printing: %v", r)
		}
	}()
	b, err := json.Marshal(v)
	if err != nil {
		return fmt.Sprintf("%+v", v)
	}
	return string(b)
}

// probe: dec decodes `in` into *val.
func (h *H) probe(entry string, wire []byte, val interface{}, dec func(in []byte) error) {
	h.nprobes++
	buf := make([]byte, len(wire), len(wire)+h.r.Intn(9))
	copy(buf, wire)
	what := fmt.Sprintf("%s(%x)", entry, wire)
	rp := map[string]interface{}{"api": entry, "in": hexs(wire)}
	st := "ok"
	func() {
		cases.Begin(what, rp)
		defer cases.End()
		defer func() {
			if r := recover(); r != nil {
				st = "panic"
			}
		}()
		if err := dec(buf); err != nil {
			st = "err"
		}
	}()
	if !bytes.Equal(buf, wire) {
		h.s.Fail(cases.GoFail{Key: fmt.Sprintf("decoder-writes-input:%s:%x", entry, wire), What: fmt.Sprintf("%s changed its input buffer from %x to %x", entry, wire, buf), Replay: rp})
		copy(buf, wire)
	}
	if st != "ok" {
		return
	}
	h.nprobesOK++
	before := deep(val)
	full := buf[:cap(buf)]
	for i := range full {
		full[i] ^= 0xff
	}
	after := deep(val)
	defer h.roRun(entry, wire, func(in []byte) { _ = dec(in) }) // last: val may point into the page afterwards and is not used again
	if before != after {
		h.s.Fail(cases.GoFail{Key: fmt.Sprintf("decoder-aliases-input:%s:%x", entry, wire),
			What:   fmt.Sprintf("the value decoded by %s changes when the caller overwrites the buffer it was decoded from: %s then %s", entry, clip(before), clip(after)),
			Replay: map[string]interface{}{"api": entry + "(in); invert every byte of in; inspect the value", "in": hexs(wire), "before": clip(before), "after": clip(after)}})
	}
}

// roCopy returns a copy of in inside a page the process may only read (nil when that is not possible).
func roCopy(in []byte) (buf []byte, release func()) {
	if len(in) == 0 {
		return nil, nil
	}
	n := (len(in) + 4095) &^ 4095
	mem, err := syscall.Mmap(-1, 0, n, syscall.PROT_READ|syscall.PROT_WRITE, syscall.MAP_ANON|syscall.MAP_PRIVATE)
	if err != nil {
		return nil, nil
	}
	copy(mem, in)
	if err := syscall.Mprotect(mem, syscall.PROT_READ); err != nil {
		_ = syscall.Munmap(mem)
		return nil, nil
	}
	return mem[:len(in):len(in)], func() { _ = syscall.Munmap(mem) }
}

// roRun runs a decoder on an input that lives in a read-only page: a write to the input - also one that is
// undone before the call returns, which no before/after comparison can see and which races with every other
// reader of the same bytes - faults, and with SetPanicOnFault the fault arrives here as a runtime.Error.
func (h *H) roRun(entry string, wire []byte, f func(in []byte)) {
	ro, release := roCopy(wire)
	if ro == nil {
		return
	}
	h.roProbes++
	old := debug.SetPanicOnFault(true)
	defer debug.SetPanicOnFault(old)
	defer release()
	defer func() {
		if r := recover(); r != nil {
			e, isErr := r.(runtime.Error)
			_, hasAddr := r.(interface{ Addr() uintptr })
			if isErr && (hasAddr || strings.Contains(e.Error(), "fault")) {
				h.s.Fail(cases.GoFail{Key: fmt.Sprintf("decoder-writes-input:%s:%x", entry, wire),
					What:   fmt.Sprintf("%s writes to its input buffer (fault on a read-only page; the bytes may be restored before it returns, other readers of the buffer still see the write): %v", entry, e),
					Replay: map[string]interface{}{"api": entry, "in": hexs(wire), "how": "input placed in a PROT_READ page, debug.SetPanicOnFault(true)"}})
			}
		}
	}()
	cases.Begin(fmt.Sprintf("%s(%x) [read-only input]", entry, wire), map[string]interface{}{"api": entry, "in": hexs(wire)})
	defer cases.End()
	f(ro)
}

// macWire: a MACPayload wire with every optional part present when asked for.
func macWire(r *cq.RNG, nopts int, port, nfrm int) []byte {
	b := r.Bytes(7 + nopts)
	b[4] = b[4]&0xf0 | byte(nopts)
	if port >= 0 {
		b = append(b, byte(port))
		b = append(b, r.Bytes(nfrm)...)
	}
	return b
}

// heap-model compared direct decodes of the frame parts
func (h *H) partDecode(isMac bool, wire []byte, spare int) {
	a := h.arena()
	in, off, capa := a.window(wire, spare)
	bk := cq.Bytes(a.bufs[0])
	var hd lorawan.FHDR
	var mp lorawan.MACPayload
	name := "FHDR.UnmarshalBinary"
	if isMac {
		name = "MACPayload.UnmarshalBinary"
	}
	curWhat, curReplay = fmt.Sprintf("%s(%x)", name, wire), map[string]interface{}{"api": name, "in": hexs(wire)}
	st := guard(func() error {
		if isMac {
			return mp.UnmarshalBinary(true, in)
		}
		return hd.UnmarshalBinary(true, in)
	})
	fl := 0
	if len(wire) > 4 {
		fl = int(wire[4] & 0x0f)
	}
	print := func() string {
		if isMac {
			return framefmt.MACPayload(&mp, fl)
		}
		return framefmt.FHDR(hd, fl)
	}
	o1 := st
	if st == "ok" {
		o1 = cq.Ok(print())
	}
	bk1 := cq.Bytes(a.bufs[0])
	scr := h.r.Byte()
	for i := range a.bufs[0] {
		a.bufs[0][i] = scr
	}
	o2 := st
	if st == "ok" {
		o2 = cq.Ok(print())
	}
	ctor := "CFhdrDecode"
	if isMac {
		ctor = "CMacDecode"
	}
	h.s.Add(cases.Case{
		Term: fmt.Sprintf("%s %s %d %d %d %d %s %s %s", ctor, bk, off, len(wire), capa, scr, o1, bk1, o2),
		Key:  fmt.Sprintf("part-decode:%s:%x", name, wire), Kind: "part-decode-" + name, Nontrivial: st == "ok",
		Replay: map[string]interface{}{"api": name + "(true, in); overwrite the buffer of in; inspect the value", "in": hexs(wire), "spare_capacity": capa - len(wire), "scribble": scr},
	})
}

func (h *H) probes(mult int) {
	r := h.r
	reps := 2 * mult
	for rep := 0; rep < reps; rep++ {
		// ---- frame parts ----
		for _, k := range []int{0, 1, 5, 15} {
			w := macWire(r, k, -1, 0)
			var x lorawan.FHDR
			h.probe("FHDR.UnmarshalBinary", w, &x, func(in []byte) error { return x.UnmarshalBinary(r.Bool(), in) })
			h.partDecode(false, w, r.Intn(12))
			for _, tail := range [][2]int{{-1, 0}, {7, 0}, {7, 1}, {0, 4}, {200, 30}} {
				w := macWire(r, k, tail[0], tail[1])
				var m lorawan.MACPayload
				h.probe("MACPayload.UnmarshalBinary", w, &m, func(in []byte) error { return m.UnmarshalBinary(r.Bool(), in) })
				h.partDecode(true, w, r.Intn(12))
				// the whole frame, binary and text
				frame := append(append([]byte{byte(2+r.Intn(4)) << 5}, w...), r.Bytes(4)...)
				var p1, p2 lorawan.PHYPayload
				h.probe("PHYPayload.UnmarshalBinary", frame, &p1, p1.UnmarshalBinary)
				h.probe("PHYPayload.UnmarshalText", []byte(base64.StdEncoding.EncodeToString(frame)), &p2, p2.UnmarshalText)
			}
		}
		var fc lorawan.FCtrl
		h.probe("FCtrl.UnmarshalBinary", r.Bytes(1), &fc, fc.UnmarshalBinary)
		var mh lorawan.MHDR
		h.probe("MHDR.UnmarshalBinary", r.Bytes(1), &mh, mh.UnmarshalBinary)
		var dp lorawan.DataPayload
		h.probe("DataPayload.UnmarshalBinary", r.Bytes(1+r.Intn(40)), &dp, func(in []byte) error { return dp.UnmarshalBinary(true, in) })
		// ---- join payloads, CFList ----
		var jr lorawan.JoinRequestPayload
		h.probe("JoinRequestPayload.UnmarshalBinary", r.Bytes(18), &jr, func(in []byte) error { return jr.UnmarshalBinary(true, in) })
		for _, ty := range []byte{0, 1} {
			w := r.Bytes(28)
			w[27] = ty
			var ja lorawan.JoinAcceptPayload
			h.probe("JoinAcceptPayload.UnmarshalBinary", w, &ja, func(in []byte) error { return ja.UnmarshalBinary(false, in) })
			var cf lorawan.CFList
			h.probe("CFList.UnmarshalBinary", w[12:], &cf, cf.UnmarshalBinary)
		}
		var ja12 lorawan.JoinAcceptPayload
		h.probe("JoinAcceptPayload.UnmarshalBinary", r.Bytes(12), &ja12, func(in []byte) error { return ja12.UnmarshalBinary(false, in) })
		var cc lorawan.CFListChannelPayload
		h.probe("CFListChannelPayload.UnmarshalBinary", r.Bytes(15), &cc, func(in []byte) error { return cc.UnmarshalBinary(false, in) })
		var cm lorawan.CFListChannelMaskPayload
		h.probe("CFListChannelMaskPayload.UnmarshalBinary", r.Bytes(2*(1+r.Intn(7))), &cm, func(in []byte) error { return cm.UnmarshalBinary(false, in) })
		var cm15 lorawan.CFListChannelMaskPayload
		h.probe("CFListChannelMaskPayload.UnmarshalBinary", append(r.Bytes(12), 0xaa, 0xbb, 0xcc), &cm15, func(in []byte) error { return cm15.UnmarshalBinary(false, in) })
		w02 := r.Bytes(14)
		w02[0] = byte(2 * r.Intn(2))
		var r02 lorawan.RejoinRequestType02Payload
		h.probe("RejoinRequestType02Payload.UnmarshalBinary", w02, &r02, func(in []byte) error { return r02.UnmarshalBinary(true, in) })
		w1 := r.Bytes(19)
		w1[0] = 1
		var r1 lorawan.RejoinRequestType1Payload
		h.probe("RejoinRequestType1Payload.UnmarshalBinary", w1, &r1, func(in []byte) error { return r1.UnmarshalBinary(true, in) })
		// ---- MAC commands and every payload ----
		for _, b := range macfmt.Builtin {
			k := macfmt.Kinds[macfmt.KindIndex(b.Kind)]
			pl := k.New()
			h.probe(fmt.Sprintf("%T.UnmarshalBinary", pl), r.Bytes(k.Size), pl, pl.UnmarshalBinary)
			var mc lorawan.MACCommand
			up := b.Up
			h.probe("MACCommand.UnmarshalBinary", append([]byte{byte(b.CID)}, r.Bytes(k.Size)...), &mc, func(in []byte) error { return mc.UnmarshalBinary(up, in) })
		}
		for _, pc := range []struct {
			up   bool
			cid  byte
			size int
		}{{true, 128, 3}, {false, 129, 2}, {true, 130, 1}} {
			var mc lorawan.MACCommand
			pc := pc
			h.probe("MACCommand.UnmarshalBinary", append([]byte{pc.cid}, r.Bytes(pc.size)...), &mc, func(in []byte) error { return mc.UnmarshalBinary(pc.up, in) })
		}
		for _, up := range []bool{false, true} {
			var stream []byte
			for _, b := range macfmt.Builtin {
				if b.Up == up {
					stream = append(append(stream, byte(b.CID)), r.Bytes(macfmt.Kinds[macfmt.KindIndex(b.Kind)].Size)...)
				}
			}
			up := up
			// the bytes a frame holds may be shared with other frames / goroutines: the stream decoders only read them
			h.roRun("PHYPayload.DecodeFRMPayloadToMACCommands", stream, func(in []byte) {
				f := newDataFrame(r, up, nil, 0, []lorawan.Payload{&lorawan.DataPayload{Bytes: in}})
				_ = f.DecodeFRMPayloadToMACCommands()
			})
			for _, b := range macfmt.Builtin {
				if b.Up != up {
					continue
				}
				one := append([]byte{byte(b.CID)}, r.Bytes(macfmt.Kinds[macfmt.KindIndex(b.Kind)].Size)...)
				one = append(one, byte(lorawan.LinkCheckReq)) // a second, payload-less command behind it
				h.roRun("PHYPayload.DecodeFOptsToMACCommands", one, func(in []byte) {
					f := newDataFrame(r, up, []lorawan.Payload{&lorawan.DataPayload{Bytes: in}}, -1, nil)
					_ = f.DecodeFOptsToMACCommands()
				})
			}
		}
		var pp lorawan.ProprietaryMACCommandPayload
		h.probe("ProprietaryMACCommandPayload.UnmarshalBinary", r.Bytes(1+r.Intn(10)), &pp, pp.UnmarshalBinary)
		var chm lorawan.ChMask
		h.probe("ChMask.UnmarshalBinary", r.Bytes(2), &chm, chm.UnmarshalBinary)
		var red lorawan.Redundancy
		h.probe("Redundancy.UnmarshalBinary", r.Bytes(1), &red, red.UnmarshalBinary)
		var dls, dls2 lorawan.DLSettings
		h.probe("DLSettings.UnmarshalBinary", r.Bytes(1), &dls, dls.UnmarshalBinary)
		h.probe("DLSettings.UnmarshalText", []byte(fmt.Sprintf("%02x", r.Byte())), &dls2, dls2.UnmarshalText)
		var ver lorawan.Version
		h.probe("Version.UnmarshalBinary", r.Bytes(1), &ver, ver.UnmarshalBinary)
		var adr lorawan.ADRParam
		h.probe("ADRParam.UnmarshalBinary", r.Bytes(1), &adr, adr.UnmarshalBinary)
		// ---- identifiers: binary, text (with and without 0x), sql ----
		var e1, e2, e3 lorawan.EUI64
		h.probe("EUI64.UnmarshalBinary", r.Bytes(8), &e1, e1.UnmarshalBinary)
		h.probe("EUI64.UnmarshalText", []byte(fmt.Sprintf("%x", r.Bytes(8))), &e2, e2.UnmarshalText)
		h.probe("EUI64.Scan", r.Bytes(8), &e3, func(in []byte) error { return e3.Scan(in) })
		var d1, d2, d3 lorawan.DevAddr
		h.probe("DevAddr.UnmarshalBinary", r.Bytes(4), &d1, d1.UnmarshalBinary)
		h.probe("DevAddr.UnmarshalText", []byte(fmt.Sprintf("0x%x", r.Bytes(4))), &d2, d2.UnmarshalText)
		h.probe("DevAddr.Scan", r.Bytes(4), &d3, func(in []byte) error { return d3.Scan(in) })
		var n1, n2, n3 lorawan.NetID
		h.probe("NetID.UnmarshalBinary", r.Bytes(3), &n1, n1.UnmarshalBinary)
		h.probe("NetID.UnmarshalText", []byte(fmt.Sprintf("%x", r.Bytes(3))), &n2, n2.UnmarshalText)
		h.probe("NetID.Scan", r.Bytes(3), &n3, func(in []byte) error { return n3.Scan(in) })
		var k1, k2, k3 lorawan.AES128Key
		h.probe("AES128Key.UnmarshalBinary", r.Bytes(16), &k1, k1.UnmarshalBinary)
		h.probe("AES128Key.UnmarshalText", []byte(fmt.Sprintf("%x", r.Bytes(16))), &k2, k2.UnmarshalText)
		h.probe("AES128Key.Scan", r.Bytes(16), &k3, func(in []byte) error { return k3.Scan(in) })
		var dn lorawan.DevNonce
		h.probe("DevNonce.UnmarshalBinary", r.Bytes(2), &dn, dn.UnmarshalBinary)
		var jn lorawan.JoinNonce
		h.probe("JoinNonce.UnmarshalBinary", r.Bytes(3), &jn, jn.UnmarshalBinary)
		// ---- application layer: every payload, Command, Commands ----
		for _, pk := range appPkgs() {
			for _, up := range []bool{false, true} {
				var stream []byte
				for cid := 0; cid < 256; cid++ {
					pl := pk.payload(up, byte(cid))
					if pl == nil {
						continue
					}
					w := r.Bytes(pl.Size() + r.Intn(4))
					h.probe(fmt.Sprintf("%s.%T.UnmarshalBinary", pk.name, pl), w, pl, pl.UnmarshalBinary)
					decC, valC := pk.command()
					up := up
					h.probe(pk.name+".Command.UnmarshalBinary", append([]byte{byte(cid)}, w...), valC, func(in []byte) error { return decC(up, in) })
					if len(stream) < 40 {
						stream = append(append(stream, byte(cid)), r.Bytes(pk.payload(up, byte(cid)).Size())...)
					}
				}
				decS, valS := pk.commands()
				h.probe(pk.name+".Commands.UnmarshalBinary", stream, valS, func(in []byte) error { return decS(up, in) })
			}
		}
	}
	h.s.Extra["read_only_input_probes"] = h.roProbes
	h.s.Extra["aliasing_probes"] = h.nprobes
	h.s.Extra["aliasing_probes_decoded_ok"] = h.nprobesOK
}
