// Correspondence harness for C05: the secure frame exchange on the real
// PHYPayload methods (sender and receiver pipelines), every single-bit
// corruption of serialised frames and every single-parameter mismatch.
package main

import (
	"fmt"
	"io"
	"log"
	"os"
	"sync"
	"time"

	"github.com/brocaar/lorawan"
	"github.com/brocaar/lorawan/applayer/clocksync"
	"github.com/jacobsa/crypto/cmac"

	"verifharness/internal/cases"
	"verifharness/internal/collide"
	"verifharness/internal/cq"
	"verifharness/internal/framefmt"
	"verifharness/internal/micforge"
	"verifharness/internal/noise"
)

// nr drives the unrelated library calls made between the compared calls (own stream: case generation is unaffected);
// quiet suppresses them inside a family of calls that must run back to back
var nr *cq.RNG
var quiet bool
var lastKey = "(none)"

func step() {
	if !quiet {
		noise.Step(nr)
	}
}

func clip(k string) string {
	if len(k) > 300 {
		return k[:300] + "..."
	}
	return k
}

// clone: a copy of a data frame that shares no slice or struct with the original (the methods replace
// the FOpts / FRMPayload slices and write the MIC; the payload objects themselves are not modified)
func clone(p lorawan.PHYPayload) lorawan.PHYPayload {
	if m, ok := p.MACPayload.(*lorawan.MACPayload); ok {
		c := *m
		c.FHDR.FOpts = append([]lorawan.Payload(nil), m.FHDR.FOpts...)
		c.FRMPayload = append([]lorawan.Payload(nil), m.FRMPayload...)
		if m.FPort != nil {
			pt := *m.FPort
			c.FPort = &pt
		}
		p.MACPayload = &c
	}
	return p
}

func hx(b []byte) string { return fmt.Sprintf("%x", b) }

type keys struct{ f, s, e, a lorawan.AES128Key }
type params struct {
	conf   uint32
	dr, ch uint8
}

func (k keys) term() string {
	return fmt.Sprintf("(mkKeys %s %s %s %s)", cq.Bytes(k.f[:]), cq.Bytes(k.s[:]), cq.Bytes(k.e[:]), cq.Bytes(k.a[:]))
}
func (k keys) hex() map[string]string {
	return map[string]string{"fNwkSIntKey": hx(k.f[:]), "sNwkSIntKey": hx(k.s[:]), "nwkSEncKey": hx(k.e[:]), "appSKey": hx(k.a[:])}
}
func (p params) term() string { return fmt.Sprintf("(mkParams %d %d %d)", p.conf, p.dr, p.ch) }

func ver(v lorawan.MACVersion) string {
	if v == lorawan.LoRaWAN1_0 {
		return "LoRaWAN1_0"
	}
	return "LoRaWAN1_1"
}

func isUp(mt lorawan.MType) bool {
	return mt == lorawan.UnconfirmedDataUp || mt == lorawan.ConfirmedDataUp || mt == lorawan.JoinRequest || mt == lorawan.RejoinRequest
}

func frmKey(p lorawan.PHYPayload, k keys) lorawan.AES128Key {
	if m, ok := p.MACPayload.(*lorawan.MACPayload); ok && m.FPort != nil && *m.FPort == 0 {
		return k.e
	}
	return k.a
}

// send runs the documented sender sequence on p (in place) and returns the serialised frame.
func send(p *lorawan.PHYPayload, v lorawan.MACVersion, k keys, prm params) (b []byte, s string) {
	cases.Begin("sender sequence:"+framefmt.Phy(*p, 0), nil)
	defer cases.End()
	defer func() {
		if r := recover(); r != nil {
			b, s = nil, cq.Panic
		}
	}()
	up := isUp(p.MHDR.MType)
	if err := p.EncryptFRMPayload(frmKey(*p, k)); err != nil {
		return nil, cq.Err
	}
	if v != lorawan.LoRaWAN1_0 {
		if err := p.EncryptFOpts(k.e); err != nil {
			return nil, cq.Err
		}
	}
	var err error
	if up {
		err = p.SetUplinkDataMIC(v, prm.conf, prm.dr, prm.ch, k.f, k.s)
	} else {
		err = p.SetDownlinkDataMIC(v, prm.conf, k.s)
	}
	if err != nil {
		return nil, cq.Err
	}
	b, err = p.MarshalBinary()
	if err != nil {
		return nil, cq.Err
	}
	return b, cq.Ok(cq.Bytes(b))
}

// decodeOnApplicationPort (Go-side): on a COPY of an accepted frame whose FPort is not 0 and that carries a payload,
// DecodeFRMPayloadToMACCommands must refuse, or at least leave a frame that still encodes to the received octets
// (C03-2: it used to turn the application octets into MACCommand values, after which the frame could not be
// encoded, MIC-validated or encrypted any more).
var failSink func(cases.GoFail)

func decodeOnApplicationPort(q lorawan.PHYPayload, wire []byte) {
	m, ok := q.MACPayload.(*lorawan.MACPayload)
	if !ok || len(m.FRMPayload) == 0 || (m.FPort != nil && *m.FPort == 0) {
		return
	}
	c := clone(q)
	cm := c.MACPayload.(*lorawan.MACPayload)
	cm.FHDR.FCnt &= 0xffff
	err := c.DecodeFRMPayloadToMACCommands()
	if err != nil {
		return
	}
	b2, err2 := c.MarshalBinary()
	if err2 != nil || hx(b2) != hx(wire) {
		failSink(cases.GoFail{Key: "decode-frm-on-application-port:" + hx(wire), What: "DecodeFRMPayloadToMACCommands succeeded on an accepted frame whose FPort is not 0 and left a frame that no longer encodes to the received octets",
			Replay: map[string]interface{}{"bytes": hx(wire), "frame_after": framefmt.Phy(c, framefmt.DecodedFOptsLen(wire)), "marshal_error": fmt.Sprint(err2)}})
	}
}

// validate: UnmarshalBinary, FCnt := full, Validate*DataMIC by role.
func validate(b []byte, v lorawan.MACVersion, up bool, k keys, prm params, full uint32) (q lorawan.PHYPayload, ok bool, s string) {
	cases.Begin("UnmarshalBinary + Validate*DataMIC:"+hx(b), nil)
	defer cases.End()
	defer func() {
		if r := recover(); r != nil {
			ok, s = false, cq.Panic
		}
	}()
	in := append([]byte{}, b...)
	if err := q.UnmarshalBinary(in); err != nil {
		return q, false, cq.Err
	}
	if m, isMac := q.MACPayload.(*lorawan.MACPayload); isMac {
		m.FHDR.FCnt = full
	}
	var err error
	if up {
		ok, err = q.ValidateUplinkDataMIC(v, prm.conf, prm.dr, prm.ch, k.f, k.s)
	} else {
		ok, err = q.ValidateDownlinkDataMIC(v, prm.conf, k.s)
	}
	if err != nil {
		return q, false, cq.Err
	}
	return q, ok, cq.Ok(cq.Bool(ok))
}

// receive runs the whole receiver sequence.
func receive(b []byte, v lorawan.MACVersion, k keys, prm params, full uint32) (s string) {
	cases.Begin("receiver sequence:"+hx(b), nil)
	defer cases.End()
	defer func() {
		if r := recover(); r != nil {
			s = cq.Panic
		}
	}()
	var q lorawan.PHYPayload
	in := append([]byte{}, b...)
	if err := q.UnmarshalBinary(in); err != nil {
		return cq.Err
	}
	if m, isMac := q.MACPayload.(*lorawan.MACPayload); isMac {
		m.FHDR.FCnt = full
	}
	var ok bool
	var err error
	if isUp(q.MHDR.MType) {
		ok, err = q.ValidateUplinkDataMIC(v, prm.conf, prm.dr, prm.ch, k.f, k.s)
	} else {
		ok, err = q.ValidateDownlinkDataMIC(v, prm.conf, k.s)
	}
	if err != nil {
		return cq.Err
	}
	if !ok {
		return cq.Ok("RxBadMIC")
	}
	decodeOnApplicationPort(q, b)
	if v != lorawan.LoRaWAN1_0 {
		err = q.DecryptFOpts(k.e)
	} else {
		err = q.DecodeFOptsToMACCommands()
	}
	if err != nil {
		return cq.Err
	}
	if err := q.DecryptFRMPayload(frmKey(q, k)); err != nil {
		return cq.Err
	}
	return cq.Ok("(RxFrame " + framefmt.Phy(q, framefmt.DecodedFOptsLen(b)) + ")")
}

func key(r *cq.RNG) (k lorawan.AES128Key) {
	copy(k[:], r.Bytes(16))
	return
}

func newKeys(r *cq.RNG, v lorawan.MACVersion) keys {
	k := keys{key(r), key(r), key(r), key(r)}
	if v == lorawan.LoRaWAN1_0 && r.Intn(4) != 0 { // 1.0: one NwkSKey
		k.s, k.e = k.f, k.f
	}
	switch r.Intn(12) {
	case 0, 1: // 1.1 session whose SNwkSIntKey equals the FNwkSIntKey (a 1.1 device on a 1.0 network server derives them equal)
		k.s = k.f
	case 2: // all network keys equal
		k.s, k.e = k.f, k.f
	case 3: // all-zero keys
		k = keys{}
	case 4: // zero integrity keys only
		k.f, k.s = lorawan.AES128Key{}, lorawan.AES128Key{}
	}
	return k
}

func counter(r *cq.RNG) uint32 {
	switch r.Intn(8) {
	case 0:
		return uint32(r.Intn(1 << 16))
	case 1:
		return 0xffffffff
	default:
		return r.U32() | 0x10000
	}
}

// dataOpt draws a frame for the exchange: mostly spec-valid frames with real MAC commands.
func dataOpt(r *cq.RNG, small bool) framefmt.Opt {
	mts := []lorawan.MType{lorawan.UnconfirmedDataUp, lorawan.UnconfirmedDataDown, lorawan.ConfirmedDataUp, lorawan.ConfirmedDataDown}
	o := framefmt.Opt{MType: mts[r.Intn(4)], Port: -1, FCntHigh: r.Intn(10) < 7}
	lens := []int{0, 1, 15, 16, 17, 31, 32, 33, 100, 241, 242}
	if small {
		lens = []int{0, 1, 5, 16, 17}
	}
	switch r.Intn(6) {
	case 0: // FOpts only
		o.FOptsBytes = r.Intn(16)
	case 1: // commands on port 0
		o.Port, o.FRMAsMAC = 0, true
		o.FRMLen = 1 + r.Intn(40)
		if small {
			o.FRMLen = 1 + r.Intn(10)
		}
	case 2, 3: // application payload + FOpts commands
		o.Port = 1 + r.Intn(255)
		o.FOptsBytes = r.Intn(16)
		o.FRMLen = lens[r.Intn(len(lens))]
		if !small && r.Intn(3) == 0 {
			o.FRMLen = r.Intn(243)
		}
	case 4: // port, empty payload (port 0 included)
		o.Port = r.Intn(4)
		if o.Port > 0 {
			o.FOptsBytes = r.Intn(16)
		}
	default: // raw bytes (not valid data in the sense of the property: no claim, model compared)
		o.Port = r.Intn(3)
		o.FRMLen = 1 + r.Intn(20)
		o.FOptsRaw = true
		if o.Port > 0 {
			o.FOptsBytes = r.Intn(16)
		}
	}
	if small && o.FOptsBytes > 6 {
		o.FOptsBytes = r.Intn(7)
	}
	// a LoRaWAN frame has at most 255 bytes (MHDR 1 + FHDR 7 + FOpts + FPort 1 + FRMPayload + MIC 4); 1 in 20 stays oversize
	if 13+o.FOptsBytes+o.FRMLen > 255 && r.Intn(20) != 0 {
		o.FRMLen = 242 - o.FOptsBytes
	}
	return o
}

func pipeCase(s *cases.Set, p lorawan.PHYPayload, v lorawan.MACVersion, k keys, prm params, kind, keyPrefix string) []byte {
	return pipeCaseB(s, p, nil, v, k, prm, kind, keyPrefix)
}

// pipeCaseB: believed (optional) is the frame the caller believes it is sending (built from its original payload
// objects); the case's term is printed from it while the methods run on p.
func pipeCaseB(s *cases.Set, p lorawan.PHYPayload, believed *lorawan.PHYPayload, v lorawan.MACVersion, k keys, prm params, kind, keyPrefix string) []byte {
	step()
	orig := clone(p)
	t := framefmt.Phy(p, 0)
	if believed != nil {
		orig = clone(*believed)
		t = framefmt.Phy(*believed, 0)
	}
	full := uint32(0)
	if m, ok := p.MACPayload.(*lorawan.MACPayload); ok {
		full = m.FHDR.FCnt
	}
	b, otx := send(&p, v, k, prm)
	orx := cq.Err
	if b != nil {
		orx = receive(b, v, k, prm, full)
	}
	ks := fmt.Sprintf("%spipe:%s:fkey=%s:skey=%s:%s", keyPrefix, ver(v), hx(k.f[:]), hx(k.s[:]), t)
	rp := map[string]interface{}{"api": "sender: EncryptFRMPayload, EncryptFOpts (1.1), Set*DataMIC, MarshalBinary; receiver: UnmarshalBinary, FCnt := full, Validate*DataMIC, DecryptFOpts (1.1) / DecodeFOptsToMACCommands (1.0), DecryptFRMPayload",
		"macVersion": ver(v), "keys": k.hex(), "confFCnt": prm.conf, "txDR": prm.dr, "txCh": prm.ch, "frame": t, "fullFCnt": full,
		"previous_compared_call": lastKey, "observed": map[string]string{"sent": otx, "received": orx}}
	s.Add(cases.Case{Term: fmt.Sprintf("CPipe %s %s %s %s %s %s", ver(v), k.term(), prm.term(), t, otx, orx),
		Key: ks, Kind: kind, Nontrivial: true, Replay: rp})
	lastKey = clip(ks)
	s.Remember(ks, otx+" "+orx, rp, func() string {
		q := clone(orig)
		b2, o2 := send(&q, v, k, prm)
		r2 := cq.Err
		if b2 != nil {
			r2 = receive(b2, v, k, prm, full)
		}
		return o2 + " " + r2
	})
	return b
}

// forgedExchange: an application frame CONSTRUCTED so that the MIC of its serialised (encrypted) form is `want`
// (internal/micforge): the ciphertext's last block is solved from the tag, the plaintext is its decryption.
func forgedExchange(s *cases.Set, r *cq.RNG, up bool, v lorawan.MACVersion, want lorawan.MIC, name string) {
	mts := []lorawan.MType{lorawan.UnconfirmedDataDown, lorawan.ConfirmedDataDown}
	if up {
		mts = []lorawan.MType{lorawan.UnconfirmedDataUp, lorawan.ConfirmedDataUp}
	}
	n := 23 + 16*r.Intn(2)
	p := dataFrame(r, framefmt.Opt{MType: mts[r.Intn(2)], Port: 1 + r.Intn(255), FRMLen: n, FCntHigh: r.Intn(10) < 7})
	m := p.MACPayload.(*lorawan.MACPayload)
	ct := m.FRMPayload[0].(*lorawan.DataPayload)
	k := keys{key(r), key(r), key(r), key(r)}
	prm := params{counter(r), r.Byte(), r.Byte()}
	b, err := p.MarshalBinary()
	if err != nil {
		return
	}
	msg := b[:len(b)-4]
	last, ok := micforge.ForgeData(micforge.DataParams{Uplink: up, V11: v != lorawan.LoRaWAN1_0, ACK: m.FHDR.FCtrl.ACK, Conf: prm.conf,
		TxDR: prm.dr, TxCh: prm.ch, FKey: k.f, SKey: k.s, DevAddr: m.FHDR.DevAddr, FCnt: m.FHDR.FCnt}, msg[:len(msg)-16], want, r.U64)
	if !ok {
		return
	}
	copy(ct.Bytes[n-16:], last[:])
	plain, err := lorawan.EncryptFRMPayload(k.a, up, m.FHDR.DevAddr, m.FHDR.FCnt, append([]byte{}, ct.Bytes...))
	if err != nil {
		return
	}
	m.FRMPayload = []lorawan.Payload{&lorawan.DataPayload{Bytes: plain}}
	bs := pipeCase(s, p, v, k, prm, "forged-mic-"+name, "forged:")
	if bs != nil { // the matching validation as a tamper case too (carried MIC = specification MIC = the special value)
		tamperCase(s, bs, v, up, k, prm, m.FHDR.FCnt, "forged-mic-"+name, "none:forged-"+name)
	}
}

// fanOut: one message fanned out / retransmitted: the caller keeps its []Payload slices (FRMPayload message and
// FOpts commands) and puts them into three frames (FCnt + 1, other DevAddr, other session keys) that go through
// the exchange in turn. Each exchange is an ordinary case printed from the caller's original objects; afterwards
// the slices must still hold them.
func fanOut(s *cases.Set, r *cq.RNG, v lorawan.MACVersion, i int) {
	mts := []lorawan.MType{lorawan.UnconfirmedDataDown, lorawan.UnconfirmedDataUp, lorawan.ConfirmedDataDown, lorawan.ConfirmedDataUp}
	mt := mts[i%4]
	frm := make([]lorawan.Payload, 1, 1+i%3)
	frm[0] = &lorawan.DataPayload{Bytes: r.Bytes(1 + r.Intn(40))}
	fo := framefmt.ValidCmds(r, isUp(mt), 1+r.Intn(10))
	origFrm := append([]lorawan.Payload(nil), frm...)
	origFo := append([]lorawan.Payload(nil), fo...)
	snap := func(l []lorawan.Payload) (out [][]byte) {
		for _, e := range l {
			b, _ := e.MarshalBinary()
			out = append(out, append([]byte{}, b...))
		}
		return
	}
	bFrm, bFo := snap(frm), snap(fo)
	base := dataFrame(r, framefmt.Opt{MType: mt, Port: 1 + r.Intn(200), FCntHigh: i%2 == 0})
	for pass := 0; pass < 3; pass++ {
		build := func(f, o []lorawan.Payload) lorawan.PHYPayload {
			m := *base.MACPayload.(*lorawan.MACPayload)
			m.FHDR.FCnt += uint32(pass)
			if pass == 2 {
				m.FHDR.DevAddr[i%4] ^= 0x42
			}
			m.FRMPayload, m.FHDR.FOpts = f, o
			q := base
			q.MACPayload = &m
			return q
		}
		believed := build(append([]lorawan.Payload(nil), origFrm...), append([]lorawan.Payload(nil), origFo...))
		k := newKeys(r, v)
		prm := params{counter(r), r.Byte(), r.Byte()}
		pipeCaseB(s, build(frm, fo), &believed, v, k, prm, "fan-out", fmt.Sprintf("fanout%d:", pass+1))
		same := func(l, o []lorawan.Payload, bs [][]byte) bool {
			if len(l) != len(o) {
				return false
			}
			for j := range o {
				b, _ := l[j].MarshalBinary()
				if l[j] != o[j] || string(b) != string(bs[j]) {
					return false
				}
			}
			return true
		}
		if !same(frm, origFrm, bFrm) || !same(fo, origFo, bFo) {
			s.Fail(cases.GoFail{Key: fmt.Sprintf("caller-slice-modified:fanout%d:%s", pass+1, framefmt.Phy(believed, 0)), What: "the sender sequence wrote into the caller's []Payload slices (FRMPayload / FOpts): the next frame built from them carries ciphertext as plaintext",
				Replay: map[string]interface{}{"frame": framefmt.Phy(believed, 0), "macVersion": ver(v), "keys": k.hex()}})
			copy(frm, origFrm)
			copy(fo, origFo)
		}
	}
}

// collidingKeys: "a different key must give a different result", for keys that differ but agree under a cheap
// digest (internal/collide: CRC-32 with three polynomials, Adler-32 / byte sum, xor-folds, FNV-1a, shared prefix /
// suffix). One frame; session A and session B differ in exactly one key (K vs K'). Back to back: exchange under A,
// validation of A's bytes under B (the specification decides: false where that key enters the MIC), exchange under B
// (the MIC must be the reference MIC under K'), validation of A's bytes under A, exchange under A again; then the
// same with the roles of K and K' swapped on a fresh frame. The exchanges are remembered (concurrent pass).
func collidingKeys(s *cases.Set, r *cq.RNG, v lorawan.MACVersion, field, i int) {
	base := key(r)
	pairs := collide.For(base)
	if fp, ok := collide.FNV(r.U64); ok {
		pairs = append(pairs, fp)
	}
	step()
	quiet = true
	defer func() { quiet = false }()
	fname := []string{"fNwkSIntKey", "sNwkSIntKey", "nwkSEncKey", "appSKey"}[field]
	for pi, pr := range pairs {
		if !collide.Check(pr) {
			s.Fail(cases.GoFail{Key: "harness:collide:" + pr.Name, What: "internal/collide produced a pair that does not collide (harness defect)", Replay: map[string]interface{}{"k": hx(pr.K[:]), "k2": hx(pr.K2[:])}})
			continue
		}
		for order := 0; order < 2; order++ {
			ka, kb := lorawan.AES128Key(pr.K), lorawan.AES128Key(pr.K2)
			if order == 1 {
				ka, kb = kb, ka
			}
			mts := []lorawan.MType{lorawan.UnconfirmedDataUp, lorawan.UnconfirmedDataDown, lorawan.ConfirmedDataUp, lorawan.ConfirmedDataDown}
			o := framefmt.Opt{MType: mts[(i+pi+order)%4], Port: 1 + r.Intn(200), FRMLen: 1 + r.Intn(20), FOptsBytes: r.Intn(6), FCntHigh: pi%2 == 0}
			if field == 2 && pi%2 == 0 {
				o.Port, o.FRMAsMAC, o.FOptsBytes = 0, true, 0
			}
			p := dataFrame(r, o)
			m := p.MACPayload.(*lorawan.MACPayload)
			up, full := isUp(p.MHDR.MType), m.FHDR.FCnt
			A := keys{key(r), key(r), key(r), key(r)}
			B := A
			switch field {
			case 0:
				A.f, B.f = ka, kb
			case 1:
				A.s, B.s = ka, kb
			case 2:
				A.e, B.e = ka, kb
			default:
				A.a, B.a = ka, kb
			}
			prm := params{counter(r), r.Byte(), r.Byte()}
			kind := "key-collide-" + pr.Name
			tag := fmt.Sprintf("collide:%s:%s:order%d:", pr.Name, fname, order)
			b := pipeCase(s, clone(p), v, A, prm, kind, tag+"A:")
			if b == nil {
				continue
			}
			tamperCase(s, b, v, up, B, prm, full, kind, "key-collide:"+pr.Name+":"+fname+":validate-A's-frame-under-B")
			pipeCase(s, clone(p), v, B, prm, kind, tag+"B:")
			tamperCase(s, b, v, up, A, prm, full, kind, "key-collide:"+pr.Name+":"+fname+":validate-A's-frame-under-A-again")
			pipeCase(s, clone(p), v, A, prm, kind, tag+"A-again:")
		}
	}
}

// withMType: the same frame content sent in the other direction / as the other confirmation type
func withMType(p lorawan.PHYPayload, mt lorawan.MType) lorawan.PHYPayload {
	q := clone(p)
	q.MHDR.MType = mt
	return q
}

// dirFamily: the exchange of one frame content as a downlink, immediately afterwards as an uplink, then as a
// downlink again (and the mirror image), with nothing in between: the direction of one exchange must not leak
// into the next.
func dirFamily(s *cases.Set, r *cq.RNG, v lorawan.MACVersion, i int) {
	step()
	quiet = true
	defer func() { quiet = false }()
	o := framefmt.Opt{MType: lorawan.UnconfirmedDataDown, Port: 1 + r.Intn(200), FRMLen: 1 + r.Intn(40), FOptsBytes: r.Intn(4), FCntHigh: i%2 == 0}
	p := dataFrame(r, o)
	p.MACPayload.(*lorawan.MACPayload).FHDR.FOpts = nil // commands are direction specific: none
	k := newKeys(r, v)
	prm := params{counter(r), r.Byte(), r.Byte()}
	seq := []lorawan.MType{lorawan.UnconfirmedDataDown, lorawan.UnconfirmedDataUp, lorawan.ConfirmedDataDown, lorawan.ConfirmedDataUp, lorawan.UnconfirmedDataUp, lorawan.UnconfirmedDataDown}
	if i%2 == 1 {
		seq = []lorawan.MType{lorawan.ConfirmedDataUp, lorawan.ConfirmedDataDown, lorawan.UnconfirmedDataUp, lorawan.UnconfirmedDataDown}
	}
	for _, mt := range seq {
		pipeCase(s, withMType(p, mt), v, k, prm, "family-direction", "dirfamily:")
	}
}

func tamperCase(s *cases.Set, b []byte, v lorawan.MACVersion, up bool, k keys, prm params, full uint32, kind, what string) {
	if kind != "bitflip" {
		step()
	}
	_, _, o := validate(b, v, up, k, prm, full)
	s.Add(cases.Case{Term: fmt.Sprintf("CTamper %s %s %s %s %d %s %s", ver(v), cq.Bool(up), k.term(), prm.term(), full, cq.Bytes(b), o),
		Key: fmt.Sprintf("tamper:%s:%s:up=%v:full=%d:conf=%d:dr=%d:ch=%d:bytes=%s", what, ver(v), up, full, prm.conf, prm.dr, prm.ch, hx(b)), Kind: kind, Nontrivial: true,
		Replay: map[string]interface{}{"api": "UnmarshalBinary, FCnt := full, Validate{Uplink,Downlink}DataMIC (role: uplink=" + fmt.Sprint(up) + ")",
			"what": what, "macVersion": ver(v), "keys": k.hex(), "confFCnt": prm.conf, "txDR": prm.dr, "txCh": prm.ch, "fullFCnt": full, "bytes": hx(b), "observed": o}})
}

func flipKey(k lorawan.AES128Key, r *cq.RNG) lorawan.AES128Key {
	k[r.Intn(16)] ^= 1 << uint(r.Intn(8))
	return k
}

func cmacCase(s *cases.Set, k, m []byte, name string) {
	h, err := cmac.New(k)
	if err != nil {
		s.Fail(cases.GoFail{Key: "cmac:new:" + hx(k), What: "cmac.New failed: " + err.Error(), Replay: map[string]interface{}{"key": hx(k)}})
		return
	}
	h.Write(m)
	o := h.Sum([]byte{})
	s.Add(cases.Case{Term: fmt.Sprintf("CCmac %s %s %s", cq.Bytes(k), cq.Bytes(m), cq.Bytes(o)),
		Key: "cmac:" + name + ":key=" + hx(k) + ":msg=" + hx(m), Kind: "crypto-cmac", Nontrivial: true,
		Replay: map[string]interface{}{"api": "jacobsa/crypto/cmac", "key": hx(k), "msg": hx(m), "observed": hx(o)}})
}

// dataFrame / joinFrame: the framefmt generators with the MHDR Major field drawn from all four values (the library
// accepts any; the MHDR octet enters every MIC)
func dataFrame(r *cq.RNG, o framefmt.Opt) lorawan.PHYPayload {
	p := framefmt.DataFrame(r, o)
	p.MHDR.Major = lorawan.Major(r.Intn(4))
	return p
}

func joinFrame(r *cq.RNG, kind int) lorawan.PHYPayload {
	p := framefmt.JoinFrame(r, kind)
	p.MHDR.Major = lorawan.Major(r.Intn(4))
	return p
}

// opaquify replaces *DataPayload elements of FRMPayload / FOpts by a Payload implementation that does not come
// from the library (framefmt.Opaque; on the wire it is the bytes its MarshalBinary returns). how: 0 all, 1 FRMPayload
// only, 2 FOpts only, 3 FRMPayload split into [Opaque, DataPayload].
func opaquify(p lorawan.PHYPayload, how int) lorawan.PHYPayload {
	m, ok := p.MACPayload.(*lorawan.MACPayload)
	if !ok {
		return p
	}
	c := *m
	conv := func(l []lorawan.Payload) []lorawan.Payload {
		out := make([]lorawan.Payload, len(l))
		for i, e := range l {
			if d, ok := e.(*lorawan.DataPayload); ok {
				out[i] = &framefmt.Opaque{B: append([]byte{}, d.Bytes...)}
			} else {
				out[i] = e
			}
		}
		return out
	}
	if how == 0 || how == 1 {
		c.FRMPayload = conv(m.FRMPayload)
	}
	if how == 0 || how == 2 {
		c.FHDR.FOpts = conv(m.FHDR.FOpts)
	}
	if how == 3 && len(m.FRMPayload) == 1 {
		if d, ok := m.FRMPayload[0].(*lorawan.DataPayload); ok && len(d.Bytes) >= 2 {
			h := len(d.Bytes) / 2
			c.FRMPayload = []lorawan.Payload{&framefmt.Opaque{B: append([]byte{}, d.Bytes[:h]...)}, &lorawan.DataPayload{Bytes: append([]byte{}, d.Bytes[h:]...)}}
		}
	}
	p.MACPayload = &c
	return p
}

func main() {
	log.SetOutput(io.Discard)
	dir, seed, thorough := cases.Args()
	r := cq.NewRNG(seed)
	nr = cq.NewRNG(seed ^ 0x9e3779b97f4a7c15)
	s := cases.New("C05", dir, "LW.Corr.C05",
		"RFC 4493 examples first; corpus: FPort 0 with empty FRMPayload (C05-1), a frame whose MHDR RFU bit is flipped (C05-2). Pipeline: data frames with MAC commands in FOpts (0..15 bytes) and application payload (block-boundary lengths), commands on port 0, FOpts only, empty payloads, raw bytes; 4 MTypes, both MAC versions, FCnt above 2^16 in 70%, random keys (1.0: one network key; in a third of the sessions SNwkSIntKey = FNwkSIntKey, all network keys equal, all-zero keys or zero integrity keys), ConfFCnt/txDR/txCh random; the bytes the implementation sends are also given to the model's receiver (a specification-conformant peer must recover the content). Special MIC values: exchanges of application frames CONSTRUCTED (internal/micforge) so that the MIC of the serialised frame is 00000000, ffffffff, 00000001 (both directions, both versions). MHDR Major drawn from 0..3; in a quarter of the exchanges the FRMPayload / FOpts elements are of a foreign Payload type (framefmt.Opaque, mixed [Opaque, DataPayload], [MAC commands, Opaque] in FOpts, a clocksync.Command on port 202). Colliding keys (internal/collide): sessions that differ in exactly one key K vs K' where K' != K agrees with K under CRC-32 (IEEE + Castagnoli + Koopman at once), Adler-32 / byte sum, xor-folds to 8/4/2/1 bytes, FNV-1a 32, first 15 / first 8 / last 8 bytes - for each of the four session keys: exchange under K, validation of that frame under K', exchange under K', validation and exchange under K again, and the reverse order on a fresh frame, all back to back and in the concurrent pass. After every accepted application frame (FPort not 0) DecodeFRMPayloadToMACCommands is tried on a copy: it must refuse or leave the frame encodable to the received octets (C03-2). Fan-out: one FRMPayload slice and one FOpts slice kept by the caller and put into three frames (FCnt + 1, other DevAddr, other keys) exchanged in turn, printed from the original objects, slices unchanged afterwards; every exchange is also repeated from 8 goroutines at once. History: unrelated library calls (internal/noise) before every compared call; direction families run back to back (one frame content exchanged as downlink, uplink, confirmed downlink, confirmed uplink, uplink, downlink); every pipeline call is repeated twice later in the process (reverse and same order) and must give its first result. Tampering: for a subset of frames EVERY single-bit flip of the serialised frame (the receiver extends the 16 bits on the wire with its own upper 16 bits), and every single-parameter mismatch: each key with one bit flipped, FCnt +/- 2^16, ConfFCnt + 1 and + 2^16, txDR, txCh, validation with the other direction's function, the other MAC version. Every case distinct by construction.")
	s.ShardSize = 200
	nPipe, nFlipFrames := 160, 24
	if thorough {
		nPipe, nFlipFrames = 4000, 500
		s.ShardSize = 700
	}
	rfcKey := []byte{0x2b, 0x7e, 0x15, 0x16, 0x28, 0xae, 0xd2, 0xa6, 0xab, 0xf7, 0x15, 0x88, 0x09, 0xcf, 0x4f, 0x3c}
	rfcMsg := []byte{0x6b, 0xc1, 0xbe, 0xe2, 0x2e, 0x40, 0x9f, 0x96, 0xe9, 0x3d, 0x7e, 0x11, 0x73, 0x93, 0x17, 0x2a,
		0xae, 0x2d, 0x8a, 0x57, 0x1e, 0x03, 0xac, 0x9c, 0x9e, 0xb7, 0x6f, 0xac, 0x45, 0xaf, 0x8e, 0x51,
		0x30, 0xc8, 0x1c, 0x46, 0xa3, 0x5c, 0xe4, 0x11, 0xe5, 0xfb, 0xc1, 0x19, 0x1a, 0x0a, 0x52, 0xef,
		0xf6, 0x9f, 0x24, 0x45, 0xdf, 0x4f, 0x9b, 0x17, 0xad, 0x2b, 0x41, 0x7b, 0xe6, 0x6c, 0x37, 0x10}
	for _, l := range []int{0, 16, 40, 64} {
		cmacCase(s, rfcKey, rfcMsg[:l], fmt.Sprintf("rfc4493-len%d", l))
	}
	vers := []lorawan.MACVersion{lorawan.LoRaWAN1_0, lorawan.LoRaWAN1_1}
	// ---- corpus ----
	{
		k := keys{}
		for i := 0; i < 16; i++ {
			k.f[i], k.s[i], k.e[i], k.a[i] = byte(i+1), byte(i+17), byte(i+33), byte(i+49)
		}
		for _, v := range vers {
			for _, mt := range []lorawan.MType{lorawan.UnconfirmedDataDown, lorawan.ConfirmedDataUp} {
				p0 := uint8(0)
				m := &lorawan.MACPayload{FPort: &p0}
				m.FHDR.DevAddr = lorawan.DevAddr{1, 2, 3, 4}
				m.FHDR.FCnt = 0x12345
				p := lorawan.PHYPayload{MHDR: lorawan.MHDR{MType: mt, Major: lorawan.LoRaWANR1}, MACPayload: m}
				pipeCase(s, p, v, k, params{7, 1, 2}, "corpus", "port0-empty:")
			}
		}
		// MHDR RFU bit flipped in transit
		p1 := uint8(1)
		m := &lorawan.MACPayload{FPort: &p1, FRMPayload: []lorawan.Payload{&lorawan.DataPayload{Bytes: []byte{1, 2, 3}}}}
		m.FHDR.DevAddr = lorawan.DevAddr{1, 2, 3, 4}
		m.FHDR.FCnt = 5
		p := lorawan.PHYPayload{MHDR: lorawan.MHDR{MType: lorawan.UnconfirmedDataUp, Major: lorawan.LoRaWANR1}, MACPayload: m}
		prm := params{0, 0, 0}
		if b, _ := send(&p, lorawan.LoRaWAN1_0, k, prm); b != nil {
			for _, bit := range []uint{2, 3, 4} {
				c := append([]byte{}, b...)
				c[0] ^= 1 << bit
				tamperCase(s, c, lorawan.LoRaWAN1_0, true, k, prm, 5, "corpus", fmt.Sprintf("bitflip:mhdr-rfu:byte=0:bit=%d", bit))
			}
		}
	}
	s.Watchdog(3 * time.Second)
	var failMu sync.Mutex
	reported := map[string]bool{}
	failSink = func(f cases.GoFail) {
		failMu.Lock()
		defer failMu.Unlock()
		if !reported[f.Key] && len(reported) < 20 {
			reported[f.Key] = true
			s.Fail(f)
		}
	}
	{
		rounds := 1
		if thorough {
			rounds = 20
		}
		for i := 0; i < rounds; i++ {
			for _, up := range []bool{true, false} {
				for _, v := range vers {
					forgedExchange(s, r, up, v, lorawan.MIC{}, "00000000")
					forgedExchange(s, r, up, v, lorawan.MIC{0xff, 0xff, 0xff, 0xff}, "ffffffff")
					forgedExchange(s, r, up, v, lorawan.MIC{0, 0, 0, 1}, "00000001")
				}
			}
		}
	}
	{
		nf := 4
		if thorough {
			nf = 60
		}
		for i := 0; i < nf; i++ {
			collidingKeys(s, r, vers[(i/4+i)%2], i%4, i)
		}
	}
	// ---- pipeline + tampering ----
	for i := 0; i < nPipe; i++ {
		v := vers[i%2]
		small := i < nFlipFrames
		o := dataOpt(r, small)
		p := dataFrame(r, o)
		m := p.MACPayload.(*lorawan.MACPayload)
		if !o.FCntHigh && r.Intn(3) == 0 {
			m.FHDR.FCnt = []uint32{0, 0xffff, 1}[r.Intn(3)]
		}
		if r.Intn(8) == 0 {
			m.FHDR.FCnt = []uint32{0xffffffff, 0x10000, 0xffff0000, 0x1ffff}[r.Intn(4)]
		}
		up := isUp(p.MHDR.MType)
		full := m.FHDR.FCnt
		if i%4 == 2 { // payload elements of a type that does not come from the library
			p = opaquify(p, (i/4)%4)
		}
		if i%20 == 9 { // an application-layer command object as FRMPayload on its port, FOpts = [commands..., Opaque]
			pt := uint8(202)
			mm := *p.MACPayload.(*lorawan.MACPayload)
			mm.FPort = &pt
			mm.FRMPayload = []lorawan.Payload{&clocksync.Command{CID: clocksync.AppTimeReq, Payload: &clocksync.AppTimeReqPayload{DeviceTime: r.U32(), Param: clocksync.AppTimeReqPayloadParam{AnsRequired: r.Bool(), TokenReq: uint8(r.Intn(16))}}}}
			if i%40 == 9 {
				mm.FHDR.FOpts = append(framefmt.ValidCmds(r, up, 4), &framefmt.Opaque{B: r.Bytes(1 + r.Intn(3))})
			}
			p.MACPayload = &mm
		}
		k := newKeys(r, v)
		prm := params{counter(r), r.Byte(), r.Byte()}
		b := pipeCase(s, p, v, k, prm, "pipeline-"+ver(v), "")
		if b == nil {
			continue
		}
		if i%4 == 3 {
			dirFamily(s, r, v, i/4)
		}
		if i%4 == 1 {
			fanOut(s, r, v, i/4)
		}
		if i < nFlipFrames {
			// every single-bit flip
			for pos := 0; pos < len(b)*8; pos++ {
				c := append([]byte{}, b...)
				c[pos/8] ^= 1 << uint(pos%8)
				// the receiver knows the upper 16 bits; the lower 16 come from the wire
				f2 := full&0xffff0000 | uint32(c[6]) | uint32(c[7])<<8
				what := fmt.Sprintf("bitflip:byte=%d:bit=%d", pos/8, pos%8)
				if pos/8 == 0 && pos%8 >= 2 && pos%8 <= 4 {
					what = fmt.Sprintf("bitflip:mhdr-rfu:byte=0:bit=%d", pos%8)
				}
				tamperCase(s, c, v, up, k, prm, f2, "bitflip", what)
			}
		}
		if i%2 == 0 || i < 2*nFlipFrames {
			// single-parameter mismatches (and the matching call first)
			tamperCase(s, b, v, up, k, prm, full, "param-none", "none")
			k2 := k
			k2.f = flipKey(k.f, r)
			tamperCase(s, b, v, up, k2, prm, full, "param-key", "fNwkSIntKey")
			k2 = k
			k2.s = flipKey(k.s, r)
			tamperCase(s, b, v, up, k2, prm, full, "param-key", "sNwkSIntKey")
			tamperCase(s, b, v, up, k, prm, full+0x10000, "param-fcnt", "fcnt+2^16")
			tamperCase(s, b, v, up, k, prm, full-0x10000, "param-fcnt", "fcnt-2^16")
			p2 := prm
			p2.conf = prm.conf + 1
			tamperCase(s, b, v, up, k, p2, full, "param-conf", "conf+1")
			p2.conf = prm.conf + 0x10000
			tamperCase(s, b, v, up, k, p2, full, "param-conf", "conf+2^16")
			p2 = prm
			p2.dr = prm.dr + 1
			tamperCase(s, b, v, up, k, p2, full, "param-txdr", "txdr+1")
			p2 = prm
			p2.ch = prm.ch ^ 0x80
			tamperCase(s, b, v, up, k, p2, full, "param-txch", "txch^0x80")
			tamperCase(s, b, v, !up, k, prm, full, "param-direction", "other-direction")
			tamperCase(s, b, vers[(i+1)%2], up, k, prm, full, "param-version", "other-version")
		}
	}
	s.ReplayRemembered(nr.Intn, 2, func() { noise.Step(nr) })
	s.ReplayConcurrently(8, 2, 60*time.Second)
	if err := s.Finish(); err != nil {
		fmt.Fprintln(os.Stderr, err)
		os.Exit(2)
	}
}
