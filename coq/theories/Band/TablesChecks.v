(* Executable checks for C13 over the dumped tables: the boolean obligations
   the proofs in TablesProofs.v discharge by vm_compute.  Kept apart from the
   proofs so that the diagnosis file (coq/diag/C13.v) can still evaluate them
   cell by cell when an obligation stops holding.  Definitions only. *)
From Coq Require Import List ZArith Bool String.
From LW Require Import Base.Outcome Band.Types Band.Lookup Band.Regional Band.Rx1Spec Band.TablesSpec.
From LWGen Require Import BandGen KnownGen.
Import ListNotations.
Open Scope Z_scope.

Definition canon (K : list string) (s : string) : string := if str_mem s K then s else latest.

Definition rev_keys (t : tables) : list string := flat_map (fun e => skeys (snd e)) (t_maxpl t).

(* every size table a query can resolve to is one of the listed tables *)
Definition all_size_tables (t : tables) : list size_table :=
  flat_map (fun e => map snd (snd e)) (t_maxpl t).

Definition zero_cell_eqb (a b : string * bool * Z) : bool :=
  String.eqb (fst (fst a)) (fst (fst b)) && Bool.eqb (snd (fst a)) (snd (fst b)) && (snd a =? snd b).

Definition zero_cell_known (x : string * bool * Z) : bool := existsb (zero_cell_eqb x) c13_known_zero_cells.

Definition size_cell_check (c : band_cfg) (e : Z * (Z * Z)) : bool :=
  size_wf (snd e) || (size_zero (snd e) && zero_cell_known (c_name c, c_dwell c, fst e)).

Definition sizes_check : bool :=
  forallb (fun c => forallb (fun st => forallb (size_cell_check c) st) (all_size_tables (c_tab c))) band_configs.

(* the recorded (0,0) cells are real: each is reachable through the lookup *)
Definition zero_refuted_check (x : string * bool * Z) : bool :=
  existsb (fun c => String.eqb (c_name c) (fst (fst x)) && Bool.eqb (c_dwell c) (snd (fst x))
                    && outcome_eqb pair_eqb (get_max_payload (c_tab c) latest latest (snd x)) (Ok (0, 0)))
          band_configs.

Definition latest_total_check : bool :=
  forallb (fun c => forallb (fun e => is_ok (get_max_payload (c_tab c) latest latest (fst e))) (t_drs (c_tab c)))
          band_configs.

(* every (version, revision) combination resolves: all version keys and "latest" (= any
   unknown string) x all revision keys of the configuration and "latest" x all data-rates the
   region lists since its first release *)
Definition every_rev_cell_check (reg : region) (t : tables) (v r : string) (dr : Z) : bool :=
  every_revision_ok reg (t_drs t) dr (get_max_payload t v r dr).

Definition every_rev_check : bool :=
  forallb (fun c =>
    match region_of (c_name c) with
    | None => false
    | Some reg =>
      let t := c_tab c in
      forallb (fun v => forallb (fun r => forallb (fun e => every_rev_cell_check reg t v r (fst e)) (t_drs t))
                                (latest :: rev_keys t)) (latest :: skeys (t_maxpl t))
    end) band_configs.

(* ... and resolves to SOME size table, whatever the strings *)
Definition resolves_check : bool :=
  forallb (fun c =>
    let t := c_tab c in
    forallb (fun v => forallb (fun r => match select_size_table t v r with Some _ => true | None => false end)
                              (latest :: rev_keys t)) (latest :: skeys (t_maxpl t))) band_configs.

(* the keys of the two map levels are what they claim to be: protocol versions (or "latest") at
   the first level, regional-parameters revisions (or "latest") at the second *)
Definition version_keys_check : bool :=
  forallb (fun c =>
    forallb (fun v => str_mem v (latest :: protocol_versions)) (skeys (t_maxpl (c_tab c)))
    && forallb (fun r => str_mem r (latest :: reg_param_revisions)) (rev_keys (c_tab c))) band_configs.

Definition rep_le_check (tr tn : tables) (v r : string) : bool :=
  match select_size_table tr v r with
  | None => true
  | Some st =>
    forallb (fun e => match get_max_payload tn v r (fst e) with
                      | Ok s' => size_le (snd e) s'
                      | _ => false
                      end) st
  end.

Definition pair_KV (tr tn : tables) : list string := skeys (t_maxpl tr) ++ skeys (t_maxpl tn).

Definition pair_KR (tr tn : tables) : list string := rev_keys tr ++ rev_keys tn.

Definition pair_check (cr cn : band_cfg) : bool :=
  let tr := c_tab cr in
  let tn := c_tab cn in
  forallb (fun v => forallb (fun r => rep_le_check tr tn v r) (latest :: pair_KR tr tn)) (latest :: pair_KV tr tn).

Definition is_rep_pair (cr cn : band_cfg) : bool :=
  String.eqb (c_name cr) (c_name cn) && Bool.eqb (c_dwell cr) (c_dwell cn) && c_rep cr && negb (c_rep cn).

Definition rep_check : bool :=
  forallb (fun cr => forallb (fun cn => if is_rep_pair cr cn then pair_check cr cn else true) band_configs)
          band_configs.

Definition sf_check : bool :=
  forallb (fun c =>
    forallb (fun st => forallb (fun e => sf_monotone_cell (t_drs (c_tab c)) st (fst e) (snd e)) st)
            (all_size_tables (c_tab c))) band_configs.

Definition closure_check : bool :=
  forallb (fun c =>
    let t := c_tab c in
    forallb (fun ch => uplink_channel_closed t (ch_min ch) (ch_max ch)) (t_up t)
    && forallb (fun ch => downlink_channel_closed t (ch_min ch) (ch_max ch)) (t_down t)
    && enabled_drs_closed t (get_enabled_uplink_data_rates t)
    && cflist_closed t) band_configs.

Definition roundtrip_check : bool :=
  forallb (fun c =>
    let t := c_tab c in
    forallb (fun e => dr_roundtrip_ok (fst e) (snd e) (get_data_rate_index t true (snd e))
                                      (get_data_rate_index t false (snd e))) (t_drs t)) band_configs.

(* the Go loop ranges over a map: the result does not depend on the iteration order,
   because no two data-rates of one direction share their parameters *)
Definition params_distinct_check : bool :=
  forallb (fun c =>
    let drs := t_drs (c_tab c) in
    forallb (fun a => forallb (fun b =>
      (fst a =? fst b)
      || negb (data_rate_params_eqb (snd a) (snd b)
               && ((dr_up (snd a) && dr_up (snd b)) || (dr_down (snd a) && dr_down (snd b))))) drs) drs)
    band_configs.

Definition regional_check : bool :=
  forallb (fun c =>
    match region_of (c_name c) with
    | None => false
    | Some reg =>
      let t := c_tab c in
      data_rates_ok (spec_data_rates reg) (t_drs t)
      && default_channels_ok (spec_uplink_channels reg) (t_up t)
      && default_channels_ok (spec_downlink_channels reg) (t_down t)
      && forallb (fun p => tx_power_ok (fst p) (snd p)) (combine (zrange 0 (zlen (t_txpow t) - 1)) (t_txpow t))
    end) band_configs.

(* the transcribed max-payload values: domain of the oracle and the check *)
Definition value_domain : list (string * string * Z) :=
  flat_map (fun p => map (fun dr => (fst p, snd p, dr)) (zrange 0 13)) released_combinations.

Definition values_check : bool :=
  forallb (fun c =>
    match region_of (c_name c) with
    | None => false
    | Some reg =>
      forallb (fun q => max_payload_value_ok reg (c_rep c) (fst (fst q)) (snd (fst q)) (snd q)
                          (get_max_payload (c_tab c) (fst (fst q)) (snd (fst q)) (snd q))) value_domain
    end) band_configs.
