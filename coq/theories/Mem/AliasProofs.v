(* C10 (M1): isolation theorems for the heap models of Mem/Alias.v. *)
From Coq Require Import List NArith ZArith Bool Arith Lia.
From LW Require Import Base.Outcome Base.Bytes Mac.Commands Mac.Stream Frame.Model Crypto.AES
     Mem.Heap Mem.HeapProofs Mem.Alias.
Import ListNotations.
Local Open Scope nat_scope.

(* ---- one step of symbolic execution through a model ---- *)
Ltac step :=
  match goal with
  | |- safe _ _ (retM _) _ => apply safe_ret
  | |- safe _ _ failM _ => apply safe_fail
  | |- safe _ _ panicM _ => apply safe_panic
  | |- safe _ _ (fun h => (h, OutOfFuel)) _ => apply safe_oof
  | |- safe _ _ (bindM (sl_rd _ _) _) _ => eapply safe_bind; [apply safe_rd|intros ? _]
  | |- safe _ _ (bindM (loadM _) _) _ => eapply safe_bind; [apply safe_load|intros ? _]
  | |- safe _ _ (bindM (sl_subM _ _ _) _) _ => eapply safe_bind; [apply safe_subM|intros ? ?]
  | |- safe _ _ (bindM (sl_mk _ _) _) _ => eapply safe_bind; [apply safe_mk|intros ? (? & ? & ?)]
  | |- safe _ _ (bindM (sl_lit _) _) _ => eapply safe_bind; [apply safe_lit|intros ? (? & ?)]
  | |- safe _ _ (bindM (sl_cpy _ _) _) _ =>
    eapply safe_bind; [apply safe_cpy; auto using own_wr_ok|intros ? _]
  | |- safe _ _ (bindM (sl_wr _ _ _) _) _ =>
    eapply safe_bind; [apply safe_wr; auto using own_wr_ok|intros ? _]
  | |- safe _ _ (bindM (sl_app _ _ _) _) _ =>
    eapply safe_bind; [apply safe_app; auto using own_nil|intros ? ?]
  | |- safe _ _ (bindM (sl_app_sl _ _ _) _) _ =>
    eapply safe_bind; [apply safe_app_sl; auto using own_nil|intros ? ?]
  | |- safe _ _ (if ?c then _ else _) _ => destruct c eqn:?
  | |- safe _ _ (liftO ?o _) _ =>
    destruct o eqn:?; cbn [liftO]; [ | apply safe_fail | apply safe_panic | apply safe_oof ]
  end.

(* =================================================================== *)
(* views depend only on the buffers a frame points into                *)
(* =================================================================== *)

Definition same_on (h1 h2 : heap) (ss : list slice) : Prop :=
  forall s, In s ss -> buffer h1 (sbuf s) = buffer h2 (sbuf s).

Lemma view_item_ext h1 h2 it : same_on h1 h2 (item_slices it) -> view_item h1 it = view_item h2 it.
Proof.
  intros H. destruct it as [c [[s|v]|]|s]; simpl in *; auto.
  - do 3 f_equal. apply bytes_of_ext, H. now left.
  - f_equal. apply bytes_of_ext, H. now left.
Qed.

Lemma view_items_ext h1 h2 its : same_on h1 h2 (items_slices its) -> map (view_item h1) its = map (view_item h2) its.
Proof.
  induction its as [|it its IH]; simpl; intros H; auto. f_equal.
  - apply view_item_ext. intros s Hs. apply H. unfold items_slices; simpl. apply in_or_app; now left.
  - apply IH. intros s Hs. apply H. unfold items_slices; simpl. apply in_or_app; now right.
Qed.

Lemma view_ext h1 h2 f : same_on h1 h2 (frame_slices f) -> view h1 f = view h2 f.
Proof.
  intros H. unfold view. f_equal. unfold frame_slices in H.
  destruct (h_pl f) as [m|s|v|]; simpl in *; auto.
  - f_equal. unfold view_mac, view_fhdr. f_equal; [f_equal|].
    + apply view_items_ext. intros s Hs. apply H, in_or_app. now left.
    + apply view_items_ext. intros s Hs. apply H, in_or_app. now right.
  - f_equal. apply bytes_of_ext, H. now left.
Qed.

(* all slices of a frame live in buffers >= n0 / < n0 *)
Definition frame_fresh (n0 : nat) (f : hphy) : Prop := Forall (fresh n0) (frame_slices f).
Definition frame_old (n0 : nat) (f : hphy) : Prop := Forall (fun s => sbuf s < n0) (frame_slices f).

(* replacing the contents of buffer b by anything *)
Lemma view_upd_other h f b l : (forall s, In s (frame_slices f) -> sbuf s <> b) -> view (upd h b l) f = view h f.
Proof. intros H. apply view_ext. intros s Hs. apply buffer_upd_other. now apply H. Qed.

Lemma view_pres_old n0 h h' f : pres noperm n0 h h' -> frame_old n0 f -> view h' f = view h f.
Proof.
  intros P HO. apply view_ext. intros s Hs. eapply pres_noperm_eq; eauto.
  unfold frame_old in HO. rewrite Forall_forall in HO. now apply HO.
Qed.

(* =================================================================== *)
(* decoders                                                            *)
(* =================================================================== *)

Lemma safe_data_unmarshal (W : perm) n0 data : safe W n0 (h_data_unmarshal data) (fresh n0).
Proof. unfold h_data_unmarshal. repeat step. assumption. Qed.

Lemma safe_fhdr_unmarshal (W : perm) n0 data :
  safe W n0 (h_fhdr_unmarshal data) (fun x => Forall (fresh n0) (items_slices (h_fopts x))).
Proof.
  unfold h_fhdr_unmarshal. step; [step|]. step.
  eapply safe_bind with (Q := fun fo => Forall (fresh n0) (items_slices fo)).
  - step; repeat step; simpl; auto.
  - intros fo Hfo. step. exact Hfo.
Qed.

Lemma safe_mac_unmarshal (W : perm) n0 data :
  safe W n0 (h_mac_unmarshal data)
       (fun m => Forall (fresh n0) (items_slices (h_fopts (h_hdr m)) ++ items_slices (h_frm m))).
Proof.
  unfold h_mac_unmarshal. step; [step|]. step. step; [step|]. step.
  eapply safe_bind; [apply safe_fhdr_unmarshal|]. intros hd Hhd.
  eapply safe_bind with (Q := fun _ => True).
  { step; repeat step; auto. }
  intros port _. step; [step|]. step.
  - repeat step. simpl. apply Forall_app. split; auto.
  - step. simpl. rewrite app_nil_r. exact Hhd.
Qed.

Lemma safe_phy_unmarshal (W : perm) n0 data : safe W n0 (h_phy_unmarshal data) (frame_fresh n0).
Proof.
  unfold h_phy_unmarshal. step; [step|]. step. step.
  eapply safe_bind with (Q := fun p => Forall (fresh n0) (payload_slices p)).
  - step.
    + step. step. simpl. constructor.
    + step. step.
      * eapply safe_bind; [apply safe_data_unmarshal|]. intros s Hs. step. simpl. auto.
      * eapply safe_bind; [apply safe_mac_unmarshal|]. intros m Hm. step. exact Hm.
  - intros p Hp. step. exact Hp.
Qed.

Lemma safe_prop_unmarshal (W : perm) n0 data :
  safe W n0 (h_prop_unmarshal data) (fun p => match p with HPProp s => fresh n0 s | HPVal _ => True end).
Proof. unfold h_prop_unmarshal. repeat step. assumption. Qed.

Lemma safe_cmd_unmarshal (W : perm) n0 r up data :
  safe W n0 (h_cmd_unmarshal r up data) (fun x => Forall (fresh n0) (item_slices (fst x))).
Proof.
  unfold h_cmd_unmarshal. step; [step; simpl; auto|].
  eapply safe_bind; [apply safe_rd|intros c _].
  step; [|step; simpl; auto].
  destruct (reg_lookup r up c) as [[sz k]|]; [|step; simpl; auto].
  eapply safe_bind; [apply safe_subM|intros rest Hrest].
  destruct k;
    try (eapply safe_bind; [apply safe_load|intros bs _]; destruct (dec _ bs); step; simpl; auto).
  eapply safe_bind; [apply safe_prop_unmarshal|]. intros p Hp. step. simpl.
  destruct p; simpl; auto.
Qed.

Lemma safe_decode_loop (W : perm) n0 fuel r up bytes i acc :
  Forall (fresh n0) (items_slices acc) ->
  safe W n0 (h_decode_loop fuel r up bytes i acc) (fun its => Forall (fresh n0) (items_slices its)).
Proof.
  revert i acc; induction fuel as [|fuel IH]; intros i acc Hacc; cbn [h_decode_loop].
  - step.
  - step.
    + step. rewrite Forall_forall in *. intros s Hs. apply Hacc.
      unfold items_slices in *. apply in_flat_map in Hs. destruct Hs as (it & Hit & Hs).
      apply in_flat_map. exists it. split; auto. now apply in_rev.
    + step. step; [step|]. step.
      eapply safe_bind; [apply safe_cmd_unmarshal|]. intros it Hit.
      apply IH. unfold items_slices in *. simpl. apply Forall_app. split; auto.
Qed.

Lemma safe_decode_cmds (W : perm) n0 r up pls :
  safe W n0 (h_decode_cmds r up pls) (fun its => Forall (fresh n0) (items_slices its)).
Proof.
  unfold h_decode_cmds. destruct pls as [|[c p|s] [|? ?]]; try step.
  apply safe_decode_loop. constructor.
Qed.

(* =================================================================== *)
(* encryption                                                          *)
(* =================================================================== *)

Lemma safe_xor_at (W : perm) n0 data i s : wr_ok W n0 data -> safe W n0 (h_xor_at data i s) (fun _ => True).
Proof.
  intros HO. revert i; induction s as [|x s IH]; intros i; cbn [h_xor_at].
  - step. exact I.
  - step. step. apply IH.
Qed.

Lemma safe_frm_blocks (W : perm) n0 key up devaddr fcnt data pLen nblocks i :
  wr_ok W n0 data -> safe W n0 (h_frm_blocks key up devaddr fcnt data pLen nblocks i) (fun _ => True).
Proof.
  intros HO. revert i; induction nblocks as [|n IH]; intros i; cbn [h_frm_blocks].
  - step. exact I.
  - eapply safe_bind; [now apply safe_xor_at|]. intros _ _. apply IH.
Qed.

Lemma safe_encrypt_frm (W : perm) n0 key up devaddr fcnt data :
  wr_ok W n0 data ->
  safe W n0 (h_encrypt_frm key up devaddr fcnt data) (fun s => sl_sub data 0 (Z.of_nat (slen data)) = Ok s).
Proof.
  intros HO. unfold h_encrypt_frm.
  eapply safe_bind; [now apply safe_frm_blocks|]. intros _ _. apply safe_subM.
Qed.

Lemma safe_encrypt_fopts (W : perm) n0 key afd up devaddr fcnt data :
  wr_ok W n0 data -> safe W n0 (h_encrypt_fopts key afd up devaddr fcnt data) (fun s => s = data).
Proof.
  intros HO. unfold h_encrypt_fopts. step; [step|].
  eapply safe_bind; [now apply safe_xor_at|]. intros _ _. step. reflexivity.
Qed.

(* =================================================================== *)
(* marshalling: every slice that is appended to is owned               *)
(* =================================================================== *)

Lemma safe_bytes_marshal (W : perm) n0 s : safe W n0 (h_bytes_marshal s) (fun b => fresh n0 b /\ own W n0 b).
Proof. unfold h_bytes_marshal. repeat step. auto. Qed.

Lemma safe_macpl_marshal (W : perm) n0 p : safe W n0 (h_macpl_marshal p) (own W n0).
Proof.
  unfold h_macpl_marshal. destruct p.
  - eapply safe_conseq; [apply safe_bytes_marshal|]. intros b [_ H]. exact H.
  - step. eapply safe_conseq; [apply safe_lit|]. intros b [_ H]. exact H.
Qed.

Lemma safe_cmd_marshal (W : perm) n0 g c p : safe W n0 (h_cmd_marshal g c p) (own W n0).
Proof.
  unfold h_cmd_marshal. step. destruct p as [p|]; [|step; auto].
  eapply safe_bind; [apply safe_macpl_marshal|]. intros ps _.
  apply safe_app_sl. assumption.
Qed.

Lemma safe_item_marshal (W : perm) n0 g it : safe W n0 (h_item_marshal g it) (own W n0).
Proof.
  destruct it; simpl; [apply safe_cmd_marshal|].
  eapply safe_conseq; [apply safe_bytes_marshal|]. intros b [_ H]. exact H.
Qed.

Lemma safe_opts_loop (W : perm) n0 g its opts :
  own W n0 opts -> safe W n0 (h_opts_loop g its opts) (own W n0).
Proof.
  revert opts; induction its as [|it its IH]; intros opts HO; cbn [h_opts_loop].
  - step. exact HO.
  - eapply safe_bind; [apply safe_item_marshal|]. intros b _. step. now apply IH.
Qed.

Lemma safe_fhdr_marshal (W : perm) n0 g x : safe W n0 (h_fhdr_marshal g x) (own W n0).
Proof.
  unfold h_fhdr_marshal.
  eapply safe_bind; [apply safe_opts_loop, own_nil|]. intros opts Hopts.
  step; [step|]. step. step.
  step. step. step. apply safe_app_sl. assumption.
Qed.

Lemma safe_frm_loop (W : perm) n0 g port its out :
  own W n0 out -> safe W n0 (h_frm_loop g port its out) (own W n0).
Proof.
  revert out; induction its as [|it its IH]; intros out HO; cbn [h_frm_loop].
  - step. exact HO.
  - eapply safe_bind with (Q := fun _ => True).
    + destruct it as [c p|s]; [|eapply safe_conseq; [apply safe_bytes_marshal|auto]].
      destruct port as [[|q]|]; try step. eapply safe_conseq; [apply safe_cmd_marshal|auto].
    + intros b _. step. now apply IH.
Qed.

Lemma safe_mac_marshal (W : perm) n0 g m : safe W n0 (h_mac_marshal g m) (own W n0).
Proof.
  unfold h_mac_marshal.
  eapply safe_bind; [apply safe_fhdr_marshal|]. intros b Hb. step.
  destruct (h_fport m) as [p|].
  - step; [step|]. step.
    eapply safe_bind; [apply safe_frm_loop, own_nil|]. intros b' Hb'.
    apply safe_app_sl. assumption.
  - destruct (h_frm m); step. assumption.
Qed.

Lemma safe_payload_marshal (W : perm) n0 g p : safe W n0 (h_payload_marshal g p) (own W n0).
Proof.
  destruct p as [m|s|v|]; simpl.
  - apply safe_mac_marshal.
  - eapply safe_conseq; [apply safe_bytes_marshal|]. intros b [_ H]. exact H.
  - step. eapply safe_conseq; [apply safe_lit|]. intros b [_ H]. exact H.
  - step.
Qed.

Lemma safe_phy_marshal (W : perm) n0 g p : safe W n0 (h_phy_marshal g p) (own W n0).
Proof.
  unfold h_phy_marshal.
  assert (H : safe W n0
    (doM b <- sl_lit [mhdr_marshal (h_mtype p) (h_major p)];
     doM out <- sl_app_sl g nil_slice b;
     doM b0 <- h_payload_marshal g (h_pl p);
     doM out0 <- sl_app_sl g out b0; sl_app g out0 (h_mic p)) (own W n0)).
  { step. step. eapply safe_bind; [apply safe_payload_marshal|]. intros b0 _. step. apply safe_app. assumption. }
  destruct (h_pl p); auto. step.
Qed.

(* a fresh output: the encoder's result never points into a buffer that existed before, unless it
   has no capacity at all *)
Lemma own_noperm n0 s : own noperm n0 s -> fresh n0 s \/ scap s = 0.
Proof.
  intros [HL [H|H]]; [now left|right].
  destruct (scap s) eqn:E; auto. exfalso. apply (H (soff s)). lia.
Qed.

(* =================================================================== *)
(* MIC, frame-level encryption                                         *)
(* =================================================================== *)

Lemma safe_mic_bytes (W : perm) n0 g p : safe W n0 (h_mic_bytes g p) (own W n0).
Proof.
  unfold h_mic_bytes. step. step. eapply safe_bind; [apply safe_payload_marshal|]. intros b0 _.
  apply safe_app_sl. assumption.
Qed.

Lemma safe_calc_mic (W : perm) n0 f g p : safe W n0 (h_calc_mic f g p) (fun _ => True).
Proof. unfold h_calc_mic. eapply safe_bind; [apply safe_mic_bytes|]. intros mb _. step. step. exact I. Qed.

Lemma safe_calc_data_mic (W : perm) n0 f g p : safe W n0 (h_calc_data_mic f g p) (fun _ => True).
Proof. unfold h_calc_data_mic. destruct (h_pl p); try step. apply safe_calc_mic. Qed.

Lemma safe_calc_join_mic (W : perm) n0 f g p : safe W n0 (h_calc_join_mic f g p) (fun _ => True).
Proof. unfold h_calc_join_mic. destruct (h_pl p); try step; apply safe_calc_mic. Qed.

Lemma safe_validate_data_mic (W : perm) n0 f g p : safe W n0 (h_validate_data_mic f g p) (fun _ => True).
Proof. unfold h_validate_data_mic. eapply safe_bind; [apply safe_calc_data_mic|]. intros; step. exact I. Qed.

Lemma safe_validate_join_mic (W : perm) n0 f g p : safe W n0 (h_validate_join_mic f g p) (fun _ => True).
Proof. unfold h_validate_join_mic. eapply safe_bind; [apply safe_calc_join_mic|]. intros; step. exact I. Qed.

Lemma safe_set_data_mic (W : perm) n0 f g p :
  safe W n0 (h_set_data_mic f g p) (fun q => h_pl q = h_pl p /\ h_mtype q = h_mtype p /\ h_major q = h_major p).
Proof. unfold h_set_data_mic. eapply safe_bind; [apply safe_calc_data_mic|]. intros; step. simpl. auto. Qed.

Lemma safe_phy_encrypt_frm (W : perm) n0 g key p : safe W n0 (h_phy_encrypt_frm g key p) (fun _ => True).
Proof.
  unfold h_phy_encrypt_frm. destruct (h_pl p) as [m|s|v|]; try apply safe_fail.
  destruct (h_frm m) eqn:E; [step; exact I|].
  eapply safe_bind; [apply safe_frm_loop, own_nil|]. intros data Hd.
  eapply safe_bind; [apply safe_encrypt_frm, own_wr_ok, Hd|]. intros; step. exact I.
Qed.

Lemma safe_phy_decrypt_frm (W : perm) n0 g r key p : safe W n0 (h_phy_decrypt_frm g r key p) (fun _ => True).
Proof.
  unfold h_phy_decrypt_frm. eapply safe_bind; [apply safe_phy_encrypt_frm|]. intros p1 _.
  destruct (h_pl p1) as [m|s|v|]; try step.
  destruct (h_fport m) as [[|q]|]; try (step; exact I); destruct (h_frm m); try (step; exact I).
  eapply safe_bind; [apply safe_decode_cmds|]. intros; step. exact I.
Qed.

Lemma safe_phy_encrypt_fopts (W : perm) n0 g key p : safe W n0 (h_phy_encrypt_fopts g key p) (fun _ => True).
Proof.
  unfold h_phy_encrypt_fopts. destruct (h_pl p) as [m|s|v|]; try apply safe_fail.
  destruct (h_fopts (h_hdr m)) eqn:E; [step; exact I|].
  eapply safe_bind; [apply safe_opts_loop, own_nil|]. intros macB Hm.
  eapply safe_bind; [apply safe_encrypt_fopts, own_wr_ok, Hm|]. intros; step. exact I.
Qed.

Lemma safe_phy_decrypt_fopts (W : perm) n0 g r key p : safe W n0 (h_phy_decrypt_fopts g r key p) (fun _ => True).
Proof.
  unfold h_phy_decrypt_fopts. eapply safe_bind; [apply safe_phy_encrypt_fopts|]. intros p1 _.
  destruct (h_pl p1) as [m|s|v|]; try apply safe_fail.
  destruct (h_fopts (h_hdr m)); [step; exact I|].
  eapply safe_bind; [apply safe_decode_cmds|]. intros; step. exact I.
Qed.

Lemma safe_decrypt_ja (W : perm) n0 g key p : safe W n0 (h_decrypt_ja g key p) (fun q => frame_slices q = []).
Proof.
  unfold h_decrypt_ja. destruct (h_pl p) as [m|dp|v|]; try apply safe_fail.
  step. step. step. step; [step|]. step. step. step. reflexivity.
Qed.

Lemma safe_encrypt_ja (W : perm) n0 g key p : safe W n0 (h_encrypt_ja g key p) (frame_fresh n0).
Proof.
  unfold h_encrypt_ja. destruct (h_pl p) as [m|dp|v|]; try apply safe_fail.
  destruct v; try apply safe_fail.
  step. step. step. step; [step|]. step. step. step. step. step. step.
  cbv beta in *. unfold frame_fresh, frame_slices; simpl. constructor; auto.
  eapply fresh_sub; eauto.
Qed.

(* =================================================================== *)
(* the theorems of props/C10.v                                         *)
(* =================================================================== *)

(* the heap afterwards: all buffers that existed before are unchanged *)
Definition old_unchanged (h h' : heap) : Prop :=
  length h <= length h' /\ forall b, b < length h -> buffer h' b = buffer h b.

Lemma pres_noperm_old h h' : pres noperm (length h) h h' -> old_unchanged h h'.
Proof. intros P. split; [eapply pres_length; eauto|]. intros b Hb. eapply pres_noperm_eq; eauto. Qed.

(* C10_decode_isolated / C10_decoders_readonly *)
Theorem decode_isolated : forall data h h' f,
  h_phy_unmarshal data h = (h', Ok f) ->
  forall b, b < length h -> forall l, view (upd h' b l) f = view h' f.
Proof.
  intros data h h' f E b Hb l.
  destruct (safe_run noperm _ _ h h' (Ok f) (safe_phy_unmarshal noperm (length h) data) E) as [_ Q].
  specialize (Q f eq_refl). apply view_upd_other. intros s Hs.
  unfold frame_fresh in Q. rewrite Forall_forall in Q. specialize (Q s Hs). unfold fresh in Q. lia.
Qed.

Theorem decoders_readonly : forall data h,
  old_unchanged h (fst (h_phy_unmarshal data h)) /\
  (forall r up, old_unchanged h (fst (h_cmd_unmarshal r up data h))) /\
  (forall r up pls, old_unchanged h (fst (h_decode_cmds r up pls h))) /\
  old_unchanged h (fst (h_data_unmarshal data h)).
Proof.
  intros data h. split; [|split; [|split]].
  - apply pres_noperm_old. apply (safe_phy_unmarshal noperm (length h) data h (le_n _)).
  - intros r up. apply pres_noperm_old. apply (safe_cmd_unmarshal noperm (length h) r up data h (le_n _)).
  - intros r up pls. apply pres_noperm_old. apply (safe_decode_cmds noperm (length h) r up pls h (le_n _)).
  - apply pres_noperm_old. apply (safe_data_unmarshal noperm (length h) data h (le_n _)).
Qed.

Theorem cmd_decode_isolated : forall r up data h h' it e,
  h_cmd_unmarshal r up data h = (h', Ok (it, e)) ->
  forall b, b < length h -> forall l, view_item (upd h' b l) it = view_item h' it.
Proof.
  intros r up data h h' it e E b Hb l.
  destruct (safe_run noperm _ _ h h' _ (safe_cmd_unmarshal noperm (length h) r up data) E) as [_ Q].
  specialize (Q _ eq_refl). simpl in Q. apply view_item_ext. intros s Hs.
  rewrite Forall_forall in Q. specialize (Q s Hs). unfold fresh in Q.
  apply buffer_upd_other. lia.
Qed.

(* the exported decoders of the frame parts: FHDR.UnmarshalBinary, MACPayload.UnmarshalBinary, DataPayload.UnmarshalBinary,
   ProprietaryMACCommandPayload.UnmarshalBinary *)
Theorem part_decoders_isolated : forall data h,
  (forall h' x, h_fhdr_unmarshal data h = (h', Ok x) ->
     forall b, b < length h -> forall l, view_fhdr (upd h' b l) x = view_fhdr h' x) /\
  (forall h' m, h_mac_unmarshal data h = (h', Ok m) ->
     forall b, b < length h -> forall l, view_mac (upd h' b l) m = view_mac h' m) /\
  (forall h' s, h_data_unmarshal data h = (h', Ok s) ->
     forall b, b < length h -> forall l, bytes_of (upd h' b l) s = bytes_of h' s) /\
  (forall h' p, h_prop_unmarshal data h = (h', Ok p) ->
     forall b, b < length h -> forall l, view_macpl (upd h' b l) p = view_macpl h' p) /\
  old_unchanged h (fst (h_fhdr_unmarshal data h)) /\
  old_unchanged h (fst (h_mac_unmarshal data h)) /\
  old_unchanged h (fst (h_prop_unmarshal data h)).
Proof.
  intros data h.
  assert (IT : forall n0 hh b l its, Forall (fresh n0) (items_slices its) -> b < n0 ->
               map (view_item (upd hh b l)) its = map (view_item hh) its).
  { intros n0 hh b l its F Hb. apply view_items_ext. intros s Hs. apply buffer_upd_other.
    rewrite Forall_forall in F. specialize (F s Hs). unfold fresh in F. lia. }
  split; [|split; [|split; [|split; [|split; [|split]]]]].
  - intros h' x E b Hb l.
    destruct (safe_run noperm _ _ h h' _ (safe_fhdr_unmarshal noperm (length h) data) E) as [_ Q].
    specialize (Q x eq_refl). unfold view_fhdr. f_equal. eapply IT; eauto.
  - intros h' m E b Hb l.
    destruct (safe_run noperm _ _ h h' _ (safe_mac_unmarshal noperm (length h) data) E) as [_ Q].
    specialize (Q m eq_refl). apply Forall_app in Q as [Q1 Q2].
    unfold view_mac, view_fhdr. f_equal; [f_equal|]; eapply IT; eauto.
  - intros h' s E b Hb l.
    destruct (safe_run noperm _ _ h h' _ (safe_data_unmarshal noperm (length h) data) E) as [_ Q].
    specialize (Q s eq_refl). apply bytes_of_ext, buffer_upd_other. unfold fresh in Q. lia.
  - intros h' p E b Hb l.
    destruct (safe_run noperm _ _ h h' _ (safe_prop_unmarshal noperm (length h) data) E) as [_ Q].
    specialize (Q p eq_refl). destruct p as [s|v]; simpl; auto.
    f_equal. apply bytes_of_ext, buffer_upd_other. unfold fresh in Q. lia.
  - apply pres_noperm_old. apply (safe_fhdr_unmarshal noperm (length h) data h (le_n _)).
  - apply pres_noperm_old. apply (safe_mac_unmarshal noperm (length h) data h (le_n _)).
  - apply pres_noperm_old. apply (safe_prop_unmarshal noperm (length h) data h (le_n _)).
Qed.

(* C10_marshal_readonly / C10_encode_isolated *)
Theorem marshal_readonly : forall g f h,
  old_unchanged h (fst (h_phy_marshal g f h)).
Proof. intros. apply pres_noperm_old. apply (safe_phy_marshal noperm (length h) g f h (le_n _)). Qed.

Theorem encode_isolated : forall g f h h' out,
  frame_old (length h) f ->
  h_phy_marshal g f h = (h', Ok out) ->
  view h' f = view h f /\
  (length h <= sbuf out \/ scap out = 0) /\
  forall b, length h <= b -> forall l, view (upd h' b l) f = view h f.
Proof.
  intros g f h h' out HO E.
  destruct (safe_run noperm _ _ h h' (Ok out) (safe_phy_marshal noperm (length h) g f) E) as [P Q].
  assert (V : view h' f = view h f) by (eapply view_pres_old; eauto).
  split; [exact V|]. split; [apply own_noperm, Q; reflexivity|].
  intros b Hb l. rewrite <- V. apply view_upd_other. intros s Hs.
  unfold frame_old in HO. rewrite Forall_forall in HO. specialize (HO s Hs). lia.
Qed.

(* every MarshalBinary of a PART of a frame (FOpts / FRMPayload element, MAC command, command payload, FHDR,
   MACPayload, the MACPayload field of a frame): no existing buffer written, and the output is memory that did not
   exist before (or has no capacity): overwriting it cannot change anything the frame refers to *)
Definition part_output_new (h : heap) (x : heap * outcome slice) : Prop :=
  old_unchanged h (fst x) /\ forall out, snd x = Ok out -> length h <= sbuf out \/ scap out = 0.

Theorem part_marshal_isolated : forall g h,
  (forall it, part_output_new h (h_item_marshal g it h)) /\
  (forall p, part_output_new h (h_macpl_marshal p h)) /\
  (forall c p, part_output_new h (h_cmd_marshal g c p h)) /\
  (forall x, part_output_new h (h_fhdr_marshal g x h)) /\
  (forall m, part_output_new h (h_mac_marshal g m h)) /\
  (forall p, part_output_new h (h_payload_marshal g p h)).
Proof.
  intros g h.
  assert (K : forall m : M slice, safe noperm (length h) m (own noperm (length h)) -> part_output_new h (m h)).
  { intros m S. destruct (S h (le_n _)) as [P Q]. split; [now apply pres_noperm_old|].
    intros out E. apply own_noperm, Q, E. }
  split; [|split; [|split; [|split; [|split]]]]; intros; apply K.
  - apply safe_item_marshal.
  - apply safe_macpl_marshal.
  - apply safe_cmd_marshal.
  - apply safe_fhdr_marshal.
  - apply safe_mac_marshal.
  - apply safe_payload_marshal.
Qed.

(* C10_encrypt_frame_rule: for every capacity of the argument *)
Definition only_window_changed (data : slice) (h h' : heap) : Prop :=
  length h <= length h' /\
  forall b, b < length h ->
    length (buffer h' b) = length (buffer h b) /\
    forall i, ~ (b = sbuf data /\ soff data <= i < soff data + slen data) ->
              nth i (buffer h' b) 0%N = nth i (buffer h b) 0%N.

Theorem encrypt_frame_rule : forall key up afd devaddr fcnt data h,
  only_window_changed data h (fst (h_encrypt_frm key up devaddr fcnt data h)) /\
  only_window_changed data h (fst (h_encrypt_fopts key afd up devaddr fcnt data h)).
Proof.
  intros. split.
  - apply (safe_encrypt_frm (window data) (length h) key up devaddr fcnt data (window_wr_ok _ _) h (le_n _)).
  - apply (safe_encrypt_fopts (window data) (length h) key afd up devaddr fcnt data (window_wr_ok _ _) h (le_n _)).
Qed.

(* C10_validate_readonly: MIC validation / calculation / setting and the frame-level crypto methods do not
   write to any buffer that existed before; in particular the frame they inspect is unchanged *)
Theorem validate_readonly : forall f0 g p h,
  old_unchanged h (fst (h_validate_data_mic f0 g p h)) /\
  old_unchanged h (fst (h_validate_join_mic f0 g p h)) /\
  old_unchanged h (fst (h_set_data_mic f0 g p h)) /\
  (frame_old (length h) p ->
   view (fst (h_validate_data_mic f0 g p h)) p = view h p /\
   view (fst (h_validate_join_mic f0 g p h)) p = view h p).
Proof.
  intros f0 g p h.
  pose proof (safe_validate_data_mic noperm (length h) f0 g p h (le_n _)) as [P1 _].
  pose proof (safe_validate_join_mic noperm (length h) f0 g p h (le_n _)) as [P2 _].
  pose proof (safe_set_data_mic noperm (length h) f0 g p h (le_n _)) as [P3 _].
  repeat split; try (now apply pres_noperm_old); eapply view_pres_old; eauto.
Qed.

Theorem frame_crypto_readonly : forall g r key p h,
  old_unchanged h (fst (h_phy_encrypt_frm g key p h)) /\
  old_unchanged h (fst (h_phy_decrypt_frm g r key p h)) /\
  old_unchanged h (fst (h_phy_encrypt_fopts g key p h)) /\
  old_unchanged h (fst (h_phy_decrypt_fopts g r key p h)) /\
  old_unchanged h (fst (h_decrypt_ja g key p h)) /\
  old_unchanged h (fst (h_encrypt_ja g key p h)).
Proof.
  intros. split; [|split; [|split; [|split; [|split]]]]; apply pres_noperm_old.
  - apply (safe_phy_encrypt_frm noperm (length h) g key p h (le_n _)).
  - apply (safe_phy_decrypt_frm noperm (length h) g r key p h (le_n _)).
  - apply (safe_phy_encrypt_fopts noperm (length h) g key p h (le_n _)).
  - apply (safe_phy_decrypt_fopts noperm (length h) g r key p h (le_n _)).
  - apply (safe_decrypt_ja noperm (length h) g key p h (le_n _)).
  - apply (safe_encrypt_ja noperm (length h) g key p h (le_n _)).
Qed.
