(* SPECIFICATION for C13, written from the property text: structural rules
   every band table has to satisfy, as executable (bool) predicates so that
   the theorems (over the dumped tables) and the correspondence run (over
   what the implementation returned) use the same definitions.
   Max-payload VALUES are not transcribed from the Regional Parameters: they
   are checked structurally (M = N + 8, N <= 242, repeater <= non-repeater,
   monotone in the spreading factor).  No reference to Band/Lookup.v. *)
From Coq Require Import List ZArith Bool String.
From LW Require Import Base.Outcome Band.Types Band.Regional Band.Rx1Spec.
Import ListNotations.
Open Scope Z_scope.

(* names a caller can pass *)
Definition protocol_versions : list string :=
  ["1.0.0"; "1.0.1"; "1.0.2"; "1.0.3"; "1.0.4"; "1.1.0"]%string.
Definition reg_param_revisions : list string :=
  ["A"; "B"; "C"; "RP002-1.0.0"; "RP002-1.0.1"; "RP002-1.0.2"; "RP002-1.0.3"]%string.

Definition str_mem (s : string) (l : list string) : bool := existsb (String.eqb s) l.

(* a version argument that is not the name of a regional-parameters revision
   (the AS923 non-repeater table carries the key "RP002-1.0.0" at the version
   level; a query with that string as *protocol version* is outside the claim) *)
Definition version_query_sane (ver : string) : bool := negb (str_mem ver reg_param_revisions).

(* ---- closure of data-rate references --------------------------------------- *)

Definition range_all (P : Z -> bool) (lo hi : Z) : bool := forallb P (zrange lo hi).

(* channel DR range refers to defined data-rates of the channel's direction *)
Definition uplink_channel_closed (t : tables) (lo hi : Z) : bool :=
  (lo <=? hi) && range_all (dr_defined_up t) lo hi.
Definition downlink_channel_closed (t : tables) (lo hi : Z) : bool :=
  (lo <=? hi) && range_all (dr_defined_down t) lo hi.

Definition enabled_drs_closed (t : tables) (l : list Z) : bool := forallb (dr_defined_up t) l.

(* CFList data-rate range of bands that support extra channels *)
Definition cflist_closed (t : tables) : bool :=
  if t_extra t then uplink_channel_closed t (t_cfmin t) (t_cfmax t) else true.

(* enabled uplink data-rates [l] handed out by a band whose uplink channels carry the DR
   ranges [chans] = (frequency, MinDR, MaxDR), e.g. after a history of AddChannel calls:
   every returned data-rate lies in the range of some channel, every data-rate of every
   channel's range is returned, the list is strictly ascending, and - when every channel
   range consists of defined uplink data-rates - every returned data-rate is a defined
   uplink data-rate (a range [0..5] next to a range [7..7] must not hand out an undefined 6) *)
Definition in_chan_range (d : Z) (c : chan3) : bool := (snd (fst c) <=? d) && (d <=? snd c).
Fixpoint strictly_ascending (l : list Z) : bool :=
  match l with
  | a :: ((b :: _) as l') => (a <? b) && strictly_ascending l'
  | _ => true
  end.
Definition enabled_drs_cover (chans : list chan3) (l : list Z) : bool :=
  forallb (fun d => existsb (in_chan_range d) chans) l
  && forallb (fun c => range_all (fun d => existsb (Z.eqb d) l) (snd (fst c)) (snd c)) chans
  && strictly_ascending l.
Definition enabled_drs_post_ok (t : tables) (chans : list chan3) (l : list Z) : bool :=
  enabled_drs_cover chans l
  && (if forallb (fun c => uplink_channel_closed t (snd (fst c)) (snd c)) chans
      then enabled_drs_closed t l else true).

(* ---- index <-> parameters ---------------------------------------------------- *)
(* dr is defined with parameters d; o_up / o_down = index found for d's parameters
   in the uplink / downlink direction *)
Definition dr_roundtrip_ok (dr : Z) (d : data_rate) (o_up o_down : outcome Z) : bool :=
  (if dr_up d then outcome_eqb Z.eqb o_up (Ok dr) else true)
  && (if dr_down d then outcome_eqb Z.eqb o_down (Ok dr) else true).

(* ---- max payload sizes --------------------------------------------------------- *)
Definition size_wf (s : Z * Z) : bool :=
  (fst s =? snd s + 8) && (0 <=? snd s) && (snd s <=? 242).
Definition size_zero (s : Z * Z) : bool := (fst s =? 0) && (snd s =? 0).
Definition size_le (a b : Z * Z) : bool := (fst a <=? fst b) && (snd a <=? snd b).

(* Every (version, revision) combination must resolve: a data-rate that a region lists since
   its first release has a maximum payload size under EVERY protocol-version string and EVERY
   regional-parameters revision string (known keys resolve to their table, anything else to
   the "latest" entry of that level).  Only data-rates that the Regional Parameters added to a
   region later may be answered with an error under an older version / revision:
   the LR-FHSS data-rates (RP002-1.0.2), CN470 DR6 / DR7 (RP002-1.0.1) and AU915 DR5 / DR6
   (LoRaWAN 1.0.2 rev B; before, AU915 had DR0..4). *)
Definition late_data_rate (reg : region) (d : data_rate) (dr : Z) : bool :=
  String.eqb (dr_mod d) "LR_FHSS"
  || match reg with
     | RCN470 => (dr =? 6) || (dr =? 7)
     | RAU915 => (dr =? 5) || (dr =? 6)
     | _ => false
     end.
Definition must_have_size (reg : region) (drs : zmap data_rate) (dr : Z) : bool :=
  match zfind dr drs with
  | Some d => negb (late_data_rate reg d dr)
  | None => false
  end.
Definition every_revision_ok (reg : region) (drs : zmap data_rate) (dr : Z) (o : outcome (Z * Z)) : bool :=
  if must_have_size reg drs dr then is_ok o else true.

Definition is_lora (d : data_rate) : bool := String.eqb (dr_mod d) "LORA".

(* two data-rates are compared only when some direction can use both (the
   repeater-compatible US915/AU915 tables of LoRaWAN 1.0.x limit the 500 kHz
   downlink data-rates to 230/222 but not the 500 kHz uplink data-rate) *)
Definition share_direction (a b : data_rate) : bool :=
  (dr_up a && dr_up b) || (dr_down a && dr_down b).

(* size s listed for data-rate dr, inside the size table st of a band with
   data-rates drs: no other LoRa data-rate of the same bandwidth and direction
   with a lower spreading factor has a smaller size (and vice versa) *)
Definition sf_monotone_cell (drs : zmap data_rate) (st : size_table) (dr : Z) (s : Z * Z) : bool :=
  match zfind dr drs with
  | Some d =>
    if is_lora d then
      forallb (fun e =>
        match zfind (fst e) drs with
        | Some d' =>
          if is_lora d' && (dr_bw d' =? dr_bw d) && share_direction d d' then
            if dr_sf d' <? dr_sf d then size_le s (snd e)
            else if dr_sf d <? dr_sf d' then size_le (snd e) s
            else true
          else true
        | None => true
        end) st
    else true
  | None => true
  end.

(* ---- Regional Parameters values -------------------------------------------------- *)
Definition chan3_of (c : channel) : chan3 := (ch_freq c, ch_min c, ch_max c).
Definition chan3_eqb (a b : chan3) : bool :=
  (fst (fst a) =? fst (fst b)) && (snd (fst a) =? snd (fst b)) && (snd a =? snd b).

(* The full channel dump after a history of AddChannel(f, MinDR, MaxDR) calls [ops] ([errs]: which
   calls were refused): AddChannel ADDS a channel - the uplink channels are the region's default
   channels (unchanged: frequency and DR range as in the Regional Parameters) followed by one
   channel per accepted call, in call order, with exactly the arguments of the call, also when the
   frequency is already in use; the custom channels are exactly the added ones; the enabled uplink
   data-rates are the union of the ranges; and when every call names a range of defined uplink
   data-rates, every channel range and every data-rate handed out is defined. *)
Definition accepted_ops (ops : list chan3) (errs : list bool) : list chan3 :=
  map fst (filter (fun p => negb (snd p)) (combine ops errs)).
Definition channels_after_adds_ok (reg : region) (t : tables) (ops : list chan3) (errs : list bool)
           (chans : list chan3) (customs : list Z) (l : list Z) : bool :=
  let defaults := spec_uplink_channels reg in
  (List.length errs =? List.length ops)%nat
  && list_eqb chan3_eqb chans (defaults ++ accepted_ops ops errs)
  && list_eqb Z.eqb customs (zrange (zlen defaults) (zlen chans - 1))
  && enabled_drs_cover chans l
  && (if forallb (fun o => uplink_channel_closed t (snd (fst o)) (snd o)) ops
      then forallb (fun c => uplink_channel_closed t (snd (fst c)) (snd c)) chans && enabled_drs_closed t l
      else true).

(* default channels: frequencies and DR ranges as specified, enabled, not custom *)
Definition default_channels_ok (spec : list chan3) (chs : list channel) : bool :=
  list_eqb chan3_eqb (map chan3_of chs) spec
  && forallb (fun c => ch_enabled c && negb (ch_custom c)) chs.

Definition data_rates_ok (spec drs : zmap data_rate) : bool :=
  list_eqb (fun a b => (fst a =? fst b) && data_rate_eqb (snd a) (snd b)) drs spec.

(* TX power index i listed with offset v *)
Definition tx_power_ok (i v : Z) : bool := v =? spec_tx_power_offset i.

(* observed result of a max-payload query against the transcribed values *)
Definition max_payload_value_ok (reg : region) (rep : bool) (ver rev : string) (dr : Z)
           (o : outcome (Z * Z)) : bool :=
  match spec_max_payload reg rep ver rev dr with
  | Some s => outcome_eqb pair_eqb o (Ok s)
  | None => true
  end.
