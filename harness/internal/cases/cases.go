// Package cases collects correspondence cases, shards them into Coq files
// and writes the metadata the driver needs (keys, replay data, statistics).
package cases

import (
	"bufio"
	"crypto/sha256"
	"encoding/json"
	"fmt"
	"math"
	"os"
	"path/filepath"
	"runtime"
	"sort"
	"strconv"
	"sync"
	"time"
)

// Case is one input together with what the implementation did on it.
type Case struct {
	Term       string                 // Gallina term of type `case` of the Corr module
	Key        string                 // stable identifier used by known_findings.json
	Kind       string                 // histogram bucket
	Nontrivial bool                   // by the rule stated in Meta.Rule
	Replay     map[string]interface{} // enough to re-run this case by hand
}

// GoFail is a property failure established on the implementation alone.
type GoFail struct {
	Key    string                 `json:"key"`
	What   string                 `json:"what"`
	Replay map[string]interface{} `json:"replay"`
}

type Set struct {
	ID         string
	Dir        string
	Module     string // e.g. "LW.Corr.C11"
	ShardSize  int
	Rule       string
	Extra      map[string]interface{}
	cases      []Case
	fails      []GoFail
	Exhaust    []string // names of domains enumerated completely
	remembered []remembered
}

type remembered struct {
	key    string
	first  string
	replay map[string]interface{}
	run    func() string
}

// Remember stores a call whose result `first` has been recorded as a case (and so is compared with
// the model): run repeats exactly that call on freshly built arguments. ReplayRemembered repeats the
// stored calls later in the same process, in another order and with other calls in between; the
// library has no documented state, so every repetition must give `first` again.
func (s *Set) Remember(key, first string, replay map[string]interface{}, run func() string) {
	s.remembered = append(s.remembered, remembered{key, first, replay, run})
}

// ReplayRemembered runs `rounds` passes over the remembered calls. intn draws the order; between (may
// be nil) is called before every repetition. A differing result is a Go-side failure "history:<key>".
func (s *Set) ReplayRemembered(intn func(int) int, rounds int, between func()) {
	n := len(s.remembered)
	reported := map[string]bool{}
	count := 0
	for round := 0; round < rounds; round++ {
		order := make([]int, n)
		for i := range order {
			order[i] = i
		}
		switch round % 3 {
		case 0: // reverse order: every call now runs after the calls that followed it the first time
			for i, j := 0, n-1; i < j; i, j = i+1, j-1 {
				order[i], order[j] = order[j], order[i]
			}
		case 1: // same order once more: every call right after its old predecessor, but with all state warmed up
		default:
			for i := n - 1; i > 0; i-- {
				j := intn(i + 1)
				order[i], order[j] = order[j], order[i]
			}
		}
		prev := "(start of pass)"
		for _, i := range order {
			m := s.remembered[i]
			if between != nil {
				between()
			}
			Begin("repeat:"+m.key, m.replay)
			got := m.run()
			End()
			count++
			if got != m.first && !reported[m.key] {
				reported[m.key] = true
				rp := map[string]interface{}{"call": m.replay, "first_result": clip(m.first), "later_result": clip(got), "previous_call": prev, "pass": round}
				s.Fail(GoFail{Key: "history:" + m.key, What: "the same call on the same arguments gave a different result later in the same process", Replay: rp})
			}
			prev = m.key
		}
	}
	// one more pass on a single P: a result must not depend on how many processors the runtime may use
	old := runtime.GOMAXPROCS(1)
	prev := "(start of single-P pass)"
	for i := n - 1; i >= 0; i-- {
		m := s.remembered[i]
		Begin("repeat-on-one-P:"+m.key, m.replay)
		got := m.run()
		End()
		count++
		if got != m.first && !reported[m.key] {
			reported[m.key] = true
			s.Fail(GoFail{Key: "history:" + m.key, What: "the same call gave a different result with GOMAXPROCS=1",
				Replay: map[string]interface{}{"call": m.replay, "first_result": clip(m.first), "later_result": clip(got), "previous_call": prev, "gomaxprocs": 1}})
		}
		prev = m.key
	}
	runtime.GOMAXPROCS(old)
	s.Extra["repeated_calls"] = count
	s.Extra["repeated_calls_rule"] = "every remembered call repeated in reverse, original and shuffled order with unrelated library calls in between; result must equal the first (model-compared) result"
}

// ReplayConcurrently repeats the remembered calls from `workers` goroutines at once (each goroutine walks
// the whole list from its own starting point, `rounds` times). The calls work on distinct values, so the
// library must give every one its first, model-compared result again; a call that does not come back
// within the deadline is reported as a hang. The run closures must not share mutable harness state.
func (s *Set) ReplayConcurrently(workers, rounds int, deadline time.Duration) {
	n := len(s.remembered)
	if n == 0 {
		return
	}
	var mu sync.Mutex
	bad := map[string][2]string{}
	var calls int64
	var wg sync.WaitGroup
	for g := 0; g < workers; g++ {
		wg.Add(1)
		go func(g int) {
			defer wg.Done()
			local := int64(0)
			for r := 0; r < rounds; r++ {
				for k := 0; k < n; k++ {
					m := s.remembered[(k+g*n/workers+r)%n]
					got := func() (out string) {
						defer func() {
							if rec := recover(); rec != nil {
								out = fmt.Sprintf("panic: %v", rec)
							}
						}()
						return m.run()
					}()
					local++
					if got != m.first {
						mu.Lock()
						if _, seen := bad[m.key]; !seen && len(bad) < 50 {
							bad[m.key] = [2]string{m.first, got}
						}
						mu.Unlock()
					}
				}
			}
			mu.Lock()
			calls += local
			mu.Unlock()
		}(g)
	}
	done := make(chan struct{})
	go func() { wg.Wait(); close(done) }()
	select {
	case <-done:
	case <-time.After(deadline):
		s.Fail(GoFail{Key: "hang:concurrent-replay", What: fmt.Sprintf("%d goroutines repeating the remembered calls did not finish within %v (deadlock or livelock in the library)", workers, deadline),
			Replay: map[string]interface{}{"workers": workers, "calls": n}})
		_ = s.Finish()
		os.Exit(0)
	}
	for key, v := range bad {
		var rp map[string]interface{}
		for _, m := range s.remembered {
			if m.key == key {
				rp = m.replay
				break
			}
		}
		s.Fail(GoFail{Key: "concurrent:" + key, What: fmt.Sprintf("the same call gave a different result while %d goroutines were calling the library on other values", workers),
			Replay: map[string]interface{}{"call": rp, "sequential_result": clip(v[0]), "concurrent_result": clip(v[1]), "workers": workers}})
	}
	s.Extra["concurrent_calls"] = calls
	s.Extra["concurrent_calls_rule"] = fmt.Sprintf("%d goroutines x %d rounds over every remembered call; each result must equal the sequential, model-compared one", workers, rounds)
}

func clip(x string) string {
	if len(x) > 400 {
		return x[:400] + "…"
	}
	return x
}

var failMu sync.Mutex

// ---- watchdog: an implementation call that does not return is a finding, not a stuck check ----
var (
	wdMu      sync.Mutex
	wdWhat    string
	wdReplay  map[string]interface{}
	wdStarted time.Time
)

// Begin marks the start of a call into the implementation; End its return.
func Begin(what string, replay map[string]interface{}) {
	wdMu.Lock()
	wdWhat, wdReplay, wdStarted = what, replay, time.Now()
	wdMu.Unlock()
}

func End() {
	wdMu.Lock()
	wdWhat = ""
	wdMu.Unlock()
}

// Watchdog reports a call that has been running for longer than d as a Go-side failure
// (key "hang:<what>"), writes the cases collected so far and ends the process.
func (s *Set) Watchdog(d time.Duration) {
	go func() {
		for {
			time.Sleep(100 * time.Millisecond)
			wdMu.Lock()
			what, rp, st := wdWhat, wdReplay, wdStarted
			wdMu.Unlock()
			if what != "" && time.Since(st) > d {
				s.Fail(GoFail{Key: "hang:" + what, What: fmt.Sprintf("%s did not return within %v", what, d), Replay: rp})
				_ = s.Finish()
				os.Exit(0)
			}
		}
	}()
}

func New(id, dir, module, rule string) *Set {
	return &Set{ID: id, Dir: dir, Module: module, ShardSize: 500, Rule: rule, Extra: map[string]interface{}{}}
}

func (s *Set) Add(c Case) { s.cases = append(s.cases, c) }
func (s *Set) Fail(f GoFail) {
	failMu.Lock()
	s.fails = append(s.fails, f)
	failMu.Unlock()
}
func (s *Set) Len() int            { return len(s.cases) }
func (s *Set) Exhaustive(n string) { s.Exhaust = append(s.Exhaust, n) }

// Finish writes cases_<k>.v, cases.jsonl and meta.json into Dir.
func (s *Set) Finish() error {
	if err := os.MkdirAll(s.Dir, 0o755); err != nil {
		return err
	}
	nsh := 0
	for start := 0; start < len(s.cases); start += s.ShardSize {
		end := start + s.ShardSize
		if end > len(s.cases) {
			end = len(s.cases)
		}
		f, err := os.Create(filepath.Join(s.Dir, fmt.Sprintf("cases_%d.v", nsh)))
		if err != nil {
			return err
		}
		w := bufio.NewWriter(f)
		fmt.Fprintf(w, "From Coq Require Import List NArith ZArith.\nImport ListNotations.\nFrom LW Require Import Base.Outcome.\nRequire Import %s.\nOpen Scope N_scope.\n", s.Module)
		fmt.Fprintf(w, "Definition cases : list (N * case) := [\n")
		for i := start; i < end; i++ {
			sep := ";"
			if i == end-1 {
				sep = ""
			}
			fmt.Fprintf(w, " (%d, %s)%s\n", i, s.cases[i].Term, sep)
		}
		fmt.Fprintf(w, "].\nDefinition R := Eval vm_compute in run_cases cases.\nPrint R.\n")
		w.Flush()
		f.Close()
		nsh++
	}
	jf, err := os.Create(filepath.Join(s.Dir, "cases.jsonl"))
	if err != nil {
		return err
	}
	jw := bufio.NewWriter(jf)
	kinds := map[string]int{}
	distinct := map[[32]byte]bool{}
	for i, c := range s.cases {
		kinds[c.Kind]++
		if c.Nontrivial {
			distinct[sha256.Sum256([]byte(c.Term))] = true
		}
		b, err := json.Marshal(map[string]interface{}{"i": i, "key": c.Key, "kind": c.Kind, "replay": c.Replay})
		if err != nil { // a non-finite float in the replay: print it as text
			b, _ = json.Marshal(map[string]interface{}{"i": i, "key": c.Key, "kind": c.Kind, "replay": jsonSafe(c.Replay)})
		}
		jw.Write(b)
		jw.WriteByte('\n')
	}
	jw.Flush()
	jf.Close()
	var samples []interface{}
	pick := []int{0, len(s.cases) / 3, len(s.cases) / 2, (2 * len(s.cases)) / 3, len(s.cases) - 1}
	seen := map[int]bool{}
	for _, i := range pick {
		if i >= 0 && i < len(s.cases) && !seen[i] {
			seen[i] = true
			t := s.cases[i].Term
			if len(t) > 600 {
				t = t[:600] + "…"
			}
			samples = append(samples, map[string]interface{}{"index": i, "kind": s.cases[i].Kind, "key": s.cases[i].Key, "case": t})
		}
	}
	ks := make([]string, 0, len(kinds))
	for k := range kinds {
		ks = append(ks, k)
	}
	sort.Strings(ks)
	dist := map[string]int{}
	for _, k := range ks {
		dist[k] = kinds[k]
	}
	meta := map[string]interface{}{
		"evaluations":         len(s.cases),
		"distinct_nontrivial": len(distinct),
		"rule":                s.Rule,
		"samples":             samples,
		"distribution":        dist,
		"shards":              nsh,
		"go_fails":            s.fails,
		"exhaustive_domains":  s.Exhaust,
		"extra":               s.Extra,
	}
	if s.fails == nil {
		meta["go_fails"] = []GoFail{}
	}
	b, err := json.MarshalIndent(meta, "", " ")
	if err != nil { // a non-finite float in a replay or in Extra: print it as text
		for i := range s.fails {
			s.fails[i].Replay, _ = jsonSafe(s.fails[i].Replay).(map[string]interface{})
		}
		meta["go_fails"] = s.fails
		meta["extra"] = jsonSafe(s.Extra)
		if b, err = json.MarshalIndent(meta, "", " "); err != nil {
			return err
		}
	}
	return os.WriteFile(filepath.Join(s.Dir, "meta.json"), b, 0o644)
}

// Args parses the common command line: <outdir> <seed> <tier>.
func Args() (dir string, seed uint64, thorough bool) {
	if len(os.Args) < 4 {
		fmt.Fprintln(os.Stderr, "usage: <outdir> <seed> <quick|thorough>")
		os.Exit(2)
	}
	sd, _ := strconv.ParseUint(os.Args[2], 10, 64)
	return os.Args[1], sd, os.Args[3] == "thorough"
}

// jsonSafe returns v with every NaN / Inf float replaced by its printed form, which encoding/json refuses.
func jsonSafe(v interface{}) interface{} {
	switch x := v.(type) {
	case map[string]interface{}:
		if x == nil {
			return x
		}
		m := make(map[string]interface{}, len(x))
		for k, e := range x {
			m[k] = jsonSafe(e)
		}
		return m
	case []interface{}:
		l := make([]interface{}, len(x))
		for i, e := range x {
			l[i] = jsonSafe(e)
		}
		return l
	case float64:
		if math.IsNaN(x) || math.IsInf(x, 0) {
			return fmt.Sprint(x)
		}
	case float32:
		if f := float64(x); math.IsNaN(f) || math.IsInf(f, 0) {
			return fmt.Sprint(x)
		}
	}
	return v
}
