(* C17 - backend-interface JSON types and key envelopes round-trip without loss.
   Statement file: each theorem is closed by [exact] of a lemma proved in
   theories/Backend, followed by Print Assumptions.

   Frequency/Percentage: freq_rt f = UnmarshalJSON (MarshalJSON f) with the
   decimal text in between trusted (strconv prints the shortest text that parses
   back to the same float64).  Floats are Coq's primitive binary64 floats.
   The 20 payload structs and ISO8601Time have no repository logic to model:
   differential only (harness), stated in MANIFEST. *)
From Coq Require Import List NArith ZArith Reals Floats Bool.
From LW Require Import Base.Outcome Base.Hex Crypto.KeyWrap
  Backend.F64 Backend.F64Sweep Backend.F64Proofs Backend.HexBytes Backend.KeyEnvelope Backend.EnvelopeProofs.
Import ListNotations.

(* ---------- Percentage ---------- *)
(* every integer percent -1000..100000 (so every 0..100): sweep evaluated by the kernel *)
Theorem C17_pct_exact : forall p : Z, (-1000 <= p <= 100000)%Z -> pct_rt p = Some p.
Proof. exact pct_exact. Qed.
Print Assumptions C17_pct_exact.

(* beyond: every 0 <= p < 2^32, from the IEEE-754 semantics (FloatAxioms) and real analysis *)
Theorem C17_pct_exact_u32 : forall p : Z, (0 <= p < 4294967296)%Z -> pct_rt p = Some p.
Proof. exact pct_exact_real. Qed.
Print Assumptions C17_pct_exact_u32.

(* ---------- Frequency ---------- *)
(* every integer Hz value 0 <= f < 2^32 survives Hz -> MHz float -> Hz *)
Theorem C17_freq_exact : forall f : Z, (0 <= f < 4294967296)%Z -> freq_rt f = Some f.
Proof. exact freq_exact. Qed.
Print Assumptions C17_freq_exact.

(* the real-number core of that proof: two roundings with relative error <= 2^-53 move f by less than 1/2 *)
Theorem C17_freq_err_real : forall f c d1 d2 : R, (c <> 0 -> 0 <= f <= 4294967296 ->
  Rabs d1 <= / 9007199254740992 -> Rabs d2 <= / 9007199254740992 ->
  Rabs (f / c * (1 + d1) * c * (1 + d2) - f) < / 2)%R.
Proof. exact scale_err. Qed.
Print Assumptions C17_freq_err_real.

(* independent of the axioms about floats: every multiple of 0.1 MHz below 2^32 Hz and its neighbours, by kernel evaluation *)
Theorem C17_freq_steps_exact : forall k d : Z, (0 <= k < 42949 -> -1 <= d <= 1 -> 0 <= k * 100000 + d ->
  freq_rt (k * 100000 + d) = Some (k * 100000 + d))%Z.
Proof. exact freq_steps_exact. Qed.
Print Assumptions C17_freq_steps_exact.

(* the truncating conversion before commit 7514334 lost 29 %, 57 %, 58 % (exactly these in 0..100) and 128.2 MHz *)
Theorem C17_orig_refuted :
  (pct_rt_orig 29 = Some 28 /\ pct_rt_orig 57 = Some 56 /\ pct_rt_orig 58 = Some 57 /\
   freq_rt_orig 128200000 = Some 128199999 /\
   filter (fun p => negb (rt_ok pct_rt_orig p)) (map Z.of_nat (seq 0 101)) = [29; 57; 58])%Z.
Proof. exact orig_refuted. Qed.
Print Assumptions C17_orig_refuted.

(* ---------- HEXBytes ---------- *)
Open Scope N_scope.
Theorem C17_hexbytes_roundtrip : forall bs, Forall (fun b => b < 256) bs ->
  hexbytes_unmarshal (hexbytes_marshal bs) = Ok bs /\
  hexbytes_unmarshal (48 :: 120 :: hexbytes_marshal bs) = Ok bs.
Proof. exact hexbytes_roundtrip. Qed.
Print Assumptions C17_hexbytes_roundtrip.

Theorem C17_hexbytes_accepts_only_hex_pairs : forall text bs, hexbytes_unmarshal text = Ok bs ->
  length (trim0x text) = (2 * length bs)%nat.
Proof. exact hexbytes_accepts_even_hex. Qed.
Print Assumptions C17_hexbytes_accepts_only_hex_pairs.

(* ---------- key envelopes (AES-128 KEK; AES-192/256 are not modelled) ---------- *)
Theorem C17_no_label_clear : forall label kek key,
  label = [] \/ kek = [] -> new_key_envelope label kek key = Ok ([], key).
Proof. exact no_label_clear. Qed.
Print Assumptions C17_no_label_clear.

Theorem C17_unwrap_wrap : forall label kek key,
  label <> [] -> length kek = 16%nat -> Forall (fun b => b < 256) kek ->
  length key = 16%nat -> Forall (fun b => b < 256) key ->
  exists w, new_key_envelope label kek key = Ok (label, w) /\ length w = 24%nat /\
            envelope_unwrap w kek = Ok key.
Proof. exact envelope_unwrap_wrap. Qed.
Print Assumptions C17_unwrap_wrap.

(* unwrapping succeeds exactly when the RFC 3394 integrity check passes; never panics on >= 16 bytes *)
Theorem C17_unwrap_ok_iff_iv : forall d kek k,
  length kek = 16%nat -> (16 <= length d)%nat ->
  (envelope_unwrap d kek = Ok k <->
   fst (unwrap_raw kek d) = default_iv /\ k = copy16 (snd (unwrap_raw kek d))) /\
  (envelope_unwrap d kek = Err <-> fst (unwrap_raw kek d) <> default_iv) /\
  envelope_unwrap d kek <> Panic.
Proof. exact envelope_unwrap_ok_iff_iv. Qed.
Print Assumptions C17_unwrap_ok_iff_iv.

(* and then the data is a genuine wrap under this KEK *)
Theorem C17_unwrap_only_wrapped : forall d kek k n,
  length kek = 16%nat -> Forall (fun b => b < 256) kek -> Forall (fun b => b < 256) d ->
  length d = (8 * (n + 1))%nat -> (1 <= n)%nat ->
  envelope_unwrap d kek = Ok k -> exists p, k = copy16 p /\ wrap kek p = d.
Proof. exact envelope_unwrap_only_wrapped. Qed.
Print Assumptions C17_unwrap_only_wrapped.

(* the envelope logic for ANY cipher (e.g. AES-192/256) whose wrap satisfies the RFC 3394 inverse law *)
Theorem C17_unwrap_wrap_any_cipher :
  forall (wrapf : list N -> list N -> list N) (unwrap_rawf : list N -> list N -> list N * list N),
  (forall kek key, kek_len_ok kek = true -> length key = 16%nat -> Forall (fun b => b < 256) key ->
     unwrap_rawf kek (wrapf kek key) = (default_iv, key) /\ length (wrapf kek key) = 24%nat) ->
  forall label kek key,
  label <> [] -> kek_len_ok kek = true -> length key = 16%nat -> Forall (fun b => b < 256) key ->
  exists w, new_key_envelope_with wrapf label kek key = Ok (label, w) /\
            envelope_unwrap_with unwrap_rawf w kek = Ok key.
Proof. exact unwrap_wrap_with. Qed.
Print Assumptions C17_unwrap_wrap_any_cipher.

(* non-vacuity *)
Example C17_example :
  freq_rt 868100000 = Some 868100000%Z /\ pct_rt 29 = Some 29%Z /\
  hexbytes_unmarshal (hexbytes_marshal [1; 255]) = Ok [1; 255] /\
  new_key_envelope [107] rfc3394_kek rfc3394_key = Ok ([107], rfc3394_wrapped) /\
  envelope_unwrap rfc3394_wrapped rfc3394_kek = Ok rfc3394_key.
Proof. vm_compute. repeat split; reflexivity. Qed.
