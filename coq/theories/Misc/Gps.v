(* Model of /repo/gps/gps.go.

   time.Time values (UTC, no monotonic reading) are [Z] nanoseconds since the
   Unix epoch; time.Duration is an int64 count of nanoseconds.  The
   leap-second table is NOT written here: it is LWGen.LeapGen.leap_table,
   dumped from the live code on every run (Unix seconds of each table instant
   and the duration added, in ns).

   gps.go as it stands (after the repair recorded in known/C20.json):

     func NewTimeFromTimeSinceGPSEpoch(sinceEpoch time.Duration) Time {
         t := gpsEpochTime.Add(sinceEpoch)
         for _, ls := range leapSecondsTable {
             if !t.Before(ls.Time.Add(2 * ls.Duration)) { t = t.Add(-ls.Duration) }
         }
         return Time(t)
     }
     func (t Time) TimeSinceGPSEpoch() time.Duration {
         var offset time.Duration
         for _, ls := range leapSecondsTable {
             if !time.Time(t).Before(ls.Time.Add(ls.Duration)) { offset += ls.Duration }
         }
         return time.Time(t).Sub(gpsEpochTime) + offset
     }

   The comparison used by each loop is a parameter ([cmp_to], [cmp_from]) so
   that the model of the code before the repair (`ls.Time.Before(t)` in both
   loops) stays available for the refutation theorem. *)
From Coq Require Import List ZArith Bool.
From LWGen Require Import LeapGen.
Import ListNotations.
Open Scope Z_scope.

Definition ns_per_s : Z := 1000000000.

(* int64 wrap-around of Duration arithmetic *)
(* 2^63 = 9223372036854775808, 2^64 = 18446744073709551616 (numerals: evaluated often) *)
Definition wrap64 (z : Z) : Z :=
  if (-9223372036854775808 <=? z) && (z <=? 9223372036854775807) then z  (* fast path, same value *)
  else (z + 9223372036854775808) mod 18446744073709551616 - 9223372036854775808.
Definition min_duration : Z := - 9223372036854775808.
Definition max_duration : Z := 9223372036854775807.

(* time.Time.Sub: the difference, saturated to the Duration range *)
Definition time_sub (t u : Z) : Z :=
  let d := t - u in
  if d <? min_duration then min_duration
  else if max_duration <? d then max_duration else d.

Definition gps_epoch_ns : Z := gps_epoch_unix * ns_per_s.

(* the table in nanoseconds: (instant, duration) *)
Definition table_ns (tbl : list (Z * Z)) : list (Z * Z) :=
  map (fun e => (fst e * ns_per_s, snd e)) tbl.

(* the two conditions as coded: (ls.Time, ls.Duration, t) -> bool *)
Definition cond_to_fixed (l d t : Z) : bool := negb (t <? l + d).          (* !t.Before(ls.Time.Add(ls.Duration)) *)
Definition cond_from_fixed (l d t : Z) : bool := negb (t <? l + 2 * d).    (* !t.Before(ls.Time.Add(2*ls.Duration)) *)
Definition cond_orig (l d t : Z) : bool := l <? t.                          (* ls.Time.Before(t), code before the repair *)

Definition offset_loop (cond : Z -> Z -> Z -> bool) (tbl : list (Z * Z)) (t : Z) : Z :=
  fold_left (fun off e => if cond (fst e) (snd e) t then wrap64 (off + snd e) else off) tbl 0.

Definition to_gps_with (cond : Z -> Z -> Z -> bool) (tbl : list (Z * Z)) (t : Z) : Z :=
  wrap64 (time_sub t gps_epoch_ns + offset_loop cond tbl t).

Definition from_gps_with (cond : Z -> Z -> Z -> bool) (tbl : list (Z * Z)) (d : Z) : Z :=
  fold_left (fun t e => if cond (fst e) (snd e) t then t - snd e else t) tbl (gps_epoch_ns + d).

(* the code of the working tree (repaired, commit "fix: gps leap-second offset applied one second early") *)
Definition to_gps_fixed (t : Z) : Z := to_gps_with cond_to_fixed (table_ns leap_table) t.
Definition from_gps_fixed (d : Z) : Z := from_gps_with cond_from_fixed (table_ns leap_table) d.
Definition to_gps : Z -> Z := to_gps_fixed.
Definition from_gps : Z -> Z := from_gps_fixed.

(* the code before the repair (both loops use ls.Time.Before(t)) *)
Definition to_gps_orig (t : Z) : Z := to_gps_with cond_orig (table_ns leap_table) t.
Definition from_gps_orig (d : Z) : Z := from_gps_with cond_orig (table_ns leap_table) d.
