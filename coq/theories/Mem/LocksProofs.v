(* C10 (M3): every interleaving of any number of well-locked programs is free
   of data races on the protected cell.  Invariant: every thread is well-locked
   from its current (ghost) mode; the number of threads in mode MW is 1 if the
   writer flag is set and 0 otherwise; the number of threads in mode MR is the
   reader count; a writer excludes readers. *)
From Coq Require Import List Bool Arith Lia.
From LW Require Import Mem.Locks.
Import ListNotations.

Definition holds (m : mode) (t : thread) : nat := if mode_eqb (fst t) m then 1 else 0.

Fixpoint cnt (m : mode) (ts : list thread) : nat :=
  match ts with
  | [] => 0
  | t :: r => holds m t + cnt m r
  end.

Lemma cnt_app m l1 l2 : cnt m (l1 ++ l2) = cnt m l1 + cnt m l2.
Proof. induction l1; simpl; auto. rewrite IHl1. lia. Qed.

Definition wl_thread (t : thread) : Prop := wl_from (fst t) (snd t) = true.

Definition inv (s : state) : Prop :=
  Forall wl_thread (threads s) /\
  cnt MW (threads s) = (if writer (mu s) then 1 else 0) /\
  cnt MR (threads s) = readers (mu s) /\
  (writer (mu s) = true -> readers (mu s) = 0).

Lemma cnt_init m ps : m <> MNone -> cnt m (map (fun p => (MNone, p)) ps) = 0.
Proof. intros H. induction ps; simpl; auto. rewrite IHps. unfold holds; simpl. destruct m; simpl; auto; congruence. Qed.

Lemma inv_init ps : Forall (fun p => well_locked p = true) ps -> inv (init ps).
Proof.
  intros H. unfold inv, init; simpl. split; [|split; [|split]].
  - apply Forall_forall. intros t Ht. apply in_map_iff in Ht as (p & <- & Hp).
    rewrite Forall_forall in H. exact (H p Hp).
  - apply cnt_init; discriminate.
  - apply cnt_init; discriminate.
  - discriminate.
Qed.

Lemma inv_step s s' : inv s -> step s s' -> inv s'.
Proof.
  intros (A & B & C & D) St. destruct St as [x x' l1 t t' l2 T]. simpl in *.
  apply Forall_app in A as [A1 A2]. inversion A2 as [|? ? At A3]; subst.
  rewrite cnt_app in *. simpl in *.
  unfold inv; simpl. rewrite Forall_app, !cnt_app. simpl.
  inversion T; subst; unfold wl_thread, holds in *; simpl in *;
    destruct m; simpl in *; try discriminate;
    (split; [split; [assumption|constructor; assumption]|]);
    repeat split; try lia; try (intros; discriminate); try (intros; lia).
  all: try (intros Hw; specialize (D Hw); lia).
Qed.

Lemma inv_reach s s' : inv s -> reach s s' -> inv s'.
Proof.
  intros H R. induction R as [|s1 s2 s3 R IH St]; [assumption|].
  exact (inv_step s2 s3 (IH H) St).
Qed.

Lemma next_access_mode t o : wl_thread t -> next_access t = Some o ->
  (o = OWrite -> fst t = MW) /\ (fst t = MR \/ fst t = MW).
Proof.
  destruct t as [m p]. unfold wl_thread, next_access; simpl.
  destruct p as [|[] p]; try discriminate; intros H E; inversion E; subst;
    destruct m; simpl in *; try discriminate; split; auto; discriminate.
Qed.

Lemma inv_no_race s : inv s -> ~ race s.
Proof.
  intros (A & B & C & D) (l1 & t1 & l2 & t2 & l3 & E & Cf).
  rewrite E in *. clear E.
  apply Forall_app in A as [_ A]. inversion A as [|? ? W1 A']; subst.
  apply Forall_app in A' as [_ A']. inversion A' as [|? ? W2 _]; subst.
  rewrite !cnt_app in *. simpl in *. rewrite !cnt_app in *. simpl in *.
  unfold conflict in Cf.
  destruct (next_access t1) as [o1|] eqn:E1; [|contradiction].
  destruct (next_access t2) as [o2|] eqn:E2; [|destruct o1; contradiction].
  destruct (next_access_mode t1 o1 W1 E1) as [K1 M1].
  destruct (next_access_mode t2 o2 W2 E2) as [K2 M2].
  unfold holds in *.
  assert (HW : o1 = OWrite \/ o2 = OWrite).
  { destruct o1, o2; auto; contradiction. }
  destruct (writer (mu s)) eqn:Wr.
  - specialize (D eq_refl).
    destruct M1 as [M1|M1], M2 as [M2|M2]; rewrite M1, M2 in *; simpl in *; try lia.
  - destruct HW as [HW|HW]; [rewrite (K1 HW) in *|rewrite (K2 HW) in *]; simpl in *; lia.
Qed.

Theorem race_free : forall ps, Forall (fun p => well_locked p = true) ps ->
  forall s, reach (init ps) s -> ~ race s.
Proof. intros ps H s R. apply inv_no_race. eapply inv_reach; eauto. now apply inv_init. Qed.

(* instantiation on a summary: programs drawn (with repetition, in any number) from a list of
   named programs that passes the well-lockedness check *)
Theorem summary_race_free {A} (summary : list (A * program)) :
  all_well_locked summary = true ->
  forall ps, Forall (fun p => In p (map snd summary)) ps ->
  forall s, reach (init ps) s -> ~ race s.
Proof.
  intros H ps Hps. apply race_free.
  unfold all_well_locked in H. rewrite forallb_forall in H.
  rewrite Forall_forall in *. intros p Hp. specialize (Hps p Hp).
  apply in_map_iff in Hps as (e & <- & He). exact (H e He).
Qed.

(* the discipline is not vacuous: a reader-locked write races *)
Example unlocked_write_races :
  exists s, reach (init [[ORLock; OWrite; ORUnlock]; [ORLock; ORead; ORUnlock]]) s /\ race s.
Proof.
  exists (mkState (mkMutex false 2) [(MR, [OWrite; ORUnlock]); (MR, [ORead; ORUnlock])]). split.
  - apply (reach_step _ (mkState (mkMutex false 1) [(MR, [OWrite; ORUnlock]); (MNone, [ORLock; ORead; ORUnlock])])).
    + apply (reach_step _ (init [[ORLock; OWrite; ORUnlock]; [ORLock; ORead; ORUnlock]])); [apply reach_refl|].
      exact (Step (mkMutex false 0) (mkMutex false 1) [] (MNone, [ORLock; OWrite; ORUnlock]) (MR, [OWrite; ORUnlock])
                  [(MNone, [ORLock; ORead; ORUnlock])] (TRLock 0 MNone _)).
    + exact (Step (mkMutex false 1) (mkMutex false 2) [(MR, [OWrite; ORUnlock])] (MNone, [ORLock; ORead; ORUnlock])
                  (MR, [ORead; ORUnlock]) [] (TRLock 1 MNone _)).
  - exists [], (MR, [OWrite; ORUnlock]), [], (MR, [ORead; ORUnlock]), []. split; [reflexivity|exact I].
Qed.
