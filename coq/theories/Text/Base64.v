(* encoding/base64 StdEncoding as PHYPayload.MarshalText / UnmarshalText use it (phypayload.go:556-571):
   EncodeToString and DecodeString. Text is a list of byte values (ASCII codes).
   Decoding follows Go's decoder: '\r' and '\n' are skipped wherever they occur; four characters
   make one quantum; '=' may only close the last quantum ("xx==" one byte, "xxx=" two bytes) and
   nothing may follow it; a trailing incomplete quantum or any other character is an error. Go's
   StdEncoding is not strict: the unused low bits of the last character before '=' are ignored. *)
From Coq Require Import List NArith Bool.
Import ListNotations.
Open Scope N_scope.

Definition b64_char (v : N) : N :=
  if v <? 26 then 65 + v            (* A-Z *)
  else if v <? 52 then 97 + (v - 26)   (* a-z *)
  else if v <? 62 then 48 + (v - 52)   (* 0-9 *)
  else if v =? 62 then 43            (* + *)
  else 47.                           (* / *)

Definition b64_val (c : N) : option N :=
  if (65 <=? c) && (c <=? 90) then Some (c - 65)
  else if (97 <=? c) && (c <=? 122) then Some (c - 97 + 26)
  else if (48 <=? c) && (c <=? 57) then Some (c - 48 + 52)
  else if c =? 43 then Some 62
  else if c =? 47 then Some 63
  else None.

Definition pad : N := 61.

Fixpoint b64_encode (bs : list N) : list N :=
  match bs with
  | a :: b :: c :: r =>
      b64_char (N.shiftr a 2) :: b64_char (N.lor (N.shiftl (N.land a 3) 4) (N.shiftr b 4)) ::
      b64_char (N.lor (N.shiftl (N.land b 15) 2) (N.shiftr c 6)) :: b64_char (N.land c 63) :: b64_encode r
  | [a; b] =>
      [b64_char (N.shiftr a 2); b64_char (N.lor (N.shiftl (N.land a 3) 4) (N.shiftr b 4));
       b64_char (N.shiftl (N.land b 15) 2); pad]
  | [a] => [b64_char (N.shiftr a 2); b64_char (N.shiftl (N.land a 3) 4); pad; pad]
  | [] => []
  end.

(* the three bytes of a quantum: val = x1<<18 | x2<<12 | x3<<6 | x4; bytes val>>16, val>>8, val *)
Definition q1 (x1 x2 : N) : N := N.land (N.lor (N.shiftl x1 2) (N.shiftr x2 4)) 255.
Definition q2 (x2 x3 : N) : N := N.land (N.lor (N.shiftl x2 4) (N.shiftr x3 2)) 255.
Definition q3 (x3 x4 : N) : N := N.land (N.lor (N.shiftl x3 6) x4) 255.

Fixpoint b64_quanta (cs : list N) : option (list N) :=
  match cs with
  | [] => Some []
  | c1 :: c2 :: c3 :: c4 :: r =>
    match b64_val c1, b64_val c2 with
    | Some x1, Some x2 =>
      if c3 =? pad then
        if (c4 =? pad) && (match r with [] => true | _ => false end) then Some [q1 x1 x2] else None
      else
        match b64_val c3 with
        | Some x3 =>
          if c4 =? pad then
            match r with [] => Some [q1 x1 x2; q2 x2 x3] | _ => None end
          else
            match b64_val c4 with
            | Some x4 =>
              match b64_quanta r with
              | Some rest => Some (q1 x1 x2 :: q2 x2 x3 :: q3 x3 x4 :: rest)
              | None => None
              end
            | None => None
            end
        | None => None
        end
    | _, _ => None
    end
  | _ => None
  end.

Definition is_newline (c : N) : bool := (c =? 10) || (c =? 13).

Definition b64_decode (cs : list N) : option (list N) :=
  b64_quanta (filter (fun c => negb (is_newline c)) cs).

Example b64_vectors :
  b64_encode [] = [] /\
  b64_encode [102] = [90; 103; 61; 61] /\                     (* "f" -> "Zg==" *)
  b64_encode [102; 111] = [90; 109; 56; 61] /\                (* "fo" -> "Zm8=" *)
  b64_encode [102; 111; 111] = [90; 109; 57; 118] /\          (* "foo" -> "Zm9v" *)
  b64_encode [102; 111; 111; 98; 97; 114] = [90; 109; 57; 118; 89; 109; 70; 121] /\  (* "foobar" -> "Zm9vYmFy" *)
  b64_encode [251; 255; 254] = [43; 47; 47; 43] /\            (* alphabet end: "+//+" *)
  b64_decode [90; 109; 10; 56; 61; 13; 10] = Some [102; 111] /\    (* newlines skipped *)
  b64_decode [90; 104; 61; 61] = Some [102] /\                (* "Zh==": non-zero unused bits are ignored *)
  b64_decode [90; 103; 61] = None /\ b64_decode [90; 103; 61; 61; 90] = None /\ b64_decode [90; 61; 61; 61] = None /\
  b64_decode [90; 103; 32; 61] = None.
Proof. vm_compute. repeat split. Qed.
