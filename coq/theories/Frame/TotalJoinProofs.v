(* C09: the checked join-accept / CFList decoders equal the value model on every input. *)
From Coq Require Import List NArith ZArith Bool Lia.
From LW Require Import Base.Outcome Base.Bytes Mac.Commands Mac.Stream Frame.Model Frame.Checked Frame.CheckedJoin Frame.TotalProofs.
Import ListNotations.
Open Scope N_scope.

Lemma zlen_eqb {A} (l : list A) (n : nat) : (zlen l =? Z.of_nat n)%Z = Nat.eqb (length l) n.
Proof.
  unfold zlen. destruct (Nat.eqb (length l) n) eqn:E.
  - apply PeanoNat.Nat.eqb_eq in E. rewrite E. apply Z.eqb_refl.
  - apply PeanoNat.Nat.eqb_neq in E. apply Z.eqb_neq. lia.
Qed.

(* the mask loop: data[2i : 2i+2] is in range for every i < len/2 *)
Lemma masks_chk_eq n : forall ev i p acc, length ev = (2 * (i + n))%nat ->
  masks_chk ev i n p acc = Ok (masks_loop (skipn (2 * i) ev) n p acc).
Proof.
  induction n as [|n IH]; intros ev i p acc L; [destruct (skipn (2 * i) ev); reflexivity|].
  cbn [masks_chk].
  rewrite go_slice_ok by lia.
  replace (Z.to_nat (Z.of_nat (2 * i + 2)) - Z.to_nat (Z.of_nat (2 * i)))%nat with 2%nat by lia.
  rewrite Nat2Z.id.
  pose proof (skipn_length' (2 * i) ev) as LS.
  pose proof (skipn_skipn' 2 (2 * i) ev) as SS.
  destruct (skipn (2 * i) ev) as [|a [|b rest]] eqn:E; cbn [length] in LS; try lia.
  cbn [bind firstn masks_loop].
  replace (2 * S i)%nat with (2 * i + 2)%nat in * by lia.
  cbn [skipn] in SS.
  destruct (existsb (fun x => x) (dec_chmask_list [a; b])).
  - rewrite IH by lia. replace (2 * S i)%nat with (2 * i + 2)%nat by lia. rewrite <- SS. reflexivity.
  - rewrite IH by lia. replace (2 * S i)%nat with (2 * i + 2)%nat by lia. rewrite <- SS. reflexivity.
Qed.

(* one unit of fuel more than there are masks changes nothing *)
Lemma masks_fuel n : forall data p acc, (length data <= 2 * n)%nat ->
  masks_loop data (S n) p acc = masks_loop data n p acc.
Proof.
  induction n as [|n IH]; intros data p acc L.
  - destruct data; [reflexivity|cbn [length] in L; lia].
  - destruct data as [|a [|b rest]]; [reflexivity|reflexivity|]. cbn [length] in L.
    change (masks_loop (a :: b :: rest) (S (S n)) p acc) with
      (let cm := dec_chmask_list [a; b] in
       if existsb (fun x => x) cm then masks_loop rest (S n) [] (acc ++ p ++ [cm]) else masks_loop rest (S n) (p ++ [cm]) acc).
    change (masks_loop (a :: b :: rest) (S n) p acc) with
      (let cm := dec_chmask_list [a; b] in
       if existsb (fun x => x) cm then masks_loop rest n [] (acc ++ p ++ [cm]) else masks_loop rest n (p ++ [cm]) acc).
    cbv zeta. rewrite !IH by lia. reflexivity.
Qed.

Ltac eval_slices :=
  cbv [go_slice go_index zlen length Z.of_nat Pos.of_succ_nat Pos.succ Z.leb Z.ltb Z.compare Pos.compare Pos.compare_cont
       andb orb negb Z.to_nat Pos.to_nat Pos.iter_op Nat.add Nat.sub Nat.mul firstn skipn nth_error nth bind Z.eqb Pos.eqb
       Z.sub Z.add Z.opp Z.pos_sub Pos.pred_double Z.succ_double Z.pred_double Z.double].

Theorem cflist_chk_eq data : cflist_unmarshal_chk data = cflist_unmarshal data.
Proof.
  unfold cflist_unmarshal_chk, cflist_unmarshal.
  change 16%Z with (Z.of_nat 16). rewrite zlen_eqb.
  destruct (Nat.eqb (length data) 16) eqn:L; [|reflexivity]. apply PeanoNat.Nat.eqb_eq in L.
  do 16 (destruct data as [|? data]; [discriminate L|]). destruct data; [|discriminate L].
  cbn [negb].
  pose proof masks_chk_eq as M. pose proof masks_fuel as F. revert M F.
  generalize masks_chk. generalize masks_loop. intros ml mc M F.
  eval_slices.
  match goal with |- context [N.eqb ?t 1] => destruct (N.eqb t 1) end.
  - rewrite (M 6%nat) by reflexivity. rewrite (F 7%nat) by (cbn [length]; lia). rewrite (F 6%nat) by (cbn [length]; lia). reflexivity.
  - reflexivity.
Qed.

Theorem joinaccept_chk_eq data : joinaccept_unmarshal_chk data = joinaccept_unmarshal data.
Proof.
  unfold joinaccept_unmarshal_chk, joinaccept_unmarshal.
  change 12%Z with (Z.of_nat 12). change 28%Z with (Z.of_nat 28). rewrite !zlen_eqb.
  destruct (Nat.eqb (length data) 12) eqn:L12.
  - apply PeanoNat.Nat.eqb_eq in L12.
    do 12 (destruct data as [|? data]; [discriminate L12|]). destruct data; [|discriminate L12].
    generalize dec_dlsettings. intros dd. eval_slices. reflexivity.
  - destruct (Nat.eqb (length data) 28) eqn:L28; [|reflexivity].
    apply PeanoNat.Nat.eqb_eq in L28.
    do 28 (destruct data as [|? data]; [discriminate L28|]). destruct data; [|discriminate L28].
    pose proof cflist_chk_eq as E. revert E.
    generalize cflist_unmarshal_chk. generalize cflist_unmarshal. intros g f E.
    generalize dec_dlsettings. intros dd.
    eval_slices.
    rewrite E. reflexivity.
Qed.

(* every byte string gives a value or an error *)
Theorem cflist_unmarshal_total data : okerr (cflist_unmarshal_chk data).
Proof.
  rewrite cflist_chk_eq. unfold cflist_unmarshal.
  destruct (negb _); [apply okerr_err|]. destruct (_ =? 1); apply okerr_ok.
Qed.

Theorem joinaccept_unmarshal_total data : okerr (joinaccept_unmarshal_chk data).
Proof.
  rewrite joinaccept_chk_eq. unfold joinaccept_unmarshal.
  destruct (_ && _); [apply okerr_err|].
  destruct (dec_dlsettings _) as [[o r2] r1].
  destruct (Nat.eqb _ 28).
  - pose proof (cflist_unmarshal_total (skipn 12 data)) as H. rewrite cflist_chk_eq in H.
    destruct (cflist_unmarshal (skipn 12 data)); cbn [bind]; destruct H as [H1 H2]; try congruence; [apply okerr_ok|apply okerr_err].
  - apply okerr_ok.
Qed.
