// Package framefmt prints lorawan.PHYPayload values as Gallina terms of
// LW.Frame.Model and generates structured random frames.
package framefmt

import (
	"fmt"

	"github.com/brocaar/lorawan"
	"verifharness/internal/cq"
	"verifharness/internal/macfmt"
)

func FCtrl(c lorawan.FCtrl, foptsLen int) string {
	return fmt.Sprintf("(mkFCtrl %s %s %s %s %s %d)", cq.Bool(c.ADR), cq.Bool(c.ADRACKReq), cq.Bool(c.ACK), cq.Bool(c.FPending), cq.Bool(c.ClassB), foptsLen)
}

// FHDR prints an FHDR. The unexported fOptsLen cannot be read; it is passed in
// (after decoding it equals the low nibble of the FCtrl byte; in hand-built
// values it is 0).
func FHDR(h lorawan.FHDR, foptsLen int) string {
	return fmt.Sprintf("(mkFHDR %s %s %d %s)", cq.Bytes(h.DevAddr[:]), FCtrl(h.FCtrl, foptsLen), h.FCnt, macfmt.Items(h.FOpts))
}

func MACPayload(m *lorawan.MACPayload, foptsLen int) string {
	port := cq.None
	if m.FPort != nil {
		port = cq.Some(fmt.Sprintf("%d", *m.FPort))
	}
	return fmt.Sprintf("(mkMAC %s %s %s)", FHDR(m.FHDR, foptsLen), port, macfmt.Items(m.FRMPayload))
}

func masks(ms []lorawan.ChMask) string {
	s := make([]string, len(ms))
	for i, m := range ms {
		b := make([]string, 16)
		for j, x := range m {
			b[j] = cq.Bool(x)
		}
		s[i] = cq.List(b)
	}
	return cq.List(s)
}

func CFList(l *lorawan.CFList) string {
	if l == nil {
		return cq.None
	}
	var p string
	switch v := l.Payload.(type) {
	case nil:
		p = "CFPNil"
	case *lorawan.CFListChannelPayload:
		xs := make([]uint64, 5)
		for i, c := range v.Channels {
			xs[i] = uint64(c)
		}
		p = "(CFPChannels " + cq.Ns(xs) + ")"
	case *lorawan.CFListChannelMaskPayload:
		p = "(CFPMasks " + masks(v.ChannelMasks) + ")"
	default:
		p = fmt.Sprintf("(CFPUnknown_%T)", v)
	}
	return cq.Some(fmt.Sprintf("(mkCFList %s %d)", p, byte(l.CFListType)))
}

// Payload prints the MACPayload field of a PHYPayload. foptsLen: see FHDR.
func Payload(p lorawan.Payload, foptsLen int) string {
	switch v := p.(type) {
	case nil:
		return "PLNil"
	case *lorawan.JoinRequestPayload:
		return fmt.Sprintf("(PLJoinRequest %s %s %d)", cq.Bytes(v.JoinEUI[:]), cq.Bytes(v.DevEUI[:]), uint16(v.DevNonce))
	case *lorawan.JoinAcceptPayload:
		return fmt.Sprintf("(PLJoinAccept %d %s %s %s %d %d %d %s)", uint32(v.JoinNonce), cq.Bytes(v.HomeNetID[:]), cq.Bytes(v.DevAddr[:]),
			cq.Bool(v.DLSettings.OptNeg), v.DLSettings.RX2DataRate, v.DLSettings.RX1DROffset, v.RXDelay, CFList(v.CFList))
	case *lorawan.RejoinRequestType02Payload:
		return fmt.Sprintf("(PLRejoin02 %d %s %s %d)", byte(v.RejoinType), cq.Bytes(v.NetID[:]), cq.Bytes(v.DevEUI[:]), v.RJCount0)
	case *lorawan.RejoinRequestType1Payload:
		return fmt.Sprintf("(PLRejoin1 %d %s %s %d)", byte(v.RejoinType), cq.Bytes(v.JoinEUI[:]), cq.Bytes(v.DevEUI[:]), v.RJCount1)
	case *lorawan.MACPayload:
		return "(PLMac " + MACPayload(v, foptsLen) + ")"
	case *lorawan.DataPayload:
		return "(PLData " + cq.Bytes(v.Bytes) + ")"
	}
	if b, err := p.MarshalBinary(); err == nil { // a caller-defined lorawan.Payload: the bytes it marshals to
		return "(PLData " + cq.Bytes(b) + ")"
	}
	return fmt.Sprintf("(PLUnknown_%T)", p)
}

// Opaque is a lorawan.Payload implementation that does not come from the library (the interface is
// exported and open; the application-layer Command types satisfy it too). Encoders must treat it like
// any other element: by the bytes its MarshalBinary returns.
type Opaque struct{ B []byte }

func (o *Opaque) MarshalBinary() ([]byte, error) { return append([]byte{}, o.B...), nil }
func (o *Opaque) UnmarshalBinary(uplink bool, data []byte) error {
	o.B = append([]byte{}, data...)
	return nil
}

// Phy prints a PHYPayload (type LW.Frame.Model.phy).
func Phy(p lorawan.PHYPayload, foptsLen int) string {
	return fmt.Sprintf("(mkPHY %d %d %s %s)", byte(p.MHDR.MType), byte(p.MHDR.Major), Payload(p.MACPayload, foptsLen), cq.Bytes(p.MIC[:]))
}

// DecodedFOptsLen returns the FOptsLen nibble a decoder stored (from the wire bytes).
func DecodedFOptsLen(wire []byte) int {
	if len(wire) >= 6 {
		return int(wire[5] & 0x0f)
	}
	return 0
}

// ---- generators ----

type Opt struct {
	MType      lorawan.MType
	FOptsBytes int   // total FOpts length to aim for (0..15 valid; larger for malformed)
	FOptsRaw   bool  // FOpts as one DataPayload instead of MAC commands
	Port       int   // -1 absent, else 0..255
	FRMLen     int   // bytes of FRMPayload (application bytes, or MAC commands when Port == 0)
	FRMAsMAC   bool  // with Port == 0: FRMPayload built from MAC commands
	FCntHigh   bool  // FCnt with bits above 16 set
}

func uplink(mt lorawan.MType) bool {
	return mt == lorawan.UnconfirmedDataUp || mt == lorawan.ConfirmedDataUp || mt == lorawan.JoinRequest || mt == lorawan.RejoinRequest
}

// validCmds builds valid MAC commands of one direction with total encoded size as close to n as possible without exceeding it.
func ValidCmds(r *cq.RNG, up bool, n int) []lorawan.Payload {
	var out []lorawan.Payload
	var dir []int
	for i, b := range macfmt.Builtin {
		if b.Up == up {
			dir = append(dir, i)
		}
	}
	total := 0
	for tries := 0; tries < 200 && total < n; tries++ {
		b := macfmt.Builtin[dir[r.Intn(len(dir))]]
		ki := macfmt.KindIndex(b.Kind)
		if r.Intn(6) == 0 { // payload-less command (e.g. LinkCheckReq / DevStatusReq)
			for _, c := range []lorawan.CID{lorawan.LinkCheckReq, lorawan.DevStatusReq, lorawan.DeviceTimeReq, lorawan.DutyCycleAns} {
				if _, _, err := lorawan.GetMACPayloadAndSize(up, c); err != nil && total+1 <= n {
					out = append(out, &lorawan.MACCommand{CID: c})
					total++
					break
				}
			}
			continue
		}
		if total+1+macfmt.Kinds[ki].Size > n {
			continue
		}
		pl := macfmt.Random(r, ki, true)
		if _, err := pl.MarshalBinary(); err != nil {
			continue
		}
		out = append(out, &lorawan.MACCommand{CID: b.CID, Payload: pl})
		total += 1 + macfmt.Kinds[ki].Size
	}
	return out
}

// DataFrame builds a data frame according to o with random header contents.
func DataFrame(r *cq.RNG, o Opt) lorawan.PHYPayload {
	up := uplink(o.MType)
	m := &lorawan.MACPayload{}
	copy(m.FHDR.DevAddr[:], r.Bytes(4))
	f := r.Intn(32)
	m.FHDR.FCtrl = lorawan.FCtrl{ADR: f&1 != 0, ADRACKReq: f&2 != 0, ACK: f&4 != 0, FPending: f&8 != 0, ClassB: f&16 != 0}
	m.FHDR.FCnt = uint32(r.Intn(1 << 16))
	if o.FCntHigh {
		m.FHDR.FCnt = r.U32() | 0x10000
	}
	if o.FOptsBytes > 0 {
		if o.FOptsRaw {
			m.FHDR.FOpts = []lorawan.Payload{&lorawan.DataPayload{Bytes: r.Bytes(o.FOptsBytes)}}
		} else {
			m.FHDR.FOpts = ValidCmds(r, up, o.FOptsBytes)
		}
	}
	if o.Port >= 0 {
		p := uint8(o.Port)
		m.FPort = &p
	}
	if o.FRMLen > 0 {
		if o.FRMAsMAC {
			m.FRMPayload = ValidCmds(r, up, o.FRMLen)
		} else {
			m.FRMPayload = []lorawan.Payload{&lorawan.DataPayload{Bytes: r.Bytes(o.FRMLen)}}
		}
	}
	phy := lorawan.PHYPayload{MHDR: lorawan.MHDR{MType: o.MType, Major: lorawan.LoRaWANR1}, MACPayload: m}
	copy(phy.MIC[:], r.Bytes(4))
	return phy
}

// ValidDataOpt draws options for a spec-valid data frame.
func ValidDataOpt(r *cq.RNG) Opt {
	mts := []lorawan.MType{lorawan.UnconfirmedDataUp, lorawan.UnconfirmedDataDown, lorawan.ConfirmedDataUp, lorawan.ConfirmedDataDown}
	o := Opt{MType: mts[r.Intn(4)], Port: -1, FCntHigh: r.Intn(10) < 7}
	lens := []int{0, 1, 15, 16, 17, 31, 32, 33, 100, 241, 242}
	switch r.Intn(5) {
	case 0: // no port, maybe FOpts
		o.FOptsBytes = r.Intn(16)
	case 1: // port 0 with MAC commands in FRMPayload, no FOpts
		o.Port, o.FRMAsMAC = 0, true
		o.FRMLen = 1 + r.Intn(60)
	case 2: // application payload, maybe FOpts
		o.Port = 1 + r.Intn(255)
		o.FOptsBytes = r.Intn(16)
		o.FRMLen = lens[r.Intn(len(lens))]
		if r.Intn(3) == 0 {
			o.FRMLen = r.Intn(243)
		}
	case 3: // port present, empty payload
		o.Port = 1 + r.Intn(255)
		o.FOptsBytes = r.Intn(16)
	default: // port 0 with raw (already encrypted) bytes
		o.Port = 0
		o.FRMLen = lens[r.Intn(len(lens))]
	}
	o.FOptsRaw = r.Intn(3) == 0
	return o
}

func eui(r *cq.RNG) (e lorawan.EUI64) {
	switch r.Intn(4) {
	case 0: // palindromic
		b := r.Bytes(4)
		copy(e[:4], b)
		for i := 0; i < 4; i++ {
			e[7-i] = b[i]
		}
	default:
		copy(e[:], r.Bytes(8))
	}
	return
}

// RandomCFList returns nil, a channel list or a channel-mask list.
func RandomCFList(r *cq.RNG) *lorawan.CFList {
	switch r.Intn(3) {
	case 0:
		return nil
	case 1:
		var c lorawan.CFListChannelPayload
		switch r.Intn(6) {
		case 0: // no channel at all: a 16-byte all-zero CFList
		case 1: // unused slots in the middle
			c.Channels[0] = uint32(1+r.Intn(1<<24-1)) * 100
			c.Channels[2+r.Intn(3)] = uint32(1+r.Intn(1<<24-1)) * 100
		case 2: // only the last slot
			c.Channels[4] = uint32(1+r.Intn(1<<24-1)) * 100
		default:
			for i := range c.Channels {
				if r.Intn(4) != 0 {
					c.Channels[i] = uint32(r.Intn(1<<24)) * 100
				}
			}
		}
		return &lorawan.CFList{CFListType: lorawan.CFListChannel, Payload: &c}
	default:
		n := 1 + r.Intn(6)
		var p lorawan.CFListChannelMaskPayload
		for i := 0; i < n; i++ {
			var m lorawan.ChMask
			bits := r.U64()
			if r.Intn(5) == 0 {
				bits = 0
			}
			for j := range m {
				m[j] = bits>>uint(j)&1 == 1
			}
			p.ChannelMasks = append(p.ChannelMasks, m)
		}
		// make the last mask non-zero most of the time (a trailing all-zero mask is not representable)
		if r.Intn(4) != 0 {
			p.ChannelMasks[n-1][r.Intn(16)] = true
		}
		return &lorawan.CFList{CFListType: lorawan.CFListChannelMask, Payload: &p}
	}
}

// JoinFrame builds a valid join-request / join-accept / rejoin frame. kind: 0 join-request, 1 join-accept,
// 2 rejoin type 0, 3 rejoin type 2, 4 rejoin type 1.
func JoinFrame(r *cq.RNG, kind int) lorawan.PHYPayload {
	phy := lorawan.PHYPayload{MHDR: lorawan.MHDR{Major: lorawan.LoRaWANR1}}
	copy(phy.MIC[:], r.Bytes(4))
	switch kind {
	case 0:
		phy.MHDR.MType = lorawan.JoinRequest
		phy.MACPayload = &lorawan.JoinRequestPayload{JoinEUI: eui(r), DevEUI: eui(r), DevNonce: lorawan.DevNonce(r.Intn(65536))}
	case 1:
		phy.MHDR.MType = lorawan.JoinAccept
		ja := &lorawan.JoinAcceptPayload{JoinNonce: lorawan.JoinNonce(r.Intn(1 << 24)), RXDelay: uint8(r.Intn(16)),
			DLSettings: lorawan.DLSettings{OptNeg: r.Bool(), RX2DataRate: uint8(r.Intn(16)), RX1DROffset: uint8(r.Intn(8))}}
		switch r.Intn(5) {
		case 0:
			ja.JoinNonce = 0
		case 1:
			ja.JoinNonce = 1<<24 - 1
		}
		copy(ja.HomeNetID[:], r.Bytes(3))
		copy(ja.DevAddr[:], r.Bytes(4))
		ja.CFList = RandomCFList(r)
		phy.MACPayload = ja
	case 2, 3:
		phy.MHDR.MType = lorawan.RejoinRequest
		p := &lorawan.RejoinRequestType02Payload{RejoinType: lorawan.JoinType((kind - 2) * 2), DevEUI: eui(r), RJCount0: uint16(r.Intn(65536))}
		copy(p.NetID[:], r.Bytes(3))
		phy.MACPayload = p
	default:
		phy.MHDR.MType = lorawan.RejoinRequest
		phy.MACPayload = &lorawan.RejoinRequestType1Payload{RejoinType: 1, JoinEUI: eui(r), DevEUI: eui(r), RJCount1: uint16(r.Intn(65536))}
	}
	return phy
}
