// Post-history cases for C13: the enabled uplink data-rates a band object hands out after a
// short history of AddChannel calls are the union of the DR ranges of its uplink channels
// (never an index from the gap between two ranges, which may not be a defined data-rate:
// IN865 DR6, KR920 above DR5, EU868 DR6/7 below the LR-FHSS data-rates ...).
package main

import (
	"fmt"
	"strings"

	"verifharness/bandcfg"
	"verifharness/internal/cases"
	"verifharness/internal/cq"
)

func enabledHistory(s *cases.Set, c bandcfg.Config, ops []bandcfg.Op, kind string) {
	b, err := c.New()
	if err != nil {
		return
	}
	_, errs := bandcfg.Apply(b, ops)
	// what a getter returned belongs to the caller: overwrite every returned slice / pointer and ask
	// again; the observations below are taken afterwards
	for _, ch := range bandcfg.ScribbleCheck(b) {
		s.Fail(cases.GoFail{Key: fmt.Sprintf("returned-value-alias:%s:ops=%s:%s", c.Key(), bandcfg.OpsKey(ops), strings.SplitN(ch, ":", 2)[0]),
			What:   "the band keeps (and hands out again) a slice / pointer it returned to the caller: " + ch,
			Replay: map[string]interface{}{"api": "GetConfig(name, repeater, dwell); history; getter; overwrite the returned value; getter again", "name": string(c.Name), "repeater": c.Repeater, "dwell400ms": c.Dwell, "history": bandcfg.OpsReplay(ops), "changed": ch}})
	}
	var chans []string
	for _, i := range b.GetUplinkChannelIndices() {
		ch, err := b.GetUplinkChannel(i)
		if err != nil {
			s.Fail(cases.GoFail{Key: fmt.Sprintf("enabled-drs-hist:%s:ops=%s", c.Key(), bandcfg.OpsKey(ops)),
				What:   fmt.Sprintf("GetUplinkChannelIndices lists index %d that GetUplinkChannel rejects: %v", i, err),
				Replay: map[string]interface{}{"name": string(c.Name), "history": bandcfg.OpsReplay(ops)}})
			return
		}
		chans = append(chans, fmt.Sprintf("(%d%%Z, %s%%Z, %s%%Z)", ch.Frequency, bandcfg.Z(int64(ch.MinDR)), bandcfg.Z(int64(ch.MaxDR))))
	}
	var customs []int64
	for _, i := range b.GetCustomUplinkChannelIndices() {
		customs = append(customs, int64(i))
	}
	var edr []int64
	for _, v := range b.GetEnabledUplinkDataRates() {
		edr = append(edr, int64(v))
	}
	s.Add(cases.Case{
		Term: fmt.Sprintf("CEnabledHist %d %s %s [%s] %s %s", c.Index, bandcfg.Ops(ops), errs, strings.Join(chans, "; "), cq.Zs(customs), cq.Zs(edr)),
		Key:  fmt.Sprintf("enabled-drs-hist:%s:ops=%s", c.Key(), bandcfg.OpsKey(ops)), Kind: kind, Nontrivial: true,
		Replay: map[string]interface{}{"api": "GetConfig(name, repeater, dwell); history; GetEnabledUplinkDataRates()",
			"name": string(c.Name), "repeater": c.Repeater, "dwell400ms": c.Dwell, "history": bandcfg.OpsReplay(ops), "observed": edr, "observed_channels_freq_min_max": chans, "observed_custom_indices": customs}})
}

func enabledHistories(s *cases.Set, r *cq.RNG, thorough bool, cfgs []bandcfg.Config) {
	// corpus of past failures: IN865 with an FSK-only channel (seeded defect: min(MinDR)..max(MaxDR)
	// instead of the union handed out the RFU index 6)
	for _, c := range cfgs {
		if c.Name == "IN865" {
			enabledHistory(s, c, []bandcfg.Op{{Freq: 866785000, MinDR: 7, MaxDR: 7}}, "enabled-uplink-data-rates-after-history-corpus")
			// seeded defect: AddChannel merged the range into the existing (default) channel of that frequency
			enabledHistory(s, c, []bandcfg.Op{{Freq: 865062500, MinDR: 7, MaxDR: 7}}, "enabled-uplink-data-rates-after-history-corpus")
		}
	}
	for _, c := range cfgs {
		b, err := c.New()
		if err != nil {
			continue
		}
		base := bandcfg.UplinkFrequencies(b)
		runs := bandcfg.UplinkRuns(b)
		if len(base) == 0 || len(runs) == 0 {
			continue
		}
		fresh := func(k int) uint32 { return base[0] + uint32(k)*200000 }
		first, last := runs[0], runs[len(runs)-1]
		if b.AddChannel(fresh(50), first[0], first[1]) != nil {
			// no extra channels: the call is refused and nothing changes
			enabledHistory(s, c, []bandcfg.Op{{fresh(50), last[1], last[1]}}, "enabled-uplink-data-rates-after-refused-add")
			continue
		}
		// a channel for the single highest defined uplink data-rate (IN865: the FSK data-rate 7 above the RFU index 6)
		enabledHistory(s, c, []bandcfg.Op{{fresh(5), last[1], last[1]}}, "enabled-uplink-data-rates-after-history")
		// the lowest and the highest data-rate only, on a default frequency and on a new one
		enabledHistory(s, c, []bandcfg.Op{{base[0], first[0], first[0]}, {fresh(6), last[1], last[1]}}, "enabled-uplink-data-rates-after-history")
		// one channel per run of defined uplink data-rates (the runs are separated by undefined indices)
		var perRun []bandcfg.Op
		for k, run := range runs {
			perRun = append(perRun, bandcfg.Op{fresh(7 + k), run[0], run[1]})
		}
		enabledHistory(s, c, perRun, "enabled-uplink-data-rates-after-history")
		// the top of every run as a single-DR channel
		var tops []bandcfg.Op
		for k, run := range runs {
			tops = append(tops, bandcfg.Op{fresh(12 + k), run[1], run[1]})
		}
		enabledHistory(s, c, tops, "enabled-uplink-data-rates-after-history")
		// a frequency that is already a channel: a default channel's frequency, and the same new
		// frequency twice - with an equal, an overlapping, an adjacent and a disjoint DR range.
		// AddChannel adds a channel each time.
		d0 := first // DR range of the default channels of the extra-channel bands = the first run or its lower part
		if ch, err := b.GetUplinkChannel(0); err == nil {
			d0 = [2]int{ch.MinDR, ch.MaxDR}
		}
		type rng struct{ lo, hi int }
		variants := []rng{{d0[0], d0[1]}, {last[1], last[1]}}
		if d0[1] > d0[0] {
			variants = append(variants, rng{d0[0] + 1, d0[1]}) // inside / overlapping
		}
		for _, run := range runs {
			if run[0] <= d0[1]+1 && d0[1]+1 <= run[1] {
				variants = append(variants, rng{d0[1] + 1, d0[1] + 1}, rng{d0[1], d0[1] + 1}) // adjacent, overlapping upwards
			}
		}
		for k, v := range variants {
			enabledHistory(s, c, []bandcfg.Op{{base[k%len(base)], v.lo, v.hi}}, "enabled-uplink-data-rates-after-reused-frequency")
			enabledHistory(s, c, []bandcfg.Op{{fresh(20), d0[0], d0[1]}, {fresh(20), v.lo, v.hi}, {fresh(21), first[0], first[0]}}, "enabled-uplink-data-rates-after-reused-frequency")
		}
		// a long history: 101 channels on distinct frequencies, single-DR ranges cycling through the runs
		var long []bandcfg.Op
		for k := 0; k < 101; k++ {
			run := runs[k%len(runs)]
			d := run[0] + (k/len(runs))%(run[1]-run[0]+1)
			long = append(long, bandcfg.Op{fresh(30 + k), d, d})
		}
		if !c.Repeater && !c.Dwell || thorough {
			enabledHistory(s, c, long, "enabled-uplink-data-rates-after-long-history")
		}
		n := 6
		if thorough {
			n = 150
		}
		for k := 0; k < n; k++ {
			enabledHistory(s, c, bandcfg.RandomHistory(r, base, runs, 1+r.Intn(4)), "enabled-uplink-data-rates-after-history")
		}
	}
}
