(* Model of applayer/firmwaremanagement/firmwaremanagement.go (Firmware
   Management Protocol): eleven payloads, registry, Command / Commands
   instance.  The unexported *uint32 nextFirmwareVersion is an [option N];
   dereferencing nil is [Panic].  No proofs in this file. *)
From Coq Require Import List NArith ZArith Bool.
From LW Require Import Base.Outcome Base.Bytes App.Common.
Import ListNotations.
Open Scope N_scope.

Inductive payload :=
| PackageVersionAns (ident ver : N)
| DevVersionReq
| DevVersionAns (fw hw : N)
| DevRebootTimeReq (t : N)
| DevRebootTimeAns (t : N)
| DevRebootCountdownReq (c : N)
| DevRebootCountdownAns (c : N)
| DevUpgradeImageReq
| DevUpgradeImageAns (status : N) (next_fw : option N)
| DevDeleteImageReq (ver : N)
| DevDeleteImageAns (err_invalid_version err_no_valid_image : N).   (* both uint8 *)

Definition fw_valid (status : N) : bool := status =? 3.   (* UpImageStatus == FirmwareValid *)

Definition psize (p : payload) : nat :=
  match p with
  | PackageVersionAns _ _ => 2
  | DevVersionReq => 0
  | DevVersionAns _ _ => 8
  | DevRebootTimeReq _ => 4
  | DevRebootTimeAns _ => 4
  | DevRebootCountdownReq _ => 3
  | DevRebootCountdownAns _ => 3
  | DevUpgradeImageReq => 0
  | DevUpgradeImageAns st _ => if fw_valid st then 5 else 1
  | DevDeleteImageReq _ => 4
  | DevDeleteImageAns _ _ => 1
  end.

Definition enc (p : payload) : outcome (list N) :=
  match p with
  | PackageVersionAns i v => Ok [i; v]
  | DevVersionReq => Ok []
  | DevVersionAns fw hw => Ok (le_bytes 4 fw ++ le_bytes 4 hw)
  | DevRebootTimeReq t => Ok (le_bytes 4 t)
  | DevRebootTimeAns t => Ok (le_bytes 4 t)
  | DevRebootCountdownReq c => Ok (firstn 3 (le_bytes 4 c))
  | DevRebootCountdownAns c => Ok (firstn 3 (le_bytes 4 c))
  | DevUpgradeImageReq => Ok []
  | DevUpgradeImageAns st next =>
    (* firmwaremanagement.go:429-450 (nil check added by fix bb4a8d3) *)
    if negb (fw_valid st) && (match next with Some _ => true | None => false end) then Err else
    if fw_valid st && (match next with Some _ => false | None => true end) then Err else
    let b0 := N.land st 0x3 in
    if fw_valid st then
      match next with
      | Some v => Ok (b0 :: le_bytes 4 v)
      | None => Panic                          (* *p.nextFirmwareVersion *)
      end
    else Ok [b0]
  | DevDeleteImageReq v => Ok (le_bytes 4 v)
  | DevDeleteImageAns inv noval =>
    (* firmwaremanagement.go:515-516 (after fix 01e6d94) *)
    let b := N.land noval 0x1 in
    Ok [N.lor b (shl8 (N.land inv 0x1) 1)]
  end.

Definition dec_PackageVersionAns (data : list N) : outcome payload :=
  if (length data <? 2)%nat then Err else
  do i <- idx data 0; do v <- idx data 1; Ok (PackageVersionAns i v).

(* len(data) != p.Size(): exact length *)
Definition dec_DevVersionReq (data : list N) : outcome payload :=
  if negb (Nat.eqb (length data) 0) then Err else Ok DevVersionReq.

Definition dec_DevVersionAns (data : list N) : outcome payload :=
  if (length data <? 8)%nat then Err else
  do fw <- rd_le data 0 4; do hw <- rd_le data 4 4; Ok (DevVersionAns fw hw).

Definition dec_DevRebootTimeReq (data : list N) : outcome payload :=
  if (length data <? 4)%nat then Err else
  do t <- rd_le data 0 4; Ok (DevRebootTimeReq t).

Definition dec_DevRebootTimeAns (data : list N) : outcome payload :=
  if (length data <? 4)%nat then Err else
  do t <- rd_le data 0 4; Ok (DevRebootTimeAns t).

(* countdownB := make([]byte, 4); copy(countdownB, data[0:3]) *)
Definition dec_DevRebootCountdownReq (data : list N) : outcome payload :=
  if (length data <? 3)%nat then Err else
  do s <- sub data 0 3; Ok (DevRebootCountdownReq (le_val (s ++ [0]))).

Definition dec_DevRebootCountdownAns (data : list N) : outcome payload :=
  if (length data <? 3)%nat then Err else
  do s <- sub data 0 3; Ok (DevRebootCountdownAns (le_val (s ++ [0]))).

Definition dec_DevUpgradeImageReq (data : list N) : outcome payload :=
  if negb (Nat.eqb (length data) 0) then Err else Ok DevUpgradeImageReq.

Definition dec_DevUpgradeImageAns (data : list N) : outcome payload :=
  if (length data <? 1)%nat then Err else
  do b <- idx data 0;
  let st := N.land b 0x3 in
  if fw_valid st then
    if (length data <? 5)%nat then Err else
    do v <- rd_le data 1 4; Ok (DevUpgradeImageAns st (Some v))
  else Ok (DevUpgradeImageAns st None).

(* len(data) < p.Size() since fix e758b58 *)
Definition dec_DevDeleteImageReq (data : list N) : outcome payload :=
  if (length data <? 4)%nat then Err else
  do v <- rd_le data 0 4; Ok (DevDeleteImageReq v).

Definition dec_DevDeleteImageAns (data : list N) : outcome payload :=
  if (length data <? 1)%nat then Err else
  do b <- idx data 0;
  Ok (DevDeleteImageAns (N.land (N.shiftr b 1) 0x1) (N.land b 0x1)).

(* commandPayloadRegistry: firmwaremanagement.go:40-57 *)
Definition lookup (uplink : bool) (cid : N) : option (list N -> outcome payload) :=
  if uplink then
    match cid with
    | 0 => Some dec_PackageVersionAns
    | 1 => Some dec_DevVersionAns
    | 2 => Some dec_DevRebootTimeAns
    | 3 => Some dec_DevRebootCountdownAns
    | 4 => Some dec_DevUpgradeImageAns
    | 5 => Some dec_DevDeleteImageAns
    | _ => None
    end
  else
    match cid with
    | 1 => Some dec_DevVersionReq
    | 2 => Some dec_DevRebootTimeReq
    | 3 => Some dec_DevRebootCountdownReq
    | 4 => Some dec_DevUpgradeImageReq
    | 5 => Some dec_DevDeleteImageReq
    | _ => None
    end.

Definition cid_of (p : payload) : N :=
  match p with
  | PackageVersionAns _ _ => 0
  | DevVersionReq | DevVersionAns _ _ => 1
  | DevRebootTimeReq _ | DevRebootTimeAns _ => 2
  | DevRebootCountdownReq _ | DevRebootCountdownAns _ => 3
  | DevUpgradeImageReq | DevUpgradeImageAns _ _ => 4
  | DevDeleteImageReq _ | DevDeleteImageAns _ _ => 5
  end.
Definition uplink_of (p : payload) : bool :=
  match p with
  | PackageVersionAns _ _ | DevVersionAns _ _ | DevRebootTimeAns _ | DevRebootCountdownAns _
  | DevUpgradeImageAns _ _ | DevDeleteImageAns _ _ => true
  | _ => false
  end.

(* Size() of the fresh payload GetCommandPayload(uplink, cid) returns *)
Definition fresh_size (uplink : bool) (cid : N) : option nat :=
  if uplink then
    match cid with
    | 0 => Some 2%nat | 1 => Some 8%nat | 2 => Some 4%nat | 3 => Some 3%nat
    | 4 => Some 1%nat | 5 => Some 1%nat
    | _ => None
    end
  else
    match cid with
    | 1 => Some 0%nat | 2 => Some 4%nat | 3 => Some 3%nat | 4 => Some 0%nat | 5 => Some 4%nat
    | _ => None
    end.

(* Commands.UnmarshalBinary (firmwaremanagement.go:147-166, since fix e758b58):
   b := data[i:]; if the CID has a payload whose fresh Size() is 0 { b = b[:1] } *)
Definition window (uplink : bool) (data : list N) : list N :=
  match data with
  | cid :: _ =>
    match fresh_size uplink cid with
    | Some O => firstn 1 data
    | _ => data
    end
  | [] => data
  end.

Definition command := Common.command payload.
Definition cmd_enc : command -> outcome (list N) := Common.cmd_enc enc.
Definition cmd_size : command -> nat := Common.cmd_size psize.
Definition cmd_dec : bool -> list N -> outcome command := Common.cmd_dec lookup.
Definition cmds_enc : list command -> outcome (list N) := Common.cmds_enc enc.
Definition cmds_dec : bool -> list N -> outcome (list command) :=
  Common.cmds_dec psize lookup window.
