package bandcfg

import (
	"fmt"

	"github.com/brocaar/lorawan"
	"github.com/brocaar/lorawan/band"
)

// ScribbleCheck: what a getter returns belongs to the caller.  Every getter of the Band interface
// that returns a slice or a pointer is called, its result is copied (printed), then OVERWRITTEN
// completely by the caller, and the getter is called again: the second answer must be the first.
// Returns the names of the getters whose answer changed ("<getter>: first ... then ...").
// The object is left in whatever state the library is in afterwards - callers take their
// ordinary observations AFTER this, so a band handing out overwritten values also fails the
// properties evaluated on those observations.
func ScribbleCheck(b band.Band) (changed []string) {
	defer func() {
		if r := recover(); r != nil {
			changed = append(changed, fmt.Sprintf("panic: %v", r))
		}
	}()
	ints := func(name string, get func() []int) {
		r1 := get()
		want := fmt.Sprint(r1)
		for i := range r1 {
			r1[i] = 12 - i // e.g. data-rate index -> spreading factor, in place
		}
		if len(r1) > 0 {
			r1 = append(r1[:0], 1000, 1001)[:1]
		}
		got := fmt.Sprint(get())
		if got != want {
			changed = append(changed, fmt.Sprintf("%s: first %s, after the caller overwrote that slice %s", name, want, got))
		}
	}
	ints("GetEnabledUplinkDataRates", b.GetEnabledUplinkDataRates)
	ints("GetUplinkChannelIndices", b.GetUplinkChannelIndices)
	ints("GetStandardUplinkChannelIndices", b.GetStandardUplinkChannelIndices)
	ints("GetCustomUplinkChannelIndices", b.GetCustomUplinkChannelIndices)
	ints("GetEnabledUplinkChannelIndices", b.GetEnabledUplinkChannelIndices)
	ints("GetDisabledUplinkChannelIndices", b.GetDisabledUplinkChannelIndices)
	ints("GetEnabledUplinkDataRates", b.GetEnabledUplinkDataRates)

	cfl := func(v string) string {
		cf := b.GetCFList(v)
		if cf == nil {
			return "nil"
		}
		bin, err := cf.MarshalBinary()
		s := fmt.Sprintf("%v %x %v", cf.CFListType, bin, err)
		// overwrite everything reachable
		switch p := cf.Payload.(type) {
		case *lorawan.CFListChannelPayload:
			for i := range p.Channels {
				p.Channels[i] = 1
			}
		case *lorawan.CFListChannelMaskPayload:
			for i := range p.ChannelMasks {
				for j := range p.ChannelMasks[i] {
					p.ChannelMasks[i][j] = !p.ChannelMasks[i][j]
				}
			}
			p.ChannelMasks = p.ChannelMasks[:0]
		}
		cf.CFListType = 77
		cf.Payload = nil
		return s
	}
	for _, v := range []string{band.LoRaWAN_1_0_2, band.LoRaWAN_1_0_3, band.LoRaWAN_1_1_0} {
		want := cfl(v)
		if got := cfl(v); got != want {
			changed = append(changed, fmt.Sprintf("GetCFList(%s): first %s, after the caller overwrote it %s", v, want, got))
		}
	}

	en := append([]int{}, b.GetEnabledUplinkChannelIndices()...)
	adr := func() string {
		pls := b.GetLinkADRReqPayloadsForEnabledUplinkChannelIndices(en)
		s := fmt.Sprintf("%+v", pls)
		back, err := b.GetEnabledUplinkChannelIndicesForLinkADRReqPayloads(en, pls)
		s += fmt.Sprintf(" -> %v %v", back, err)
		for i := range back {
			back[i] = -5
		}
		for i := range pls {
			pls[i] = lorawan.LinkADRReqPayload{DataRate: 15, TXPower: 15, Redundancy: lorawan.Redundancy{ChMaskCntl: 7, NbRep: 15}}
			for j := range pls[i].ChMask {
				pls[i].ChMask[j] = true
			}
		}
		return s
	}
	want := adr()
	if got := adr(); got != want {
		changed = append(changed, fmt.Sprintf("GetLinkADRReqPayloadsForEnabledUplinkChannelIndices / ...ForLinkADRReqPayloads: first %s, after the caller overwrote the results %s", want, got))
	}
	// values returned as structs: a copy by construction; overwritten all the same
	for dr := 0; dr < 16; dr++ {
		d1, e1 := b.GetDataRate(dr)
		w := fmt.Sprintf("%+v %v", d1, e1 != nil)
		d1 = band.DataRate{Modulation: "x", SpreadFactor: 99}
		d2, e2 := b.GetDataRate(dr)
		if g := fmt.Sprintf("%+v %v", d2, e2 != nil); g != w {
			changed = append(changed, fmt.Sprintf("GetDataRate(%d): first %s then %s", dr, w, g))
		}
		_ = d1
	}
	return changed
}
