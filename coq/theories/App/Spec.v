(* Wire layouts of the application-layer package commands, written from the
   specifications (TS003 Clock Synchronization v1.0.0, TS005 Remote
   Multicast Setup v1.0.0, TS004 Fragmented Data Block Transport v1.0.0,
   TS006 Firmware Management v1.0.0), not from the code: per payload a
   table of fields in wire order, each a little-endian integer of a given
   byte count that is divided into named bit fields from bit 0 upwards
   (RFU fields carry 0), or a byte string carried verbatim.

   The same tables give the meaning of "fields lie within their specified
   bit widths" ([in_width]).  No proofs in this file. *)
From Coq Require Import List NArith ZArith Bool String.
From LW Require Import Base.Outcome Base.Bytes.
From LW Require App.ClockSync App.Multicast App.FragCmds App.FwMgmt.
Import ListNotations.
Open Scope N_scope.

Inductive field := Fd (name : string) (width : N) (value : N).
Inductive group :=
| G (nbytes : nat) (fields : list field)       (* one little-endian integer *)
| Raw (name : string) (n : nat) (bytes : list N).

Definition fwidth (f : field) : N := match f with Fd _ w _ => w end.
Definition fvalue (f : field) : N := match f with Fd _ _ v => v end.

(* value of the integer: first field in the low bits *)
Fixpoint pack (fs : list field) : N :=
  match fs with
  | [] => 0
  | Fd _ w v :: fs' => v + 2 ^ w * pack fs'
  end.

Definition group_bytes (g : group) : list N :=
  match g with
  | G k fs => le_bytes k (pack fs)
  | Raw _ _ bs => bs
  end.
Definition spec_bytes (gs : list group) : list N := flat_map group_bytes gs.

Fixpoint sum_widths (fs : list field) : N :=
  match fs with [] => 0 | f :: fs' => fwidth f + sum_widths fs' end.

Definition group_ok (g : group) : bool :=
  match g with
  | G k fs => (sum_widths fs =? 8 * N.of_nat k)
              && forallb (fun f => fvalue f <? 2 ^ fwidth f) fs
  | Raw _ n bs => Nat.eqb (List.length bs) n && bytes_ok bs
  end.
Definition groups_ok (gs : list group) : bool := forallb group_ok gs.

Definition b2n (b : bool) : N := if b then 1 else 0.
(* a 4-bit group mask: bit i set iff group i is selected *)
Fixpoint mask_val (m : list bool) : N :=
  match m with [] => 0 | b :: m' => b2n b + 2 * mask_val m' end.
Definition is_some {A} (o : option A) : bool := match o with Some _ => true | None => false end.

Definition U8 (name : string) (v : N) : group := G 1 [Fd name 8 v].
Definition U16 (name : string) (v : N) : group := G 2 [Fd name 16 v].
Definition U24 (name : string) (v : N) : group := G 3 [Fd name 24 v].
Definition U32 (name : string) (v : N) : group := G 4 [Fd name 32 v].
(* a 32-bit address, transmitted little-endian; [a] lists the address bytes
   most significant first *)
Definition ADDR (name : string) (a : list N) : group := U32 name (be_val a).
Definition addr_ok (a : list N) : bool := Nat.eqb (List.length a) 4 && bytes_ok a.

Local Open Scope string_scope.

(* ---- TS003 clock synchronization --------------------------------------- *)
Module CS.
  Import ClockSync.
  Definition spec (p : payload) : list group :=
    match p with
    | PackageVersionAns i v => [U8 "PackageIdentifier" i; U8 "PackageVersion" v]
    | AppTimeReq dt ans tok =>
      [U32 "DeviceTime" dt;
       G 1 [Fd "TokenReq" 4 tok; Fd "AnsRequired" 1 (b2n ans); Fd "RFU" 3 0]]
    | AppTimeAns tc tok =>
      (* signed 32-bit, two's complement *)
      [U32 "TimeCorrection" (Z.to_N (tc mod 2 ^ 32));
       G 1 [Fd "TokenAns" 4 tok; Fd "RFU" 4 0]]
    | DeviceAppTimePeriodicityReq per => [G 1 [Fd "Period" 4 per; Fd "RFU" 4 0]]
    | DeviceAppTimePeriodicityAns ns t =>
      [G 1 [Fd "NotSupported" 1 (b2n ns); Fd "RFU" 7 0]; U32 "Time" t]
    | ForceDeviceResyncReq nb => [G 1 [Fd "NbTransmissions" 3 nb; Fd "RFU" 5 0]]
    end.
  Definition extra (p : payload) : bool :=
    match p with
    | AppTimeAns tc _ => ((- 2 ^ 31 <=? tc) && (tc <? 2 ^ 31))%Z
    | _ => true
    end.
  Definition in_widthb (p : payload) : bool := groups_ok (spec p) && extra p.
End CS.

(* ---- TS005 remote multicast setup -------------------------------------- *)
Module MC.
  Import Multicast.
  Definition status_groups (u f d : bool) (id : N) (tts : option N) : list group :=
    G 1 [Fd "McGroupID" 2 id; Fd "DRError" 1 (b2n d); Fd "FreqError" 1 (b2n f);
         Fd "McGroupUndefined" 1 (b2n u); Fd "RFU" 3 0]
    :: match tts with Some t => [U24 "TimeToStart" t] | None => [] end.
  Definition item_groups (it : N * list N) : list group :=
    [G 1 [Fd "McGroupID" 2 (fst it); Fd "RFU" 6 0]; ADDR "McAddr" (snd it)].
  Definition spec (p : payload) : list group :=
    match p with
    | PackageVersionAns i v => [U8 "PackageIdentifier" i; U8 "PackageVersion" v]
    | McGroupStatusReq m => [G 1 [Fd "ReqGroupMask" 4 (mask_val m); Fd "RFU" 4 0]]
    | McGroupStatusAns nb m items =>
      G 1 [Fd "AnsGroupMask" 4 (mask_val m); Fd "NbTotalGroups" 3 nb; Fd "RFU" 1 0]
      :: flat_map item_groups items
    | McGroupSetupReq id addr key minf maxf =>
      [G 1 [Fd "McGroupID" 2 id; Fd "RFU" 6 0]; ADDR "McAddr" addr; Raw "McKey_encrypted" 16 key;
       U32 "minMcFCount" minf; U32 "maxMcFCount" maxf]
    | McGroupSetupAns e id => [G 1 [Fd "McGroupID" 2 id; Fd "IDerror" 1 (b2n e); Fd "RFU" 5 0]]
    | McGroupDeleteReq id => [G 1 [Fd "McGroupID" 2 id; Fd "RFU" 6 0]]
    | McGroupDeleteAns u id => [G 1 [Fd "McGroupID" 2 id; Fd "McGroupUndefined" 1 (b2n u); Fd "RFU" 5 0]]
    | McClassCSessionReq id st tmo freq dr =>
      [G 1 [Fd "McGroupID" 2 id; Fd "RFU" 6 0]; U32 "SessionTime" st;
       G 1 [Fd "TimeOut" 4 tmo; Fd "RFU" 4 0]; U24 "DLFrequ" (freq / 100); U8 "DR" dr]
    | McClassCSessionAns u f d id tts => status_groups u f d id tts
    | McClassBSessionReq id st per tmo freq dr =>
      [G 1 [Fd "McGroupID" 2 id; Fd "RFU" 6 0]; U32 "SessionTime" st;
       G 1 [Fd "TimeOut" 4 tmo; Fd "Periodicity" 3 per; Fd "RFU" 1 0];
       U24 "DLFrequ" (freq / 100); U8 "DR" dr]
    | McClassBSessionAns u f d id tts => status_groups u f d id tts
    end.
  Definition extra (p : payload) : bool :=
    match p with
    | McGroupStatusReq m => Nat.eqb (List.length m) 4
    | McGroupStatusAns _ m items =>
      Nat.eqb (List.length m) 4 && Nat.eqb (List.length items) (Common.count_true m)
      && forallb (fun it => addr_ok (snd it)) items
    | McGroupSetupReq _ addr _ _ _ => addr_ok addr
    (* the frequency field carries Hz / 100 *)
    | McClassCSessionReq _ _ _ freq _ => freq mod 100 =? 0
    | McClassBSessionReq _ _ _ _ freq _ => freq mod 100 =? 0
    (* TimeToStart is present exactly when no error bit is set *)
    | McClassCSessionAns u f d _ tts => Bool.eqb (is_some tts) (negb (u || f || d))
    | McClassBSessionAns u f d _ tts => Bool.eqb (is_some tts) (negb (u || f || d))
    | _ => true
    end.
  Definition in_widthb (p : payload) : bool := groups_ok (spec p) && extra p.
End MC.

(* ---- TS004 fragmented data block transport ----------------------------- *)
Module FR.
  Import FragCmds.
  Definition spec (p : payload) : list group :=
    match p with
    | PackageVersionAns i v => [U8 "PackageIdentifier" i; U8 "PackageVersion" v]
    | FragSessionSetupReq fi m nb fs fm bad pad desc =>
      [G 1 [Fd "McGroupBitMask" 4 (mask_val m); Fd "FragIndex" 2 fi; Fd "RFU" 2 0];
       U16 "NbFrag" nb; U8 "FragSize" fs;
       G 1 [Fd "BlockAckDelay" 3 bad; Fd "FragAlgo" 3 fm; Fd "RFU" 2 0];
       U8 "Padding" pad; Raw "Descriptor" 4 desc]
    | FragSessionSetupAns fi wd ins nem eu =>
      [G 1 [Fd "EncodingUnsupported" 1 (b2n eu); Fd "NotEnoughMemory" 1 (b2n nem);
            Fd "FragSessionIndexNotSupported" 1 (b2n ins); Fd "WrongDescriptor" 1 (b2n wd);
            Fd "RFU" 2 0; Fd "FragIndex" 2 fi]]
    | FragSessionDeleteReq fi => [G 1 [Fd "FragIndex" 2 fi; Fd "RFU" 6 0]]
    | FragSessionDeleteAns fi sdne =>
      [G 1 [Fd "FragIndex" 2 fi; Fd "SessionDoesNotExist" 1 (b2n sdne); Fd "RFU" 5 0]]
    | DataFragment fi n d =>
      [G 2 [Fd "N" 14 n; Fd "FragIndex" 2 fi]; Raw "FragmentPayload" (List.length d) d]
    | FragSessionStatusReq fi part =>
      [G 1 [Fd "Participants" 1 (b2n part); Fd "FragIndex" 2 fi; Fd "RFU" 5 0]]
    | FragSessionStatusAns fi nbr miss nemm =>
      [G 2 [Fd "NbFragReceived" 14 nbr; Fd "FragIndex" 2 fi]; U8 "MissingFrag" miss;
       G 1 [Fd "NotEnoughMatrixMemory" 1 (b2n nemm); Fd "RFU" 7 0]]
    end.
  Definition extra (p : payload) : bool :=
    match p with
    | FragSessionSetupReq _ m _ _ _ _ _ _ => Nat.eqb (List.length m) 4
    | _ => true
    end.
  Definition in_widthb (p : payload) : bool := groups_ok (spec p) && extra p.
End FR.

(* ---- TS006 firmware management ----------------------------------------- *)
Module FW.
  Import FwMgmt.
  Definition spec (p : payload) : list group :=
    match p with
    | PackageVersionAns i v => [U8 "PackageIdentifier" i; U8 "PackageVersion" v]
    | DevVersionReq => []
    | DevVersionAns fw hw => [U32 "FWversion" fw; U32 "HWversion" hw]
    | DevRebootTimeReq t => [U32 "RebootTime" t]
    | DevRebootTimeAns t => [U32 "RebootTime" t]
    | DevRebootCountdownReq c => [U24 "Countdown" c]
    | DevRebootCountdownAns c => [U24 "Countdown" c]
    | DevUpgradeImageReq => []
    | DevUpgradeImageAns st next =>
      G 1 [Fd "UpImageStatus" 2 st; Fd "RFU" 6 0]
      :: match next with Some v => [U32 "nextFirmwareVersion" v] | None => [] end
    | DevDeleteImageReq v => [U32 "FirmwareToDeleteVersion" v]
    | DevDeleteImageAns inv noval =>
      [G 1 [Fd "ErrorNoValidImage" 1 noval; Fd "ErrorInvalidVersion" 1 inv; Fd "RFU" 6 0]]
    end.
  Definition extra (p : payload) : bool :=
    match p with
    (* the next firmware version is present exactly when a valid image is reported (status 3) *)
    | DevUpgradeImageAns st next => Bool.eqb (is_some next) (st =? 3)
    | _ => true
    end.
  Definition in_widthb (p : payload) : bool := groups_ok (spec p) && extra p.
End FW.

Local Close Scope string_scope.

(* ---- well-formed commands and streams ----------------------------------
   A command is a CID and an optional payload.  It is well formed for a
   direction when the payload is the one the package defines for that CID
   and direction and its fields are within their widths, or when it has no
   payload and the package defines none for that CID and direction (e.g.
   PackageVersionReq).  A payload that extends to the end of the message
   (DataFragment) can only be the last command of a stream. *)
Section WF.
  Context {P : Type}.
  Variable inw : P -> bool.
  Variable cid_of : P -> N.
  Variable up_of : P -> bool.
  Variable has_payload : bool -> N -> bool.
  Variable greedy : P -> bool.
  Variable spec : P -> list group.

  Definition wf_cmd (up : bool) (c : N * option P) : bool :=
    match snd c with
    | None => (fst c <? 256) && negb (has_payload up (fst c))
    | Some p => (fst c =? cid_of p) && Bool.eqb (up_of p) up && inw p
    end.

  Definition cmd_greedy (c : N * option P) : bool :=
    match snd c with Some p => greedy p | None => false end.

  Fixpoint wf_stream (up : bool) (cs : list (N * option P)) : bool :=
    match cs with
    | [] => true
    | c :: cs' =>
      wf_cmd up c && (match cs' with [] => true | _ => negb (cmd_greedy c) end) && wf_stream up cs'
    end.

  (* some payload that extends to the end of the message is followed by another command *)
  Fixpoint greedy_not_last (cs : list (N * option P)) : bool :=
    match cs with
    | [] => false
    | c :: cs' => (match cs' with [] => false | _ => cmd_greedy c end) || greedy_not_last cs'
    end.

  Definition spec_cmd_bytes (c : N * option P) : list N :=
    fst c :: match snd c with Some p => spec_bytes (spec p) | None => [] end.
  Definition spec_stream_bytes (cs : list (N * option P)) : list N :=
    flat_map spec_cmd_bytes cs.
End WF.

Definition opt_some {A} (o : option A) : bool := match o with Some _ => true | None => false end.
Definition never {P} (p : P) : bool := false.

Module CSW.
  Definition has_payload up cid := opt_some (ClockSync.lookup up cid).
  Definition wf_cmd := wf_cmd CS.in_widthb ClockSync.cid_of ClockSync.uplink_of has_payload.
  Definition wf_stream := wf_stream CS.in_widthb ClockSync.cid_of ClockSync.uplink_of has_payload never.
  Definition stream_bytes := spec_stream_bytes CS.spec.
End CSW.
Module MCW.
  Definition has_payload up cid := opt_some (Multicast.lookup up cid).
  Definition wf_cmd := wf_cmd MC.in_widthb Multicast.cid_of Multicast.uplink_of has_payload.
  Definition wf_stream := wf_stream MC.in_widthb Multicast.cid_of Multicast.uplink_of has_payload never.
  Definition stream_bytes := spec_stream_bytes MC.spec.
End MCW.
Module FRW.
  Definition has_payload up cid := opt_some (FragCmds.lookup up cid).
  Definition greedy (p : FragCmds.payload) : bool :=
    match p with FragCmds.DataFragment _ _ _ => true | _ => false end.
  Definition wf_cmd := wf_cmd FR.in_widthb FragCmds.cid_of FragCmds.uplink_of has_payload.
  Definition wf_stream := wf_stream FR.in_widthb FragCmds.cid_of FragCmds.uplink_of has_payload greedy.
  (* known finding C18-5: a DataFragment that is not the last command of the payload *)
  Definition data_fragment_not_last : list (N * option FragCmds.payload) -> bool := greedy_not_last greedy.
  Definition stream_bytes := spec_stream_bytes FR.spec.
End FRW.
Module FWW.
  Definition has_payload up cid := opt_some (FwMgmt.lookup up cid).
  Definition wf_cmd := wf_cmd FW.in_widthb FwMgmt.cid_of FwMgmt.uplink_of has_payload.
  Definition wf_stream := wf_stream FW.in_widthb FwMgmt.cid_of FwMgmt.uplink_of has_payload never.
  Definition stream_bytes := spec_stream_bytes FW.spec.
End FWW.
