(* C16 - join-server answers are usable by a spec-conformant device and network server.
   Statement file: each theorem is closed by [exact] of a lemma proved in theories/Backend,
   followed by Print Assumptions.

   [handle cfg body] is the model of the HTTP handler (Backend/JoinServer.v), a pure function of the
   configuration callbacks and the request.  The end-device, network server and application server
   ([device], [join_request_frame], [device_accept], [echoes], [servers_share_keys], [opens_to]) are the
   independent oracle of Backend/Device.v, written from LoRaWAN 1.1 / 1.0.x section 6.2 and the Backend
   Interfaces key-envelope definition.  Requests are described by what the repository's own
   decoders make of them ([typed_decode], [unmarshal_text]): every textual spelling of the hex fields
   (upper / lower case, 0x prefix) is covered.  [kek_supported k]: no KEK, or an AES-128 KEK.
   [cf_canonical cf]: no CFList, or 16 bytes that decode and re-encode to themselves; C16_cflist shows
   that every well-formed CFList is (any 16 octets of a type other than 1; type 1 = six channel masks with
   the three RFU octets zero; C16_cflist_masks_any_rfu: with other RFU octets the request still succeeds
   and the RFU octets come back as zero). *)
From Coq Require Import List NArith ZArith Bool Permutation.
From LW Require Import Base.Outcome Base.Bytes Base.Hex Crypto.AES Crypto.CMAC Mac.Commands Frame.Model
  Backend.KeyEnvelope Backend.JoinServer Backend.Device Backend.JoinServerProofs Backend.JoinServerCFList
  Backend.JoinServerWitness Backend.JoinServerTotal.
From LWGen Require Import KnownGen.
Import ListNotations.
Open Scope N_scope.

(* join-request of a known device with the correct MIC: Success; the device decrypts the join-accept and
   accepts its MIC; DevAddr / DLSettings / RxDelay / CFList are the requested ones, JoinNonce the
   configured one, NetID the sender's; every session key, unwrapped with the configured KEK, is the
   key the device derives (1.0 or 1.1 derivation by OptNeg).  ReceiverID only has to be an EUI64 text
   [rid]: the JoinEUI of the MIC-validated join-request is the one used (audit finding 3, repaired) *)
Theorem C16_join_usable : forall cfg r d dn netid rid devaddr dls rxd cf jn nskek aslabel askek,
  wf_device d -> dn < 65536 -> jn < 16777216 ->
  length netid = 3%nat -> bytes netid -> length devaddr = 4%nat -> bytes devaddr ->
  dls < 256 -> rxd < 16 -> bytes cf -> cf_canonical cf ->
  r_mtype r = s_JoinReq -> base_decode r = Ok tt ->
  typed_decode r = Ok (mkTReq (join_request_frame d dn) (d_deveui d) devaddr (dec_dlsettings dls) (Z.of_N rxd) cf) ->
  unmarshal_text 3 (r_sender r) = Ok netid -> unmarshal_text 8 (r_receiver r) = Ok rid ->
  get_keys cfg (d_deveui d) = Found (mkDevKeys (d_nwkkey d) (d_appkey d) (Z.of_N jn)) ->
  get_kek cfg (r_sender r) = Ok nskek -> kek_supported nskek ->
  get_aslabel cfg (d_deveui d) = Ok aslabel -> get_kek cfg aslabel = Ok askek -> kek_supported askek ->
  exists phy keys s,
    handle cfg (Body r) = AMsg 200 MJoinAns (r_receiver r) (r_sender r) (r_txid r) RSuccess phy None keys None /\
    device_accept d 255 dn phy = Some s /\
    echoes s jn netid devaddr dls rxd (opt_cf cf) = true /\
    servers_share_keys (keks_of cfg) (r_sender r) aslabel s (k_snwksint keys) (k_fnwksint keys) (k_nwksenc keys) (k_nwkskey keys)
                       (k_appskey keys) = true.
Proof. exact join_usable. Qed.
Print Assumptions C16_join_usable.

(* the hypotheses are satisfiable (parameters of joinserver_test.go, with KEKs) *)
Example C16_join_hypotheses_satisfiable :
  join_conformant w_cfg_kek (w_join 149) w_dev 258 w_netid (d_joineui w_dev) w_devaddr 149 1 w_cf 65536 w_kek s_as w_kek.
Proof. exact w_join_conformant. Qed.

(* [join_conformant] / [rejoin_conformant] are exactly the hypothesis lists *)
Theorem C16_join_conformant_is : forall cfg r d dn netid rid devaddr dls rxd cf jn nskek aslabel askek,
  join_conformant cfg r d dn netid rid devaddr dls rxd cf jn nskek aslabel askek <->
  (wf_device d /\ dn < 65536 /\ jn < 16777216 /\
   length netid = 3%nat /\ bytes netid /\ length devaddr = 4%nat /\ bytes devaddr /\
   dls < 256 /\ rxd < 16 /\ bytes cf /\ cf_canonical cf /\
   r_mtype r = s_JoinReq /\ base_decode r = Ok tt /\
   typed_decode r = Ok (mkTReq (join_request_frame d dn) (d_deveui d) devaddr (dec_dlsettings dls) (Z.of_N rxd) cf) /\
   unmarshal_text 3 (r_sender r) = Ok netid /\ unmarshal_text 8 (r_receiver r) = Ok rid /\
   get_keys cfg (d_deveui d) = Found (mkDevKeys (d_nwkkey d) (d_appkey d) (Z.of_N jn)) /\
   get_kek cfg (r_sender r) = Ok nskek /\ kek_supported nskek /\
   get_aslabel cfg (d_deveui d) = Ok aslabel /\ get_kek cfg aslabel = Ok askek /\ kek_supported askek).
Proof. exact join_conformant_is. Qed.
Print Assumptions C16_join_conformant_is.

(* every well-formed CFList is echoed byte for byte (hypothesis [cf_canonical] above): any 16 octets
   of a type other than 1; for type 1 (six channel masks) the three RFU octets 12..14 must be zero, because
   the decoder ignores them and the encoder writes zeros *)
Theorem C16_cflist : forall c,
  length c = 16%nat /\ bytes c /\ (nth 15 c 0 = 1 -> nth 12 c 0 = 0 /\ nth 13 c 0 = 0 /\ nth 14 c 0 = 0) ->
  cf_canonical c.
Proof. exact cflist_wellformed_canonical. Qed.
Print Assumptions C16_cflist.

(* a channel-mask CFList with ANY RFU octets decodes to at most six masks and re-encodes (before /repo fix
   e2c2b92 octets 12..13 were read as a seventh mask, which the encoder refused: the join failed with
   Other): the join-accept then carries the twelve mask octets and zero RFU octets *)
Theorem C16_cflist_masks_any_rfu : forall c, length c = 16%nat -> bytes c -> nth 15 c 0 = 1 ->
  exists l ms, cflist_unmarshal c = Ok l /\ cf_payload l = CFPMasks ms /\ (length ms <= 6)%nat /\
               cflist_marshal l = Ok (firstn 12 c ++ [0; 0; 0; 1]).
Proof. exact cflist_masks_decode. Qed.
Print Assumptions C16_cflist_masks_any_rfu.

(* a join-request of a known device whose four MIC bytes are not the right ones: MICFailed, nothing else in the answer *)
Theorem C16_mic_failed : forall cfg r je de dn m dk devaddr dl rxd cf nskek aslabel askek netid joineui,
  length je = 8%nat -> length de = 8%nat -> length m = 4%nat -> dn < 65536 ->
  m <> mic4 (dk_nwkkey dk) ([0] ++ rev je ++ rev de ++ le_bytes 2 dn) ->
  r_mtype r = s_JoinReq -> base_decode r = Ok tt ->
  typed_decode r = Ok (mkTReq ([0] ++ rev je ++ rev de ++ le_bytes 2 dn ++ m) de devaddr dl rxd cf) ->
  unmarshal_text 3 (r_sender r) = Ok netid -> unmarshal_text 8 (r_receiver r) = Ok joineui ->
  get_keys cfg de = Found dk ->
  get_kek cfg (r_sender r) = Ok nskek -> get_aslabel cfg de = Ok aslabel -> get_kek cfg aslabel = Ok askek ->
  handle cfg (Body r) = AMsg 200 MJoinAns (r_receiver r) (r_sender r) (r_txid r) RMICFailed [] None no_keys None.
Proof. exact mic_failed. Qed.
Print Assumptions C16_mic_failed.

(* join-request or rejoin-request for a DevEUI the device-key callback does not know: UnknownDevEUI *)
Theorem C16_unknown_deveui : forall cfg r t,
  (r_mtype r = s_JoinReq \/ r_mtype r = s_RejoinReq) -> base_decode r = Ok tt -> typed_decode r = Ok t ->
  get_keys cfg (t_deveui t) = NotFound ->
  handle cfg (Body r) = AMsg 400 (if bytes_eqb (r_mtype r) s_JoinReq then MJoinAns else MRejoinAns)
                             (r_receiver r) (r_sender r) (r_txid r) RUnknownDevEUI [] None no_keys None.
Proof. exact unknown_deveui. Qed.
Print Assumptions C16_unknown_deveui.

(* every JoinAns / RejoinAns / HomeNSAns, whatever its result, mirrors sender, receiver and transaction id
   of the request ([request_of b]: the request of a body whose base payload encoding/json accepts) *)
Theorem C16_mirror : forall cfg b st mt sd rv tx rc phy lt keys hn,
  handle cfg b = AMsg st mt sd rv tx rc phy lt keys hn ->
  exists r, request_of b = Some r /\ sd = r_receiver r /\ rv = r_sender r /\ tx = r_txid r.
Proof. exact mirror. Qed.
Print Assumptions C16_mirror.

(* a JSON object whose message type is served ALWAYS gets such a mirrored answer message, whatever is wrong
   with any other member of the base payload (SenderToken, ReceiverToken, VSExtension, a TransactionID that
   is no uint32 ...) or of the typed payload (DevEUI / DevAddr / DLSettings / CFList / PHYPayload text, a
   member of the wrong JSON kind): [BadMember r] / [Body r] carry what encoding/json filled in
   (audit finding 1 and its sibling for base members, both repaired) *)
Theorem C16_served_is_mirrored : forall cfg b r,
  request_of b = Some r ->
  (r_mtype r = s_JoinReq \/ r_mtype r = s_RejoinReq \/ r_mtype r = s_HomeNSReq) ->
  mirrors r (handle cfg b) \/ handle cfg b = APanic.
Proof. exact served_is_mirrored. Qed.
Print Assumptions C16_served_is_mirrored.

(* the only other answer is the bare HTTP 400 / Other result, given exactly when there is nothing decoded
   (the body is not a JSON object) or no answer type (the message type is not served) *)
Theorem C16_answer_shape : forall cfg b,
  match handle cfg b with
  | AMsg _ _ sd rv tx _ _ _ _ _ =>
    exists r, request_of b = Some r /\ sd = r_receiver r /\ rv = r_sender r /\ tx = r_txid r
  | ABare st rc => st = 400 /\ rc = ROther /\ (b = BadJSON \/ exists r, request_of b = Some r /\ unanswerable r)
  | APanic => True
  end.
Proof. exact answer_shape. Qed.
Print Assumptions C16_answer_shape.

(* the DevEUI member must be the DevEUI inside the frame (second audit, finding 1, repaired): whatever
   known device the member names, a join-request / rejoin-request frame of ANOTHER DevEUI is refused with
   the mirrored answer - so Success implies that the device the keys were looked up for, and JSIntKey /
   JSEncKey were derived for, is the device of the frame (the premise of C16_join_usable / C16_rejoin_usable
   that the member equals the frame's DevEUI is necessary, not a restriction) *)
Theorem C16_deveui_mismatch_refused : forall cfg r t p dk nskek aslabel askek,
  (r_mtype r = s_JoinReq \/ r_mtype r = s_RejoinReq) -> base_decode r = Ok tt -> typed_decode r = Ok t ->
  phy_unmarshal (t_phy t) = Ok p ->
  match pl p with
  | PLJoinRequest _ de _ | PLRejoin02 _ _ de _ | PLRejoin1 _ _ de _ => de <> t_deveui t
  | _ => True
  end ->
  get_keys cfg (t_deveui t) = Found dk ->
  get_kek cfg (r_sender r) = Ok nskek -> get_aslabel cfg (t_deveui t) = Ok aslabel -> get_kek cfg aslabel = Ok askek ->
  handle cfg (Body r) = AMsg 200 (if bytes_eqb (r_mtype r) s_JoinReq then MJoinAns else MRejoinAns)
                             (r_receiver r) (r_sender r) (r_txid r) ROther [] None no_keys None.
Proof. exact deveui_mismatch_refused. Qed.
Print Assumptions C16_deveui_mismatch_refused.

(* rejoin-request type 0 / 1 / 2 of a known device (ANY four MIC bytes: the handler does not validate the
   MIC of a rejoin-request), OptNeg set: Success; the device decrypts the join-accept with JSEncKey and
   accepts the MIC (JSIntKey, JoinReqType = rejoin type, RJcount in place of DevNonce); fields echoed.
   Key clause: with the explicit exception of the recorded finding C16-1 - the servers get the
   1.0-style keys [rejoin_server_key] (NetID based, all from NwkKey) *)
Theorem C16_rejoin_usable : forall cfg r d ty rc frame netid devaddr dls rxd cf jn nskek aslabel askek,
  wf_device d -> rc < 65536 -> jn < 16777216 ->
  length netid = 3%nat -> bytes netid -> length devaddr = 4%nat -> bytes devaddr ->
  128 <= dls < 256 -> rxd < 16 -> bytes cf -> cf_canonical cf ->
  rejoin_frame_of d ty rc frame ->
  r_mtype r = s_RejoinReq -> base_decode r = Ok tt ->
  typed_decode r = Ok (mkTReq frame (d_deveui d) devaddr (dec_dlsettings dls) (Z.of_N rxd) cf) ->
  unmarshal_text 3 (r_sender r) = Ok netid -> unmarshal_text 8 (r_receiver r) = Ok (d_joineui d) ->
  get_keys cfg (d_deveui d) = Found (mkDevKeys (d_nwkkey d) (d_appkey d) (Z.of_N jn)) ->
  get_kek cfg (r_sender r) = Ok nskek -> kek_supported nskek ->
  get_aslabel cfg (d_deveui d) = Ok aslabel -> get_kek cfg aslabel = Ok askek -> kek_supported askek ->
  exists phy keys s,
    handle cfg (Body r) = AMsg 200 MRejoinAns (r_receiver r) (r_sender r) (r_txid r) RSuccess phy None keys None /\
    device_accept d ty rc phy = Some s /\
    echoes s jn netid devaddr dls rxd (opt_cf cf) = true /\
    (servers_share_keys (keks_of cfg) (r_sender r) aslabel s (k_snwksint keys) (k_fnwksint keys) (k_nwksenc keys) (k_nwkskey keys)
                        (k_appskey keys) = true \/ In ty c16_rejoin_optneg_session_keys) /\
    opens_to (keks_of cfg) (r_sender r) (k_fnwksint keys) (rejoin_server_key d 1 jn netid rc) = true /\
    opens_to (keks_of cfg) aslabel (k_appskey keys) (rejoin_server_key d 2 jn netid rc) = true /\
    opens_to (keks_of cfg) (r_sender r) (k_snwksint keys) (rejoin_server_key d 3 jn netid rc) = true /\
    opens_to (keks_of cfg) (r_sender r) (k_nwksenc keys) (rejoin_server_key d 4 jn netid rc) = true.
Proof. exact rejoin_usable. Qed.
Print Assumptions C16_rejoin_usable.

(* the frames the device sends are such frames (types 0 / 2 with any session key for the MIC, type 1) *)
Theorem C16_rejoin_frames : forall d rc netid skey,
  length netid = 3%nat ->
  rejoin_frame_of d 0 rc (rejoin02_frame d 0 netid rc skey) /\
  rejoin_frame_of d 1 rc (rejoin1_frame d rc) /\
  rejoin_frame_of d 2 rc (rejoin02_frame d 2 netid rc skey).
Proof. exact rejoin_frames. Qed.
Print Assumptions C16_rejoin_frames.

Theorem C16_rejoin_conformant_is : forall cfg r d ty rc frame netid devaddr dls rxd cf jn nskek aslabel askek,
  rejoin_conformant cfg r d ty rc frame netid devaddr dls rxd cf jn nskek aslabel askek <->
  (wf_device d /\ rc < 65536 /\ jn < 16777216 /\
   length netid = 3%nat /\ bytes netid /\ length devaddr = 4%nat /\ bytes devaddr /\
   128 <= dls < 256 /\ rxd < 16 /\ bytes cf /\ cf_canonical cf /\
   rejoin_frame_of d ty rc frame /\
   r_mtype r = s_RejoinReq /\ base_decode r = Ok tt /\
   typed_decode r = Ok (mkTReq frame (d_deveui d) devaddr (dec_dlsettings dls) (Z.of_N rxd) cf) /\
   unmarshal_text 3 (r_sender r) = Ok netid /\ unmarshal_text 8 (r_receiver r) = Ok (d_joineui d) /\
   get_keys cfg (d_deveui d) = Found (mkDevKeys (d_nwkkey d) (d_appkey d) (Z.of_N jn)) /\
   get_kek cfg (r_sender r) = Ok nskek /\ kek_supported nskek /\
   get_aslabel cfg (d_deveui d) = Ok aslabel /\ get_kek cfg aslabel = Ok askek /\ kek_supported askek).
Proof. exact rejoin_conformant_is. Qed.
Print Assumptions C16_rejoin_conformant_is.

(* known finding C16-1: the exception above is needed - there is a conformant rejoin-request (the one of
   joinserver_test.go) for which the keys in the answer are NOT the keys the device derives *)
Theorem C16_rejoin_keys_refuted :
  exists cfg r d ty rc frame netid devaddr dls rxd cf jn nskek aslabel askek,
    rejoin_conformant cfg r d ty rc frame netid devaddr dls rxd cf jn nskek aslabel askek /\
    In ty c16_rejoin_optneg_session_keys /\
    forall st mt sd rv tx rc' phy lt keys hn s,
      handle cfg (Body r) = AMsg st mt sd rv tx rc' phy lt keys hn -> device_accept d ty rc phy = Some s ->
      servers_share_keys (keks_of cfg) (r_sender r) aslabel s (k_snwksint keys) (k_fnwksint keys) (k_nwksenc keys) (k_nwkskey keys)
                         (k_appskey keys) = false.
Proof. exact rejoin_keys_refuted. Qed.
Print Assumptions C16_rejoin_keys_refuted.

(* known finding C16-3: a rejoin-request answered with OptNeg UNSET (the theorem above assumes it set) gets
   Success with a join-accept the device rejects: MIC = cmac(JSIntKey, MHDR | ...), neither the 1.0 form
   (NwkKey) nor the 1.1 form (JoinReqType | JoinEUI | RJcount prefix) *)
Theorem C16_rejoin_optneg0_refuted : rejoin_optneg0_rejected = true.
Proof. exact rejoin_optneg0_refuted. Qed.
Print Assumptions C16_rejoin_optneg0_refuted.

(* the model reproduces the four session keys joinserver_test.go pins for "valid rejoin-request type 0":
   the finding cannot be repaired without editing the test-suite *)
Theorem C16_rejoin_keys_pinned_by_suite :
  match handle w_cfg (Body w_rejoin0) with AMsg _ _ _ _ _ _ _ _ keys _ => keyset_eqb keys w_pinned | _ => false end = true.
Proof. exact w_rejoin_pinned. Qed.
Print Assumptions C16_rejoin_keys_pinned_by_suite.

(* concurrent requests AT MODEL LEVEL: the handler is a function of (configuration, request), so the
   answer to a request is the same whatever else is in flight, and a batch answered in another order
   is the same batch of answers.  (That the Go handler keeps no mutable state between requests is NOT
   proved: it is checked by the interleaved and -race runs of the harness.) *)
Theorem C16_independent : forall cfg (before after : list body) b,
  nth (length before) (handle_all cfg (before ++ b :: after)) APanic = handle cfg b.
Proof. exact independent. Qed.
Print Assumptions C16_independent.

Theorem C16_independent_of_order : forall cfg (bs bs' : list body),
  Permutation bs bs' -> Permutation (handle_all cfg bs) (handle_all cfg bs').
Proof. exact independent_of_order. Qed.
Print Assumptions C16_independent_of_order.

(* no request body makes the handler model panic (malformed hex, truncated or foreign frames, odd
   CFLists, out-of-range numbers, unknown message types ...), provided the KEK / AS-label callbacks return *)
Theorem C16_no_panic : forall cfg b,
  ((forall l, get_kek cfg l <> Panic /\ get_kek cfg l <> OutOfFuel) /\
   (forall de, get_aslabel cfg de <> Panic /\ get_aslabel cfg de <> OutOfFuel)) ->
  handle cfg b <> APanic.
Proof. exact handle_no_panic. Qed.
Print Assumptions C16_no_panic.
