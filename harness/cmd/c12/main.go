// Correspondence harness for C12 (RX1 / RX2 / ping-slot parameters of every
// band configuration).  Everything is observed through the public band.Band
// API, every call under recover() so that a panic is an observation.
package main

import (
	"encoding/binary"
	"fmt"
	"os"
	"time"

	"github.com/brocaar/lorawan"
	"github.com/brocaar/lorawan/band"
	"verifharness/bandcfg"
	"verifharness/internal/cases"
	"verifharness/internal/cq"
)

// oz runs f under recover and prints the outcome Z.
func oz(f func() (int64, error)) (s string) {
	defer func() {
		if r := recover(); r != nil {
			s = cq.Panic
		}
	}()
	v, err := f()
	if err != nil {
		return cq.Err
	}
	return cq.Ok(cq.Z(v))
}

func rx1dr(b band.Band, dr, off int) string {
	return oz(func() (int64, error) { v, err := b.GetRX1DataRateIndex(dr, off); return int64(v), err })
}

func main() {
	if len(os.Args) > 1 && os.Args[1] == "--order-child" {
		orderChildMain()
		return
	}
	dir, seed, thorough := cases.Args()
	r := cq.NewRNG(seed)
	s := cases.New("C12", dir, "LW.Corr.C12",
		"non-trivial = an accepted or panicking (uplink DR, offset) cell, a valid uplink channel, a ping-slot or defaults query; "+
			"rejected (error) cells and out-of-range channel indices are the trivial ones; distinct = distinct printed case")
	s.ShardSize = 1500
	cfgs := bandcfg.AllWithAliases() // 56 common configurations + 40 through the deprecated names

	// construction-order independence (order.go) - first, before anything else configures a band
	orderIndependence(s)
	aliasOf := map[band.Name]band.Name{}
	for a, n := range bandcfg.DeprecatedAliases {
		aliasOf[n] = a
	}

	// corpus first: the witness of every recorded finding (known or fixed)
	type cell struct {
		name    band.Name
		dr, off int
	}
	corpus := []cell{{band.KR920, 5, 7}, {band.KR920, 7, 0}, {band.KR920, 7, 6}, {band.KR920, 7, 7}, {band.IN865, 7, 1},
		{band.ISM2400, 5, 2}, {band.EU868, 0, -1}, {band.US915, 13, -1}, {band.AS923, 0, -1}}
	addCell := func(c bandcfg.Config, b band.Band, dr, off int, kind string) {
		obs := rx1dr(b, dr, off)
		prev := rx1dr(b, dr, off-1)
		s.Add(cases.Case{
			Term: fmt.Sprintf("CRx1Dr %d %s %s %s %s", c.Index, cq.Z(int64(dr)), cq.Z(int64(off)), prev, obs),
			Key:  fmt.Sprintf("rx1dr:%s:dr=%d:off=%d", c.Key(), dr, off), Kind: kind,
			Nontrivial: obs != cq.Err,
			Replay: map[string]interface{}{"api": "band.GetConfig(name, repeater, dwell).GetRX1DataRateIndex(dr, off)",
				"name": string(c.Name), "repeater": c.Repeater, "dwell400ms": c.Dwell, "dr": dr, "off": off, "observed": obs, "observed_off_minus_1": prev}})
	}
	for _, w := range corpus {
		for _, c := range cfgs {
			if c.Name == w.name {
				b, _ := c.New()
				addCell(c, b, w.dr, w.off, "rx1dr-corpus")
			}
		}
	}

	for _, c := range cfgs {
		b, err := c.New()
		if err != nil {
			s.Fail(cases.GoFail{Key: "getconfig:" + c.Key(), What: "band.GetConfig failed: " + err.Error(),
				Replay: map[string]interface{}{"name": string(c.Name)}})
			continue
		}
		// identity of the configuration, deprecated alias
		alias := ""
		if a, ok := aliasOf[c.Name]; ok {
			if ab, err := band.GetConfig(a, c.Repeater, c.DwellTime()); err == nil {
				alias = ab.Name()
			} else {
				alias = "error: " + err.Error()
			}
		}
		s.Add(cases.Case{
			Term: fmt.Sprintf("CCfg %d %s %s %s %s %s", c.Index, bandcfg.Str(string(c.Name))+"%string", cq.Bool(c.Repeater), cq.Bool(c.Dwell),
				bandcfg.Str(b.Name())+"%string", bandcfg.Str(alias)+"%string"),
			Key: "cfg:" + c.Key(), Kind: "config-identity", Nontrivial: true,
			Replay: map[string]interface{}{"api": "band.GetConfig(name, repeater, dwell).Name()", "name": string(c.Name), "observed": b.Name(), "alias_name": alias}})

		// RX1 data-rate: every DR -2..16 x offset -2..9 (exhaustive in both tiers)
		for dr := -2; dr <= 16; dr++ {
			for off := -2; off <= 9; off++ {
				if c.Alias && !thorough && (dr < 0 || dr > 8 || off < 0 || off > 7) {
					// objects obtained through a deprecated name: DR 0..8 x offset 0..7 in the quick tier
					// (their tables are proved equal to those of the common name)
					continue
				}
				addCell(c, b, dr, off, "rx1dr")
			}
		}
		// far-out arguments (model correspondence of the range checks)
		for _, p := range [][2]int{{0, 1 << 40}, {0, -(1 << 40)}, {1 << 40, 0}, {-(1 << 40), 0}, {5, 255}, {255, 5}} {
			if !c.Alias || thorough {
				addCell(c, b, p[0], p[1], "rx1dr-far")
			}
		}

		// RX1 channel index / frequency for every channel index -2..n+2
		n := len(b.GetUplinkChannelIndices())
		for ch := -2; ch <= n+2; ch++ {
			ch := ch
			oIdx := oz(func() (int64, error) { v, err := b.GetRX1ChannelIndexForUplinkChannelIndex(ch); return int64(v), err })
			oUp := cq.None
			oFreq := cq.Err
			var upf uint32
			if ch >= 0 && ch < n {
				if u, err := b.GetUplinkChannel(ch); err == nil {
					upf = u.Frequency
					oUp = cq.Some(cq.Z(int64(u.Frequency)))
					oFreq = oz(func() (int64, error) { v, err := b.GetRX1FrequencyForUplinkFrequency(u.Frequency); return int64(v), err })
				}
			}
			s.Add(cases.Case{
				Term: fmt.Sprintf("CRx1Ch %d %s %s %s %s", c.Index, cq.Z(int64(ch)), oUp, oIdx, oFreq),
				Key:  fmt.Sprintf("rx1ch:%s:ch=%d", c.Key(), ch), Kind: "rx1-channel", Nontrivial: oUp != cq.None,
				Replay: map[string]interface{}{"api": "GetRX1ChannelIndexForUplinkChannelIndex(ch) / GetRX1FrequencyForUplinkFrequency(GetUplinkChannel(ch).Frequency)",
					"name": string(c.Name), "repeater": c.Repeater, "dwell400ms": c.Dwell, "channel": ch, "uplink_frequency": upf, "observed_index": oIdx, "observed_frequency": oFreq}})
		}
		// frequencies that are not uplink channels
		probes := []uint32{0, 1, 868100001, 902300000 - 200000, 923300000, 470300000 + 96*200000, 0xffffffff, r.U32()}
		if !c.Alias || thorough {
			// frequencies next to the first, second and last uplink channel (the function is total on uint32;
			// "same frequency" regions must return exactly the argument, also 1 Hz beside a channel)
			for _, ch := range []int{0, 1, n - 1} {
				if u, err := b.GetUplinkChannel(ch); err == nil && (ch < 2 || n > 2) {
					for _, d := range []uint32{1, 100, 500, 999, 1000, 1001} {
						probes = append(probes, u.Frequency+d, u.Frequency-d)
					}
				}
			}
		}
		for _, f := range probes {
			f := f
			o := oz(func() (int64, error) { v, err := b.GetRX1FrequencyForUplinkFrequency(f); return int64(v), err })
			s.Add(cases.Case{Term: fmt.Sprintf("CRx1Freq %d %s %s", c.Index, cq.Z(int64(f)), o),
				Key: fmt.Sprintf("rx1freq:%s:f=%d", c.Key(), f), Kind: "rx1-frequency-other", Nontrivial: false,
				Replay: map[string]interface{}{"api": "GetRX1FrequencyForUplinkFrequency", "name": string(c.Name), "frequency": f, "observed": o}})
		}

		// ping slot: boundary and random DevAddr x beacon time
		das := []uint32{0, 1, 7, 8, 0x7fffffff, 0x80000000, 0xfffffff8, 0xffffffff, r.U32(), r.U32()}
		p := 128 * time.Second
		bts := []time.Duration{0, p - 1, p, 7 * p, 8*p - 1, 8 * p, time.Duration(1443312000) * time.Second, time.Duration(1<<63 - 1),
			time.Duration(r.U64() >> 2), time.Duration(r.U64() >> 12)}
		neg := []time.Duration{-1, -p, -p - 1, -9 * p, time.Duration(-1 << 63), -2 * p, -8 * p, -1024 * time.Second, -p + 1, -(1<<24)*p + 1, -time.Second}
		add := func(da uint32, bt time.Duration, kind string) {
			var d lorawan.DevAddr
			binary.BigEndian.PutUint32(d[:], da)
			o := oz(func() (int64, error) { v, err := b.GetPingSlotFrequency(d, bt); return int64(v), err })
			s.Add(cases.Case{Term: fmt.Sprintf("CPing %d %s %s %s", c.Index, cq.Z(int64(da)), cq.Z(int64(bt)), o),
				Key: fmt.Sprintf("ping:%s:devaddr=%08x:beacon_ns=%d", c.Key(), da, int64(bt)), Kind: kind, Nontrivial: true,
				Replay: map[string]interface{}{"api": "GetPingSlotFrequency(devaddr, beaconTime)", "name": string(c.Name), "devaddr": fmt.Sprintf("%08x", da), "beacon_ns": int64(bt), "observed": o}})
		}
		for i, da := range das {
			for j, bt := range bts {
				if c.Alias && !thorough && (i+j)%7 != 0 {
					continue
				}
				if thorough || (i+j)%3 == 0 || i < 2 && j < 4 {
					add(da, bt, "ping-slot")
				}
			}
		}
		// period-boundary neighbours at large magnitudes: T = k*128 s + delta for period numbers k up to
		// the largest a time.Duration can hold (a float64 detour such as int(T.Seconds())/128 is exact
		// for small T and rounds k*128 s - 1 ns up to the next period once T exceeds ~2^24 s; real
		// GPS-era beacon times are ~2^30 s).  Exhaustive list in both tiers for the hopping bands.
		{
			ks := []int64{1, 1000, 1<<17 - 1, 1 << 17, 1<<17 + 1, 1 << 20, 1<<23 - 1, 1 << 23, 9404518, 10156250, 11275970, 1<<24 - 1, 1 << 24, 1<<24 + 1, 1 << 25, 72057593, 72057594}
			deltas := []time.Duration{-time.Second, -time.Millisecond, -time.Microsecond, -200, -119, -100, -2, -1, 0, 1, time.Second}
			hopping := c.Name == band.US915 || c.Name == band.AU915 || c.Name == band.CN470
			if c.Alias && (c.Name == band.US_902_928 || c.Name == band.AU_915_928 || c.Name == band.CN_470_510) {
				ks = []int64{1 << 17, 9404518, 1 << 24, 72057594}
				deltas = []time.Duration{-time.Second, -100, -1, 0, 1}
			} else if !hopping {
				ks = []int64{9404518, 72057594}
				deltas = []time.Duration{-1, 0}
			}
			for ki, k := range ks {
				for _, dl := range deltas {
					add(0x0314cf36, time.Duration(k)*p+dl, "ping-slot-period-boundary")
					if hopping {
						add(das[(ki+3)%len(das)], time.Duration(k)*p+dl, "ping-slot-period-boundary")
					}
				}
			}
		}
		for i, bt := range neg {
			// a negative time since the GPS epoch: never a panic (the truncating % once gave a negative
			// channel number); the hopping regions answer with an error
			add(das[i%len(das)], bt, "ping-slot-negative-time")
			if !c.Alias || thorough {
				for _, da := range []uint32{0, 1, 3, 8} {
					add(da, bt, "ping-slot-negative-time")
				}
			}
		}
		if thorough {
			for i := 0; i < 400; i++ {
				add(r.U32(), time.Duration(r.U64()>>uint(1+r.Intn(40))), "ping-slot")
			}
		}

		d := b.GetDefaults()
		s.Add(cases.Case{Term: fmt.Sprintf("CDefaults %d %s", c.Index, bandcfg.Defaults(d)),
			Key: "defaults:" + c.Key(), Kind: "defaults", Nontrivial: true,
			Replay: map[string]interface{}{"api": "GetDefaults()", "name": string(c.Name), "rx2_frequency": d.RX2Frequency, "rx2_dr": d.RX2DataRate}})
	}
	// band objects after AddChannel histories (history.go)
	rx1Histories(s, r, thorough, bandcfg.All())
	rx1LongHistories(s, thorough, bandcfg.All())
	getConfigNames(s)

	s.Exhaustive("RX1 data-rate: 56 configurations x uplink DR -2..16 x RX1 offset -2..9; the 40 objects obtained through the 10 deprecated names: DR 0..8 x offset 0..7 (all cells in the thorough tier)")
	s.Exhaustive("GetDefaults, Name: 96 objects = (14 common + 10 deprecated names) x repeater x dwell time")
	s.Exhaustive("ping-slot period boundaries (US915, AU915, CN470): 17 period numbers k from 1 to the largest a Duration holds x 11 offsets (-1 s .. -1 ns, 0, +1 ns, +1 s) around k*128 s x 2 DevAddrs")
	s.Exhaustive("RX1 channel: 96 objects x every channel index -2..n+2 and every uplink frequency")
	if err := s.Finish(); err != nil {
		fmt.Fprintln(os.Stderr, err)
		os.Exit(2)
	}
}
