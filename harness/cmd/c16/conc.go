package main

import (
	"bytes"
	"fmt"
	"net/http"
	"os"
	"os/exec"
	"path/filepath"
	"strings"
	"sync"
	"syscall"

	"verifharness/internal/cases"
	"verifharness/internal/cq"
)

func casesCase(term, key, kind string, rp map[string]interface{}) cases.Case {
	return cases.Case{Term: term, Key: key, Kind: kind, Nontrivial: true, Replay: rp}
}

// goOnly: conformant activations checked with the Go transcription of the oracle only (volume, and
// AES-192 / AES-256 KEKs which the Coq model of the key wrap does not cover).
func (g *G) goOnly(thorough bool) {
	n := 300
	if thorough {
		n = 6000
	}
	count, knownSeen := 0, 0
	for i := 0; i < n; i++ {
		a := g.randomAct(g.r.Intn(4))
		switch g.r.Intn(3) {
		case 0:
			a.nsKEK = g.r.Bytes(24)
		case 1:
			a.nsKEK = g.r.Bytes(32)
		}
		if a.asLabel != "" && g.r.Bool() {
			a.asKEK = g.r.Bytes([]int{16, 24, 32}[g.r.Intn(3)])
		}
		t, q := a.table(), g.request(&a)
		body := q.body()
		ans := send(t.handler(), body)
		rp := map[string]interface{}{"body": body, "config": t.replay(), "observed": ans.summary(), "device": fmt.Sprintf("%+v", a.dev)}
		key := "go-oracle:" + a.describe()
		fail := func(k, what string) { g.s.Fail(cases.GoFail{Key: k, What: what, Replay: rp}) }
		want := "JoinAns"
		if a.kind != kJoin {
			want = "RejoinAns"
		}
		if ans.panicked || ans.bare || ans.status != 200 || ans.rc != "Success" || ans.mtype != want {
			fail(key, fmt.Sprintf("conformant request not answered with Success (status %d, result %q)", ans.status, ans.rc))
			continue
		}
		if ans.sender != q.receiver || ans.receiver != q.sender || ans.txid != uint64(q.txid) {
			fail(key, "answer does not mirror SenderID / ReceiverID / TransactionID")
			continue
		}
		sess, err := a.dev.accept(a.reqtype(), a.devNonce, ans.phy)
		if err != nil {
			fail(key, "the device rejects the join-accept: "+err.Error())
			continue
		}
		if sess.joinNonce != uint32(a.joinNonce) || !bytes.Equal(sess.netID, a.netID[:]) || !bytes.Equal(sess.devAddr, a.devAddr[:]) ||
			sess.dlSettings != a.dls || int64(sess.rxDelay) != a.rxDelay || !bytes.Equal(sess.cfList, a.cfl) {
			fail(key, "join-accept fields differ from the request / configured JoinNonce")
			continue
		}
		// keys
		type pair struct {
			idx  int
			want []byte
		}
		var ps []pair
		if sess.optNeg {
			ps = []pair{{0, sess.sNwkSIntKey}, {1, sess.fNwkSIntKey}, {2, sess.nwkSEncKey}, {4, sess.appSKey}}
		} else {
			ps = []pair{{3, sess.fNwkSIntKey}, {4, sess.appSKey}}
		}
		bad := ""
		for _, p := range ps {
			own := q.sender
			if p.idx == 4 {
				own = a.asLabel
			}
			k, err := openEnvelope(t.kek, own, ans.keys[p.idx])
			if err != nil {
				bad = keyNames[p.idx] + ": " + err.Error()
				break
			}
			if !bytes.Equal(k, p.want) {
				bad = fmt.Sprintf("%s: server key %x, device key %x", keyNames[p.idx], k, p.want)
				break
			}
		}
		if bad != "" {
			k := key
			if a.kind != kJoin && sess.optNeg {
				k = fmt.Sprintf("rejoin:optneg=true:session-keys:type=%d:dev=%x:nonce=%d:go-oracle", a.reqtype(), a.dev.devEUI, a.devNonce)
				knownSeen++
				if knownSeen > 3 { // the same recorded finding on every rejoin: three replays are enough
					continue
				}
			}
			fail(k, "session key in the answer differs from the key the device derives: "+bad)
			continue
		}
		count++
	}
	g.s.Extra["go_only_activations"] = fmt.Sprintf("%d conformant activations (incl. AES-192/256 KEKs) checked with the Go transcription of the oracle; %d fully usable (rejoin with OptNeg set: known finding C16-1)", n, count)
}

// ---------- concurrent requests through ONE handler ----------

type shot struct {
	body   string
	status int
	answer string
}

// world builds one table with several devices and a mixed list of request bodies over it.
func (g *G) world(nDev, nReq int) (*table, []string) {
	t := &table{}
	var acts []act
	for i := 0; i < nDev; i++ {
		a := g.randomAct(i % 4)
		a.netID = [3]byte{0, 0, byte(i % 3)}
		if i%2 == 0 {
			a.asLabel = "as-1"
		}
		acts = append(acts, a)
		t.devices = append(t.devices, devEntry{eui: a.dev.devEUI, kind: found, nwk: a.dev.nwkKey, app: a.dev.appKey, joinNonce: a.joinNonce})
		if a.asLabel != "" {
			t.aslabels = append(t.aslabels, asEntry{eui: a.dev.devEUI, label: a.asLabel})
		}
		h := homeEntry{eui: a.dev.devEUI, kind: found}
		copy(h.netID[:], g.r.Bytes(3))
		t.home = append(t.home, h)
	}
	t.keks = []kekEntry{{label: "000000", kek: g.r.Bytes(16)}, {label: "000001", kek: g.r.Bytes(32)}, {label: "as-1", kek: g.r.Bytes(16)}}
	var bodies []string
	for i := 0; i < nReq; i++ {
		a := acts[g.r.Intn(len(acts))]
		a.kind = g.r.Intn(4)
		a.devNonce, a.txid, a.dls, a.rxDelay = uint16(g.r.U64()), g.r.U32(), g.r.Byte(), int64(g.r.Intn(16))
		a.cfl = g.cflist(g.r.Intn(4))
		copy(a.devAddr[:], g.r.Bytes(4))
		q := g.request(&a)
		switch g.r.Intn(10) {
		case 0: // wrong MIC
			f := a.frame()
			f[len(f)-2] ^= 0xff
			q.phy = sp(fmt.Sprintf("%x", f))
		case 1: // unknown device
			q.devEUI = sp(fmt.Sprintf("%x", g.r.Bytes(8)))
		case 2:
			q.mtype = "HomeNSReq"
		case 3:
			q.phy = sp("0g")
		}
		bodies = append(bodies, q.body())
	}
	return t, bodies
}

func post(h http.Handler, body string) (int, string) {
	a := sendUnwatched(h, body)
	if a.panicked {
		return -1, "panic: " + a.garbage
	}
	return a.status, a.rawBody
}

// interleave: every request first alone on a FRESH handler (its sequential answer), then all of them
// concurrently, several rounds, through ONE shared handler; any difference is a failure.
func interleave(t *table, bodies []string, workers, rounds int, r *cq.RNG) (diffs []string) {
	seq := make([]shot, len(bodies))
	for i, b := range bodies {
		st, ans := post(t.handler(), b)
		seq[i] = shot{b, st, ans}
	}
	shared := t.handler()
	// sequential on the shared handler too (state carried from one request to the next)
	for i, b := range bodies {
		st, ans := post(shared, b)
		if st != seq[i].status || ans != seq[i].answer {
			diffs = append(diffs, fmt.Sprintf("sequential reuse of the handler: request %d answered %d %s, alone %d %s", i, st, ans, seq[i].status, seq[i].answer))
		}
	}
	var mu sync.Mutex
	for round := 0; round < rounds; round++ {
		order := make([]int, len(bodies))
		for i := range order {
			order[i] = i
		}
		for i := len(order) - 1; i > 0; i-- {
			j := r.Intn(i + 1)
			order[i], order[j] = order[j], order[i]
		}
		ch := make(chan int)
		var wg sync.WaitGroup
		for w := 0; w < workers; w++ {
			wg.Add(1)
			go func() {
				defer wg.Done()
				for i := range ch {
					st, ans := post(shared, bodies[i])
					if st != seq[i].status || ans != seq[i].answer {
						mu.Lock()
						diffs = append(diffs, fmt.Sprintf("round %d request %d (%s): concurrent answer %d %s, sequential answer %d %s", round, i, bodies[i], st, ans, seq[i].status, seq[i].answer))
						mu.Unlock()
					}
				}
			}()
		}
		for _, i := range order {
			ch <- i
		}
		close(ch)
		wg.Wait()
	}
	return diffs
}

func (g *G) concurrent(thorough bool) {
	nReq, workers, rounds := 120, 16, 4
	if thorough {
		nReq, workers, rounds = 600, 32, 12
	}
	t, bodies := g.world(8, nReq)
	diffs := interleave(t, bodies, workers, rounds, g.r.Fork())
	for i, d := range diffs {
		if i >= 5 {
			break
		}
		g.s.Fail(cases.GoFail{Key: fmt.Sprintf("concurrent:answer-differs:%d", i), What: "an answer of the shared handler differs from the answer of the same request alone",
			Replay: map[string]interface{}{"difference": d, "config": t.replay()}})
	}
	g.s.Extra["concurrent_run"] = fmt.Sprintf("%d requests x %d rounds through one handler with %d goroutines, each compared with its sequential answer on a fresh handler: %d differences", nReq, rounds, workers, len(diffs))
}

// raceChild: the same interleaved run, executed in a binary built with -race.
func raceChild() {
	var seed uint64
	fmt.Sscan(os.Args[2], &seed)
	g := &G{s: cases.New("C16", os.Args[1], "LW.Corr.C16", ""), r: cq.NewRNG(seed)}
	t, bodies := g.world(8, 300)
	diffs := interleave(t, bodies, 16, 6, g.r.Fork())
	fmt.Printf("race child: %d requests x 6 rounds x 16 goroutines, %d differences\n", len(bodies), len(diffs))
	for _, d := range diffs {
		fmt.Println(d)
	}
	if len(diffs) > 0 {
		os.Exit(3)
	}
}

func (g *G) raceRun(seed uint64) {
	note := func(s string) { g.s.Extra["race_run"] = s }
	lim := syscall.Rlimit{Cur: ^uint64(0), Max: ^uint64(0)}
	_ = syscall.Setrlimit(syscall.RLIMIT_AS, &lim)
	os.MkdirAll(g.s.Dir, 0o755)
	bin := filepath.Join(g.s.Dir, "c16race")
	env := append(os.Environ(), "GOFLAGS=-mod=mod", "GOPROXY=off", "GOSUMDB=off", "GOTOOLCHAIN=local", "CGO_ENABLED=1")
	args := []string{"build", "-race", "-tags", "verif", "-o", bin}
	if repo := os.Getenv("VERIF_REPO"); repo != "" && repo != "/repo" {
		// the check was pointed at another checkout: same alternative module file as the driver uses
		mod, err := os.ReadFile("go.mod")
		sum, err2 := os.ReadFile(filepath.Join(repo, "go.sum"))
		if err == nil && err2 == nil {
			mf := filepath.Join(g.s.Dir, "race.mod")
			os.WriteFile(mf, []byte(strings.Replace(string(mod), "=> /repo", "=> "+repo, 1)), 0o644)
			os.WriteFile(filepath.Join(g.s.Dir, "race.sum"), sum, 0o644)
			args = append(args, "-modfile="+mf)
		}
	}
	build := exec.Command("go", append(args, "./cmd/c16")...)
	build.Env = env
	if out, err := build.CombinedOutput(); err != nil {
		note("NOT RUN: go build -race failed: " + strings.TrimSpace(string(out)))
		g.s.Fail(cases.GoFail{Key: "race:build", What: "the harness does not build with -race against the current /repo", Replay: map[string]interface{}{"output": string(out)}})
		return
	}
	defer os.Remove(bin)
	run := exec.Command(bin, g.s.Dir, fmt.Sprint(seed), "racechild")
	run.Env = append(env, "GORACE=halt_on_error=0 exitcode=66")
	var buf bytes.Buffer
	run.Stdout, run.Stderr = &buf, &buf
	err := run.Run()
	out := buf.String()
	n := strings.Count(out, "WARNING: DATA RACE")
	if n > 0 || err != nil {
		if len(out) > 6000 {
			out = out[:6000]
		}
		g.s.Fail(cases.GoFail{Key: "race:detector", What: fmt.Sprintf("concurrent requests through one handler: %d data race report(s) (or the run failed: %v)", n, err),
			Replay: map[string]interface{}{"cmd": "cd /verif/harness && CGO_ENABLED=1 go build -race -tags verif -o /tmp/c16race ./cmd/c16 && /tmp/c16race /tmp/c16race-out <seed> racechild", "output": out}})
		note(fmt.Sprintf("race detector: %d report(s), err=%v", n, err))
		return
	}
	note("race detector run clean: " + strings.TrimSpace(out))
}

func casesFail(key, what, body string) cases.GoFail {
	return cases.GoFail{Key: key, What: what, Replay: map[string]interface{}{"api": "joinserver.NewHandler(config).ServeHTTP (POST body)", "body": body}}
}
