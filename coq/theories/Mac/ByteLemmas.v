(* Facts about single bytes / nibbles, each established by an exhaustive
   kernel computation over the finite domain and lifted to a universally
   quantified lemma. *)
From Coq Require Import List NArith ZArith Bool Lia.
From Coq Require Import ZifyN ZifyNat ZifyBool.
From LW Require Import Base.Outcome Base.Bytes Base.Bits Mac.Commands.
Import ListNotations.
Open Scope N_scope.
Ltac Zify.zify_post_hook ::= Z.div_mod_to_equations.

Definition range (n : nat) : list N := map N.of_nat (seq 0 n).

Lemma in_range n b : b < N.of_nat n -> In b (range n).
Proof.
  intros H. apply in_map_iff. exists (N.to_nat b). split; [lia|]. apply in_seq. lia.
Qed.

Lemma sweep1 (n : nat) (P : N -> bool) :
  forallb P (range n) = true -> forall b, b < N.of_nat n -> P b = true.
Proof. intros H b Hb. rewrite forallb_forall in H. apply H. now apply in_range. Qed.

Lemma sweep2 (n m : nat) (P : N -> N -> bool) :
  forallb (fun a => forallb (P a) (range m)) (range n) = true ->
  forall a b, a < N.of_nat n -> b < N.of_nat m -> P a b = true.
Proof.
  intros H a b Ha Hb. rewrite forallb_forall in H. specialize (H a (in_range n a Ha)).
  rewrite forallb_forall in H. apply H. now apply in_range.
Qed.

(* --- decoding masks --- *)
Lemma land15 b : b < 256 -> N.land b 15 = b mod 16.
Proof. intros _. change 15 with (N.ones 4). apply N.land_ones. Qed.
Lemma land7 b : b < 256 -> N.land b 7 = b mod 8.
Proof. intros _. change 7 with (N.ones 3). apply N.land_ones. Qed.
Lemma land63 b : b < 256 -> N.land b 63 = b mod 64.
Proof. intros _. change 63 with (N.ones 6). apply N.land_ones. Qed.

Lemma hi_nibble b : b < 256 -> N.shiftr (N.land b 240) 4 = b / 16.
Proof.
  intros H. apply N.eqb_eq.
  apply (sweep1 256 (fun b => N.shiftr (N.land b 240) 4 =? b / 16)); [vm_compute; reflexivity | exact H].
Qed.
Lemma bits_6_4 b : b < 256 -> N.shiftr (N.land b 112) 4 = (b / 16) mod 8.
Proof.
  intros H. apply N.eqb_eq.
  apply (sweep1 256 (fun b => N.shiftr (N.land b 112) 4 =? (b / 16) mod 8)); [vm_compute; reflexivity | exact H].
Qed.
Lemma bits_5_3 b : b < 256 -> N.shiftr (N.land b 56) 3 = (b / 8) mod 8.
Proof.
  intros H. apply N.eqb_eq.
  apply (sweep1 256 (fun b => N.shiftr (N.land b 56) 3 =? (b / 8) mod 8)); [vm_compute; reflexivity | exact H].
Qed.
Lemma shiftr4 b : b < 256 -> N.shiftr b 4 = b / 16.
Proof. intros _. apply N.shiftr_div_pow2. Qed.

Lemma tbit_spec b i : b < 256 -> i < 8 -> tbit b i = negb ((b / 2 ^ i) mod 2 =? 0).
Proof.
  intros Hb Hi. apply eqb_prop.
  apply (sweep2 256 8 (fun b i => Bool.eqb (tbit b i) (negb ((b / 2 ^ i) mod 2 =? 0)))); [vm_compute; reflexivity | exact Hb | exact Hi].
Qed.
Lemma land_bit b i : b < 256 -> i < 8 -> negb (N.land b (2 ^ i) =? 0) = negb ((b / 2 ^ i) mod 2 =? 0).
Proof.
  intros Hb Hi. apply eqb_prop.
  apply (sweep2 256 8 (fun b i => Bool.eqb (negb (N.land b (2 ^ i) =? 0)) (negb ((b / 2 ^ i) mod 2 =? 0)))); [vm_compute; reflexivity | exact Hb | exact Hi].
Qed.

(* --- encoding combinations --- *)
Lemma xor_shl4 a b : a < 16 -> b < 16 -> N.lxor a (shl8 b 4) = a + 16 * b.
Proof.
  intros Ha Hb. apply N.eqb_eq.
  apply (sweep2 16 16 (fun a b => N.lxor a (shl8 b 4) =? a + 16 * b)); [vm_compute; reflexivity | exact Ha | exact Hb].
Qed.
Lemma lor_shl4 a b : a < 16 -> b < 16 -> N.lor a (shl8 b 4) = a + 16 * b.
Proof.
  intros Ha Hb. apply N.eqb_eq.
  apply (sweep2 16 16 (fun a b => N.lor a (shl8 b 4) =? a + 16 * b)); [vm_compute; reflexivity | exact Ha | exact Hb].
Qed.
Lemma lor_shl3 a b : a < 8 -> b < 8 -> N.lor a (shl8 b 3) = a + 8 * b.
Proof.
  intros Ha Hb. apply N.eqb_eq.
  apply (sweep2 8 8 (fun a b => N.lor a (shl8 b 3) =? a + 8 * b)); [vm_compute; reflexivity | exact Ha | exact Hb].
Qed.
Lemma xbit_add b c i : b < 2 ^ i -> i < 8 -> xbit b c i = b + (if c then 2 ^ i else 0).
Proof.
  intros Hb Hi. destruct c; cbn [xbit]; [|lia].
  rewrite N.shiftl_1_l.
  assert (E : N.land b (2 ^ i) = 0).
  { replace (2 ^ i) with (1 * 2 ^ i) by lia. rewrite N.land_comm. now apply land_disjoint. }
  rewrite N.lxor_lor by exact E. rewrite N.lor_comm.
  replace (2 ^ i) with (1 * 2 ^ i) at 1 by lia. rewrite lor_add by exact Hb. lia.
Qed.
Lemma obit_add b c i : b < 2 ^ i -> i < 8 -> obit b c i = b + (if c then 2 ^ i else 0).
Proof.
  intros Hb Hi. destruct c; cbn [obit]; [|lia].
  rewrite N.shiftl_1_l. rewrite N.lor_comm.
  replace (2 ^ i) with (1 * 2 ^ i) at 1 by lia. rewrite lor_add by exact Hb. lia.
Qed.
