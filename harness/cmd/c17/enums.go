// Enumerated string fields (ResultCode, MessageType, RatePolicy, RoamingType and the plain strings that carry
// versions, class modes and regions): besides the package constants and random strings, the near-miss spellings
// of every constant and the Backend Interfaces specification's own spellings must round-trip as themselves - the
// model treats them as opaque strings.  The constants are read from backend/backend.go with go/ast at run time, so
// that new constants are picked up.
package main

import (
	"bytes"
	"encoding/json"
	"fmt"
	"go/ast"
	"go/parser"
	"go/token"
	"os"
	"path/filepath"
	"reflect"
	"runtime"
	"sort"
	"strconv"
	"strings"

	"github.com/brocaar/lorawan/backend"
	"verifharness/internal/cases"
	"verifharness/internal/cq"
)

type backendConst struct {
	typ, name, value string
}

// backendSourceDir: the directory of the backend package that was compiled into this binary.
func backendSourceDir() string {
	if f := runtime.FuncForPC(reflect.ValueOf(backend.NewKeyEnvelope).Pointer()); f != nil {
		if file, _ := f.FileLine(f.Entry()); file != "" {
			if _, err := os.Stat(file); err == nil {
				return filepath.Dir(file)
			}
		}
	}
	if d := os.Getenv("VERIF_REPO"); d != "" {
		return filepath.Join(d, "backend")
	}
	return "/repo/backend"
}

// backendConsts: every string constant of backend/backend.go with the name of its type ("" for untyped ones).
func backendConsts() ([]backendConst, error) {
	fset := token.NewFileSet()
	f, err := parser.ParseFile(fset, filepath.Join(backendSourceDir(), "backend.go"), nil, 0)
	if err != nil {
		return nil, err
	}
	var out []backendConst
	for _, d := range f.Decls {
		gd, ok := d.(*ast.GenDecl)
		if !ok || gd.Tok != token.CONST {
			continue
		}
		for _, sp := range gd.Specs {
			vs := sp.(*ast.ValueSpec)
			typ := ""
			if id, ok := vs.Type.(*ast.Ident); ok {
				typ = id.Name
			}
			for i, n := range vs.Names {
				if i >= len(vs.Values) {
					continue
				}
				lit, ok := vs.Values[i].(*ast.BasicLit)
				if !ok || lit.Kind != token.STRING {
					continue
				}
				v, err := strconv.Unquote(lit.Value)
				if err != nil {
					continue
				}
				out = append(out, backendConst{typ, n.Name, v})
			}
		}
	}
	return out, nil
}

// the names of LoRaWAN Backend Interfaces 1.0 (TS002) where the package's constant is spelled differently
var specSpellings = map[string][]string{
	"ResultCode": {"UnknownReceiver", "RoamingActDisallowed"},
}

// values of the plain string fields that are enumerations in the specification
var plainEnumValues = []string{"1.0", "1.1", "1.0.0", "1.0.1", "1.0.2", "1.0.3", "1.0.4", "1.1.0", "1.1.1", "A", "B", "C", "RP002-1.0.0",
	"EU868", "US915", "CN779", "EU433", "AU915", "CN470", "AS923", "AS923-2", "KR920", "IN865", "RU864", "ISM2400", "US902-928", "EU863-870"}

// nearMisses: one character deleted / inserted / substituted / transposed / doubled, case variants, with and
// without a trailing "A" / "Req" / "Ans".
func nearMisses(s string) []string {
	seen := map[string]bool{s: true}
	var out []string
	add := func(x string) {
		if !seen[x] {
			seen[x] = true
			out = append(out, x)
		}
	}
	b := []byte(s)
	letters := map[byte]bool{}
	for _, c := range b {
		letters[c] = true
		if c >= 'a' && c <= 'z' {
			letters[c-32] = true
		} else if c >= 'A' && c <= 'Z' {
			letters[c+32] = true
		}
	}
	for _, c := range []byte("Aansx0. -_") {
		letters[c] = true
	}
	var alpha []byte
	for c := range letters {
		alpha = append(alpha, c)
	}
	sort.Slice(alpha, func(i, j int) bool { return alpha[i] < alpha[j] })
	for i := range b {
		add(string(b[:i]) + string(b[i+1:]))                  // deleted
		add(string(b[:i+1]) + string(b[i]) + string(b[i+1:])) // doubled
		if i+1 < len(b) {
			add(string(b[:i]) + string([]byte{b[i+1], b[i]}) + string(b[i+2:])) // transposed
		}
		for _, c := range alpha {
			add(string(b[:i]) + string(c) + string(b[i+1:])) // substituted
		}
	}
	for i := 0; i <= len(b); i++ {
		for _, c := range alpha {
			add(string(b[:i]) + string(c) + string(b[i:])) // inserted
		}
	}
	add(strings.ToLower(s))
	add(strings.ToUpper(s))
	if len(s) > 0 {
		add(strings.ToLower(s[:1]) + s[1:])
		add(strings.ToUpper(s[:1]) + s[1:])
		add(strings.Title(strings.ToLower(s)))
	}
	for _, suf := range []string{"A", "Req", "Ans", "a", "s", " "} {
		add(s + suf)
		if strings.HasSuffix(s, suf) {
			add(strings.TrimSuffix(s, suf))
		}
	}
	add(" " + s)
	return out
}

// stringField: a settable string-kinded field below a payload value.
type stringField struct {
	path string
	v    reflect.Value
}

func stringFields(v reflect.Value, path string, out *[]stringField) {
	t := v.Type()
	if t == tISO || t == tRaw || t == tDLS || t == tHex {
		return
	}
	switch t.Kind() {
	case reflect.String:
		if v.CanSet() {
			*out = append(*out, stringField{path, v})
		}
	case reflect.Ptr:
		if !v.IsNil() {
			stringFields(v.Elem(), path, out)
		}
	case reflect.Struct:
		for i := 0; i < v.NumField(); i++ {
			stringFields(v.Field(i), path+"."+t.Field(i).Name, out)
		}
	case reflect.Slice:
		if v.Len() > 0 {
			stringFields(v.Index(0), path+"[0]", out)
		}
	}
}

func enumCases(s *cases.Set, r *cq.RNG, thorough bool) {
	consts, err := backendConsts()
	if err != nil || len(consts) < 40 {
		s.Fail(cases.GoFail{Key: "enum:constants", What: fmt.Sprintf("the string constants of backend/backend.go cannot be read (%d found): %v", len(consts), err),
			Replay: map[string]interface{}{"api": "go/parser on backend/backend.go", "dir": backendSourceDir()}})
		return
	}
	byType := map[string][]string{}
	for _, c := range consts {
		byType[c.typ] = append(byType[c.typ], c.value)
	}
	// candidate spellings per named string type; "" = plain string fields
	cand := map[string][]string{}
	full := map[string][]string{}
	var constTypes []string
	for typ := range byType {
		constTypes = append(constTypes, typ)
	}
	sort.Strings(constTypes)
	for _, typ := range constTypes {
		vals := byType[typ]
		seen := map[string]bool{}
		add := func(dst map[string][]string, x string) {
			if !seen[x] {
				seen[x] = true
				dst[typ] = append(dst[typ], x)
			}
		}
		for _, v := range append(append([]string{}, vals...), specSpellings[typ]...) {
			add(full, v)
		}
		for _, v := range vals {
			for _, m := range nearMisses(v) {
				add(full, m)
			}
		}
	}
	for _, v := range plainEnumValues {
		full[""] = append(full[""], v)
		full[""] = append(full[""], nearMisses(v)...)
	}
	for _, typ := range constTypes { // plain strings may also carry the names of the typed constants
		vals := byType[typ]
		if typ != "" {
			full[""] = append(full[""], vals...)
			full[""] = append(full[""], specSpellings[typ]...)
		}
	}
	// the short list used inside every payload: constants, specification spellings, case variants, a few random near misses
	var fullTypes []string
	for typ := range full {
		fullTypes = append(fullTypes, typ)
	}
	sort.Strings(fullTypes) // the random choices below must not depend on map order
	for _, typ := range fullTypes {
		all := full[typ]
		base := append(append([]string{}, byType[typ]...), specSpellings[typ]...)
		if typ == "" {
			base = append(base, plainEnumValues...)
		}
		seen := map[string]bool{}
		for _, v := range base {
			for _, x := range []string{v, strings.ToLower(v), strings.ToUpper(v), v + "A", strings.TrimSuffix(v, "A"), v + "Req", v + "Ans", strings.TrimSuffix(strings.TrimSuffix(v, "Req"), "Ans")} {
				if !seen[x] {
					seen[x] = true
					cand[typ] = append(cand[typ], x)
				}
			}
		}
		extra := len(base)
		if thorough {
			extra = len(all)
		}
		for i := 0; i < extra; i++ {
			x := all[r.Intn(len(all))]
			if thorough {
				x = all[i]
			}
			if !seen[x] {
				seen[x] = true
				cand[typ] = append(cand[typ], x)
			}
		}
	}
	total := 0
	nfail := 0
	report := func(key, what string, rp map[string]interface{}) {
		if nfail < 60 {
			s.Fail(cases.GoFail{Key: key, What: what, Replay: rp})
		}
		nfail++
	}

	// 1. a bare value of every named string type and of string, every spelling
	named := map[string]reflect.Type{"ResultCode": reflect.TypeOf(backend.ResultCode("")), "MessageType": reflect.TypeOf(backend.MessageType("")),
		"RatePolicy": reflect.TypeOf(backend.RatePolicy("")), "RoamingType": reflect.TypeOf(backend.RoamingType("")), "": reflect.TypeOf("")}
	for typ := range byType {
		if _, ok := named[typ]; !ok {
			report("enum:type:"+typ, "backend/backend.go has string constants of a type the harness does not know: "+typ, map[string]interface{}{"api": "backend constants", "type": typ})
		}
	}
	var typs []string
	for typ := range named {
		typs = append(typs, typ)
	}
	sort.Strings(typs)
	for _, typ := range typs {
		t := named[typ]
		for _, x := range full[typ] {
			total++
			v := reflect.New(t)
			v.Elem().SetString(x)
			b1, e1 := json.Marshal(v.Elem().Interface())
			b2, e2 := json.Marshal(v.Interface())
			back := reflect.New(t)
			var e3 error
			if e1 == nil {
				e3 = json.Unmarshal(b1, back.Interface())
			}
			if e1 != nil || e2 != nil || e3 != nil || !bytes.Equal(b1, b2) || back.Elem().String() != x {
				name := typ
				if name == "" {
					name = "string"
				}
				report(fmt.Sprintf("enum:%s:%q", name, x), fmt.Sprintf("the %s value %q comes back from JSON as %q (errors %v %v %v)", name, x, back.Elem().String(), e1, e2, e3),
					map[string]interface{}{"api": "json.Marshal / json.Unmarshal of backend." + name, "value": x, "json": string(b1), "back": back.Elem().String()})
			}
		}
	}

	// 2. every string field of every payload type and nested object, the short list of spellings
	protos := []interface{}{backend.Result{}, backend.KeyEnvelope{}, backend.BasePayload{}, backend.BasePayloadResult{}, backend.GWInfoElement{}, backend.ULMetaData{}, backend.DLMetaData{},
		backend.ServiceProfile{}, backend.DeviceProfile{}, backend.RoutingProfile{},
		backend.JoinReqPayload{}, backend.JoinAnsPayload{}, backend.RejoinReqPayload{}, backend.RejoinAnsPayload{}, backend.AppSKeyReqPayload{}, backend.AppSKeyAnsPayload{},
		backend.PRStartReqPayload{}, backend.PRStartAnsPayload{}, backend.PRStopReqPayload{}, backend.PRStopAnsPayload{}, backend.HRStartReqPayload{}, backend.HRStartAnsPayload{},
		backend.HRStopReqPayload{}, backend.HRStopAnsPayload{}, backend.HomeNSReqPayload{}, backend.HomeNSAnsPayload{}, backend.ProfileReqPayload{}, backend.ProfileAnsPayload{},
		backend.XmitDataReqPayload{}, backend.XmitDataAnsPayload{}}
	fl := filler{r: r, full: true, small: true}
	for _, p := range protos {
		t := reflect.TypeOf(p)
		v := reflect.New(t)
		fl.fill(v.Elem())
		var fields []stringField
		stringFields(v.Elem(), t.Name(), &fields)
		for _, f := range fields {
			typ := f.v.Type().Name()
			if _, ok := byType[typ]; !ok || typ == "string" {
				typ = ""
			}
			saved := f.v.String()
			for _, x := range cand[typ] {
				total++
				f.v.SetString(x)
				b1, e1 := json.Marshal(v.Elem().Interface())
				b2, e2 := json.Marshal(v.Interface())
				back := reflect.New(t)
				var e3 error
				if e1 == nil {
					e3 = json.Unmarshal(b1, back.Interface())
				}
				var bf []stringField
				got := "<field missing>"
				if e3 == nil {
					stringFields(back.Elem(), t.Name(), &bf)
					for _, g := range bf {
						if g.path == f.path {
							got = g.v.String()
						}
					}
				}
				if e1 != nil || e2 != nil || e3 != nil || !bytes.Equal(b1, b2) || got != x || !same(v.Elem(), back.Elem()) {
					report(fmt.Sprintf("enum:%s:%q", f.path, x), fmt.Sprintf("%s = %q comes back from JSON as %q (errors %v %v %v)", f.path, x, got, e1, e2, e3),
						map[string]interface{}{"api": "json.Marshal / json.Unmarshal of backend." + t.Name(), "field": f.path, "value": x, "back": got})
				}
			}
			f.v.SetString(saved)
		}
	}
	s.Extra["enum_constants_read_from_backend_go"] = len(consts)
	s.Extra["enum_spellings_round_trips"] = total
	s.Exhaustive(fmt.Sprintf("enumerated strings: the %d string constants of backend/backend.go (read with go/ast), the specification's spellings UnknownReceiver / RoamingActDisallowed and every near-miss spelling of every constant (one character deleted, inserted, substituted, transposed, doubled; case variants; with and without a trailing A / Req / Ans) as a bare value of its type; constants, specification spellings and case / suffix variants in every string field of the 20 payload types and the nested objects (Go side)", len(consts)))
}

// enumCoqCases: Result values carrying every ResultCode constant, the specification spellings and a few near misses,
// evaluated in Coq (the model returns the string it was given).
func enumCoqCases(s *cases.Set, r *cq.RNG) {
	consts, err := backendConsts()
	if err != nil {
		return
	}
	var codes []string
	for _, c := range consts {
		if c.typ == "ResultCode" {
			codes = append(codes, c.value)
		}
	}
	codes = append(codes, specSpellings["ResultCode"]...)
	n := len(codes)
	for i := 0; i < n; i++ {
		nm := nearMisses(codes[i])
		codes = append(codes, nm[r.Intn(len(nm))])
	}
	for _, c := range codes {
		v := &backend.Result{ResultCode: backend.ResultCode(c), Description: "d"}
		structCoqCase(s, reflect.ValueOf(v), fmt.Sprintf("Result:code=%q", c), "struct-result-code-spelling")
	}
	for _, c := range specSpellings["ResultCode"] {
		a := &backend.HomeNSAnsPayload{}
		a.Result.ResultCode = backend.ResultCode(c)
		structCoqCase(s, reflect.ValueOf(a), fmt.Sprintf("HomeNSAnsPayload:code=%q", c), "struct-result-code-spelling")
	}
}
