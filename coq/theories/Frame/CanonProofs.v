(* C08: every byte string the frame decoder accepts (reserved MHDR bits zero)
   re-encodes to exactly itself, and decodes again to the same frame. *)
From Coq Require Import List NArith ZArith Bool Lia.
From Coq Require Import ZifyN ZifyNat ZifyBool.
From LW Require Import Base.Outcome Base.Bytes Mac.Commands Mac.Stream Mac.ByteLemmas Frame.Model.
Import ListNotations.
Open Scope N_scope.

Definition bytes (bs : list N) : Prop := Forall (fun b => b < 256) bs.

Lemma bytes_app a b : bytes (a ++ b) <-> bytes a /\ bytes b.
Proof. apply Forall_app. Qed.
Lemma bytes_firstn n l : bytes l -> bytes (firstn n l).
Proof. intros H. rewrite <- (firstn_skipn n l) in H. now apply bytes_app in H. Qed.
Lemma bytes_skipn n l : bytes l -> bytes (skipn n l).
Proof. intros H. rewrite <- (firstn_skipn n l) in H. now apply bytes_app in H. Qed.

(* MHDR byte: MType in bits 7..5, Major in bits 1..0; bits 4..2 reserved *)
Lemma mhdr_roundtrip b : b < 256 -> N.land b 28 = 0 ->
  mhdr_marshal (N.shiftr b 5) (N.land b 3) = b.
Proof.
  intros Hb Hr.
  assert (S : forallb (fun b => negb (N.land b 28 =? 0) || (mhdr_marshal (N.shiftr b 5) (N.land b 3) =? b)) (range 256) = true)
    by (vm_compute; reflexivity).
  pose proof (sweep1 256 _ S b Hb) as H. cbn beta in H. rewrite Hr in H. cbn in H. now apply N.eqb_eq.
Qed.

(* FCtrl byte: decode then encode with FOptsLen = the decoded nibble *)
Lemma fctrl_roundtrip b : b < 256 ->
  let c := fctrl_unmarshal b in
  fctrl_marshal (mkFCtrl (adr c) (adrackreq c) (ack c) (fpending c) (classb c) (N.land b 15)) = Ok b.
Proof.
  intros Hb.
  assert (S : forallb (fun b => let c := fctrl_unmarshal b in
     outcome_eqb N.eqb (fctrl_marshal (mkFCtrl (adr c) (adrackreq c) (ack c) (fpending c) (classb c) (N.land b 15))) (Ok b)) (range 256) = true)
    by (vm_compute; reflexivity).
  pose proof (sweep1 256 _ S b Hb) as H. cbn beta zeta in H.
  cbn zeta. destruct (fctrl_marshal _) as [x| | |]; cbn in H; try discriminate. f_equal. now apply N.eqb_eq.
Qed.

Lemma land15_lt b : N.land b 15 < 16.
Proof. change 15 with (N.ones 4). rewrite N.land_ones. apply N.mod_lt. discriminate. Qed.

Lemma le2_roundtrip a b : a < 256 -> b < 256 -> le_bytes 2 (le_val [a; b]) = [a; b].
Proof. intros Ha Hb. apply (le_bytes_val [a; b]). repeat constructor; assumption. Qed.

Lemma rev_rev4 (a b c d : N) : rev (rev [a; b; c; d]) = [a; b; c; d].
Proof. reflexivity. Qed.

(* MACPayload *)
Theorem mac_canonical body m : bytes body -> mac_unmarshal body = Ok m -> mac_marshal m = Ok body.
Proof.
  intros Hb H. unfold mac_unmarshal in H.
  destruct (length body <? 7)%nat eqn:L7; [discriminate|]. apply PeanoNat.Nat.ltb_ge in L7.
  destruct body as [|d0 [|d1 [|d2 [|d3 [|c [|f0 [|f1 rest]]]]]]]; try (cbn in L7; lia).
  cbn [nth] in H. set (ol := N.to_nat (N.land c 15)) in *.
  assert (Hol : (ol <= 15)%nat) by (unfold ol; pose proof (land15_lt c); lia).
  destruct (length (d0 :: d1 :: d2 :: d3 :: c :: f0 :: f1 :: rest) <? 7 + ol)%nat eqn:Lo; [discriminate|].
  apply PeanoNat.Nat.ltb_ge in Lo. cbn [length] in Lo.
  assert (Hr : (ol <= length rest)%nat) by lia.
  (* split the remainder into FOpts and what follows *)
  rewrite <- (firstn_skipn ol rest) in H, Hb |- *.
  set (opts := firstn ol rest) in *. set (tail := skipn ol rest) in *.
  assert (Lopts : length opts = ol) by (unfold opts; rewrite firstn_length; lia).
  unfold bytes in Hb. repeat match goal with Hx : Forall _ (_ :: _) |- _ => inversion Hx; clear Hx; subst end.
  match goal with Hx : Forall _ (opts ++ tail) |- _ => apply Forall_app in Hx; destruct Hx as [Hbo Hbt] end.
  (* the FHDR *)
  change (7 + ol)%nat with (S (S (S (S (S (S (S ol))))))) in H.
  cbn [firstn] in H. rewrite <- Lopts in H at 1. rewrite take_app_length in H.
  unfold fhdr_unmarshal in H. cbn [length] in H.
  replace (S (S (S (S (S (S (S (length opts))))))) <? 7)%nat with false in H by (symmetry; apply PeanoNat.Nat.ltb_ge; lia).
  cbn [nth firstn skipn bind] in H.
  set (h := mkFHDR (rev [d0; d1; d2; d3]) (fctrl_unmarshal c) (le_val [f0; f1])
                   (if (7 <? S (S (S (S (S (S (S (length opts))))))))%nat then [IData opts] else [])) in H.
  assert (Hh : fhdr_marshal h = Ok (d0 :: d1 :: d2 :: d3 :: c :: f0 :: f1 :: opts)).
  { unfold fhdr_marshal, h. cbn [fopts devaddr fc fcnt].
    assert (Eo : items_marshal (if (7 <? S (S (S (S (S (S (S (length opts))))))))%nat then [IData opts] else []) = Ok opts).
    { destruct opts as [|o os]; cbn; [reflexivity|]. now rewrite app_nil_r. }
    rewrite Eo. cbn [bind]. rewrite Lopts.
    assert (En : N.of_nat ol = N.land c 15) by (unfold ol; pose proof (land15_lt c); lia).
    rewrite En. replace (15 <? N.land c 15) with false by (pose proof (land15_lt c); lia).
    pose proof (fctrl_roundtrip c ltac:(assumption)) as Fc. cbn zeta in Fc. rewrite Fc. cbn [bind].
    rewrite rev_rev4, le2_roundtrip by assumption. reflexivity. }
  (* the length of the whole input, in terms of the tail *)
  cbn [length] in H. rewrite app_length, Lopts in H.
  change (7 + ol)%nat with (S (S (S (S (S (S (S ol))))))) in H.
  destruct tail as [|p tail'].
  - (* no FPort *)
    replace (S (S (S (S (S (S (S ol)))))) <? S (S (S (S (S (S (S (ol + length (@nil N)))))))))%nat with false in H
      by (symmetry; apply PeanoNat.Nat.ltb_ge; cbn; lia).
    replace (S (S (S (S (S (S (S ol)))))) + 1 <? S (S (S (S (S (S (S (ol + length (@nil N)))))))))%nat with false in H
      by (symmetry; apply PeanoNat.Nat.ltb_ge; cbn; lia).
    injection H as <-. unfold mac_marshal. cbn [hdr fport frm]. rewrite Hh. cbn [bind]. now rewrite app_nil_r.
  - (* FPort present *)
    replace (S (S (S (S (S (S (S ol)))))) <? S (S (S (S (S (S (S (ol + length (p :: tail')))))))))%nat with true in H
      by (symmetry; apply PeanoNat.Nat.ltb_lt; cbn; lia).
    assert (Ep : nth ol (opts ++ p :: tail') 0 = p).
    { rewrite <- Lopts. rewrite app_nth2 by lia. now rewrite PeanoNat.Nat.sub_diag. }
    rewrite Ep in H.
    assert (Es : skipn (S (S (S (S (S (S (S ol)))))) + 1) (d0 :: d1 :: d2 :: d3 :: c :: f0 :: f1 :: opts ++ p :: tail') = tail').
    { replace (S (S (S (S (S (S (S ol)))))) + 1)%nat with (S (S (S (S (S (S (S (S ol)))))))) by lia.
      change (skipn (S (S (S (S (S (S (S (S ol)))))))) (d0 :: d1 :: d2 :: d3 :: c :: f0 :: f1 :: opts ++ p :: tail'))
        with (skipn (S ol) (opts ++ p :: tail')).
      replace (opts ++ p :: tail') with ((opts ++ [p]) ++ tail') by (now rewrite <- app_assoc).
      apply drop_app_n. rewrite app_length. cbn. lia. }
    rewrite Es in H.
    assert (Hfo : Nat.eqb (length (fopts h)) 0 = Nat.eqb ol 0).
    { unfold h. cbn [fopts]. rewrite Lopts. destruct ol; reflexivity. }
    destruct tail' as [|t0 tl].
    + replace (S (S (S (S (S (S (S ol)))))) + 1 <? S (S (S (S (S (S (S (ol + length [p]))))))))%nat with false in H
        by (symmetry; apply PeanoNat.Nat.ltb_ge; cbn; lia).
      unfold mac_marshal.
      destruct (N.eq_dec p 0) as [->|Hp].
      * destruct (0 <? ol)%nat eqn:E0; [discriminate|]. apply PeanoNat.Nat.ltb_ge in E0.
        injection H as <-. cbn [hdr fport frm]. rewrite Hh. cbn [bind]. rewrite Hfo.
        replace (Nat.eqb ol 0) with true by (symmetry; apply PeanoNat.Nat.eqb_eq; lia).
        cbn [negb andb frm_marshal bind]. now rewrite app_nil_r.
      * assert (Hm : Ok m = Ok (mkMAC h (Some p) [])) by (rewrite <- H; destruct p; [congruence|reflexivity]).
        injection Hm as ->. cbn [hdr fport frm]. rewrite Hh. cbn [bind].
        replace (p =? 0) with false by (symmetry; apply N.eqb_neq; assumption).
        rewrite andb_false_r. cbn [frm_marshal bind]. now rewrite app_nil_r.
    + replace (S (S (S (S (S (S (S ol)))))) + 1 <? S (S (S (S (S (S (S (ol + length (p :: t0 :: tl)))))))))%nat with true in H
        by (symmetry; apply PeanoNat.Nat.ltb_lt; cbn; lia).
      unfold mac_marshal.
      destruct (N.eq_dec p 0) as [->|Hp].
      * destruct (0 <? ol)%nat eqn:E0; [discriminate|]. apply PeanoNat.Nat.ltb_ge in E0.
        injection H as <-. cbn [hdr fport frm]. rewrite Hh. cbn [bind]. rewrite Hfo.
        replace (Nat.eqb ol 0) with true by (symmetry; apply PeanoNat.Nat.eqb_eq; lia).
        cbn [negb andb frm_marshal bind]. now rewrite app_nil_r.
      * assert (Hm : Ok m = Ok (mkMAC h (Some p) [IData (t0 :: tl)])) by (rewrite <- H; destruct p; [congruence|reflexivity]).
        injection Hm as ->. cbn [hdr fport frm]. rewrite Hh. cbn [bind].
        replace (p =? 0) with false by (symmetry; apply N.eqb_neq; assumption).
        rewrite andb_false_r. cbn [frm_marshal bind]. now rewrite app_nil_r.
Qed.

Lemma split_frame bs : (5 <= length bs)%nat ->
  exists b0 body m, bs = b0 :: body ++ m /\ length m = 4%nat /\
    nth 0 bs 0 = b0 /\ firstn (length bs - 5) (skipn 1 bs) = body /\ skipn (length bs - 4) bs = m.
Proof.
  intros H. destruct bs as [|b0 t]; [cbn in H; lia|].
  exists b0, (firstn (length t - 4) t), (skipn (length t - 4) t).
  cbn [length] in *. split; [now rewrite firstn_skipn|]. split; [rewrite skipn_length; lia|].
  split; [reflexivity|]. split.
  - cbn [skipn]. reflexivity.
  - replace (S (length t) - 4)%nat with (S (length t - 4)) by lia. reflexivity.
Qed.

Lemma rev_rev (l : list N) : rev (rev l) = l.
Proof. apply rev_involutive. Qed.

Lemma le_tail2 l : bytes l -> length l = 2%nat -> le_bytes 2 (le_val l) = l.
Proof. intros Hb Hl. rewrite <- Hl. now apply le_bytes_val. Qed.

Lemma shiftr5_lt b : b < 256 -> N.shiftr b 5 < 8.
Proof. intros H. rewrite N.shiftr_div_pow2. change (2 ^ 5) with 32. zify. Lia.lia. Qed.

Definition rfu_zero (bs : list N) : bool :=
  match bs with b0 :: _ => N.land b0 28 =? 0 | [] => true end.

Lemma skipn_skipn {A} (a b : nat) (l : list A) : skipn a (skipn b l) = skipn (b + a) l.
Proof.
  revert l. induction b as [|b IH]; intros l; [reflexivity|].
  destruct l as [|x l]; cbn [skipn Nat.add]; [now destruct a|apply IH].
Qed.

Lemma split3 {A} (a b : nat) (l : list A) :
  firstn a l ++ firstn b (skipn a l) ++ skipn (a + b) l = l.
Proof.
  rewrite <- skipn_skipn. rewrite (firstn_skipn b (skipn a l)). apply firstn_skipn.
Qed.

Local Opaque skipn firstn.

(* C08: accepted => re-encodes to the very same bytes *)
Theorem phy_canonical bs p :
  bytes bs -> rfu_zero bs = true -> phy_unmarshal bs = Ok p -> phy_marshal p = Ok bs.
Proof.
  intros Hb Hr H. unfold phy_unmarshal in H.
  destruct (length bs <? 5)%nat eqn:L5; [discriminate|]. apply PeanoNat.Nat.ltb_ge in L5.
  destruct (split_frame bs L5) as (b0 & body & m & Ebs & Lm & E0 & Ebody & Em).
  rewrite E0, Ebody, Em in H.
  assert (Hb0 : b0 < 256) by (rewrite Ebs in Hb; now inversion Hb).
  assert (Hbody : bytes body) by (rewrite Ebs in Hb; inversion Hb; subst; match goal with X : Forall _ (_ ++ _) |- _ => now apply Forall_app in X end).
  assert (Hrfu : N.land b0 28 = 0) by (rewrite Ebs in Hr; cbn in Hr; now apply N.eqb_eq).
  pose proof (mhdr_roundtrip b0 Hb0 Hrfu) as Hm.
  assert (Hn1 : nth 1 bs 0 = nth 0 (body ++ m) 0) by (rewrite Ebs; reflexivity).
  set (mt := N.shiftr b0 5) in *.
  assert (finish : forall pl, payload_marshal pl = Ok body -> pl <> PLNil ->
            phy_marshal (mkPHY mt (N.land b0 3) pl m) = Ok bs).
  { intros pl Hpl Hne. unfold phy_marshal. cbn [Model.pl mtype major mic]. rewrite Hpl. cbn [bind].
    destruct pl; try congruence; now rewrite Hm, Ebs. }
  destruct (mt =? JoinRequest) eqn:T0.
  { destruct (negb (Nat.eqb (length body) 18)) eqn:L; [discriminate|]. apply negb_false_iff, PeanoNat.Nat.eqb_eq in L.
    cbn [bind] in H. injection H as <-. apply finish; [|discriminate].
    cbn [payload_marshal]. rewrite !rev_rev, le_tail2; [| apply bytes_skipn; assumption | rewrite skipn_length; lia].
    f_equal. apply (split3 8 8 body). }
  destruct ((mt =? JoinAccept) || (mt =? Proprietary)) eqn:T1.
  { cbn [bind] in H. injection H as <-. apply finish; [reflexivity|discriminate]. }
  destruct (mt =? RejoinRequest) eqn:T6.
  { rewrite Hn1 in H.
    destruct ((nth 0 (body ++ m) 0 =? 0) || (nth 0 (body ++ m) 0 =? 2)) eqn:Ty.
    - destruct (negb (Nat.eqb (length body) 14)) eqn:L; [discriminate|]. apply negb_false_iff, PeanoNat.Nat.eqb_eq in L.
      destruct body as [|ty body']; [discriminate L|]. cbn [app nth] in *.
      cbn [bind] in H. injection H as <-. apply finish; [|discriminate].
      cbn [payload_marshal].
      replace (negb (ty =? 0) && negb (ty =? 2)) with false
        by (symmetry; apply orb_true_iff in Ty; destruct Ty as [-> | ->]; [reflexivity|apply andb_false_r]).
      rewrite !rev_rev, le_tail2; [| apply bytes_skipn; assumption | rewrite skipn_length; cbn [length] in *; lia].
      cbn [app]. f_equal.
      change (skipn 1 (ty :: body')) with body'.
      change (skipn 4 (ty :: body')) with (skipn 3 body'). change (skipn 12 (ty :: body')) with (skipn 11 body').
      f_equal. apply (split3 3 8 body').
    - destruct (nth 0 (body ++ m) 0 =? 1) eqn:Ty1; [|discriminate].
      destruct (negb (Nat.eqb (length body) 19)) eqn:L; [discriminate|]. apply negb_false_iff, PeanoNat.Nat.eqb_eq in L.
      destruct body as [|ty body']; [discriminate L|]. cbn [app nth] in *.
      cbn [bind] in H. injection H as <-. apply finish; [|discriminate].
      cbn [payload_marshal]. rewrite Ty1. cbn [negb].
      rewrite !rev_rev, le_tail2; [| apply bytes_skipn; assumption | rewrite skipn_length; cbn [length] in *; lia].
      cbn [app]. f_equal.
      change (skipn 1 (ty :: body')) with body'.
      change (skipn 9 (ty :: body')) with (skipn 8 body'). change (skipn 17 (ty :: body')) with (skipn 16 body').
      f_equal. apply (split3 8 8 body'). }
  (* data frames *)
  destruct (mac_unmarshal body) as [mm| | |] eqn:Emac; cbn [bind] in H; try discriminate.
  injection H as <-. apply finish; [|discriminate]. cbn [payload_marshal]. now apply mac_canonical.
Qed.
