(* C19 - fragmentation encoder (statements follow) *)
From Coq Require Import List NArith ZArith Bool.
From LW Require Import Base.Outcome Base.Bytes.
