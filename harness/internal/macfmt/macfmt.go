// Package macfmt prints lorawan MAC-command payload values as Gallina terms
// of LW.Mac.Commands (type macpl / kind / item) and generates payload values.
package macfmt

import (
	"fmt"
	"time"

	"github.com/brocaar/lorawan"
	"verifharness/internal/cq"
)

func bools(m [16]bool) string {
	s := make([]string, 16)
	for i, b := range m {
		s[i] = cq.Bool(b)
	}
	return cq.List(s)
}

// KindOf returns the Coq constructor of `kind` for a payload object.
func KindOf(p lorawan.MACCommandPayload) string {
	switch p.(type) {
	case *lorawan.LinkCheckAnsPayload:
		return "KLinkCheckAns"
	case *lorawan.LinkADRReqPayload:
		return "KLinkADRReq"
	case *lorawan.LinkADRAnsPayload:
		return "KLinkADRAns"
	case *lorawan.DutyCycleReqPayload:
		return "KDutyCycleReq"
	case *lorawan.RXParamSetupReqPayload:
		return "KRXParamSetupReq"
	case *lorawan.RXParamSetupAnsPayload:
		return "KRXParamSetupAns"
	case *lorawan.DevStatusAnsPayload:
		return "KDevStatusAns"
	case *lorawan.NewChannelReqPayload:
		return "KNewChannelReq"
	case *lorawan.NewChannelAnsPayload:
		return "KNewChannelAns"
	case *lorawan.RXTimingSetupReqPayload:
		return "KRXTimingSetupReq"
	case *lorawan.TXParamSetupReqPayload:
		return "KTXParamSetupReq"
	case *lorawan.DLChannelReqPayload:
		return "KDLChannelReq"
	case *lorawan.DLChannelAnsPayload:
		return "KDLChannelAns"
	case *lorawan.PingSlotInfoReqPayload:
		return "KPingSlotInfoReq"
	case *lorawan.BeaconFreqReqPayload:
		return "KBeaconFreqReq"
	case *lorawan.BeaconFreqAnsPayload:
		return "KBeaconFreqAns"
	case *lorawan.PingSlotChannelReqPayload:
		return "KPingSlotChannelReq"
	case *lorawan.PingSlotChannelAnsPayload:
		return "KPingSlotChannelAns"
	case *lorawan.DeviceTimeAnsPayload:
		return "KDeviceTimeAns"
	case *lorawan.ResetIndPayload:
		return "KResetInd"
	case *lorawan.ResetConfPayload:
		return "KResetConf"
	case *lorawan.RekeyIndPayload:
		return "KRekeyInd"
	case *lorawan.RekeyConfPayload:
		return "KRekeyConf"
	case *lorawan.ADRParamSetupReqPayload:
		return "KADRParamSetupReq"
	case *lorawan.ForceRejoinReqPayload:
		return "KForceRejoinReq"
	case *lorawan.RejoinParamSetupReqPayload:
		return "KRejoinParamSetupReq"
	case *lorawan.RejoinParamSetupAnsPayload:
		return "KRejoinParamSetupAns"
	case *lorawan.DeviceModeIndPayload:
		return "KDeviceModeInd"
	case *lorawan.DeviceModeConfPayload:
		return "KDeviceModeConf"
	case *lorawan.ProprietaryMACCommandPayload:
		return "KProprietary"
	}
	return fmt.Sprintf("KUnknown_%T", p)
}

// Kinds lists constructors with a factory, for generators.
var Kinds = []struct {
	Name string
	New  func() lorawan.MACCommandPayload
	Size int
}{
	{"KLinkCheckAns", func() lorawan.MACCommandPayload { return &lorawan.LinkCheckAnsPayload{} }, 2},
	{"KLinkADRReq", func() lorawan.MACCommandPayload { return &lorawan.LinkADRReqPayload{} }, 4},
	{"KLinkADRAns", func() lorawan.MACCommandPayload { return &lorawan.LinkADRAnsPayload{} }, 1},
	{"KDutyCycleReq", func() lorawan.MACCommandPayload { return &lorawan.DutyCycleReqPayload{} }, 1},
	{"KRXParamSetupReq", func() lorawan.MACCommandPayload { return &lorawan.RXParamSetupReqPayload{} }, 4},
	{"KRXParamSetupAns", func() lorawan.MACCommandPayload { return &lorawan.RXParamSetupAnsPayload{} }, 1},
	{"KDevStatusAns", func() lorawan.MACCommandPayload { return &lorawan.DevStatusAnsPayload{} }, 2},
	{"KNewChannelReq", func() lorawan.MACCommandPayload { return &lorawan.NewChannelReqPayload{} }, 5},
	{"KNewChannelAns", func() lorawan.MACCommandPayload { return &lorawan.NewChannelAnsPayload{} }, 1},
	{"KRXTimingSetupReq", func() lorawan.MACCommandPayload { return &lorawan.RXTimingSetupReqPayload{} }, 1},
	{"KTXParamSetupReq", func() lorawan.MACCommandPayload { return &lorawan.TXParamSetupReqPayload{} }, 1},
	{"KDLChannelReq", func() lorawan.MACCommandPayload { return &lorawan.DLChannelReqPayload{} }, 4},
	{"KDLChannelAns", func() lorawan.MACCommandPayload { return &lorawan.DLChannelAnsPayload{} }, 1},
	{"KPingSlotInfoReq", func() lorawan.MACCommandPayload { return &lorawan.PingSlotInfoReqPayload{} }, 1},
	{"KBeaconFreqReq", func() lorawan.MACCommandPayload { return &lorawan.BeaconFreqReqPayload{} }, 3},
	{"KBeaconFreqAns", func() lorawan.MACCommandPayload { return &lorawan.BeaconFreqAnsPayload{} }, 1},
	{"KPingSlotChannelReq", func() lorawan.MACCommandPayload { return &lorawan.PingSlotChannelReqPayload{} }, 4},
	{"KPingSlotChannelAns", func() lorawan.MACCommandPayload { return &lorawan.PingSlotChannelAnsPayload{} }, 1},
	{"KDeviceTimeAns", func() lorawan.MACCommandPayload { return &lorawan.DeviceTimeAnsPayload{} }, 5},
	{"KResetInd", func() lorawan.MACCommandPayload { return &lorawan.ResetIndPayload{} }, 1},
	{"KResetConf", func() lorawan.MACCommandPayload { return &lorawan.ResetConfPayload{} }, 1},
	{"KRekeyInd", func() lorawan.MACCommandPayload { return &lorawan.RekeyIndPayload{} }, 1},
	{"KRekeyConf", func() lorawan.MACCommandPayload { return &lorawan.RekeyConfPayload{} }, 1},
	{"KADRParamSetupReq", func() lorawan.MACCommandPayload { return &lorawan.ADRParamSetupReqPayload{} }, 1},
	{"KForceRejoinReq", func() lorawan.MACCommandPayload { return &lorawan.ForceRejoinReqPayload{} }, 2},
	{"KRejoinParamSetupReq", func() lorawan.MACCommandPayload { return &lorawan.RejoinParamSetupReqPayload{} }, 1},
	{"KRejoinParamSetupAns", func() lorawan.MACCommandPayload { return &lorawan.RejoinParamSetupAnsPayload{} }, 1},
	{"KDeviceModeInd", func() lorawan.MACCommandPayload { return &lorawan.DeviceModeIndPayload{} }, 1},
	{"KDeviceModeConf", func() lorawan.MACCommandPayload { return &lorawan.DeviceModeConfPayload{} }, 1},
}

// Payload prints a payload value as a `macpl` term (parenthesised).
func Payload(p lorawan.MACCommandPayload) string {
	n := func(x uint64) string { return cq.N(x) }
	b := cq.Bool
	switch v := p.(type) {
	case *lorawan.LinkCheckAnsPayload:
		return fmt.Sprintf("(PLinkCheckAns %d %d)", v.Margin, v.GwCnt)
	case *lorawan.LinkADRReqPayload:
		return fmt.Sprintf("(PLinkADRReq %d %d %s %d %d)", v.DataRate, v.TXPower, bools(v.ChMask), v.Redundancy.ChMaskCntl, v.Redundancy.NbRep)
	case *lorawan.LinkADRAnsPayload:
		return fmt.Sprintf("(PLinkADRAns %s %s %s)", b(v.ChannelMaskACK), b(v.DataRateACK), b(v.PowerACK))
	case *lorawan.DutyCycleReqPayload:
		return fmt.Sprintf("(PDutyCycleReq %d)", v.MaxDCycle)
	case *lorawan.RXParamSetupReqPayload:
		return fmt.Sprintf("(PRXParamSetupReq %d %s %d %d)", v.Frequency, b(v.DLSettings.OptNeg), v.DLSettings.RX2DataRate, v.DLSettings.RX1DROffset)
	case *lorawan.RXParamSetupAnsPayload:
		return fmt.Sprintf("(PRXParamSetupAns %s %s %s)", b(v.ChannelACK), b(v.RX2DataRateACK), b(v.RX1DROffsetACK))
	case *lorawan.DevStatusAnsPayload:
		return fmt.Sprintf("(PDevStatusAns %d %s)", v.Battery, cq.Z(int64(v.Margin)))
	case *lorawan.NewChannelReqPayload:
		return fmt.Sprintf("(PNewChannelReq %d %d %d %d)", v.ChIndex, v.Freq, v.MaxDR, v.MinDR)
	case *lorawan.NewChannelAnsPayload:
		return fmt.Sprintf("(PNewChannelAns %s %s)", b(v.ChannelFrequencyOK), b(v.DataRateRangeOK))
	case *lorawan.RXTimingSetupReqPayload:
		return fmt.Sprintf("(PRXTimingSetupReq %d)", v.Delay)
	case *lorawan.TXParamSetupReqPayload:
		return fmt.Sprintf("(PTXParamSetupReq %s %s %d)", cq.Z(int64(v.DownlinkDwelltime)), cq.Z(int64(v.UplinkDwellTime)), v.MaxEIRP)
	case *lorawan.DLChannelReqPayload:
		return fmt.Sprintf("(PDLChannelReq %d %d)", v.ChIndex, v.Freq)
	case *lorawan.DLChannelAnsPayload:
		return fmt.Sprintf("(PDLChannelAns %s %s)", b(v.UplinkFrequencyExists), b(v.ChannelFrequencyOK))
	case *lorawan.PingSlotInfoReqPayload:
		return fmt.Sprintf("(PPingSlotInfoReq %d)", v.Periodicity)
	case *lorawan.BeaconFreqReqPayload:
		return fmt.Sprintf("(PBeaconFreqReq %d)", v.Frequency)
	case *lorawan.BeaconFreqAnsPayload:
		return fmt.Sprintf("(PBeaconFreqAns %s)", b(v.BeaconFrequencyOK))
	case *lorawan.PingSlotChannelReqPayload:
		return fmt.Sprintf("(PPingSlotChannelReq %d %d)", v.Frequency, v.DR)
	case *lorawan.PingSlotChannelAnsPayload:
		return fmt.Sprintf("(PPingSlotChannelAns %s %s)", b(v.DataRateOK), b(v.ChannelFrequencyOK))
	case *lorawan.DeviceTimeAnsPayload:
		return fmt.Sprintf("(PDeviceTimeAns %s)", cq.Z(int64(v.TimeSinceGPSEpoch)))
	case *lorawan.ResetIndPayload:
		return fmt.Sprintf("(PResetInd %d)", v.DevLoRaWANVersion.Minor)
	case *lorawan.ResetConfPayload:
		return fmt.Sprintf("(PResetConf %d)", v.ServLoRaWANVersion.Minor)
	case *lorawan.RekeyIndPayload:
		return fmt.Sprintf("(PRekeyInd %d)", v.DevLoRaWANVersion.Minor)
	case *lorawan.RekeyConfPayload:
		return fmt.Sprintf("(PRekeyConf %d)", v.ServLoRaWANVersion.Minor)
	case *lorawan.ADRParamSetupReqPayload:
		return fmt.Sprintf("(PADRParamSetupReq %d %d)", v.ADRParam.LimitExp, v.ADRParam.DelayExp)
	case *lorawan.ForceRejoinReqPayload:
		return fmt.Sprintf("(PForceRejoinReq %d %d %d %d)", v.Period, v.MaxRetries, v.RejoinType, v.DR)
	case *lorawan.RejoinParamSetupReqPayload:
		return fmt.Sprintf("(PRejoinParamSetupReq %d %d)", v.MaxTimeN, v.MaxCountN)
	case *lorawan.RejoinParamSetupAnsPayload:
		return fmt.Sprintf("(PRejoinParamSetupAns %s)", b(v.TimeOK))
	case *lorawan.DeviceModeIndPayload:
		return fmt.Sprintf("(PDeviceModeInd %d)", byte(v.Class))
	case *lorawan.DeviceModeConfPayload:
		return fmt.Sprintf("(PDeviceModeConf %d)", byte(v.Class))
	case *lorawan.ProprietaryMACCommandPayload:
		return fmt.Sprintf("(PProprietary %s)", cq.Bytes(v.Bytes))
	}
	_ = n
	return fmt.Sprintf("(PUnknown_%T)", p)
}

// Item prints a frame item (MAC command or raw data payload).
func Item(p lorawan.Payload) string {
	switch v := p.(type) {
	case *lorawan.MACCommand:
		if v.Payload == nil {
			return fmt.Sprintf("(IMac %d None)", byte(v.CID))
		}
		return fmt.Sprintf("(IMac %d (Some %s))", byte(v.CID), Payload(v.Payload))
	case *lorawan.DataPayload:
		return fmt.Sprintf("(IData %s)", cq.Bytes(v.Bytes))
	}
	// any other implementation of lorawan.Payload (the interface is open: a caller's own type, an
	// application-layer Command): on the wire it is the bytes it marshals to
	if b, err := p.MarshalBinary(); err == nil {
		return fmt.Sprintf("(IData %s)", cq.Bytes(b))
	}
	return fmt.Sprintf("(IUnknown_%T)", p)
}

func Items(ps []lorawan.Payload) string {
	s := make([]string, len(ps))
	for i, p := range ps {
		s[i] = Item(p)
	}
	return cq.List(s)
}

func pickU8(r *cq.RNG, inMax int) uint8 {
	switch r.Intn(6) {
	case 0:
		return 0
	case 1:
		return uint8(inMax)
	case 2:
		if inMax < 255 {
			return uint8(inMax + 1)
		}
		return 255
	case 3:
		return 255
	default:
		if r.Intn(4) == 0 {
			return r.Byte()
		}
		return uint8(r.Intn(inMax + 1))
	}
}

func pickFreq(r *cq.RNG) uint32 {
	if r.Intn(4) == 0 { // every residue class that matters for the 100 Hz / 200 Hz stepping, around bases of every range
		bases := []uint32{868100000, 1199999900, 1200000000, 1677721400, 2399999800, 2400000000, 2422000000, 2483400000, 3355443000, 3355443200, 4294967000}
		deltas := []uint32{0, 1, 2, 50, 99, 100, 101, 150, 199, 200, 201}
		return bases[r.Intn(len(bases))] + deltas[r.Intn(len(deltas))]
	}
	switch r.Intn(10) {
	case 0:
		return 0
	case 1:
		return 1677721500 // (2^24-1)*100
	case 2:
		return 1677721600 // 2^24*100
	case 3:
		return uint32(r.Intn(1<<24)) * 100
	case 4:
		return uint32(r.Intn(1<<24))*100 + uint32(1+r.Intn(99))
	case 5:
		return r.U32()
	case 6:
		return 868100000 + uint32(r.Intn(50))*200000
	case 7:
		return 2400000000 + uint32(r.Intn(4000000))*200
	case 8:
		return 2400000000 + uint32(r.Intn(4000000))*200 + 100
	default:
		return uint32(r.Intn(12000000)) * 100
	}
}

// Random fills a fresh payload of the i-th kind with boundary-heavy random
// field values over the full Go domain of each field (valid == false) or
// within the specified ranges (valid == true).
func Random(r *cq.RNG, i int, valid bool) lorawan.MACCommandPayload {
	p := Kinds[i].New()
	u8 := func(max int) uint8 {
		if valid {
			return uint8(r.Intn(max + 1))
		}
		return pickU8(r, max)
	}
	freq := func() uint32 {
		if valid {
			return uint32(r.Intn(12000000)) * 100
		}
		return pickFreq(r)
	}
	switch v := p.(type) {
	case *lorawan.LinkCheckAnsPayload:
		v.Margin, v.GwCnt = u8(255), u8(255)
	case *lorawan.LinkADRReqPayload:
		v.DataRate, v.TXPower = u8(15), u8(15)
		m := r.U64()
		for j := range v.ChMask {
			v.ChMask[j] = m>>uint(j)&1 == 1
		}
		v.Redundancy.ChMaskCntl, v.Redundancy.NbRep = u8(7), u8(15)
	case *lorawan.LinkADRAnsPayload:
		v.ChannelMaskACK, v.DataRateACK, v.PowerACK = r.Bool(), r.Bool(), r.Bool()
	case *lorawan.DutyCycleReqPayload:
		v.MaxDCycle = u8(15)
		if valid && r.Intn(8) == 0 {
			v.MaxDCycle = 255 // LoRaWAN 1.0 / 1.0.1 whole-octet value "device off"
		}
	case *lorawan.RXParamSetupReqPayload:
		v.Frequency = freq()
		v.DLSettings.OptNeg, v.DLSettings.RX2DataRate, v.DLSettings.RX1DROffset = r.Bool(), u8(15), u8(7)
	case *lorawan.RXParamSetupAnsPayload:
		v.ChannelACK, v.RX2DataRateACK, v.RX1DROffsetACK = r.Bool(), r.Bool(), r.Bool()
	case *lorawan.DevStatusAnsPayload:
		v.Battery = u8(255)
		if valid {
			v.Margin = int8(r.Intn(64) - 32)
		} else {
			v.Margin = []int8{-128, -33, -32, -1, 0, 1, 31, 32, 127, int8(r.Byte())}[r.Intn(10)]
		}
	case *lorawan.NewChannelReqPayload:
		v.ChIndex, v.Freq, v.MaxDR, v.MinDR = u8(255), freq(), u8(15), u8(15)
		if valid && r.Intn(4) == 0 {
			v.Freq = 2400000000 + uint32(r.Intn(4000000))*200
		}
	case *lorawan.NewChannelAnsPayload:
		v.ChannelFrequencyOK, v.DataRateRangeOK = r.Bool(), r.Bool()
	case *lorawan.RXTimingSetupReqPayload:
		v.Delay = u8(15)
	case *lorawan.TXParamSetupReqPayload:
		v.MaxEIRP = u8(15)
		if valid {
			v.DownlinkDwelltime, v.UplinkDwellTime = lorawan.DwellTime(r.Intn(2)), lorawan.DwellTime(r.Intn(2))
		} else {
			c := []int{0, 1, 2, -1, 3, 1 << 40}
			v.DownlinkDwelltime, v.UplinkDwellTime = lorawan.DwellTime(c[r.Intn(len(c))]), lorawan.DwellTime(c[r.Intn(len(c))])
		}
	case *lorawan.DLChannelReqPayload:
		v.ChIndex, v.Freq = u8(255), freq()
	case *lorawan.DLChannelAnsPayload:
		v.UplinkFrequencyExists, v.ChannelFrequencyOK = r.Bool(), r.Bool()
	case *lorawan.PingSlotInfoReqPayload:
		v.Periodicity = u8(7)
	case *lorawan.BeaconFreqReqPayload:
		v.Frequency = freq()
	case *lorawan.BeaconFreqAnsPayload:
		v.BeaconFrequencyOK = r.Bool()
	case *lorawan.PingSlotChannelReqPayload:
		v.Frequency, v.DR = freq(), u8(15)
	case *lorawan.PingSlotChannelAnsPayload:
		v.DataRateOK, v.ChannelFrequencyOK = r.Bool(), r.Bool()
	case *lorawan.DeviceTimeAnsPayload:
		sec := int64(r.U32())
		frac := int64(r.Intn(1000000000))
		if valid {
			v.TimeSinceGPSEpoch = time.Duration(sec*1000000000 + frac)
		} else {
			switch r.Intn(8) {
			case 0:
				v.TimeSinceGPSEpoch = -1
			case 1:
				v.TimeSinceGPSEpoch = time.Duration(-sec*1000000000 - frac)
			case 2:
				v.TimeSinceGPSEpoch = time.Duration(int64(1<<32) * 1000000000)
			case 3:
				v.TimeSinceGPSEpoch = time.Duration(int64(1<<32)*1000000000 - 1)
			case 4:
				v.TimeSinceGPSEpoch = time.Duration(1<<63 - 1)
			case 5:
				v.TimeSinceGPSEpoch = time.Duration(-1 << 63)
			default:
				v.TimeSinceGPSEpoch = time.Duration(sec*1000000000 + frac)
			}
		}
	case *lorawan.ResetIndPayload:
		v.DevLoRaWANVersion.Minor = u8(7)
	case *lorawan.ResetConfPayload:
		v.ServLoRaWANVersion.Minor = u8(7)
	case *lorawan.RekeyIndPayload:
		v.DevLoRaWANVersion.Minor = u8(7)
	case *lorawan.RekeyConfPayload:
		v.ServLoRaWANVersion.Minor = u8(7)
	case *lorawan.ADRParamSetupReqPayload:
		v.ADRParam.LimitExp, v.ADRParam.DelayExp = u8(15), u8(15)
	case *lorawan.ForceRejoinReqPayload:
		v.Period, v.MaxRetries, v.DR = u8(7), u8(7), u8(15)
		if valid {
			v.RejoinType = uint8(r.Intn(3)) // LoRaWAN 1.1 5.13: 0 and 1 = Rejoin-request type 0, 2 = type 2; 3..7 RFU
		} else {
			v.RejoinType = []uint8{0, 1, 2, 3, 7, 8, 255}[r.Intn(7)]
		}
	case *lorawan.RejoinParamSetupReqPayload:
		v.MaxTimeN, v.MaxCountN = u8(15), u8(15)
	case *lorawan.RejoinParamSetupAnsPayload:
		v.TimeOK = r.Bool()
	case *lorawan.DeviceModeIndPayload:
		v.Class = lorawan.DeviceModeClass(u8(2))
	case *lorawan.DeviceModeConfPayload:
		v.Class = lorawan.DeviceModeClass(u8(2))
	}
	return p
}

// Builtin lists the (uplink, CID, kind index) of the built-in registry as the
// specification defines it (used only by generators, never by oracles).
var Builtin = []struct {
	Up   bool
	CID  lorawan.CID
	Kind string
}{
	{false, lorawan.ResetConf, "KResetConf"}, {false, lorawan.LinkCheckAns, "KLinkCheckAns"},
	{false, lorawan.LinkADRReq, "KLinkADRReq"}, {false, lorawan.DutyCycleReq, "KDutyCycleReq"},
	{false, lorawan.RXParamSetupReq, "KRXParamSetupReq"}, {false, lorawan.NewChannelReq, "KNewChannelReq"},
	{false, lorawan.RXTimingSetupReq, "KRXTimingSetupReq"}, {false, lorawan.TXParamSetupReq, "KTXParamSetupReq"},
	{false, lorawan.DLChannelReq, "KDLChannelReq"}, {false, lorawan.BeaconFreqReq, "KBeaconFreqReq"},
	{false, lorawan.PingSlotChannelReq, "KPingSlotChannelReq"}, {false, lorawan.DeviceTimeAns, "KDeviceTimeAns"},
	{false, lorawan.RekeyConf, "KRekeyConf"}, {false, lorawan.ADRParamSetupReq, "KADRParamSetupReq"},
	{false, lorawan.ForceRejoinReq, "KForceRejoinReq"}, {false, lorawan.RejoinParamSetupReq, "KRejoinParamSetupReq"},
	{false, lorawan.DeviceModeConf, "KDeviceModeConf"},
	{true, lorawan.ResetInd, "KResetInd"}, {true, lorawan.LinkADRAns, "KLinkADRAns"},
	{true, lorawan.RXParamSetupAns, "KRXParamSetupAns"}, {true, lorawan.DevStatusAns, "KDevStatusAns"},
	{true, lorawan.NewChannelAns, "KNewChannelAns"}, {true, lorawan.DLChannelAns, "KDLChannelAns"},
	{true, lorawan.PingSlotInfoReq, "KPingSlotInfoReq"}, {true, lorawan.BeaconFreqAns, "KBeaconFreqAns"},
	{true, lorawan.PingSlotChannelAns, "KPingSlotChannelAns"}, {true, lorawan.RekeyInd, "KRekeyInd"},
	{true, lorawan.RejoinParamSetupAns, "KRejoinParamSetupAns"}, {true, lorawan.DeviceModeInd, "KDeviceModeInd"},
}

// KindIndex finds a kind by constructor name.
func KindIndex(name string) int {
	for i, k := range Kinds {
		if k.Name == name {
			return i
		}
	}
	return -1
}
