(* C07 - statement file (being filled in) *)
From Coq Require Import List NArith ZArith Bool.
From LW Require Import Base.Outcome Base.Bytes Mac.Commands Mac.Spec Mac.Stream Mac.RegistryProofs.
From LWGen Require Import RegistryGen.
Import ListNotations.
Open Scope N_scope.

Theorem C07_registry_sizes : forall up cid sz k,
  reg_lookup builtin_registry up cid = Some (sz, k) -> sz = kind_size k.
Proof. intros up cid sz k H. exact (proj2 (proj2 (registry_complete up cid sz k H))). Qed.
Print Assumptions C07_registry_sizes.
