(* Correspondence cases for C06 (MAC-command part): model vs implementation,
   and the table-driven specification evaluated on what the implementation did. *)
From Coq Require Import List NArith ZArith Bool.
From LW Require Export Base.Outcome Base.Bytes Mac.Commands Mac.Spec Mac.Stream Frame.Model Frame.WireSpec.
From LWGen Require Import RegistryGen.
Import ListNotations.
Open Scope N_scope.

Inductive case :=
| CEnc (v : macpl) (o : outcome (list N))
| CDec (k : kind) (bs : list N) (o : outcome macpl)
| CReg (up : bool) (cid : N) (o : option (Z * kind))
(* join / rejoin / join-accept payload (with CFList) MarshalBinary *)
| CFrameEnc (p : payload) (o : outcome (list N))
(* single-octet headers: byte, decoded fields as observed *)
| CMhdr (b : N) (o_mtype o_major : N) (o_re : N)
| CFctrl (b : N) (o : fctrl) (o_re : outcome N)
| CDlSettings (b : N) (o_optneg : bool) (o_rx2 o_rx1 : N) (o_re : outcome N)
(* FHDR.MarshalBinary of a header value (its unexported FOptsLen may be stale) *)
| CFhdrEnc (h : fhdr) (o : outcome (list N))
(* CFList.UnmarshalBinary of 16 arbitrary octets, then MarshalBinary of what was decoded *)
| CCFListDec (bs : list N) (o : outcome cflist) (o_re : outcome (list N))
(* JoinAcceptPayload.UnmarshalBinary of 12 / 28 (or other) octets, then MarshalBinary of what was decoded *)
| CJoinAcceptDec (bs : list N) (o : outcome payload) (o_re : outcome (list N)).

Definition oeqb := outcome_eqb bytes_eqb.
Definition cfeqb := outcome_eqb cflist_eqb.
Definition peqb := outcome_eqb macpl_eqb.
Definition pleqb := outcome_eqb payload_eqb.

(* the octets a conformant sender would have sent for the same fields: RFU parts zero
   (RxDelay bits 7..4; octets 12..14 of a channel-mask CFList) *)
Definition ja_rfu_zero (bs : list N) : list N :=
  firstn 11 bs ++ [N.land (nth 11 bs 0) 15] ++
  (let cf := skipn 12 bs in
   if Nat.eqb (length cf) 16 && (nth 15 cf 0 =? 1) then firstn 12 cf ++ [0; 0; 0; 1] else cf).

Definition check (c : case) : N :=
  match c with
  | CEnc v o =>
    code (oeqb (enc v) o)
         (if spec_in_range v
          then oeqb o (Ok (spec_encode_k (kind_of v) (fields_of v)))
          else true)
  | CDec k bs o =>
    let L := layout_of k in
    code (peqb (dec k bs) o)
         (if Nat.eqb (length bs) (byte_size L)
          then peqb o (Ok (value_of k (spec_decode_k k bs)))
          else is_err o)
  | CReg up cid o =>
    code (option_eqb (fun a b => (fst a =? fst b)%Z && kind_eqb (snd a) (snd b))
                     (reg_lookup builtin_registry up cid) o)
         (match spec_reg_lookup spec_registry up cid, o with
          | Some k, Some (sz, k') => kind_eqb k k' && (sz =? Z.of_nat (byte_size (layout_of k)))%Z
          | None, None => true
          | _, _ => false
          end)
  | CFrameEnc p o =>
    code (oeqb (payload_marshal p) o)
         (match frame_spec_bytes p with Some b => oeqb o (Ok b) | None => true end)
  | CMhdr b mt mj re =>
    code ((N.shiftr b 5 =? mt) && (N.land b 3 =? mj) && (mhdr_marshal mt mj =? re))
         (bytes_eqb [mj; mt] (unpack L_MHDR b) && (re =? spec_mhdr mt mj))
  | CFctrl b c re =>
    code (fctrl_eqb (fctrl_unmarshal b) c && outcome_eqb N.eqb (fctrl_marshal c) re)
         (fctrl_eqb c (spec_fctrl_decode b) && outcome_eqb N.eqb re (Ok (spec_fctrl c)))
  | CFhdrEnc h o =>
    code (oeqb (fhdr_marshal h) o)
         (match items_marshal (fopts h) with
          | Ok opts => if (length opts <=? 15)%nat
                       then if id_ok' 4 (devaddr h) && (fcnt h <? 2 ^ 32) then oeqb o (Ok (spec_fhdr h opts)) else true
                       else is_err o      (* more than 15 octets of FOpts do not fit the 4-bit FOptsLen: refused, never wrapped (C07-3) *)
          | _ => true
          end)
  | CCFListDec bs o o_re =>
    code (cfeqb (cflist_unmarshal bs) o &&
          match o with Ok l => oeqb (cflist_marshal l) o_re | _ => true end)
         (if Nat.eqb (length bs) 16 && (nth 15 bs 0 =? 1)
          then (* channel-masks: octets 12..14 are RFU: ignored by the decoder, sent as zero by the encoder *)
               let z := firstn 12 bs ++ [0; 0; 0; 1] in
               cfeqb o (cflist_unmarshal z) && oeqb o_re (Ok z) &&
               match o with Ok l => option_eqb bytes_eqb (spec_cflist l) (Some z) | _ => false end
          else if Nat.eqb (length bs) 16 && (nth 15 bs 0 =? 0)
          then (* channels: every octet is a field, the value is the octets *)
               oeqb o_re (Ok bs) && match o with Ok l => option_eqb bytes_eqb (spec_cflist l) (Some bs) | _ => false end
          else true)
  | CJoinAcceptDec bs o o_re =>
    code (pleqb (joinaccept_unmarshal bs) o &&
          match o with Ok p => oeqb (payload_marshal p) o_re | _ => true end)
         (if Nat.eqb (length bs) 12 || Nat.eqb (length bs) 28
          then let z := ja_rfu_zero bs in
               pleqb o (joinaccept_unmarshal z) && oeqb o_re (Ok z) &&
               match o with
               | Ok p => if Nat.eqb (length bs) 12 || (nth 27 bs 0 <? 2)     (* CFList types 0 and 1 are specified *)
                         then option_eqb bytes_eqb (frame_spec_bytes p) (Some z) else true
               | _ => false
               end
          else is_err o)
  | CDlSettings b o rx2 rx1 re =>
    code (let '(o', a, c) := dec_dlsettings b in Bool.eqb o o' && (a =? rx2) && (c =? rx1) && outcome_eqb N.eqb (enc_dlsettings o rx2 rx1) re)
         (let l := unpack L_DLSettings b in
          Bool.eqb o (f2b (nth 2 l 0)) && (rx2 =? nth 0 l 0) && (rx1 =? nth 1 l 0) && outcome_eqb N.eqb re (Ok (spec_dlsettings o rx2 rx1)))
  end.

Definition run_cases := run_with check.
