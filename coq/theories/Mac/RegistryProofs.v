(* Obligations over the registry dumped from the live code (gen/RegistryGen.v). *)
From Coq Require Import List NArith ZArith Bool Lia.
From LW Require Import Base.Outcome Base.Bytes Mac.Commands Mac.Spec Mac.Stream.
From LWGen Require Import RegistryGen.
Import ListNotations.
Open Scope N_scope.

Definition reg_entry_ok (e : (bool * N) * (Z * kind)) : bool :=
  let '((up, cid), (sz, k)) := e in
  match spec_reg_lookup spec_registry up cid with
  | Some k' => kind_eqb k k' && (sz =? Z.of_nat (byte_size (layout_of k)))%Z && (sz =? kind_size k)%Z
  | None => false
  end.

Definition spec_entry_ok (e : (bool * N) * kind) : bool :=
  let '((up, cid), k) := e in
  match reg_lookup builtin_registry up cid with
  | Some (sz, k') => kind_eqb k k'
  | None => false
  end.

(* every (direction, CID) of the live registry is the specification's command,
   with the size the layout table gives; and every specified command is registered *)
Lemma registry_matches_spec :
  forallb reg_entry_ok builtin_registry = true /\ forallb spec_entry_ok spec_registry = true.
Proof. split; vm_compute; reflexivity. Qed.

Lemma kind_eqb_eq a b : kind_eqb a b = true -> a = b.
Proof. destruct a, b; simpl; intros H; try discriminate; reflexivity. Qed.

Lemma reg_lookup_in r up cid v : reg_lookup r up cid = Some v -> In ((up, cid), v) r.
Proof.
  induction r as [|[[u c] w] r IH]; simpl; [discriminate|].
  destruct (Bool.eqb u up && (c =? cid)) eqn:E.
  - intros H; inversion H; subst. apply andb_true_iff in E as [E1 E2].
    apply eqb_prop in E1. apply N.eqb_eq in E2. subst. now left.
  - intros H. right. now apply IH.
Qed.

Theorem registry_complete up cid sz k :
  reg_lookup builtin_registry up cid = Some (sz, k) ->
  spec_reg_lookup spec_registry up cid = Some k /\
  sz = Z.of_nat (byte_size (layout_of k)) /\ sz = kind_size k.
Proof.
  intros H. apply reg_lookup_in in H.
  destruct registry_matches_spec as [H1 _]. rewrite forallb_forall in H1.
  specialize (H1 _ H). unfold reg_entry_ok in H1.
  destruct (spec_reg_lookup spec_registry up cid) as [k'|]; [|discriminate].
  apply andb_true_iff in H1 as [H1 H3]. apply andb_true_iff in H1 as [H1 H2].
  apply kind_eqb_eq in H1. subst k'. apply Z.eqb_eq in H2. apply Z.eqb_eq in H3. auto.
Qed.
