(* Correspondence cases for C05: the end-to-end exchange on the real PHYPayload
   methods (sender pipeline, receiver pipeline) and the receiver's MIC
   validation on tampered bytes / mismatching parameters.
   bit 0: model (LW.Sec.EndToEnd) differs from the observed behaviour;
   bit 1: the property fails on the observed behaviour:
     - pipeline: the frame is a valid data frame (spec_valid_data) but the
       receiver did not obtain exactly its commands and payload, or the
       model's receiver (proved equal to the specification transforms) does
       not obtain them from the bytes the implementation sent;
     - tamper: the validation result is not (carried MIC = specification MIC
       of the received bytes under the receiver's keys, counter, parameters
       and role), the specification MIC being computed from the raw bytes. *)
From Coq Require Import List NArith ZArith Bool.
From LW Require Export Base.Outcome Base.Bytes Crypto.AES Crypto.CMAC Mac.Commands Mac.Spec Mac.Stream
     Frame.Model Frame.Spec Sec.MIC Sec.MICSpec Sec.Encrypt Sec.EndToEnd.
From LWGen Require Import RegistryGen.
Import ListNotations.
Open Scope N_scope.

Inductive case :=
(* sender methods on frame f -> bytes; receiver methods on those bytes with full counter = FCnt of f *)
| CPipe (ver : macver) (k : keys) (prm : micparams) (f : phy) (o_tx : outcome (list N)) (o_rx : outcome rx_frame)
(* UnmarshalBinary(bs); FCnt := full; Validate{Uplink,Downlink}DataMIC by role [up] *)
| CTamper (ver : macver) (up : bool) (k : keys) (prm : micparams) (full : N) (bs : list N) (o : outcome bool)
| CCmac (k m o : list N).

Definition reg := builtin_registry.
Definition oeqb := outcome_eqb bytes_eqb.
Definition obeqb := outcome_eqb Bool.eqb.

Definition rx_eqb (a b : rx_frame) : bool :=
  match a, b with
  | RxBadMIC, RxBadMIC => true
  | RxFrame p, RxFrame q => phy_eqb p q
  | _, _ => false
  end.

Definition content_eqb (a b : content) : bool :=
  match a, b with
  | BadMIC, BadMIC => true
  | Content o1 p1 f1, Content o2 p2 f2 => items_eqb o1 o2 && option_eqb N.eqb p1 p2 && items_eqb f1 f2
  | _, _ => false
  end.

Definition sv (v : macver) : version := match v with LoRaWAN1_0 => V1_0 | LoRaWAN1_1 => V1_1 end.

(* the specification's view of received bytes: MHDR | DevAddr(4, LSB first) | FCtrl | FCnt(2) | ... | MIC(4) *)
Definition raw_spec_mic (ver : macver) (up : bool) (k : keys) (prm : micparams) (full : N) (bs : list N)
  : option (list N * list N * N) :=   (* (carried, specified, FCnt on the wire) *)
  let n := length bs in
  if (n <? 12)%nat then None else
  let msg := firstn (n - 4) bs in
  let carried := skipn (n - 4) bs in
  let da := rev (firstn 4 (skipn 1 bs)) in
  let a := N.testbit (nth 5 bs 0) 5 in
  let wire := le_val (firstn 2 (skipn 6 bs)) in
  Some (carried,
        (if up then spec_up_mic (sv ver) (fnwksint k) (snwksint k) (conf prm) (txdr prm) (txch prm) a da full msg
         else spec_down_mic (sv ver) (snwksint k) (conf prm) a da full msg),
        wire).

Definition check (c : case) : N :=
  match c with
  | CPipe ver k prm f o_tx o_rx =>
    let full := match pl f with PLMac m => fcnt (hdr m) | _ => 0 end in
    (* the model's (= specification's) receiver run on the bytes the implementation sent *)
    let rx := match o_tx with Ok bs => Some (receiver_frame reg ver k prm full bs) | _ => None end in
    code (oeqb (sender ver k prm f) o_tx
          && match rx with Some r => outcome_eqb rx_eqb r o_rx | None => true end)
         (if spec_valid_data reg f
          then is_ok o_tx
               && match o_rx with
                  | Ok (RxFrame q) => content_eqb (content_of_frame q) (commands_and_payload f)
                  | _ => false
                  end
               (* interoperability: a specification-conformant peer recovers the content from the sent bytes
                  (a sender and receiver that deviate in the same way do not hide each other) *)
               && match rx with
                  | Some (Ok (RxFrame q)) => content_eqb (content_of_frame q) (commands_and_payload f)
                  | _ => false
                  end
          else negb (is_panic o_tx) && negb (is_panic o_rx))
  | CTamper ver up k prm full bs o =>
    code (obeqb (rx_validate ver up k prm full bs) o)
         (match o with
          | Ok b =>
            match raw_spec_mic ver up k prm full bs with
            | Some (carried, specified, wire) =>
              (* a receiver's full counter extends the 16 bits on the wire; otherwise no claim *)
              (* and the specification's one-byte len(msg) field limits msg to 255 bytes *)
              if (full mod 65536 =? wire) && (length bs - 4 <? 256)%nat
              then Bool.eqb b (bytes_eqb carried specified) else true
            | None => false
            end
          | Err => true
          | _ => false
          end)
  | CCmac k m o => code (bytes_eqb (cmac k m) o) (Nat.eqb (length o) 16 && bytes_ok o)
  end.

Definition run_cases := run_with check.
