(* Correspondence cases for C18: the application-layer package models
   against the implementation, and the executable form of the property
   (round trip, reported size, specified wire layout, no panic; TS005 key
   derivations) evaluated on what the implementation returned. *)
From Coq Require Import List NArith ZArith Bool.
From LW Require Import Base.Outcome Base.Bytes App.Common App.Spec App.McKeys App.McKeysSpec.
From LW Require App.ClockSync App.Multicast App.FragCmds App.FwMgmt.
Import ListNotations.
Open Scope N_scope.

Inductive cmds :=
| CS (l : list ClockSync.command)
| MC (l : list Multicast.command)
| FR (l : list FragCmds.command)
| FW (l : list FwMgmt.command).

Inductive case :=
(* cs.MarshalBinary(); Size() of every command; and, when that succeeded,
   Commands.UnmarshalBinary(uplink, bytes) on a fresh value *)
| CStream (uplink : bool) (cs : cmds) (o_enc : outcome (list N)) (o_sizes : list nat)
          (o_dec : outcome cmds)
(* arbitrary bytes into Commands.UnmarshalBinary (single = false) or
   Command.UnmarshalBinary (single = true; result printed as a one-element list) *)
| CDecode (pkg : N) (uplink single : bool) (data : list N) (o : outcome cmds)
(* key (16 bytes), McAddr (4 array bytes): the five derivations of keys.go *)
| CKeys (key addr : list N) (o_root_gen o_root_app o_ke o_app_s o_net_s : outcome (list N)).

Definition cs_eq_dec : forall a b : ClockSync.payload, {a = b} + {a <> b}.
Proof. repeat decide equality. Defined.
Definition mc_eq_dec : forall a b : Multicast.payload, {a = b} + {a <> b}.
Proof. repeat decide equality. Defined.
Definition fr_eq_dec : forall a b : FragCmds.payload, {a = b} + {a <> b}.
Proof. repeat decide equality. Defined.
Definition fw_eq_dec : forall a b : FwMgmt.payload, {a = b} + {a <> b}.
Proof. repeat decide equality. Defined.

Definition cmd_eqb {P} (dec : forall a b : P, {a = b} + {a <> b}) (x y : N * option P) : bool :=
  (fst x =? fst y) &&
  match snd x, snd y with
  | None, None => true
  | Some p, Some q => if dec p q then true else false
  | _, _ => false
  end.

Definition cmds_eqb (x y : cmds) : bool :=
  match x, y with
  | CS a, CS b => list_eqb (cmd_eqb cs_eq_dec) a b
  | MC a, MC b => list_eqb (cmd_eqb mc_eq_dec) a b
  | FR a, FR b => list_eqb (cmd_eqb fr_eq_dec) a b
  | FW a, FW b => list_eqb (cmd_eqb fw_eq_dec) a b
  | _, _ => false
  end.

Definition oeqb := outcome_eqb bytes_eqb.
Definition ceqb := outcome_eqb cmds_eqb.
Definition nats_eqb := list_eqb Nat.eqb.

Definition m_enc (cs : cmds) : outcome (list N) :=
  match cs with
  | CS l => ClockSync.cmds_enc l
  | MC l => Multicast.cmds_enc l
  | FR l => FragCmds.cmds_enc l
  | FW l => FwMgmt.cmds_enc l
  end.
Definition m_sizes (cs : cmds) : list nat :=
  match cs with
  | CS l => map ClockSync.cmd_size l
  | MC l => map Multicast.cmd_size l
  | FR l => map FragCmds.cmd_size l
  | FW l => map FwMgmt.cmd_size l
  end.
(* decode in the package of [like] *)
Definition m_dec (like : cmds) (up : bool) (data : list N) : outcome cmds :=
  match like with
  | CS _ => omap CS (ClockSync.cmds_dec up data)
  | MC _ => omap MC (Multicast.cmds_dec up data)
  | FR _ => omap FR (FragCmds.cmds_dec up data)
  | FW _ => omap FW (FwMgmt.cmds_dec up data)
  end.
Definition m_dec1 (like : cmds) (up : bool) (data : list N) : outcome cmds :=
  match like with
  | CS _ => omap (fun c => CS [c]) (ClockSync.cmd_dec up data)
  | MC _ => omap (fun c => MC [c]) (Multicast.cmd_dec up data)
  | FR _ => omap (fun c => FR [c]) (FragCmds.cmd_dec up data)
  | FW _ => omap (fun c => FW [c]) (FwMgmt.cmd_dec up data)
  end.
Definition wf (up : bool) (cs : cmds) : bool :=
  match cs with
  | CS l => CSW.wf_stream up l
  | MC l => MCW.wf_stream up l
  | FR l => FRW.wf_stream up l
  | FW l => FWW.wf_stream up l
  end.
Definition layout_bytes (cs : cmds) : list N :=
  match cs with
  | CS l => CSW.stream_bytes l
  | MC l => MCW.stream_bytes l
  | FR l => FRW.stream_bytes l
  | FW l => FWW.stream_bytes l
  end.
(* every command well formed on its own (the position of a DataFragment is not looked at) *)
Definition wfc (up : bool) (cs : cmds) : bool :=
  match cs with
  | CS l => forallb (CSW.wf_cmd up) l
  | MC l => forallb (MCW.wf_cmd up) l
  | FR l => forallb (FRW.wf_cmd up) l
  | FW l => forallb (FWW.wf_cmd up) l
  end.
(* packages by number: 0 clocksync, 1 multicastsetup, 2 fragmentation, 3 firmwaremanagement *)
Definition pkg_tag (pkg : N) : cmds :=
  match pkg with 0 => CS [] | 1 => MC [] | 2 => FR [] | _ => FW [] end.

Definition check (c : case) : N :=
  match c with
  | CStream up cs o_enc o_sizes o_dec =>
    code (oeqb (m_enc cs) o_enc && nats_eqb (m_sizes cs) o_sizes
          && match o_enc with
             | Ok bs => ceqb (m_dec cs up bs) o_dec
             | _ => true
             end)
         (negb (is_panic o_enc)
          && (if wfc up cs then
                match o_enc with
                | Ok bs => Nat.eqb (length bs) (fold_right Nat.add O o_sizes)
                           && bytes_eqb bs (layout_bytes cs)
                           && ceqb o_dec (Ok cs)
                | _ => false
                end
              else true))
  | CDecode pkg up single data o =>
    code (ceqb ((if single then m_dec1 else m_dec) (pkg_tag pkg) up data) o) (negb (is_panic o))
  | CKeys key addr o_gen o_app o_ke o_apps o_nets =>
    code (oeqb (mc_root_key_for_gen_app_key key) o_gen
          && oeqb (mc_root_key_for_app_key key) o_app
          && oeqb (mc_ke_key key) o_ke
          && oeqb (mc_app_s_key key addr) o_apps
          && oeqb (mc_net_s_key key addr) o_nets)
         (oeqb o_gen (Ok (spec_root_gen key)) && oeqb o_app (Ok (spec_root_app key))
          && oeqb o_ke (Ok (spec_ke key))
          && oeqb o_apps (Ok (spec_app_s key (be_val addr)))
          && oeqb o_nets (Ok (spec_net_s key (be_val addr))))
  end.

Definition run_cases := run_with check.
