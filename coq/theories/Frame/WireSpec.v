(* C06, frame part: layouts of MHDR, FCtrl, DLSettings, FHDR, the join payloads
   and the rejoin payloads as bit-field tables (LoRaWAN 1.0.x / 1.1 sections 4 and 6),
   interpreted by the same layout interpreter as the MAC commands (Mac/Spec.v).
   Identifiers (EUI64, DevAddr, NetID) are numbers: the big-endian value of the
   Go array, sent little-endian. *)
From Coq Require Import List NArith ZArith Bool.
From LW Require Import Base.Outcome Base.Bytes Mac.Commands Mac.Spec Mac.Stream Frame.Model.
Import ListNotations.
Open Scope N_scope.

Definition L_MHDR : layout := [F 2 (* Major *); RFU 3; F 3 (* MType *)].
Definition L_FCtrl : layout := [F 4 (* FOptsLen *); F 1 (* FPending / ClassB *); F 1 (* ACK *); F 1 (* ADRACKReq *); F 1 (* ADR *)].
Definition L_DLSettings : layout := [F 4 (* RX2DataRate *); F 3 (* RX1DROffset *); F 1 (* OptNeg (RFU in 1.0) *)].
Definition L_FHDR_fixed : layout := [F 32 (* DevAddr *); F 8 (* FCtrl *); F 16 (* FCnt *)].
Definition L_JoinRequest : layout := [F 64 (* JoinEUI *); F 64 (* DevEUI *); F 16 (* DevNonce *)].
Definition L_JoinAccept : layout := [F 24 (* JoinNonce *); F 24 (* NetID *); F 32 (* DevAddr *); F 8 (* DLSettings *); F 8 (* RxDelay *)].
Definition L_Rejoin02 : layout := [F 8 (* RejoinType *); F 24 (* NetID *); F 64 (* DevEUI *); F 16 (* RJcount0 *)].
Definition L_Rejoin1 : layout := [F 8 (* RejoinType *); F 64 (* JoinEUI *); F 64 (* DevEUI *); F 16 (* RJcount1 *)].
(* CFList: 5 x 24-bit frequencies / 100 Hz, or up to 7 16-bit masks of which the last is RFU; then the type octet *)
Definition L_CFListChannels : layout := [F 24; F 24; F 24; F 24; F 24; F 8 (* CFListType = 0 *)].
Definition L_CFListMasks : layout := [F 16; F 16; F 16; F 16; F 16; F 16; RFU 16; RFU 8; F 8 (* CFListType = 1 *)].

Definition b2f (b : bool) : N := if b then 1 else 0.
Definition f2b (n : N) : bool := negb (n =? 0).
Definition id_val (a : list N) : N := be_val a.       (* Go array order = most significant byte first *)

Definition spec_mhdr (mt mj : N) : N := pack L_MHDR [mj; mt].
Definition spec_fctrl (c : fctrl) : N :=
  pack L_FCtrl [foptslen c; b2f (classb c || fpending c); b2f (ack c); b2f (adrackreq c); b2f (adr c)].
Definition spec_fctrl_decode (b : N) : fctrl :=
  let l := unpack L_FCtrl b in
  mkFCtrl (f2b (nth 4 l 0)) (f2b (nth 3 l 0)) (f2b (nth 2 l 0)) (f2b (nth 1 l 0)) (f2b (nth 1 l 0)) (nth 0 l 0).
Definition spec_dlsettings (optneg : bool) (rx2 rx1 : N) : N := pack L_DLSettings [rx2; rx1; b2f optneg].

(* ---- the specified bytes of the join / rejoin payloads and of the CFList ---- *)
Fixpoint mask_num (m : list bool) : N :=
  match m with [] => 0 | b :: m' => b2f b + 2 * mask_num m' end.

Definition spec_cflist (l : cflist) : option (list N) :=
  match cf_payload l with
  | CFPChannels chs =>
    if Nat.eqb (length chs) 5 && forallb (fun f => (f mod 100 =? 0) && (f / 100 <? 2 ^ 24)) chs && (cf_type l =? 0)
    then Some (spec_encode L_CFListChannels (map (fun f => f / 100) chs ++ [0])) else None
  | CFPMasks ms =>
    if (length ms <=? 6)%nat && forallb (fun m => Nat.eqb (length m) 16) ms && (cf_type l =? 1)
    then Some (spec_encode L_CFListMasks (firstn 6 (map mask_num ms ++ repeat 0 6) ++ [1])) else None
  | CFPNil => None
  end.

Definition id_ok' (k : nat) (a : list N) : bool := Nat.eqb (length a) k && forallb (fun b => b <? 256) a.

Definition frame_spec_bytes (p : payload) : option (list N) :=
  match p with
  | PLJoinRequest je de dn =>
    if id_ok' 8 je && id_ok' 8 de && (dn <? 65536)
    then Some (spec_encode L_JoinRequest [id_val je; id_val de; dn]) else None
  | PLRejoin02 ty nid de rc =>
    if ((ty =? 0) || (ty =? 2)) && id_ok' 3 nid && id_ok' 8 de && (rc <? 65536)
    then Some (spec_encode L_Rejoin02 [ty; id_val nid; id_val de; rc]) else None
  | PLRejoin1 ty je de rc =>
    if (ty =? 1) && id_ok' 8 je && id_ok' 8 de && (rc <? 65536)
    then Some (spec_encode L_Rejoin1 [ty; id_val je; id_val de; rc]) else None
  | PLJoinAccept jn nid da o rx2 rx1 rxd cfl =>
    if (jn <? 2 ^ 24) && id_ok' 3 nid && id_ok' 4 da && (rx2 <? 16) && (rx1 <? 8) && (rxd <? 16)
    then
      let head := spec_encode L_JoinAccept [jn; id_val nid; id_val da; spec_dlsettings o rx2 rx1; rxd] in
      match cfl with
      | None => Some head
      | Some l => match spec_cflist l with Some c => Some (head ++ c) | None => None end
      end
    else None
  | _ => None
  end.

(* FHDR: DevAddr | FCtrl | FCnt (16 LSB) | FOpts; FOptsLen announces the FOpts bytes that follow *)
Definition spec_fhdr (h : fhdr) (opts : list N) : list N :=
  let c := fc h in
  let cb := spec_fctrl (mkFCtrl (adr c) (adrackreq c) (ack c) (fpending c) (classb c) (N.of_nat (length opts))) in
  spec_encode L_FHDR_fixed [id_val (devaddr h); cb; fcnt h mod 65536] ++ opts.
