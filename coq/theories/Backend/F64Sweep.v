(* Kernel-computed sweeps over the primitive-float model (no real analysis,
   no axioms about floats: the kernel evaluates the IEEE-754 operations). *)
From Coq Require Import ZArith Floats Bool Lia List.
From LW Require Import Backend.F64.
Import ListNotations.
Open Scope Z_scope.

Fixpoint all_from (f : Z -> bool) (a : Z) (n : nat) : bool :=
  match n with
  | O => true
  | S n' => if f a then all_from f (a + 1) n' else false
  end.

Lemma all_from_spec f : forall n a, all_from f a n = true ->
  forall z, a <= z < a + Z.of_nat n -> f z = true.
Proof.
  induction n as [|n IH]; intros a H z Hz; [lia|].
  cbn [all_from] in H. destruct (f a) eqn:E; [|discriminate].
  destruct (Z.eq_dec z a) as [->|Hne]; [exact E|].
  apply (IH (a + 1) H). lia.
Qed.

Definition rt_ok (rt : Z -> option Z) (z : Z) : bool :=
  match rt z with Some q => q =? z | None => false end.

Lemma rt_ok_eq rt z : rt_ok rt z = true -> rt z = Some z.
Proof. unfold rt_ok. destruct (rt z) as [q|]; [|discriminate]. intros H. apply Z.eqb_eq in H. now subst. Qed.

(* every percentage -1000 .. 100000 survives (in particular 0..100) *)
Lemma pct_sweep : all_from (rt_ok pct_rt) (-1000) (N.to_nat 101001) = true.
Proof. vm_compute. reflexivity. Qed.

Theorem pct_exact p : -1000 <= p <= 100000 -> pct_rt p = Some p.
Proof. intros H. apply rt_ok_eq. apply (all_from_spec _ _ _ pct_sweep). lia. Qed.

(* every multiple of 0.1 MHz up to 2^32 Hz, and its two neighbours *)
Definition step_ok (k : Z) : bool :=
  let f := k * 100000 in
  rt_ok freq_rt f && rt_ok freq_rt (f + 1) && (if k =? 0 then true else rt_ok freq_rt (f - 1)).

Lemma freq_step_sweep : all_from step_ok 0 (N.to_nat 42949) = true.
Proof. vm_compute. reflexivity. Qed.

Theorem freq_steps_exact k d : 0 <= k < 42949 -> -1 <= d <= 1 -> 0 <= k * 100000 + d ->
  freq_rt (k * 100000 + d) = Some (k * 100000 + d).
Proof.
  intros Hk Hd Hnn. pose proof (all_from_spec _ _ _ freq_step_sweep k ltac:(lia)) as H.
  unfold step_ok in H. apply andb_true_iff in H as [H H3]. apply andb_true_iff in H as [H1 H2].
  apply rt_ok_eq.
  assert (Hc : d = 0 \/ d = 1 \/ d = -1) by lia. destruct Hc as [->|[->| ->]].
  - rewrite Z.add_0_r. exact H1.
  - exact H2.
  - destruct (Z.eqb_spec k 0) as [->|_]; [lia|]. exact H3.
Qed.

(* the conversion before the repair (truncation) lost these values *)
Theorem orig_refuted :
  pct_rt_orig 29 = Some 28 /\ pct_rt_orig 57 = Some 56 /\ pct_rt_orig 58 = Some 57 /\
  freq_rt_orig 128200000 = Some 128199999 /\
  filter (fun p => negb (rt_ok pct_rt_orig p)) (map Z.of_nat (seq 0 101)) = [29; 57; 58].
Proof. vm_compute. repeat split; reflexivity. Qed.
