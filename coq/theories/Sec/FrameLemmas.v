(* Facts about the frame serialisation model (LW.Frame.Model) needed by the
   end-to-end proofs of C05: marshalling of item lists, invariance of
   MACPayload.MarshalBinary under the wire view, byte ranges of the output. *)
From Coq Require Import List NArith ZArith Bool Lia Arith.
From Coq Require Import ZifyN ZifyNat ZifyBool.
From LW Require Import Base.Outcome Base.Bytes Crypto.AESInv Mac.Commands Mac.Spec Mac.Stream Frame.Model Frame.Spec.
Import ListNotations.
Open Scope N_scope.
Ltac Zify.zify_post_hook ::= Z.div_mod_to_equations.

Lemma items_marshal_encode its : items_marshal its = encode_cmds its.
Proof.
  induction its as [|[c p|d] rest IH]; [reflexivity| |]; cbn [items_marshal encode_cmds item_marshal]; rewrite IH.
  - reflexivity.
  - cbn [bind]. reflexivity.
Qed.

Lemma frm_marshal_items port its b : frm_marshal port its = Ok b -> items_marshal its = Ok b.
Proof.
  revert b; induction its as [|it rest IH]; intros b H; [exact H|].
  cbn [frm_marshal items_marshal] in *.
  destruct it as [c p|d].
  - destruct port as [[|q]|]; cbn [bind] in H; try discriminate.
    cbn [item_marshal]. destruct (cmd_marshal c p) as [x| | |]; cbn [bind] in *; try discriminate.
    destruct (frm_marshal (Some 0) rest) as [y| | |]; cbn [bind] in *; try discriminate.
    rewrite (IH y eq_refl). exact H.
  - cbn [item_marshal bind] in *.
    destruct (frm_marshal port rest) as [y| | |]; cbn [bind] in *; try discriminate.
    rewrite (IH y eq_refl). exact H.
Qed.

Lemma frm_marshal_port0 its : frm_marshal (Some 0) its = items_marshal its.
Proof.
  induction its as [|[c p|d] rest IH]; [reflexivity| |]; cbn [frm_marshal items_marshal item_marshal]; now rewrite IH.
Qed.

Lemma frm_marshal_nomac port its : existsb is_mac its = false -> frm_marshal port its = items_marshal its.
Proof.
  induction its as [|[c p|d] rest IH]; intros H; [reflexivity|discriminate|].
  cbn [existsb is_mac orb] in H. cbn [frm_marshal items_marshal item_marshal]. now rewrite IH.
Qed.

Lemma items_marshal_single e : items_marshal [IData e] = Ok e.
Proof. cbn. now rewrite app_nil_r. Qed.

Lemma frm_marshal_single port e : frm_marshal port [IData e] = Ok e.
Proof. cbn. now rewrite app_nil_r. Qed.

Lemma items_marshal_nomac_ok its :
  existsb is_mac its = false -> forallb cmd_valid its = true ->
  exists b, items_marshal its = Ok b /\ Forall byte b.
Proof.
  induction its as [|[c p|d] rest IH]; intros H Hv.
  - exists []. split; [reflexivity|constructor].
  - discriminate.
  - cbn [existsb is_mac orb] in H. cbn [forallb cmd_valid] in Hv. apply andb_true_iff in Hv as [Hd Hr].
    destruct (IH H Hr) as (b & Hb & Hbb). exists (d ++ b). cbn [items_marshal item_marshal bind]. rewrite Hb. cbn [bind].
    split; [reflexivity|]. apply Forall_app. split; [now apply bytes_ok_Forall|exact Hbb].
Qed.

Lemma le_bytes2_mod x : le_bytes 2 (x mod 65536) = le_bytes 2 x.
Proof. cbn [le_bytes]. f_equal; [lia|]. f_equal. lia. Qed.

Lemma le_bytes2_congr x y : x mod 65536 = y mod 65536 -> le_bytes 2 x = le_bytes 2 y.
Proof. intros H. now rewrite <- (le_bytes2_mod x), H, le_bytes2_mod. Qed.

(* ---- the wire view of a MACPayload marshals to the same bytes ---- *)
Definition wire_mac (fc' : N) (m : macpayload) : macpayload :=
  let h := hdr m in
  let c := fc h in
  let cb := classb c || fpending c in
  mkMAC (mkFHDR (devaddr h)
                (mkFCtrl (adr c) (adrackreq c) (ack c) cb cb (N.of_nat (length (items_bytes (fopts h)))))
                fc' (wire_items (fopts h)))
        (fport m) (wire_items (frm m)).

Lemma wire_view_mac p m :
  pl p = PLMac m -> wire_view p = mkPHY (mtype p) (major p) (PLMac (wire_mac (fcnt (hdr m) mod 65536) m)) (mic p).
Proof. intros H. unfold wire_view. rewrite H. reflexivity. Qed.

Lemma wire_items_marshal its b :
  items_marshal its = Ok b -> items_marshal (wire_items its) = Ok b /\ (wire_items its = [] <-> b = []).
Proof.
  intros H. unfold wire_items, items_bytes. rewrite H. destruct b as [|x b].
  - split; [reflexivity|]. split; reflexivity.
  - split; [apply items_marshal_single|]. split; discriminate.
Qed.

Lemma fctrl_marshal_wire c n :
  fctrl_marshal (mkFCtrl (adr c) (adrackreq c) (ack c) (classb c || fpending c) (classb c || fpending c) n)
  = fctrl_marshal (mkFCtrl (adr c) (adrackreq c) (ack c) (fpending c) (classb c) n).
Proof. unfold fctrl_marshal. cbn [adr adrackreq ack fpending classb foptslen]. now rewrite orb_diag. Qed.

Lemma mac_marshal_wire m fc' b :
  fc' mod 65536 = fcnt (hdr m) mod 65536 -> mac_marshal m = Ok b -> mac_marshal (wire_mac fc' m) = Ok b.
Proof.
  intros Hfc. unfold mac_marshal, fhdr_marshal.
  destruct (items_marshal (fopts (hdr m))) as [ob| | |] eqn:Ho; cbn [bind]; try discriminate.
  destruct (wire_items_marshal _ _ Ho) as [Hwo Hwe].
  cbn [wire_mac hdr fopts fc devaddr fcnt fport frm adr adrackreq ack fpending classb].
  rewrite Hwo. cbn [bind].
  destruct (15 <? N.of_nat (length ob)) eqn:E15; [discriminate|].
  rewrite fctrl_marshal_wire. rewrite (le_bytes2_congr _ _ Hfc).
  destruct (fctrl_marshal _) as [cb| | |]; cbn [bind]; try discriminate.
  destruct (fport m) as [q|].
  - destruct (negb (Nat.eqb (length (fopts (hdr m))) 0) && (q =? 0)) eqn:Ec; [discriminate|].
    assert (Ec' : negb (Nat.eqb (length (wire_items (fopts (hdr m)))) 0) && (q =? 0) = false).
    { destruct (q =? 0) eqn:Eq; [|now rewrite andb_false_r].
      rewrite andb_true_r in *. apply negb_false_iff in Ec. apply Nat.eqb_eq in Ec.
      destruct (fopts (hdr m)); [reflexivity|discriminate]. }
    rewrite Ec'.
    destruct (frm_marshal (Some q) (frm m)) as [fb| | |] eqn:Ef; cbn [bind]; try discriminate.
    intros [= <-]. apply frm_marshal_items in Ef.
    unfold wire_items at 1, items_bytes. rewrite Ef. destruct fb as [|x fb].
    + reflexivity.
    + rewrite frm_marshal_single. reflexivity.
  - destruct (frm m) eqn:Ef; [|discriminate]. intros [= <-]. reflexivity.
Qed.

(* ---- byte ranges ---- *)
Lemma lor_lt_pow2 a b k : a < 2 ^ k -> b < 2 ^ k -> N.lor a b < 2 ^ k.
Proof.
  intros Ha Hb.
  destruct (N.eq_dec (N.lor a b) 0) as [->|Hn]; [apply N.neq_0_lt_0, N.pow_nonzero; lia|].
  apply N.log2_lt_pow2; [lia|].
  rewrite N.log2_lor. apply N.max_lub_lt.
  - destruct (N.eq_dec a 0) as [->|Ha0]; [|now apply N.log2_lt_pow2; [lia|]].
    destruct (N.eq_dec k 0) as [->|Hk]; [|cbn; lia].
    cbn in Hb. assert (b = 0) by lia. subst. now cbn in Hn.
  - destruct (N.eq_dec b 0) as [->|Hb0]; [|now apply N.log2_lt_pow2; [lia|]].
    destruct (N.eq_dec k 0) as [->|Hk]; [|cbn; lia].
    cbn in Ha. assert (a = 0) by lia. subst. now cbn in Hn.
Qed.

Lemma lor_byte a b : a < 256 -> b < 256 -> N.lor a b < 256.
Proof. apply (lor_lt_pow2 a b 8). Qed.

Lemma fctrl_marshal_byte c cb : fctrl_marshal c = Ok cb -> cb < 256.
Proof.
  unfold fctrl_marshal. destruct (15 <? foptslen c); [discriminate|]. intros [= <-].
  assert (HL : N.land (foptslen c) 15 < 16)
    by (change 15 with (N.ones 4); rewrite N.land_ones; apply N.mod_lt; cbn; lia).
  repeat apply lor_byte; try lia.
  - destruct (adr c); lia.
  - destruct (adrackreq c); lia.
  - destruct (ack c); lia.
  - destruct (classb c || fpending c); lia.
Qed.

Lemma mhdr_byte mt mj : mhdr_marshal mt mj < 256.
Proof.
  unfold mhdr_marshal, shl8. apply lor_byte; [apply N.mod_lt; lia|].
  change 3 with (N.ones 2). rewrite N.land_ones. apply N.lt_le_trans with (2 ^ 2); [apply N.mod_lt; cbn; lia|cbn; lia].
Qed.

Lemma Forall_byte_rev l : Forall byte l -> Forall byte (rev l).
Proof. apply Forall_rev. Qed.

Lemma mac_marshal_bytes m b ob :
  mac_marshal m = Ok b ->
  Forall byte (devaddr (hdr m)) -> items_marshal (fopts (hdr m)) = Ok ob -> Forall byte ob ->
  (forall q, fport m = Some q -> q < 256) ->
  (forall fb, items_marshal (frm m) = Ok fb -> Forall byte fb) ->
  Forall byte b.
Proof.
  intros H Hda Ho Hob Hq Hf. revert H. unfold mac_marshal, fhdr_marshal. rewrite Ho. cbn [bind].
  destruct (15 <? N.of_nat (length ob)); [discriminate|].
  destruct (fctrl_marshal _) as [cb| | |] eqn:Ecb; cbn [bind]; try discriminate.
  apply fctrl_marshal_byte in Ecb.
  assert (Hh : Forall byte (rev (devaddr (hdr m)) ++ [cb] ++ le_bytes 2 (fcnt (hdr m)) ++ ob)).
  { apply Forall_app; split; [now apply Forall_byte_rev|].
    apply Forall_app; split; [constructor; [exact Ecb|constructor]|].
    apply Forall_app; split; [apply le_bytes_ok|exact Hob]. }
  destruct (fport m) as [q|].
  - destruct (negb (Nat.eqb (length (fopts (hdr m))) 0) && (q =? 0)); [discriminate|].
    destruct (frm_marshal (Some q) (frm m)) as [fb| | |] eqn:Ef; cbn [bind]; try discriminate.
    intros [= <-]. apply frm_marshal_items in Ef.
    apply Forall_app; split; [exact Hh|]. cbn [app]. constructor; [now apply Hq|now apply Hf].
  - destruct (frm m); [|discriminate]. intros [= <-]. exact Hh.
Qed.

Lemma Forall_take {A} (P : A -> Prop) n l : Forall P l -> Forall P (firstn n l).
Proof. intros H. revert n; induction H; intros [|n]; simpl; constructor; auto. Qed.
Lemma Forall_drop {A} (P : A -> Prop) n l : Forall P l -> Forall P (skipn n l).
Proof. intros H. revert n; induction H; intros [|n]; simpl; auto. Qed.
