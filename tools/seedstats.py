#!/usr/bin/env python3
"""Tallies seeded/*/meta.json: how each archived seed is reported by the committed machinery (DESIGN.md section 11)."""
import json, glob, collections
c = collections.Counter(); neigh = []; nfi = []; nc = []; first = collections.defaultdict(collections.Counter)
for d in sorted(glob.glob('/verif/seeded/*/meta.json')):
    m = json.load(open(d)); sid = d.split('/')[-2]
    cl = m['confirmed_by_lead']
    first[m['round']][cl.get('own_check_first_run', 'caught')] += 1
    if not m.get('claimed', True):
        nc.append(sid); continue
    own = [x for x in cl['checks'] if x['check'] == m['property']]
    oth = [x for x in cl['checks'] if x['check'] != m['property']]
    if any(x['violation'] and not x['no_failing_input_found'] for x in own):
        c['own check, failing input'] += 1
    elif [x for x in oth if x['violation'] and not x['no_failing_input_found']]:
        c['neighbouring check only, failing input'] += 1
        neigh.append(sid + " by " + "/".join(x['check'] for x in oth if x['violation'] and not x['no_failing_input_found']))
    elif any(x['violation'] for x in cl['checks']):
        c['obligation only'] += 1; nfi.append(sid)
    else:
        c['MISSED'] += 1; print("MISSED", sid)
print(dict(c)); print("neighbour only:", ", ".join(neigh)); print("obligation only:", nfi); print("not claimed:", nc)
for r in sorted(first):
    miss = sum(v for k, v in first[r].items() if k != 'caught')
    print("round", r, "not caught with an input by the own check at first:", miss, dict(first[r]))
