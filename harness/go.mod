module verifharness

go 1.15

require github.com/brocaar/lorawan v0.0.0

replace github.com/brocaar/lorawan => /repo
