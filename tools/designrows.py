#!/usr/bin/env python3
"""Appends to the table of DESIGN.md section 6 one row per known/*.json entry that has no row yet (text from the entry)."""
import json, glob, re
p = '/verif/DESIGN.md'
d = open(p).read()
a = d.index("## 6."); b = d.index("## 7.")
sec = d[a:b]
rows = []
for f in sorted(glob.glob('/verif/known/C*.json')):
    for e in json.load(open(f))['findings']:
        if re.search(r"^\| " + re.escape(e['id']) + r"[ /|]", sec, re.M):
            continue
        what = e['what'].replace("|", "/").replace("\n", " ")
        disp = ("fix: " + e.get('commit', '')[:7]) if e['status'] == 'fixed' else "known " + e['id']
        rows.append("| %s | %s | %s | %s `%s` |" % (e['id'], what, disp, e['property'], e['key_regex'].replace("|", "¦")))
lines = sec.rstrip("\n").split("\n")
last = max(i for i, l in enumerate(lines) if l.startswith("| C"))
lines[last + 1:last + 1] = rows
open(p, 'w').write(d[:a] + "\n".join(lines) + "\n\n" + d[b:])
print("added", len(rows))
