(* MODEL of the band lookup code: band/band.go and the per-band methods in
   band/band_*.go, function by function, over the tables of Band/Types.v
   (instantiated with the tables dumped from the live code, LWGen.BandGen).
   Go failure modes are values: returned error = Err, run-time panic (index
   out of range) = Panic.  Go `%` is Z.rem, Go `/` on integers is Z.quot.
   No proofs in this file. *)
From Coq Require Import List ZArith Bool String.
From LW Require Import Base.Outcome Band.Types.
Import ListNotations.
Open Scope Z_scope.

Definition latest : string := "latest".

(* ---- band.go ------------------------------------------------------------ *)

(* func (b *band) GetDataRate(dr int)  band.go:281-288 *)
Definition get_data_rate (t : tables) (dr : Z) : outcome data_rate :=
  match zfind dr (t_drs t) with
  | Some d => Ok d
  | None => Err
  end.

(* func (b *band) GetDataRateIndex(uplink bool, dataRate DataRate)  band.go:263-279.
   The Go code ranges over a map (unspecified order) and returns the first
   entry whose direction flag is set and whose six parameters are equal.
   [data_rate_matches] lists every index the loop could return (ascending);
   the model returns the first.  TablesProofs.dr_params_unique shows the
   list never has two elements for the dumped tables, so the order of the
   Go iteration is irrelevant. *)
Definition dr_matches (uplink : bool) (q d : data_rate) : bool :=
  (if uplink then dr_up d else dr_down d) && data_rate_params_eqb d q.

Definition data_rate_matches (t : tables) (uplink : bool) (q : data_rate) : list Z :=
  map fst (filter (fun e => dr_matches uplink q (snd e)) (t_drs t)).

Definition get_data_rate_index (t : tables) (uplink : bool) (q : data_rate) : outcome Z :=
  match data_rate_matches t uplink q with
  | i :: _ => Ok i
  | [] => Err
  end.

(* func (b *band) GetMaxPayloadSizeForDataRateIndex  band.go:290-312.
   m[key] with fallback to m["latest"], at both map levels: *)
Definition sfind_or_latest {A} (k : string) (m : smap A) : option A :=
  match sfind k m with
  | Some v => Some v
  | None => sfind latest m
  end.

(* the DR -> size map the (version, revision) pair resolves to *)
Definition select_size_table (t : tables) (ver rev : string) : option size_table :=
  match sfind_or_latest ver (t_maxpl t) with
  | None => None
  | Some revmap => sfind_or_latest rev revmap
  end.

Definition get_max_payload (t : tables) (ver rev : string) (dr : Z) : outcome (Z * Z) :=
  match select_size_table t ver rev with
  | None => Err            (* "no max payload-size for ... or latest" *)
  | Some drmap =>
    match zfind dr drmap with
    | Some ps => Ok ps
    | None => Err          (* "invalid data-rate" *)
    end
  end.

(* func (b *band) GetRX1DataRateIndex  band.go:314-325 (after the C12-1 fix:
   `if rx1DROffset < 0 || rx1DROffset > len(offsetSlice)-1 { return error }`) *)
Definition generic_rx1_dr (t : tables) (dr off : Z) : outcome Z :=
  match zfind dr (t_rx1 t) with
  | None => Err
  | Some row =>
    if (off <? 0) || (off >? zlen row - 1) then Err
    else zindex row off
  end.

(* func (b *band) GetTXPowerOffset  band.go:327-332
   (`if txPower < 0 || txPower > len(b.txPowerOffsets)-1 { error }`, the lower
   bound was added by the C15-1 fix; this check never probes negative indices) *)
Definition get_tx_power_offset (t : tables) (i : Z) : outcome Z :=
  if (i <? 0) || (i >? zlen (t_txpow t) - 1) then Err else zindex (t_txpow t) i.

(* func (b *band) GetUplinkChannel / GetDownlinkChannel  band.go:352-358, 395-400 *)
Definition get_uplink_channel (t : tables) (i : Z) : outcome channel :=
  if (i <? 0) || (i >? zlen (t_up t) - 1) then Err else zindex (t_up t) i.
Definition get_downlink_channel (t : tables) (i : Z) : outcome channel :=
  if (i <? 0) || (i >? zlen (t_down t) - 1) then Err else zindex (t_down t) i.

(* func (b *band) GetUplinkChannelIndex(frequency, defaultChannel)  band.go:360-368 *)
Fixpoint uplink_channel_index_from (chs : list channel) (i : Z) (f : Z) (default : bool) : outcome Z :=
  match chs with
  | [] => Err
  | c :: chs' =>
    if (f =? ch_freq c) && negb (Bool.eqb (ch_custom c) default) then Ok i
    else uplink_channel_index_from chs' (i + 1) f default
  end.
Definition get_uplink_channel_index (t : tables) (f : Z) (default : bool) : outcome Z :=
  uplink_channel_index_from (t_up t) 0 f default.

(* func (b *band) GetEnabledUplinkDataRates  band.go:470-486: the union of
   [MinDR, MaxDR] over ALL uplink channels (enabled or not), sorted *)

Fixpoint insert_sorted (x : Z) (l : list Z) : list Z :=
  match l with
  | [] => [x]
  | y :: l' => if x <? y then x :: l else if x =? y then l else y :: insert_sorted x l'
  end.
Definition sort_uniq (l : list Z) : list Z := fold_right insert_sorted [] l.

Definition get_enabled_uplink_data_rates (t : tables) : list Z :=
  sort_uniq (flat_map (fun c => zrange (ch_min c) (ch_max c)) (t_up t)).

(* func (b *band) AddChannel(frequency, minDR, maxDR)  band.go (after the fixes 7d23ee7, a79c4b5):
   refused when the band does not support extra channels, when minDR / maxDR / any index
   between them is not an uplink data-rate of the band or minDR > maxDR, and when the frequency
   is not one NewChannelReq can carry (multiple of 100 Hz fitting 24 bits; from 2.4 GHz on half
   the frequency must fit and it must be a multiple of 200 Hz; 0 passes).  Otherwise ONE channel
   value (custom, enabled unless the frequency is 0) is appended to both the uplink and the
   downlink channels.  Frequencies are uint32 (callers supply 0 <= f < 2^32). *)
Definition set_channels (t : tables) (u d : list channel) : tables :=
  mkTables (t_extra t) (t_cfmin t) (t_cfmax t) (t_drs t) (t_maxpl t) (t_rx1 t) u d (t_txpow t).

Definition dr_is_uplink (t : tables) (dr : Z) : bool :=
  match zfind dr (t_drs t) with Some d => dr_up d | None => false end.

(* the endpoints are tested first: the loop over the range only runs between two data-rate indices *)
Definition add_dr_range_ok (t : tables) (mn mx : Z) : bool :=
  if dr_is_uplink t mn && dr_is_uplink t mx then
    if mn >? mx then false else forallb (dr_is_uplink t) (zrange mn mx)
  else false.

Definition add_frequency_ok (f : Z) : bool :=
  let freq := if f >=? 2400000000 then Z.quot f 2 else f in
  negb (Z.quot freq 100 >=? 16777216)
  && (Z.rem f 100 =? 0)
  && negb ((f >=? 2400000000) && negb (Z.rem f 200 =? 0)).

Definition add_channel (t : tables) (f mn mx : Z) : outcome tables :=
  if negb (t_extra t) then Err
  else if negb (add_dr_range_ok t mn mx) then Err
  else if negb (add_frequency_ok f) then Err
  else let c := mkCh f mn mx (negb (f =? 0)) true in
       Ok (set_channels t (t_up t ++ [c]) (t_down t ++ [c])).

(* a history of AddChannel(f, minDR, maxDR) calls on one band object: the resulting tables
   and, per call, whether it returned an error (a refused call leaves the object unchanged) *)
Fixpoint add_channels (t : tables) (ops : list (Z * Z * Z)) : tables * list bool :=
  match ops with
  | [] => (t, [])
  | (f, mn, mx) :: ops' =>
    match add_channel t f mn mx with
    | Ok t' => let r := add_channels t' ops' in (fst r, false :: snd r)
    | _ => let r := add_channels t ops' in (fst r, true :: snd r)
    end
  end.

(* func (b *band) DisableUplinkChannelIndex / EnableUplinkChannelIndex  band.go:402-416:
   `if channel < 0 || channel > len(b.uplinkChannels)-1 { error }`, else the enabled flag of that
   uplink channel is written (the downlink channels are not touched) *)
Fixpoint map_nth_ch (g : channel -> channel) (l : list channel) (i : nat) : list channel :=
  match l, i with
  | [], _ => []
  | h :: tl, O => g h :: tl
  | h :: tl, S i' => h :: map_nth_ch g tl i'
  end.
Definition set_ch_enabled (v : bool) (c : channel) : channel :=
  mkCh (ch_freq c) (ch_min c) (ch_max c) v (ch_custom c).
Definition set_enabled_index (v : bool) (t : tables) (i : Z) : outcome tables :=
  if (i <? 0) || (i >? zlen (t_up t) - 1) then Err
  else Ok (set_channels t (map_nth_ch (set_ch_enabled v) (t_up t) (Z.to_nat i)) (t_down t)).

(* a history of channel-plan calls on one band object *)
Inductive chan_op :=
| OpAdd (f mn mx : Z)      (* AddChannel(f, mn, mx) *)
| OpDisable (i : Z)        (* DisableUplinkChannelIndex(i) *)
| OpEnable (i : Z).        (* EnableUplinkChannelIndex(i) *)

Definition apply_op (t : tables) (o : chan_op) : outcome tables :=
  match o with
  | OpAdd f mn mx => add_channel t f mn mx
  | OpDisable i => set_enabled_index false t i
  | OpEnable i => set_enabled_index true t i
  end.

(* resulting tables and, per call, whether it returned an error (then nothing changed) *)
Fixpoint apply_ops (t : tables) (ops : list chan_op) : tables * list bool :=
  match ops with
  | [] => (t, [])
  | o :: ops' =>
    match apply_op t o with
    | Ok t' => let r := apply_ops t' ops' in (fst r, false :: snd r)
    | _ => let r := apply_ops t ops' in (fst r, true :: snd r)
    end
  end.

(* the same band object with other tables (a band after a history of calls) *)
Definition with_tables (c : band_cfg) (t : tables) : band_cfg :=
  mkCfg (c_name c) (c_rep c) (c_dwell c) (c_kind c) (c_dwell400 c) (c_freq_off c) (c_bname c)
        (c_defaults c) t.

(* ---- per-band methods --------------------------------------------------- *)

(* GetRX1DataRateIndex: as923Band overrides it (band_as923.go:52-78), every
   other band uses the generic table lookup *)
Definition as923_rx1_dr (dwell400 : bool) (dr off : Z) : outcome Z :=
  if (off <? 0) || (off >? 7) then Err
  else if (dr <? 0) || (dr >? 7) then Err
  else
    let min_dr := if dwell400 then 2 else 0 in
    match zindex [0; 1; 2; 3; 4; 5; -1; -2] off with
    | Ok eff =>
      let r := dr - eff in
      let r := if r <? min_dr then min_dr else r in
      let r := if r >? 5 then 5 else r in
      Ok r
    | _ => Panic
    end.

Definition get_rx1_dr (c : band_cfg) (dr off : Z) : outcome Z :=
  match c_kind c with
  | KAS923 => as923_rx1_dr (c_dwell400 c) dr off
  | _ => generic_rx1_dr (c_tab c) dr off
  end.

(* GetRX1ChannelIndexForUplinkChannelIndex: a negative index is an error (every band, since the
   fix for C12-5); otherwise identity, except us902/au915 `uplinkChannel % 8` and cn470
   `uplinkChannel % 48` (an index past the end is NOT rejected: the package's own tests ask for the
   RX1 channel of channels that do not exist yet) *)
Definition get_rx1_channel_index (c : band_cfg) (ch : Z) : outcome Z :=
  if ch <? 0 then Err      (* `if uplinkChannel < 0 { return 0, errors.New(...) }`, fix for C12-5 *)
  else
  match c_kind c with
  | KUS915 | KAU915 => Ok (Z.rem ch 8)
  | KCN470 => Ok (Z.rem ch 48)
  | _ => Ok ch
  end.

(* GetRX1FrequencyForUplinkFrequency: identity, except us902/au915/cn470:
   GetUplinkChannelIndex(f, true), RX1 channel, b.downlinkChannels[rx1Chan].Frequency *)
Definition get_rx1_frequency (c : band_cfg) (f : Z) : outcome Z :=
  match c_kind c with
  | KUS915 | KAU915 | KCN470 =>
    do i <- get_uplink_channel_index (c_tab c) f true;
    do r <- get_rx1_channel_index c i;
    do d <- zindex (t_down (c_tab c)) r;
    Ok (ch_freq d)
  | _ => Ok f
  end.

(* GetPingSlotFrequency(devAddr, beaconTime): devaddr is the big-endian
   uint32 of the DevAddr, beacon the time.Duration in nanoseconds.
   us902/au915/cn470:
     (int(devaddr) + int(beaconTime/(128*time.Second))) % 8 *)
Definition ping_slot_channel (devaddr beacon : Z) : Z :=
  Z.rem (devaddr + Z.quot beacon (128 * second)) 8.

Definition cn470_ping_freqs : list Z :=
  [508300000; 508500000; 508700000; 508900000; 509100000; 509300000; 509500000; 509700000].

(* the frequency as a function of the hopping channel number *)
Definition ping_slot_at (c : band_cfg) (k : Z) : outcome Z :=
  match c_kind c with
  | KAS923 => Ok (923400000 + c_freq_off c)
  | KUS915 | KAU915 =>
    do d <- zindex (t_down (c_tab c)) k;
    Ok (ch_freq d)
  | KCN470 => zindex cn470_ping_freqs k
  | KCN779 => Ok 785000000
  | KEU433 => Ok 434665000
  | KEU868 => Ok 869525000
  | KIN865 => Ok 866550000
  | KISM2400 => Ok 2424000000
  | KKR920 => Ok 923100000
  | KRU864 => Ok 868900000
  end.

(* us902/au915/cn470 start with `if beaconTime < 0 { return 0, errors.New(...) }` (fix for C12-4:
   the truncating % gave a negative channel number and the slice index panicked); the other
   regions ignore both arguments *)
Definition hopping_kind (k : band_kind) : bool :=
  match k with KUS915 | KAU915 | KCN470 => true | _ => false end.

Definition get_ping_slot_frequency (c : band_cfg) (devaddr beacon : Z) : outcome Z :=
  if hopping_kind (c_kind c) && (beacon <? 0) then Err
  else ping_slot_at c (ping_slot_channel devaddr beacon).

(* GetDefaults *)
Definition std_defaults (f dr : Z) : defaults :=
  mkDefaults f dr second (2 * second) (5 * second) (6 * second).

Definition get_defaults (c : band_cfg) : defaults :=
  match c_kind c with
  | KAS923 => std_defaults (923200000 + c_freq_off c) 2
  | KAU915 => std_defaults 923300000 8
  | KCN470 => std_defaults 505300000 0
  | KCN779 => std_defaults 786000000 0
  | KEU433 => std_defaults 434665000 0
  | KEU868 => std_defaults 869525000 0
  | KIN865 => std_defaults 866550000 2
  | KISM2400 => std_defaults 2423000000 0
  | KKR920 => std_defaults 921900000 0
  | KRU864 => std_defaults 869100000 0
  | KUS915 => std_defaults 923300000 8
  end.

(* GetDownlinkTXPower(frequency) *)
Definition get_downlink_tx_power (c : band_cfg) (f : Z) : Z :=
  match c_kind c with
  | KAS923 => 14
  | KAU915 => 27
  | KCN470 => 14
  | KCN779 => 10
  | KEU433 => 10
  | KEU868 =>
    if (863000000 <=? f) && (f <? 869200000) then 14
    else if (869400000 <=? f) && (f <? 869650000) then 27
    else 14
  | KIN865 => 27
  | KISM2400 => 10
  | KKR920 => 23
  | KRU864 => 14
  | KUS915 => 20
  end.
