// c10race: stress program run under the Go race detector by the C10 harness
// (thorough tier).  args: <seed> <goroutines> <iterations>.
// N goroutines each work on their OWN values (decode, MIC, encrypt, validate)
// while all of them register proprietary MAC commands and look payloads up in
// the shared registry, with randomized yields.  Exit code 66 / "DATA RACE" on a race.
package main

import (
	"fmt"
	"io"
	"log"
	"os"
	"runtime"
	"strconv"
	"sync"

	"github.com/brocaar/lorawan"
	"github.com/brocaar/lorawan/band"
	"verifharness/internal/cq"
	"verifharness/internal/framefmt"
)

func main() {
	log.SetOutput(io.Discard)
	seed, _ := strconv.ParseUint(os.Args[1], 10, 64)
	n, _ := strconv.Atoi(os.Args[2])
	iters, _ := strconv.Atoi(os.Args[3])
	root := cq.NewRNG(seed)
	var wg sync.WaitGroup
	var mu sync.Mutex
	ops := map[string]int{}
	for g := 0; g < n; g++ {
		r := root.Fork()
		wg.Add(1)
		go func(g int) {
			defer wg.Done()
			local := map[string]int{}
			b, _ := band.GetConfig(band.EU868, false, lorawan.DwellTimeNoLimit)
			for i := 0; i < iters; i++ {
				if r.Intn(3) == 0 {
					runtime.Gosched()
				}
				switch r.Intn(7) {
				case 0: // registration (write under Lock)
					lorawan.RegisterProprietaryMACCommand(r.Bool(), lorawan.CID(128+r.Intn(128)), 1+r.Intn(4))
					local["register"]++
				case 1: // lookup (read under RLock)
					lorawan.GetMACPayloadAndSize(r.Bool(), lorawan.CID(r.Intn(256)))
					local["lookup"]++
				case 2: // encode + decode of an own frame
					p := framefmt.DataFrame(r, framefmt.ValidDataOpt(r))
					if bs, err := p.MarshalBinary(); err == nil {
						var q lorawan.PHYPayload
						q.UnmarshalBinary(bs)
					}
					local["codec"]++
				case 3: // MIC set + validate
					p := framefmt.DataFrame(r, framefmt.ValidDataOpt(r))
					var k lorawan.AES128Key
					copy(k[:], r.Bytes(16))
					if p.MHDR.MType == lorawan.UnconfirmedDataUp || p.MHDR.MType == lorawan.ConfirmedDataUp {
						p.SetUplinkDataMIC(lorawan.LoRaWAN1_1, 0, 1, 2, k, k)
						p.ValidateUplinkDataMIC(lorawan.LoRaWAN1_1, 0, 1, 2, k, k)
					} else {
						p.SetDownlinkDataMIC(lorawan.LoRaWAN1_1, 0, k)
						p.ValidateDownlinkDataMIC(lorawan.LoRaWAN1_1, 0, k)
					}
					local["mic"]++
				case 4: // encrypt, then decrypt + decode MAC commands (reads the registry)
					o := framefmt.ValidDataOpt(r)
					p := framefmt.DataFrame(r, o)
					var k lorawan.AES128Key
					copy(k[:], r.Bytes(16))
					if p.EncryptFRMPayload(k) == nil {
						p.DecryptFRMPayload(k)
					}
					p.EncryptFOpts(k)
					p.DecryptFOpts(k)
					local["crypt"]++
				case 5: // join-accept encrypt/decrypt
					p := framefmt.JoinFrame(r, 1)
					var k lorawan.AES128Key
					copy(k[:], r.Bytes(16))
					if p.EncryptJoinAcceptPayload(k) == nil {
						p.DecryptJoinAcceptPayload(k)
					}
					local["join"]++
				default: // own band instance
					b.AddChannel(uint32(867100000+200000*r.Intn(8)), 0, 5)
					b.DisableUplinkChannelIndex(r.Intn(8))
					b.EnableUplinkChannelIndex(r.Intn(8))
					b.GetEnabledUplinkChannelIndices()
					local["band"]++
				}
			}
			mu.Lock()
			for k, v := range local {
				ops[k] += v
			}
			mu.Unlock()
		}(g)
	}
	wg.Wait()
	fmt.Printf("goroutines=%d iterations=%d ops=%v", n, iters, ops)
}
