(* C12 - placeholder while the check is being built *)
From Coq Require Import List ZArith.
Theorem C12_placeholder : True.
Proof. exact I. Qed.
Print Assumptions C12_placeholder.
