(* Correspondence cases for the cryptographic primitives: the Gallina AES-128,
   AES-CMAC and RFC 3394 key wrap against the Go implementations the repository
   calls (crypto/aes, github.com/jacobsa/crypto/cmac,
   github.com/NickBall/go-aes-key-wrap).

   bit 0: the model's output differs from the observed output;
   bit 1: an executable property fails on the observed output:
     - AES: the model's inverse direction maps the observed output back to the
       input, and the observed output has 16 bytes;
     - CMAC: the observed tag has 16 bytes, each < 256;
     - Wrap: the model unwraps the observed ciphertext to the plaintext, and
       the ciphertext is 8 bytes longer;
     - Unwrap: on success the model re-wraps the returned key data to the
       input (to its first 8 * (length / 8) bytes: the Go library ignores a
       trailing partial block); on failure the recovered initial value is not
       the default one. *)
From Coq Require Import List NArith ZArith Bool.
From LW Require Import Base.Outcome Base.Bytes Crypto.AES Crypto.CMAC Crypto.KeyWrap.
Import ListNotations.
Open Scope N_scope.

Inductive case :=
| CAesEnc (k b o : list N)
| CAesDec (k b o : list N)
| CCmac (k m o : list N)
| CWrap (kek p o : list N)
| CUnwrap (kek d : list N) (o : option (list N)).

Definition check (c : case) : N :=
  match c with
  | CAesEnc k b o =>
    let rks := expand_key k in
    code (bytes_eqb (aes_encrypt_rk rks b) o)
         (bytes_eqb (aes_decrypt_rk rks o) b && Nat.eqb (length o) 16)
  | CAesDec k b o =>
    let rks := expand_key k in
    code (bytes_eqb (aes_decrypt_rk rks b) o)
         (bytes_eqb (aes_encrypt_rk rks o) b && Nat.eqb (length o) 16)
  | CCmac k m o =>
    code (bytes_eqb (cmac k m) o)
         (Nat.eqb (length o) 16 && bytes_ok o)
  | CWrap kek p o =>
    let rks := expand_key kek in
    code (bytes_eqb (wrap_rk rks default_iv p) o)
         (let '(iv, p') := unwrap_raw_rk rks o in
          bytes_eqb iv default_iv && bytes_eqb p' p && Nat.eqb (length o) (length p + 8))
  | CUnwrap kek d o =>
    let rks := expand_key kek in
    let '(iv, p') := unwrap_raw_rk rks d in
    let ok := bytes_eqb iv default_iv in
    code (option_eqb bytes_eqb (if ok then Some p' else None) o)
         (match o with
          | Some p => bytes_eqb (wrap_rk rks default_iv p) (firstn (8 * (length d / 8)) d)
          | None => negb ok
          end)
  end.

Definition run_cases := run_with check.

(* the check is the model: these are the definitions of the public functions *)
Example check_uses_wrap kek p : wrap kek p = wrap_rk (expand_key kek) default_iv p.
Proof. reflexivity. Qed.
Example check_uses_unwrap kek d :
  unwrap kek d = let '(iv, p') := unwrap_raw_rk (expand_key kek) d in
                 if bytes_eqb iv default_iv then Some p' else None.
Proof. reflexivity. Qed.
