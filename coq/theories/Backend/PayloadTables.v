(* The remaining payload types of /repo/backend/backend.go as tables over the generic codec of Payload.v
   (stage 3): the nested objects GWInfoElement, ULMetaData, DLMetaData, ServiceProfile, DeviceProfile and the
   other 18 request / answer payloads.  Each table lists the JSON fields in declaration order (embedded
   BasePayload / BasePayloadResult first) with key, omitempty flag and type, as the struct tags say - including
   the spellings the code has ("ReportDevStatusBatery", "RAAAllowed", "PingSLotDR", key "ServiceProfile" for
   ServiceProfileID).  Model file: tables only; PayloadTablesProofs.v checks that they are usable descriptions. *)
From Coq Require Import List NArith ZArith Bool String.
From LW Require Import Backend.Json Backend.Payload.
Import ListNotations.
Open Scope string_scope.

(* backend.go:308-319 *)
Definition t_gwinfo : ftype :=
  TStruct [opt "ID" THex; opt "FineRecvTime" (TPtr t_int); opt "RFRegion" TStr; opt "RSSI" (TPtr t_int);
           opt "SNR" (TPtr TFloat); opt "Lat" (TPtr TFloat); opt "Lon" (TPtr TFloat); opt "ULToken" THex;
           opt "DLAllowed" TBool].

(* backend.go:321-338 *)
Definition t_ulmetadata : ftype :=
  TStruct [opt "DevEUI" (TPtr t_eui64); opt "DevAddr" (TPtr t_devaddr); opt "FPort" (TPtr t_uint8);
           opt "FCntDown" (TPtr t_uint32); opt "FCntUp" (TPtr t_uint32); opt "Confirmed" TBool;
           opt "DataRate" (TPtr t_int); opt "ULFreq" (TPtr TFloat); opt "Margin" (TPtr t_int);
           opt "Battery" (TPtr t_int); opt "FNSULToken" THex; fld "RecvTime" TTime; opt "RFRegion" TStr;
           opt "GWCnt" (TPtr t_int); opt "GWInfo" (TSlice t_gwinfo)].

(* backend.go:340-355 *)
Definition t_dlmetadata : ftype :=
  TStruct [opt "DevEUI" (TPtr t_eui64); opt "FPort" (TPtr t_uint8); opt "FCntDown" (TPtr t_uint32);
           opt "Confirmed" TBool; opt "DLFreq1" (TPtr TFloat); opt "DLFreq2" (TPtr TFloat);
           opt "RXDelay1" (TPtr t_int); opt "ClassMode" (TPtr TStr); opt "DataRate1" (TPtr t_int);
           opt "DataRate2" (TPtr t_int); opt "FNSULToken" THex; fld "GWInfo" (TSlice t_gwinfo);
           opt "HiPriorityFlag" TBool].

(* backend.go:591-612 *)
Definition t_serviceprofile : ftype :=
  TStruct [fld "ServiceProfile" TStr; fld "ULRate" t_int; fld "ULBucketSize" t_int; fld "ULRatePolicy" TStr;
           fld "DLRate" t_int; fld "DLBucketSize" t_int; fld "DLRatePolicy" TStr; fld "AddGWMetadata" TBool;
           fld "DevStatusReqFreq" t_int; fld "ReportDevStatusBatery" TBool; fld "ReportDevStatusMargin" TBool;
           fld "DRMin" t_int; fld "DRMax" t_int; fld "ChannelMask" THex; fld "PRAllowed" TBool;
           fld "HRAllowed" TBool; fld "RAAAllowed" TBool; fld "NwkGeoLoc" TBool; fld "TargetPER" TPct;
           fld "MinGWDiversity" t_int].

(* backend.go:617-638 *)
Definition t_deviceprofile : ftype :=
  TStruct [fld "DeviceProfileID" TStr; fld "SupportsClassB" TBool; fld "ClassBTimeout" t_int;
           fld "PingSlotPeriod" t_int; fld "PingSLotDR" t_int; fld "PingSlotFreq" TFreq; fld "SupportsClassC" TBool;
           fld "ClassCTimeout" t_int; fld "MACVersion" TStr; fld "RegParamsRevision" TStr; fld "RXDelay1" t_int;
           fld "RXDROffset1" t_int; fld "RXDataRate2" t_int; fld "RXFreq2" TFreq;
           fld "FactoryPresetFreqs" (TSlice TFreq); fld "MaxEIRP" t_int; fld "MaxDutyCycle" TPct;
           fld "SupportsJoin" TBool; fld "RFRegion" TStr; fld "Supports32bitFCnt" TBool].

Definition p_ke : ftype := TPtr t_keyenvelope.

(* RejoinReqPayload / RejoinAnsPayload have the fields of JoinReqPayload / JoinAnsPayload (backend.go:394-425) *)
Definition t_rejoinreq : ftype := t_joinreq.
Definition t_rejoinans : ftype := t_joinans.

(* backend.go:427-450 *)
Definition t_appskeyreq : ftype := TStruct (base_fields ++ [fld "DevEUI" t_eui64; fld "SessionKeyID" THex]).
Definition t_appskeyans : ftype :=
  TStruct (base_result_fields ++ [fld "DevEUI" t_eui64; opt "AppSKey" p_ke; fld "SessionKeyID" THex]).

(* backend.go:452-483 *)
Definition t_prstartreq : ftype :=
  TStruct (base_fields ++ [opt "PHYPayload" THex; fld "ULMetaData" t_ulmetadata]).
Definition t_prstartans : ftype :=
  TStruct (base_result_fields ++
    [opt "PHYPayload" THex; opt "DevEUI" (TPtr t_eui64); opt "Lifetime" (TPtr t_int); opt "FNwkSIntKey" p_ke;
     opt "NwkSKey" p_ke; opt "FCntUp" (TPtr t_uint32); opt "ServiceProfile" (TPtr t_serviceprofile);
     opt "DLMetaData" (TPtr t_dlmetadata); opt "DevAddr" (TPtr t_devaddr)]).

(* backend.go:485-506 *)
Definition t_prstopreq : ftype := TStruct (base_fields ++ [fld "DevEUI" t_eui64; opt "Lifetime" (TPtr t_int)]).
Definition t_prstopans : ftype := TStruct base_result_fields.

(* backend.go:508-545 *)
Definition t_hrstartreq : ftype :=
  TStruct (base_fields ++
    [fld "MACVersion" TStr; fld "PHYPayload" THex; fld "DevAddr" t_devaddr; fld "DeviceProfile" t_deviceprofile;
     fld "ULMetaData" t_ulmetadata; fld "DLSettings" TDLSettings; fld "RxDelay" t_int; opt "CFList" THex;
     fld "DeviceProfileTimestamp" TTime]).
Definition t_hrstartans : ftype :=
  TStruct (base_result_fields ++
    [opt "PHYPayload" THex; opt "Lifetime" (TPtr t_int); opt "SNwkSIntKey" p_ke; opt "FNwkSIntKey" p_ke;
     opt "NwkSEncKey" p_ke; opt "NwkSKey" p_ke; opt "DeviceProfile" (TPtr t_deviceprofile);
     opt "ServiceProfile" (TPtr t_serviceprofile); opt "DLMetaData" (TPtr t_dlmetadata);
     opt "DeviceProfileTimestamp" (TPtr TTime)]).

(* backend.go:547-588 *)
Definition t_hrstopreq : ftype := TStruct (base_fields ++ [fld "DevEUI" t_eui64]).
Definition t_hrstopans : ftype := TStruct base_result_fields.
Definition t_homensreq : ftype := TStruct (base_fields ++ [fld "DevEUI" t_eui64]).
Definition t_homensans : ftype := TStruct (base_result_fields ++ [fld "HNetID" t_netid]).
Definition t_profilereq : ftype := TStruct (base_fields ++ [fld "DevEUI" t_eui64]).
Definition t_profileans : ftype :=
  TStruct (base_result_fields ++
    [opt "DeviceProfile" (TPtr t_deviceprofile); opt "DeviceProfileTimestamp" (TPtr TTime);
     fld "RoamingActivationType" (TPtr TStr)]).
Definition t_xmitdatareq : ftype :=
  TStruct (base_fields ++
    [opt "PHYPayload" THex; opt "FRMPayload" THex; opt "ULMetaData" (TPtr t_ulmetadata);
     opt "DLMetaData" (TPtr t_dlmetadata)]).
Definition t_xmitdataans : ftype :=
  TStruct (base_result_fields ++ [opt "DLFreq1" (TPtr TFloat); opt "DLFreq2" (TPtr TFloat)]).

(* the 20 payload types, in the order of backend.go, and the objects nested in them *)
Definition payload_types : list ftype :=
  [t_joinreq; t_joinans; t_rejoinreq; t_rejoinans; t_appskeyreq; t_appskeyans; t_prstartreq; t_prstartans;
   t_prstopreq; t_prstopans; t_hrstartreq; t_hrstartans; t_hrstopreq; t_hrstopans; t_homensreq; t_homensans;
   t_profilereq; t_profileans; t_xmitdatareq; t_xmitdataans].
Definition nested_types : list ftype :=
  [t_vsextension; t_result; t_keyenvelope; t_basepayload; t_basepayloadresult; t_gwinfo; t_ulmetadata;
   t_dlmetadata; t_serviceprofile; t_deviceprofile].
(* those of them without Frequency / Percentage / float64 fields *)
Definition float_free_payload_types : list ftype :=
  [t_joinreq; t_joinans; t_rejoinreq; t_rejoinans; t_appskeyreq; t_appskeyans; t_prstopreq; t_prstopans;
   t_hrstopreq; t_hrstopans; t_homensreq; t_homensans; t_profilereq].

Example payload_type_count : (List.length payload_types, List.length nested_types) = (20, 10)%nat.
Proof. reflexivity. Qed.
