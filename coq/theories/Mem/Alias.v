(* C10 (M1): models ON THE BUFFER HEAP (Mem/Heap.v) of the functions of the root
   package that touch caller memory, mirroring the Go code statement by
   statement wherever a byte slice is created, sub-sliced, appended to, copied,
   written or stored in a value:

     payload.go      DataPayload.{Unmarshal,Marshal}Binary
     fhdr.go         FHDR.{Unmarshal,Marshal}Binary
     macpayload.go   MACPayload.{Unmarshal,Marshal}Binary, marshalPayload
     mac_commands.go ProprietaryMACCommandPayload, MACCommand.{Unmarshal,Marshal}Binary,
                     decodeDataPayloadToMACCommands
     phypayload.go   PHYPayload.{Unmarshal,Marshal}Binary, EncryptFRMPayload / EncryptFOpts
                     (exported functions and methods), Decrypt*, Encrypt/DecryptJoinAcceptPayload,
                     MIC calculation / validation (memory footprint only: the MIC value is C02's business)

   What is a VALUE here and what lives on the heap: struct fields of fixed size
   (DevAddr, MIC, FCtrl, FCnt, all non-proprietary MAC payloads, join payloads)
   are values; every []byte that a frame holds (DataPayload.Bytes,
   ProprietaryMACCommandPayload.Bytes) is a [slice] into the heap.  Pointer
   identity of the structs themselves (two frames sharing one *MACPayload) is not
   modelled.  Scratch buffers that provably never leave a function and are only
   written by it (the 16-byte A / S blocks, fCntBytes) are values; all buffers
   that are appended to or returned are on the heap.  Pure value encoders
   (Mac.Commands.enc, Frame.Model.payload_marshal for join payloads) are used for
   the bytes of parts that hold no slices; they allocate a fresh buffer.

   The growth function [g] of append is a parameter of every model.
   No proofs in this file. *)
From Coq Require Import List NArith ZArith Bool Arith.
From LW Require Import Base.Outcome Base.Bytes Mac.Commands Mac.Stream Frame.Model Crypto.AES Mem.Heap.
Import ListNotations.
Open Scope N_scope.

(* ---- frames whose byte slices live on the heap ---- *)
Inductive hmacpl :=
| HPProp (s : slice)          (* ProprietaryMACCommandPayload{Bytes: s} *)
| HPVal (v : macpl).          (* any other payload: no slices inside *)

Inductive hitem :=
| HIMac (cid : N) (p : option hmacpl)
| HIData (s : slice).         (* DataPayload{Bytes: s} *)

Record hfhdr := mkHFHDR { h_devaddr : list N; h_fc : fctrl; h_fcnt : N; h_fopts : list hitem }.
Record hmac := mkHMAC { h_hdr : hfhdr; h_fport : option N; h_frm : list hitem }.

Inductive hpayload :=
| HPLMac (m : hmac)
| HPLData (s : slice)
| HPLVal (p : payload)        (* join-request / join-accept / rejoin payloads: no slices inside *)
| HPLNil.

Record hphy := mkHPHY { h_mtype : N; h_major : N; h_pl : hpayload; h_mic : list N }.

(* the frame as a value: what a deep snapshot of the Go object shows *)
Definition view_macpl (h : heap) (p : hmacpl) : macpl :=
  match p with HPProp s => PProprietary (bytes_of h s) | HPVal v => v end.
Definition view_item (h : heap) (it : hitem) : item :=
  match it with
  | HIMac c p => IMac c (option_map (view_macpl h) p)
  | HIData s => IData (bytes_of h s)
  end.
Definition view_fhdr (h : heap) (x : hfhdr) : fhdr :=
  mkFHDR (h_devaddr x) (h_fc x) (h_fcnt x) (map (view_item h) (h_fopts x)).
Definition view_mac (h : heap) (m : hmac) : macpayload :=
  mkMAC (view_fhdr h (h_hdr m)) (h_fport m) (map (view_item h) (h_frm m)).
Definition view_payload (h : heap) (p : hpayload) : payload :=
  match p with
  | HPLMac m => PLMac (view_mac h m)
  | HPLData s => PLData (bytes_of h s)
  | HPLVal v => v
  | HPLNil => PLNil
  end.
Definition view (h : heap) (p : hphy) : phy :=
  mkPHY (h_mtype p) (h_major p) (view_payload h (h_pl p)) (h_mic p).

(* the slices a frame holds *)
Definition item_slices (it : hitem) : list slice :=
  match it with
  | HIData s => [s]
  | HIMac _ (Some (HPProp s)) => [s]
  | HIMac _ _ => []
  end.
Definition items_slices (its : list hitem) : list slice := flat_map item_slices its.
Definition payload_slices (p : hpayload) : list slice :=
  match p with
  | HPLMac m => items_slices (h_fopts (h_hdr m)) ++ items_slices (h_frm m)
  | HPLData s => [s]
  | _ => []
  end.
Definition frame_slices (p : hphy) : list slice := payload_slices (h_pl p).

Definition liftO {A B} (o : outcome A) (k : A -> M B) : M B :=
  match o with
  | Ok a => k a
  | Err => failM
  | Panic => panicM
  | OutOfFuel => fun h => (h, OutOfFuel)
  end.

(* =================================================================== *)
(* decoding                                                            *)
(* =================================================================== *)

(* payload.go DataPayload.UnmarshalBinary:
     p.Bytes = make([]byte, len(data)); copy(p.Bytes, data) *)
Definition h_data_unmarshal (data : slice) : M slice :=
  doM b <- sl_mk (slen data) (slen data);
  seqM sl_cpy b data;
  retM b.

(* AES128Key / EUI64 / DevAddr / NetID.UnmarshalBinary with the RECEIVER array on the heap as well, so that the
   input may overlap it (k.UnmarshalBinary(k[:]), or a partial overlap inside one backing array).  After fix af377f9:
     var tmp T; for i, v := range data { tmp[len(k)-i-1] = v }; *k = tmp
   (the loop used to store into k directly and read bytes it had already overwritten) *)
Definition h_ident_unmarshal (recv data : slice) : M unit :=
  if negb (Nat.eqb (slen data) (slen recv)) then failM else
  doM d <- loadM data;
  doM _ <- sl_cpy_bytes recv (rev d);
  retM tt.

(* fhdr.go FHDR.UnmarshalBinary.  DevAddr / FCtrl / FCnt are decoded into
   values (fCntBytes is a scratch copy); FOpts (after fix b4e563a):
     if len(data) > 7 { fOpts := make([]byte, len(data)-7); copy(fOpts, data[7:])
                        h.FOpts = []Payload{&DataPayload{Bytes: fOpts}} } *)
Definition h_fhdr_unmarshal (data : slice) : M hfhdr :=
  if (zlen data <? 7)%Z then failM else
  doM d <- loadM data;
  let c := fctrl_unmarshal (nth 4 d 0) in
  let fc16 := le_val (firstn 2 (skipn 5 d)) in
  doM fo <- (if (7 <? zlen data)%Z
         then doM s <- sl_subM data 7 (zlen data);
              doM b <- sl_mk (slen data - 7) (slen data - 7);
              seqM sl_cpy b s;
              retM [HIData b]
         else retM []);
  retM (mkHFHDR (rev (firstn 4 d)) c fc16 fo).

(* macpayload.go MACPayload.UnmarshalBinary *)
Definition h_mac_unmarshal (data : slice) : M hmac :=
  let n := zlen data in
  if (n <? 7)%Z then failM else
  doM b4 <- sl_rd data 4;
  let ol := Z.of_N (N.land b4 15) in
  if (n <? 7 + ol)%Z then failM else
  doM hs <- sl_subM data 0 (7 + ol);
  doM hd <- h_fhdr_unmarshal hs;
  doM port <- (if (7 + ol <? n)%Z then doM p <- sl_rd data (7 + ol); retM (Some p) else retM None);
  (* if fPort == 0 && fOptsLen > 0 { return error }   inside the FPort-present branch (after fix 6878deb) *)
  if (match port with Some 0 => true | _ => false end) && (0 <? ol)%Z then failM else
  if (7 + ol + 1 <? n)%Z then
    (* frmPayload := make([]byte, dataLen-(7+fOptsLen+1)); copy(frmPayload, data[7+fOptsLen+1:])
       p.FRMPayload = []Payload{&DataPayload{Bytes: frmPayload}}            (after fix b4e563a) *)
    doM s <- sl_subM data (7 + ol + 1) n;
    let k := Z.to_nat (n - (7 + ol + 1)) in
    doM b <- sl_mk k k;
    seqM sl_cpy b s;
    retM (mkHMAC hd port [HIData b])
  else retM (mkHMAC hd port []).

(* phypayload.go PHYPayload.UnmarshalBinary.  Join-request / rejoin payloads
   are decoded field by field into values (Frame.Model); join-accept and
   proprietary frames go through DataPayload.UnmarshalBinary; data frames
   through MACPayload.UnmarshalBinary on data[1:len(data)-4]. *)
Definition h_phy_unmarshal (data : slice) : M hphy :=
  let n := zlen data in
  if (n <? 5)%Z then failM else
  doM b0 <- sl_rd data 0;
  let mt := N.shiftr b0 5 in
  let mj := N.land b0 3 in
  doM d <- loadM data;
  doM p <- (if (mt =? JoinRequest) || (mt =? RejoinRequest) then
          liftO (phy_unmarshal d) (fun v => retM (HPLVal (pl v)))
        else
          doM body <- sl_subM data 1 (n - 4);
          if (mt =? JoinAccept) || (mt =? Proprietary)
          then doM s <- h_data_unmarshal body; retM (HPLData s)
          else doM m <- h_mac_unmarshal body; retM (HPLMac m));
  retM (mkHPHY mt mj p (skipn (Z.to_nat n - 4) d)).

(* mac_commands.go ProprietaryMACCommandPayload.UnmarshalBinary (after fix 3cce6f5):
     p.Bytes = make([]byte, len(data)); copy(p.Bytes, data) *)
Definition h_prop_unmarshal (data : slice) : M hmacpl :=
  doM b <- sl_mk (slen data) (slen data);
  seqM sl_cpy b data;
  retM (HPProp b).

(* mac_commands.go MACCommand.UnmarshalBinary; the bool says an error was returned
   (the stream decoder logs it and keeps the partially filled command) *)
Definition h_cmd_unmarshal (r : registry) (up : bool) (data : slice) : M (hitem * bool) :=
  if (zlen data =? 0)%Z then retM (HIMac 0 None, true) else
  doM c <- sl_rd data 0;
  if (1 <? zlen data)%Z then
    match reg_lookup r up c with
    | None => retM (HIMac c None, true)
    | Some (_, k) =>
      doM rest <- sl_subM data 1 (zlen data);
      match k with
      | KProprietary => doM p <- h_prop_unmarshal rest; retM (HIMac c (Some p), false)
      | _ =>
        doM bs <- loadM rest;
        match dec k bs with
        | Ok v => retM (HIMac c (Some (HPVal v)), false)
        | _ => retM (HIMac c (Some (HPVal (zero_value k))), true)
        end
      end
    end
  else retM (HIMac c None, false).

(* mac_commands.go decodeDataPayloadToMACCommands *)
Fixpoint h_decode_loop (fuel : nat) (r : registry) (up : bool) (bytes : slice) (i : Z)
         (acc : list hitem) : M (list hitem) :=
  match fuel with
  | O => fun h => (h, OutOfFuel)
  | S fuel' =>
    if (zlen bytes <=? i)%Z then retM (rev acc) else
    doM c <- sl_rd bytes i;
    let plLen := match reg_lookup r up c with Some (s, _) => s | None => 0%Z end in
    if (zlen bytes - i <? plLen + 1)%Z then failM else
    doM sl <- sl_subM bytes i (i + 1 + plLen);
    doM it <- h_cmd_unmarshal r up sl;
    h_decode_loop fuel' r up bytes (i + plLen + 1) (fst it :: acc)
  end.

Definition h_decode_cmds (r : registry) (up : bool) (pls : list hitem) : M (list hitem) :=
  match pls with
  | [HIData s] => h_decode_loop (S (slen s)) r up s 0 []
  | _ => failM
  end.

(* =================================================================== *)
(* encryption                                                          *)
(* =================================================================== *)

(* for j := range s { data[i+j] = data[i+j] ^ s[j] } *)
Fixpoint h_xor_at (data : slice) (i : Z) (s : list N) : M unit :=
  match s with
  | [] => retM tt
  | x :: s' => doM v <- sl_rd data i; seqM sl_wr data i (N.lxor v x); h_xor_at data (i + 1) s'
  end.

(* the A block of FRMPayload encryption: a[0]=1, a[5]=dir, a[6:10]=DevAddr, a[10:14]=FCnt, a[15]=byte(i+1) *)
Definition a_block_frm (up : bool) (devaddr : list N) (fcnt : N) (i : nat) : list N :=
  [1; 0; 0; 0; 0; if up then 0 else 1] ++ rev devaddr ++ le_bytes 4 fcnt ++ [0; N.of_nat (S i) mod 256].

Definition a_block_fopts (afcntdown up : bool) (devaddr : list N) (fcnt : N) : list N :=
  [1; 0; 0; 0; if afcntdown then 2 else 1; if up then 0 else 1] ++ rev devaddr ++ le_bytes 4 fcnt ++ [0; 1].

(* for i := 0; i < (pLen+15)/16; i++ { a[15] = byte(i+1); block.Encrypt(s, a)
       for j := 0; j < len(s) && i*16+j < pLen; j++ { data[i*16+j] ^= s[j] } } *)
Fixpoint h_frm_blocks (key : list N) (up : bool) (devaddr : list N) (fcnt : N)
         (data : slice) (pLen nblocks i : nat) : M unit :=
  match nblocks with
  | O => retM tt
  | S n' =>
    seqM h_xor_at data (Z.of_nat (16 * i))
         (firstn (pLen - 16 * i) (aes_encrypt key (a_block_frm up devaddr fcnt i)));
    h_frm_blocks key up devaddr fcnt data pLen n' (S i)
  end.

(* phypayload.go func EncryptFRMPayload (exported), after fix 8fff9ae: no padding append on the
   caller's slice; the pLen bytes are xored in place, the last block partially;  return data[0:pLen] *)
Definition h_encrypt_frm (key : list N) (up : bool) (devaddr : list N) (fcnt : N)
           (data : slice) : M slice :=
  let pLen := slen data in
  seqM h_frm_blocks key up devaddr fcnt data pLen ((pLen + 15) / 16) 0;
  sl_subM data 0 (Z.of_nat pLen).

(* phypayload.go func EncryptFOpts (exported):  for i := range data { data[i] ^= s[i] };  return data *)
Definition h_encrypt_fopts (key : list N) (afcntdown up : bool) (devaddr : list N) (fcnt : N)
           (data : slice) : M slice :=
  if (15 <? zlen data)%Z then failM else
  seqM h_xor_at data 0 (firstn (slen data) (aes_encrypt key (a_block_fopts afcntdown up devaddr fcnt)));
  retM data.

(* =================================================================== *)
(* marshalling                                                         *)
(* =================================================================== *)

(* DataPayload.MarshalBinary / ProprietaryMACCommandPayload.MarshalBinary (after fix 02a1cb6: they returned
   p.Bytes itself):  out := make([]byte, len(p.Bytes)); copy(out, p.Bytes); return out *)
Definition h_bytes_marshal (s : slice) : M slice :=
  doM b <- sl_mk (slen s) (slen s);
  seqM sl_cpy b s;
  retM b.

(* MACCommandPayload.MarshalBinary *)
Definition h_macpl_marshal (p : hmacpl) : M slice :=
  match p with
  | HPProp s => h_bytes_marshal s
  | HPVal v => liftO (enc v) sl_lit
  end.

(* MACCommand.MarshalBinary:  b := []byte{byte(m.CID)};  b = append(b, p...) *)
Definition h_cmd_marshal (g : nat -> nat) (cid : N) (p : option hmacpl) : M slice :=
  doM b <- sl_lit [cid];
  match p with
  | None => retM b
  | Some p => doM ps <- h_macpl_marshal p; sl_app_sl g b ps
  end.

(* Payload.MarshalBinary of an FOpts / FRMPayload element *)
Definition h_item_marshal (g : nat -> nat) (it : hitem) : M slice :=
  match it with
  | HIData s => h_bytes_marshal s
  | HIMac c p => h_cmd_marshal g c p
  end.

(* for _, mac := range h.FOpts { b, err = mac.MarshalBinary(); opts = append(opts, b...) } *)
Fixpoint h_opts_loop (g : nat -> nat) (its : list hitem) (opts : slice) : M slice :=
  match its with
  | [] => retM opts
  | it :: rest => doM b <- h_item_marshal g it; doM o <- sl_app_sl g opts b; h_opts_loop g rest o
  end.

(* fhdr.go FHDR.MarshalBinary *)
Definition h_fhdr_marshal (g : nat -> nat) (x : hfhdr) : M slice :=
  doM opts <- h_opts_loop g (h_fopts x) nil_slice;
  let n := N.of_nat (slen opts) in                    (* len(opts) > 15 is tested before the narrowing (fix C07-3) *)
  if 15 <? n then failM else
  doM out <- sl_mk 0 (7 + N.to_nat n);
  doM out <- sl_app g out (rev (h_devaddr x));
  let c := h_fc x in
  liftO (fctrl_marshal (mkFCtrl (adr c) (adrackreq c) (ack c) (fpending c) (classb c) n)) (fun cb =>
  doM out <- sl_app g out [cb];
  doM out <- sl_app g out (le_bytes 2 (h_fcnt x));
  sl_app_sl g out opts).

(* macpayload.go MACPayload.marshalPayload *)
Fixpoint h_frm_loop (g : nat -> nat) (port : option N) (its : list hitem) (out : slice) : M slice :=
  match its with
  | [] => retM out
  | it :: rest =>
    doM b <- (match it with
          | HIMac c p => match port with Some 0 => h_cmd_marshal g c p | _ => failM end
          | HIData s => h_bytes_marshal s
          end);
    doM o <- sl_app_sl g out b;
    h_frm_loop g port rest o
  end.

(* macpayload.go MACPayload.MarshalBinary *)
Definition h_mac_marshal (g : nat -> nat) (m : hmac) : M slice :=
  doM b <- h_fhdr_marshal g (h_hdr m);
  doM out <- sl_app_sl g nil_slice b;
  match h_fport m with
  | None => match h_frm m with [] => retM out | _ => failM end
  | Some p =>
    if negb (Nat.eqb (length (h_fopts (h_hdr m))) 0) && (p =? 0) then failM else
    doM out <- sl_app g out [p];
    doM b <- h_frm_loop g (h_fport m) (h_frm m) nil_slice;
    sl_app_sl g out b
  end.

(* Payload.MarshalBinary of the MACPayload field *)
Definition h_payload_marshal (g : nat -> nat) (p : hpayload) : M slice :=
  match p with
  | HPLNil => failM
  | HPLMac m => h_mac_marshal g m
  | HPLData s => h_bytes_marshal s
  | HPLVal v => liftO (payload_marshal v) sl_lit
  end.

(* phypayload.go PHYPayload.MarshalBinary:
     out = append(out, mhdr...); out = append(out, b...); out = append(out, p.MIC[0:4]...) *)
Definition h_phy_marshal (g : nat -> nat) (p : hphy) : M slice :=
  match h_pl p with
  | HPLNil => failM
  | _ =>
    doM b <- sl_lit [mhdr_marshal (h_mtype p) (h_major p)];
    doM out <- sl_app_sl g nil_slice b;
    doM b <- h_payload_marshal g (h_pl p);
    doM out <- sl_app_sl g out b;
    sl_app g out (h_mic p)
  end.

(* =================================================================== *)
(* MIC calculation / validation: memory footprint                      *)
(* =================================================================== *)

(* micBytes = append(append(nil, MHDR...), MACPayload.MarshalBinary()...); the B0/B1 blocks and
   the CMAC state are locals; [f] stands for the keyed function of micBytes that yields the MIC. *)
Definition h_mic_bytes (g : nat -> nat) (p : hphy) : M slice :=
  doM b <- sl_lit [mhdr_marshal (h_mtype p) (h_major p)];
  doM mb <- sl_app_sl g nil_slice b;
  doM b <- h_payload_marshal g (h_pl p);
  sl_app_sl g mb b.

Definition h_calc_mic (f : list N -> list N) (g : nat -> nat) (p : hphy) : M (list N) :=
  doM mb <- h_mic_bytes g p;
  doM bs <- loadM mb;
  retM (f bs).

(* calculateUplinkDataMIC / calculateDownlinkDataMIC: *MACPayload required *)
Definition h_calc_data_mic (f : list N -> list N) (g : nat -> nat) (p : hphy) : M (list N) :=
  match h_pl p with
  | HPLMac _ => h_calc_mic f g p
  | _ => failM
  end.

(* calculateUplinkJoinMIC: any non-nil payload; calculateDownlinkJoinMIC: *JoinAcceptPayload *)
Definition h_calc_join_mic (f : list N -> list N) (g : nat -> nat) (p : hphy) : M (list N) :=
  match h_pl p with
  | HPLNil => failM
  | _ => h_calc_mic f g p
  end.

(* Validate*MIC:  return p.MIC == mic *)
Definition h_validate_data_mic (f : list N -> list N) (g : nat -> nat) (p : hphy) : M bool :=
  doM m <- h_calc_data_mic f g p; retM (bytes_eqb (h_mic p) m).
Definition h_validate_join_mic (f : list N -> list N) (g : nat -> nat) (p : hphy) : M bool :=
  doM m <- h_calc_join_mic f g p; retM (bytes_eqb (h_mic p) m).

(* Set*MIC:  p.MIC = mic *)
Definition h_set_data_mic (f : list N -> list N) (g : nat -> nat) (p : hphy) : M hphy :=
  doM m <- h_calc_data_mic f g p; retM (mkHPHY (h_mtype p) (h_major p) (h_pl p) m).

(* =================================================================== *)
(* frame-level encryption methods                                      *)
(* =================================================================== *)

Definition set_frm (p : hphy) (m : hmac) (frm : list hitem) : hphy :=
  mkHPHY (h_mtype p) (h_major p) (HPLMac (mkHMAC (h_hdr m) (h_fport m) frm)) (h_mic p).
Definition set_fopts (p : hphy) (m : hmac) (fo : list hitem) : hphy :=
  let x := h_hdr m in
  mkHPHY (h_mtype p) (h_major p)
         (HPLMac (mkHMAC (mkHFHDR (h_devaddr x) (h_fc x) (h_fcnt x) fo) (h_fport m) (h_frm m))) (h_mic p).

(* PHYPayload.EncryptFRMPayload *)
Definition h_phy_encrypt_frm (g : nat -> nat) (key : list N) (p : hphy) : M hphy :=
  match h_pl p with
  | HPLMac m =>
    match h_frm m with
    | [] => retM p
    | _ =>
      doM data <- h_frm_loop g (h_fport m) (h_frm m) nil_slice;
      doM data <- h_encrypt_frm key (is_uplink (h_mtype p)) (h_devaddr (h_hdr m)) (h_fcnt (h_hdr m)) data;
      retM (set_frm p m [HIData data])
    end
  | _ => failM
  end.

(* PHYPayload.DecryptFRMPayload (after fix 938326e: an empty FRMPayload on port 0 is left alone) *)
Definition h_phy_decrypt_frm (g : nat -> nat) (r : registry) (key : list N) (p : hphy) : M hphy :=
  doM p1 <- h_phy_encrypt_frm g key p;
  match h_pl p1 with
  | HPLMac m =>
    match h_fport m, h_frm m with
    | Some 0, _ :: _ => doM frm <- h_decode_cmds r (is_uplink (h_mtype p)) (h_frm m); retM (set_frm p1 m frm)
    | _, _ => retM p1
    end
  | _ => failM
  end.

(* PHYPayload.EncryptFOpts *)
Definition h_phy_encrypt_fopts (g : nat -> nat) (key : list N) (p : hphy) : M hphy :=
  match h_pl p with
  | HPLMac m =>
    match h_fopts (h_hdr m) with
    | [] => retM p
    | fo =>
      doM macB <- h_opts_loop g fo nil_slice;
      let up := is_uplink (h_mtype p) in
      let afd := negb up && match h_fport m with Some q => 0 <? q | None => false end in
      doM data <- h_encrypt_fopts key afd up (h_devaddr (h_hdr m)) (h_fcnt (h_hdr m)) macB;
      retM (set_fopts p m [HIData data])
    end
  | _ => failM
  end.

(* PHYPayload.DecryptFOpts = EncryptFOpts; DecodeFOptsToMACCommands (nothing to decode when FOpts is empty) *)
Definition h_phy_decrypt_fopts (g : nat -> nat) (r : registry) (key : list N) (p : hphy) : M hphy :=
  doM p1 <- h_phy_encrypt_fopts g key p;
  match h_pl p1 with
  | HPLMac m =>
    match h_fopts (h_hdr m) with
    | [] => retM p1
    | fo => doM fo' <- h_decode_cmds r (is_uplink (h_mtype p)) fo; retM (set_fopts p1 m fo')
    end
  | _ => failM
  end.

(* split into 16-byte blocks (the length is a multiple of 16 where this is used) *)
Fixpoint chunks16 (fuel : nat) (l : list N) : list (list N) :=
  match fuel with
  | O => []
  | S f => match l with [] => [] | _ => firstn 16 l :: chunks16 f (skipn 16 l) end
  end.

(* PHYPayload.DecryptJoinAcceptPayload (after fix b194374):
     ct := make([]byte, 0, len(dp.Bytes)+len(p.MIC)); ct = append(ct, dp.Bytes...); ct = append(ct, p.MIC[:]...)
     pt := make([]byte, len(ct)); block.Encrypt(pt[..], ct[..]) per block
     p.MACPayload = &JoinAcceptPayload{}; copy(p.MIC[:], pt[len(pt)-4:]); UnmarshalBinary(pt[0:len(pt)-4]) *)
Definition h_decrypt_ja (g : nat -> nat) (key : list N) (p : hphy) : M hphy :=
  match h_pl p with
  | HPLData dp =>
    doM ct <- sl_mk 0 (slen dp + length (h_mic p));
    doM ct <- sl_app_sl g ct dp;
    doM ct <- sl_app g ct (h_mic p);
    if negb (Nat.eqb (slen ct mod 16) 0) then failM else
    doM c <- loadM ct;
    let pt := concat (map (aes_encrypt key) (chunks16 (slen ct) c)) in
    let n := length pt in
    liftO (joinaccept_unmarshal (firstn (n - 4) pt)) (fun v =>
    retM (mkHPHY (h_mtype p) (h_major p) (HPLVal v) (skipn (n - 4) pt)))
  | _ => failM
  end.

(* PHYPayload.EncryptJoinAcceptPayload: the ciphertext is a fresh buffer *)
Definition h_encrypt_ja (g : nat -> nat) (key : list N) (p : hphy) : M hphy :=
  match h_pl p with
  | HPLVal (PLJoinAccept a b c d e f' g' cf as v) =>
    liftO (payload_marshal v) (fun bs =>
    doM pt <- sl_lit bs;
    doM pt <- sl_app g pt (h_mic p);
    if negb (Nat.eqb (slen pt mod 16) 0) then failM else
    doM c' <- loadM pt;
    doM ct <- sl_lit (concat (map (aes_decrypt key) (chunks16 (slen pt) c')));
    doM s <- sl_subM ct 0 (zlen ct - 4);
    doM t <- sl_subM ct (zlen ct - 4) (zlen ct);
    doM m <- loadM t;
    retM (mkHPHY (h_mtype p) (h_major p) (HPLData s) m))
  | _ => failM
  end.
