(* C20 - GPS-time conversion, LoRa airtime and TXParamSetup EIRP coding match
   their definitions.  Statement file: each theorem is closed by [exact] of a
   lemma proved in theories/Misc, followed by Print Assumptions.
   Time values are Z nanoseconds since the Unix epoch (UTC); durations Z ns. *)
From Coq Require Import List NArith ZArith QArith Qround Qreals Reals Bool.
From LW Require Import Base.Outcome Misc.Gps Misc.GpsSpec Misc.GpsProofs
  Misc.Airtime Misc.AirtimeSpec Misc.AirtimeProofs Misc.Eirp Misc.EirpProofs Misc.Sens Misc.SensProofs.
From LWGen Require Import LeapGen EirpGen.
Import ListNotations.
Open Scope Z_scope.

(* ---------------- GPS time ---------------- *)
(* utc_range t : |t - GPS epoch| <= 2^62 ns  (1833-11 .. 2126-02; covers 1980..2100)
   dur_range d : |d| <= 4.6e18 ns (145 years) *)

(* the dumped leap-second table is the published IERS list (each table instant is the
   second before the step, 23:59:59), the dumped epoch is 1980-01-06 *)
Theorem C20_table_published :
  table_ns leap_table = map (fun s => ((s - 1) * 1000000000, 1000000000)) (map unix_of_civil iers_leap_dates)
  /\ gps_epoch_ns = unix_of_civil (1980, 1, 6) * 1000000000.
Proof. split; [exact table_published | exact epoch_published]. Qed.
Print Assumptions C20_table_published.

(* days_from_civil agrees with the calendar written the plain way on every day 1970-01-01 .. 2100-12-31 *)
Theorem C20_days_from_civil_calendar :
  calendar_ok (N.to_nat 47847) (1970, 1, 1) 0 = true /\ days_from_civil 2101 1 1 = 47847.
Proof. exact days_from_civil_calendar. Qed.
Print Assumptions C20_days_from_civil_calendar.

(* UTC -> GPS -> UTC is the identity *)
Theorem C20_utc_gps_utc : forall t, utc_range t -> from_gps (to_gps t) = t.
Proof. exact utc_gps_utc. Qed.
Print Assumptions C20_utc_gps_utc.

(* the offset applied equals the published GPS-UTC for that instant *)
Theorem C20_offset_published : forall t, utc_range t ->
  to_gps t - (t - gps_epoch_ns) = gps_minus_utc t * 1000000000.
Proof. exact offset_published. Qed.
Print Assumptions C20_offset_published.

(* strictly increasing *)
Theorem C20_strict_mono : forall t1 t2, utc_range t1 -> utc_range t2 -> t1 < t2 -> to_gps t1 < to_gps t2.
Proof. exact strict_mono. Qed.
Print Assumptions C20_strict_mono.

(* GPS -> UTC -> GPS is the identity except inside an inserted leap second ... *)
Theorem C20_gps_utc_gps : forall d, dur_range d -> in_inserted_leap_second d = false ->
  to_gps (from_gps d) = d /\ spec_to_gps (from_gps d) = d.
Proof. exact gps_utc_gps_both. Qed.
Print Assumptions C20_gps_utc_gps.

(* ... where the reading comes back exactly one second later *)
Theorem C20_gps_utc_gps_in_leap_second : forall d, dur_range d -> in_inserted_leap_second d = true ->
  to_gps (from_gps d) = d + 1000000000.
Proof. exact gps_utc_gps_in_leap. Qed.
Print Assumptions C20_gps_utc_gps_in_leap_second.

(* the code before commit "fix: gps leap-second offset applied one second early"
   violated the offset clause and the GPS->UTC->GPS clause (kept as a record of finding C20-1) *)
Theorem C20_orig_refuted :
  (let t := 1341100799500000000 in
   gps_minus_utc t = 15 /\ to_gps_orig t - (t - gps_epoch_ns) = 16 * 1000000000) /\
  (let d := 1025136014500000000 in
   in_inserted_leap_second d = false /\ to_gps_orig (from_gps_orig d) = d - 1000000000).
Proof. exact orig_refuted. Qed.
Print Assumptions C20_orig_refuted.

(* ---------------- airtime ---------------- *)
(* air_domain pl sf bw pre cr : 0<=pl<=255, 5<=sf<=12, bw in {125,250,500,812,1625} kHz, 0<=pre<=64, 1<=cr<=4.
   spec_*: Semtech time on air, SX126x/SX128x form for SF5/SF6 (n+6.25, no +8, 4*SF) and AN1200.13 form for SF7..12. *)

(* symbol count = the formula, for ALL payload sizes, header / LDRO settings and every SF >= 3; error exactly for CR outside 1..4 *)
Theorem C20_symbols_formula : forall pl sf cr header ldro, 3 <= sf ->
  payload_symbols pl sf cr header ldro =
  if (1 <=? cr) && (cr <=? 4) then Ok (spec_npayload pl sf cr header ldro) else Err.
Proof. exact symbols_formula. Qed.
Print Assumptions C20_symbols_formula.

(* the symbol-duration helper is the floor (in ns) of the formula's 2^SF / BW *)
Theorem C20_symbol_duration_floor : forall sf bw, 5 <= sf <= 12 -> In bw bw_list ->
  symbol_duration sf bw = Ok (Qfloor (spec_tsym sf bw)).
Proof. exact symbol_duration_floor. Qed.
Print Assumptions C20_symbol_duration_floor.

(* time on air = the formula's value truncated to whole nanoseconds, on the whole domain (no overflow, panic or error) *)
Theorem C20_airtime_formula : forall pl sf bw pre cr header ldro,
  air_domain pl sf bw pre cr ->
  airtime pl sf bw pre cr header ldro = Ok (Qfloor (spec_airtime pl sf bw pre cr header ldro)).
Proof. exact airtime_formula_floor. Qed.
Print Assumptions C20_airtime_formula.

(* for 125/250/500 kHz the formula's value is a whole number of ns: equality in Q *)
Theorem C20_airtime_formula_exact : forall pl sf bw pre cr header ldro,
  air_domain pl sf bw pre cr -> In bw [125; 250; 500] ->
  exists v, airtime pl sf bw pre cr header ldro = Ok v /\
            (inject_Z v == spec_airtime pl sf bw pre cr header ldro)%Q.
Proof. exact airtime_formula_exact. Qed.
Print Assumptions C20_airtime_formula_exact.

(* never decreases with the payload size *)
Theorem C20_airtime_mono : forall pl1 pl2 sf bw pre cr header ldro,
  air_domain pl1 sf bw pre cr -> air_domain pl2 sf bw pre cr -> pl1 <= pl2 ->
  exists v1 v2, airtime pl1 sf bw pre cr header ldro = Ok v1 /\
                airtime pl2 sf bw pre cr header ldro = Ok v2 /\ v1 <= v2.
Proof. exact airtime_mono. Qed.
Print Assumptions C20_airtime_mono.

(* the code before the two airtime repairs (findings C20-2, C20-3): SF5 used the SF7..12 expression
   (10 bytes, SF5, 125 kHz: 12.864 ms instead of 12.096 ms); with 812 kHz the truncated symbol duration was
   multiplied by the symbol count (255 bytes, SF7, CR 4/8: 287 ns below the truncated formula) *)
Theorem C20_airtime_orig_refuted :
  airtime_orig 10 5 125 8 1 true false = Ok 12864000 /\ Qfloor (spec_airtime 10 5 125 8 1 true false) = 12096000 /\
  airtime 10 5 125 8 1 true false = Ok 12096000 /\
  airtime_orig 255 7 812 8 4 true false = Ok 96512028 /\ Qfloor (spec_airtime 255 7 812 8 4 true false) = 96512315 /\
  airtime 255 7 812 8 4 true false = Ok 96512315.
Proof. exact airtime_orig_refuted. Qed.
Print Assumptions C20_airtime_orig_refuted.

(* ---------------- EIRP ---------------- *)
Theorem C20_eirp_table : eirp_table = [8; 10; 12; 13; 14; 16; 18; 20; 21; 24; 26; 27; 29; 30; 33; 36]%Q.
Proof. exact eirp_table_is_lorawan. Qed.
Print Assumptions C20_eirp_table.

(* for every rational power >= 8 dBm (every finite float32 is one): the index decodes to the
   largest table entry not exceeding the power, and the next entry (if any) exceeds it *)
Theorem C20_eirp_floor : forall p : Q, (8 <= p)%Q ->
  exists v, eirp_value (eirp_index p) = Ok v /\ In v lorawan_eirp_table /\ (v <= p)%Q /\
            (forall w, In w lorawan_eirp_table -> (w <= p)%Q -> (w <= v)%Q) /\
            (forall w, nth_error lorawan_eirp_table (S (N.to_nat (eirp_index p))) = Some w -> (p < w)%Q).
Proof. exact eirp_floor. Qed.
Print Assumptions C20_eirp_floor.

(* below the first entry the index is 0, which decodes to 8 dBm (more than requested) *)
Theorem C20_eirp_below : forall p : Q, (p < 8)%Q -> eirp_index p = 0%N /\ eirp_value (eirp_index p) = Ok 8%Q.
Proof. exact eirp_below. Qed.
Print Assumptions C20_eirp_below.

Theorem C20_eirp_decode_all : forall idx, (idx < 256)%N ->
  eirp_value idx = match nth_error lorawan_eirp_table (N.to_nat idx) with Some v => Ok v | None => Err end.
Proof. exact eirp_decode_all. Qed.
Print Assumptions C20_eirp_decode_all.

(* ---------------- sensitivity ---------------- *)
(* sensitivity.go itself (float32, math.Log10) is not modelled; every observed value is judged by the
   integer bracket sens_bracket (Corr/C20.v: CSens).  What the bracket means, over the real numbers:
   an accepted value is within 0.1 dB of  -174 + 10 log10(BW) + NF + SNR. *)
Theorem C20_sensitivity_bracket_sound : forall (bw : Z) (nfsnr o : Q),
  sens_bracket bw nfsnr o = true ->
  (0 < bw)%Z /\ (Rabs (Q2R o - (-174 + 10 * (ln (IZR bw) / ln 10) + Q2R nfsnr)) <= 1 / 10)%R.
Proof. exact sens_bracket_sound. Qed.
Print Assumptions C20_sensitivity_bracket_sound.

(* and the bracket raises no alarm on a value within 0.05 dB of the formula (a correctly rounded
   float32 result near -140..-90 dB is within 1e-5 dB of it) *)
Theorem C20_sensitivity_bracket_complete : forall (bw : Z) (nfsnr o : Q),
  (0 < bw)%Z ->
  (Rabs (Q2R o - (-174 + 10 * (ln (IZR bw) / ln 10) + Q2R nfsnr)) <= 1 / 20)%R ->
  sens_bracket bw nfsnr o = true.
Proof. exact sens_bracket_complete. Qed.
Print Assumptions C20_sensitivity_bracket_complete.

(* non-vacuity of the bracket: it accepts the value for 125 kHz, NF 6, SNR -20 and refuses one 0.2 dB off *)
Example C20_sensitivity_bracket_example :
  sens_bracket 125000 (-14) (-1370309 # 10000) = true /\ sens_bracket 125000 (-14) (-1368309 # 10000) = false.
Proof. split; [exact sens_bracket_accepts | exact sens_bracket_refuses]. Qed.

(* non-vacuity: concrete inputs inside the hypotheses *)
Example C20_example :
  to_gps 1341100800000000000 = 1025136016000000000 /\            (* 2012-07-01 00:00:00 UTC *)
  from_gps 1025136016000000000 = 1341100800000000000 /\
  in_inserted_leap_second 1025136015500000000 = true /\
  airtime 13 12 125 8 1 true false = Ok 1155072000 /\             (* airtime_test.go vector *)
  eirp_index (27.5)%Q = 11%N.
Proof. vm_compute. repeat split; reflexivity. Qed.
