(* The key derivations of keys.go are the TS005 derivations, for every key
   and every multicast address. *)
From Coq Require Import List NArith ZArith Bool Lia.
From LW Require Import Base.Outcome Base.Bytes App.Common App.Spec App.ProofTools
     App.McKeys App.McKeysSpec Crypto.AES.
Import ListNotations.
Open Scope N_scope.

Lemma block_addr t addr : addr_ok addr = true ->
  block_of t (devaddr_marshal addr) = pad16 (t :: le_bytes 4 (be_val addr)).
Proof.
  unfold addr_ok. intros H. apply andb_true_iff in H as [Hl Hb].
  apply Nat.eqb_eq in Hl. apply bytes_ok_Forall in Hb.
  rewrite le_bytes_be_val4 by assumption. unfold devaddr_marshal.
  destruct (length4 addr Hl) as (a & b & c & d & ->). reflexivity.
Qed.

Theorem mckeys_spec key addr : addr_ok addr = true ->
  mc_root_key_for_gen_app_key key = Ok (spec_root_gen key)
  /\ mc_root_key_for_app_key key = Ok (spec_root_app key)
  /\ mc_ke_key key = Ok (spec_ke key)
  /\ mc_app_s_key key addr = Ok (spec_app_s key (be_val addr))
  /\ mc_net_s_key key addr = Ok (spec_net_s key (be_val addr)).
Proof.
  intros Ha.
  assert (Z16 : pad16 [0x00] = repeat 0 16) by reflexivity.
  assert (B20 : pad16 [0x20] = block_of 0x20 []) by reflexivity.
  split; [|split; [|split; [|split]]].
  - unfold mc_root_key_for_gen_app_key, get_key, spec_root_gen. now rewrite Z16.
  - unfold mc_root_key_for_app_key, get_key, spec_root_app. now rewrite B20.
  - unfold mc_ke_key, get_key, spec_ke. now rewrite Z16.
  - unfold mc_app_s_key, get_key, spec_app_s. now rewrite block_addr.
  - unfold mc_net_s_key, get_key, spec_net_s. now rewrite block_addr.
Qed.

Theorem mckeys_no_panic key addr :
  mc_root_key_for_gen_app_key key <> Panic /\ mc_root_key_for_app_key key <> Panic
  /\ mc_ke_key key <> Panic /\ mc_app_s_key key addr <> Panic /\ mc_net_s_key key addr <> Panic.
Proof. unfold mc_root_key_for_gen_app_key, mc_root_key_for_app_key, mc_ke_key, mc_app_s_key, mc_net_s_key, get_key. repeat split; discriminate. Qed.
