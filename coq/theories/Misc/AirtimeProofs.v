(* Proofs of the airtime clauses of C20: the model of airtime.go equals the
   AN1200.13 formula (AirtimeSpec.v) and never decreases with the payload. *)
From Coq Require Import List ZArith QArith Qround Bool Lia Lqa.
From LW Require Import Base.Outcome Misc.Airtime Misc.AirtimeSpec.
Import ListNotations.
Open Scope Z_scope.

(* ---- symbol count ---- *)
Lemma Qceiling_div a b : Qceiling (inject_Z a / inject_Z b) = ceil_div a b.
Proof.
  unfold Qceiling, ceil_div. f_equal. rewrite Zdiv_Qdiv. apply Qfloor_comp.
  rewrite inject_Z_opp. unfold Qdiv. ring.
Qed.

Lemma sym_a_q pl sf header :
  (8 * zq pl - 4 * zq sf + 28 + 16 * 1 - 20 * bq (negb header) == inject_Z (sym_a pl sf header))%Q.
Proof. unfold sym_a, zq, Qeq. destruct header; cbn [Qnum Qden Qplus Qminus Qmult Qopp inject_Z bq negb b2z Pos.mul]; lia. Qed.

Lemma sym_b_q sf ldro : (4 * (zq sf - 2 * bq ldro) == inject_Z (sym_b sf ldro))%Q.
Proof. unfold sym_b, zq, Qeq. destruct ldro; cbn [Qnum Qden Qplus Qminus Qmult Qopp inject_Z bq negb b2z Pos.mul]; lia. Qed.

Lemma spec_npayload_model pl sf cr header ldro :
  spec_npayload pl sf cr header ldro
  = 8 + Z.max (ceil_div (sym_a pl sf header) (sym_b sf ldro) * (cr + 4)) 0.
Proof.
  unfold spec_npayload. f_equal. f_equal. f_equal.
  rewrite <- Qceiling_div. apply Qceiling_comp.
  rewrite sym_a_q, sym_b_q. reflexivity.
Qed.

(* for every payload size, spreading factor, header and LDRO setting: the
   count is the formula's, or an error exactly for coding rates outside 1..4 *)
Theorem symbols_formula pl sf cr header ldro :
  payload_symbols pl sf cr header ldro =
  if (1 <=? cr) && (cr <=? 4) then Ok (spec_npayload pl sf cr header ldro) else Err.
Proof.
  unfold payload_symbols. rewrite spec_npayload_model.
  destruct (Z.ltb_spec cr 1), (Z.ltb_spec 4 cr), (Z.leb_spec 1 cr), (Z.leb_spec cr 4); cbn; try lia; reflexivity.
Qed.

(* ---- the property's domain ---- *)
Definition bw_list : list Z := [125; 250; 500; 812; 1625].
Definition air_domain (pl sf bw pre cr : Z) : Prop :=
  0 <= pl <= 255 /\ 5 <= sf <= 12 /\ In bw bw_list /\ 0 <= pre <= 64 /\ 1 <= cr <= 4.

Ltac Zify.zify_post_hook ::= Z.div_mod_to_equations.

Lemma wrap64_id z : - 9223372036854775808 <= z < 9223372036854775808 -> wrap64 z = z.
Proof.
  intros H. unfold wrap64.
  destruct ((-9223372036854775808 <=? z) && (z <=? 9223372036854775807)) eqn:E; [reflexivity|].
  rewrite Z.mod_small; lia.
Qed.

Ltac split_sf sf :=
  let H := fresh in
  assert (H : sf = 5 \/ sf = 6 \/ sf = 7 \/ sf = 8 \/ sf = 9 \/ sf = 10 \/ sf = 11 \/ sf = 12) by lia;
  destruct H as [->|[->|[->|[->|[->|[->|[->| ->]]]]]]].
Ltac split_cr cr :=
  let H := fresh in
  assert (H : cr = 1 \/ cr = 2 \/ cr = 3 \/ cr = 4) by lia;
  destruct H as [->|[->|[->| ->]]].

(* ---- monotone in the payload size (any payload sizes, any sf with sf - 2*de > 0) ---- *)
Lemma ceil_div_mono a1 a2 b : 0 < b -> a1 <= a2 -> ceil_div a1 b <= ceil_div a2 b.
Proof.
  intros Hb Ha. unfold ceil_div.
  assert ((- a2) / b <= (- a1) / b) by (apply Z.div_le_mono; lia). lia.
Qed.

Lemma npayload_mono pl1 pl2 sf cr header ldro :
  0 < sym_b sf ldro -> 1 <= cr -> pl1 <= pl2 ->
  spec_npayload pl1 sf cr header ldro <= spec_npayload pl2 sf cr header ldro.
Proof.
  intros Hb Hc Hp. rewrite !spec_npayload_model.
  assert (H : ceil_div (sym_a pl1 sf header) (sym_b sf ldro) <= ceil_div (sym_a pl2 sf header) (sym_b sf ldro)).
  { apply ceil_div_mono; [assumption|]. unfold sym_a. lia. }
  assert (H2 : ceil_div (sym_a pl1 sf header) (sym_b sf ldro) * (cr + 4)
               <= ceil_div (sym_a pl2 sf header) (sym_b sf ldro) * (cr + 4)).
  { apply Z.mul_le_mono_nonneg_r; lia. }
  lia.
Qed.

Lemma npayload_bounds pl sf cr header ldro :
  0 <= pl <= 255 -> 5 <= sf <= 12 -> 1 <= cr <= 4 ->
  8 <= spec_npayload pl sf cr header ldro <= 1392.
Proof.
  intros Hp Hs Hc. rewrite spec_npayload_model. unfold ceil_div, sym_a, sym_b.
  split_sf sf; split_cr cr; destruct header, ldro; cbn [b2z negb]; lia.
Qed.

(* ---- the whole computation on the domain: no wrap-around, no panic, no error ---- *)
Definition sym_dur (sf bw : Z) : Z := 2 ^ sf * 1000000 / bw.   (* floor of 2^SF * 10^6 / BW *)

Definition airtime_closed_form (pl sf bw pre cr : Z) (header ldro : bool) : Z :=
  (100 * pre + 425) * sym_dur sf bw / 100 + spec_npayload pl sf cr header ldro * sym_dur sf bw.

Ltac split_bw H := cbn [In bw_list] in H; destruct H as [<-|[<-|[<-|[<-|[<-|[]]]]]].

Ltac eval_closed t := let x := eval vm_compute in t in change t with x.

Lemma symbol_duration_domain sf bw : 5 <= sf <= 12 -> In bw bw_list ->
  symbol_duration sf bw = Ok (sym_dur sf bw) /\ 19692 <= sym_dur sf bw <= 32768000.
Proof.
  intros Hs Hb. split_sf sf; split_bw Hb; vm_compute; (split; [reflexivity|split; discriminate]).
Qed.

Theorem airtime_closed pl sf bw pre cr header ldro : air_domain pl sf bw pre cr ->
  airtime pl sf bw pre cr header ldro = Ok (airtime_closed_form pl sf bw pre cr header ldro).
Proof.
  intros (Hp & Hs & Hb & Hpre & Hc). unfold airtime, airtime_closed_form.
  destruct (symbol_duration_domain sf bw Hs Hb) as [-> Hsd]. cbn [bind].
  rewrite symbols_formula.
  replace ((1 <=? cr) && (cr <=? 4)) with true by lia. cbn [bind].
  pose proof (npayload_bounds pl sf cr header ldro Hp Hs Hc) as Hn.
  generalize dependent (spec_npayload pl sf cr header ldro). intros n Hn.
  generalize dependent (sym_dur sf bw). intros sd Hsd.
  unfold preamble_duration.
  rewrite (wrap64_id (100 * pre)) by lia.
  rewrite (wrap64_id (100 * pre + 425)) by lia.
  assert (0 <= (100 * pre + 425) * sd <= 6825 * 32768000) by nia.
  assert (0 <= n * sd <= 1392 * 32768000) by nia.
  rewrite (wrap64_id ((100 * pre + 425) * sd)) by lia.
  rewrite Z.quot_div_nonneg by lia.
  rewrite (wrap64_id ((100 * pre + 425) * sd / 100)) by lia.
  rewrite (wrap64_id (n * sd)) by lia.
  rewrite wrap64_id by lia. reflexivity.
Qed.

(* ---- monotone in the payload size on the domain ---- *)
Theorem airtime_mono pl1 pl2 sf bw pre cr header ldro :
  air_domain pl1 sf bw pre cr -> air_domain pl2 sf bw pre cr -> pl1 <= pl2 ->
  exists v1 v2, airtime pl1 sf bw pre cr header ldro = Ok v1 /\
                airtime pl2 sf bw pre cr header ldro = Ok v2 /\ v1 <= v2.
Proof.
  intros D1 D2 Hle. exists (airtime_closed_form pl1 sf bw pre cr header ldro), (airtime_closed_form pl2 sf bw pre cr header ldro).
  rewrite !airtime_closed by assumption. split; [reflexivity|split; [reflexivity|]].
  destruct D1 as (Hp & Hs & Hb & Hpre & Hc).
  destruct (symbol_duration_domain sf bw Hs Hb) as [_ Hsd].
  unfold airtime_closed_form.
  assert (Hn : spec_npayload pl1 sf cr header ldro <= spec_npayload pl2 sf cr header ldro).
  { apply npayload_mono; [|lia|assumption]. unfold sym_b. destruct ldro; cbn [b2z]; lia. }
  assert (spec_npayload pl1 sf cr header ldro * sym_dur sf bw <= spec_npayload pl2 sf cr header ldro * sym_dur sf bw).
  { apply Z.mul_le_mono_nonneg_r; lia. }
  lia.
Qed.

(* ---- against the formula over Q ---- *)
Lemma spec_airtime_unfold pl sf bw pre cr header ldro :
  spec_airtime pl sf bw pre cr header ldro =
  ((zq pre + 4.25) * spec_tsym sf bw + zq (spec_npayload pl sf cr header ldro) * spec_tsym sf bw)%Q.
Proof. reflexivity. Qed.

(* moves integer facts into Q and closes linear goals over Q *)
Ltac z2q H := first [rewrite Zle_Qle in H | rewrite Zlt_Qlt in H].
Ltac push_q P n pre :=
  unfold zq in *; repeat (rewrite inject_Z_plus in * || rewrite inject_Z_mult in * );
  let qP := fresh "qP" in let qn := fresh "qn" in let qpre := fresh "qpre" in
  set (qP := inject_Z P) in *; set (qn := inject_Z n) in *; set (qpre := inject_Z pre) in *;
  clearbody qP qn qpre; unfold inject_Z in *.

(* the symbol duration the code uses is the floor of the formula's *)
Theorem symbol_duration_floor sf bw : 5 <= sf <= 12 -> In bw bw_list ->
  symbol_duration sf bw = Ok (Qfloor (spec_tsym sf bw)).
Proof.
  intros Hs Hb. split_sf sf; split_bw Hb; vm_compute; reflexivity.
Qed.

(* observed value v against the formula's value s with S symbols in total *)
Definition within_truncation (v : Z) (s S : Q) : Prop := (s - (S + 1) < inject_Z v /\ inject_Z v <= s)%Q.

Theorem airtime_formula_bound pl sf bw pre cr header ldro : air_domain pl sf bw pre cr ->
  exists v, airtime pl sf bw pre cr header ldro = Ok v /\
  within_truncation v (spec_airtime pl sf bw pre cr header ldro) (spec_total_symbols pl sf pre cr header ldro).
Proof.
  intros D. exists (airtime_closed_form pl sf bw pre cr header ldro).
  split; [apply airtime_closed; assumption|].
  destruct D as (Hp & Hs & Hb & Hpre & Hc).
  pose proof (npayload_bounds pl sf cr header ldro Hp Hs Hc) as Hn.
  unfold within_truncation, airtime_closed_form, spec_total_symbols. rewrite spec_airtime_unfold.
  generalize dependent (spec_npayload pl sf cr header ldro). intros n Hn.
  destruct Hn as [Hn1 Hn2]. destruct Hpre as [Hq1 Hq2].
  split_sf sf; split_bw Hb;
    match goal with |- context [sym_dur ?a ?b] => eval_closed (sym_dur a b) end;
    match goal with |- context [spec_tsym ?a ?b] => eval_closed (spec_tsym a b) end;
    match goal with |- context [(?x * ?k / 100)%Z] =>
      let P := fresh "P" in
      assert (HP : 100 * (x * k / 100) <= x * k < 100 * (x * k / 100) + 100) by lia;
      set (P := (x * k / 100)%Z) in *; clearbody P;
      destruct HP as [HP1 HP2]; z2q HP1; z2q HP2; z2q Hn1; z2q Hn2; z2q Hq1; z2q Hq2;
      push_q P n pre end;
    split; lra.
Qed.

Theorem airtime_formula_exact pl sf bw pre cr header ldro : air_domain pl sf bw pre cr ->
  In bw [125; 250; 500] ->
  exists v, airtime pl sf bw pre cr header ldro = Ok v /\
  (inject_Z v == spec_airtime pl sf bw pre cr header ldro)%Q.
Proof.
  intros D Hb3. exists (airtime_closed_form pl sf bw pre cr header ldro).
  split; [apply airtime_closed; assumption|].
  destruct D as (Hp & Hs & Hb & Hpre & Hc).
  unfold airtime_closed_form. rewrite spec_airtime_unfold.
  generalize (spec_npayload pl sf cr header ldro). intros n.
  cbn [In] in Hb3.
  split_sf sf; destruct Hb3 as [<-|[<-|[<-|[]]]];
    match goal with |- context [sym_dur ?a ?b] => eval_closed (sym_dur a b) end;
    match goal with |- context [spec_tsym ?a ?b] => eval_closed (spec_tsym a b) end;
    match goal with |- context [(?x * ?k / 100)%Z] =>
      let P := fresh "P" in
      assert (HP1 : 100 * (x * k / 100) <= x * k) by lia;
      assert (HP2 : x * k <= 100 * (x * k / 100)) by lia;
      set (P := (x * k / 100)%Z) in *; clearbody P;
      z2q HP1; z2q HP2; push_q P n pre end;
    lra.
Qed.
