(* C10 (M3): lock discipline of one RWMutex-protected cell (the MAC payload
   registry [macPayloadRegistry] guarded by [macPayloadMutex], mac_commands.go).

   Threads run straight-line programs over
     ORLock | ORUnlock | OLock | OUnlock   operations of the sync.RWMutex
     ORead | OWrite                        accesses of the protected cell
     OBad                                  "the summary pass could not classify this" (never steps)
   under an interleaving small-step semantics for any number of threads.
   Memory accesses are NOT guarded by the semantics (a Read or Write is always
   enabled): that they are protected is what the discipline theorem shows.

   What is modelled of sync.RWMutex: RLock waits while a writer holds the lock;
   Lock waits while a writer or any reader holds it; RUnlock / Unlock of a lock
   that is not held is a fatal error (no step).  Writer preference / starvation,
   the Go memory model (happens-before edges of lock operations) and the
   scheduler are not modelled.  No proofs in this file. *)
From Coq Require Import List Bool Arith.
Import ListNotations.

Inductive op := ORLock | ORUnlock | OLock | OUnlock | ORead | OWrite | OBad.
Definition program := list op.

(* what a thread holds (ghost state: sync.RWMutex does not record owners) *)
Inductive mode := MNone | MR | MW.

Definition mode_eqb (a b : mode) : bool :=
  match a, b with MNone, MNone | MR, MR | MW, MW => true | _, _ => false end.

(* sequential discipline of one program: accesses only while holding the right lock *)
Definition seq_step (m : mode) (o : op) : option mode :=
  match o, m with
  | ORLock, MNone => Some MR
  | ORUnlock, MR => Some MNone
  | OLock, MNone => Some MW
  | OUnlock, MW => Some MNone
  | ORead, MR => Some MR
  | ORead, MW => Some MW
  | OWrite, MW => Some MW
  | _, _ => None
  end.

Fixpoint wl_from (m : mode) (p : program) : bool :=
  match p with
  | [] => mode_eqb m MNone
  | o :: p' => match seq_step m o with Some m' => wl_from m' p' | None => false end
  end.

Definition well_locked (p : program) : bool := wl_from MNone p.

(* ---- concurrent semantics ---- *)
Record mutex := mkMutex { writer : bool; readers : nat }.
Definition thread := (mode * program)%type.
Record state := mkState { mu : mutex; threads : list thread }.

Inductive tstep : mutex -> thread -> mutex -> thread -> Prop :=
| TRLock r m p : tstep (mkMutex false r) (m, ORLock :: p) (mkMutex false (S r)) (MR, p)
| TRUnlock w r m p : tstep (mkMutex w (S r)) (m, ORUnlock :: p) (mkMutex w r) (MNone, p)
| TLock m p : tstep (mkMutex false 0) (m, OLock :: p) (mkMutex true 0) (MW, p)
| TUnlock r m p : tstep (mkMutex true r) (m, OUnlock :: p) (mkMutex false r) (MNone, p)
| TRead x m p : tstep x (m, ORead :: p) x (m, p)
| TWrite x m p : tstep x (m, OWrite :: p) x (m, p).

Inductive step : state -> state -> Prop :=
| Step x x' l1 t t' l2 : tstep x t x' t' -> step (mkState x (l1 ++ t :: l2)) (mkState x' (l1 ++ t' :: l2)).

Inductive reach : state -> state -> Prop :=
| reach_refl s : reach s s
| reach_step s1 s2 s3 : reach s1 s2 -> step s2 s3 -> reach s1 s3.

Definition init (ps : list program) : state :=
  mkState (mkMutex false 0) (map (fun p => (MNone, p)) ps).

(* a data race: two different threads whose next operations are accesses of the cell, one of them a write *)
Definition next_access (t : thread) : option op :=
  match snd t with
  | ORead :: _ => Some ORead
  | OWrite :: _ => Some OWrite
  | _ => None
  end.

Definition conflict (t1 t2 : thread) : Prop :=
  match next_access t1, next_access t2 with
  | Some OWrite, Some _ => True
  | Some _, Some OWrite => True
  | _, _ => False
  end.

Definition race (s : state) : Prop :=
  exists l1 t1 l2 t2 l3, threads s = l1 ++ t1 :: l2 ++ t2 :: l3 /\ conflict t1 t2.

(* obligations on the generated summary *)
Definition all_well_locked {A} (summary : list (A * program)) : bool :=
  forallb (fun e => well_locked (snd e)) summary.
