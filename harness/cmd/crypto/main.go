// Correspondence harness for the cryptographic primitives (LW.Crypto.*):
// runs the implementations the repository calls -- crypto/aes,
// github.com/jacobsa/crypto/cmac, github.com/NickBall/go-aes-key-wrap -- on
// seeded inputs and prints the observed outputs as cases of LW.Corr.Crypto.
package main

import (
	"crypto/aes"
	"fmt"
	"os"

	keywrap "github.com/NickBall/go-aes-key-wrap"
	"github.com/jacobsa/crypto/cmac"

	"verifharness/internal/cases"
	"verifharness/internal/cq"
)

func hx(b []byte) string { return fmt.Sprintf("%x", b) }

// keys: structured first, then random
func pickKey(r *cq.RNG, i int) []byte {
	k := make([]byte, 16)
	switch i {
	case 0: // all zero
	case 1:
		for j := range k {
			k[j] = 0xff
		}
	case 2:
		for j := range k {
			k[j] = byte(j)
		}
	case 3: // FIPS-197 / RFC 4493 key
		copy(k, []byte{0x2b, 0x7e, 0x15, 0x16, 0x28, 0xae, 0xd2, 0xa6, 0xab, 0xf7, 0x15, 0x88, 0x09, 0xcf, 0x4f, 0x3c})
	case 4: // single bit
		k[r.Intn(16)] = 1 << uint(r.Intn(8))
	default:
		k = r.Bytes(16)
	}
	return k
}

func pickData(r *cq.RNG, i, n int) []byte {
	d := make([]byte, n)
	switch i % 6 {
	case 0: // all zero
	case 1:
		for j := range d {
			d[j] = 0xff
		}
	case 2:
		if n > 0 {
			d[r.Intn(n)] = 1 << uint(r.Intn(8))
		}
	default:
		d = r.Bytes(n)
	}
	return d
}

func aesCase(s *cases.Set, k, b []byte, dec bool) {
	block, err := aes.NewCipher(k)
	if err != nil {
		s.Fail(cases.GoFail{Key: "aes:newcipher:" + hx(k), What: "aes.NewCipher failed on a 16-byte key: " + err.Error(),
			Replay: map[string]interface{}{"api": "crypto/aes.NewCipher", "key": hx(k)}})
		return
	}
	o := make([]byte, 16)
	name, ctor := "enc", "CAesEnc"
	if dec {
		block.Decrypt(o, b)
		name, ctor = "dec", "CAesDec"
	} else {
		block.Encrypt(o, b)
	}
	s.Add(cases.Case{Term: fmt.Sprintf("%s %s %s %s", ctor, cq.Bytes(k), cq.Bytes(b), cq.Bytes(o)),
		Key: fmt.Sprintf("aes-%s:key=%s:block=%s", name, hx(k), hx(b)), Kind: "aes-" + name, Nontrivial: true,
		Replay: map[string]interface{}{"api": "crypto/aes Block." + map[bool]string{false: "Encrypt", true: "Decrypt"}[dec],
			"key": hx(k), "block": hx(b), "observed": hx(o)}})
}

func cmacCase(s *cases.Set, k, m []byte) {
	h, err := cmac.New(k)
	if err != nil {
		s.Fail(cases.GoFail{Key: "cmac:new:" + hx(k), What: "cmac.New failed on a 16-byte key: " + err.Error(),
			Replay: map[string]interface{}{"api": "jacobsa/crypto/cmac.New", "key": hx(k)}})
		return
	}
	// the repository writes the message in pieces (B0 block, then the frame)
	if len(m) > 3 {
		h.Write(m[:3])
		h.Write(m[3:])
	} else {
		h.Write(m)
	}
	o := h.Sum(nil)
	s.Add(cases.Case{Term: fmt.Sprintf("CCmac %s %s %s", cq.Bytes(k), cq.Bytes(m), cq.Bytes(o)),
		Key: fmt.Sprintf("cmac:key=%s:len=%d:msg=%s", hx(k), len(m), hx(m)), Kind: fmt.Sprintf("cmac-blocks%d", (len(m)+15)/16),
		Nontrivial: true,
		Replay:     map[string]interface{}{"api": "jacobsa/crypto/cmac New/Write/Sum", "key": hx(k), "msg": hx(m), "observed": hx(o)}})
}

func wrapCase(s *cases.Set, kek, p []byte) []byte {
	block, _ := aes.NewCipher(kek)
	o, err := keywrap.Wrap(block, p)
	if err != nil {
		s.Fail(cases.GoFail{Key: "wrap:error:" + hx(kek) + ":" + hx(p), What: "keywrap.Wrap failed on whole 8-byte blocks: " + err.Error(),
			Replay: map[string]interface{}{"api": "go-aes-key-wrap.Wrap", "kek": hx(kek), "plain": hx(p)}})
		return nil
	}
	s.Add(cases.Case{Term: fmt.Sprintf("CWrap %s %s %s", cq.Bytes(kek), cq.Bytes(p), cq.Bytes(o)),
		Key: fmt.Sprintf("wrap:kek=%s:plain=%s", hx(kek), hx(p)), Kind: fmt.Sprintf("wrap-n%d", len(p)/8), Nontrivial: true,
		Replay: map[string]interface{}{"api": "go-aes-key-wrap.Wrap", "kek": hx(kek), "plain": hx(p), "observed": hx(o)}})
	return o
}

func unwrapCase(s *cases.Set, kek, d []byte, kind string) {
	block, _ := aes.NewCipher(kek)
	var o []byte
	var err error
	panicked := false
	func() {
		defer func() {
			if recover() != nil {
				panicked = true
			}
		}()
		o, err = keywrap.Unwrap(block, d)
	}()
	if panicked { // only for inputs shorter than 16 bytes, which are not generated
		s.Fail(cases.GoFail{Key: "unwrap:panic:" + hx(kek) + ":" + hx(d), What: "keywrap.Unwrap panicked on an input of >= 16 bytes",
			Replay: map[string]interface{}{"api": "go-aes-key-wrap.Unwrap", "kek": hx(kek), "data": hx(d)}})
		return
	}
	obs := cq.None
	oh := "error"
	if err == nil {
		obs = cq.Some(cq.Bytes(o))
		oh = hx(o)
	}
	s.Add(cases.Case{Term: fmt.Sprintf("CUnwrap %s %s %s", cq.Bytes(kek), cq.Bytes(d), obs),
		Key: fmt.Sprintf("unwrap:kek=%s:data=%s", hx(kek), hx(d)), Kind: "unwrap-" + kind, Nontrivial: true,
		Replay: map[string]interface{}{"api": "go-aes-key-wrap.Unwrap", "kek": hx(kek), "data": hx(d), "observed": oh}})
}

// ---- keys of every length: AES-128/192/256 and the key-size error ----

func anyKey(r *cq.RNG, i, n int) []byte {
	k := make([]byte, n)
	switch i % 7 {
	case 0: // all zero
	case 1:
		for j := range k {
			k[j] = 0xff
		}
	case 2: // 00 01 02 ... (FIPS-197 appendix C, RFC 3394 section 4)
		for j := range k {
			k[j] = byte(j)
		}
	case 3: // the second half repeats the first
		copy(k, r.Bytes(n))
		if n >= 16 {
			copy(k[n-16:], k[:16])
		}
	case 4: // single bit in the last byte (beyond the first 16 bytes for 24/32-byte keys)
		if n > 0 {
			k[n-1] = 1 << uint(r.Intn(8))
		}
	default:
		k = r.Bytes(n)
	}
	return k
}

func optBytes(b []byte, ok bool) (string, string) {
	if !ok {
		return cq.None, "key size error"
	}
	return cq.Some(cq.Bytes(b)), hx(b)
}

func aesAnyCase(s *cases.Set, k, b []byte, dec bool) {
	block, err := aes.NewCipher(k)
	o := make([]byte, 16)
	name, ctor := "enc", "CAesEncAny"
	if dec {
		name, ctor = "dec", "CAesDecAny"
	}
	if err == nil {
		if dec {
			block.Decrypt(o, b)
		} else {
			block.Encrypt(o, b)
		}
	}
	term, oh := optBytes(o, err == nil)
	s.Add(cases.Case{Term: fmt.Sprintf("%s %s %s %s", ctor, cq.Bytes(k), cq.Bytes(b), term),
		Key: fmt.Sprintf("aes-any-%s:keylen=%d:key=%s:block=%s", name, len(k), hx(k), hx(b)), Kind: fmt.Sprintf("aes-any-%s-keylen%d", name, len(k)), Nontrivial: true,
		Replay: map[string]interface{}{"api": "crypto/aes NewCipher + Block." + map[bool]string{false: "Encrypt", true: "Decrypt"}[dec],
			"key": hx(k), "block": hx(b), "observed": oh}})
}

func wrapAnyCase(s *cases.Set, kek, p []byte) []byte {
	block, err := aes.NewCipher(kek)
	var o []byte
	if err == nil {
		var werr error
		o, werr = keywrap.Wrap(block, p)
		if werr != nil {
			s.Fail(cases.GoFail{Key: "wrap-any:error:" + hx(kek) + ":" + hx(p), What: "keywrap.Wrap failed on whole 8-byte blocks: " + werr.Error(),
				Replay: map[string]interface{}{"api": "go-aes-key-wrap.Wrap", "kek": hx(kek), "plain": hx(p)}})
			return nil
		}
	}
	term, oh := optBytes(o, err == nil)
	s.Add(cases.Case{Term: fmt.Sprintf("CWrapAny %s %s %s", cq.Bytes(kek), cq.Bytes(p), term),
		Key: fmt.Sprintf("wrap-any:keklen=%d:kek=%s:plain=%s", len(kek), hx(kek), hx(p)), Kind: fmt.Sprintf("wrap-any-keklen%d-n%d", len(kek), len(p)/8), Nontrivial: true,
		Replay: map[string]interface{}{"api": "crypto/aes NewCipher + go-aes-key-wrap.Wrap", "kek": hx(kek), "plain": hx(p), "observed": oh}})
	return o
}

func unwrapAnyCase(s *cases.Set, kek, d []byte, kind string) {
	block, err := aes.NewCipher(kek)
	obs, oh := cq.None, "key size error"
	if err == nil {
		var o []byte
		var uerr error
		panicked := false
		func() {
			defer func() {
				if recover() != nil {
					panicked = true
				}
			}()
			o, uerr = keywrap.Unwrap(block, d)
		}()
		if panicked {
			s.Fail(cases.GoFail{Key: "unwrap-any:panic:" + hx(kek) + ":" + hx(d), What: "keywrap.Unwrap panicked on an input of >= 16 bytes",
				Replay: map[string]interface{}{"api": "go-aes-key-wrap.Unwrap", "kek": hx(kek), "data": hx(d)}})
			return
		}
		if uerr == nil {
			obs, oh = cq.Some(cq.Some(cq.Bytes(o))), hx(o)
		} else {
			obs, oh = cq.Some(cq.None), "integrity error"
		}
	}
	s.Add(cases.Case{Term: fmt.Sprintf("CUnwrapAny %s %s %s", cq.Bytes(kek), cq.Bytes(d), obs),
		Key: fmt.Sprintf("unwrap-any:keklen=%d:kek=%s:data=%s", len(kek), hx(kek), hx(d)), Kind: fmt.Sprintf("unwrap-any-keklen%d-%s", len(kek), kind), Nontrivial: true,
		Replay: map[string]interface{}{"api": "crypto/aes NewCipher + go-aes-key-wrap.Unwrap", "kek": hx(kek), "data": hx(d), "observed": oh}})
}

func anyCases(s *cases.Set, r *cq.RNG, thorough bool) {
	nAes, nWrap := 14, 5
	if thorough {
		nAes, nWrap = 500, 130
	}
	c1 := []byte{0x00, 0x11, 0x22, 0x33, 0x44, 0x55, 0x66, 0x77, 0x88, 0x99, 0xaa, 0xbb, 0xcc, 0xdd, 0xee, 0xff}
	// FIPS-197 C.1 / C.2 / C.3 and RFC 3394 4.1 .. 4.6 first
	for _, kl := range []int{16, 24, 32} {
		aesAnyCase(s, anyKey(r, 2, kl), c1, false)
		for _, pl := range []int{16, 24, 32} {
			if pl <= kl {
				p := append(append([]byte{}, c1...), anyKey(r, 2, pl-16)...)
				if w := wrapAnyCase(s, anyKey(r, 2, kl), p); w != nil {
					unwrapAnyCase(s, anyKey(r, 2, kl), w, "valid")
				}
			}
		}
	}
	for _, kl := range []int{16, 24, 32} {
		for i := 0; i < nAes; i++ {
			k := anyKey(r, i, kl)
			b := pickData(r, i/7, 16)
			aesAnyCase(s, k, b, false)
			aesAnyCase(s, k, b, true)
		}
		for i := 0; i < nWrap; i++ {
			kek := anyKey(r, i+2, kl)
			n := 2
			if i%3 == 1 {
				n = 1 + r.Intn(5)
			}
			p := pickData(r, i, 8*n)
			w := wrapAnyCase(s, kek, p)
			if w == nil {
				continue
			}
			unwrapAnyCase(s, kek, w, "valid")
			c := append([]byte{}, w...)
			c[r.Intn(len(c))] ^= 1 << uint(r.Intn(8))
			unwrapAnyCase(s, kek, c, "bitflip")
			k2 := append([]byte{}, kek...)
			k2[kl-1-r.Intn(8)] ^= 1 << uint(r.Intn(8)) // one of the last 8 bytes of the KEK
			unwrapAnyCase(s, k2, w, "wrong-kek-tail-bit")
			switch kl {
			case 16:
				unwrapAnyCase(s, append(append([]byte{}, kek...), kek[:8]...), w, "wrong-kek-other-size")
			default:
				unwrapAnyCase(s, kek[:16], w, "wrong-kek-other-size")
			}
			unwrapAnyCase(s, kek, append(append([]byte{}, w...), r.Bytes(1+r.Intn(7))...), "valid-plus-partial-block")
			unwrapAnyCase(s, kek, r.Bytes(16+r.Intn(32)), "random-length")
		}
	}
	// key sizes crypto/aes refuses
	for _, kl := range []int{0, 1, 8, 15, 17, 20, 23, 25, 31, 33, 40, 48, 64} {
		aesAnyCase(s, anyKey(r, 5, kl), r.Bytes(16), false)
		aesAnyCase(s, anyKey(r, 5, kl), r.Bytes(16), true)
		wrapAnyCase(s, anyKey(r, 5, kl), r.Bytes(16))
		unwrapAnyCase(s, anyKey(r, 5, kl), r.Bytes(24), "bad-kek-size")
	}
	s.Exhaustive("key sizes 0, 1, 8, 15, 16, 17, 20, 23, 24, 25, 31, 32, 33, 40, 48, 64 through crypto/aes.NewCipher: accepted exactly for 16, 24, 32")
}

func main() {
	dir, seed, thorough := cases.Args()
	r := cq.NewRNG(seed)
	s := cases.New("crypto", dir, "LW.Corr.Crypto",
		"AES-128 encrypt/decrypt on structured and random keys/blocks; CMAC on every message length 0..80 (plus long ones); key wrap of 1..5 blocks and unwrap of valid, bit-flipped, truncated/extended and random ciphertexts; AES-128/192/256 encrypt/decrypt and key wrap/unwrap under 16/24/32-byte keys (FIPS-197 C.1-C.3 and RFC 3394 4.1-4.6 first, structured and random keys, wrong KEK of the same and of another size) and the key-size error for every other length; every case is non-trivial (distinct = distinct printed case)")
	nAes, nCmacExtra, nWrap := 45, 20, 22
	if thorough {
		nAes, nCmacExtra, nWrap = 1500, 800, 400
	}
	// ---- fixed vectors first (FIPS-197 C.1, RFC 4493, RFC 3394 4.1) ----
	seqKey := pickKey(r, 2)
	c1 := []byte{0x00, 0x11, 0x22, 0x33, 0x44, 0x55, 0x66, 0x77, 0x88, 0x99, 0xaa, 0xbb, 0xcc, 0xdd, 0xee, 0xff}
	aesCase(s, seqKey, c1, false)
	aesCase(s, seqKey, []byte{0x69, 0xc4, 0xe0, 0xd8, 0x6a, 0x7b, 0x04, 0x30, 0xd8, 0xcd, 0xb7, 0x80, 0x70, 0xb4, 0xc5, 0x5a}, true)
	cmacCase(s, pickKey(r, 3), nil)
	if w := wrapCase(s, seqKey, c1); w != nil {
		unwrapCase(s, seqKey, w, "valid")
	}
	// ---- AES ----
	for i := 0; i < nAes; i++ {
		k := pickKey(r, i%9)
		b := pickData(r, i/9, 16)
		aesCase(s, k, b, false)
		aesCase(s, k, b, true)
	}
	// ---- CMAC: every length 0..80, then random longer messages ----
	for n := 0; n <= 80; n++ {
		cmacCase(s, pickKey(r, 5+n%3), pickData(r, 3+n%4, n))
	}
	for _, n := range []int{0, 15, 16, 17, 31, 32, 33} {
		cmacCase(s, pickKey(r, n%5), pickData(r, n, n))
	}
	for i := 0; i < nCmacExtra; i++ {
		cmacCase(s, pickKey(r, 5), r.Bytes(r.Intn(260)))
	}
	// ---- key wrap ----
	for i := 0; i < nWrap; i++ {
		kek := pickKey(r, i%8)
		n := 2
		switch i % 5 {
		case 1:
			n = 1 + r.Intn(5)
		case 3:
			n = 3
		}
		p := pickData(r, i/2, 8*n)
		w := wrapCase(s, kek, p)
		if w == nil {
			continue
		}
		unwrapCase(s, kek, w, "valid")
		// one flipped bit anywhere -> integrity error
		c := append([]byte{}, w...)
		c[r.Intn(len(c))] ^= 1 << uint(r.Intn(8))
		unwrapCase(s, kek, c, "bitflip")
		// wrong KEK
		k2 := append([]byte{}, kek...)
		k2[r.Intn(16)] ^= 1 << uint(r.Intn(8))
		unwrapCase(s, k2, w, "wrong-kek")
		switch i % 4 {
		case 0: // random data of the same length
			unwrapCase(s, kek, r.Bytes(len(w)), "random")
		case 1: // a trailing partial block is ignored by the library
			unwrapCase(s, kek, append(append([]byte{}, w...), r.Bytes(1+r.Intn(7))...), "valid-plus-partial-block")
		case 2: // one whole block dropped (n changes, so t values change)
			if len(w) >= 24 {
				unwrapCase(s, kek, w[:len(w)-8], "block-dropped")
			}
		case 3: // random length 16..47, not necessarily a multiple of 8
			unwrapCase(s, kek, r.Bytes(16+r.Intn(32)), "random-length")
		}
	}
	anyCases(s, r.Fork(), thorough)
	if err := s.Finish(); err != nil {
		fmt.Fprintln(os.Stderr, err)
		os.Exit(1)
	}
}
