(* Totality: the planner returns a payload list for EVERY device list (negative,
   huge, repeated entries included) and the apply functions return a list or
   ErrChannelDoesNotExist for EVERY payload list - no panic (fixed code). *)
From Coq Require Import List ZArith Bool Lia.
From Coq Require Import ZifyBool ZifyNat.
From LW Require Import Base.Outcome Band.Channels Band.Planner Band.PlannerSpec Band.ListLemmas Band.PlannerProofs Band.PlannerUSProofs.
Import ListNotations.
Open Scope Z_scope.

Lemma block_mask_ok B u dev k : forall l acc, (forall ec, In ec l -> 0 <= ec < zlen u) ->
  exists m, fold_left (block_mask_step B u dev k) l (Ok acc) = Ok m.
Proof.
  induction l as [|ec l IH]; intros acc H; [eexists; reflexivity|].
  cbn [fold_left]. unfold block_mask_step at 2. cbn [bind].
  rewrite (custom_at_ok u ec (H ec (or_introl eq_refl))). cbn [bind].
  destruct ((negb (cu_b u ec) || channel_is_active dev ec) && (ec >=? k * B) && (ec <? (k + 1) * B));
    apply IH; intros; apply H; now right.
Qed.

Lemma plan_loop_ok B (s : st) dev : forall l cur,
  exists pls, plan_loop B (up s) dev (get_enabled_uplink_channel_indices s) cur l = Ok pls.
Proof.
  induction l as [|c l IH]; intros cur; [eexists; reflexivity|].
  cbn [plan_loop]. destruct (Z.quot c B =? cur); [apply IH|].
  unfold block_mask.
  destruct (block_mask_ok B (up s) dev (Z.quot c B) (get_enabled_uplink_channel_indices s) (repeat false (Z.to_nat B)))
    as [m E].
  { intros ec H. apply enabled_In in H. now apply en_b_range. }
  rewrite E. cbn [bind]. destruct (IH (Z.quot c B)) as [r Er]. rewrite Er. cbn [bind]. eexists; reflexivity.
Qed.

Theorem plan_generic_total B (s : st) dev : exists pls, plan_generic_core B s dev = Ok pls.
Proof.
  rewrite plan_generic_unfold. cbv zeta.
  destruct (int_slice_diff dev (get_enabled_uplink_channel_indices s)) as [|d0 diff]; [eexists; reflexivity|].
  destruct (filter _ _); [eexists; reflexivity|]. apply plan_loop_ok.
Qed.

Theorem plan_us_total B (s : st) dev : exists pls, plan_us_core B s dev = Ok pls.
Proof.
  unfold plan_us_core. destruct (plan_generic_total B s dev) as [a E]. rewrite E. cbn [bind]. eexists; reflexivity.
Qed.

Lemma apply_bits_no_panic n base : forall bits i m, 0 <= base -> 0 <= i -> length m = Z.to_nat n ->
  (exists m', apply_bits n base bits i m = Ok m' /\ length m' = length m) \/ apply_bits n base bits i m = Err.
Proof.
  induction bits as [|b bits IH]; intros i m Hb Hi L; [left; eexists; split; reflexivity|].
  cbn [apply_bits]. destruct ((base + i >=? n) && negb b) eqn:C1.
  - apply IH; lia.
  - destruct (base + i >=? n) eqn:C2; [now right|].
    destruct (IH (i + 1) (upd m (Z.to_nat (base + i)) b) Hb ltac:(lia)) as [[m' [E L']]|E].
    + now rewrite upd_length.
    + left. exists m'. split; [exact E|]. now rewrite L', upd_length.
    + now right.
Qed.

Lemma apply_payloads_no_panic (f : list bool -> payload -> outcome (list bool)) (len : nat) :
  (forall m p, length m = len -> (exists m', f m p = Ok m' /\ length m' = len) \/ f m p = Err) ->
  forall pls m, length m = len -> (exists m', apply_payloads f m pls = Ok m') \/ apply_payloads f m pls = Err.
Proof.
  intros H. induction pls as [|p pls IH]; intros m L; [left; eexists; reflexivity|].
  cbn [apply_payloads]. destruct (H m p L) as [[m' [E L']]|E]; rewrite E; cbn [bind]; [now apply IH|now right].
Qed.

Theorem apply_generic_never_panics B (s : st) dev pls : 0 < B ->
  (exists r, apply_generic B s dev pls = Ok r) \/ apply_generic B s dev pls = Err.
Proof.
  intros HB. unfold apply_generic. set (n := zlen (up s)). assert (Hn : 0 <= n) by (unfold n, zlen; lia).
  destruct (init_mask_spec n dev Hn) as [m0 [E0 [L0 _]]]. rewrite E0. cbn [bind].
  destruct (apply_payloads_no_panic (apply_payload_generic B n) (Z.to_nat n)) with (pls := pls) (m := m0) as [[m' E]|E];
    [|exact L0|rewrite E; left; eexists; reflexivity|rewrite E; now right].
  intros m p L. unfold apply_payload_generic.
  destruct (apply_bits_no_panic n ((p_cntl p * B) mod 256) (p_mask p) 0 m) as [[m' [E L']]|E];
    [apply Z.mod_pos_bound; lia|lia|exact L| |now right].
  left. exists m'. split; [exact E|congruence].
Qed.

(* the US915 / AU915 apply function indexes chMask[0..71] unconditionally for
   ChMaskCntl 6/7: no panic as long as the table has at least 72 channels (always
   true for these bands: C14_band_tables + us_layout_preserved) *)
Theorem apply_us_never_panics (s : st) dev pls : 72 <= zlen (up s) ->
  (exists r, apply_us 16 s dev pls = Ok r) \/ apply_us 16 s dev pls = Err.
Proof.
  intros H72. unfold apply_us. set (n := zlen (up s)) in *. assert (Hn : 0 <= n) by lia.
  destruct (init_mask_spec n dev Hn) as [m0 [E0 [L0 _]]]. rewrite E0. cbn [bind].
  destruct (apply_payloads_no_panic (apply_payload_us 16 n) (Z.to_nat n)) with (pls := pls) (m := m0) as [[m' E]|E];
    [|exact L0|rewrite E; left; eexists; reflexivity|rewrite E; now right].
  intros m p L. unfold apply_payload_us.
  destruct ((p_cntl p =? 6) || (p_cntl p =? 7)).
  - destruct (set_range_spec (repeat (p_cntl p =? 6) 64) m 0 ltac:(lia)) as [m1 [E1 [L1 _]]].
    { rewrite repeat_length. unfold zlen. lia. }
    rewrite E1. cbn [bind].
    destruct (set_range_spec (firstn 8 (p_mask p)) m1 64 ltac:(lia)) as [m2 [E2 [L2 _]]].
    { pose proof (firstn_le_length 8 (p_mask p)). unfold zlen. lia. }
    left. exists m2. split; [exact E2|congruence].
  - unfold apply_payload_generic.
    destruct (apply_bits_no_panic n ((p_cntl p * 16) mod 256) (p_mask p) 0 m) as [[m' [E L']]|E];
      [apply Z.mod_pos_bound; lia|lia|exact L| |now right].
    left. exists m'. split; [exact E|congruence].
Qed.
