(* Obligations about the dumped initial channel plans (gen/ChannelsGen.v,
   re-read from the live code on every run): evaluated by the kernel over all
   band configurations and lifted to statements with forallb_forall. *)
From Coq Require Import List ZArith Bool String Lia ZifyBool.
From LW Require Import Base.Outcome Band.Channels Band.ChannelsSpec Band.CrossLayer Band.PlannerProofs Band.PlannerUSProofs.
From LWGen Require Import ChannelsGen KnownGen.
Import ListNotations.
Open Scope Z_scope.

Definition cfg_name (c : string * bool * Z * st) : string := let '(nm, _, _, _) := c in nm.
Definition cfg_state (c : string * bool * Z * st) : st := let '(_, _, _, s) := c in s.

Definition all_standard (s : st) : bool := forallb (fun c => negb (custom c)) (up s).
Definition us_like (nm : string) : bool := String.eqb nm "US915" || String.eqb nm "AU915".
Definition is_us_layout (s : st) : bool := (zlen (up s) =? 72) && all_standard s && negb (extra s).
Definition in_strings (x : string) (l : list string) : bool := existsb (String.eqb x) l.
Definition dr_field_ok (d : Z) : bool := (0 <=? d) && (d <=? 15).
Definition own_values_encodable (s : st) : bool :=
  forallb (fun c => freq_ok (freq c) && newchannel_freq_ok (freq c) && dr_field_ok (minDR c) && dr_field_ok (maxDR c))
          (up s ++ down s).
(* 2.4 GHz plans: only NewChannelReq (200 Hz steps) can carry the frequencies *)
Definition own_values_newchannel_only (s : st) : bool :=
  forallb (fun c => newchannel_freq_ok (freq c) && dr_field_ok (minDR c) && dr_field_ok (maxDR c)) (up s ++ down s).

Definition gen_obligations : bool :=
  forallb (fun c =>
    let s := cfg_state c in
    all_standard s
    && (if us_like (cfg_name c) then is_us_layout s else true)
    && (Z.of_nat (List.length (up s)) <=? 128)
    && (if in_strings (cfg_name c) c15_unencodable_bands then own_values_newchannel_only s else own_values_encodable s))
  configs.

Lemma gen_obligations_hold : gen_obligations = true.
Proof. vm_compute. reflexivity. Qed.

Lemma all_standard_spec s : all_standard s = true -> forall c, In c (up s) -> custom c = false.
Proof.
  unfold all_standard. rewrite forallb_forall. intros H c Hc. specialize (H c Hc). now apply negb_true_iff in H.
Qed.

Theorem configs_spec nm rep dw s : In (nm, rep, dw, s) configs ->
  (forall c, In c (up s) -> custom c = false) /\
  (us_like nm = true -> us_layout s /\ extra s = false) /\
  zlen (up s) <= 128 /\
  (In nm c15_unencodable_bands \/
   forall c, In c (up s ++ down s) ->
     freq_ok (freq c) = true /\ newchannel_freq_ok (freq c) = true /\ 0 <= minDR c <= 15 /\ 0 <= maxDR c <= 15).
Proof.
  intros H. pose proof gen_obligations_hold as G. unfold gen_obligations in G.
  rewrite forallb_forall in G. specialize (G _ H). cbn [cfg_state cfg_name] in G.
  apply andb_true_iff in G as [G G4]. apply andb_true_iff in G as [G G3]. apply andb_true_iff in G as [G1 G2].
  split; [now apply all_standard_spec|]. split; [|split].
  - intros U. rewrite U in G2. unfold is_us_layout in G2.
    apply andb_true_iff in G2 as [G2 X]. apply andb_true_iff in G2 as [N A].
    split; [split; [now apply Z.eqb_eq in N|now apply all_standard_spec]|]. now apply negb_true_iff in X.
  - unfold zlen. now apply Z.leb_le in G3.
  - destruct (in_strings nm c15_unencodable_bands) eqn:K.
    + left. unfold in_strings in K. apply existsb_exists in K as [x [Hx E]]. apply String.eqb_eq in E. now subst.
    + right. unfold own_values_encodable in G4. rewrite forallb_forall in G4. intros c Hc. specialize (G4 c Hc).
      apply andb_true_iff in G4 as [G4 D2]. apply andb_true_iff in G4 as [G4 D1].
      apply andb_true_iff in G4 as [F1 F2]. unfold dr_field_ok in D1, D2.
      split; [exact F1|]. split; [exact F2|]. clear -D1 D2. lia.
Qed.

(* the exception is real: ISM2400's own frequencies do not fit the 24-bit x 100 Hz field *)
Theorem ism2400_refuted : exists rep dw s c, In ("ISM2400"%string, rep, dw, s) configs /\ In c (up s) /\ freq_ok (freq c) = false.
Proof.
  assert (E : existsb (fun cf => String.eqb (cfg_name cf) "ISM2400" && existsb (fun c => negb (freq_ok (freq c))) (up (cfg_state cf))) configs = true)
    by (vm_compute; reflexivity).
  apply existsb_exists in E as [[[[nm rep] dw] s] [Hin E]]. cbn [cfg_name cfg_state] in E.
  apply andb_true_iff in E as [E1 E2]. apply String.eqb_eq in E1. subst nm.
  apply existsb_exists in E2 as [c [Hc E2]]. exists rep, dw, s, c. split; [exact Hin|]. split; [exact Hc|].
  now apply negb_true_iff in E2.
Qed.
