(* Generic JSON (Json.v): reading what was printed gives the tree back, for every tree whose
   number texts are JSON numbers, whose strings and keys are valid UTF-8 and which nests at most
   10000 deep; the reader never runs out of fuel, on any input. *)
From Coq Require Import List NArith ZArith Bool Arith Lia.
From Coq Require Import ZifyN ZifyNat ZifyBool.
From LW Require Import Backend.Json.
Import ListNotations.
Open Scope N_scope.

(* ---- induction over trees ---- *)
Lemma jvalue_ind' (P : jvalue -> Prop)
  (Hnull : P JNull) (Hbool : forall b, P (JBool b)) (Hnum : forall t, P (JNum t)) (Hstr : forall s, P (JStr s))
  (Harr : forall l, Forall P l -> P (JArr l))
  (Hobj : forall l, Forall (fun kv => P (snd kv)) l -> P (JObj l)) : forall v, P v.
Proof.
  fix IH 1. intros [ |b|t|s|l|l].
  - exact Hnull.
  - apply Hbool.
  - apply Hnum.
  - apply Hstr.
  - apply Harr. induction l as [|x l IHl]; constructor; [apply IH|exact IHl].
  - apply Hobj. induction l as [|[k x] l IHl]; constructor; [apply IH|exact IHl].
Qed.

(* ---- pcons ---- *)
Lemma pcons_pcons {A} a b (x : presult (list N * A)) : pcons a (pcons b x) = pcons (a ++ b) x.
Proof. destruct x as [[s r]| |]; cbn [pcons]; [now rewrite app_assoc|reflexivity|reflexivity]. Qed.

Lemma pcons_nil {A} (x : presult (list N * A)) : pcons [] x = x.
Proof. destruct x as [[s r]| |]; reflexivity. Qed.

(* ---- strings: one printed unit is read back as the bytes it stands for ---- *)
Lemma bs_tests : (92 =? 34) = false /\ (92 <? 32) = false /\ (92 =? 92) = true /\ (117 =? 117) = true.
Proof. repeat split; reflexivity. Qed.

(* a plain character *)
Lemma parse_plain c t : 32 <= c < 128 -> c <> 34 -> c <> 92 ->
  parse_str (c :: t) = pcons [c] (parse_str t).
Proof.
  intros H1 H2 H3. cbn [parse_str].
  replace (c =? 34) with false by lia. replace (c <? 32) with false by lia.
  replace (c =? 92) with false by lia. replace (c <? 128) with true by lia. reflexivity.
Qed.

(* backslash and one character *)
Lemma parse_simple e b t : simple_escape e = Some b -> e <> 117 ->
  parse_str (92 :: e :: t) = pcons [b] (parse_str t).
Proof.
  intros H1 H2. destruct bs_tests as (T1 & T2 & T3 & _). cbn [parse_str]. rewrite T1, T2, T3.
  replace (e =? 117) with false by lia. now rewrite H1.
Qed.

(* backslash u and four hex digits of a code point that is no surrogate *)
Lemma parse_u4 a b c d rr t : hex4 a b c d = Some rr -> is_surrogate rr = false ->
  parse_str (92 :: 117 :: a :: b :: c :: d :: t) = pcons (encode_rune rr) (parse_str t).
Proof.
  intros H1 H2. destruct bs_tests as (T1 & T2 & T3 & T4). cbn [parse_str]. rewrite T1, T2, T3, T4.
  now rewrite H1, H2.
Qed.

Definition u00_ok (b : N) : bool :=
  match hex4 48 48 (hexd (b / 16)) (hexd (b mod 16)) with
  | Some rr => (rr =? b) && negb (is_surrogate rr) && (match encode_rune rr with [x] => x =? b | _ => false end)
  | None => false
  end.
Lemma u00_sweep : forallb u00_ok (map N.of_nat (seq 0 128)) = true.
Proof. vm_compute. reflexivity. Qed.

Lemma parse_u00 b t : b < 128 ->
  parse_str ([92; 117; 48; 48; hexd (b / 16); hexd (b mod 16)] ++ t) = pcons [b] (parse_str t).
Proof.
  intros H. pose proof u00_sweep as S. rewrite forallb_forall in S.
  specialize (S b). unfold u00_ok in S.
  assert (I : In b (map N.of_nat (seq 0 128))).
  { apply in_map_iff. exists (N.to_nat b). split; [lia|]. apply in_seq. lia. }
  specialize (S I).
  destruct (hex4 48 48 (hexd (b / 16)) (hexd (b mod 16))) as [rr|] eqn:E; [|discriminate S].
  apply andb_true_iff in S. destruct S as [S S3]. apply andb_true_iff in S. destruct S as [S1 S2].
  apply N.eqb_eq in S1. subst rr. apply negb_true_iff in S2.
  cbn [app]. rewrite (parse_u4 _ _ _ _ b t E S2).
  destruct (encode_rune b) as [|x [|y l]]; try discriminate S3. apply N.eqb_eq in S3. now subst x.
Qed.

Lemma parse_esc_byte b t : b < 128 -> parse_str (esc_byte b ++ t) = pcons [b] (parse_str t).
Proof.
  intros H. unfold esc_byte.
  destruct (b =? 34) eqn:E1. { apply N.eqb_eq in E1. subst b. now apply parse_simple. }
  destruct (b =? 92) eqn:E2. { apply N.eqb_eq in E2. subst b. now apply parse_simple. }
  destruct (b =? 8) eqn:E3. { apply N.eqb_eq in E3. subst b. now apply parse_simple. }
  destruct (b =? 12) eqn:E4. { apply N.eqb_eq in E4. subst b. now apply parse_simple. }
  destruct (b =? 10) eqn:E5. { apply N.eqb_eq in E5. subst b. now apply parse_simple. }
  destruct (b =? 13) eqn:E6. { apply N.eqb_eq in E6. subst b. now apply parse_simple. }
  destruct (b =? 9) eqn:E7. { apply N.eqb_eq in E7. subst b. now apply parse_simple. }
  destruct ((b <? 32) || (b =? 60) || (b =? 62) || (b =? 38)) eqn:E8.
  - now apply parse_u00.
  - cbn [app]. apply parse_plain; lia.
Qed.

Lemma two_ok_lead b0 b1 : two_ok b0 b1 = true -> 194 <= b0 < 224.
Proof. unfold two_ok. lia. Qed.
Lemma three_ok_lead b0 b1 b2 : three_ok b0 b1 b2 = true -> 224 <= b0 < 240.
Proof. unfold three_ok. lia. Qed.
Lemma four_ok_lead b0 b1 b2 b3 : four_ok b0 b1 b2 b3 = true -> 240 <= b0 < 245.
Proof. unfold four_ok. lia. Qed.
Lemma two_ok_false b0 b1 : 224 <= b0 -> two_ok b0 b1 = false.
Proof. unfold two_ok. lia. Qed.
Lemma three_ok_false b0 b1 b2 : 240 <= b0 -> three_ok b0 b1 b2 = false.
Proof. unfold three_ok. lia. Qed.

Lemma lead_tests c : 128 <= c ->
  (c =? 34) = false /\ (c <? 32) = false /\ (c =? 92) = false /\ (c <? 128) = false.
Proof. lia. Qed.

Lemma parse_two b0 b1 t : two_ok b0 b1 = true -> parse_str (b0 :: b1 :: t) = pcons [b0; b1] (parse_str t).
Proof.
  intros H. pose proof (two_ok_lead _ _ H) as L.
  destruct (lead_tests b0 ltac:(lia)) as (E1 & E2 & E3 & E4).
  cbn [parse_str]. now rewrite E1, E2, E3, E4, H.
Qed.

Lemma parse_three b0 b1 b2 t : three_ok b0 b1 b2 = true ->
  parse_str (b0 :: b1 :: b2 :: t) = pcons [b0; b1; b2] (parse_str t).
Proof.
  intros H. pose proof (three_ok_lead _ _ _ H) as L.
  destruct (lead_tests b0 ltac:(lia)) as (E1 & E2 & E3 & E4).
  cbn [parse_str]. now rewrite E1, E2, E3, E4, (two_ok_false b0 b1) by lia; rewrite H.
Qed.

Lemma parse_four b0 b1 b2 b3 t : four_ok b0 b1 b2 b3 = true ->
  parse_str (b0 :: b1 :: b2 :: b3 :: t) = pcons [b0; b1; b2; b3] (parse_str t).
Proof.
  intros H. pose proof (four_ok_lead _ _ _ _ H) as L.
  destruct (lead_tests b0 ltac:(lia)) as (E1 & E2 & E3 & E4).
  cbn [parse_str]. rewrite E1, E2, E3, E4, (two_ok_false b0 b1), (three_ok_false b0 b1 b2) by lia.
  now rewrite H.
Qed.

Lemma parse_line_sep b2 t : b2 = 168 \/ b2 = 169 ->
  parse_str ([92; 117; 50; 48; 50; hexd (b2 - 160)] ++ t) = pcons [226; 128; b2] (parse_str t).
Proof.
  intros [-> | ->]; cbn [app].
  - rewrite (parse_u4 50 48 50 (hexd (168 - 160)) 8232 t eq_refl eq_refl). reflexivity.
  - rewrite (parse_u4 50 48 50 (hexd (169 - 160)) 8233 t eq_refl eq_refl). reflexivity.
Qed.

(* ---- strings: the whole string ---- *)
Lemma parse_str_esc_len n : forall s, (length s <= n)%nat -> utf8_valid s = true ->
  forall t, parse_str (esc_string s ++ t) = pcons s (parse_str t).
Proof.
  induction n as [|n IH]; intros s Hn Hv t.
  - destruct s; [|cbn in Hn; lia]. cbn [esc_string app]. now rewrite pcons_nil.
  - destruct s as [|b0 r0]; [cbn [esc_string app]; now rewrite pcons_nil|].
    cbn [length] in Hn. cbn [utf8_valid] in Hv. cbn [esc_string].
    destruct (b0 <? 128) eqn:A.
    { rewrite <- app_assoc, parse_esc_byte by lia. rewrite (IH r0) by (auto; lia).
      now rewrite pcons_pcons. }
    destruct r0 as [|b1 r1]; [discriminate Hv|]. cbn [length] in Hn.
    destruct (two_ok b0 b1) eqn:T2.
    { cbn [app]. rewrite parse_two by exact T2. rewrite (IH r1) by (auto; lia). now rewrite pcons_pcons. }
    destruct r1 as [|b2 r2]; [discriminate Hv|]. cbn [length] in Hn.
    destruct (three_ok b0 b1 b2) eqn:T3.
    { destruct (is_line_sep b0 b1 b2) eqn:LS.
      - unfold is_line_sep in LS.
        assert (b0 = 226 /\ b1 = 128 /\ (b2 = 168 \/ b2 = 169)) as (-> & -> & Hb2) by lia.
        rewrite <- app_assoc, parse_line_sep by exact Hb2. rewrite (IH r2) by (auto; lia).
        now rewrite pcons_pcons.
      - cbn [app]. rewrite parse_three by exact T3. rewrite (IH r2) by (auto; lia). now rewrite pcons_pcons. }
    destruct r2 as [|b3 r3]; [discriminate Hv|]. cbn [length] in Hn.
    destruct (four_ok b0 b1 b2 b3) eqn:T4; [|discriminate Hv].
    cbn [app]. rewrite parse_four by exact T4. rewrite (IH r3) by (auto; lia). now rewrite pcons_pcons.
Qed.

Theorem parse_print_string s rest : utf8_valid s = true ->
  parse_str (esc_string s ++ 34 :: rest) = POk (s, rest).
Proof.
  intros H. rewrite (parse_str_esc_len (length s) s (le_n _) H).
  cbn [parse_str N.eqb Pos.eqb pcons]. now rewrite app_nil_r.
Qed.

(* ---- numbers ---- *)
Definition num_stop (rest : list N) : bool :=
  match rest with
  | [] => true
  | c :: _ => negb (is_digit c) && negb (c =? 46) && negb (c =? 101) && negb (c =? 69)
  end.

Lemma digits_spec s : forall ds r, digits s = (ds, r) ->
  s = ds ++ r /\ match r with [] => True | c :: _ => is_digit c = false end.
Proof.
  induction s as [|c s IH]; intros ds r H; cbn [digits] in H.
  - inversion H; subst. auto.
  - destruct (is_digit c) eqn:D.
    + destruct (digits s) as [ds' r'] eqn:E. inversion H; subst.
      destruct (IH ds' r eq_refl) as [-> Hr]. auto.
    + inversion H; subst. cbn [app]. rewrite D. auto.
Qed.

Lemma digits_app s : forall ds r rest, digits s = (ds, r) ->
  (r = [] -> num_stop rest = true) -> digits (s ++ rest) = (ds, r ++ rest).
Proof.
  induction s as [|c s IH]; intros ds r rest H Hs; cbn [digits] in H.
  - inversion H; subst. cbn [app]. specialize (Hs eq_refl).
    destruct rest as [|x rest]; [reflexivity|]. cbn [digits]. cbn [num_stop] in Hs.
    replace (is_digit x) with false by (destruct (is_digit x); [discriminate Hs|reflexivity]). reflexivity.
  - cbn [app digits]. destruct (is_digit c) eqn:D.
    + destruct (digits s) as [ds' r'] eqn:E. inversion H; subst.
      now rewrite (IH ds' r rest eq_refl Hs).
    + inversion H; subst. reflexivity.
Qed.

Lemma num_stop_cases rest : num_stop rest = true ->
  rest = [] \/ exists c r, rest = c :: r /\ is_digit c = false /\ c <> 46 /\ c <> 101 /\ c <> 69.
Proof.
  destruct rest as [|c r]; [auto|]. cbn [num_stop]. intros H. right. exists c, r.
  destruct (is_digit c); [discriminate H|]. repeat split; lia.
Qed.

Lemma scan_int_spec s p r : scan_int s = Some (p, r) -> s = p ++ r /\ p <> [] /\
  exists c p', p = c :: p' /\ is_digit c = true.
Proof.
  destruct s as [|c s]; [discriminate|]. cbn [scan_int].
  destruct (c =? 48) eqn:E.
  - intros H. inversion H; subst. apply N.eqb_eq in E. subst c.
    split; [reflexivity|]. split; [discriminate|]. exists 48, []. auto.
  - destruct (is_digit c) eqn:D; [|discriminate].
    destruct (digits s) as [ds r'] eqn:G. intros H. inversion H; subst.
    destruct (digits_spec _ _ _ G) as [-> _].
    split; [reflexivity|]. split; [discriminate|]. exists c, ds. auto.
Qed.

Lemma scan_int_app s p r rest : scan_int s = Some (p, r) -> (r = [] -> num_stop rest = true) ->
  scan_int (s ++ rest) = Some (p, r ++ rest).
Proof.
  destruct s as [|c s]; [discriminate|]. cbn [scan_int app].
  destruct (c =? 48); [intros H _; now inversion H|].
  destruct (is_digit c); [|discriminate].
  destruct (digits s) as [ds r'] eqn:G. intros H Hs. inversion H; subst.
  now rewrite (digits_app _ _ _ rest G Hs).
Qed.

Lemma scan_frac_spec s p r : scan_frac s = Some (p, r) -> s = p ++ r.
Proof.
  destruct s as [|d s]; cbn [scan_frac]; [intros H; now inversion H|].
  destruct (d =? 46) eqn:E.
  - destruct (digits s) as [fs r'] eqn:G. destruct (is_nil fs); [discriminate|].
    intros H. inversion H; subst. apply N.eqb_eq in E. subst d.
    destruct (digits_spec _ _ _ G) as [-> _]. reflexivity.
  - intros H. now inversion H.
Qed.

Lemma scan_frac_app s p r rest : scan_frac s = Some (p, r) -> (r = [] -> num_stop rest = true) ->
  scan_frac (s ++ rest) = Some (p, r ++ rest).
Proof.
  destruct s as [|d s]; cbn [scan_frac app].
  - intros H Hs. inversion H; subst. specialize (Hs eq_refl).
    destruct (num_stop_cases _ Hs) as [->|(c & r & -> & _ & Hc & _)]; [reflexivity|].
    cbn [scan_frac app]. replace (c =? 46) with false by lia. reflexivity.
  - destruct (d =? 46) eqn:E.
    + destruct (digits s) as [fs r'] eqn:G. destruct (is_nil fs) eqn:Nil; [discriminate|].
      intros H Hs. inversion H; subst. rewrite (digits_app _ _ _ rest G Hs). now rewrite Nil.
    + intros H _. now inversion H.
Qed.

Lemma scan_sign_spec s sg r : scan_sign s = (sg, r) -> s = sg ++ r.
Proof.
  destruct s as [|g s]; cbn [scan_sign]; [intros H; now inversion H|].
  destruct ((g =? 43) || (g =? 45)); intros H; now inversion H.
Qed.

Lemma scan_exp_spec s p r : scan_exp s = Some (p, r) -> s = p ++ r.
Proof.
  destruct s as [|e s]; cbn [scan_exp]; [intros H; now inversion H|].
  destruct ((e =? 101) || (e =? 69)).
  - destruct (scan_sign s) as [sg r1] eqn:S. destruct (digits r1) as [es r2] eqn:G.
    destruct (is_nil es); [discriminate|]. intros H. inversion H; subst.
    rewrite (scan_sign_spec _ _ _ S). destruct (digits_spec _ _ _ G) as [-> _].
    cbn [app]. now rewrite app_assoc.
  - intros H. now inversion H.
Qed.

Lemma scan_exp_app s p r rest : scan_exp s = Some (p, r) -> (r = [] -> num_stop rest = true) ->
  scan_exp (s ++ rest) = Some (p, r ++ rest).
Proof.
  destruct s as [|e s]; cbn [scan_exp app].
  - intros H Hs. inversion H; subst. specialize (Hs eq_refl).
    destruct (num_stop_cases _ Hs) as [->|(c & r & -> & _ & _ & Hc1 & Hc2)]; [reflexivity|].
    cbn [scan_exp app]. replace ((c =? 101) || (c =? 69)) with false by lia. reflexivity.
  - destruct ((e =? 101) || (e =? 69)) eqn:E.
    + destruct (scan_sign s) as [sg r1] eqn:S. destruct (digits r1) as [es r2] eqn:G.
      destruct (is_nil es) eqn:Nil; [discriminate|]. intros H Hs. inversion H; subst.
      assert (S' : scan_sign (s ++ rest) = (sg, r1 ++ rest)).
      { destruct s as [|g s'].
        - cbn [scan_sign] in S. inversion S; subst. cbn [digits] in G. inversion G; subst. discriminate Nil.
        - cbn [scan_sign app] in *. destruct ((g =? 43) || (g =? 45)); inversion S; subst; reflexivity. }
      rewrite S', (digits_app _ _ _ rest G Hs). now rewrite Nil.
    + intros H _. now inversion H.
Qed.

Lemma scan_number_spec s t r : scan_number s = Some (t, r) ->
  s = t ++ r /\ exists c t', t = c :: t' /\ ((c =? 45) || is_digit c) = true.
Proof.
  unfold scan_number.
  set (sp := match s with c :: r0 => if c =? 45 then ([45], r0) else ([], s) | [] => ([], s) end).
  assert (Hsp : s = fst sp ++ snd sp /\ (fst sp = [] \/ fst sp = [45])).
  { subst sp. destruct s as [|c r0]; [auto|]. destruct (c =? 45) eqn:E; cbn [fst snd app]; [|auto].
    apply N.eqb_eq in E. subst c. auto. }
  destruct sp as [sign s1]. cbn [fst snd] in Hsp. destruct Hsp as [Hs Hsign].
  destruct (scan_int s1) as [[ip r1]|] eqn:I; [|discriminate].
  destruct (scan_frac r1) as [[fp r2]|] eqn:F; [|discriminate].
  destruct (scan_exp r2) as [[ep r3]|] eqn:X; [|discriminate].
  intros H. inversion H; subst t r. clear H.
  destruct (scan_int_spec _ _ _ I) as (E1 & _ & c & p' & Ep & Dc).
  pose proof (scan_frac_spec _ _ _ F) as E2. pose proof (scan_exp_spec _ _ _ X) as E3.
  split.
  - rewrite Hs, E1, E2, E3. now rewrite <- !app_assoc.
  - destruct Hsign as [-> | ->].
    + exists c, (p' ++ fp ++ ep). subst ip. cbn [app]. split; [reflexivity|]. rewrite Dc. apply orb_true_r.
    + exists 45, (ip ++ fp ++ ep). auto.
Qed.

Lemma scan_number_app s t r rest : scan_number s = Some (t, r) -> (r = [] -> num_stop rest = true) ->
  scan_number (s ++ rest) = Some (t, r ++ rest).
Proof.
  unfold scan_number. intros H Hs.
  assert (Hsp : exists sign s1,
    match s with c :: r0 => if c =? 45 then ([45], r0) else ([], s) | [] => ([], s) end = (sign, s1) /\
    (s1 <> [] -> match s ++ rest with c :: r0 => if c =? 45 then ([45], r0) else ([], s ++ rest) | [] => ([], s ++ rest) end
                 = (sign, s1 ++ rest))).
  { destruct s as [|c r0]; [exists [], []; split; [reflexivity|congruence]|].
    cbn [app]. destruct (c =? 45); eexists _, _; split; try reflexivity; auto. }
  destruct Hsp as (sign & s1 & E & E'). rewrite E in H.
  destruct (scan_int s1) as [[ip r1]|] eqn:I; [|discriminate].
  assert (Hne : s1 <> []) by (intros ->; discriminate I).
  rewrite (E' Hne).
  destruct (scan_frac r1) as [[fp r2]|] eqn:F; [|discriminate].
  destruct (scan_exp r2) as [[ep r3]|] eqn:X; [|discriminate].
  inversion H; subst t r. clear H.
  assert (H2 : r2 = [] -> r3 = []).
  { intros ->. cbn [scan_exp] in X. now inversion X. }
  assert (H1 : r1 = [] -> r2 = []).
  { intros ->. cbn [scan_frac] in F. now inversion F. }
  rewrite (scan_int_app _ _ _ rest I) by auto.
  rewrite (scan_frac_app _ _ _ rest F) by auto.
  rewrite (scan_exp_app _ _ _ rest X) by auto. reflexivity.
Qed.

Theorem scan_number_print t rest : is_number t = true -> num_stop rest = true ->
  scan_number (t ++ rest) = Some (t, rest) /\ exists c t', t = c :: t' /\ ((c =? 45) || is_digit c) = true.
Proof.
  unfold is_number. intros H Hs. destruct (scan_number t) as [[t' r]|] eqn:E; [|discriminate].
  destruct r; [|discriminate]. destruct (scan_number_spec _ _ _ E) as [Et Hc].
  rewrite app_nil_r in Et. subst t'. split; [|exact Hc].
  now rewrite (scan_number_app _ _ _ rest E).
Qed.

(* ---- values: fuel that suffices, first characters, dispatch ---- *)
Fixpoint need (v : jvalue) : nat :=
  match v with
  | JArr l => S (fold_right (fun x a => S (need x + a)) O l)
  | JObj l => S (fold_right (fun kv a => S (need (snd kv) + a)) O l)
  | _ => 1
  end.
Definition need_elems (l : list jvalue) : nat := fold_right (fun x a => S (need x + a)) O l.
Definition need_members (l : list (list N * jvalue)) : nat := fold_right (fun kv a => S (need (snd kv) + a)) O l.
Definition ldepth (l : list jvalue) : nat := fold_right (fun x m => Nat.max (jdepth x) m) O l.
Definition mdepth (l : list (list N * jvalue)) : nat := fold_right (fun kv m => Nat.max (jdepth (snd kv)) m) O l.

Lemma json_print_arr l : json_print (JArr l) = 91 :: print_elems l.
Proof. reflexivity. Qed.

Lemma json_print_obj l : json_print (JObj l) = 123 :: print_members l.
Proof. reflexivity. Qed.

Definition vstart (c : N) : Prop := is_ws c = false /\ c <> 93 /\ c <> 125 /\ c <> 44.

Lemma print_head v : jwf v = true -> exists c r, json_print v = c :: r /\ vstart c.
Proof.
  destruct v as [ |b|t|s|l|l]; intros H.
  - exists 110, [117; 108; 108]. split; [reflexivity|]. unfold vstart, is_ws. lia.
  - destruct b; eexists _, _; (split; [reflexivity|]); unfold vstart, is_ws; lia.
  - cbn [jwf] in H. destruct (scan_number_print t [] H eq_refl) as [_ (c & t' & -> & Hc)].
    exists c, t'. split; [reflexivity|]. unfold vstart, is_ws, is_digit in *. lia.
  - exists 34, (esc_string s ++ [34]). split; [reflexivity|]. unfold vstart, is_ws. lia.
  - rewrite json_print_arr. eexists _, _. split; [reflexivity|]. unfold vstart, is_ws. lia.
  - rewrite json_print_obj. eexists _, _. split; [reflexivity|]. unfold vstart, is_ws. lia.
Qed.

Lemma skip_ws_start c r : is_ws c = false -> skip_ws (c :: r) = c :: r.
Proof. intros H. cbn [skip_ws]. now rewrite H. Qed.

Lemma skip_ws_print v rest : jwf v = true -> skip_ws (json_print v ++ rest) = json_print v ++ rest.
Proof.
  intros H. destruct (print_head v H) as (c & r & -> & Hc & _). cbn [app]. now apply skip_ws_start.
Qed.

Local Opaque max_depth.

Lemma pv_null f d r : parse_value (S f) d (110 :: r) =
  match lit [117; 108; 108] r with Some r' => POk (JNull, r') | None => PErr end.
Proof. reflexivity. Qed.
Lemma pv_true f d r : parse_value (S f) d (116 :: r) =
  match lit [114; 117; 101] r with Some r' => POk (JBool true, r') | None => PErr end.
Proof. reflexivity. Qed.
Lemma pv_false f d r : parse_value (S f) d (102 :: r) =
  match lit [97; 108; 115; 101] r with Some r' => POk (JBool false, r') | None => PErr end.
Proof. reflexivity. Qed.
Lemma pv_str f d r : parse_value (S f) d (34 :: r) =
  match parse_str r with POk (str, r') => POk (JStr str, r') | PErr => PErr | PFuel => PFuel end.
Proof. reflexivity. Qed.
Lemma pv_arr f d r : parse_value (S f) d (91 :: r) =
  if Nat.leb max_depth d then PErr
  else match skip_ws r with
       | c1 :: r1 =>
         if c1 =? 93 then POk (JArr [], r1)
         else match parse_elems f (S d) (c1 :: r1) with
              | POk (l, r') => POk (JArr l, r')
              | PErr => PErr
              | PFuel => PFuel
              end
       | [] => PErr
       end.
Proof. reflexivity. Qed.
Lemma pv_obj f d r : parse_value (S f) d (123 :: r) =
  if Nat.leb max_depth d then PErr
  else match skip_ws r with
       | c1 :: r1 =>
         if c1 =? 125 then POk (JObj [], r1)
         else match parse_members f (S d) (c1 :: r1) with
              | POk (l, r') => POk (JObj l, r')
              | PErr => PErr
              | PFuel => PFuel
              end
       | [] => PErr
       end.
Proof. reflexivity. Qed.
Lemma pv_num f d c r : ((c =? 45) || is_digit c) = true -> parse_value (S f) d (c :: r) =
  match scan_number (c :: r) with Some (t, r') => POk (JNum t, r') | None => PErr end.
Proof.
  intros H. cbn [parse_value]. unfold is_digit in H.
  replace (c =? 110) with false by lia. replace (c =? 116) with false by lia.
  replace (c =? 102) with false by lia. replace (c =? 34) with false by lia.
  replace (c =? 91) with false by lia. replace (c =? 123) with false by lia.
  unfold is_digit. now rewrite H.
Qed.

Lemma lit_app l rest : lit l (l ++ rest) = Some rest.
Proof. induction l as [|x l IH]; [reflexivity|]. cbn [lit app]. now rewrite N.eqb_refl. Qed.

(* ---- print, then read: the main induction ---- *)
Definition reads_back (v : jvalue) : Prop :=
  jwf v = true -> forall fuel d rest, (need v <= fuel)%nat -> (d + jdepth v <= max_depth)%nat ->
  num_stop rest = true -> parse_value fuel d (json_print v ++ rest) = POk (v, rest).

Lemma elems_read_back l : Forall reads_back l -> l <> [] -> forallb jwf l = true ->
  forall fuel d rest, (need_elems l <= fuel)%nat -> (d + ldepth l <= max_depth)%nat ->
  parse_elems fuel d (print_elems l ++ rest) = POk (l, rest).
Proof.
  induction 1 as [|x l Hx Hl IH]; intros Hne Hwf fuel d rest Hf Hd; [congruence|].
  cbn [forallb] in Hwf. apply andb_true_iff in Hwf. destruct Hwf as [Wx Wl].
  cbn [need_elems fold_right] in Hf. fold (need_elems l) in Hf.
  cbn [ldepth fold_right] in Hd. fold (ldepth l) in Hd.
  destruct fuel as [|f]; [lia|]. cbn [parse_elems print_elems]. rewrite <- app_assoc.
  destruct l as [|y l'].
  - cbn [app]. rewrite (Hx Wx f d (93 :: rest)) by (try reflexivity; lia).
    cbn [skip_ws is_ws N.eqb Pos.eqb orb]. reflexivity.
  - change ((44 :: print_elems (y :: l')) ++ rest) with (44 :: print_elems (y :: l') ++ rest).
    rewrite (Hx Wx f d (44 :: print_elems (y :: l') ++ rest)) by (try reflexivity; lia).
    cbn [skip_ws is_ws N.eqb Pos.eqb orb].
    assert (Wy : jwf y = true) by (cbn [forallb] in Wl; apply andb_true_iff in Wl; apply Wl).
    assert (Sk : skip_ws (print_elems (y :: l') ++ rest) = print_elems (y :: l') ++ rest).
    { cbn [print_elems]. rewrite <- app_assoc. now apply skip_ws_print. }
    rewrite Sk. rewrite (IH ltac:(discriminate) Wl f d rest) by lia. reflexivity.
Qed.

Lemma members_read_back l : Forall (fun kv => reads_back (snd kv)) l -> l <> [] ->
  forallb (fun kv => utf8_valid (fst kv) && jwf (snd kv)) l = true ->
  forall fuel d rest, (need_members l <= fuel)%nat -> (d + mdepth l <= max_depth)%nat ->
  parse_members fuel d (print_members l ++ rest) = POk (l, rest).
Proof.
  induction 1 as [|[k x] l Hx Hl IH]; intros Hne Hwf fuel d rest Hf Hd; [congruence|].
  cbn [forallb fst snd] in Hwf. apply andb_true_iff in Hwf. destruct Hwf as [Wx Wl].
  apply andb_true_iff in Wx. destruct Wx as [Wk Wx]. cbn [snd] in Hx.
  cbn [need_members fold_right snd] in Hf. fold (need_members l) in Hf.
  cbn [mdepth fold_right snd] in Hd. fold (mdepth l) in Hd.
  destruct fuel as [|f]; [lia|]. cbn [print_members]. unfold print_string.
  cbn [app]. cbn [parse_members]. cbn [N.eqb Pos.eqb].
  rewrite <- !app_assoc. cbn [app]. rewrite (parse_print_string k _ Wk).
  cbn [skip_ws is_ws N.eqb Pos.eqb orb].
  destruct l as [|[k' y] l'].
  - rewrite <- app_assoc. cbn [app]. rewrite skip_ws_print by exact Wx.
    rewrite (Hx Wx f d (125 :: rest)) by (try reflexivity; lia).
    cbn [skip_ws is_ws N.eqb Pos.eqb orb]. reflexivity.
  - rewrite <- app_assoc.
    change ((44 :: print_members ((k', y) :: l')) ++ rest) with (44 :: print_members ((k', y) :: l') ++ rest).
    rewrite skip_ws_print by exact Wx.
    rewrite (Hx Wx f d (44 :: print_members ((k', y) :: l') ++ rest)) by (try reflexivity; lia).
    cbn [skip_ws is_ws N.eqb Pos.eqb orb].
    assert (Sk : skip_ws (print_members ((k', y) :: l') ++ rest) = print_members ((k', y) :: l') ++ rest).
    { cbn [print_members]. unfold print_string. cbn [app]. now apply skip_ws_start. }
    rewrite Sk. rewrite (IH ltac:(discriminate) Wl f d rest) by lia. reflexivity.
Qed.

Lemma all_read_back v : reads_back v.
Proof.
  induction v as [ |b|t|s|l IH|l IH] using jvalue_ind'; intros Hwf fuel d rest Hf Hd Hs;
    (destruct fuel as [|f]; [cbn [need] in Hf; lia|]).
  - cbn [json_print app]. rewrite pv_null. cbn [lit N.eqb Pos.eqb]. reflexivity.
  - destruct b; cbn [json_print app].
    + rewrite pv_true. cbn [lit N.eqb Pos.eqb]. reflexivity.
    + rewrite pv_false. cbn [lit N.eqb Pos.eqb]. reflexivity.
  - cbn [jwf] in Hwf. cbn [json_print].
    destruct (scan_number_print t rest Hwf Hs) as [E (c & t' & -> & Hc)].
    cbn [app]. rewrite pv_num by exact Hc. cbn [app] in E. now rewrite E.
  - cbn [jwf] in Hwf. cbn [json_print]. unfold print_string. cbn [app]. rewrite pv_str.
    rewrite <- app_assoc. cbn [app]. now rewrite (parse_print_string s rest Hwf).
  - cbn [jwf] in Hwf. rewrite json_print_arr. cbn [app]. rewrite pv_arr.
    cbn [jdepth] in Hd. fold (ldepth l) in Hd. cbn [need] in Hf. fold (need_elems l) in Hf.
    replace (Nat.leb max_depth d) with false by (symmetry; apply Nat.leb_gt; lia).
    destruct l as [|x l'].
    + cbn [print_elems app skip_ws is_ws N.eqb Pos.eqb orb]. reflexivity.
    + assert (Wx : jwf x = true) by (cbn [forallb] in Hwf; apply andb_true_iff in Hwf; apply Hwf).
      assert (Sk : skip_ws (print_elems (x :: l') ++ rest) = print_elems (x :: l') ++ rest).
      { cbn [print_elems]. rewrite <- app_assoc. now apply skip_ws_print. }
      rewrite Sk.
      assert (Hd' : exists c r, print_elems (x :: l') ++ rest = c :: r /\ c <> 93).
      { cbn [print_elems]. destruct (print_head x Wx) as (c & r & -> & _ & H93 & _).
        cbn [app]. eauto. }
      destruct Hd' as (c & r & E & H93). rewrite E.
      replace (c =? 93) with false by lia. rewrite <- E.
      rewrite (elems_read_back (x :: l') IH ltac:(discriminate) Hwf f (S d) rest) by lia. reflexivity.
  - cbn [jwf] in Hwf. rewrite json_print_obj. cbn [app]. rewrite pv_obj.
    cbn [jdepth] in Hd. fold (mdepth l) in Hd. cbn [need] in Hf. fold (need_members l) in Hf.
    replace (Nat.leb max_depth d) with false by (symmetry; apply Nat.leb_gt; lia).
    destruct l as [|[k x] l'].
    + cbn [print_members app skip_ws is_ws N.eqb Pos.eqb orb]. reflexivity.
    + assert (E : exists r, print_members ((k, x) :: l') ++ rest = 34 :: r).
      { cbn [print_members]. unfold print_string. cbn [app]. eauto. }
      destruct E as (r & E). rewrite E. cbn [skip_ws is_ws N.eqb Pos.eqb orb]. rewrite <- E.
      rewrite (members_read_back ((k, x) :: l') IH ltac:(discriminate) Hwf f (S d) rest) by lia. reflexivity.
Qed.

(* ---- the fuel of [json_parse] suffices for what [json_print] produced ---- *)
Lemma need_le v : (need v <= 2 * length (json_print v) + 1)%nat.
Proof.
  induction v as [ |b|t|s|l IH|l IH] using jvalue_ind'; try (cbn [need]; lia).
  - rewrite json_print_arr. cbn [need length]. fold (need_elems l).
    assert (H : (need_elems l <= 2 * length (print_elems l))%nat).
    { induction IH as [|x l' Hx _ IHl]; [cbn; lia|].
      cbn [need_elems fold_right print_elems]. fold (need_elems l'). rewrite app_length.
      destruct l' as [|y l'']; [cbn [need_elems fold_right length] in *; lia|].
      cbn [length]. lia. }
    lia.
  - rewrite json_print_obj. cbn [need length]. fold (need_members l).
    assert (H : (need_members l <= 2 * length (print_members l))%nat).
    { induction IH as [|[k x] l' Hx _ IHl]; [cbn; lia|]. cbn [snd] in Hx.
      cbn [need_members fold_right print_members snd]. fold (need_members l').
      rewrite !app_length. cbn [length]. rewrite app_length.
      destruct l' as [|y l'']; [cbn [need_members fold_right length] in *; lia|].
      cbn [length]. lia. }
    lia.
Qed.

(* ---- main theorem: reading what was printed ---- *)
Theorem json_parse_print v : jwf v = true -> (jdepth v <= max_depth)%nat ->
  json_parse (json_print v) = POk v.
Proof.
  intros Hwf Hd. unfold json_parse, json_fuel.
  rewrite <- (app_nil_r (json_print v)) at 2. rewrite skip_ws_print by exact Hwf.
  rewrite (all_read_back v Hwf _ 0%nat [] (need_le v) ltac:(lia) eq_refl). reflexivity.
Qed.

(* ---- the reader always finishes within its fuel ---- *)
Definition shrinks {A} (x : presult (A * list N)) (m : nat) : Prop :=
  match x with
  | POk (_, r) => (length r < m)%nat
  | PErr => True
  | PFuel => False
  end.

Lemma shrinks_pcons bs (x : presult (list N * list N)) m m' :
  shrinks x m -> (m <= m')%nat -> shrinks (pcons bs x) m'.
Proof. destruct x as [[s r]| |]; cbn [shrinks pcons]; intros; try lia; auto. Qed.

Lemma skip_ws_len s : (length (skip_ws s) <= length s)%nat.
Proof. induction s as [|c s IH]; [cbn; lia|]. cbn [skip_ws]. destruct (is_ws c); cbn [length]; lia. Qed.

Lemma lit_len l : forall s r, lit l s = Some r -> (length r <= length s)%nat.
Proof.
  induction l as [|x l IH]; intros s r H; cbn [lit] in H; [inversion H; lia|].
  destruct s as [|y s]; [discriminate|]. destruct (x =? y); [|discriminate].
  apply IH in H. cbn [length]. lia.
Qed.

Lemma parse_str_len n : forall s, (length s <= n)%nat -> shrinks (parse_str s) (length s).
Proof.
  induction n as [|n IH]; intros s Hn.
  - destruct s; [exact I|cbn in Hn; lia].
  - destruct s as [|c r]; [exact I|]. cbn [parse_str].
    repeat match goal with
    | |- shrinks PErr _ => exact I
    | |- shrinks (POk _) _ => cbn [shrinks length]; lia
    | |- shrinks (pcons _ (parse_str ?t)) _ =>
      apply (shrinks_pcons _ _ (length t)); [apply IH; cbn [length] in *; lia|cbn [length]; lia]
    | |- shrinks (if ?b then _ else _) _ => destruct b
    | |- shrinks (match ?x with _ => _ end) _ => destruct x
    end.
Qed.

Lemma scan_number_len s t r : scan_number s = Some (t, r) -> (length r < length s)%nat.
Proof.
  intros H. destruct (scan_number_spec _ _ _ H) as [-> (c & t' & -> & _)].
  rewrite app_length. cbn [length]. lia.
Qed.

Lemma skip_ws_cons s c r : skip_ws s = c :: r -> (S (length r) <= length s)%nat.
Proof. intros H. pose proof (skip_ws_len s) as L. rewrite H in L. exact L. Qed.

Lemma parse_total f :
  (forall d s, (2 * length s + 1 <= f)%nat -> shrinks (parse_value f d s) (length s)) /\
  (forall d s, (2 * length s + 2 <= f)%nat -> shrinks (parse_elems f d s) (length s)) /\
  (forall d s, (2 * length s + 2 <= f)%nat -> shrinks (parse_members f d s) (length s)).
Proof.
  induction f as [|f (IHv & IHe & IHm)].
  - repeat split; intros d s H; lia.
  - repeat split; intros d s H.
    + destruct s as [|c r]; [exact I|]. cbn [length] in H. cbn [parse_value].
      destruct (c =? 110).
      { destruct (lit [117; 108; 108] r) eqn:L; [|exact I]. apply lit_len in L. cbn [shrinks length]. lia. }
      destruct (c =? 116).
      { destruct (lit [114; 117; 101] r) eqn:L; [|exact I]. apply lit_len in L. cbn [shrinks length]. lia. }
      destruct (c =? 102).
      { destruct (lit [97; 108; 115; 101] r) eqn:L; [|exact I]. apply lit_len in L. cbn [shrinks length]. lia. }
      destruct (c =? 34).
      { pose proof (parse_str_len (length r) r (le_n _)) as P.
        destruct (parse_str r) as [[str r']| |]; cbn [shrinks length] in *; auto; lia. }
      destruct (c =? 91).
      { destruct (Nat.leb max_depth d); [exact I|].
        destruct (skip_ws r) as [|c1 r1] eqn:E; [exact I|]. apply skip_ws_cons in E.
        destruct (c1 =? 93); [cbn [shrinks length]; lia|].
        pose proof (IHe (S d) (c1 :: r1) ltac:(cbn [length]; lia)) as P.
        destruct (parse_elems f (S d) (c1 :: r1)) as [[l r']| |]; cbn [shrinks length] in *; auto; lia. }
      destruct (c =? 123).
      { destruct (Nat.leb max_depth d); [exact I|].
        destruct (skip_ws r) as [|c1 r1] eqn:E; [exact I|]. apply skip_ws_cons in E.
        destruct (c1 =? 125); [cbn [shrinks length]; lia|].
        pose proof (IHm (S d) (c1 :: r1) ltac:(cbn [length]; lia)) as P.
        destruct (parse_members f (S d) (c1 :: r1)) as [[l r']| |]; cbn [shrinks length] in *; auto; lia. }
      destruct ((c =? 45) || is_digit c); [|exact I].
      destruct (scan_number (c :: r)) as [[t r']|] eqn:S; [|exact I].
      apply scan_number_len in S. cbn [shrinks length] in *. lia.
    + cbn [parse_elems].
      pose proof (IHv d s ltac:(lia)) as P.
      destruct (parse_value f d s) as [[v r]| |]; cbn [shrinks] in P; [|exact I|contradiction].
      destruct (skip_ws r) as [|c r1] eqn:E; [exact I|]. apply skip_ws_cons in E.
      destruct (c =? 44).
      { pose proof (skip_ws_len r1) as L1.
        pose proof (IHe d (skip_ws r1) ltac:(lia)) as Q.
        destruct (parse_elems f d (skip_ws r1)) as [[l r']| |]; cbn [shrinks] in *; auto; lia. }
      destruct (c =? 93); [cbn [shrinks]; lia|exact I].
    + cbn [parse_members]. destruct s as [|q r0]; [exact I|]. cbn [length] in H.
      destruct (q =? 34); [|exact I].
      pose proof (parse_str_len (length r0) r0 (le_n _)) as P.
      destruct (parse_str r0) as [[k r]| |]; cbn [shrinks] in P; [|exact I|contradiction].
      destruct (skip_ws r) as [|c r1] eqn:E; [exact I|]. apply skip_ws_cons in E.
      destruct (c =? 58); [|exact I].
      pose proof (skip_ws_len r1) as L1.
      pose proof (IHv d (skip_ws r1) ltac:(lia)) as Q.
      destruct (parse_value f d (skip_ws r1)) as [[v r2]| |]; cbn [shrinks] in Q; [|exact I|contradiction].
      destruct (skip_ws r2) as [|c2 r3] eqn:E2; [exact I|]. apply skip_ws_cons in E2.
      destruct (c2 =? 44).
      { pose proof (skip_ws_len r3) as L3.
        pose proof (IHm d (skip_ws r3) ltac:(lia)) as R.
        destruct (parse_members f d (skip_ws r3)) as [[l r']| |]; cbn [shrinks length] in *; auto; lia. }
      destruct (c2 =? 125); [cbn [shrinks length]; lia|exact I].
Qed.

Theorem json_parse_total text : json_parse text <> PFuel.
Proof.
  unfold json_parse, json_fuel. pose proof (skip_ws_len text) as L.
  destruct (parse_total (2 * length text + 1)) as (Hv & _ & _).
  specialize (Hv 0%nat (skip_ws text) ltac:(lia)).
  destruct (parse_value (2 * length text + 1) 0 (skip_ws text)) as [[v r]| |]; cbn [shrinks] in Hv.
  - destruct (is_nil (skip_ws r)); discriminate.
  - discriminate.
  - contradiction.
Qed.

(* so every text is either read as a tree or refused *)
Theorem json_parse_decides text :
  (exists v, json_parse text = POk v) \/ json_parse text = PErr.
Proof.
  pose proof (json_parse_total text) as T. destruct (json_parse text) as [v| |]; [eauto|auto|congruence].
Qed.
