(* MIC validation as a receiver runs it on octets taken from the air: decode, then
   validate - and the specification's MIC over those octets AS RECEIVED.
   The library's MIC functions hash a re-encoding of the decoded value; where the
   decoders drop RFU parts (MHDR bits 4..2, RFU bits of MAC commands once FOpts are
   decoded, RxDelay bits 7..4 and the RFU octets of a channel-mask CFList in a
   join-accept) the two differ: known findings C02-1, C02-2, C04-2, C04-3 (and C05-2).
   Model file: definitions only (proofs in WireMICProofs.v). *)
From Coq Require Import List NArith ZArith Bool.
From LW Require Import Base.Outcome Base.Bytes Crypto.AES Crypto.CMAC Mac.Commands Mac.Stream Frame.Model
     Sec.MIC Sec.MICSpec Sec.Encrypt Sec.JoinAccept Sec.JoinSpec Sec.EndToEnd.
Import ListNotations.
Open Scope N_scope.

(* ---- the receiver's calls ---- *)
(* UnmarshalBinary; FCnt := full; [DecodeFOptsToMACCommands;] Validate{Uplink,Downlink}DataMIC *)
Definition wire_validate_data (decode_first : bool) (reg : registry) (ver : macver) (up : bool)
           (conf txdr txch : N) (fk sk : list N) (full : N) (bs : list N) : outcome bool :=
  do p <- phy_unmarshal bs;
  let p1 := set_fcnt full p in
  do p2 <- (if decode_first then phy_decode_fopts reg p1 else Ok p1);
  if up then validate_up_mic ver conf txdr txch fk sk p2 else validate_down_mic ver conf sk p2.

(* UnmarshalBinary; ValidateUplinkJoinMIC *)
Definition wire_validate_up_join (key : list N) (bs : list N) : outcome bool :=
  do p <- phy_unmarshal bs; validate_up_join_mic key p.

(* UnmarshalBinary; DecryptJoinAcceptPayload enckey; ValidateDownlinkJoinMIC *)
Definition wire_join_accept (ty : N) (je : list N) (dn : N) (key enckey : list N) (bs : list N)
  : outcome (phy * bool) :=
  do p <- phy_unmarshal bs;
  do q <- decrypt_join_accept enckey p;
  do b <- validate_down_join_mic ty je dn key q;
  Ok (q, b).

(* ---- the specification over the received octets ---- *)
Definition sver (v : macver) : version := match v with LoRaWAN1_0 => V1_0 | LoRaWAN1_1 => V1_1 end.

(* data frame: MHDR | DevAddr(4, LSB first) | FCtrl | FCnt(2) | ... | MIC(4): (carried, specified, FCnt on the wire) *)
Definition wire_spec_data (ver : macver) (up : bool) (conf txdr txch : N) (fk sk : list N) (full : N) (bs : list N)
  : option (list N * list N * N) :=
  let n := length bs in
  if (n <? 12)%nat then None else
  let msg := firstn (n - 4) bs in
  let da := rev (firstn 4 (skipn 1 bs)) in
  let a := N.testbit (nth 5 bs 0) 5 in
  Some (skipn (n - 4) bs,
        (if up then spec_up_mic (sver ver) fk sk conf txdr txch a da full msg
         else spec_down_mic (sver ver) sk conf a da full msg),
        le_val (firstn 2 (skipn 6 bs))).

(* join-request / rejoin-request: MIC = cmac(key, all octets but the last four)[0..3] *)
Definition wire_spec_up_join (key : list N) (bs : list N) : list N * list N :=
  let n := length bs in (skipn (n - 4) bs, mic_of key (firstn (n - 4) bs)).

(* join-accept: the device decrypts everything after the MHDR octet with aes128_encrypt; the MIC covers the MHDR
   octet as received and the decrypted octets (with the 1.1 prefix when the OptNeg bit of DLSettings is set):
   (decrypted payload octets, carried MIC, specified MIC) *)
Definition wire_spec_join_accept (ty : N) (je : list N) (dn : N) (key enckey : list N) (bs : list N)
  : option (list N * list N * list N) :=
  match bs with
  | mhdr :: ct =>
    if negb (Nat.eqb (length ct mod 16) 0) || (length ct <? 16)%nat then None else
    let pt := device_decrypt enckey ct in
    let body := firstn (length pt - 4) pt in
    let optneg := N.testbit (nth 10 body 0) 7 in
    Some (body, skipn (length pt - 4) pt,
          if optneg then spec_join_accept_mic_11 key ty je dn mhdr body
          else spec_join_accept_mic_10 key mhdr body)
  | [] => None
  end.
