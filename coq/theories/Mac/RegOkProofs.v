(* every registry reachable from the live built-in one by any history of
   RegisterProprietaryMACCommand calls carries, for each entry, the encoded
   length of its payload kind *)
From Coq Require Import List NArith ZArith Bool Lia.
From LW Require Import Base.Outcome Base.Bytes Mac.Commands Mac.Spec Mac.Stream Mac.RegistryProofs Mac.EncProofs Mac.StreamProofs.
From LWGen Require Import RegistryGen.
Import ListNotations.
Open Scope N_scope.

Lemma builtin_positive :
  forallb (fun e : (bool * N) * (Z * kind) => (0 <? fst (snd e))%Z && negb (kind_eqb (snd (snd e)) KProprietary)) builtin_registry = true.
Proof. vm_compute. reflexivity. Qed.

Lemma reg_ok_builtin : reg_ok builtin_registry.
Proof.
  intros up cid sz k H. pose proof (registry_complete up cid sz k H) as (_ & _ & Hs).
  apply reg_lookup_in in H. pose proof builtin_positive as P. rewrite forallb_forall in P.
  specialize (P _ H). cbn in P. apply andb_true_iff in P as [P _]. split; [lia|auto].
Qed.

Lemma reg_ok_register r up cid sz : reg_ok r -> reg_ok (fst (register r up cid sz)).
Proof.
  intros Hr. unfold register.
  destruct (negb ((128 <=? cid) && (cid <=? 255))); [exact Hr|].
  destruct (sz <? 0)%Z eqn:E1; [exact Hr|].
  destruct (sz =? 0)%Z eqn:E2.
  { (* size 0: the entry is removed; what remains was there before *)
    cbn [fst]. intros u c s k H. rewrite reg_lookup_remove in H.
    destruct (Bool.eqb up u && (cid =? c)); [discriminate|]. now apply (Hr u c s k). }
  cbn [fst]. intros u c s k H. cbn [reg_lookup] in H.
  destruct (Bool.eqb up u && (cid =? c)).
  - injection H as <- <-. split; [lia|congruence].
  - now apply (Hr u c s k).
Qed.

Theorem reg_ok_history h : reg_ok (register_all builtin_registry h).
Proof.
  unfold register_all. generalize reg_ok_builtin. generalize builtin_registry.
  induction h as [|[[u c] sz] h IH]; intros r Hr; cbn [fold_left]; [exact Hr|].
  apply IH. now apply reg_ok_register.
Qed.

(* ---- finding C07-8 (known): MACCommand.MarshalBinary does not compare the payload with what the
   CID has in the registry (it has no direction argument).  Without the premise [cmd_ok] of
   [stream_roundtrip] the stream statement is false on today's code; every payload below is a
   well-formed, in-range value that encodes without error. ---- *)
Definition encodable (it : item) : Prop :=
  match it with
  | IMac c None => c < 256
  | IMac c (Some v) => c < 256 /\ wf_go v = true /\ spec_in_range v = true
  | IData _ => False
  end.

Definition unchecked_witness (h : list (bool * N * Z)) (up : bool) (cmds : list item) : Prop :=
  Forall encodable cmds /\
  exists bs, encode_cmds cmds = Ok bs /\
             decode_stream (register_all builtin_registry h) up bs <> Ok (map item_resolution cmds).

Theorem stream_unchecked_refuted :
  (* a CID that has a payload, sent without one: LinkADRReq swallows the four DevStatusReq *)
  unchecked_witness [] false [IMac 3 None; IMac 6 None; IMac 6 None; IMac 6 None; IMac 6 None] /\
  (* a payload for a CID that has none downlink: DevStatusReq with a DevStatusAns payload = three DevStatusReq *)
  unchecked_witness [] false [IMac 6 (Some (PDevStatusAns 6 6))] /\
  (* proprietary payload longer than the registered size: the surplus byte becomes a command *)
  unchecked_witness [(false, 160, 2%Z)] false [IMac 160 (Some (PProprietary [6; 6; 6])); IMac 6 None; IMac 6 None] /\
  (* ... shorter: the next command is swallowed *)
  unchecked_witness [(false, 160, 2%Z)] false [IMac 160 (Some (PProprietary [6])); IMac 6 None; IMac 6 None] /\
  (* ... for a CID that was never registered *)
  unchecked_witness [(false, 160, 2%Z)] false [IMac 161 (Some (PProprietary [6; 6])); IMac 6 None; IMac 6 None].
Proof.
  repeat split;
    try (repeat constructor; cbn; try reflexivity; try lia; fail);
    (eexists; split; [vm_compute; reflexivity | vm_compute; discriminate]).
Qed.
