// ISO8601Time cases evaluated in Coq against LW.Backend.Iso8601 (format_rfc3339 / parse_rfc3339).
package main

import (
	"fmt"
	"time"

	"github.com/brocaar/lorawan/backend"
	"verifharness/internal/cases"
	"verifharness/internal/cq"
)

// parseObs: what UnmarshalText makes of a text: Some (unix seconds, zone offset in seconds) or None.
func parseObs(text []byte) (string, bool, time.Time) {
	var t backend.ISO8601Time
	if err := t.UnmarshalText(text); err != nil {
		return cq.None, false, time.Time{}
	}
	tt := time.Time(t)
	_, off := tt.Zone()
	return cq.Some(cq.Tuple(cq.Z(tt.Unix()), cq.Z(int64(off)))), true, tt
}

// timeCase: the instant (secs, off) through MarshalText, the text through UnmarshalText.
func timeCase(s *cases.Set, secs int64, ns int64, off int, utcLoc bool, kind string) {
	loc := time.FixedZone("", off)
	if utcLoc && off == 0 {
		loc = time.UTC
	}
	t := time.Unix(secs, ns).In(loc)
	txt, err := backend.ISO8601Time(t).MarshalText()
	if err != nil {
		s.Fail(cases.GoFail{Key: fmt.Sprintf("iso8601:marshal:secs=%d:off=%d", secs, off), What: "ISO8601Time.MarshalText returns an error: " + err.Error(),
			Replay: map[string]interface{}{"api": "backend.ISO8601Time.MarshalText", "unix": secs, "zone_offset_s": off}})
		return
	}
	obs, _, _ := parseObs(txt)
	s.Add(cases.Case{Term: fmt.Sprintf("CTime %s %s %s %s", cq.Z(secs), cq.Z(int64(off)), cq.Bytes(txt), obs),
		Key: fmt.Sprintf("iso8601:rt:unix=%d:off=%d:%s", secs, off, txt), Kind: kind, Nontrivial: true,
		Replay: map[string]interface{}{"api": "backend.ISO8601Time.MarshalText -> UnmarshalText", "unix": secs, "nanoseconds": ns, "zone_offset_s": off, "text": string(txt), "observed_parse": obs}})
}

// textCase8601: an arbitrary text through UnmarshalText; accepted texts of an unusual form are also sent back through MarshalText.
func textCase8601(s *cases.Set, text string, kind string, alsoBack bool) {
	obs, ok, tt := parseObs([]byte(text))
	s.Add(cases.Case{Term: fmt.Sprintf("CTimeText %s %s", cq.Bytes([]byte(text)), obs),
		Key: fmt.Sprintf("iso8601:text:%q", text), Kind: kind, Nontrivial: true,
		Replay: map[string]interface{}{"api": "backend.ISO8601Time.UnmarshalText", "text": text, "observed": obs}})
	if ok && alsoBack {
		_, off := tt.Zone()
		timeCase(s, tt.Unix(), int64(tt.Nanosecond()), off, false, kind+"-parsed-value-marshalled")
	}
}

var isoOffsets = []int{0, 60, -60, 59 * 60, -59 * 60, 3600, -3600, 19800, -19800, 45900, -45900, 50400, -50400, 86340, -86340}

func isoBoundaries() []time.Time {
	d := func(y, m, dd, h, mi, sec int) time.Time {
		return time.Date(y, time.Month(m), dd, h, mi, sec, 0, time.UTC)
	}
	return []time.Time{
		d(0, 1, 1, 0, 0, 0), d(0, 2, 29, 12, 0, 0), d(0, 12, 31, 23, 59, 59), d(1, 1, 1, 0, 0, 0), d(4, 2, 29, 0, 0, 0),
		d(100, 2, 28, 23, 59, 59), d(100, 3, 1, 0, 0, 0), d(400, 2, 29, 23, 59, 59), d(1900, 2, 28, 23, 59, 59), d(1900, 3, 1, 0, 0, 0),
		d(1969, 12, 31, 23, 59, 59), d(1970, 1, 1, 0, 0, 0), d(1970, 1, 1, 0, 0, 1), d(1972, 2, 29, 0, 0, 0), d(1972, 6, 30, 23, 59, 59),
		d(1999, 12, 31, 23, 59, 59), d(2000, 1, 1, 0, 0, 0), d(2000, 2, 29, 12, 34, 56), d(2016, 12, 31, 23, 59, 59),
		d(2038, 1, 19, 3, 14, 7), d(2038, 1, 19, 3, 14, 8), d(2100, 2, 28, 23, 59, 59), d(2100, 3, 1, 0, 0, 0), d(2400, 2, 29, 0, 0, 0),
		d(9999, 1, 1, 0, 0, 0), d(9999, 12, 31, 0, 0, 0), d(9999, 12, 31, 23, 59, 59),
	}
}

func isoCoqCases(s *cases.Set, r *cq.RNG, thorough bool) {
	// ---- boundary instants x zone offsets ----
	for i, t := range isoBoundaries() {
		for j, off := range isoOffsets {
			if !thorough && j != 0 && (i+j)%3 != 0 {
				continue
			}
			timeCase(s, t.Unix(), 0, off, j == 0 && i%2 == 0, "iso8601-boundary-instant-x-zone")
		}
	}
	// ---- the last second of every month and the first of the next ----
	years := []int{1900, 2000, 2023, 2024, 2100}
	if thorough {
		years = append(years, 0, 1, 4, 100, 400, 1600, 1999, 2001, 2096, 2104, 2400, 9996, 9999)
	}
	for _, y := range years {
		for m := 1; m <= 12; m++ {
			first := time.Date(y, time.Month(m)+1, 1, 0, 0, 0, 0, time.UTC)
			if first.Year() > 9999 {
				continue
			}
			off := isoOffsets[r.Intn(len(isoOffsets))]
			// local civil time is the month end: the instant is shifted by the offset
			timeCase(s, first.Unix()-1-int64(off), 0, off, true, "iso8601-month-end")
			timeCase(s, first.Unix()-int64(off), 0, off, true, "iso8601-month-start")
		}
	}
	s.Exhaustive("iso8601: the last second of every month and the first second of the next in the years 1900, 2000, 2023, 2024, 2100 (local civil time, random zone from the offset list), evaluated in Coq")
	// ---- random instants of the years 0..9999 ----
	n := 150
	if thorough {
		n = 6000
	}
	for i := 0; i < n; i++ {
		secs := int64(r.U64()%(253402300799+62167219200+1)) - 62167219200
		off := isoOffsets[r.Intn(len(isoOffsets))]
		if i%2 == 0 {
			off = (r.Intn(2*1440-1) - 1439) * 60 // any whole minute with |offset| < 24 h
		}
		ns := int64(0)
		if i%3 == 0 {
			ns = int64(r.U64() % 1000000000)
		}
		timeCase(s, secs, ns, off, i%4 == 0, "iso8601-random-instant")
	}
	// ---- outside RFC 3339 (model of Format only; the round trip is not claimed): other years, sub-minute and long offsets ----
	for _, c := range []struct {
		secs int64
		off  int
	}{
		{time.Date(-1, 12, 31, 23, 59, 59, 0, time.UTC).Unix(), 0}, {time.Date(-9999, 1, 1, 0, 0, 0, 0, time.UTC).Unix(), 0}, {time.Date(-400, 2, 29, 0, 0, 0, 0, time.UTC).Unix(), 3600},
		{time.Date(10000, 1, 1, 0, 0, 0, 0, time.UTC).Unix(), 0}, {time.Date(12000, 1, 1, 12, 0, 0, 0, time.UTC).Unix(), 0}, {time.Date(99999, 12, 31, 23, 59, 59, 0, time.UTC).Unix(), -60},
		{time.Date(0, 1, 1, 0, 0, 0, 0, time.UTC).Unix(), -3600}, {time.Date(9999, 12, 31, 23, 59, 59, 0, time.UTC).Unix(), 60},
		{0, 1}, {0, -1}, {0, 59}, {0, -59}, {0, 61}, {0, -61}, {-2208945600, 1172}, {946684800, 3599}, {946684800, -3599}, {946684800, 86399}, {946684800, -86399},
		{946684800, 86400}, {946684800, -86400}, {946684800, 90000}, {946684800, -90000}, {946684800, 360000}, {946684800, -360060},
	} {
		timeCase(s, c.secs, 0, c.off, false, "iso8601-outside-rfc3339-format-only")
	}

	// ---- texts ----
	for _, t := range []string{
		"2000-01-01T00:00:00Z", "2000-01-01T00:00:00+00:00", "2000-01-01T00:00:00-00:00", "2000-01-01t00:00:00z", "2000-01-01T00:00:00z", "2000-01-01 00:00:00Z",
		"2000-01-01T24:00:00Z", "2000-01-01T23:60:00Z", "2000-01-01T23:59:60Z", "2016-12-31T23:59:60Z", "2000-01-01T23:59:59+24:00", "2000-01-01T23:59:59+23:59", "2000-01-01T23:59:59+23:60",
		"2000-01-01T23:59:59-23:59", "2000-01-01T23:59:59+14:00", "2000-01-01T23:59:59+24:60", "2000-01-01T23:59:59-24:60", "2000-01-01T23:59:59+24:61", "2000-01-01T23:59:59+25:00",
		"2000-01-01T23:59:59.5Z", "2000-01-01T23:59:59.Z", "2000-01-01T23:59:59,5Z", "2000-01-01T23:59:59.123456789123Z", "2000-01-01T23:59:59;5Z", "2000-01-01T23:59:59.5.5Z", "2000-01-01T23:59:59.5,5Z",
		"2000-02-30T00:00:00Z", "2001-02-29T00:00:00Z", "2100-02-29T00:00:00Z", "2000-02-29T00:00:00Z", "1900-02-29T00:00:00Z", "2400-02-29T00:00:00Z", "0000-02-29T00:00:00Z", "0100-02-29T00:00:00Z", "0004-02-29T00:00:00Z",
		"2000-13-01T00:00:00Z", "2000-00-01T00:00:00Z", "2000-01-00T00:00:00Z", "2000-01-32T00:00:00Z", "2000-04-31T00:00:00Z", "2000-06-31T00:00:00Z", "2000-09-31T00:00:00Z", "2000-11-31T00:00:00Z", "2000-12-31T00:00:00Z",
		"12000-01-01T00:00:00Z", "200-01-01T00:00:00Z", "0000-01-01T00:00:00Z", "0000-01-01T00:00:00+23:59", "9999-12-31T23:59:59-23:59", " 2000-01-01T00:00:00Z", "2000-01-01T00:00:00Z ", "2000-01-01T00:00:00", "2000-01-01T00:00:00\n",
		"2000-1-01T00:00:00Z", "2000-01-1T00:00:00Z", "2000-01-01T0:00:00Z", "2000-01-01T9:59:59+01:00", "2000-01-01T00:0:00Z", "2000-01-01T00:00:0Z", "2000-01-01T00:00:00+1:00", "2000-01-01T00:00:00+01:0", "2000-01-01T00:00:00+0100", "2000-01-01T00:00:00+01",
		"2000-01-01T00:00:00+01:00:00", "2000-01-01T00:00:00ZZ", "2000-01-01T00:00:00Z+01:00", "2000/01/01T00:00:00Z", "2000-01-01T00.00.00Z", "+2000-01-01T00:00:00Z", "-200-01-01T00:00:00Z", "-2000-01-01T00:00:00Z", "2000-01-01T00:00:00.000000000000000000001Z",
		"2000-01-01T00:00:00+00:60", "2000-01-01T00:00:00+99:00", "2000-01-01T00:00:00 +01:00", "2000-01-01T00:00:00.5+01:00", "2000-01-01T00:00:00.+01:00", "\xef\xbc\x92000-01-01T00:00:00Z", "2000-01-01T00:00:00\xe2\x88\x9201:00", "2000-01-01T-1:00:00Z", "2000-01-01T+1:00:00Z",
		"", "Z", "T", "2000", "2000-01-01", "2000-01-01T", "2000-01-01T00", "2000-01-01T00:00", "2000-01-01T00:00Z", "2000-01-01T00:00:00.9999999999Z", "2000-01-01T00:00:00.a5Z", "2000-01-01T00:00:00.5aZ", "2000-01-01T00:00:00+0a:00", "2000-01-01T00:00:00+00:a0",
		"2000-01-01T00:00:00*01:00", "2000-01-01T00:00:00 01:00", "2000-01-01T00:00:00\x0001:00", "2000-01-01T000:00:00Z", "2000-01-01T1:2:3Z", "20000101T000000Z", "2000-01-01T00:00:00GMT", "2000-01-01T00:00:00UTC", "2000-01-01T00:00:00+00:00Z", "2000-01-01T00:00:00,Z",
		"1969-12-31T23:59:59.999999999-00:01", "9999-12-31T23:59:59.999999999Z", "9999-12-31T23:59:59-24:60", "0000-01-01T00:00:00+24:60",
	} {
		textCase8601(s, t, "iso8601-text-handwritten", true)
	}
	// valid texts with a fraction of every length 1..12 in front of the zone
	for i := 1; i <= 12; i++ {
		frac := ""
		for j := 0; j < i; j++ {
			frac += string(rune('0' + r.Intn(10)))
		}
		sep := []string{".", ","}[i%2]
		textCase8601(s, "2024-02-29T23:59:59"+sep+frac+"Z", "iso8601-text-fraction", true)
		textCase8601(s, "1999-12-31T00:00:00"+sep+frac+"-05:30", "iso8601-text-fraction", true)
	}
	// day-of-month limits: every month of a leap, a common, a century and a 400-year
	ys := []int{1900, 2000, 2023, 2024}
	for _, y := range ys {
		for m := 1; m <= 12; m++ {
			for _, d := range []int{0, 1, 28, 29, 30, 31, 32} {
				if !thorough && (d == 0 || d == 1 || d == 28) && m != 2 {
					continue
				}
				textCase8601(s, fmt.Sprintf("%04d-%02d-%02dT12:00:00Z", y, m, d), "iso8601-text-day-of-month-limit", false)
			}
		}
	}
	s.Exhaustive("iso8601: days 29, 30, 31, 32 of every month (0, 1, 28 for February) of the years 1900, 2000, 2023, 2024 through UnmarshalText, evaluated in Coq")
	// field limits
	for _, h := range []string{"00", "0", "9", "09", "19", "23", "24", "25", "29", "30", "99"} {
		textCase8601(s, "2001-09-09T"+h+":46:40Z", "iso8601-text-field-limit", false)
	}
	for _, v := range []string{"00", "09", "59", "60", "61", "99"} {
		textCase8601(s, "2001-09-09T01:"+v+":40Z", "iso8601-text-field-limit", false)
		textCase8601(s, "2001-09-09T01:46:"+v+"Z", "iso8601-text-field-limit", false)
	}
	for _, mo := range []string{"00", "01", "09", "10", "12", "13", "19", "20", "99"} {
		textCase8601(s, "2001-"+mo+"-09T01:46:40Z", "iso8601-text-field-limit", false)
	}
	for _, sg := range []string{"+", "-", " ", "Z", "*", "\xe2"} {
		for _, zh := range []string{"00", "01", "14", "23", "24", "25", "99"} {
			for _, zm := range []string{"00", "59", "60", "61"} {
				if !thorough && sg != "+" && sg != "-" && !(zh == "01" && zm == "00") {
					continue
				}
				textCase8601(s, "2001-09-09T01:46:40"+sg+zh+":"+zm, "iso8601-text-zone-limit", sg == "+" && (zh == "24" || zm == "60"))
			}
		}
	}
	// one-character mutations of valid texts: replacement, deletion, insertion at every position
	alphabet := []byte("0123456789:-+TZtz., /aW\x00\xff")
	bases := []string{"2024-02-29T23:59:59Z", "1987-06-15T08:05:09+05:30", "0999-10-31T19:00:00-11:45", "2001-09-09T01:46:40.25Z"}
	per := 4
	if thorough {
		per = len(alphabet)
	}
	seen := map[string]bool{}
	emit := func(t string) {
		if !seen[t] {
			seen[t] = true
			textCase8601(s, t, "iso8601-text-one-character-mutation", false)
		}
	}
	for bi, b := range bases {
		if !thorough && bi >= 3 {
			break
		}
		for i := 0; i <= len(b); i++ {
			for k := 0; k < per; k++ {
				c := alphabet[r.Intn(len(alphabet))]
				if thorough {
					c = alphabet[k]
				}
				if i < len(b) {
					emit(b[:i] + string([]byte{c}) + b[i+1:])
				}
				if k == 0 {
					emit(b[:i] + string([]byte{c}) + b[i:])
				}
			}
			if i < len(b) {
				emit(b[:i] + b[i+1:])
			}
		}
	}
	// random printable garbage of plausible lengths, and random bytes
	m := 30
	if thorough {
		m = 1500
	}
	for i := 0; i < m; i++ {
		l := 18 + r.Intn(10)
		t := make([]byte, l)
		for j := range t {
			t[j] = alphabet[r.Intn(len(alphabet))]
		}
		if i%2 == 0 { // keep the skeleton, randomise the digits only
			t = []byte("0000-00-00T00:00:00+00:00")
			for j := range t {
				if t[j] == '0' {
					t[j] = byte('0' + r.Intn(10))
				}
			}
			if i%4 == 0 {
				t = append(t[:19], 'Z')
			}
		}
		textCase8601(s, string(t), "iso8601-text-random", i%2 == 0)
	}
}
